#!/usr/bin/env python3
"""Extract the lazy table-initialisation protocol (ensure_tables / tables_are_ready in src/ada_idna.cpp)
and the global length-limit accessors (src/implementation.cpp) as a small IR for Lean."""
import re
import sys
from pathlib import Path


def strip_comments(t):
    t = re.sub(r"/\*.*?\*/", "", t, flags=re.S)
    return "\n".join(l.split("//")[0] for l in t.split("\n"))


def func_body(text, sig_re):
    m = re.search(sig_re, text)
    if not m:
        return None
    i = text.index("{", m.end())
    depth, j = 0, i
    while True:
        if text[j] == "{":
            depth += 1
        elif text[j] == "}":
            depth -= 1
            if depth == 0:
                break
        j += 1
    return text[i:j + 1]


def order(s):
    m = re.search(r"memory_order_(\w+)", s)
    return m.group(1) if m else "seq_cst"


def extract(repo):
    idna = strip_comments((Path(repo) / "src" / "ada_idna.cpp").read_text())
    impl = strip_comments((Path(repo) / "src" / "implementation.cpp").read_text())
    ir = {}
    body = func_body(idna, r"inline bool ensure_tables\(\)")
    ready = func_body(idna, r"inline bool tables_are_ready\(\)")
    if body is None or ready is None:
        return None
    # atomic variable
    m = re.search(r"inline std::atomic<uint8_t> (\w+)\{(\w+)\}", idna)
    ir["atomicVar"] = m.group(1) if m else "?"
    ir["initialValue"] = m.group(2) if m else "?"
    av = re.escape(ir["atomicVar"])
    consts = dict(re.findall(r"inline constexpr uint8_t (kTables\w+) = (\d+);", idna))
    ir["consts"] = consts
    # first load
    m = re.search(r"uint8_t state = " + av + r"\.load\(([^)]*)\)", body)
    ir["firstLoadOrder"] = order(m.group(1)) if m else "missing"
    # CAS
    m = re.search(av + r"\.compare_exchange_(strong|weak)\(\s*(\w+)\s*,\s*(\w+)\s*,\s*([^,]+),\s*([^)]+)\)", body)
    if m:
        ir["casKind"] = m.group(1)
        exp = m.group(2)
        mi = re.search(r"uint8_t " + re.escape(exp) + r" = (\w+);", body)
        ir["casExpected"] = mi.group(1) if mi else exp
        ir["casDesired"] = m.group(3)
        ir["casSuccessOrder"] = order(m.group(4))
        ir["casFailureOrder"] = order(m.group(5))
        cas_end = m.end()
    else:
        ir.update(casKind="missing", casExpected="missing", casDesired="missing", casSuccessOrder="missing", casFailureOrder="missing")
        cas_end = 0
    # the success block of the CAS
    blk_start = body.index("{", cas_end)
    depth, j = 0, blk_start
    while True:
        if body[j] == "{":
            depth += 1
        elif body[j] == "}":
            depth -= 1
            if depth == 0:
                break
        j += 1
    win = body[blk_start:j + 1]
    rest = body[j + 1:]
    stores = [(mm.start(), mm.group(1), order(mm.group(2))) for mm in re.finditer(av + r"\.store\((\w+),\s*([^)]*)\)", win)]
    ir["winnerStores"] = [(v, o) for _, v, o in stores]
    ready_pos = [p for p, v, _ in stores if v == "kTablesReady"]
    globals_ = re.findall(r"^inline (?:const )?[\w:]+\*? (\w+) = nullptr;", idna, re.M)
    plain = [(mm.start(), mm.group(1)) for mm in re.finditer(r"^\s*(\w+)\s*=\s*(?:\n\s*)?(?:reinterpret_cast|at\(|buffer;)", win, re.M)]
    plain = [(p, n) for p, n in plain if n in globals_]
    ir["plainStores"] = [n for _, n in plain]
    ir["pointerGlobals"] = globals_
    ir["readyAfterAllPlain"] = bool(ready_pos) and all(p < ready_pos[-1] for p, _ in plain)
    ir["readyStoreOrder"] = next((o for _, v, o in stores if v == "kTablesReady"), "missing")
    ir["failStoreOrders"] = [o for _, v, o in stores if v == "kTablesFailed"]
    # loser loop
    m = re.search(r"for \(uint64_t spins = 0; spins < (\w+); \+\+spins\)", rest)
    ir["spinBound"] = m.group(1) if m else "missing"
    m = re.search(r"state = " + av + r"\.load\(([^)]*)\)", rest)
    ir["spinLoadOrder"] = order(m.group(1)) if m else "missing"
    ir["spinReturnsOn"] = re.findall(r"if \(state == (\w+)\)", rest)
    ir["timeoutReturn"] = "false" if re.search(r"return false;\s*}\s*$", rest.strip()) else "?"
    m = re.search(av + r"\.load\(([^)]*)\)\s*==\s*(\w+)", ready)
    ir["readyCheckOrder"] = order(m.group(1)) if m else "missing"
    ir["readyCheckValue"] = m.group(2) if m else "missing"
    # other accesses to the atomic outside these two functions
    others = len(re.findall(av + r"\.(load|store|compare_exchange|exchange|fetch)", idna)) - \
        len(re.findall(av + r"\.(load|store|compare_exchange|exchange|fetch)", body)) - \
        len(re.findall(av + r"\.(load|store|compare_exchange|exchange|fetch)", ready))
    ir["otherAtomicAccesses"] = others
    # the length limit
    m = re.search(r"static std::atomic<uint32_t> (\w+)", impl)
    ir["limitVarAtomic"] = bool(m)
    lv = m.group(1) if m else "max_input_length_"
    ir["limitStoreOrder"] = order((re.search(re.escape(lv) + r"\.store\(([^;]*)\);", impl) or [None, "missing"])[1])
    ir["limitLoadOrder"] = order((re.search(re.escape(lv) + r"\.load\(([^;]*)\);", impl) or [None, "missing"])[1])
    # any other mutable namespace-scope state in implementation.cpp (a plain twin of the limit would show here)
    statics = re.findall(r"^static (?!constexpr|const\b|inline|std::atomic)([\w:<> ]+?) (\w+)\s*(?:=|\{|;)", impl, re.M)
    ir["plainStaticsInImplementation"] = [n for _, n in statics]
    # parse_url_impl reads the limit exactly once
    parser = strip_comments((Path(repo) / "src" / "parser.cpp").read_text())
    pb = func_body(parser, r"result_type parse_url_impl\(")
    ir["parserLimitReads"] = len(re.findall(r"get_max_input_length\(\)", pb or ""))
    return ir


def lean_str_list(xs):
    return "[" + ", ".join('"' + x + '"' for x in xs) + "]"


def to_lean(ir):
    b = lambda x: "true" if x else "false"
    c = ir["consts"]
    L = ["-- GENERATED by /verif/gen/init_protocol.py from /repo/src/ada_idna.cpp and src/implementation.cpp. Do not edit.",
         "namespace AdaVerif.Gen.Init", ""]
    L.append(f'def atomicVar : String := "{ir["atomicVar"]}"')
    L.append(f'def initialValue : String := "{ir["initialValue"]}"')
    L.append("def stateConsts : List (String × Nat) := [" + ", ".join(f'("{k}", {v})' for k, v in c.items()) + "]")
    for k in ["firstLoadOrder", "casKind", "casExpected", "casDesired", "casSuccessOrder", "casFailureOrder", "readyStoreOrder",
              "spinBound", "spinLoadOrder", "timeoutReturn", "readyCheckOrder", "readyCheckValue", "limitStoreOrder",
              "limitLoadOrder"]:
        L.append(f'def {k} : String := "{ir[k]}"')
    L.append("def winnerStores : List (String × String) := [" + ", ".join(f'("{v}", "{o}")' for v, o in ir["winnerStores"]) + "]")
    L.append("def failStoreOrders : List String := " + lean_str_list(ir["failStoreOrders"]))
    L.append("def plainStores : List String := " + lean_str_list(ir["plainStores"]))
    L.append("def pointerGlobals : List String := " + lean_str_list(ir["pointerGlobals"]))
    L.append("def spinReturnsOn : List String := " + lean_str_list(ir["spinReturnsOn"]))
    L.append(f"def readyAfterAllPlain : Bool := {b(ir['readyAfterAllPlain'])}")
    L.append(f"def otherAtomicAccesses : Nat := {ir['otherAtomicAccesses']}")
    L.append(f"def limitVarAtomic : Bool := {b(ir['limitVarAtomic'])}")
    L.append("def plainStaticsInImplementation : List String := " + lean_str_list(ir["plainStaticsInImplementation"]))
    L.append(f"def parserLimitReads : Nat := {ir['parserLimitReads']}")
    L += ["", "end AdaVerif.Gen.Init", ""]
    return "\n".join(L)


if __name__ == "__main__":
    ir = extract(sys.argv[1] if len(sys.argv) > 1 else "/repo")
    if ir is None:
        sys.exit("ensure_tables not found")
    print(to_lean(ir))

import AdaVerif.Lemmas.PathSig
/-
The dot-segment tests of the path builder are the Standard's: `is_single_dot_path_segment` and the hash-table based
`is_double_dot_path_segment` agree with `Spec.isSingleDot` / `Spec.isDoubleDot` on every byte string.
-/
namespace AdaVerif.Lemmas.PP
open AdaVerif AdaVerif.Spec AdaVerif.Model.PathPrepared

theorem lowerAlpha_eq : ∀ c : UInt8, toLowerAlpha c = toLowerByte c := by
  apply forall_uint8_of_fin; decide +kernel

/-- lower-casing hits a non-letter only from itself -/
theorem lower_nonletter : ∀ x : UInt8,
    (toLowerByte x = 0x2E ↔ x = 0x2E) ∧ (toLowerByte x = 0x25 ↔ x = 0x25) ∧ (toLowerByte x = 0x32 ↔ x = 0x32) ∧
    (toLowerByte x = 0x65 ↔ (x = 0x65 ∨ x = 0x45)) := by
  apply forall_uint8_of_fin; decide +kernel

theorem singleDot_eq (s : Bytes) : Model.PathPrepared.isSingleDot s = Spec.isSingleDot s := by
  unfold Model.PathPrepared.isSingleDot Spec.isSingleDot lowerAscii
  rw [Bool.eq_iff_iff]
  match s with
  | [] => simp
  | [a] => simp [(lower_nonletter a).1]
  | [a, b] => simp
  | [a, b, c] =>
    have ha := lower_nonletter a; have hb := lower_nonletter b; have hc := lower_nonletter c
    simp only [List.map_cons, List.map_nil, Bool.or_eq_true, beq_iff_eq, List.cons.injEq, and_true, ha.2.1, hb.2.2.1, hc.2.2.2]
    simp
    grind
  | _ :: _ :: _ :: _ :: _ => simp

theorem dec_beq (a b : UInt8) : decide (a = b) = (a == b) := by
  by_cases h : a = b <;> simp [h]

theorem ddt : Gen.doubleDotTable = [[0x2E, 0x2E], [0x25, 0x32, 0x65, 0x2E], [0x2E, 0x25, 0x32, 0x65], [0x25, 0x32, 0x65, 0x25, 0x32, 0x65]] := by
  decide

/-- the shape of the hash-table test once the first byte is known -/
theorem dd_model_dot (rest : Bytes) :
    Model.PathPrepared.isDoubleDot (0x2E :: rest) =
      (match rest with
       | [b] => b == 0x2E
       | [b, c, d] => b == 0x25 && toLowerByte c == 0x32 && toLowerByte d == 0x65
       | _ => false) := by
  unfold Model.PathPrepared.isDoubleDot
  match rest with
  | [] => simp
  | [b] => simp [ddt, dec_beq]
  | [b, c] => simp [ddt]
  | [b, c, d] => simp [ddt, lowerAlpha_eq, Bool.and_assoc, dec_beq]
  | [b, c, d, e] => simp [ddt]
  | [b, c, d, e, f] => simp [ddt]
  | [b, c, d, e, f, g] => simp [ddt]
  | _ :: _ :: _ :: _ :: _ :: _ :: _ :: _ => simp; omega

theorem dd_model_pct (rest : Bytes) :
    Model.PathPrepared.isDoubleDot (0x25 :: rest) =
      (match rest with
       | [b, c, d] => b == 0x32 && toLowerByte c == 0x65 && toLowerByte d == 0x2E
       | [b, c, d, e, f] => b == 0x32 && toLowerByte c == 0x65 && toLowerByte d == 0x25 && toLowerByte e == 0x32 &&
                            toLowerByte f == 0x65
       | _ => false) := by
  unfold Model.PathPrepared.isDoubleDot
  match rest with
  | [] => simp
  | [b] => simp [ddt]
  | [b, c] => simp [ddt]
  | [b, c, d] => simp [ddt, lowerAlpha_eq, Bool.and_assoc, dec_beq]
  | [b, c, d, e] => simp [ddt]
  | [b, c, d, e, f] => simp [ddt, lowerAlpha_eq, Bool.and_assoc, dec_beq]
  | [b, c, d, e, f, g] => simp [ddt]
  | _ :: _ :: _ :: _ :: _ :: _ :: _ :: _ => simp; omega

theorem dd_model_other (a : UInt8) (rest : Bytes) (h1 : a ≠ 0x2E) (h2 : a ≠ 0x25) :
    Model.PathPrepared.isDoubleDot (a :: rest) = false := by
  unfold Model.PathPrepared.isDoubleDot
  simp only
  split
  · rfl
  · have e1 : (a != 0x2E) = true := by simpa using h1
    have e2 : (a != 0x25) = true := by simpa using h2
    simp [e1, e2]

theorem lower_beq (x : UInt8) : ((toLowerByte x == 0x2E) = (x == 0x2E)) ∧ ((toLowerByte x == 0x25) = (x == 0x25)) ∧
    ((toLowerByte x == 0x32) = (x == 0x32)) := by
  have h := lower_nonletter x
  refine ⟨?_, ?_, ?_⟩ <;> rw [Bool.eq_iff_iff] <;> simp [h.1, h.2.1, h.2.2.1]

theorem dd_spec_dot (rest : Bytes) :
    Spec.isDoubleDot (0x2E :: rest) =
      (match rest with
       | [b] => b == 0x2E
       | [b, c, d] => b == 0x25 && toLowerByte c == 0x32 && toLowerByte d == 0x65
       | _ => false) := by
  unfold Spec.isDoubleDot lowerAscii
  have h0 : toLowerByte 0x2E = 0x2E := by decide
  match rest with
  | [] => simp [h0]
  | [b] => simp [h0, (lower_beq b).1]
  | [b, c] => simp [h0]
  | [b, c, d] => simp [h0, (lower_beq b).2.1, Bool.and_assoc]
  | _ :: _ :: _ :: _ :: _ => simp [h0]

theorem dd_spec_pct (rest : Bytes) :
    Spec.isDoubleDot (0x25 :: rest) =
      (match rest with
       | [b, c, d] => b == 0x32 && toLowerByte c == 0x65 && toLowerByte d == 0x2E
       | [b, c, d, e, f] => b == 0x32 && toLowerByte c == 0x65 && toLowerByte d == 0x25 && toLowerByte e == 0x32 &&
                            toLowerByte f == 0x65
       | _ => false) := by
  unfold Spec.isDoubleDot lowerAscii
  have h0 : toLowerByte 0x25 = 0x25 := by decide
  match rest with
  | [] => simp [h0]
  | [b] => simp [h0]
  | [b, c] => simp [h0]
  | [b, c, d] => simp [h0, (lower_beq b).2.2, Bool.and_assoc]
  | [b, c, d, e] => simp [h0]
  | [b, c, d, e, f] => simp [h0, (lower_beq b).2.2, Bool.and_assoc]
  | _ :: _ :: _ :: _ :: _ :: _ :: _ => simp [h0]

theorem dd_spec_other (a : UInt8) (rest : Bytes) (h1 : a ≠ 0x2E) (h2 : a ≠ 0x25) :
    Spec.isDoubleDot (a :: rest) = false := by
  unfold Spec.isDoubleDot lowerAscii
  have e1 : toLowerByte a ≠ 0x2E := fun e => h1 ((lower_nonletter a).1.mp e)
  have e2 : toLowerByte a ≠ 0x25 := fun e => h2 ((lower_nonletter a).2.1.mp e)
  simp [e1, e2]

/-- **the double-dot test**: the hash-table implementation is the Standard's definition -/
theorem doubleDot_eq (s : Bytes) : Model.PathPrepared.isDoubleDot s = Spec.isDoubleDot s := by
  cases s with
  | nil => rfl
  | cons a rest =>
    by_cases h1 : a = 0x2E
    · subst h1; rw [dd_model_dot, dd_spec_dot]
    · by_cases h2 : a = 0x25
      · subst h2; rw [dd_model_pct, dd_spec_pct]
      · rw [dd_model_other a rest h1 h2, dd_spec_other a rest h1 h2]

end AdaVerif.Lemmas.PP

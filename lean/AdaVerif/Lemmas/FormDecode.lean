import AdaVerif.Lemmas.Decode
namespace AdaVerif.Lemmas
open AdaVerif AdaVerif.Model

private def p2s (b : UInt8) : UInt8 := if b == 0x2B then 0x20 else b

private theorem p2s_hex (b : UInt8) : isAsciiHexDigit (p2s b) = isAsciiHexDigit b := by
  unfold p2s; split
  · rename_i h; simp only [beq_iff_eq] at h; subst h; decide
  · rfl

private theorem p2s_of_hex (b : UInt8) (h : isAsciiHexDigit b = true) : p2s b = b := by
  unfold p2s; split
  · rename_i h'; simp only [beq_iff_eq] at h'; subst h'; revert h; decide
  · rfl

theorem unhex_or_ge (h1 h2 : UInt8) :
    (unhex h1 ||| unhex h2 ≥ 16) ↔ ¬ (isAsciiHexDigit h1 = true ∧ isAsciiHexDigit h2 = true) := by
  have a1 := unhex_spec h1; have a2 := unhex_spec h2
  have l1 := hexVal_lt h1; have l2 := hexVal_lt h2
  cases e1 : isAsciiHexDigit h1 <;> cases e2 : isAsciiHexDigit h2 <;> simp only [e1, e2] at a1 a2 ⊢
  · simp [a1.2, a2.2]
  · simp only [a1.2 trivial, a2.1 trivial]
    have : 255 ||| hexVal h2 ≥ 255 := Nat.left_le_or
    simp; omega
  · simp only [a1.1 trivial, a2.2 trivial]
    have : hexVal h1 ||| 255 ≥ 255 := Nat.right_le_or
    simp; omega
  · simp only [a1.1 trivial, a2.1 trivial]
    have : hexVal h1 ||| hexVal h2 < 16 := Nat.or_lt_two_pow (n := 4) l1 l2
    simp; omega

theorem shift_or_eq (a b : Nat) (hb : b < 16) : (a <<< 4) ||| b = a * 16 + b := by
  rw [Nat.shiftLeft_eq]
  have : a * 2 ^ 4 = 2 ^ 4 * a := Nat.mul_comm ..
  rw [this, Nat.two_pow_add_eq_or_of_lt (i := 4) (by simpa using hb)]

/-- the hand-optimised loop = "replace `+`, then percent-decode" -/
theorem formDecodeLoop_eq (s : Bytes) : formDecodeLoop s = Spec.formDecode s := by
  unfold Spec.formDecode
  show formDecodeLoop s = Spec.percentDecode (s.map p2s)
  fun_induction formDecodeLoop s with
  | case1 => rfl
  | case2 c h1 h2 rest hc ih =>
    simp only [beq_iff_eq] at hc; subst hc
    simp only [List.map_cons] at ih ⊢
    rw [decode_cons_plain _ _ (Or.inl (by decide))]
    rw [ih]; rfl
  | case3 c h1 h2 rest hc1 hc2 hh ih =>
    simp only [beq_iff_eq] at hc2; subst hc2
    simp only [List.map_cons] at ih ⊢
    rw [decode_cons_plain _ _ (Or.inr _)]
    · rw [ih]; rfl
    · have := (unhex_or_ge h1 h2).mp hh
      simp only [headsHex, p2s_hex]
      cases e1 : isAsciiHexDigit h1 <;> cases e2 : isAsciiHexDigit h2 <;> simp_all
  | case4 c h1 h2 rest hc1 hc2 hh ih =>
    simp only [beq_iff_eq] at hc2; subst hc2
    have hh' : isAsciiHexDigit h1 = true ∧ isAsciiHexDigit h2 = true := by
      have := mt (unhex_or_ge h1 h2).mpr hh
      simpa using this
    simp only [List.map_cons]
    have e0 : p2s 0x25 = 0x25 := by decide
    rw [e0, p2s_of_hex h1 hh'.1, p2s_of_hex h2 hh'.2]
    simp only [Spec.percentDecode, hh'.1, hh'.2, beq_self_eq_true, Bool.and_self, ↓reduceIte]
    rw [← ih, (unhex_spec h1).1 hh'.1, (unhex_spec h2).1 hh'.2, shift_or_eq _ _ (hexVal_lt h2)]
  | case5 c h1 h2 rest hc1 hc2 ih =>
    simp only [List.map_cons] at ih ⊢
    have : p2s c = c := by unfold p2s; simp [hc1]
    rw [this, decode_cons_plain _ _ (Or.inl (by simpa using hc2))]
    rw [ih]
  | case6 c rest hno ih =>
    match rest with
    | [] => simp only [List.map_cons, List.map_nil, Spec.percentDecode, formDecodeLoop, p2s]
    | [x] =>
      simp only [List.map_cons, List.map_nil, Spec.percentDecode] at ih ⊢
      simp only [ih, p2s]
    | x :: y :: r => exact absurd rfl (hno x y r)

theorem formDecodeLoop_cons_plain (a : UInt8) (t : Bytes) (h1 : a ≠ 0x2B) (h2 : a ≠ 0x25) :
    formDecodeLoop (a :: t) = a :: formDecodeLoop t := by
  match t with
  | [] => simp [formDecodeLoop, h1]
  | [x] => simp [formDecodeLoop, h1]
  | x :: y :: r => simp [formDecodeLoop, h1, h2]

theorem formDecodeLoop_takeWhile (s : Bytes) :
    s.takeWhile (fun b => b != 0x2B && b != 0x25) ++
      formDecodeLoop (s.drop (s.takeWhile (fun b => b != 0x2B && b != 0x25)).length) = formDecodeLoop s := by
  induction s with
  | nil => simp [formDecodeLoop]
  | cons a t ih =>
    simp only [List.takeWhile_cons]
    split
    · rename_i h
      simp only [Bool.and_eq_true, bne_iff_ne, ne_eq] at h
      simp only [List.length_cons, List.drop_succ_cons, List.cons_append, ih]
      rw [formDecodeLoop_cons_plain a t h.1 h.2]
    · simp

theorem formDecodeLoop_all_plain (s : Bytes)
    (h : (s.takeWhile (fun b => b != 0x2B && b != 0x25)).length = s.length) : formDecodeLoop s = s := by
  have := formDecodeLoop_takeWhile s
  rw [h, List.drop_length] at this
  rw [← this]
  simp only [formDecodeLoop, List.append_nil]
  have h2 := List.takeWhile_sublist (fun b => b != 0x2B && b != 0x25) (l := s)
  exact h2.eq_of_length h

/-- T4c: `form_urlencoded_decode` (prefix skip + loop) is the Standard's form decoding. -/
theorem formDecode_eq (s : Bytes) : formDecode s = Spec.formDecode s := by
  unfold formDecode
  simp only
  split
  · rename_i h
    rw [← formDecodeLoop_eq, formDecodeLoop_all_plain s (by simpa using h)]
  · rw [formDecodeLoop_takeWhile, formDecodeLoop_eq]

end AdaVerif.Lemmas

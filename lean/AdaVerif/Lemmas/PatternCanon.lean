import AdaVerif.Model.PatternCanon
import AdaVerif.Spec.Pattern
import AdaVerif.Lemmas.Encode
import AdaVerif.Lemmas.FastPort
import AdaVerif.Lemmas.FixedPoint
import AdaVerif.Lemmas.Protocol
import AdaVerif.Lemmas.PathTrivial
import AdaVerif.Lemmas.AggSetPathname
import AdaVerif.Lemmas.KernIs4
import AdaVerif.Lemmas.HostFixed
import AdaVerif.Lemmas.HostParse
import AdaVerif.Lemmas.AggHostSetter
import AdaVerif.Lemmas.ParseAgg
/-
C15: the models of ada's canonicalize_* callbacks (Model/PatternCanon.lean) are the URL Pattern Standard's
canonicalisation callbacks (Spec/Pattern.lean), for every value.
-/
namespace AdaVerif.Lemmas.PC
open AdaVerif AdaVerif.Spec AdaVerif.Lemmas AdaVerif.Model AdaVerif.Model.Pattern AdaVerif.Model.PatternCanon

theorem userinfo_bits : ∀ b : UInt8, bitAt Gen.userinfoSet b = Spec.inUserinfo b := by
  apply forall_uint8_of_fin; decide +kernel
theorem query_bits : ∀ b : UInt8, bitAt Gen.querySet b = Spec.inQuery b := by
  apply forall_uint8_of_fin; decide +kernel
theorem fragment_bits : ∀ b : UInt8, bitAt Gen.fragmentSet b = Spec.inFragment b := by
  apply forall_uint8_of_fin; decide +kernel
theorem c0_bits : ∀ b : UInt8, bitAt Gen.c0Set b = Spec.inC0 b := by
  apply forall_uint8_of_fin; decide +kernel

theorem encode_congr (p q : UInt8 → Bool) (h : ∀ b, p b = q b) (s : Bytes) : Spec.percentEncode p s = Spec.percentEncode q s := by
  have : p = q := funext h
  rw [this]

/-- "find the first byte to escape, copy the input if there is none, else encode from there" is the encoder -/
theorem encodeFromFirst_eq (set : List Nat) (v : Bytes) : encodeFromFirst set v = Spec.percentEncode (bitAt set) v := by
  unfold encodeFromFirst
  simp only
  rw [percentEncodeIndex_eq, Nat.zero_add]
  split
  · rename_i h
    exact (findFirst_eq_length set v (by simpa using h)).symm
  · exact percentEncodeFrom_eq set v _ (spec_take_findFirst set v)

theorem encode_nil (p : UInt8 → Bool) : Spec.percentEncode p [] = [] := rfl

theorem username_eq (v : Bytes) : canonicalizeUsername v = Spec.Pattern.canonUsername v := by
  unfold canonicalizeUsername Spec.Pattern.canonUsername
  split
  · rename_i h
    have : v = [] := by simpa using h
    subst this; rfl
  · rw [encodeFromFirst_eq]; exact encode_congr _ _ userinfo_bits v

theorem password_eq (v : Bytes) : canonicalizePassword v = Spec.Pattern.canonPassword v := username_eq v

theorem search_eq (v : Bytes) : canonicalizeSearch v = Spec.Pattern.canonSearch v := by
  unfold canonicalizeSearch Spec.Pattern.canonSearch
  split
  · rename_i h
    have : v = [] := by simpa using h
    subst this; rfl
  · simp only
    split
    · rename_i h
      have : stripTN v = [] := by simpa using h
      rw [this]; rfl
    · rw [encodeFromFirst_eq]; exact encode_congr _ _ query_bits _

theorem hash_eq (v : Bytes) : canonicalizeHash v = Spec.Pattern.canonHash v := by
  unfold canonicalizeHash Spec.Pattern.canonHash
  split
  · rename_i h
    have : v = [] := by simpa using h
    subst this; rfl
  · simp only
    split
    · rename_i h
      have : stripTN v = [] := by simpa using h
      rw [this]; rfl
    · rw [encodeFromFirst_eq]; exact encode_congr _ _ fragment_bits _

theorem ipv6_char : ∀ c : UInt8, (c != 0x5B && c != 0x5D && c != 0x3A && !isAsciiHexDigit c) = !Spec.Pattern.isIpv6PatternChar c := by
  apply forall_uint8_of_fin; decide +kernel

theorem ipv6_eq (v : Bytes) : canonicalizeIpv6Hostname v = Spec.Pattern.canonIpv6Hostname v := by
  unfold canonicalizeIpv6Hostname Spec.Pattern.canonIpv6Hostname
  have : v.any (fun c => c != 0x5B && c != 0x5D && c != 0x3A && !isAsciiHexDigit c) = !v.all Spec.Pattern.isIpv6PatternChar := by
    rw [List.not_all_eq_any_not]
    congr 1
    funext c
    exact ipv6_char c
  rw [this]
  cases v.all Spec.Pattern.isIpv6PatternChar <;> rfl

theorem opaque_eq (v : Bytes) : canonicalizeOpaquePathname v = Spec.Pattern.canonOpaquePathname v := by
  unfold canonicalizeOpaquePathname Spec.Pattern.canonOpaquePathname
  split
  · rfl
  · simp only
    generalize (stripTN v).takeWhile (fun b => !(b == 0x3F || b == 0x23)) = pre
    generalize decide (pre.length < (stripTN v).length) = followed
    unfold opaquePathState
    have hc : ∀ s, Model.percentEncode Gen.c0Set s = Spec.percentEncode inC0 s := by
      intro s; rw [Lemmas.percentEncode_eq]; exact encode_congr _ _ c0_bits s
    by_cases hl : pre.getLast? = some 0x20
    · rw [hl]
      cases followed with
      | true => simp [hc]
      | false => simp [hc]
    · have hb : (pre.getLast? == some 0x20) = false := by simpa using hl
      simp only [hb, Bool.and_false, Bool.false_eq_true, ↓reduceIte, hc]
      first
        | done
        | (split
           · rename_i h; exact absurd h hl
           · rfl)

/-! ### the two port callbacks -/

theorem portDigits_spec (v : Bytes) :
    portDigits v = if ((stripTN v).takeWhile isAsciiDigit).isEmpty then none else some ((stripTN v).takeWhile isAsciiDigit) := by
  unfold portDigits
  simp only
  cases stripTN v with
  | nil => rfl
  | cons c r =>
    by_cases hc : isAsciiDigit c = true
    · simp [hc, List.takeWhile_cons]
    · have hc' : isAsciiDigit c = false := by simpa using hc
      simp [hc', List.takeWhile_cons]

theorem digit_back : ∀ d : UInt8, isAsciiDigit d = true → UInt8.ofNat (48 + digitVal d) = d ∧ digitVal d < 10 ∧ d.toNat = 48 + digitVal d := by
  apply forall_uint8_of_fin; decide +kernel

theorem parseRadix_pos (sig : Bytes) (hd : ∀ b ∈ sig, isAsciiDigit b = true) (hne : sig ≠ []) (hh : sig.head? ≠ some 0x30) :
    1 ≤ parseRadix 10 sig := by
  cases sig with
  | nil => exact absurd rfl hne
  | cons c r =>
    rw [FS.parseRadix_cons]
    have h1 := FS.digit_pos c (hd c (by simp)) (by simpa using hh)
    have : 1 ≤ 10 ^ r.length := Nat.pow_pos (by decide)
    have : 1 * 1 ≤ digitVal c * 10 ^ r.length := Nat.mul_le_mul h1 this
    omega

theorem split_last (sig : Bytes) (hne : sig ≠ []) : ∃ a d, sig = a ++ [d] :=
  ⟨sig.dropLast, sig.getLast hne, (List.dropLast_concat_getLast hne).symm⟩

/-- the shortest decimal spelling of the value of a digit string without leading zero is that string -/
theorem natToDecF_parseRadix : ∀ (f : Nat) (sig : Bytes), sig ≠ [] → (∀ b ∈ sig, isAsciiDigit b = true) → sig.head? ≠ some 0x30 →
    sig.length ≤ f → natToDecF f (parseRadix 10 sig) = sig := by
  intro f
  induction f with
  | zero =>
    intro sig hne _ _ hl
    cases sig with
    | nil => exact absurd rfl hne
    | cons c r => simp at hl
  | succ f ih =>
    intro sig hne hd hh hl
    obtain ⟨a, d, e⟩ := split_last sig hne
    subst e
    have hdd := digit_back d (hd d (by simp))
    rw [FP.parseRadix_snoc]
    by_cases ha : a = []
    · subst ha
      have : parseRadix 10 [] = 0 := rfl
      rw [this]
      simp only [Nat.zero_mul, Nat.zero_add, List.nil_append]
      rw [natToDecF]
      simp only [hdd.2.1, ↓reduceIte, hdd.1]
    · have hda : ∀ b ∈ a, isAsciiDigit b = true := fun b hb => hd b (by simp [hb])
      have hha : a.head? ≠ some 0x30 := by
        cases a with
        | nil => exact absurd rfl ha
        | cons c r => simpa using hh
      have hpos := parseRadix_pos a hda ha hha
      have hla : a.length ≤ f := by simp at hl; omega
      have hge : ¬ (parseRadix 10 a * 10 + digitVal d < 10) := by omega
      rw [natToDecF]
      simp only [hge, ↓reduceIte]
      have h1 : (parseRadix 10 a * 10 + digitVal d) / 10 = parseRadix 10 a := by have := hdd.2.1; omega
      have h2 : (parseRadix 10 a * 10 + digitVal d) % 10 = digitVal d := by have := hdd.2.1; omega
      rw [h1, h2, ih a ha hda hha hla, hdd.1]

theorem parseRadix_lt (sig : Bytes) (hd : ∀ b ∈ sig, isAsciiDigit b = true) : parseRadix 10 sig < 10 ^ sig.length := by
  induction sig with
  | nil => decide
  | cons c r ih =>
    rw [FS.parseRadix_cons]
    have h1 := (digit_back c (hd c (by simp))).2.1
    have h2 := ih (fun b hb => hd b (by simp [hb]))
    have : digitVal c * 10 ^ r.length ≤ 9 * 10 ^ r.length := Nat.mul_le_mul_right _ (by omega)
    simp only [List.length_cons, Nat.pow_succ]
    omega

theorem lex5 : ∀ a b c d e : Fin 10,
    (decide ([48 + a.val, 48 + b.val, 48 + c.val, 48 + d.val, 48 + e.val] > [0x36, 0x35, 0x35, 0x33, 0x35])) =
    decide (a.val * 10000 + b.val * 1000 + c.val * 100 + d.val * 10 + e.val > 65535) := by decide +kernel

/-- `canonicalize_port` on its digit string: leading zeros dropped, at most five significant digits, the
    lexicographic test against "65535" = the port state's number and range check, spelled back without leading zeros -/
theorem canonicalizePort_digits (digits : Bytes) (hne : digits ≠ []) (hd : ∀ b ∈ digits, isAsciiDigit b = true) :
    canonicalizePort digits =
      if parseRadix 10 digits > 65535 then none else some (natToDec (parseRadix 10 digits)) := by
  unfold canonicalizePort
  simp only
  have hval := FS.parseRadix_zeros digits
  have hsub : ∀ b ∈ digits.dropWhile (· == 0x30), isAsciiDigit b = true :=
    fun b hb => hd b ((List.dropWhile_sublist _).subset hb)
  have hhead : (digits.dropWhile (· == 0x30)).head? ≠ some 0x30 := by
    intro e
    have := List.head?_dropWhile_not (· == (0x30 : UInt8)) digits
    rw [e] at this
    simp at this
  generalize digits.dropWhile (· == 0x30) = sig at hval hsub hhead
  rw [← hval]
  by_cases hemp : sig = []
  · subst hemp
    simp only [List.isEmpty_nil, ↓reduceIte]
    decide
  · have he : sig.isEmpty = false := FS.isEmpty_false_of_ne hemp
    simp only [he, Bool.false_eq_true, ↓reduceIte]
    by_cases h5 : sig.length = 5
    · have hb5 : (sig.length == 5) = true := by simpa using h5
      simp only [hb5, ↓reduceIte]
      have hback : natToDec (parseRadix 10 sig) = sig := natToDecF_parseRadix 40 sig hemp hsub hhead (by omega)
      rw [hback]
      match sig, h5, hsub with
      | [x1, x2, x3, x4, x5], _, hs =>
        have d1 := digit_back x1 (hs x1 (by simp))
        have d2 := digit_back x2 (hs x2 (by simp))
        have d3 := digit_back x3 (hs x3 (by simp))
        have d4 := digit_back x4 (hs x4 (by simp))
        have d5 := digit_back x5 (hs x5 (by simp))
        have hl := lex5 ⟨digitVal x1, d1.2.1⟩ ⟨digitVal x2, d2.2.1⟩ ⟨digitVal x3, d3.2.1⟩ ⟨digitVal x4, d4.2.1⟩ ⟨digitVal x5, d5.2.1⟩
        simp only at hl
        have hm : [x1, x2, x3, x4, x5].map (·.toNat) =
            [48 + digitVal x1, 48 + digitVal x2, 48 + digitVal x3, 48 + digitVal x4, 48 + digitVal x5] := by
          simp [d1.2.2, d2.2.2, d3.2.2, d4.2.2, d5.2.2]
        have hp : parseRadix 10 [x1, x2, x3, x4, x5] =
            digitVal x1 * 10000 + digitVal x2 * 1000 + digitVal x3 * 100 + digitVal x4 * 10 + digitVal x5 := by
          simp only [parseRadix, List.foldl_cons, List.foldl_nil]; omega
        rw [hm, hl, hp]
        by_cases hgt : digitVal x1 * 10000 + digitVal x2 * 1000 + digitVal x3 * 100 + digitVal x4 * 10 + digitVal x5 > 65535
        · simp [hgt]
        · simp [hgt]
    · have hb5 : (sig.length == 5) = false := by simpa using h5
      simp only [hb5, Bool.false_eq_true, ↓reduceIte]
      by_cases h6 : sig.length > 5
      · have := FS.six_digits_big sig hsub hhead h6
        simp [h6, this]
      · have hlt := parseRadix_lt sig hsub
        have hle : sig.length ≤ 4 := by omega
        have : 10 ^ sig.length ≤ 10 ^ 4 := Nat.pow_le_pow_right (by decide) hle
        have h4 : (10 : Nat) ^ 4 = 10000 := by decide
        have hng : ¬ parseRadix 10 sig > 65535 := by omega
        have hback : natToDec (parseRadix 10 sig) = sig := natToDecF_parseRadix 40 sig hemp hsub hhead (by omega)
        simp only [h6, ↓reduceIte, hng, hback]

theorem takeWhile_digits (s : Bytes) : ∀ b ∈ s.takeWhile isAsciiDigit, isAsciiDigit b = true := by
  induction s with
  | nil => intro b hb; cases hb
  | cons c r ih =>
    intro b hb
    rw [List.takeWhile_cons] at hb
    split at hb
    · rename_i hc
      rcases List.mem_cons.mp hb with e | e
      · rw [e]; exact hc
      · exact ih b e
    · cases hb

/-- **`canonicalize_port`** is the port state with a state override on a new URL record -/
theorem port_eq (v : Bytes) : canonicalizePortFull v = Spec.Pattern.canonPort v none := by
  unfold canonicalizePortFull Spec.Pattern.canonPort
  split
  · rfl
  · rw [portDigits_spec]
    simp only
    split
    · rfl
    · rename_i hne
      have hne' : (stripTN v).takeWhile isAsciiDigit ≠ [] := by simpa using hne
      simp only [Option.bind_some]
      rw [canonicalizePort_digits _ hne' (takeWhile_digits _)]
      split
      · rfl
      · simp

theorem getSpecialPort_eq (s : Bytes) : getSpecialPort s = (defaultPort s).getD 0 := by
  have h := (Proto.type_facts s).2.2.1
  rw [← h]
  unfold getSpecialPort getSchemeType specialPortOf
  split
  · decide
  · simp only
    split
    · rfl
    · decide

theorem defaultPort_pos (s : Bytes) (q : Nat) (h : defaultPort s = some q) : q ≠ 0 := by
  unfold defaultPort at h
  repeat' split at h
  all_goals first | (cases h; decide) | cases h

theorem elide (x : Option Nat) (p : Nat) (A B : Option Bytes) (hx : ∀ q, x = some q → q ≠ 0) :
    (if (x.getD 0 != 0 && x.getD 0 == p) = true then A else B) = (if (x == some p) = true then A else B) := by
  cases x with
  | none => simp
  | some q =>
    have hq := hx q rfl
    by_cases he : q = p
    · subst he; simp [hq]
    · simp [he, hq]

/-- **`canonicalize_port_with_protocol`** is the port state with a state override on a URL record with that scheme -/
theorem port_with_protocol_eq (v protocol : Bytes) :
    canonicalizePortWithProtocol v protocol = Spec.Pattern.canonPort v (some (portProtocol protocol)) := by
  unfold canonicalizePortWithProtocol Spec.Pattern.canonPort
  split
  · rfl
  · rw [portDigits_spec]
    simp only
    by_cases hemp : ((stripTN v).takeWhile isAsciiDigit).isEmpty = true
    · simp only [hemp, ↓reduceIte]
    · simp only [hemp, Bool.false_eq_true, ↓reduceIte, Option.bind_some, getSpecialPort_eq]
      generalize parseRadix 10 ((stripTN v).takeWhile isAsciiDigit) = p
      by_cases hp : p > 65535
      · simp only [hp, ↓reduceIte]
      · simp only [hp, ↓reduceIte]
        exact elide _ p _ _ (defaultPort_pos _)

/-! ### `canonicalize_pathname` -/

theorem simple_path_class : ∀ b : UInt8, hasFlag 3 b = true →
    inPath b = false ∧ b ≠ 0x2E ∧ b ≠ 0x25 ∧ b ≠ 0x5C ∧ isTabOrNewline b = false := by
  apply forall_uint8_of_fin; decide +kernel

theorem stripTN_id (s : Bytes) (h : ∀ b ∈ s, isTabOrNewline b = false) : stripTN s = s := by
  unfold stripTN
  apply List.filter_eq_self.mpr
  intro b hb
  simp [h b hb]

/-- text without '.', '%' and bytes of the path encode set: the path state keeps it byte for byte -/
theorem plain_path (t : Bytes) (h : ∀ b ∈ t, inPath b = false ∧ b ≠ 0x2E ∧ b ≠ 0x25) :
    (pathState [] [] t).flatMap (fun seg => 0x2F :: seg) = 0x2F :: t := by
  have hns : isSpecialScheme [] = false := by decide
  have := PP.trivial_eq [] t [] (fun b hb => ⟨(h b hb).1, (h b hb).2.2⟩) (fun hsp => by rw [hns] at hsp; cases hsp)
    (fun p hp => by
      have hmem := PP.splitPath_mem false t p hp
      constructor
      · intro e; rw [e] at hmem; exact (h _ (hmem _ (by simp))).2.1 rfl
      · intro e; rw [e] at hmem; exact (h _ (hmem _ (by simp))).2.1 rfl)
    (fun hf => by cases hf)
  simpa [pathState, FP.pathText] using this

/-- **the shortcut of `canonicalize_pathname`**: a value made of CHAR_SIMPLE_PATHNAME bytes is its own canonical form -/
theorem pathname_fast (v : Bytes) (hne : v ≠ []) (hs : v.all (hasFlag 3) = true) : Spec.Pattern.canonPathname v = some v := by
  have hall : ∀ b ∈ v, hasFlag 3 b = true := by simpa using hs
  have hcl := fun b hb => simple_path_class b (hall b hb)
  unfold Spec.Pattern.canonPathname
  have he : v.isEmpty = false := FS.isEmpty_false_of_ne hne
  simp only [he, Bool.false_eq_true, ↓reduceIte]
  cases v with
  | nil => exact absurd rfl hne
  | cons c t =>
    by_cases hc : c = 0x2F
    · subst hc
      simp only [List.head?_cons, beq_self_eq_true, ↓reduceIte]
      rw [stripTN_id _ (fun b hb => (hcl b hb).2.2.2.2)]
      simp only [List.drop_succ_cons, List.drop_zero]
      rw [plain_path t (fun b hb => ⟨(hcl b (by simp [hb])).1, (hcl b (by simp [hb])).2.1, (hcl b (by simp [hb])).2.2.1⟩)]
    · have hb : (some c == some (0x2F : UInt8)) = false := by simpa using hc
      simp only [List.head?_cons, hb, Bool.false_eq_true, ↓reduceIte]
      have htn : ∀ b ∈ [0x2F, 0x2D] ++ c :: t, isTabOrNewline b = false := by
        intro b hb
        simp only [List.cons_append, List.nil_append, List.mem_cons] at hb
        rcases hb with e | e | e
        · rw [e]; decide
        · rw [e]; decide
        · exact (hcl b (by simpa using e)).2.2.2.2
      rw [stripTN_id _ htn]
      simp only [List.cons_append, List.nil_append, List.drop_succ_cons, List.drop_zero]
      rw [plain_path (0x2D :: c :: t) (by
        intro b hb
        rcases List.mem_cons.mp hb with e | e
        · rw [e]; decide
        · exact ⟨(hcl b e).1, (hcl b e).2.1, (hcl b e).2.2.1⟩)]
      simp

/-- the path state reads its scheme only to ask "is it `file`?" -/
theorem pathSegments_scheme (s1 s2 : Bytes) (h1 : (s1 == bFile) = false) (h2 : (s2 == bFile) = false) :
    ∀ (segs path : List Bytes), pathSegments s1 segs path = pathSegments s2 segs path := by
  intro segs
  induction segs with
  | nil => intro path; rfl
  | cons seg more ih =>
    intro path
    unfold pathSegments
    simp only [h1, h2, Bool.false_and, Bool.false_eq_true, ↓reduceIte]
    have hsh : shortenPath s1 path = shortenPath s2 path := by
      unfold shortenPath
      simp only [h1, h2, Bool.false_and, Bool.false_eq_true, ↓reduceIte]
    rw [hsh]
    exact ih _

/-- the dummy URL of `canonicalize_pathname` as a record -/
def uFake : Url := { scheme := [0x66, 0x61, 0x6B, 0x65], host := some (.opaqueHost [0x66,0x61,0x6B,0x65,0x2D,0x75,0x72,0x6C]), path := [] }

theorem fakeUrl_layout : fakeUrl = Agg.layout (AggL.ofUrl uFake) := by decide +kernel
theorem uFake_inv : RecInv uFake = true := by decide +kernel
theorem uFake_ty : PP.TyOf uFake.scheme 1 := ⟨by decide, by decide⟩

/-- `set_pathname` on the dummy URL, then `get_pathname`: the path state with an override on a new record -/
theorem fake_setPathname (m : Bytes) (hm : m.head? = some 0x2F) :
    (setPathname uFake m).pathSerialized = (pathState [] [] ((stripTN m).drop 1)).flatMap (fun seg => 0x2F :: seg) := by
  have hopq : uFake.isOpaque = false := rfl
  have hsp : uFake.isSpecial = false := by decide
  unfold setPathname
  simp only [hopq, Bool.false_eq_true, ↓reduceIte, hsp]
  cases m with
  | nil => cases hm
  | cons c r =>
    have hc : c = 0x2F := by simpa using hm
    subst hc
    have hst : stripTN (0x2F :: r) = 0x2F :: stripTN r := by
      unfold stripTN
      rw [List.filter_cons]
      have : (!isTabOrNewline 0x2F) = true := by decide
      simp only [this, ↓reduceIte]
    rw [hst]
    simp only [beq_self_eq_true, ↓reduceIte, List.drop_succ_cons, List.drop_zero, Url.pathSerialized, Bool.false_eq_true]
    unfold pathState
    have h1 : isSpecialScheme uFake.scheme = false := by decide
    have h2 : isSpecialScheme [] = false := by decide
    rw [h1, h2, pathSegments_scheme uFake.scheme [] (by decide) (by decide)]

/-- **the slow route of `canonicalize_pathname`** (dummy URL, `set_pathname`, `get_pathname`, the two-byte prefix and its removal)
    is the Standard's callback whenever the dummy URL and the result fit the configured maximum length -/
theorem pathname_slow (L : Nat) (v : Bytes) (hne : v ≠ [])
    (hL : 15 ≤ L)
    (hfit : (Agg.layout (AggL.ofUrl (setPathname uFake (if v.head? == some 0x2F then v else [0x2F, 0x2D] ++ v)))).buf.length ≤ L) :
    (if v.all (hasFlag 3) then some v else canonicalizePathname L v) = Spec.Pattern.canonPathname v := by
  by_cases hs : v.all (hasFlag 3) = true
  · simp only [hs, ↓reduceIte]
    exact (pathname_fast v hne hs).symm
  · simp only [hs, Bool.false_eq_true, ↓reduceIte]
    unfold canonicalizePathname Spec.Pattern.canonPathname
    have he : v.isEmpty = false := FS.isEmpty_false_of_ne hne
    simp only [he, Bool.false_eq_true, ↓reduceIte, hs]
    have hdp : dummyParse L fakeText fakeUrl = some fakeUrl := by
      unfold dummyParse
      have h1 : ¬ fakeText.length > L := by
        have : fakeText.length = 15 := by decide
        omega
      have h2 : ¬ fakeUrl.buf.length > L := by
        have : fakeUrl.buf.length = 15 := by decide
        omega
      simp only [h1, h2, ↓reduceIte]
    rw [hdp]
    simp only
    generalize hm : (if (v.head? == some 0x2F) = true then v else [0x2F, 0x2D] ++ v) = m at hfit ⊢
    have hmh : m.head? = some 0x2F := by
      rw [← hm]
      split
      · rename_i h; simpa using h
      · rfl
    have he2e := AggL.setPathname_end_to_end L 1 uFake m (AggL.credOk_of_recInv uFake uFake_inv) uFake_ty
    have hsp : uFake.isSpecial = false := by decide
    have hopq : uFake.isOpaque = false := rfl
    rw [hsp, ← fakeUrl_layout, hopq] at he2e
    simp only [Bool.false_eq_true, ↓reduceIte, hfit] at he2e
    rw [he2e]
    simp only [Bool.not_true, Bool.false_eq_true, ↓reduceIte]
    rw [Props.C07.getPathname_layout]
    have hps : (AggL.ofUrl (setPathname uFake m)).path = (setPathname uFake m).pathSerialized := rfl
    rw [hps, fake_setPathname m hmh]
    by_cases hl : (v.head? == some 0x2F) = true
    · simp only [hl, Bool.not_true, Bool.false_eq_true, ↓reduceIte]
    · simp only [hl, Bool.not_false, ↓reduceIte]
      split <;> rfl

/-! ### `canonicalize_hostname`: the shortcut -/

theorem simple_host_class : ∀ b : UInt8, hasFlag 2 b = true →
    toLowerByte b = b ∧ b ≠ 0x25 ∧ isForbiddenDomain b = false ∧ b.toNat < 0x80 ∧ b ≠ 0x5B ∧ b ≠ 0x3A ∧
    Spec.Pattern.isHostTerminator b = false ∧ isTabOrNewline b = false ∧ isAsciiUpper b = false := by
  apply forall_uint8_of_fin; decide +kernel

theorem hostEnd_go_no_colon : ∀ (l : Bytes) (i : Nat) (inside : Bool), (∀ b ∈ l, b ≠ 0x3A) → hostEnd.go l i inside = i + l.length := by
  intro l
  induction l with
  | nil => intro i inside _; simp [hostEnd.go]
  | cons c r ih =>
    intro i inside h
    have hc : (c == 0x3A) = false := by simpa using h c (by simp)
    simp only [hostEnd.go, hc, Bool.false_and, Bool.false_eq_true, ↓reduceIte]
    rw [ih _ _ (fun b hb => h b (by simp [hb]))]
    simp only [List.length_cons]; omega

theorem takeWhile_all_true (p : UInt8 → Bool) (l : Bytes) (h : ∀ b ∈ l, p b = true) : l.takeWhile p = l := by
  induction l with
  | nil => rfl
  | cons x t ih =>
    rw [List.takeWhile_cons, h x (by simp)]
    simp only [↓reduceIte]
    rw [ih (fun b hb => h b (by simp [hb]))]

theorem map_id_of (f : UInt8 → UInt8) (l : Bytes) (h : ∀ b ∈ l, f b = b) : l.map f = l := by
  induction l with
  | nil => rfl
  | cons c r ih => simp [h c (by simp), ih (fun b hb => h b (by simp [hb]))]

/-- **the shortcut of `canonicalize_hostname`**: a value made of CHAR_SIMPLE_HOSTNAME bytes that `is_ipv4` does not claim
    is its own canonical form.  For a value with an ACE label (`xn--`) the Standard runs the full domain-to-ASCII; the
    hypothesis `hxn` says what ada's `to_ascii` answers there (it lower-cases every all-ASCII domain) -/
theorem hostname_fast (idna : Idna) (v : Bytes) (hne : v ≠ []) (hs : v.all (hasFlag 2) = true) (h4 : HostKernels.isIpv4 v = false)
    (hid : HP.IdnaAt idna v) (hxn : (splitOn 0x2E v).any startsWithXn = true → idna.toAscii v = some (v.map toLowerByte)) :
    Spec.Pattern.canonHostname idna v = some v := by
  have hall : ∀ b ∈ v, hasFlag 2 b = true := by simpa using hs
  have hcl := fun b hb => simple_host_class b (hall b hb)
  unfold Spec.Pattern.canonHostname
  have he : v.isEmpty = false := FS.isEmpty_false_of_ne hne
  simp only [he, Bool.false_eq_true, ↓reduceIte]
  rw [stripTN_id v (fun b hb => (hcl b hb).2.2.2.2.2.2.2.1)]
  rw [takeWhile_all_true _ v (fun b hb => by simp [(hcl b hb).2.2.2.2.2.2.1])]
  have hhe : hostEnd v = v.length := by
    have : hostEnd v = hostEnd.go v 0 false := rfl
    rw [this, hostEnd_go_no_colon v 0 false (fun b hb => (hcl b hb).2.2.2.2.2.1)]; omega
  simp only [hhe, Nat.lt_irrefl, ↓reduceIte, he, Bool.false_eq_true]
  have hlowmap : v.map toLowerByte = v := map_id_of _ v (fun b hb => (hcl b hb).1)
  have hascii : isAsciiBytes v = true := by
    unfold isAsciiBytes
    simp only [List.all_eq_true, decide_eq_true_eq]
    exact fun b hb => (hcl b hb).2.2.2.1
  have hdta : domainToAscii idna v = some v := by
    unfold domainToAscii
    by_cases hx : (splitOn 0x2E v).any startsWithXn = true
    · have := hxn hx
      simp only [hascii, hx, Bool.not_true, Bool.and_false, Bool.false_eq_true, ↓reduceIte, this, hlowmap, he]
    · have hx' : (splitOn 0x2E v).any startsWithXn = false := by simpa using hx
      simp only [hascii, hx', Bool.not_false, Bool.and_self, ↓reduceIte, hlowmap, he, Bool.false_eq_true]
  have hend : endsInANumber v = false := by
    rw [← K4.isIpv4_eq v hne (fun b hb => (hcl b hb).2.2.2.2.2.2.2.2)]; exact h4
  have hforb : v.any isForbiddenDomain = false := by
    simp only [List.any_eq_false]
    intro b hb
    simp [(hcl b hb).2.2.1]
  have hhp : hostParse idna v false = some (.domain v) := by
    unfold hostParse
    split
    · rename_i rest
      exact absurd rfl ((hcl 0x5B (by simp)).2.2.2.2.1)
    · simp only [Bool.false_eq_true, ↓reduceIte]
      rw [percentDecode_no_pct v (fun b hb => (hcl b hb).2.1), hdta]
      simp only [hforb, Bool.false_eq_true, ↓reduceIte, hend]
  rw [hhp]; rfl

/-! ### `canonicalize_protocol`: the shortcuts -/

theorem scheme_flag_a : ∀ b : UInt8, (hasFlag 0 b = isSchemeChar b) ∧ (hasFlag 1 b = isAsciiUpper b) := by
  apply forall_uint8_of_fin; decide +kernel
theorem scheme_flag_b : ∀ b : UInt8, isSchemeChar b = true →
    isC0OrSpace b = false ∧ isTabOrNewline b = false ∧ b ≠ 0x23 ∧ b ≠ 0x3F := by
  apply forall_uint8_of_fin; decide +kernel
theorem scheme_flag_c : ∀ b : UInt8, isSchemeChar b = true →
    (b == 0x2B || b == 0x2D || b == 0x2E || isAsciiDigit b) = false → isAsciiAlpha b = true := by
  apply forall_uint8_of_fin; decide +kernel
theorem lower_of_not_upper : ∀ b : UInt8, isAsciiUpper b = false → toLowerByte b = b := by
  apply forall_uint8_of_fin; decide +kernel

theorem suffix_class : ∀ b ∈ Spec.Pattern.dummySuffix, isC0OrSpace b = false ∧ isTabOrNewline b = false ∧ b ≠ 0x23 ∧ b ≠ 0x3F := by
  decide +kernel

/-- the URL that "canonicalize a protocol" parses, for a value shaped like a scheme: its scheme is the value in lower case -/
theorem protocolUrl_scheme (idna : Idna) (c : UInt8) (t : Bytes) (hc : isAsciiAlpha c = true)
    (hall : ∀ x ∈ c :: t, isSchemeChar x = true) :
    (Spec.Pattern.protocolUrl idna (c :: t)).map (·.scheme) = some ((c :: t).map toLowerByte) := by
  have hcl := fun b (hb : b ∈ c :: t) => scheme_flag_b b (hall b hb)
  have hx : ∀ b ∈ (c :: t) ++ Spec.Pattern.dummySuffix, isC0OrSpace b = false ∧ isTabOrNewline b = false ∧ b ≠ 0x23 ∧ b ≠ 0x3F := by
    intro b hb
    rcases List.mem_append.mp hb with e | e
    · exact hcl b e
    · exact suffix_class b e
  unfold Spec.Pattern.protocolUrl parse
  have hpre : preprocess ((c :: t) ++ Spec.Pattern.dummySuffix) = (c :: t) ++ Spec.Pattern.dummySuffix := by
    apply FP.preprocess_id
    · intro a ha
      simp only [List.cons_append, List.head?_cons, Option.some.injEq] at ha
      subst ha; exact (hcl c (by simp)).1
    · intro a ha
      have : a ∈ (c :: t) ++ Spec.Pattern.dummySuffix := List.mem_of_getLast? ha
      exact (hx a this).1
    · intro a ha; exact (hx a ha).2.1
  simp only [hpre]
  rw [FP.cutAt_none 0x23 _ (fun hm => (hx _ hm).2.2.1 rfl)]
  simp only
  rw [FP.cutAt_none 0x3F _ (fun hm => (hx _ hm).2.2.2 rfl)]
  simp only [Option.isSome_none]
  unfold parseCore
  have hts : takeScheme ((c :: t) ++ Spec.Pattern.dummySuffix) =
      some ((c :: t).map toLowerByte, [0x2F, 0x2F, 0x64, 0x75, 0x6D, 0x6D, 0x79, 0x2E, 0x74, 0x65, 0x73, 0x74]) :=
    FS.takeScheme_raw (c :: t) _ c t rfl hc hall
  rw [hts]
  simp only
  generalize (c :: t).map toLowerByte = scheme
  by_cases hf : (scheme == bFile) = true
  · have : scheme = bFile := by simpa using hf
    subst this
    simp only [beq_self_eq_true, ↓reduceIte]
    rfl
  · simp only [hf, Bool.false_eq_true, ↓reduceIte]
    by_cases hsp : isSpecialScheme scheme = true
    · simp only [hsp, ↓reduceIte]
      have hsk : skipSlashes [0x2F, 0x2F, 0x64, 0x75, 0x6D, 0x6D, 0x79, 0x2E, 0x74, 0x65, 0x73, 0x74] =
          [0x64, 0x75, 0x6D, 0x6D, 0x79, 0x2E, 0x74, 0x65, 0x73, 0x74] := by decide
      rw [hsk]
      unfold fromAuthority parseAuthority parseHostPort
      simp only [hsp]
      rfl
    · have hsp' : isSpecialScheme scheme = false := by simpa using hsp
      simp only [hsp', Bool.false_eq_true, ↓reduceIte]
      unfold fromAuthority parseAuthority parseHostPort
      simp only [hsp']
      rfl

theorem schemeLoop_some : ∀ (r : Bytes) (up u : Bool), schemeLoop r up = some u →
    (∀ b ∈ r, hasFlag 0 b = true) ∧ (u = false → up = false ∧ ∀ b ∈ r, hasFlag 1 b = false) := by
  intro r
  induction r with
  | nil =>
    intro up u h
    simp only [schemeLoop, Option.some.injEq] at h
    subst h
    exact ⟨fun b hb => (by cases hb), fun e => ⟨e, fun b hb => (by cases hb)⟩⟩
  | cons c t ih =>
    intro up u h
    simp only [schemeLoop] at h
    by_cases hc : hasFlag 0 c = true
    · simp only [hc, Bool.not_true, Bool.false_eq_true, ↓reduceIte] at h
      obtain ⟨h1, h2⟩ := ih _ _ h
      refine ⟨fun b hb => ?_, fun e => ?_⟩
      · rcases List.mem_cons.mp hb with e | e
        · rw [e]; exact hc
        · exact h1 b e
      · obtain ⟨h3, h4⟩ := h2 e
        have h5 : up = false ∧ hasFlag 1 c = false := by simpa using h3
        refine ⟨h5.1, fun b hb => ?_⟩
        rcases List.mem_cons.mp hb with e' | e'
        · rw [e']; exact h5.2
        · exact h4 b e'
    · have hc' : hasFlag 0 c = false := by simpa using hc
      simp [hc'] at h

theorem special_names (idna : Idna) (input : Bytes) (h : isSpecialScheme input = true) :
    (Spec.Pattern.protocolUrl idna input).map (·.scheme) = some input := by
  unfold isSpecialScheme at h
  simp only [Bool.or_eq_true, beq_iff_eq] at h
  rcases h with ((((h | h) | h) | h) | h) | h <;> subst h <;> with_unfolding_all rfl

/-- **`canonicalize_protocol`**: the two shortcuts (a special scheme's name; letters, digits, '+', '-', '.' behind a letter,
    lower-cased when a capital occurs) give the scheme of the URL the Standard parses, `value ++ "://dummy.test"`; the rest
    takes the slow route `hslow`, which is that parse (`protocolSlow_eq`) -/
theorem protocol_eq (idna : Idna) (L : Nat) (v : Bytes)
    (hslow : protocolSlow idna L v = (Spec.Pattern.protocolUrl idna v).map (·.scheme)) :
    canonicalizeProtocol idna L v = Spec.Pattern.canonProtocol idna v := by
  unfold canonicalizeProtocol Spec.Pattern.canonProtocol
  by_cases hne : v = []
  · subst hne; rfl
  have he : v.isEmpty = false := FS.isEmpty_false_of_ne hne
  simp only [he, Bool.false_eq_true, ↓reduceIte]
  generalize v = input at hslow hne ⊢
  by_cases hsp : Model.isSpecial input = true
  · simp only [hsp, ↓reduceIte]
    rw [Proto.isSpecial_eq] at hsp
    exact (special_names idna input hsp).symm
  · simp only [hsp, Bool.false_eq_true, ↓reduceIte]
    cases input with
    | nil => exact absurd rfl hne
    | cons c0 rest =>
      simp only
      by_cases hbad : (!hasFlag 0 c0 || c0 == 0x2B || c0 == 0x2D || c0 == 0x2E || isAsciiDigit c0) = true
      · simp only [hbad, ↓reduceIte]; exact hslow
      · simp only [hbad, Bool.false_eq_true, ↓reduceIte]
        have hb' : hasFlag 0 c0 = true ∧ (c0 == 0x2B || c0 == 0x2D || c0 == 0x2E || isAsciiDigit c0) = false := by
          have : (!hasFlag 0 c0 || c0 == 0x2B || c0 == 0x2D || c0 == 0x2E || isAsciiDigit c0) = false := by simpa using hbad
          simp only [Bool.or_eq_false_iff, Bool.not_eq_false'] at this
          simp only [Bool.or_eq_false_iff]
          exact ⟨this.1.1.1.1, ⟨⟨this.1.1.1.2, this.1.1.2⟩, this.1.2⟩, this.2⟩
        have hs0 : isSchemeChar c0 = true := by rw [← (scheme_flag_a c0).1]; exact hb'.1
        have halpha := scheme_flag_c c0 hs0 hb'.2
        cases hl : schemeLoop rest (hasFlag 1 c0) with
        | none => simp only; exact hslow
        | some u =>
          obtain ⟨h1, h2⟩ := schemeLoop_some rest _ u hl
          have hall : ∀ x ∈ c0 :: rest, isSchemeChar x = true := by
            intro x hx
            rcases List.mem_cons.mp hx with e | e
            · rw [e]; exact hs0
            · rw [← (scheme_flag_a x).1]; exact h1 x e
          have hps := protocolUrl_scheme idna c0 rest halpha hall
          rw [hps]
          cases u with
          | true => rfl
          | false =>
            simp only
            obtain ⟨h3, h4⟩ := h2 rfl
            have : (c0 :: rest).map toLowerByte = c0 :: rest := by
              apply map_id_of
              intro b hb
              apply lower_of_not_upper
              rw [← (scheme_flag_a b).2]
              rcases List.mem_cons.mp hb with e | e
              · rw [e]; exact h3
              · exact h4 b e
            rw [this]

/-! ### `canonicalize_hostname`: the slow route -/

/-- the dummy URL of `canonicalize_hostname` as a record -/
def uDummy : Url := { scheme := bHttps, host := some (.domain [0x64,0x75,0x6D,0x6D,0x79,0x2E,0x74,0x65,0x73,0x74]), path := [[]] }

theorem dummyUrl_layout : dummyUrl = Agg.layout (AggL.ofUrl uDummy) := by decide +kernel
theorem uDummy_inv : RecInv uDummy = true := by decide +kernel

theorem takeWhile_takeWhile (p q : UInt8 → Bool) (l : Bytes) : (l.takeWhile p).takeWhile q = l.takeWhile (fun x => p x && q x) := by
  induction l with
  | nil => rfl
  | cons c r ih =>
    by_cases hp : p c = true
    · by_cases hq : q c = true
      · simp [List.takeWhile_cons, hp, hq, ih]
      · simp [List.takeWhile_cons, hp, hq]
    · simp [List.takeWhile_cons, hp]

theorem take_length_takeWhile (p : UInt8 → Bool) (l : Bytes) : l.take (l.takeWhile p).length = l.takeWhile p := by
  induction l with
  | nil => rfl
  | cons c r ih =>
    by_cases hp : p c = true
    · simp [List.takeWhile_cons, hp, ih]
    · simp [List.takeWhile_cons, hp]

theorem term_split : ∀ b : UInt8, ((b != 0x23) && !AdaVerif.Model.UrlRec.isHardDelim true b) = !Spec.Pattern.isHostTerminator b := by
  unfold AdaVerif.Model.UrlRec.isHardDelim; apply forall_uint8_of_fin; decide +kernel

open AdaVerif.Model.Agg AdaVerif.Lemmas.AggL in
/-- the host text of a laid-out buffer without credentials -/
theorem getHostname_nocred (l : L) (hu : l.user = []) (hp : l.pass = []) (hh : l.host.headD 0 ≠ 0x40) :
    getHostname (layout l) = l.host := by
  have hslice := hostSlice_layout l
  have hat0 : atS l.user l.pass = [] := by simp [atS, hu, hp]
  rw [hat0, List.nil_append] at hslice
  unfold getHostname
  by_cases hgt : (layout l).he > (layout l).hs
  · have hb : (layout l).buf = (l.scheme ++ authS l.auth ++ (l.user ++ passS l.pass)) ++ (l.host ++
        (portS l.port ++ (ddS l.dashdot ++ (l.path ++ (queryS l.query ++ fragS l.frag))))) := by
      simp [layout, List.append_assoc, hat0]
    have hne : l.host ≠ [] := by
      intro e
      have : (layout l).he = (layout l).hs := by simp [layout, e, hat0]
      omega
    have hat : at_ (layout l).buf (layout l).hs = l.host.headD 0 := by
      rw [at_eq hb (hs_eq l)]
      cases hl : l.host with
      | nil => exact absurd hl hne
      | cons c t => rfl
    have : (at_ (layout l).buf (layout l).hs == 0x40) = false := by rw [hat]; simpa using hh
    simp only [this, Bool.and_false, Bool.false_eq_true, ↓reduceIte]
    exact hslice
  · have : decide ((layout l).he > (layout l).hs) = false := by simpa using hgt
    simp only [this, Bool.false_and, Bool.false_eq_true, ↓reduceIte]
    exact hslice

open AdaVerif.Model.Agg AdaVerif.Lemmas.AggL in
/-- **the slow route of `canonicalize_hostname`** (dummy URL "https://dummy.test", `set_hostname`, `get_hostname`) is the hostname
    state with a state override on a special URL record: same failures (a ':' outside brackets, an empty host, a host the
    host parser refuses), same serialised host - for a configured maximum length that admits the dummy URL and the result,
    under the bracket condition of the host setters and with IDNA as a parameter -/
theorem hostname_slow (idna : Idna) (L : Nat) (v : Bytes) (hne : v ≠ []) (hid : ∀ d, HP.IdnaAt idna d)
    (hclean : HS.bracketClean true false (stripTN (v.takeWhile (· != 0x23))) = true)
    (hL : 19 ≤ L)
    (hfit : ∀ h, hostParse idna ((stripTN v).takeWhile (fun b => !Spec.Pattern.isHostTerminator b)) false = some h →
      (layout (ofUrl { uDummy with host := some h })).buf.length ≤ L) :
    (match dummyParse L dummyText dummyUrl with
     | none => none
     | some url0 =>
       let (url, ok) := setHostA true idna L true false 443 url0 v
       if !ok then none else some (getHostname url)) = Spec.Pattern.canonHostname idna v := by
  have hdp : dummyParse L dummyText dummyUrl = some dummyUrl := by
    unfold dummyParse
    have h1 : ¬ dummyText.length > L := by
      have : dummyText.length = 18 := by decide
      omega
    have h2 : ¬ dummyUrl.buf.length > L := by
      have : dummyUrl.buf.length = 19 := by decide
      omega
    simp only [h1, h2, ↓reduceIte]
  rw [hdp]
  simp only
  unfold Spec.Pattern.canonHostname
  have he : v.isEmpty = false := FS.isEmpty_false_of_ne hne
  simp only [he, Bool.false_eq_true, ↓reduceIte]
  have hupto : (stripTN (v.takeWhile (· != 0x23))).takeWhile (fun b => !AdaVerif.Model.UrlRec.isHardDelim true b) =
      (stripTN v).takeWhile (fun b => !Spec.Pattern.isHostTerminator b) := by
    rw [HS.strip_cut, takeWhile_takeWhile]
    congr 1
    funext b
    exact term_split b
  unfold setHostA
  rw [dummyUrl_layout]
  have hopq : (layout (ofUrl uDummy)).opq = false := rfl
  simp only [hopq, Bool.false_eq_true, ↓reduceIte, Bool.not_false]
  rw [HS.split_agree true _ hclean, hupto]
  generalize hN : stripTN (v.takeWhile (· != 0x23)) = N at hupto
  generalize hB : (stripTN v).takeWhile (fun b => !Spec.Pattern.isHostTerminator b) = buffer at hupto hfit
  by_cases hlt : hostEnd buffer < buffer.length
  · simp only [hlt, ↓reduceIte]
    by_cases hem : (N.take (hostEnd buffer)).isEmpty = true
    · simp only [hem, ↓reduceIte, Bool.not_false]
    · simp only [hem, Bool.false_eq_true, ↓reduceIte, Bool.not_false]
  · simp only [hlt, ↓reduceIte]
    have htk : N.take buffer.length = buffer := by rw [← hupto]; exact take_length_takeWhile _ N
    rw [htk]
    by_cases hem : buffer.isEmpty = true
    · simp [hem]
    · have hbne : buffer ≠ [] := by simpa using hem
      have hem' : buffer.isEmpty = false := by simpa using hem
      simp only [hem', Bool.false_and, Bool.false_eq_true, ↓reduceIte]
      have hsp : uDummy.isSpecial = true := by decide
      have hpa := parseHostAgg_eq idna uDummy (credOk_of_recInv uDummy uDummy_inv) buffer hbne hid
      rw [hsp] at hpa
      rw [hpa]
      simp only [Bool.not_true]
      cases hh : hostParse idna buffer false with
      | none => simp
      | some h =>
        simp only [Option.map_some]
        rw [host_written uDummy (credOk_of_recInv uDummy uDummy_inv) h]
        have hf := hfit h hh
        have hng : ¬ (layout (ofUrl { uDummy with host := some h })).buf.length > L := by omega
        simp only [hng, ↓reduceIte, Bool.not_true, Bool.false_eq_true]
        congr 1
        rw [getHostname_nocred _ rfl rfl]
        · simp [ofUrl]
        · have := PA.host_no_at idna buffer h hh
          simpa [ofUrl] using this

/-! ### the helpers -/
theorem escape_pattern_bits : ∀ b : UInt8, (tget Gen.escapePatternTable b.toNat != 0) = Spec.Pattern.isPatternSyntax b := by
  apply forall_uint8_of_fin; decide +kernel
theorem escape_regexp_bits : ∀ b : UInt8, (tget Gen.escapeRegexpTable b.toNat != 0) = Spec.Pattern.isRegexpSyntax b := by
  apply forall_uint8_of_fin; decide +kernel

theorem escapePattern_eq (v : Bytes) : PatternCanon.escapePatternString v = Spec.Pattern.escapePatternString v := by
  unfold PatternCanon.escapePatternString Spec.Pattern.escapePatternString
  split
  · rename_i h
    have : v = [] := by simpa using h
    subst this; rfl
  · congr 1; funext b; rw [escape_pattern_bits]

theorem escapeRegexp_eq (v : Bytes) : PatternCanon.escapeRegexpString v = Spec.Pattern.escapeRegexpString v := by
  unfold PatternCanon.escapeRegexpString Spec.Pattern.escapeRegexpString
  congr 1; funext b; rw [escape_regexp_bits]

theorem processBase_eq (v : Bytes) (pat : Bool) :
    PatternCanon.processBaseUrlString v pat = Spec.Pattern.processBaseUrlString v pat := by
  unfold PatternCanon.processBaseUrlString Spec.Pattern.processBaseUrlString
  cases pat
  · rfl
  · simp only [Bool.not_true, Bool.false_eq_true, ↓reduceIte]; exact escapePattern_eq v

theorem pair_beq (a b c d : UInt8) : (([a, b] : Bytes) == [c, d]) = (a == c && b == d) := by
  by_cases h1 : a = c <;> by_cases h2 : b = d <;> simp [h1, h2]

theorem isIpv6Address_eq (v : Bytes) : PatternCanon.isIpv6Address v = Spec.Pattern.isIpv6Address v := by
  unfold PatternCanon.isIpv6Address Spec.Pattern.isIpv6Address
  match v with
  | [] => rfl
  | [a] => rfl
  | a :: b :: r =>
    have hl : ¬ (a :: b :: r).length < 2 := by simp
    have hh : (some a == some (0x5B : UInt8)) = (a == 0x5B) := by
      by_cases h : a = 0x5B <;> simp [h]
    simp only [hl, ↓reduceIte, List.head?_cons, List.take_succ_cons, List.take_zero, pair_beq, hh]
    cases (a == 0x5B) <;> cases (a == 0x7B && b == 0x5B) <;> simp

theorem isAbsolutePathname_eq (v : Bytes) (url : Bool) :
    PatternCanon.isAbsolutePathname v url = Spec.Pattern.isAbsolutePathname v url := by
  unfold PatternCanon.isAbsolutePathname Spec.Pattern.isAbsolutePathname
  match v with
  | [] => rfl
  | [a] =>
    have hh : (some a == some (0x2F : UInt8)) = (a == 0x2F) := by
      by_cases h : a = 0x2F <;> simp [h]
    simp only [List.isEmpty_cons, Bool.false_eq_true, ↓reduceIte, List.head?_cons, hh]
    cases (a == 0x2F) <;> cases url <;> simp
  | a :: b :: r =>
    have hl : ¬ (a :: b :: r).length < 2 := by simp
    have hh : (some a == some (0x2F : UInt8)) = (a == 0x2F) := by
      by_cases h : a = 0x2F <;> simp [h]
    have h0 : ((a :: b :: r)[0]? == some (0x5C : UInt8)) = (a == 0x5C) := by
      by_cases h : a = 0x5C <;> simp [h]
    have h0' : ((a :: b :: r)[0]? == some (0x7B : UInt8)) = (a == 0x7B) := by
      by_cases h : a = 0x7B <;> simp [h]
    have h1 : ((a :: b :: r)[1]? == some (0x2F : UInt8)) = (b == 0x2F) := by
      by_cases h : b = 0x2F <;> simp [h]
    simp only [List.isEmpty_cons, Bool.false_eq_true, ↓reduceIte, List.head?_cons, hh, hl, h0, h0', h1]

/-! ### the component inputs of a URL-string input -/

theorem slice_mid (P M S : Bytes) : Agg.slice (P ++ (M ++ S)) P.length (P.length + M.length) = M := by
  unfold Agg.slice
  rw [← List.append_assoc, List.take_left' (by simp), List.drop_left' rfl]

open AdaVerif.Model.Agg AdaVerif.Lemmas.AggL in
theorem getUsername_layout (l : L) (h : NoAuthNoCred l) : getUsername (layout l) = l.user := by
  unfold getUsername hasNonEmptyUsername
  cases ha : l.auth with
  | false =>
    obtain ⟨hu, _⟩ := h ha
    have : ¬ ((layout l).pe + 2 < (layout l).ue) := by simp [layout, ha, authS, hu]
    simp [this, hu]
  | true =>
    by_cases hu : l.user = []
    · have : ¬ ((layout l).pe + 2 < (layout l).ue) := by simp [layout, ha, authS, hu]
      simp [this, hu]
    · have hlen : 0 < l.user.length := List.length_pos_iff.mpr hu
      have hc : (layout l).pe + 2 < (layout l).ue := by simp [layout, ha, authS]; omega
      simp only [hc, decide_true, ↓reduceIte]
      have hb : (layout l).buf = (l.scheme ++ [0x2F, 0x2F]) ++ (l.user ++ (passS l.pass ++ atS l.user l.pass ++ l.host ++ portS l.port ++
          ddS l.dashdot ++ l.path ++ queryS l.query ++ fragS l.frag)) := by
        simp [layout, ha, authS, List.append_assoc]
      have h1 : (layout l).pe + 2 = (l.scheme ++ [0x2F, 0x2F]).length := by simp [layout]
      have h2 : (layout l).ue = (l.scheme ++ [0x2F, 0x2F]).length + l.user.length := by simp [layout, ha, authS]
      rw [hb, h1, h2]
      exact slice_mid _ _ _

open AdaVerif.Model.Agg AdaVerif.Lemmas.AggL in
theorem getPassword_layout (l : L) : getPassword (layout l) = l.pass := by
  unfold getPassword hasNonEmptyPassword
  by_cases hp : l.pass = []
  · have : ¬ ((layout l).hs > (layout l).ue) := by simp [layout, passS, hp]
    simp [this, hp]
  · have hpe : l.pass.isEmpty = false := by simpa using hp
    have hc : (layout l).hs > (layout l).ue := by simp [layout, passS, hpe]
    simp only [hc, decide_true, ↓reduceIte]
    have hb : (layout l).buf = (l.scheme ++ authS l.auth ++ l.user ++ [0x3A]) ++ (l.pass ++ (atS l.user l.pass ++ l.host ++ portS l.port ++
        ddS l.dashdot ++ l.path ++ queryS l.query ++ fragS l.frag)) := by
      simp [layout, passS, hpe, List.append_assoc]
    have h1 : (layout l).ue + 1 = (l.scheme ++ authS l.auth ++ l.user ++ [0x3A]).length := by simp [layout]; omega
    have h2 : (layout l).hs = (l.scheme ++ authS l.auth ++ l.user ++ [0x3A]).length + l.pass.length := by
      simp [layout, passS, hpe]; omega
    rw [hb, h1, h2]
    exact slice_mid _ _ _

open AdaVerif.Model.Agg AdaVerif.Lemmas.AggL in
theorem getPort_layout (l : L) (hd : l.dashdot = false) : getPort (layout l) = match l.port with | some (_, d) => d | none => [] := by
  unfold getPort
  cases hp : l.port with
  | none => simp [layout, hp]
  | some pd =>
    obtain ⟨pv, d⟩ := pd
    have hn : (layout l).port.isNone = false := by simp [layout, hp]
    simp only [hn, Bool.false_eq_true, ↓reduceIte]
    have hb : (layout l).buf = (l.scheme ++ authS l.auth ++ l.user ++ passS l.pass ++ atS l.user l.pass ++ l.host ++ [0x3A]) ++ (d ++
        (l.path ++ queryS l.query ++ fragS l.frag)) := by
      simp [layout, hp, portS, hd, ddS, List.append_assoc]
    have h1 : (layout l).he + 1 = (l.scheme ++ authS l.auth ++ l.user ++ passS l.pass ++ atS l.user l.pass ++ l.host ++ [0x3A]).length := by
      simp [layout]; omega
    have h2 : (layout l).ps = (l.scheme ++ authS l.auth ++ l.user ++ passS l.pass ++ atS l.user l.pass ++ l.host ++ [0x3A]).length + d.length := by
      simp [layout, hp, portS, hd, ddS]; omega
    rw [hb, h1, h2]
    exact slice_mid _ _ _

open AdaVerif.Model.Agg AdaVerif.Lemmas.AggL in
theorem getHostname_layout (l : L) (hh : l.user = [] → l.pass = [] → l.host.headD 0 ≠ 0x40) : getHostname (layout l) = l.host := by
  by_cases hc : l.user = [] ∧ l.pass = []
  · exact getHostname_nocred l hc.1 hc.2 (hh hc.1 hc.2)
  · have hat : atS l.user l.pass = [0x40] := by
      unfold atS
      by_cases hu : l.user = []
      · have hp : l.pass ≠ [] := fun e => hc ⟨hu, e⟩
        have : l.pass.isEmpty = false := by simpa using hp
        simp [hu, this]
      · have : l.user.isEmpty = false := by simpa using hu
        simp [this]
    have hslice := hostSlice_layout l
    rw [hat] at hslice
    unfold getHostname
    have hb : (layout l).buf = (l.scheme ++ authS l.auth ++ (l.user ++ passS l.pass)) ++ (([0x40] ++ l.host) ++
        (portS l.port ++ (ddS l.dashdot ++ (l.path ++ (queryS l.query ++ fragS l.frag))))) := by
      simp [layout, List.append_assoc, hat]
    have hgt : (layout l).he > (layout l).hs := by simp [layout, hat]; omega
    have hatc : at_ (layout l).buf (layout l).hs = 0x40 := by
      rw [at_eq hb (hs_eq l)]; rfl
    simp only [hgt, decide_true, hatc, beq_self_eq_true, Bool.and_self, ↓reduceIte]
    have h1 : (layout l).hs + 1 = (l.scheme ++ authS l.auth ++ (l.user ++ passS l.pass) ++ [0x40]).length := by
      rw [hs_eq]; simp; omega
    have h2 : (layout l).he = (l.scheme ++ authS l.auth ++ (l.user ++ passS l.pass) ++ [0x40]).length + l.host.length := by
      simp [layout, hat]; omega
    have hb2 : (layout l).buf = (l.scheme ++ authS l.auth ++ (l.user ++ passS l.pass) ++ [0x40]) ++ (l.host ++
        (portS l.port ++ (ddS l.dashdot ++ (l.path ++ (queryS l.query ++ fragS l.frag))))) := by
      rw [hb]; simp [List.append_assoc]
    rw [hb2, h1, h2]
    exact slice_mid _ _ _

open AdaVerif.Model.Agg AdaVerif.Lemmas.AggL in
/-- **the component inputs `match()` / `test()` read off a parsed URL** are the fields that were laid out: scheme without its
    ':', credentials, host, port digits, path, query and fragment without their delimiters (an empty one reads as empty) -/
theorem urlInputs_layout (l : L) (hna : NoAuthNoCred l) (hpd : l.port.isSome = true → l.dashdot = false)
    (hh : l.user = [] → l.pass = [] → l.host.headD 0 ≠ 0x40) :
    urlInputs (layout l) =
      [l.scheme.dropLast, l.user, l.pass, l.host, (match l.port with | some (_, d) => d | none => []), l.path,
       l.query.getD [], l.frag.getD []] := by
  unfold urlInputs
  have hport : getPort (layout l) = match l.port with | some (_, d) => d | none => [] := by
    cases hp : l.port with
    | none => simp [getPort, layout, hp]
    | some pd => rw [← hp]; exact getPort_layout l (hpd (by simp [hp]))
  rw [Props.C07.getProtocol_layout, getUsername_layout l hna, getPassword_layout, getHostname_layout l hh, hport,
    Props.C07.getPathname_layout, Props.C07.getSearch_layout, Props.C07.getHash_layout]
  have hss : (layout l).ss.isSome = l.query.isSome := by simp [layout]; cases l.query <;> simp
  have hhh : (layout l).hh.isSome = l.frag.isSome := by simp [layout]; cases l.frag <;> simp
  simp only [hss, hhh]
  congr 1; congr 1; congr 1; congr 1; congr 1; congr 1
  congr 1
  · cases hq : l.query with
    | none => rfl
    | some q => cases q with
      | nil => rfl
      | cons c t => simp
  · congr 1
    cases hf : l.frag with
    | none => rfl
    | some f => cases f with
      | nil => rfl
      | cons c t => simp

/-! ### `process_*` -/

theorem canonPort_fake (v : Bytes) : Spec.Pattern.canonPort v (some [0x66, 0x61, 0x6B, 0x65]) = Spec.Pattern.canonPort v none := by
  unfold Spec.Pattern.canonPort
  have : (some ([0x66, 0x61, 0x6B, 0x65] : Bytes)).bind defaultPort = none := by decide
  simp only [this, Option.bind_none]

theorem processPort_eq (port protocol : Bytes) (pat : Bool) (hp : protocol.getLast? ≠ some 0x3A) :
    processPort port protocol pat = Spec.Pattern.processPortForInit port protocol pat := by
  unfold processPort Spec.Pattern.processPortForInit
  cases pat with
  | true => rfl
  | false =>
    simp only [Bool.false_eq_true, ↓reduceIte]
    rw [port_with_protocol_eq]
    unfold portProtocol
    by_cases he : protocol.isEmpty = true
    · simp only [he, ↓reduceIte]; exact canonPort_fake port
    · have hb : (protocol.getLast? == some 0x3A) = false := by simpa using hp
      simp only [he, Bool.false_eq_true, ↓reduceIte, hb]

theorem processSimple_eq (value : Bytes) (pat : Bool) :
    processUsername value pat = Spec.Pattern.processUsernameForInit value pat ∧
    processPassword value pat = Spec.Pattern.processPasswordForInit value pat ∧
    processSearch value pat = Spec.Pattern.processSearchForInit value pat ∧
    processHash value pat = Spec.Pattern.processHashForInit value pat := by
  unfold processUsername processPassword processSearch processHash Spec.Pattern.processUsernameForInit
    Spec.Pattern.processPasswordForInit Spec.Pattern.processSearchForInit Spec.Pattern.processHashForInit
  cases pat with
  | true => exact ⟨rfl, rfl, rfl, rfl⟩
  | false =>
    simp only [Bool.false_eq_true, ↓reduceIte]
    exact ⟨username_eq _, password_eq _, search_eq _, hash_eq _⟩

end AdaVerif.Lemmas.PC

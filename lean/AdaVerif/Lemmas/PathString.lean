import AdaVerif.Lemmas.PathDots
/-
The `std::string path` of the path builder as a list of segments: `rfind('/')`, `find('/', 1)`, `erase`, `resize` on
the serialised path are `dropLast` / length tests on the segment list, and `helpers::shorten_path` is the
Standard's "shorten a url's path".
-/
namespace AdaVerif.Lemmas.PP
open AdaVerif AdaVerif.Spec AdaVerif.Lemmas.FP AdaVerif.Model.PathPrepared

def NoSlash (segs : List Bytes) : Prop := ∀ s ∈ segs, (0x2F : UInt8) ∉ s

local notation "rgo" => Model.PathPrepared.rfind.go

theorem rfind_go_none (c : UInt8) (l : Bytes) (i : Nat) (acc : Option Nat) (h : c ∉ l) : rgo c l i acc = acc := by
  induction l generalizing i acc with
  | nil => rfl
  | cons b t ih =>
    have hb : (b == c) = false := by
      have : b ≠ c := fun e => h (by simp [e])
      simpa using this
    simp only [rfind.go, hb, Bool.false_eq_true, ↓reduceIte]
    exact ih _ _ (fun hm => h (by simp [hm]))

theorem rfind_go_last (c : UInt8) (a r : Bytes) (i : Nat) (acc : Option Nat) (h : c ∉ r) :
    rgo c (a ++ c :: r) i acc = some (i + a.length) := by
  induction a generalizing i acc with
  | nil => simp [rfind.go, rfind_go_none c r _ _ h]
  | cons b t ih =>
    simp only [List.cons_append, rfind.go, List.length_cons]
    rw [ih]; congr 1; omega

theorem pathText_snoc (init : List Bytes) (last : Bytes) : pathText (init ++ [last]) = pathText init ++ 0x2F :: last := by
  simp [pathText, List.flatMap_append]

theorem rfind_pathText_snoc (init : List Bytes) (last : Bytes) (h : (0x2F : UInt8) ∉ last) :
    rfind 0x2F (pathText (init ++ [last])) = some (pathText init).length := by
  rw [pathText_snoc]
  unfold rfind
  rw [rfind_go_last _ _ _ _ _ h]; simp

theorem snoc_of_ne_nil {α} (l : List α) (h : l ≠ []) : l = l.dropLast ++ [l.getLast h] :=
  (List.dropLast_concat_getLast h).symm

/-- erasing from the last '/' drops the last segment -/
theorem erase_last (segs : List Bytes) (hn : NoSlash segs) : eraseAtLast (pathText segs) = pathText segs.dropLast := by
  unfold eraseAtLast
  by_cases he : segs = []
  · subst he; rfl
  · have hs := snoc_of_ne_nil segs he
    have hl : (0x2F : UInt8) ∉ segs.getLast he := hn _ (List.getLast_mem he)
    rw [hs, rfind_pathText_snoc _ _ hl]
    simp only [List.dropLast_concat]
    rw [pathText_snoc]
    exact List.take_left' rfl

local notation "fgo" => Model.PathPrepared.findFrom.go

theorem find_go_none (c : UInt8) (l : Bytes) (i : Nat) (h : c ∉ l) : fgo c l i = none := by
  induction l generalizing i with
  | nil => rfl
  | cons b t ih =>
    have hb : (b == c) = false := by
      have : b ≠ c := fun e => h (by simp [e])
      simpa using this
    simp only [findFrom.go, hb, Bool.false_eq_true, ↓reduceIte]
    exact ih _ (fun hm => h (by simp [hm]))

theorem find_go_some (c : UInt8) (a r : Bytes) (i : Nat) : (fgo c (a ++ c :: r) i).isSome = true := by
  induction a generalizing i with
  | nil => simp [findFrom.go]
  | cons b t ih =>
    simp only [List.cons_append, findFrom.go]
    split
    · rfl
    · exact ih _

/-- `path.find('/', 1) == npos && !path.empty()`: the path has exactly one segment -/
theorem single_segment_test (segs : List Bytes) (hn : NoSlash segs) :
    ((findFrom 0x2F (pathText segs) 1).isNone && !(pathText segs).isEmpty) = (segs.length == 1) := by
  match segs, hn with
  | [], _ => rfl
  | [s], hn =>
    have : (0x2F : UInt8) ∉ s := hn s (by simp)
    simp [pathText, findFrom, find_go_none _ _ _ this]
  | s1 :: s2 :: rest, _ =>
    have e : pathText (s1 :: s2 :: rest) = 0x2F :: (s1 ++ 0x2F :: (s2 ++ pathText rest)) := by simp [pathText]
    rw [e]
    have := find_go_some 0x2F s1 (s2 ++ pathText rest) 1
    simp only [findFrom, List.drop_succ_cons, List.drop_zero]
    cases hq : fgo 0x2F (s1 ++ 0x2F :: (s2 ++ pathText rest)) 1 with
    | none => rw [hq] at this; cases this
    | some k => simp

theorem isAlpha_model_eq : ∀ b : UInt8, Model.PathPrepared.isAlpha b = isAsciiAlpha b := by
  apply forall_uint8_of_fin; decide +kernel

theorem normalized_eq (s : Bytes) :
    Model.PathPrepared.isNormalizedWindowsDriveLetter s = Spec.isNormalizedWindowsDriveLetter s := by
  unfold Model.PathPrepared.isNormalizedWindowsDriveLetter Spec.isNormalizedWindowsDriveLetter
  split <;> simp [isAlpha_model_eq]

/-- **shorten_path** on the serialised path is the Standard's shorten on the segment list -/
theorem shortenPath_eq (scheme : Bytes) (ty : Nat) (hty : (ty == 6) = (scheme == bFile)) (segs : List Bytes) (hn : NoSlash segs) :
    Model.PathPrepared.shortenPath (pathText segs) ty = pathText (Spec.shortenPath scheme segs) := by
  unfold Model.PathPrepared.shortenPath
  have hst := single_segment_test segs hn
  have he := erase_last segs hn
  match segs, hn, hst, he with
  | [s], hn, hst, he =>
    have hd : (pathText [s]).drop 1 = s := by simp [pathText]
    have h1 : (findFrom 0x2F (pathText [s]) 1).isNone = true := by
      have hst' : ((findFrom 0x2F (pathText [s]) 1).isNone && !(pathText [s]).isEmpty) = true := by rw [hst]; rfl
      simp only [Bool.and_eq_true] at hst'
      exact hst'.1
    have h2 : (!(pathText [s]).isEmpty) = true := by simp [pathText]
    simp only [hty, h1, h2, hd, normalized_eq, Bool.and_true, Spec.shortenPath]
    by_cases hc : (scheme == bFile && Spec.isNormalizedWindowsDriveLetter s) = true
    · simp [hc]
    · have hc' : (scheme == bFile && Spec.isNormalizedWindowsDriveLetter s) = false := by simpa using hc
      simp only [hc', Bool.false_eq_true, ↓reduceIte]
      rw [he]; rfl
  | [], hn, hst, he => simp [Spec.shortenPath, pathText, eraseAtLast, rfind, rfind.go]
  | s1 :: s2 :: rest, hn, hst, he =>
    have hcond : (ty == 6 && (findFrom 0x2F (pathText (s1 :: s2 :: rest)) 1).isNone && !(pathText (s1 :: s2 :: rest)).isEmpty &&
        Model.PathPrepared.isNormalizedWindowsDriveLetter ((pathText (s1 :: s2 :: rest)).drop 1)) = false := by
      have : ((findFrom 0x2F (pathText (s1 :: s2 :: rest)) 1).isNone && !(pathText (s1 :: s2 :: rest)).isEmpty) = false := by
        rw [hst]; rfl
      rw [Bool.and_assoc, Bool.and_assoc, ← Bool.and_assoc (findFrom 0x2F _ 1).isNone, this]; simp
    simp only [hcond, Bool.false_eq_true, ↓reduceIte]
    rw [he]
    simp [Spec.shortenPath]

end AdaVerif.Lemmas.PP

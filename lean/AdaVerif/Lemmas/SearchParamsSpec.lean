import AdaVerif.Lemmas.SearchParamsRT
import AdaVerif.Spec.Form
namespace AdaVerif.Lemmas
open AdaVerif AdaVerif.Model AdaVerif.Model.USP

theorem takeWhile_ne_eq_cut (c : UInt8) (s : Bytes) :
    s.takeWhile (· != c) = (Spec.cutAt c s).1 ∧
    (Spec.cutAt c s).2 = (if (s.takeWhile (· != c)).length == s.length then none
                           else some (s.drop ((s.takeWhile (· != c)).length + 1))) := by
  induction s with
  | nil => simp [Spec.cutAt]
  | cons b rest ih =>
    unfold Spec.cutAt
    by_cases h : b = c
    · subst h; simp
    · have hb : (b == c) = false := by simpa using h
      have hb' : (b != c) = true := by simpa using h
      simp only [hb, Bool.false_eq_true, ↓reduceIte, List.takeWhile_cons, hb', List.length_cons]
      obtain ⟨i1, i2⟩ := ih
      refine ⟨by rw [i1], ?_⟩
      rw [i2]
      by_cases hl : (List.takeWhile (fun x => x != c) rest).length = rest.length
      · simp [hl]
      · simp [hl]

/-- `process_key_value` is "split at the first '=' and decode both halves" -/
theorem processKeyValue_eq (cur : Bytes) :
    processKeyValue cur = (Spec.formDecode (Spec.cutAt 0x3D cur).1, Spec.formDecode ((Spec.cutAt 0x3D cur).2.getD [])) := by
  unfold processKeyValue
  obtain ⟨h1, h2⟩ := takeWhile_ne_eq_cut 0x3D cur
  simp only
  rw [h2]
  split
  · rename_i hl
    have : (Spec.cutAt 0x3D cur).1 = cur := by
      rw [← h1]
      have hs := List.takeWhile_sublist (fun x => x != (0x3D : UInt8)) (l := cur)
      exact hs.eq_of_length (by simpa using hl)
    simp [formDecode_eq, this, Spec.formDecode, Spec.percentDecode]
  · simp [formDecode_eq, h1]

theorem splitOn_cons_sep (c : UInt8) (r : Bytes) : Spec.splitOn c (c :: r) = [] :: Spec.splitOn c r := by
  simp [Spec.splitOn]

theorem splitOn_piece (c : UInt8) (a r : Bytes) (h : ∀ x ∈ a, x ≠ c) :
    Spec.splitOn c (a ++ c :: r) = a :: Spec.splitOn c r := by
  induction a with
  | nil => simp [Spec.splitOn]
  | cons b t ih =>
    have hb : (b == c) = false := by simpa using h b (by simp)
    simp only [List.cons_append, Spec.splitOn, hb, Bool.false_eq_true, ↓reduceIte]
    rw [ih (fun x hx => h x (by simp [hx]))]

theorem splitOn_last (c : UInt8) (a : Bytes) (h : ∀ x ∈ a, x ≠ c) : Spec.splitOn c a = [a] := by
  induction a with
  | nil => rfl
  | cons b t ih =>
    have hb : (b == c) = false := by simpa using h b (by simp)
    simp only [Spec.splitOn, hb, Bool.false_eq_true, ↓reduceIte]
    rw [ih (fun x hx => h x (by simp [hx]))]

theorem mem_takeWhile_ne (c : UInt8) (s : Bytes) : ∀ x ∈ s.takeWhile (· != c), x ≠ c := by
  intro x hx
  have := mem_takeWhile_prop' hx
  simpa using this
where
  mem_takeWhile_prop' {p : UInt8 → Bool} {l : Bytes} {y : UInt8} (h : y ∈ l.takeWhile p) : p y = true := by
    induction l with
    | nil => simp at h
    | cons a t ih =>
      simp only [List.takeWhile_cons] at h
      split at h
      · rename_i ha
        rcases List.mem_cons.mp h with rfl | h'
        · exact ha
        · exact ih h'
      · simp at h

theorem split_at_first (c : UInt8) (s : Bytes) (h : (s.takeWhile (· != c)).length < s.length) :
    s = s.takeWhile (· != c) ++ c :: s.drop ((s.takeWhile (· != c)).length + 1) := by
  induction s with
  | nil => simp at h
  | cons b t ih =>
    by_cases hb : b = c
    · subst hb; simp
    · have hb' : (b != c) = true := by simpa using hb
      simp only [List.takeWhile_cons, hb', ↓reduceIte, List.length_cons, List.cons_append, List.drop_succ_cons] at h ⊢
      congr 1
      exact ih (by omega)

/-- the `while` loop of `initialize` is the Standard's urlencoded parser -/
theorem initLoop_eq (fuel : Nat) (input : Bytes) (acc : USP) (hf : input.length < fuel) :
    initLoop fuel input acc = acc ++ Spec.formParseBody input := by
  induction fuel generalizing input acc with
  | zero => omega
  | succ f ih =>
    unfold initLoop
    by_cases he : input = []
    · subst he; simp [Spec.formParseBody, Spec.splitOn]
    · have hne : input.isEmpty = false := by
        cases input with
        | nil => exact absurd rfl he
        | cons => rfl
      simp only [hne, Bool.false_eq_true, ↓reduceIte]
      have hpiece := mem_takeWhile_ne 0x26 input
      by_cases hl : (input.takeWhile (· != 0x26)).length = input.length
      · -- no '&'
        have hall : input.takeWhile (· != 0x26) = input :=
          (List.takeWhile_sublist _).eq_of_length hl
        simp only [hl, beq_self_eq_true, ↓reduceIte]
        rw [hall] at hpiece
        simp only [Spec.formParseBody, splitOn_last 0x26 input hpiece, List.filter_cons, hne, Bool.not_false,
          ↓reduceIte, List.filter_nil, List.map_cons, List.map_nil, processKeyValue_eq]
      · have hlt : (input.takeWhile (· != 0x26)).length < input.length := by
          have := (List.takeWhile_sublist (fun x => x != (0x26 : UInt8)) (l := input)).length_le
          omega
        have hsplit := split_at_first 0x26 input hlt
        have hbeq : ((input.takeWhile (· != 0x26)).length == input.length) = false := by simpa using hl
        simp only [hbeq, Bool.false_eq_true, ↓reduceIte]
        rw [ih _ _ (by simp; omega)]
        conv => rhs; rw [hsplit]
        simp only [Spec.formParseBody, splitOn_piece 0x26 _ _ hpiece, List.filter_cons]
        by_cases hpe : (input.takeWhile (· != 0x26)).isEmpty = true
        · simp [hpe]
        · simp only [hpe, Bool.false_eq_true, ↓reduceIte, Bool.not_false, List.map_cons, List.append_assoc,
            List.singleton_append, processKeyValue_eq]

/-- construction follows application/x-www-form-urlencoded parsing -/
theorem parse_eq_spec (s : Bytes) : USP.parse s = Spec.formParse s := by
  cases s with
  | nil =>
    show initLoop 1 [] [] = Spec.formParseBody []
    rw [initLoop_eq _ _ _ (by simp)]; rfl
  | cons b t =>
    by_cases hb : b = 0x3F
    · subst hb
      show initLoop (t.length + 1) t [] = Spec.formParseBody t
      rw [initLoop_eq _ _ _ (by omega)]; rfl
    · have e1 : USP.parse (b :: t) = initLoop ((b :: t).length + 1) (b :: t) [] := by
        unfold USP.parse
        split
        · rename_i rest heq; injection heq with h1 h2; exact absurd h1 hb
        · rfl
      have e2 : Spec.formParse (b :: t) = Spec.formParseBody (b :: t) := by
        unfold Spec.formParse
        split
        · rename_i rest heq; injection heq with h1 h2; exact absurd h1 hb
        · rfl
      rw [e1, e2, initLoop_eq _ _ _ (by omega)]; rfl

end AdaVerif.Lemmas

namespace AdaVerif.Lemmas
open AdaVerif AdaVerif.Model AdaVerif.Model.USP

theorem encodeComponent_spec (s : Bytes) : encodeComponent s = Spec.percentEncodeForm s := by
  rw [encodeComponent_eq]; rfl

/-- `to_string` follows the urlencoded serializer -/
theorem toString_eq_spec (l : USP) : USP.toString l = Spec.formSerialize l := by
  unfold USP.toString
  induction l with
  | nil => rfl
  | cons p rest ih =>
    cases rest with
    | nil => simp [toStringAux, Spec.formSerialize, pieceToString, encodeComponent_spec]
    | cons q r =>
      simp only [toStringAux, Spec.formSerialize, pieceToString, encodeComponent_spec] at ih ⊢
      rw [ih]

/-- `set` (find first, assign, erase the later ones) is the Standard's "set" on the list -/
theorem set_eq_spec (l : USP) (k v : Bytes) : USP.set l k v = Spec.pairsSet l k v := by
  unfold Spec.pairsSet
  induction l with
  | nil => simp [USP.set]
  | cons p rest ih =>
    simp only [USP.set]
    by_cases hp : (p.1 == k) = true
    · have hk : p.1 = k := by simpa using hp
      simp [hp, hk]
    · have hp' : (p.1 == k) = false := by simpa using hp
      simp only [hp', Bool.false_eq_true, ↓reduceIte, List.any_cons, Bool.false_or, List.takeWhile_cons,
        Bool.not_false, List.length_cons, List.take_succ_cons, List.drop_succ_cons, List.cons_append] at ih ⊢
      rw [ih]
      split <;> simp

end AdaVerif.Lemmas

import AdaVerif.Lemmas.PathTrivial
/-
`helpers::parse_prepared_path` is the Standard's path state: for every input, every scheme type and every path
built so far, the three code paths (trivial / fast / general) produce the serialisation of
`Spec.pathSegments scheme (splitPath special input) path`.
-/
namespace AdaVerif.Lemmas.PP
open AdaVerif AdaVerif.Spec AdaVerif.Lemmas AdaVerif.Lemmas.FP AdaVerif.Model.PathPrepared

/-- how the scheme type of the C++ relates to the scheme of the Spec -/
structure TyOf (scheme : Bytes) (ty : Nat) : Prop where
  file : (ty == 6) = (scheme == bFile)
  special : (ty != 1) = isSpecialScheme scheme

theorem bits16 : ∀ acc : Fin 16,
    (acc.val = 0 → acc.val &&& 1 = 0 ∧ acc.val &&& 2 = 0 ∧ acc.val &&& 4 = 0 ∧ acc.val &&& 8 = 0) ∧
    (acc.val &&& 13 = 0 → acc.val &&& 1 = 0 ∧ acc.val &&& 4 = 0 ∧ acc.val &&& 8 = 0) ∧
    (acc.val = 4 → acc.val &&& 1 = 0 ∧ acc.val &&& 2 = 0 ∧ acc.val &&& 8 = 0) ∧
    (acc.val &&& 11 = 0 → acc.val &&& 1 = 0 ∧ acc.val &&& 2 = 0 ∧ acc.val &&& 8 = 0) := by decide

/-- byte facts from cleared bits -/
theorem no_bit1 (input : Bytes) (acc : Nat) (h : SigFacts input acc) (h0 : acc &&& 1 = 0) : ∀ b ∈ input, inPath b = false := by
  intro b hb
  have hn : ¬ ∃ x ∈ input, T x = 1 := by rw [← h.b1]; simp [h0]
  rcases T_values b with t | t | t | t | t
  · exact absurd ⟨b, hb, t.1⟩ hn
  · rw [t.2]; decide
  · rw [t.2]; decide
  · rw [t.2]; decide
  · exact t.2.1

theorem no_bit2 (input : Bytes) (acc : Nat) (h : SigFacts input acc) (h0 : acc &&& 2 = 0) : ∀ b ∈ input, b ≠ 0x5C := by
  intro b hb e
  have hn : ¬ ∃ x ∈ input, T x = 2 := by rw [← h.b2]; simp [h0]
  exact hn ⟨b, hb, by rw [e]; decide⟩

theorem no_bit4 (input : Bytes) (acc : Nat) (h : SigFacts input acc) (h0 : acc &&& 4 = 0) : ∀ b ∈ input, b ≠ 0x2E := by
  intro b hb e
  have hn : ¬ ∃ x ∈ input, T x = 4 := by rw [← h.b4]; simp [h0]
  exact hn ⟨b, hb, by rw [e]; decide⟩

theorem no_bit8 (input : Bytes) (acc : Nat) (h : SigFacts input acc) (h0 : acc &&& 8 = 0) : ∀ b ∈ input, b ≠ 0x25 := by
  intro b hb e
  have hn : ¬ ∃ x ∈ input, T x = 8 := by rw [← h.b8]; simp [h0]
  exact hn ⟨b, hb, by rw [e]; decide⟩

/-- pieces of a text without dots are no dot segments -/
theorem notDot_nodots (input : Bytes) (h : ∀ b ∈ input, b ≠ 0x2E) : ∀ p ∈ splitPath false input, NotDot p := by
  intro p hp
  have hm := splitPath_mem false input p hp
  constructor
  · intro e; subst e; exact h 0x2E (hm _ (by simp)) rfl
  · intro e; subst e; exact h 0x2E (hm _ (by simp)) rfl

theorem notDot_first (input : Bytes) (hh : input.head? ≠ some 0x2E) (hd : dotIsFile input = true) :
    ∀ p ∈ splitPath false input, NotDot p := by
  intro p hp
  cases hsp : splitPath false input with
  | nil => exact absurd hsp (splitPath_ne_nil false input)
  | cons p0 tl =>
    rw [hsp] at hp
    rcases List.mem_cons.mp hp with rfl | hp
    · -- the first piece starts like the input
      have hp0 : p.head? ≠ some 0x2E := by
        rcases splitPath_first false input p tl hsp with e | ⟨c, r, e, _⟩
        · rw [← e]; exact hh
        · intro hq
          apply hh
          rw [e]
          cases p with
          | nil => simp at hq
          | cons a t => simpa using hq
      constructor
      · intro e; subst e; exact hp0 rfl
      · intro e; subst e; exact hp0 rfl
    · have := dotIsFile_tail input hd
      rw [hsp] at this
      exact this p (by simpa using hp)

/-- the two loops are the path state, whatever the trivial test says -/
theorem pathLoops_eq (scheme : Bytes) (ty : Nat) (hty : TyOf scheme ty) (input : Bytes) (segs : List Bytes) (hn : NoSlash segs) :
    pathLoops input ty (pathText segs) = pathText (pathSegments scheme (splitPath (isSpecialScheme scheme) input) segs) := by
  have hsig := sig_facts input
  unfold pathLoops
  simp only
  generalize pathSignature input 0 = acc at hsig ⊢
  obtain ⟨_, _, _, z11⟩ := bits16 ⟨acc, hsig.lt⟩
  simp only at z11
  rw [hty.special]
  by_cases hfast : (isSpecialScheme scheme && (acc &&& 11) == 0 && ty != 6) = true
  · simp only [hfast, ↓reduceIte]
    simp only [Bool.and_eq_true, beq_iff_eq, bne_iff_ne, ne_eq] at hfast
    obtain ⟨⟨hsp, h11⟩, hn6⟩ := hfast
    obtain ⟨h1, h2, h8⟩ := z11 h11
    have hnf : scheme ≠ bFile := by
      intro e
      have : (ty == 6) = true := by rw [hty.file]; simpa using e
      exact hn6 (by simpa using this)
    rw [fastLoop_eq scheme hnf _ input segs (by omega) hn
      (fun b hb => ⟨no_bit1 input acc hsig h1 b hb, no_bit8 input acc hsig h8 b hb⟩), hsp,
      splitPath_nobs input (fun hm => no_bit2 input acc hsig h2 _ hm rfl)]
  · simp only [hfast, Bool.false_eq_true, ↓reduceIte]
    rw [slowLoop_eq scheme ty hty.file _ _ _ input segs (by omega) hn]
    · cases hsp : isSpecialScheme scheme with
      | false => simp
      | true =>
        simp only [Bool.true_and]
        by_cases h2 : acc &&& 2 = 0
        · have : ((acc &&& 2) != 0) = false := by simp [h2]
          rw [this, splitPath_nobs input (fun hm => no_bit2 input acc hsig h2 _ hm rfl)]
        · have : ((acc &&& 2) != 0) = true := by simp [h2]
          rw [this]
    · intro hne b hb
      have : acc &&& 1 = 0 := by simpa using hne
      exact no_bit1 input acc hsig this b hb
    · intro hf hbs b hb
      have hsp : isSpecialScheme scheme = true := by rw [hf]; exact special_file
      rw [hsp] at hbs
      have : acc &&& 2 = 0 := by simpa using hbs
      exact no_bit2 input acc hsig this b hb

/-- when the trivial test succeeds, appending "/" + input is what the path state does -/
theorem trivial_sound (scheme : Bytes) (ty : Nat) (hty : TyOf scheme ty) (input : Bytes) (segs : List Bytes)
    (ht : isTrivial input ty = true) :
    pathText segs ++ [0x2F] ++ input = pathText (pathSegments scheme (splitPath (isSpecialScheme scheme) input) segs) := by
  have hsig := sig_facts input
  unfold isTrivial at ht
  simp only at ht
  generalize pathSignature input 0 = acc at hsig ht
  obtain ⟨z0, z13, z4, _⟩ := bits16 ⟨acc, hsig.lt⟩
  simp only at z0 z13 z4
  rw [hty.special] at ht
  -- the shortcut is never taken for a file path that starts with a drive letter
  have hmay' : (ty == 6 && Model.PathPrepared.isWindowsDriveLetter input) = false := by
    cases hm : (ty == 6 && Model.PathPrepared.isWindowsDriveLetter input) with
    | false => rfl
    | true => rw [hm] at ht; simp at ht
  have hdrv : scheme = bFile → Model.PathPrepared.isWindowsDriveLetter input = false := by
    intro hf
    have : (ty == 6) = true := by rw [hty.file]; simpa using hf
    rw [this] at hmay'; simpa using hmay'
  rw [hmay'] at ht
  simp only [Bool.not_false, Bool.and_true] at ht
  have triv : ∀ (h1 : acc &&& 1 = 0) (h8 : acc &&& 8 = 0) (hbs : isSpecialScheme scheme = true → acc &&& 2 = 0)
      (hnd : ∀ p ∈ splitPath false input, NotDot p),
      pathText segs ++ [0x2F] ++ input = pathText (pathSegments scheme (splitPath (isSpecialScheme scheme) input) segs) := by
    intro h1 h8 hbs hnd
    rw [trivial_eq scheme input segs (fun b hb => ⟨no_bit1 input acc hsig h1 b hb, no_bit8 input acc hsig h8 b hb⟩)
      (fun hs b hb => no_bit2 input acc hsig (hbs hs) b hb) hnd hdrv]
    simp
  by_cases h4 : acc = 4
  · subst h4
    obtain ⟨h1, h2, h8⟩ := z4 rfl
    simp only [beq_self_eq_true, ↓reduceIte] at ht
    by_cases hhead : (input.head? != some 0x2E) = true
    · simp only [hhead, ↓reduceIte] at ht
      exact triv h1 h8 (fun _ => h2) (notDot_first input (by simpa using hhead) ht)
    · simp only [hhead, Bool.false_eq_true, ↓reduceIte] at ht
      exfalso
      split at ht <;> simp at ht
  · have h4' : (acc == 4) = false := by simpa using h4
    simp only [h4', Bool.false_eq_true, ↓reduceIte] at ht
    cases hsp : isSpecialScheme scheme with
    | true =>
      simp only [hsp, ↓reduceIte, beq_iff_eq] at ht
      obtain ⟨h1, h2, h4b, h8⟩ := z0 ht
      rw [← hsp]
      exact triv h1 h8 (fun _ => h2) (notDot_nodots input (no_bit4 input acc hsig h4b))
    | false =>
      simp only [hsp, Bool.false_eq_true, ↓reduceIte, beq_iff_eq] at ht
      obtain ⟨h1, h4b, h8⟩ := z13 ht
      rw [← hsp]
      exact triv h1 h8 (fun hs => by rw [hsp] at hs; cases hs) (notDot_nodots input (no_bit4 input acc hsig h4b))

/-- **parse_prepared_path = the path state**, for every input, scheme type and path so far -/
theorem parsePreparedPath_eq (scheme : Bytes) (ty : Nat) (hty : TyOf scheme ty) (input : Bytes) (segs : List Bytes)
    (hn : NoSlash segs) :
    parsePreparedPath input ty (pathText segs) =
      pathText (pathSegments scheme (splitPath (isSpecialScheme scheme) input) segs) := by
  unfold parsePreparedPath
  split
  · rename_i ht; exact trivial_sound scheme ty hty input segs ht
  · exact pathLoops_eq scheme ty hty input segs hn

end AdaVerif.Lemmas.PP

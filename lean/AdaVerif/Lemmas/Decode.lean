import AdaVerif.Lemmas.Encode
/-
Decode laws for C11 (T4): percent-decoding inverts percent-encoding.
-/
namespace AdaVerif.Lemmas
open AdaVerif AdaVerif.Model

/-- the first two bytes exist and are both ASCII hex digits -/
def headsHex : Bytes → Bool
  | x :: y :: _ => isAsciiHexDigit x && isAsciiHexDigit y
  | _ => false

theorem isHex_eq (b : UInt8) : isHex b = isAsciiHexDigit b := by
  simp [isHex, isAsciiHexDigit, isAsciiDigit]

/-- `hex_to_binary_table[c - '0']` is the digit value, for every hex digit (table fact). -/
theorem hexToBinary_eq : ∀ b : UInt8, isAsciiHexDigit b = true → hexToBinary b = hexVal b := by
  apply forall_uint8_of_fin; decide +kernel

/-- `unhex_table` is the digit value on hex digits and ≥ 16 elsewhere (table fact). -/
theorem unhex_spec : ∀ b : UInt8,
    (isAsciiHexDigit b = true → unhex b = hexVal b) ∧ (isAsciiHexDigit b = false → unhex b = 255) := by
  apply forall_uint8_of_fin; decide +kernel

theorem hexVal_lt : ∀ b : UInt8, hexVal b < 16 := by
  apply forall_uint8_of_fin; decide +kernel

/-- the C++ pointer loop is the Standard's percent-decode -/
theorem decodeLoop_eq (s : Bytes) : decodeLoop s = Spec.percentDecode s := by
  fun_induction decodeLoop s with
  | case1 => rfl
  | case2 ch h1 h2 rest h ih =>
    simp only [Spec.percentDecode]
    have : ¬ ((ch == 0x25 && isAsciiHexDigit h1 && isAsciiHexDigit h2) = true) := by
      simp only [isHex_eq] at h; intro hh
      simp only [Bool.and_eq_true, beq_iff_eq] at hh
      simp [hh.1.1, hh.1.2, hh.2] at h
    simp only [this]; simp [ih]
  | case3 ch h1 h2 rest h ih =>
    simp only [Spec.percentDecode]
    simp only [isHex_eq, Bool.or_eq_true, bne_iff_ne, ne_eq, Bool.not_eq_true', not_or,
      Bool.not_eq_false, Decidable.not_not] at h
    simp only [h.1.1, h.1.2, h.2, beq_self_eq_true, Bool.and_self, ↓reduceIte, ih]
    rw [hexToBinary_eq h1 h.1.2, hexToBinary_eq h2 h.2]
  | case4 ch rest hno ih =>
    match rest with
    | [] => simp [Spec.percentDecode, decodeLoop]
    | [x] => simp [Spec.percentDecode, decodeLoop]
    | x :: y :: r => exact absurd rfl (hno x y r)

theorem decode_cons_plain (a : UInt8) (t : Bytes) (h : a ≠ 0x25 ∨ headsHex t = false) :
    Spec.percentDecode (a :: t) = a :: Spec.percentDecode t := by
  match t with
  | [] => simp [Spec.percentDecode]
  | [x] => simp [Spec.percentDecode]
  | x :: y :: r =>
    simp only [Spec.percentDecode]
    have : ¬ ((a == 0x25 && isAsciiHexDigit x && isAsciiHexDigit y) = true) := by
      intro hh
      simp only [Bool.and_eq_true, beq_iff_eq] at hh
      rcases h with h | h
      · exact h hh.1.1
      · simp [headsHex, hh.1.2, hh.2] at h
    simp [this]

theorem pct_facts : ∀ b : UInt8,
    isAsciiHexDigit (hexUpper (b.toNat / 16)) = true ∧ isAsciiHexDigit (hexUpper (b.toNat % 16)) = true ∧
    UInt8.ofNat (hexVal (hexUpper (b.toNat / 16)) * 16 + hexVal (hexUpper (b.toNat % 16))) = b := by
  apply forall_uint8_of_fin; decide +kernel

/-- decoding one escape produced by the encoder gives the byte back -/
theorem decode_pctByte (b : UInt8) (t : Bytes) :
    Spec.percentDecode (Spec.pctByte b ++ t) = b :: Spec.percentDecode t := by
  obtain ⟨h1, h2, h3⟩ := pct_facts b
  simp [Spec.pctByte, Spec.percentDecode, h1, h2, h3]

section
variable (p : UInt8 → Bool) (hhex : ∀ b, isAsciiHexDigit b = true → p b = false)
include hhex

theorem headsHex_encode (t : Bytes) :
    headsHex (Spec.percentEncode p t) = headsHex t := by
  have pctNoHex : isAsciiHexDigit 0x25 = false := by decide
  match t with
  | [] => rfl
  | [x] =>
    simp only [Spec.percentEncode, List.flatMap_cons, List.flatMap_nil, List.append_nil]
    split <;> simp [headsHex, Spec.pctByte, pctNoHex]
  | x :: y :: r =>
    simp only [Spec.percentEncode, List.flatMap_cons]
    by_cases hx : p x = true
    · have : isAsciiHexDigit x = false := by
        cases h : isAsciiHexDigit x with
        | false => rfl
        | true => rw [hhex x h] at hx; cases hx
      simp [hx, headsHex, Spec.pctByte, pctNoHex, this]
    · simp only [hx]
      by_cases hy : p y = true
      · have : isAsciiHexDigit y = false := by
          cases h : isAsciiHexDigit y with
          | false => rfl
          | true => rw [hhex y h] at hy; cases hy
        simp [hy, headsHex, Spec.pctByte, pctNoHex, this]
      · simp [hy, headsHex]

/-- T4 (sets without `%`): decoding an encoded string = decoding the original. -/
theorem decode_encode_noPct (hp : p 0x25 = false) (s : Bytes) :
    Spec.percentDecode (Spec.percentEncode p s) = Spec.percentDecode s := by
  fun_induction Spec.percentDecode s with
  | case1 => rfl
  | case2 a =>
    simp only [Spec.percentEncode, List.flatMap_cons, List.flatMap_nil, List.append_nil]
    split
    · have := decode_pctByte a []; simpa [Spec.percentDecode] using this
    · rfl
  | case3 a b =>
    have e : Spec.percentEncode p [a, b] = (if p a then Spec.pctByte a else [a]) ++ Spec.percentEncode p [b] := by
      simp [Spec.percentEncode]
    have eb : Spec.percentDecode (Spec.percentEncode p [b]) = [b] := by
      simp only [Spec.percentEncode, List.flatMap_cons, List.flatMap_nil, List.append_nil]
      split
      · have := decode_pctByte b []; simpa [Spec.percentDecode] using this
      · rfl
    rw [e]
    by_cases ha : p a = true
    · simp only [ha, ↓reduceIte, decode_pctByte, eb]
    · simp only [ha, Bool.false_eq_true, ↓reduceIte, List.cons_append, List.nil_append]
      rw [decode_cons_plain, eb]
      right
      rw [headsHex_encode p hhex]; rfl
  | case4 a b c rest h ih =>
    simp only [Bool.and_eq_true, beq_iff_eq] at h
    obtain ⟨⟨ha, hb⟩, hc⟩ := h
    subst ha
    have e : Spec.percentEncode p (0x25 :: b :: c :: rest) = 0x25 :: b :: c :: Spec.percentEncode p rest := by
      simp [Spec.percentEncode, hp, hhex b hb, hhex c hc]
    rw [e]
    simp only [Spec.percentDecode, hb, hc, beq_self_eq_true, Bool.and_self, ↓reduceIte, ih]
  | case5 a b c rest h ih =>
    have e : Spec.percentEncode p (a :: b :: c :: rest) =
        (if p a then Spec.pctByte a else [a]) ++ Spec.percentEncode p (b :: c :: rest) := by
      simp [Spec.percentEncode]
    rw [e]
    by_cases ha : p a = true
    · simp only [ha, ↓reduceIte, decode_pctByte, ih]
    · simp only [ha, Bool.false_eq_true, ↓reduceIte, List.cons_append, List.nil_append]
      rw [decode_cons_plain, ih]
      rw [headsHex_encode p hhex]
      by_cases h25 : a = 0x25
      · right
        subst h25
        simp only [beq_self_eq_true, Bool.true_and] at h
        simpa [headsHex] using h
      · left; exact h25

/-- T4 (sets containing `%`): decoding inverts encoding exactly. -/
theorem decode_encode_withPct (hp : p 0x25 = true) (s : Bytes) :
    Spec.percentDecode (Spec.percentEncode p s) = s := by
  induction s with
  | nil => rfl
  | cons a rest ih =>
    have e : Spec.percentEncode p (a :: rest) =
        (if p a then Spec.pctByte a else [a]) ++ Spec.percentEncode p rest := by
      simp [Spec.percentEncode]
    rw [e]
    by_cases ha : p a = true
    · simp only [ha, ↓reduceIte, decode_pctByte, ih]
    · simp only [ha, Bool.false_eq_true, ↓reduceIte, List.cons_append, List.nil_append]
      rw [decode_cons_plain, ih]
      left; intro h; subst h; exact ha hp
end

/-- malformed escapes are literal text: a string with no `%` followed by two hex digits
    decodes to itself -/
def hasEscape : Bytes → Bool
  | [] => false
  | a :: t => (a == 0x25 && headsHex t) || hasEscape t

theorem decode_noEscape (s : Bytes) (h : hasEscape s = false) : Spec.percentDecode s = s := by
  induction s with
  | nil => rfl
  | cons a t ih =>
    simp only [hasEscape, Bool.or_eq_false_iff, Bool.and_eq_false_iff, beq_eq_false_iff_ne] at h
    rw [decode_cons_plain a t h.1, ih h.2]

end AdaVerif.Lemmas

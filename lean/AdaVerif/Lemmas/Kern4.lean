import AdaVerif.Model.HostKernels
import AdaVerif.Lemmas.FastNumber
import AdaVerif.Lemmas.FastPort
/-
C10: the IPv4 kernels of the implementation against the Standard's IPv4 parser and serializer.
-/
namespace AdaVerif.Lemmas.K4
open AdaVerif AdaVerif.Spec AdaVerif.Lemmas AdaVerif.Model.HostKernels AdaVerif.Model.FastScan

/-! ### the serializer -/
theorem writeU8_eq : ∀ v : Fin 256, writeU8 v.val = natToDec v.val := by decide +kernel

/-- **serializers::ipv4** is the Standard's IPv4 serializer -/
theorem serIpv4_eq (a : Nat) : serIpv4 a = ipv4Serialize a := by
  unfold serIpv4 ipv4Serialize
  rw [writeU8_eq ⟨a / 16777216 % 256, Nat.mod_lt _ (by decide)⟩, writeU8_eq ⟨a / 65536 % 256, Nat.mod_lt _ (by decide)⟩,
    writeU8_eq ⟨a / 256 % 256, Nat.mod_lt _ (by decide)⟩, writeU8_eq ⟨a % 256, Nat.mod_lt _ (by decide)⟩]

/-! ### one number -/
/-- the radix digits of the Standard and the tables of the code -/
theorem nibble_facts : ∀ b : UInt8,
    (isRadixDigit 16 b = true ↔ hexNibble b ≠ 0xff) ∧ (isRadixDigit 16 b = true → hexNibble b = digitVal b ∧ hexNibble b < 16) ∧
    (isRadixDigit 8 b = true ↔ ¬(b.toNat < 0x30 ∨ b.toNat > 0x37)) ∧ (isRadixDigit 8 b = true → digitVal b = b.toNat - 0x30 ∧ b.toNat - 0x30 < 8) ∧
    (isRadixDigit 10 b = isDigit b) ∧ (isDigit b = true → digitVal b = b.toNat - 0x30 ∧ b.toNat - 0x30 < 10 ∧ b ≠ 0x2E) ∧
    (isRadixDigit 16 b = true → b ≠ 0x2E) ∧ (isRadixDigit 8 b = true → b ≠ 0x2E) := by
  apply forall_uint8_of_fin; decide +kernel

local notation "stepR" r => (fun (acc : Nat) (b : UInt8) => acc * r + digitVal b)

theorem foldl_mono (r : Nat) (l : Bytes) (a b : Nat) (h : a ≤ b) : l.foldl (stepR r) a ≤ l.foldl (stepR r) b := by
  induction l generalizing a b with
  | nil => exact h
  | cons x t ih => exact ih _ _ (by simp only; exact Nat.add_le_add_right (Nat.mul_le_mul_right _ h) _)

theorem foldl_ge (r : Nat) (hr : 1 ≤ r) (l : Bytes) (a : Nat) : a ≤ l.foldl (stepR r) a := by
  induction l generalizing a with
  | nil => exact Nat.le_refl _
  | cons x t ih =>
    simp only [List.foldl_cons]
    have h1 : a ≤ a * r + digitVal x := by
      have : a * 1 ≤ a * r := Nat.mul_le_mul_left _ hr
      omega
    exact Nat.le_trans h1 (ih _)

def RestOk (rest : Bytes) : Prop := rest = [] ∨ rest.head? = some 0x2E
def NoDot (label : Bytes) : Prop := ∀ b ∈ label, b ≠ 0x2E

/-- what a run of digits yields: the Standard's value when every byte is a digit of the radix and the value fits 32 bits -/
def runResult (r : Nat) (label rest : Bytes) (v : Nat) : Option (Nat × Bytes) :=
  if label.all (isRadixDigit r) then
    (if label.foldl (stepR r) v ≤ 0xFFFFFFFF then some (label.foldl (stepR r) v, rest) else none)
  else none

theorem run_stop (run : Bytes → Nat → Option (Nat × Bytes)) (rest : Bytes) (v : Nat) (hr : RestOk rest)
    (hnil : run [] v = some (v, [])) (hdot : ∀ t, run (0x2E :: t) v = some (v, 0x2E :: t)) : run rest v = some (v, rest) := by
  rcases hr with rfl | hr
  · exact hnil
  · cases rest with
    | nil => simp at hr
    | cons c t =>
      have : c = 0x2E := by simpa using hr
      subst this; exact hdot t

theorem octRun_spec (label rest : Bytes) (v : Nat) (hl : NoDot label) (hr : RestOk rest) (hv : v ≤ 0xFFFFFFFF) :
    octRun (label ++ rest) v = runResult 8 label rest v := by
  induction label generalizing v with
  | nil =>
    simp only [List.nil_append, runResult, List.all_nil, List.foldl_nil, ↓reduceIte, hv]
    exact run_stop octRun rest v hr (by simp [octRun]) (by intro t; simp [octRun])
  | cons c t ih =>
    have hc : c ≠ 0x2E := hl c (by simp)
    have hcb : (c == 0x2E) = false := by simpa using hc
    have nf := nibble_facts c
    simp only [List.cons_append, octRun, hcb, Bool.false_eq_true, ↓reduceIte, runResult, List.all_cons, List.foldl_cons]
    by_cases hd : isRadixDigit 8 c = true
    · have hnot : ¬(c.toNat < 0x30 ∨ c.toNat > 0x37) := nf.2.2.1.mp hd
      have hnot' : (decide (c.toNat < 0x30) || decide (c.toNat > 0x37)) = false := by simpa using hnot
      obtain ⟨hdv, hlt⟩ := nf.2.2.2.1 hd
      simp only [hnot', Bool.false_eq_true, ↓reduceIte, hd, Bool.true_and]
      by_cases hcap : v > 0xFFFFFFFF / 8
      · have hbig : v * 8 + digitVal c > 0xFFFFFFFF := by omega
        have hge := foldl_ge 8 (by decide) t (v * 8 + digitVal c)
        have : ¬ t.foldl (stepR 8) (v * 8 + digitVal c) ≤ 0xFFFFFFFF := by omega
        simp only [hcap, ↓reduceIte, this]
        split <;> rfl
      · simp only [hcap, ↓reduceIte]
        rw [show v * 8 + (c.toNat - 0x30) = v * 8 + digitVal c by rw [hdv]]
        rw [ih (v * 8 + digitVal c) (fun b hb => hl b (by simp [hb])) (by omega)]; rfl
    · have hnot : (c.toNat < 0x30 ∨ c.toNat > 0x37) := by
        exact Classical.byContradiction (fun hcon => hd (nf.2.2.1.mpr hcon))
      have hnot' : (decide (c.toNat < 0x30) || decide (c.toNat > 0x37)) = true := by simpa using hnot
      have hd' : isRadixDigit 8 c = false := by simpa using hd
      simp [hnot', hd']

theorem decRun_spec (label rest : Bytes) (v : Nat) (hl : NoDot label) (hr : RestOk rest) (hv : v ≤ 0xFFFFFFFF) :
    decRun (label ++ rest) v = runResult 10 label rest v := by
  induction label generalizing v with
  | nil =>
    simp only [List.nil_append, runResult, List.all_nil, List.foldl_nil, ↓reduceIte, hv]
    exact run_stop decRun rest v hr (by simp [decRun]) (by intro t; simp [decRun])
  | cons c t ih =>
    have hc : c ≠ 0x2E := hl c (by simp)
    have hcb : (c == 0x2E) = false := by simpa using hc
    have nf := nibble_facts c
    simp only [List.cons_append, decRun, hcb, Bool.false_eq_true, ↓reduceIte, runResult, List.all_cons, List.foldl_cons, nf.2.2.2.2.1]
    by_cases hd : isDigit c = true
    · obtain ⟨hdv, hlt, _⟩ := nf.2.2.2.2.2.1 hd
      simp only [hd, Bool.not_true, Bool.false_eq_true, ↓reduceIte, Bool.true_and]
      by_cases hcap : v > 429496729
      · have hbig : v * 10 + digitVal c > 0xFFFFFFFF := by omega
        have hge := foldl_ge 10 (by decide) t (v * 10 + digitVal c)
        have : ¬ t.foldl (stepR 10) (v * 10 + digitVal c) ≤ 0xFFFFFFFF := by omega
        simp only [hcap, ↓reduceIte, this]
        split <;> rfl
      · simp only [hcap, ↓reduceIte]
        by_cases hov : v * 10 + (c.toNat - 0x30) > 0xFFFFFFFF
        · have hge := foldl_ge 10 (by decide) t (v * 10 + digitVal c)
          have : ¬ t.foldl (stepR 10) (v * 10 + digitVal c) ≤ 0xFFFFFFFF := by omega
          simp only [hov, ↓reduceIte, this]
          split <;> rfl
        · simp only [hov, ↓reduceIte]
          rw [show v * 10 + (c.toNat - 0x30) = v * 10 + digitVal c by rw [hdv]]
          rw [ih (v * 10 + digitVal c) (fun b hb => hl b (by simp [hb])) (by omega)]; rfl
    · have hd' : isDigit c = false := by simpa using hd
      simp [hd']

theorem hexRun_spec (label rest : Bytes) (v digits : Nat) (hl : NoDot label) (hr : RestOk rest) (hv : v ≤ 0xFFFFFFFF) :
    hexRun (label ++ rest) v digits = (runResult 16 label rest v).map (fun p => (p.1, digits + label.length, p.2)) := by
  induction label generalizing v digits with
  | nil =>
    simp only [List.nil_append, runResult, List.all_nil, List.foldl_nil, ↓reduceIte, hv, Option.map_some, List.length_nil,
      Nat.add_zero]
    rcases hr with rfl | hr
    · simp [hexRun]
    · cases rest with
      | nil => simp at hr
      | cons c t =>
        have : c = 0x2E := by simpa using hr
        subst this; simp [hexRun]
  | cons c t ih =>
    have hc : c ≠ 0x2E := hl c (by simp)
    have hcb : (c == 0x2E) = false := by simpa using hc
    have nf := nibble_facts c
    simp only [List.cons_append, hexRun, hcb, Bool.false_eq_true, ↓reduceIte, runResult, List.all_cons, List.foldl_cons,
      List.length_cons]
    by_cases hd : isRadixDigit 16 c = true
    · have hne : hexNibble c ≠ 0xff := nf.1.mp hd
      have hne' : (hexNibble c == 0xff) = false := by simpa using hne
      obtain ⟨hdv, hlt⟩ := nf.2.1 hd
      simp only [hne', Bool.false_eq_true, ↓reduceIte, hd, Bool.true_and]
      by_cases hcap : v > 0xFFFFFFFF / 16
      · have hbig : v * 16 + digitVal c > 0xFFFFFFFF := by omega
        have hge := foldl_ge 16 (by decide) t (v * 16 + digitVal c)
        have : ¬ t.foldl (stepR 16) (v * 16 + digitVal c) ≤ 0xFFFFFFFF := by omega
        simp only [hcap, ↓reduceIte, this]
        split <;> rfl
      · simp only [hcap, ↓reduceIte]
        rw [show v * 16 + hexNibble c = v * 16 + digitVal c by rw [hdv]]
        rw [ih (v * 16 + digitVal c) (digits + 1) (fun b hb => hl b (by simp [hb])) (by omega)]
        have : digits + 1 + t.length = digits + (t.length + 1) := by omega
        rw [this]; rfl
    · have hne : hexNibble c = 0xff := by
        exact Classical.byContradiction (fun hcon => hd (nf.1.mpr hcon))
      have hd' : isRadixDigit 16 c = false := by simpa using hd
      simp [hne, hd']

/-- canonical decimal text: digits only, no leading zero on a multi-digit number -/
def pureDec (label : Bytes) : Bool :=
  label.all isDigit && !(match label with | c0 :: _ :: _ => c0 == 0x30 | _ => false)

theorem x_facts : ∀ b : UInt8, ((lo b == 0x78) = (b == 0x78 || b == 0x58)) ∧ (lo b == 0x78 → isDigit b = false ∧ b ≠ 0x2E) := by
  apply forall_uint8_of_fin; decide +kernel

theorem parseRadix_eq_foldl (r : Nat) (t : Bytes) : parseRadix r t = t.foldl (stepR r) 0 := rfl

theorem restOk_cons (c : UInt8) (t rest : Bytes) (hr : RestOk rest) (hc : c ≠ 0x2E) : (c :: t) ++ rest ≠ [] := by simp

/-- **parse_ipv4_number** reads the Standard's IPv4 number from the text up to the next dot, failing exactly when
    that number does not exist or does not fit 32 bits; the "pure decimal" flag means canonical decimal text -/
theorem parseIpv4Number_spec (label rest : Bytes) (hl : NoDot label) (hr : RestOk rest) :
    parseIpv4Number (label ++ rest) =
      (match ipv4Number label with
       | none => none
       | some v => if v ≤ 0xFFFFFFFF then some (v, pureDec label, rest) else none) := by
  cases label with
  | nil =>
    -- nothing before the dot / the end
    simp only [List.nil_append, ipv4Number, List.isEmpty_nil, ↓reduceIte]
    rcases hr with rfl | hr
    · rfl
    · cases rest with
      | nil => simp at hr
      | cons c t =>
        have : c = 0x2E := by simpa using hr
        subst this
        cases t <;> simp [parseIpv4Number, isDigit]
  | cons c0 t0 =>
    have h0 : c0 ≠ 0x2E := hl c0 (by simp)
    cases t0 with
    | nil =>
      -- a single byte: decimal or nothing
      have hsp : ipv4Number [c0] = if isDigit c0 then some (digitVal c0) else none := by
        simp [ipv4Number, parseRadix, (nibble_facts c0).2.2.2.2.1]
      rw [hsp]
      by_cases hd : isDigit c0 = true
      · obtain ⟨hdv, hlt, _⟩ := (nibble_facts c0).2.2.2.2.2.1 hd
        have hle : digitVal c0 ≤ 0xFFFFFFFF := by omega
        simp only [hd, ↓reduceIte, hle, pureDec, List.all_cons, List.all_nil, Bool.and_true, Bool.not_false]
        rcases hr with rfl | hr
        · simp [parseIpv4Number, hd, hdv]
        · cases rest with
          | nil => simp at hr
          | cons c t =>
            have : c = 0x2E := by simpa using hr
            subst this
            have hx : (lo (0x2E : UInt8) == 0x78) = false := by decide
            have hdg : isDigit (0x2E : UInt8) = false := by decide
            simp [parseIpv4Number, hd, hx, hdg, decRun, hdv]
      · have hd' : isDigit c0 = false := by simpa using hd
        simp only [hd', Bool.false_eq_true, ↓reduceIte]
        rcases hr with rfl | hr
        · simp [parseIpv4Number, hd']
        · cases rest with
          | nil => simp at hr
          | cons c t =>
            have : c = 0x2E := by simpa using hr
            subst this
            have hx : (lo (0x2E : UInt8) == 0x78) = false := by decide
            have hdg : isDigit (0x2E : UInt8) = false := by decide
            have hc0 : (c0 == 0x30) = false := by
              cases hq : (c0 == 0x30) with
              | false => rfl
              | true =>
                have : c0 = 0x30 := by simpa using hq
                subst this; simp [isDigit] at hd'
            simp [parseIpv4Number, hd', hx, hdg, hc0]
    | cons c1 t1 =>
      have h1 : c1 ≠ 0x2E := hl c1 (by simp)
      have hl1 : NoDot t1 := fun b hb => hl b (by simp [hb])
      have hl0 : NoDot (c1 :: t1) := fun b hb => hl b (List.mem_cons_of_mem _ hb)
      have hx := x_facts c1
      by_cases hc0 : c0 = 0x30
      · subst hc0
        by_cases hxx : (lo c1 == 0x78) = true
        · -- hexadecimal
          have hxx' : (c1 == 0x78 || c1 == 0x58) = true := by rw [← hx.1]; exact hxx
          have hpure : pureDec (0x30 :: c1 :: t1) = false := by
            have := (hx.2 hxx).1
            simp [pureDec, this]
          have hsp : ipv4Number (0x30 :: c1 :: t1) =
              (if t1.isEmpty then some 0 else if t1.all (isRadixDigit 16) then some (parseRadix 16 t1) else none) := by
            simp [ipv4Number, hxx']
          rw [hsp, hpure]
          cases t1 with
          | nil =>
            simp only [List.isEmpty_nil, ↓reduceIte, Nat.zero_le]
            rcases hr with rfl | hr
            · simp [parseIpv4Number, hxx]
            · cases rest with
              | nil => simp at hr
              | cons c t =>
                have : c = 0x2E := by simpa using hr
                subst this
                simp [parseIpv4Number, hxx]
          | cons d t' =>
            have hd : d ≠ 0x2E := hl1 d (by simp)
            have hdb : (d == 0x2E) = false := by simpa using hd
            have hrun := hexRun_spec (d :: t') rest 0 0 hl1 hr (by decide)
            simp only [List.cons_append] at hrun
            simp only [List.cons_append, parseIpv4Number, beq_self_eq_true, hxx, Bool.and_self, ↓reduceIte, hdb,
              Bool.false_eq_true, hrun, List.isEmpty_cons, runResult, parseRadix_eq_foldl]
            by_cases hall : (d :: t').all (isRadixDigit 16) = true
            · simp only [hall, ↓reduceIte, List.foldl_cons, Nat.zero_mul, Nat.zero_add]
              by_cases hfit : t'.foldl (stepR 16) (digitVal d) ≤ 0xFFFFFFFF
              · simp [hfit]
              · simp [hfit]
            · have hall' : (d :: t').all (isRadixDigit 16) = false := by simpa using hall
              simp [hall']
        · have hxx' : (lo c1 == 0x78) = false := by simpa using hxx
          have hnx : (c1 == 0x78 || c1 == 0x58) = false := by rw [← hx.1]; exact hxx'
          have hsp : ipv4Number (0x30 :: c1 :: t1) =
              (if (c1 :: t1).all (isRadixDigit 8) then some (parseRadix 8 (c1 :: t1)) else none) := by
            simp [ipv4Number, hnx]
          have hpure : pureDec (0x30 :: c1 :: t1) = false := by simp [pureDec]
          rw [hsp, hpure]
          by_cases hd1 : isDigit c1 = true
          · -- octal
            have hrun := octRun_spec (c1 :: t1) rest 0 hl0 hr (by decide)
            simp only [List.cons_append] at hrun
            simp only [List.cons_append, parseIpv4Number, beq_self_eq_true, hxx', Bool.and_false, Bool.false_eq_true, ↓reduceIte,
              hd1, Bool.and_self, hrun, runResult, parseRadix_eq_foldl]
            by_cases hall : (c1 :: t1).all (isRadixDigit 8) = true
            · simp only [hall, ↓reduceIte, List.foldl_cons, Nat.zero_mul, Nat.zero_add]
              by_cases hfit : t1.foldl (stepR 8) (digitVal c1) ≤ 0xFFFFFFFF
              · simp [hfit]
              · simp [hfit]
            · have hall' : (c1 :: t1).all (isRadixDigit 8) = false := by simpa using hall
              simp [hall']
          · -- "0" followed by something that is neither x nor a digit: no number
            have hd1' : isDigit c1 = false := by simpa using hd1
            have hnotoct : isRadixDigit 8 c1 = false := by
              cases hq : isRadixDigit 8 c1 with
              | false => rfl
              | true =>
                have t : ∀ b : UInt8, isRadixDigit 8 b = true → isDigit b = true := by apply forall_uint8_of_fin; decide +kernel
                rw [t c1 hq] at hd1'; cases hd1'
            have hc1b : (c1 == 0x2E) = false := by simpa using h1
            have hz : isDigit (0x30 : UInt8) = true := by decide
            simp [parseIpv4Number, hxx', hd1', hz, decRun, hc1b, hnotoct]
      · -- decimal (or nothing)
        have hc0b : (c0 == 0x30) = false := by simpa using hc0
        have hsp : ipv4Number (c0 :: c1 :: t1) =
            (if (c0 :: c1 :: t1).all (isRadixDigit 10) then some (parseRadix 10 (c0 :: c1 :: t1)) else none) := by
          unfold ipv4Number
          simp only [List.isEmpty_cons, Bool.false_eq_true, ↓reduceIte]
          split
          · rename_i heq; injection heq with e _; exact absurd e hc0
          · simp
        rw [hsp]
        by_cases hd0 : isDigit c0 = true
        · obtain ⟨hdv, hlt, _⟩ := (nibble_facts c0).2.2.2.2.2.1 hd0
          have hrun := decRun_spec (c1 :: t1) rest (c0.toNat - 0x30) hl0 hr (by omega)
          simp only [List.cons_append] at hrun
          have hr10 : isRadixDigit 10 c0 = true := by rw [(nibble_facts c0).2.2.2.2.1]; exact hd0
          simp only [List.cons_append, parseIpv4Number, hc0b, Bool.false_and, Bool.false_eq_true, ↓reduceIte, hd0, Bool.not_true,
            hrun, runResult, parseRadix_eq_foldl, List.all_cons, hr10, Bool.true_and, List.foldl_cons, Nat.zero_mul, Nat.zero_add,
            hdv]
          by_cases hall : (isRadixDigit 10 c1 && t1.all (isRadixDigit 10)) = true
          · have hpure : pureDec (c0 :: c1 :: t1) = true := by
              have e10 : ∀ l : Bytes, l.all (isRadixDigit 10) = l.all isDigit := by
                intro l
                have : isRadixDigit 10 = isDigit := funext (fun b => (nibble_facts b).2.2.2.2.1)
                rw [this]
              simp only [Bool.and_eq_true] at hall
              have h1d : isDigit c1 = true := by rw [← (nibble_facts c1).2.2.2.2.1]; exact hall.1
              have htd : t1.all isDigit = true := by rw [← e10]; exact hall.2
              simp [pureDec, hd0, h1d, htd, hc0b]
            simp only [hall, ↓reduceIte, hpure]
            by_cases hfit : t1.foldl (stepR 10) ((c0.toNat - 0x30) * 10 + digitVal c1) ≤ 0xFFFFFFFF
            · simp [hfit]
            · simp [hfit]
          · have hall' : (isRadixDigit 10 c1 && t1.all (isRadixDigit 10)) = false := by simpa using hall
            simp [hall']
        · have hd0' : isDigit c0 = false := by simpa using hd0
          have hr10 : isRadixDigit 10 c0 = false := by rw [(nibble_facts c0).2.2.2.2.1]; exact hd0'
          simp [parseIpv4Number, hc0b, hd0', hr10]

/-! ### the loop over the dotted parts -/
def pc1 (l : Bytes) : Nat := if pureDec l then 1 else 0

/-- the loop of `parse_ipv4`, on the list of labels -/
def specLoop : List Bytes → Nat → Nat → Nat → Option (Nat × Nat)
  | [], _, _, _ => none
  | [l], dc, acc, pc =>
    if dc ≥ 4 then none else
    match ipv4Number l with
    | none => none
    | some v => if v ≥ 2 ^ (32 - dc * 8) then none else some (acc * 2 ^ (32 - dc * 8) + v, pc + pc1 l)
  | l :: m :: more, dc, acc, pc =>
    if dc ≥ 4 then none else
    match ipv4Number l with
    | none => none
    | some v => if v > 255 then none else specLoop (m :: more) (dc + 1) (acc * 256 + v) (pc + pc1 l)

theorem join_ne_nil (labels : List Bytes) (hne : labels ≠ []) (hlast : labels.getLast hne ≠ []) : joinWith 0x2E labels ≠ [] := by
  match labels, hne, hlast with
  | [l], _, hlast => simpa [joinWith] using hlast
  | l :: m :: more, _, _ => simp [joinWith]

theorem pow_le_32 (dc : Nat) : 2 ^ (32 - dc * 8) ≤ 4294967296 := by
  have : 32 - dc * 8 ≤ 32 := by omega
  calc 2 ^ (32 - dc * 8) ≤ 2 ^ 32 := Nat.pow_le_pow_right (by decide) this
    _ = 4294967296 := by decide

/-- the loop on the text is the loop on the labels -/
theorem ipv4Loop_eq (labels : List Bytes) (hne : labels ≠ []) (hnd : ∀ l ∈ labels, NoDot l) (hlast : labels.getLast hne ≠ [])
    (fuel dc acc pc : Nat) (hf : dc + fuel ≥ 6) :
    ipv4Loop fuel (joinWith 0x2E labels) dc acc pc = specLoop labels dc acc pc := by
  induction labels generalizing fuel dc acc pc with
  | nil => exact absurd rfl hne
  | cons l more ih =>
    have hpne : joinWith 0x2E (l :: more) ≠ [] := join_ne_nil _ hne hlast
    have hpemp : (joinWith 0x2E (l :: more)).isEmpty = false := FS.isEmpty_false_of_ne hpne
    cases fuel with
    | zero =>
      -- dc ≥ 6: both sides fail
      have hdc : dc ≥ 4 := by omega
      cases more with
      | nil => simp [ipv4Loop, specLoop, hdc]
      | cons m more' => simp [ipv4Loop, specLoop, hdc]
    | succ f =>
      unfold ipv4Loop
      by_cases hdc : dc ≥ 4
      · have hd' : (decide (dc ≥ 4) || (joinWith 0x2E (l :: more)).isEmpty) = true := by simp [hdc]
        simp only [hd', ↓reduceIte, hpemp, Bool.not_false, Bool.or_true]
        cases more with
        | nil => simp [specLoop, hdc]
        | cons m more' => simp [specLoop, hdc]
      · have hd' : (decide (dc ≥ 4) || (joinWith 0x2E (l :: more)).isEmpty) = false := by simp [hdc, hpemp]
        simp only [hd', Bool.false_eq_true, ↓reduceIte]
        cases more with
        | nil =>
          -- the last label
          have hnum := parseIpv4Number_spec l [] (hnd l (by simp)) (Or.inl rfl)
          simp only [List.append_nil] at hnum
          simp only [joinWith, hnum, specLoop, hdc, ↓reduceIte]
          cases hq : ipv4Number l with
          | none => rfl
          | some v =>
            simp only
            have hp := pow_le_32 dc
            by_cases hv : v ≤ 0xFFFFFFFF
            · simp only [hv, ↓reduceIte, List.isEmpty_nil, pc1]
              by_cases hb : v ≥ 2 ^ (32 - dc * 8)
              · simp [hb]
              · simp only [hb, ↓reduceIte]
                cases pureDec l <;> simp
            · have : v ≥ 2 ^ (32 - dc * 8) := by omega
              simp [hv, this]
        | cons m more' =>
          have hrest : RestOk (0x2E :: joinWith 0x2E (m :: more')) := Or.inr rfl
          have hnum := parseIpv4Number_spec l (0x2E :: joinWith 0x2E (m :: more')) (hnd l (by simp)) hrest
          have hj : joinWith 0x2E (l :: m :: more') = l ++ 0x2E :: joinWith 0x2E (m :: more') := by simp [joinWith]
          rw [hj, hnum]
          simp only [specLoop, hdc, ↓reduceIte]
          cases hq : ipv4Number l with
          | none => rfl
          | some v =>
            simp only
            by_cases hv : v ≤ 0xFFFFFFFF
            · simp only [hv, ↓reduceIte, List.isEmpty_cons, Bool.false_eq_true, bne_self_eq_false, Bool.or_false]
              by_cases hb : v > 255
              · simp [hb]
              · simp only [hb, decide_false, Bool.false_eq_true, ↓reduceIte]
                have hne' : (m :: more') ≠ [] := by simp
                have hl' : (m :: more').getLast hne' ≠ [] := by
                  have : (l :: m :: more').getLast hne = (m :: more').getLast hne' := by simp [List.getLast_cons]
                  rw [← this]; exact hlast
                rw [ih hne' (fun x hx => hnd x (by simp [hx])) hl' f (dc + 1) _ _ (by omega)]
                simp only [pc1]
                cases pureDec l <;> simp
            · have : v > 255 := by omega
              simp [hv, this]

/-! ### canonical decimal text is what the serializer writes -/
def dg (k : Nat) : UInt8 := UInt8.ofNat (48 + k)

theorem canon1 : ∀ a : Fin 10, natToDec a.val = [dg a.val] := by decide +kernel
theorem canon2 : ∀ a b : Fin 10, a.val ≠ 0 → natToDec (10 * a.val + b.val) = [dg a.val, dg b.val] := by decide +kernel
theorem canon3 : ∀ a b c : Fin 10, a.val ≠ 0 → 100 * a.val + 10 * b.val + c.val ≤ 255 →
    natToDec (100 * a.val + 10 * b.val + c.val) = [dg a.val, dg b.val, dg c.val] := by decide +kernel

theorem digit_byte : ∀ x : UInt8, isDigit x = true → x = dg (x.toNat - 48) ∧ x.toNat - 48 < 10 ∧ digitVal x = x.toNat - 48 ∧
    (x.toNat - 48 = 0 ↔ x = 0x30) := by
  unfold dg; apply forall_uint8_of_fin; decide +kernel

/-- a canonical decimal label with a value below 256 is the serializer's text of that value -/
theorem canon_text (l : Bytes) (v : Nat) (hp : pureDec l = true) (hne : l ≠ []) (hv : ipv4Number l = some v) (h255 : v ≤ 255) :
    l = natToDec v := by
  simp only [pureDec, Bool.and_eq_true, List.all_eq_true, Bool.not_eq_eq_eq_not, Bool.not_true] at hp
  obtain ⟨hd, hlead⟩ := hp
  have hdA : ∀ b ∈ l, isAsciiDigit b = true := fun b hb => hd b hb
  have hnum := FS.ipv4Number_dec l hne hdA (by
    intro c x rest e
    subst e
    simp only at hlead
    intro e2; subst e2; simp at hlead)
  rw [hnum] at hv
  injection hv with hv
  match l, hne, hd, hlead, hv with
  | [x], _, hd, _, hv =>
    obtain ⟨e1, l1, dv1, _⟩ := digit_byte x (hd x (by simp))
    have : v = x.toNat - 48 := by rw [← hv]; simp [parseRadix, dv1]
    rw [this, canon1 ⟨x.toNat - 48, l1⟩]; simp [← e1]
  | [x, y], _, hd, hlead, hv =>
    obtain ⟨e1, l1, dv1, z1⟩ := digit_byte x (hd x (by simp))
    obtain ⟨e2, l2, dv2, _⟩ := digit_byte y (hd y (by simp))
    have hx0 : x.toNat - 48 ≠ 0 := by
      intro e; have := z1.mp e; subst this; simp at hlead
    have : v = 10 * (x.toNat - 48) + (y.toNat - 48) := by rw [← hv]; simp [parseRadix, dv1, dv2]; omega
    rw [this, canon2 ⟨x.toNat - 48, l1⟩ ⟨y.toNat - 48, l2⟩ hx0]; simp [← e1, ← e2]
  | [x, y, z], _, hd, hlead, hv =>
    obtain ⟨e1, l1, dv1, z1⟩ := digit_byte x (hd x (by simp))
    obtain ⟨e2, l2, dv2, _⟩ := digit_byte y (hd y (by simp))
    obtain ⟨e3, l3, dv3, _⟩ := digit_byte z (hd z (by simp))
    have hx0 : x.toNat - 48 ≠ 0 := by
      intro e; have := z1.mp e; subst this; simp at hlead
    have : v = 100 * (x.toNat - 48) + 10 * (y.toNat - 48) + (z.toNat - 48) := by
      rw [← hv]; simp [parseRadix, dv1, dv2, dv3]; omega
    rw [this, canon3 ⟨x.toNat - 48, l1⟩ ⟨y.toNat - 48, l2⟩ ⟨z.toNat - 48, l3⟩ hx0 (by simp only; omega)]
    simp [← e1, ← e2, ← e3]
  | x :: y :: z :: w :: rest, _, hd, hlead, hv =>
    exfalso
    obtain ⟨_, _, dv1, z1⟩ := digit_byte x (hd x (by simp))
    have hx0 : x ≠ 0x30 := by intro e; subst e; simp at hlead
    have hx1 : 1 ≤ digitVal x := by
      rw [dv1]
      have : x.toNat - 48 ≠ 0 := fun e => hx0 (z1.mp e)
      omega
    rw [FS.parseRadix_cons] at hv
    have hlen : 3 ≤ (y :: z :: w :: rest).length := by simp
    have hpow : 10 ^ 3 ≤ 10 ^ (y :: z :: w :: rest).length := Nat.pow_le_pow_right (by decide) hlen
    have hmul : 1 * 10 ^ (y :: z :: w :: rest).length ≤ digitVal x * 10 ^ (y :: z :: w :: rest).length :=
      Nat.mul_le_mul_right _ hx1
    have : (10 : Nat) ^ 3 = 1000 := by decide
    omega

/-! ### the labels against the Standard's IPv4 parser -/
/-- the Standard's IPv4 parser after the split into parts -/
def specParts (parts : List Bytes) : Option Nat :=
  if parts.length > 4 then none else
  match parts.mapM ipv4Number with
  | none => none
  | some numbers =>
    match numbers.getLast? with
    | none => none
    | some last =>
      let front := numbers.dropLast
      if front.any (· > 255) then none
      else if last ≥ 256 ^ (5 - numbers.length) then none
      else some (ipv4Parse.go front 0 last)

theorem ipv4Parse_parts (s : Bytes) :
    ipv4Parse s = specParts (let parts := splitOn 0x2E s
                             if parts.getLast? == some [] && parts.length > 1 then parts.dropLast else parts) := rfl

def pcSum (labels : List Bytes) : Nat := (labels.map pc1).sum

/-- the loop on the labels computes the Standard's address (and counts the canonical decimal labels) -/
theorem specLoop_eq (labels : List Bytes) : specLoop labels 0 0 0 = (specParts labels).map (fun a => (a, pcSum labels)) := by
  match labels with
  | [] => simp [specLoop, specParts]
  | [l1] =>
    simp only [specLoop, specParts, List.length_cons, List.length_nil, List.mapM_cons, List.mapM_nil, pcSum, List.map_cons,
      List.map_nil, List.sum_cons, List.sum_nil]
    cases h1 : ipv4Number l1 with
    | none => simp
    | some v1 =>
      simp only [Option.pure_def, Option.bind_eq_bind, Option.bind_some, List.getLast?_singleton, List.dropLast_singleton,
        List.any_nil, Bool.false_eq_true, ↓reduceIte, List.length_cons, List.length_nil]
      by_cases hb : v1 ≥ 4294967296
      · simp [hb]
      · simp [hb, ipv4Parse.go]
  | [l1, l2] =>
    simp only [specLoop, specParts, List.length_cons, List.length_nil, List.mapM_cons, List.mapM_nil, pcSum, List.map_cons,
      List.map_nil, List.sum_cons, List.sum_nil]
    cases h1 : ipv4Number l1 with
    | none => simp
    | some v1 =>
      cases h2 : ipv4Number l2 with
      | none => by_cases hb : v1 > 255 <;> simp [hb]
      | some v2 =>
        by_cases hb1 : v1 > 255
        · simp [hb1]
        · by_cases hb : v2 ≥ 16777216
          · simp [hb1, hb]
          · simp [hb1, hb, ipv4Parse.go]; omega
  | [l1, l2, l3] =>
    simp only [specLoop, specParts, List.length_cons, List.length_nil, List.mapM_cons, List.mapM_nil, pcSum, List.map_cons,
      List.map_nil, List.sum_cons, List.sum_nil]
    cases h1 : ipv4Number l1 with
    | none => simp
    | some v1 =>
      cases h2 : ipv4Number l2 with
      | none => by_cases hb : v1 > 255 <;> simp [hb]
      | some v2 =>
        cases h3 : ipv4Number l3 with
        | none => by_cases hb1 : v1 > 255 <;> by_cases hb2 : v2 > 255 <;> simp [hb1, hb2]
        | some v3 =>
          by_cases hb1 : v1 > 255
          · simp [hb1]
          · by_cases hb2 : v2 > 255
            · simp [hb1, hb2]
            · by_cases hb : v3 ≥ 65536
              · simp [hb1, hb2, hb]
              · simp [hb1, hb2, hb, ipv4Parse.go]; omega
  | [l1, l2, l3, l4] =>
    simp only [specLoop, specParts, List.length_cons, List.length_nil, List.mapM_cons, List.mapM_nil, pcSum, List.map_cons,
      List.map_nil, List.sum_cons, List.sum_nil]
    cases h1 : ipv4Number l1 with
    | none => simp
    | some v1 =>
      cases h2 : ipv4Number l2 with
      | none => by_cases hb : v1 > 255 <;> simp [hb]
      | some v2 =>
        cases h3 : ipv4Number l3 with
        | none => by_cases hb1 : v1 > 255 <;> by_cases hb2 : v2 > 255 <;> simp [hb1, hb2]
        | some v3 =>
          cases h4 : ipv4Number l4 with
          | none => by_cases hb1 : v1 > 255 <;> by_cases hb2 : v2 > 255 <;> by_cases hb3 : v3 > 255 <;> simp [hb1, hb2, hb3]
          | some v4 =>
            by_cases hb1 : v1 > 255
            · simp [hb1]
            · by_cases hb2 : v2 > 255
              · simp [hb1, hb2]
              · by_cases hb3 : v3 > 255
                · simp [hb1, hb2, hb3]
                · by_cases hb : v4 ≥ 256
                  · simp [hb1, hb2, hb3, hb]
                  · simp [hb1, hb2, hb3, hb, ipv4Parse.go]; omega
  | l1 :: l2 :: l3 :: l4 :: l5 :: more =>
    have hF : specParts (l1 :: l2 :: l3 :: l4 :: l5 :: more) = none := by simp [specParts]
    rw [hF]
    simp only [specLoop, Option.map_none]
    cases h1 : ipv4Number l1 with
    | none => simp
    | some v1 =>
      cases h2 : ipv4Number l2 with
      | none => by_cases hb : v1 > 255 <;> simp [hb]
      | some v2 =>
        cases h3 : ipv4Number l3 with
        | none => by_cases hb1 : v1 > 255 <;> by_cases hb2 : v2 > 255 <;> simp [hb1, hb2]
        | some v3 =>
          cases h4 : ipv4Number l4 with
          | none => by_cases hb1 : v1 > 255 <;> by_cases hb2 : v2 > 255 <;> by_cases hb3 : v3 > 255 <;> simp [hb1, hb2, hb3]
          | some v4 =>
            by_cases hb1 : v1 > 255 <;> by_cases hb2 : v2 > 255 <;> by_cases hb3 : v3 > 255 <;> by_cases hb4 : v4 > 255 <;>
              simp [hb1, hb2, hb3, hb4] <;> (cases more <;> simp [specLoop])

/-! ### trailing dots and labels -/
theorem splitOn_snoc_sep (sep : UInt8) (t : Bytes) : splitOn sep (t ++ [sep]) = splitOn sep t ++ [[]] := by
  induction t with
  | nil => simp [splitOn]
  | cons b r ih =>
    simp only [List.cons_append, splitOn]
    split
    · simp [ih]
    · rw [ih]
      cases hsp : splitOn sep r with
      | nil => exact absurd hsp (FS.splitOn_ne_nil sep r)
      | cons h tl => simp

theorem last_label_empty (sep : UInt8) (t : Bytes) (h : (splitOn sep t).getLast? = some []) : t = [] ∨ t.getLast? = some sep := by
  induction t with
  | nil => left; rfl
  | cons b r ih =>
    right
    simp only [splitOn] at h
    split at h
    · rename_i hb
      have hb' : b = sep := by simpa using hb
      cases hsp : splitOn sep r with
      | nil => exact absurd hsp (FS.splitOn_ne_nil sep r)
      | cons p ps =>
        rw [hsp] at h ih
        have : (p :: ps).getLast? = some [] := by simpa [List.getLast?_cons_cons] using h
        rcases ih this with e | e
        · subst e; simp [hb']
        · cases r with
          | nil => simp at e
          | cons c r' => simpa [List.getLast?_cons_cons] using e
    · cases hsp : splitOn sep r with
      | nil => exact absurd hsp (FS.splitOn_ne_nil sep r)
      | cons p ps =>
        rw [hsp] at h ih
        cases ps with
        | nil => simp at h
        | cons q qs =>
          have : (p :: q :: qs).getLast? = some [] := by simpa [List.getLast?_cons_cons] using h
          rcases ih this with e | e
          · subst e; simp [splitOn] at hsp
          · cases r with
            | nil => simp at e
            | cons c r' => simpa [List.getLast?_cons_cons] using e

/-- the decimal fast path only accepts canonical decimal parts -/
theorem decPart_pure (p : Bytes) (v : Nat) (p' : Bytes) (h : decPart p = some (v, p')) :
    ∃ ds, p = ds ++ p' ∧ ds ≠ [] ∧ pureDec ds = true ∧ ipv4Number ds = some v ∧ v ≤ 255 := by
  obtain ⟨ds, e1, e2, e3, e4, e5⟩ := FS.decPart_spec p v p' h
  refine ⟨ds, e1, e2, ?_, e4, e5⟩
  have hall : ds.all isDigit = true := by
    simp only [List.all_eq_true]; exact fun b hb => e3 b hb
  simp only [pureDec, hall, Bool.true_and, Bool.not_eq_eq_eq_not, Bool.not_true]
  -- a leading zero on a multi-digit part would have made `decPart` fail
  match ds, e1, e3, e4 with
  | [], _, _, _ => rfl
  | [_], _, _, _ => rfl
  | c0 :: c1 :: rest, e1, e3, e4 =>
    simp only
    cases hq : (c0 == 0x30) with
    | false => rfl
    | true =>
      exfalso
      have hc0 : c0 = 0x30 := by simpa using hq
      subst hc0
      have hc1 : isDigit c1 = true := e3 c1 (by simp)
      subst e1
      simp [decPart, hc1, isDigit] at h
      simp only [isDigit, Bool.and_eq_true, decide_eq_true_eq] at hc1
      omega

/-! ### the host text -/
theorem pc1_le (l : Bytes) : pc1 l ≤ 1 := by unfold pc1; split <;> omega
theorem pc1_zero (l : Bytes) (h : pureDec l = false) : pc1 l = 0 := by simp [pc1, h]

/-- four canonical decimal labels are the serializer's output -/
theorem pc4_text (labels : List Bytes) (a : Nat) (hs : specParts labels = some a) (hp : pcSum labels = 4) :
    joinWith 0x2E labels = ipv4Serialize a := by
  unfold specParts at hs
  split at hs; · cases hs
  rename_i hlen
  match labels, hlen, hp, hs with
  | [l1, l2, l3, l4], _, hp, hs =>
    simp only [pcSum, List.map_cons, List.map_nil, List.sum_cons, List.sum_nil] at hp
    have q1 := pc1_le l1; have q2 := pc1_le l2; have q3 := pc1_le l3; have q4 := pc1_le l4
    have p1 : pureDec l1 = true := by
      cases h : pureDec l1 with
      | true => rfl
      | false => have := pc1_zero l1 h; omega
    have p2 : pureDec l2 = true := by
      cases h : pureDec l2 with
      | true => rfl
      | false => have := pc1_zero l2 h; omega
    have p3 : pureDec l3 = true := by
      cases h : pureDec l3 with
      | true => rfl
      | false => have := pc1_zero l3 h; omega
    have p4 : pureDec l4 = true := by
      cases h : pureDec l4 with
      | true => rfl
      | false => have := pc1_zero l4 h; omega
    simp only [List.mapM_cons, List.mapM_nil] at hs
    cases h1 : ipv4Number l1 with
    | none => simp [h1] at hs
    | some v1 =>
      cases h2 : ipv4Number l2 with
      | none => simp [h1, h2] at hs
      | some v2 =>
        cases h3 : ipv4Number l3 with
        | none => simp [h1, h2, h3] at hs
        | some v3 =>
          cases h4 : ipv4Number l4 with
          | none => simp [h1, h2, h3, h4] at hs
          | some v4 =>
            simp only [h1, h2, h3, h4, Option.pure_def, Option.bind_eq_bind, Option.bind_some, List.getLast?_cons_cons,
              List.getLast?_singleton, List.dropLast_cons₂, List.dropLast_singleton, List.any_cons, List.any_nil, Bool.or_false,
              List.length_cons, List.length_nil] at hs
            split at hs; · cases hs
            rename_i hfront
            split at hs; · cases hs
            rename_i hlastb
            injection hs with hs
            simp only [Bool.or_eq_true, decide_eq_true_eq, not_or] at hfront
            have b1 : v1 ≤ 255 := by omega
            have b2 : v2 ≤ 255 := by omega
            have b3 : v3 ≤ 255 := by omega
            have b4 : v4 ≤ 255 := by simp at hlastb; omega
            have n1 : l1 ≠ [] := by intro e; subst e; simp [ipv4Number] at h1
            have n2 : l2 ≠ [] := by intro e; subst e; simp [ipv4Number] at h2
            have n3 : l3 ≠ [] := by intro e; subst e; simp [ipv4Number] at h3
            have n4 : l4 ≠ [] := by intro e; subst e; simp [ipv4Number] at h4
            have ha : a = v4 + v1 * 16777216 + v2 * 65536 + v3 * 256 := by
              rw [← hs]; simp [ipv4Parse.go]
            unfold ipv4Serialize
            rw [show a / 16777216 % 256 = v1 by omega, show a / 65536 % 256 = v2 by omega, show a / 256 % 256 = v3 by omega,
              show a % 256 = v4 by omega]
            rw [← canon_text l1 v1 p1 n1 h1 b1, ← canon_text l2 v2 p2 n2 h2 b2, ← canon_text l3 v3 p3 n3 h3 b3,
              ← canon_text l4 v4 p4 n4 h4 b4]
            simp [joinWith]
  | [], _, hp, _ => simp [pcSum] at hp
  | [l1], _, hp, _ => simp only [pcSum, List.map_cons, List.map_nil, List.sum_cons, List.sum_nil] at hp; have := pc1_le l1; omega
  | [l1, l2], _, hp, _ =>
    simp only [pcSum, List.map_cons, List.map_nil, List.sum_cons, List.sum_nil] at hp
    have := pc1_le l1; have := pc1_le l2; omega
  | [l1, l2, l3], _, hp, _ =>
    simp only [pcSum, List.map_cons, List.map_nil, List.sum_cons, List.sum_nil] at hp
    have := pc1_le l1; have := pc1_le l2; have := pc1_le l3; omega
  | _ :: _ :: _ :: _ :: _ :: _, hlen, _, _ => simp at hlen

/-- what the decimal fast path accepts, the general loop accepts as four canonical decimal labels -/
theorem fast_consistent (t : Bytes) (ip : Nat) (h : ipv4Decimal t = some ip) (hnd : t.getLast? ≠ some 0x2E) :
    ∃ a, specParts (splitOn 0x2E t) = some a ∧ pcSum (splitOn 0x2E t) = 4 := by
  unfold ipv4Decimal at h
  split at h; · cases h
  rename_i va p1 h1
  split at h <;> try cases h
  rename_i p1'
  split at h; · cases h
  rename_i vb p2 h2
  split at h <;> try cases h
  rename_i p2'
  split at h; · cases h
  rename_i vc p3 h3
  split at h <;> try cases h
  rename_i p3'
  split at h; · cases h
  rename_i vd p4 h4
  obtain ⟨da, e1, _, u1, n1, l1⟩ := decPart_pure _ _ _ h1
  obtain ⟨db, e2, _, u2, n2, l2⟩ := decPart_pure _ _ _ h2
  obtain ⟨dc, e3, _, u3, n3, l3⟩ := decPart_pure _ _ _ h3
  obtain ⟨dd, e4, ne4, u4, n4, l4⟩ := decPart_pure _ _ _ h4
  have nodot : ∀ ds : Bytes, pureDec ds = true → (0x2E : UInt8) ∉ ds := by
    intro ds hp hm
    simp only [pureDec, Bool.and_eq_true, List.all_eq_true] at hp
    have := hp.1 _ hm
    simp [isDigit] at this
  have htail : p4 = [] := by
    simp only at h
    split at h
    · rfl
    · -- a trailing dot is excluded
      exfalso
      apply hnd
      rw [e1, e2, e3, e4]
      have : da ++ 0x2E :: (db ++ 0x2E :: (dc ++ 0x2E :: (dd ++ [0x2E]))) =
          (da ++ 0x2E :: (db ++ 0x2E :: (dc ++ 0x2E :: dd))) ++ [0x2E] := by simp
      rw [this]
      exact List.getLast?_concat
    · cases h
  subst htail
  have hsp : splitOn 0x2E t = [da, db, dc, dd] := by
    rw [e1, e2, e3, e4, List.append_nil, splitOn_append _ _ _ (nodot da u1), splitOn_append _ _ _ (nodot db u2),
      splitOn_append _ _ _ (nodot dc u3), splitOn_no_sep _ _ (nodot dd u4)]
  rw [hsp]
  refine ⟨ipv4Parse.go [va, vb, vc] 0 vd, ?_, by simp [pcSum, pc1, u1, u2, u3, u4]⟩
  have hfront : ([va, vb, vc].any fun x => decide (x > 255)) = false := by
    simp only [List.any_cons, List.any_nil, Bool.or_false, Bool.or_eq_false_iff, decide_eq_false_iff_not]; omega
  have hlast : ¬ vd ≥ 256 ^ (5 - 4) := by simp; omega
  simp [specParts, n1, n2, n3, n4, hfront, hlast]

/-- **parse_ipv4** (both twins): on a text that `is_ipv4` lets through, the host it stores is the Standard's IPv4
    parser followed by the Standard's serializer -/
theorem parseIpv4_eq (s : Bytes)
    (hend : (if s.getLast? == some 0x2E then s.dropLast else s).getLast? ≠ some 0x2E) :
    parseIpv4 s = (ipv4Parse s).map ipv4Serialize := by
  unfold parseIpv4
  by_cases hs : s = []
  · subst hs; simp [ipv4Parse_parts, splitOn, specParts, ipv4Number]
  have hse : s.isEmpty = false := FS.isEmpty_false_of_ne hs
  simp only [hse, Bool.false_eq_true, ↓reduceIte]
  -- the text without one trailing dot, and the Standard's parts
  have hparts : ∀ t : Bytes, t = (if s.getLast? == some 0x2E then s.dropLast else s) → t.getLast? ≠ some 0x2E →
      ipv4Parse s = specParts (splitOn 0x2E t) := by
    intro t ht hnd
    rw [ipv4Parse_parts]
    by_cases hdot : (s.getLast? == some 0x2E) = true
    · simp only [hdot, ↓reduceIte] at ht
      have hsd : s = t ++ [0x2E] := by
        have := FS.snoc_of_getLast? s 0x2E (by simpa using hdot)
        rw [ht]; exact this
      simp only [hsd, splitOn_snoc_sep]
      have hne := FS.splitOn_ne_nil 0x2E t
      have hl : (splitOn 0x2E t ++ [[]]).length > 1 := by
        cases hq : splitOn 0x2E t with
        | nil => exact absurd hq hne
        | cons a b => simp
      have hpos : 0 < (splitOn 0x2E t).length := by
        cases hq : splitOn 0x2E t with
        | nil => exact absurd hq hne
        | cons a b => simp
      simp [hpos]
    · have hdot' : (s.getLast? == some 0x2E) = false := by simpa using hdot
      simp only [hdot', Bool.false_eq_true, ↓reduceIte] at ht
      subst ht
      have hlne : ¬ ((splitOn 0x2E t).getLast? == some []) = true := by
        intro hq
        rcases last_label_empty 0x2E t (by simpa using hq) with e | e
        · exact hs e
        · exact hnd e
      simp [hlne]
  generalize ht : (if s.getLast? == some 0x2E then s.dropLast else s) = t at hend
  have hsp := hparts t ht.symm hend
  by_cases hte : t = []
  · subst hte
    rw [hsp]
    simp [splitOn, specParts, ipv4Number]
  have htemp : t.isEmpty = false := FS.isEmpty_false_of_ne hte
  simp only [htemp, Bool.false_eq_true, ↓reduceIte]
  -- labels
  have hj := FS.join_split 0x2E t
  have hns := FS.split_nosep 0x2E t
  have hne := FS.splitOn_ne_nil 0x2E t
  have hlast : (splitOn 0x2E t).getLast hne ≠ [] := by
    intro e
    have : (splitOn 0x2E t).getLast? = some [] := by rw [List.getLast?_eq_some_getLast hne, e]
    rcases last_label_empty 0x2E t this with e' | e'
    · exact hte e'
    · exact hend e'
  have hloop := ipv4Loop_eq (splitOn 0x2E t) hne (fun l hl b hb e => hns l hl (e ▸ hb)) hlast 6 0 0 0 (by omega)
  rw [hj] at hloop
  rw [hloop, specLoop_eq, hsp]
  cases hq : specParts (splitOn 0x2E t) with
  | none =>
    simp only [Option.map_none]
    split
    · rename_i hfast
      exfalso
      unfold ipv4Fast at hfast
      split at hfast; · cases hfast
      cases hd : ipv4Decimal t with
      | none => rw [hd] at hfast; cases hfast
      | some ip =>
        obtain ⟨a, ha, _⟩ := fast_consistent t ip hd hend
        rw [hq] at ha; cases ha
    · rfl
  | some a =>
    simp only [Option.map_some]
    have htext : pcSum (splitOn 0x2E t) = 4 → t = ipv4Serialize a := by
      intro hp
      rw [← hj]; exact pc4_text _ a hq hp
    split
    · rename_i hfast
      unfold ipv4Fast at hfast
      split at hfast; · cases hfast
      cases hd : ipv4Decimal t with
      | none => rw [hd] at hfast; cases hfast
      | some ip =>
        obtain ⟨a', ha', hp⟩ := fast_consistent t ip hd hend
        rw [htext hp]
    · by_cases hp : pcSum (splitOn 0x2E t) = 4
      · have hpb : (pcSum (splitOn 0x2E t) == 4) = true := by simpa using hp
        simp only [hpb, ↓reduceIte]
        rw [← htext hp]
      · have : (pcSum (splitOn 0x2E t) == 4) = false := by simpa using hp
        simp only [this, Bool.false_eq_true, ↓reduceIte, serIpv4_eq]

end AdaVerif.Lemmas.K4

import AdaVerif.Lemmas.PathLoops
/-
The "fast" loop of `parse_prepared_path` (special scheme other than file, nothing to encode, no backslash, no '%')
is the Standard's path state too.
-/
namespace AdaVerif.Lemmas.PP
open AdaVerif AdaVerif.Spec AdaVerif.Lemmas AdaVerif.Lemmas.FP AdaVerif.Model.PathPrepared

/-- without '%' the only dot segments are the literal ones -/
theorem dots_literal (seg : Bytes) (h : ∀ b ∈ seg, b ≠ 0x25) :
    Spec.isDoubleDot seg = (seg == [0x2E, 0x2E]) ∧ Spec.isSingleDot seg = (seg == [0x2E]) := by
  constructor
  · cases seg with
    | nil => rfl
    | cons a rest =>
      by_cases h1 : a = 0x2E
      · subst h1
        rw [dd_spec_dot]
        match rest, h with
        | [], _ => rfl
        | [b], _ => simp
        | [b, c], _ => simp
        | [b, c, d], h =>
          have : (b == 0x25) = false := by simpa using h b (by simp)
          simp [this]
        | _ :: _ :: _ :: _ :: _, _ => simp
      · have ha : a ≠ 0x25 := h a (by simp)
        rw [dd_spec_other a rest h1 ha]
        simp [h1]
  · rw [← singleDot_eq]
    unfold Model.PathPrepared.isSingleDot
    match seg, h with
    | [], _ => rfl
    | [a], _ => simp
    | [a, b], _ => simp
    | [a, b, c], h =>
      have : a ≠ 0x25 := h a (by simp)
      simp [this]
    | _ :: _ :: _ :: _ :: _, _ => simp

theorem shorten_nonfile (scheme : Bytes) (hnf : scheme ≠ bFile) (segs : List Bytes) : Spec.shortenPath scheme segs = segs.dropLast := by
  have : (scheme == bFile) = false := by simpa using hnf
  unfold Spec.shortenPath
  split
  · simp [this]
  · rfl

theorem pathText_last (init : List Bytes) (last : Bytes) (hl : (0x2F : UInt8) ∉ last) :
    ((pathText (init ++ [last])).getLast? == some 0x2F) = last.isEmpty := by
  rw [pathText_snoc]
  cases last with
  | nil => simp
  | cons a t =>
    have hne : (a :: t) ≠ [] := by simp
    have : (pathText init ++ 0x2F :: a :: t).getLast? = (a :: t).getLast? := by
      rw [show pathText init ++ 0x2F :: a :: t = (pathText init ++ [0x2F]) ++ (a :: t) by simp, List.getLast?_append]
      cases hq : (a :: t).getLast? with
      | none => simp at hq
      | some z => rfl
    rw [this]
    cases hq : (a :: t).getLast? with
    | none => simp at hq
    | some z =>
      have hz : z ∈ a :: t := List.mem_of_getLast? hq
      have : z ≠ 0x2F := fun e => hl (e ▸ hz)
      simp [this]

/-- the last segment is ".." -/
theorem fast_final_dd (segs : List Bytes) (hn : NoSlash segs) :
    (if (pathText segs).isEmpty then [0x2F]
     else if (pathText segs).getLast? == some 0x2F then pathText segs
     else resizeAfterLast (pathText segs)) = pathText (segs.dropLast ++ [[]]) := by
  by_cases he : segs = []
  · subst he; rfl
  · have hs := snoc_of_ne_nil segs he
    have hl : (0x2F : UInt8) ∉ segs.getLast he := hn _ (List.getLast_mem he)
    generalize segs.getLast he = last at hs hl
    generalize segs.dropLast = init at hs
    subst hs
    have hemp : (pathText (init ++ [last])).isEmpty = false := by rw [pathText_snoc]; simp
    simp only [hemp, Bool.false_eq_true, ↓reduceIte, pathText_last init last hl, List.dropLast_concat, resizeAfterLast,
      rfind_pathText_snoc init last hl]
    rw [pathText_snoc init []]
    cases last with
    | nil => simp [pathText_snoc]
    | cons a t =>
      simp only [List.isEmpty_cons, Bool.false_eq_true, ↓reduceIte]
      rw [pathText_snoc]
      rw [show pathText init ++ 0x2F :: a :: t = (pathText init ++ [0x2F]) ++ (a :: t) by simp]
      exact List.take_left' (by simp)

/-- **the fast loop** is the Standard's path state -/
theorem fastLoop_eq (scheme : Bytes) (hnf : scheme ≠ bFile) (fuel : Nat) (input : Bytes) (segs : List Bytes)
    (hf : input.length < fuel) (hn : NoSlash segs)
    (hin : ∀ b ∈ input, inPath b = false ∧ b ≠ 0x25) :
    fastLoop fuel input (pathText segs) = pathText (pathSegments scheme (splitPath false input) segs) := by
  have hfb : (scheme == bFile) = false := by simpa using hnf
  induction fuel generalizing input segs with
  | zero => omega
  | succ f ih =>
    unfold fastLoop
    have hfst := cutSeg_fst false input
    cases hc : cutSeg false input with
    | mk seg more =>
      rw [hc] at hfst
      simp only at hfst
      have henc : Spec.percentEncode inPath seg = seg := FP.percentEncode_id _ _ (fun b hb => (hin b (hfst b hb).1).1)
      obtain ⟨hdd, hsd⟩ := dots_literal seg (fun b hb => (hin b (hfst b hb).1).2)
      have hsegns : (0x2F : UInt8) ∉ seg := fun hm => (hfst _ hm).2.1 rfl
      cases more with
      | none =>
        obtain ⟨h1, h2⟩ := cutSeg_none false input seg hc
        rw [h1]
        simp only
        unfold pathSegments
        simp only [List.isEmpty_nil, henc, hdd, hsd, ↓reduceIte, hfb, Bool.false_and, Bool.false_eq_true, pathSegments]
        by_cases h2d : (seg == [0x2E, 0x2E]) = true
        · simp only [h2d, ↓reduceIte]
          rw [fast_final_dd segs hn, shorten_nonfile scheme hnf]
        · have h2d' : (seg == [0x2E, 0x2E]) = false := by simpa using h2d
          simp only [h2d', Bool.false_eq_true, ↓reduceIte]
          by_cases h1d : (seg == [0x2E]) = true
          · have : (seg != [0x2E]) = false := by unfold bne; rw [h1d]; rfl
            simp only [h1d, this, Bool.false_eq_true, ↓reduceIte]
            rw [pathText_snoc]
          · have h1d' : (seg == [0x2E]) = false := by simpa using h1d
            have : (seg != [0x2E]) = true := by unfold bne; rw [h1d']; rfl
            simp only [h1d', this, Bool.false_eq_true, ↓reduceIte]
            rw [pathText_snoc]; simp
      | some rest =>
        obtain ⟨h1, h2, h3⟩ := cutSeg_some false input seg rest hc
        rw [h1]
        simp only
        have hne : (splitPath false rest).isEmpty = false := by
          cases hx : splitPath false rest with
          | nil => exact absurd hx (splitPath_ne_nil false rest)
          | cons => rfl
        have hin' : ∀ b ∈ rest, inPath b = false ∧ b ≠ 0x25 := fun b hb => hin b (h3 b hb)
        conv => rhs; unfold pathSegments
        simp only [hne, henc, hdd, hsd, hfb, Bool.false_and, Bool.false_eq_true, ↓reduceIte]
        by_cases h2d : (seg == [0x2E, 0x2E]) = true
        · simp only [h2d, ↓reduceIte]
          rw [erase_last segs hn, shorten_nonfile scheme hnf]
          exact ih rest _ (by omega) (fun s hs => hn s (List.dropLast_subset _ hs)) hin'
        · have h2d' : (seg == [0x2E, 0x2E]) = false := by simpa using h2d
          simp only [h2d', Bool.false_eq_true, ↓reduceIte]
          by_cases h1d : (seg == [0x2E]) = true
          · have : (seg != [0x2E]) = false := by unfold bne; rw [h1d]; rfl
            simp only [h1d, this, Bool.false_eq_true, ↓reduceIte]
            exact ih rest segs (by omega) hn hin'
          · have h1d' : (seg == [0x2E]) = false := by simpa using h1d
            have : (seg != [0x2E]) = true := by unfold bne; rw [h1d']; rfl
            simp only [h1d', this, Bool.false_eq_true, ↓reduceIte]
            have hps : pathText segs ++ [0x2F] ++ seg = pathText (segs ++ [seg]) := by rw [pathText_snoc]; simp
            rw [hps]
            exact ih rest _ (by omega) (noSlash_snoc _ _ hn hsegns) hin'

end AdaVerif.Lemmas.PP

import AdaVerif.Lemmas.AggEditors
import AdaVerif.Spec.Setters
/-
The bridge between the Standard's URL record (Spec/Url.lean) and the single buffer: `ofUrl` is the
content a record denotes; its layout is the Standard's serialisation; and for the component setters
the in-place editor of `ada::url_aggregator` computes the serialisation of the Standard's setter
result.
-/
namespace AdaVerif.Lemmas.AggL
open AdaVerif AdaVerif.Model.Agg

def ofUrl (u : Spec.Url) : L :=
  { scheme := u.scheme ++ [0x3A], auth := u.host.isSome, user := u.username, pass := u.password,
    host := match u.host with | some h => h.serialize | none => [],
    port := u.port.map (fun p => (p, Spec.natToDec p)),
    dashdot := u.host.isNone && !u.isOpaque && decide (u.path.length > 1) && u.path.head? == some [],
    path := u.pathSerialized, query := u.query, frag := u.fragment, opq := u.isOpaque }

/-- the record invariant used here: no credentials and no port without a host -/
def HostlessOk (u : Spec.Url) : Prop := u.host = none → u.username = [] ∧ u.password = [] ∧ u.port = none

/-- the Standard's URL serializer produces exactly the laid-out buffer -/
theorem href_eq_layout (u : Spec.Url) (ok : HostlessOk u) : u.href = (layout (ofUrl u)).buf := by
  cases hh : u.host with
  | none =>
    obtain ⟨hu, hp, hport⟩ := ok hh
    cases hq : u.query <;> cases hf : u.fragment <;>
      cases hd : (!u.isOpaque && decide (u.path.length > 1) && u.path.head? == some []) <;>
      simp_all [Spec.Url.href, layout, ofUrl, authS, passS, atS, portS, ddS, queryS, fragS, List.append_assoc] <;>
      (try split) <;> simp_all [List.append_assoc]
  | some h =>
    cases hq : u.query <;> cases hf : u.fragment <;> cases hport : u.port <;> cases hu : u.username <;> cases hp : u.password <;>
      simp [Spec.Url.href, layout, ofUrl, hh, hq, hf, hport, hu, hp, authS, passS, atS, portS, ddS, queryS, fragS, List.append_assoc]

/-! ### setters: editor on the buffer = serialisation of the Standard's setter result -/

theorem setUsername_refines (u : Spec.Url) (v : Bytes) (hc : u.cannotHaveUsernamePasswordPort = false)
    (hna : TailNoAt (ofUrl u)) :
    layout (ofUrl (Spec.setUsername u v)) = updateBaseUsername (layout (ofUrl u)) (Spec.percentEncode Spec.inUserinfo v) := by
  have hauth : (ofUrl u).auth = true := by
    cases hh : u.host <;> simp_all [Spec.Url.cannotHaveUsernamePasswordPort, ofUrl]
  rw [updateBaseUsername_auth (ofUrl u) _ hauth hna]
  simp [Spec.setUsername, hc, ofUrl, Spec.Url.pathSerialized]

theorem setPassword_refines (u : Spec.Url) (v : Bytes) (hc : u.cannotHaveUsernamePasswordPort = false)
    (hna : TailNoAt (ofUrl u)) :
    layout (ofUrl (Spec.setPassword u v)) = updateBasePassword (layout (ofUrl u)) (Spec.percentEncode Spec.inUserinfo v) := by
  have hauth : (ofUrl u).auth = true := by
    cases hh : u.host <;> simp_all [Spec.Url.cannotHaveUsernamePasswordPort, ofUrl]
  have := updateBasePassword_layout (ofUrl u) (Spec.percentEncode Spec.inUserinfo v) (fun h => by simp [hauth] at h) hna
  rw [this]
  cases hh : u.host <;> simp_all [Spec.setPassword, ofUrl, Spec.Url.pathSerialized, Spec.Url.cannotHaveUsernamePasswordPort]

/-- the setters drop one leading delimiter -/
def dropOne (c : UInt8) (v : Bytes) : Bytes :=
  match v with
  | [] => []
  | b :: rest => if b == c then rest else b :: rest

/-- `set_search` with a non-empty value: strip one '?', remove tab/newline, encode, write in place -/
theorem setSearch_refines (u : Spec.Url) (v : Bytes) (hv : v ≠ []) :
    layout (ofUrl (Spec.setSearch u v)) =
      updateBaseSearch (layout (ofUrl u))
        (Spec.encodeQuery u.isSpecial (Spec.stripTN (dropOne 0x3F v))) := by
  rw [updateBaseSearch_layout]
  rcases v with _ | ⟨b, t⟩
  · exact absurd rfl hv
  · by_cases hb : b = 0x3F
    · subst hb; simp [Spec.setSearch, ofUrl, Spec.Url.pathSerialized, dropOne]
    · have e2 : Spec.setSearch u (b :: t) = { u with query := some (Spec.encodeQuery u.isSpecial (Spec.stripTN (b :: t))) } := by
        unfold Spec.setSearch
        simp only [List.isEmpty_cons, Bool.false_eq_true, ↓reduceIte]
        split
        · rename_i rest heq; injection heq with h1 h2; exact absurd h1 hb
        · rfl
      rw [e2]
      have hbb : (b == 0x3F) = false ∨ True := Or.inr trivial
      simp [ofUrl, Spec.Url.pathSerialized, dropOne, hb]

theorem setHash_refines (u : Spec.Url) (v : Bytes) (hv : v ≠ []) :
    layout (ofUrl (Spec.setHash u v)) =
      updateBaseHash (layout (ofUrl u))
        (Spec.percentEncode Spec.inFragment (Spec.stripTN (dropOne 0x23 v))) := by
  rw [updateBaseHash_layout]
  rcases v with _ | ⟨b, t⟩
  · exact absurd rfl hv
  · by_cases hb : b = 0x23
    · subst hb; simp [Spec.setHash, ofUrl, Spec.Url.pathSerialized, dropOne]
    · have e2 : Spec.setHash u (b :: t) = { u with fragment := some (Spec.percentEncode Spec.inFragment (Spec.stripTN (b :: t))) } := by
        unfold Spec.setHash
        simp only [List.isEmpty_cons, Bool.false_eq_true, ↓reduceIte]
        split
        · rename_i rest heq; injection heq with h1 h2; exact absurd h1 hb
        · rfl
      rw [e2]
      have hbb : (b == 0x3F) = false ∨ True := Or.inr trivial
      simp [ofUrl, Spec.Url.pathSerialized, dropOne, hb]

/-- clearing the query of a URL whose path is not opaque (no trailing-space stripping involved) -/
theorem clearSearch_refines (u : Spec.Url) (ho : u.isOpaque = false) :
    layout (ofUrl (Spec.setSearch u [])) = clearSearch (layout (ofUrl u)) := by
  rw [clearSearch_layout]
  simp [Spec.setSearch, Spec.Url.stripTrailingSpaces, ho, ofUrl, Spec.Url.pathSerialized]

theorem clearHash_refines (u : Spec.Url) (ho : u.isOpaque = false) :
    layout (ofUrl (Spec.setHash u [])) = clearHash (layout (ofUrl u)) := by
  rw [clearHash_layout]
  simp [Spec.setHash, Spec.Url.stripTrailingSpaces, ho, ofUrl, Spec.Url.pathSerialized]

end AdaVerif.Lemmas.AggL

import AdaVerif.Model.InitProtocol
/-
Safety of the lazy-initialisation protocol for every interleaving and any number of threads:
in every reachable state of the expected configuration no data race on the table pointers has
occurred, every thread that uses the tables has the pointer writes in its happens-before view,
and at most one thread ever initialises.
-/
namespace AdaVerif.Lemmas.Init
open AdaVerif.Model.Init

def active : Pc → Bool
  | .alloc | .writes | .publish => true
  | _ => false

structure Inv (s : State) : Prop where
  norace : s.race = false
  shape : ∃ rest, s.mo = ⟨uninit, false⟩ :: rest ∧ ∀ m ∈ rest, m.val ≠ uninit
  uniq : ∀ t u, active (s.th t).pc = true → active (s.th u).pc = true → t = u
  fresh : s.mo.length = 1 → s.writers = 0 ∧ s.readers = 0 ∧ ∀ t, active (s.th t).pc = false ∧ (s.th t).pc ≠ .use
  busy : ∀ t, active (s.th t).pc = true →
    (∀ m ∈ s.mo, m.val ≠ ready ∧ m.val ≠ failed) ∧ s.readers = 0 ∧ ∀ u, (s.th u).pc ≠ .use
  nowr : ∀ t, ((s.th t).pc = .alloc ∨ (s.th t).pc = .writes) → s.writers = 0
  pub : ∀ t, (s.th t).pc = .publish → s.writers = 1 ∧ (s.th t).view = true
  rdy : ∀ m ∈ s.mo, m.val = ready → m.view = true ∧ s.writers = 1
  usev : ∀ t, (s.th t).pc = .use → (s.th t).view = true ∧ s.writers = 1

@[simp] theorem set_mo (s : State) (t : Nat) (x : Thread) : (s.set t x).mo = s.mo := rfl
@[simp] theorem set_writers (s : State) (t : Nat) (x : Thread) : (s.set t x).writers = s.writers := rfl
@[simp] theorem set_readers (s : State) (t : Nat) (x : Thread) : (s.set t x).readers = s.readers := rfl
@[simp] theorem set_race (s : State) (t : Nat) (x : Thread) : (s.set t x).race = s.race := rfl

theorem set_same (s : State) (t : Nat) (x : Thread) : (s.set t x).th t = x := by simp [State.set]
theorem set_other (s : State) (t u : Nat) (x : Thread) (h : u ≠ t) : (s.set t x).th u = s.th u := by
  simp [State.set, h]

theorem inv_init : Inv init := by
  refine ⟨rfl, ⟨[], rfl, by simp⟩, ?_, ?_, ?_, ?_, ?_, ?_, ?_⟩ <;> simp [init, active, uninit, ready]

theorem afterLoad_cases (v : Nat) (sp : Option Nat) (l : Nat) :
    (afterLoad v sp l = .use ∧ v = ready) ∨
    (active (afterLoad v sp l) = false ∧ afterLoad v sp l ≠ .use) := by
  unfold afterLoad
  by_cases h1 : v = ready
  · left; simp [h1]
  · right
    simp only [h1, ↓reduceIte]
    by_cases h2 : v = failed
    · simp [h2, active]
    · simp only [h2, ↓reduceIte]
      cases sp with
      | none => simp [active]
      | some n =>
        simp only
        split <;> simp [active]

/-- a thread that only moves between `start / cas / spin / use / retFalse` by a load of message `m`
    (acquire) keeps the invariant -/
theorem inv_load (s : State) (t i : Nat) (m : Msg) (npc : Pc) (o : Ord) (ho : o.isAcq = true)
    (hI : Inv s) (hm : m ∈ s.mo) (hold : active (s.th t).pc = false ∧ (s.th t).pc ≠ .use)
    (hn : (npc = .use ∧ m.val = ready) ∨ (active npc = false ∧ npc ≠ .use)) :
    Inv (s.set t { pc := npc, seen := i, view := (s.th t).view || (o.isAcq && m.view) }) := by
  have hnact : active npc = false := by
    rcases hn with ⟨h, _⟩ | ⟨h, _⟩
    · rw [h]; rfl
    · exact h
  refine ⟨hI.norace, hI.shape, ?_, ?_, ?_, ?_, ?_, hI.rdy, ?_⟩
  · intro a b ha hb
    by_cases hat : a = t
    · subst hat; rw [set_same] at ha; simp [hnact] at ha
    · by_cases hbt : b = t
      · subst hbt; rw [set_same] at hb; simp [hnact] at hb
      · rw [set_other _ _ _ _ hat] at ha; rw [set_other _ _ _ _ hbt] at hb; exact hI.uniq a b ha hb
  · intro hl
    obtain ⟨h1, h2, h3⟩ := hI.fresh hl
    refine ⟨h1, h2, ?_⟩
    intro u
    by_cases hut : u = t
    · subst hut; rw [set_same]
      refine ⟨hnact, ?_⟩
      rcases hn with ⟨_, hr⟩ | ⟨_, h⟩
      · -- reading READY from a one-message mo is impossible
        obtain ⟨rest, hs, _⟩ := hI.shape
        have : rest = [] := by
          simp only [set_mo] at hl
          rw [hs] at hl; simpa using hl
        subst this
        rw [hs] at hm
        simp at hm; subst hm
        simp [ready, uninit] at hr
      · exact h
    · rw [set_other _ _ _ _ hut]; exact h3 u
  · intro a ha
    have hat : a ≠ t := by
      intro e; subst e; rw [set_same] at ha; simp [hnact] at ha
    rw [set_other _ _ _ _ hat] at ha
    obtain ⟨h1, h2, h3⟩ := hI.busy a ha
    refine ⟨h1, h2, ?_⟩
    intro u
    by_cases hut : u = t
    · subst hut; rw [set_same]
      rcases hn with ⟨_, hr⟩ | ⟨_, h⟩
      · exact absurd hr (h1 m hm).1
      · exact h
    · rw [set_other _ _ _ _ hut]; exact h3 u
  · intro a ha
    have hat : a ≠ t := by
      intro e; subst e; rw [set_same] at ha
      rcases ha with h | h <;> (simp at h; rw [h] at hnact; simp [active] at hnact)
    rw [set_other _ _ _ _ hat] at ha
    exact hI.nowr a ha
  · intro a ha
    have hat : a ≠ t := by
      intro e; subst e; rw [set_same] at ha
      simp at ha; rw [ha] at hnact; simp [active] at hnact
    rw [set_other _ _ _ _ hat] at ha ⊢
    exact hI.pub a ha
  · intro a ha
    by_cases hat : a = t
    · subst hat; rw [set_same] at ha ⊢
      simp at ha
      rcases hn with ⟨_, hr⟩ | ⟨_, h⟩
      · obtain ⟨hv, hw⟩ := hI.rdy m hm hr
        simp [ho, hv, hw]
      · exact absurd ha h
    · rw [set_other _ _ _ _ hat] at ha ⊢
      exact hI.usev a ha

end AdaVerif.Lemmas.Init

namespace AdaVerif.Lemmas.Init
open AdaVerif.Model.Init

theorem mem_of_getLast? {l : List Msg} {m : Msg} (h : l.getLast? = some m) : m ∈ l :=
  List.mem_of_getLast? h

theorem mem_of_getElem? {l : List Msg} {i : Nat} {m : Msg} (h : l[i]? = some m) : m ∈ l :=
  List.mem_of_getElem? h

theorem shape_append (mo : List Msg) (x : Msg)
    (h : ∃ rest, mo = ⟨uninit, false⟩ :: rest ∧ ∀ m ∈ rest, m.val ≠ uninit) (hx : x.val ≠ uninit) :
    ∃ rest, mo ++ [x] = ⟨uninit, false⟩ :: rest ∧ ∀ m ∈ rest, m.val ≠ uninit := by
  obtain ⟨rest, hs, hr⟩ := h
  refine ⟨rest ++ [x], by simp [hs], ?_⟩
  intro m hm
  rcases List.mem_append.mp hm with h | h
  · exact hr m h
  · simp at h; subst h; exact hx

/-- a generic "the acting thread t moves from an active pc to pc' and the rest is untouched" helper
    is not worth its statement; each step is proved directly. -/
theorem inv_step (limit : Nat) (s s' : State) (hI : Inv s) (hs : Step (expected limit) s s') : Inv s' := by
  cases hs with
  | firstLoad t i m hpc hi hm =>
    exact inv_load s t i m _ .acquire rfl hI (mem_of_getElem? hm) (by rw [hpc]; simp [active])
      (afterLoad_cases _ _ _)
  | spinLoad t n i m hpc hi hm =>
    exact inv_load s t i m _ .acquire rfl hI (mem_of_getElem? hm) (by rw [hpc]; simp [active])
      (afterLoad_cases _ _ _)
  | casFail t v m hpc hm hexp =>
    exact inv_load s t _ m (.spin 0) .acquire rfl hI (mem_of_getLast? hm) (by rw [hpc]; simp [active])
      (Or.inr ⟨rfl, by simp⟩)
  | casOk t v m hpc hm hexp =>
    -- the CAS read the last message and found `uninit`: the modification order is still [init]
    simp only [expected, ↓reduceIte] at hexp
    obtain ⟨rest, hsh, hrest⟩ := hI.shape
    have hnil : rest = [] := by
      cases hr : rest with
      | nil => rfl
      | cons a r =>
        rw [hsh, hr] at hm
        have hmem : m ∈ a :: r := by
          have := List.getLast?_cons_cons (a := (⟨uninit, false⟩ : Msg)) (b := a) (l := r)
          rw [this] at hm
          exact List.mem_of_getLast? hm
        exact absurd hexp (hrest m (hr ▸ hmem))
    subst hnil
    have hl : s.mo.length = 1 := by rw [hsh]; rfl
    obtain ⟨hw, hr, hall⟩ := hI.fresh hl
    have hm0 : m = ⟨uninit, false⟩ := by rw [hsh] at hm; simpa using hm.symm
    refine ⟨hI.norace, shape_append _ _ hI.shape (by simp [inProgress, uninit]), ?_, ?_, ?_, ?_, ?_, ?_, ?_⟩
    · intro a b ha hb
      by_cases hat : a = t
      · by_cases hbt : b = t
        · rw [hat, hbt]
        · rw [set_other _ _ _ _ hbt] at hb; simp [(hall b).1] at hb
      · rw [set_other _ _ _ _ hat] at ha; simp [(hall a).1] at ha
    · intro h; simp [hsh] at h
    · intro a ha
      have hat : a = t := by
        by_cases h : a = t
        · exact h
        · rw [set_other _ _ _ _ h] at ha; simp [(hall a).1] at ha
      refine ⟨?_, hr, ?_⟩
      · intro m' hm'
        simp only [set_mo, hsh, List.cons_append, List.nil_append, List.mem_cons, List.mem_nil_iff, or_false] at hm'
        rcases hm' with h | h <;> subst h <;> simp [ready, failed, uninit, inProgress]
      · intro u
        by_cases hut : u = t
        · subst hut; rw [set_same]; simp
        · rw [set_other _ _ _ _ hut]; exact (hall u).2
    · intro a _; exact hw
    · intro a ha
      by_cases hat : a = t
      · subst hat; rw [set_same] at ha; simp at ha
      · rw [set_other _ _ _ _ hat] at ha
        have := (hall a).1; rw [ha] at this; simp [active] at this
    · intro m' hm' hv
      simp only [set_mo, hsh, List.cons_append, List.nil_append, List.mem_cons, List.mem_nil_iff, or_false] at hm'
      rcases hm' with h | h <;> subst h <;> simp [ready, uninit, inProgress] at hv
    · intro a ha
      by_cases hat : a = t
      · subst hat; rw [set_same] at ha; simp at ha
      · rw [set_other _ _ _ _ hat] at ha; exact absurd ha (hall a).2
  | allocOk t hpc =>
    have hact : active (s.th t).pc = true := by rw [hpc]; rfl
    obtain ⟨b1, b2, b3⟩ := hI.busy t hact
    refine ⟨hI.norace, hI.shape, ?_, ?_, ?_, ?_, ?_, hI.rdy, ?_⟩
    · intro a b ha hb
      have ha' : active (s.th a).pc = true := by
        by_cases h : a = t
        · subst h; exact hact
        · rwa [set_other _ _ _ _ h] at ha
      have hb' : active (s.th b).pc = true := by
        by_cases h : b = t
        · subst h; exact hact
        · rwa [set_other _ _ _ _ h] at hb
      exact hI.uniq a b ha' hb'
    · intro hl
      obtain ⟨_, _, h3⟩ := hI.fresh hl
      have := (h3 t).1; rw [hact] at this; cases this
    · intro a ha
      refine ⟨b1, b2, ?_⟩
      intro u
      by_cases hut : u = t
      · subst hut; rw [set_same]; simp
      · rw [set_other _ _ _ _ hut]; exact b3 u
    · intro a _; exact hI.nowr t (Or.inl hpc)
    · intro a ha
      by_cases hat : a = t
      · subst hat; rw [set_same] at ha; simp at ha
      · rw [set_other _ _ _ _ hat] at ha ⊢; exact hI.pub a ha
    · intro a ha
      by_cases hat : a = t
      · subst hat; rw [set_same] at ha; simp at ha
      · rw [set_other _ _ _ _ hat] at ha; exact absurd ha (b3 a)
  | allocFail t hpc =>
    exact inv_fail s t hI (by rw [hpc]; rfl) _ rfl
  | crcFail t hpc =>
    exact inv_fail s t hI (by rw [hpc]; rfl) _ rfl
  | write t hpc =>
    have hact : active (s.th t).pc = true := by rw [hpc]; rfl
    obtain ⟨b1, b2, b3⟩ := hI.busy t hact
    have hw0 := hI.nowr t (Or.inr hpc)
    refine ⟨?_, hI.shape, ?_, ?_, ?_, ?_, ?_, ?_, ?_⟩
    · simp [hI.norace, hw0, b2]
    · intro a b ha hb
      have ha' : active (s.th a).pc = true := by
        by_cases h : a = t
        · subst h; exact hact
        · rwa [set_other _ _ _ _ h] at ha
      have hb' : active (s.th b).pc = true := by
        by_cases h : b = t
        · subst h; exact hact
        · rwa [set_other _ _ _ _ h] at hb
      exact hI.uniq a b ha' hb'
    · intro hl
      obtain ⟨_, _, h3⟩ := hI.fresh hl
      have := (h3 t).1; rw [hact] at this; cases this
    · intro a ha
      refine ⟨b1, b2, ?_⟩
      intro u
      by_cases hut : u = t
      · subst hut; rw [set_same]; simp
      · rw [set_other _ _ _ _ hut]; exact b3 u
    · intro a ha
      by_cases hat : a = t
      · subst hat; rw [set_same] at ha; simp at ha
      · rw [set_other _ _ _ _ hat] at ha
        have : active (s.th a).pc = true := by rcases ha with h | h <;> (rw [h]; rfl)
        exact absurd (hI.uniq a t this hact) hat
    · intro a ha
      by_cases hat : a = t
      · subst hat; rw [set_same]; simp [hw0]
      · rw [set_other _ _ _ _ hat] at ha
        have : active (s.th a).pc = true := by rw [ha]; rfl
        exact absurd (hI.uniq a t this hact) hat
    · intro m hm hv; exact absurd hv (b1 m hm).1
    · intro a ha
      by_cases hat : a = t
      · subst hat; rw [set_same] at ha; simp at ha
      · rw [set_other _ _ _ _ hat] at ha; exact absurd ha (b3 a)
  | publish t hpc =>
    have hact : active (s.th t).pc = true := by rw [hpc]; rfl
    obtain ⟨b1, b2, b3⟩ := hI.busy t hact
    obtain ⟨pw, pv⟩ := hI.pub t hpc
    obtain ⟨rest, hsh, hrest⟩ := hI.shape
    have hothers : ∀ a, a ≠ t → active (s.th a).pc = false := by
      intro a hat
      cases h : active (s.th a).pc with
      | false => rfl
      | true => exact absurd (hI.uniq a t h hact) hat
    refine ⟨hI.norace, shape_append _ _ hI.shape (by simp [ready, uninit]), ?_, ?_, ?_, ?_, ?_, ?_, ?_⟩
    · intro a b ha hb
      by_cases hat : a = t
      · subst hat; rw [set_same] at ha; simp [active] at ha
      · rw [set_other _ _ _ _ hat] at ha; rw [hothers a hat] at ha; cases ha
    · intro hl; simp [hsh] at hl
    · intro a ha
      by_cases hat : a = t
      · subst hat; rw [set_same] at ha; simp [active] at ha
      · rw [set_other _ _ _ _ hat] at ha; rw [hothers a hat] at ha; cases ha
    · intro a ha
      by_cases hat : a = t
      · subst hat; rw [set_same] at ha; simp at ha
      · rw [set_other _ _ _ _ hat] at ha
        have := hothers a hat
        rcases ha with h | h <;> (rw [h] at this; simp [active] at this)
    · intro a ha
      by_cases hat : a = t
      · subst hat; rw [set_same] at ha; simp at ha
      · rw [set_other _ _ _ _ hat] at ha
        have := hothers a hat
        rw [ha] at this; simp [active] at this
    · intro m hm hv
      simp only [set_mo] at hm
      rcases List.mem_append.mp hm with h | h
      · exact absurd hv (b1 m h).1
      · simp at h; subst h
        simp [expected, Ord.isRel, pv, pw]
    · intro a ha
      by_cases hat : a = t
      · subst hat; rw [set_same]; simp [pv, pw]
      · rw [set_other _ _ _ _ hat] at ha; exact absurd ha (b3 a)
  | useTables t hpc =>
    obtain ⟨uv, uw⟩ := hI.usev t hpc
    have hnoact : ∀ a, active (s.th a).pc = false := by
      intro a
      cases h : active (s.th a).pc with
      | false => rfl
      | true => exact absurd hpc ((hI.busy a h).2.2 t)
    refine ⟨by simp [hI.norace, uv, uw], hI.shape, hI.uniq, ?_, ?_, hI.nowr, hI.pub, hI.rdy, hI.usev⟩
    · intro hl
      obtain ⟨_, _, h3⟩ := hI.fresh hl
      exact absurd hpc (h3 t).2
    · intro a ha; rw [hnoact a] at ha; cases ha
where
  /-- the initialising thread gives up (allocation or CRC failure): FAILED is appended -/
  inv_fail (s : State) (t : Nat) (hI : Inv s) (hact : active (s.th t).pc = true) (v : Bool) (hv : v = v) :
      Inv ({ s with mo := s.mo ++ [Msg.mk failed v] }.set t { (s.th t) with pc := .retFalse, seen := s.mo.length }) := by
    obtain ⟨b1, b2, b3⟩ := hI.busy t hact
    obtain ⟨rest, hsh, hrest⟩ := hI.shape
    have hothers : ∀ a, a ≠ t → active (s.th a).pc = false := by
      intro a hat
      cases h : active (s.th a).pc with
      | false => rfl
      | true => exact absurd (hI.uniq a t h hact) hat
    have hw0 : s.writers = 0 ∨ s.writers = 1 := by
      cases hp : (s.th t).pc with
      | alloc => exact Or.inl (hI.nowr t (Or.inl hp))
      | writes => exact Or.inl (hI.nowr t (Or.inr hp))
      | publish => exact Or.inr (hI.pub t hp).1
      | _ => rw [hp] at hact; simp [active] at hact
    refine ⟨hI.norace, shape_append _ _ hI.shape (by simp [failed, uninit]), ?_, ?_, ?_, ?_, ?_, ?_, ?_⟩
    · intro a b ha hb
      by_cases hat : a = t
      · subst hat; rw [set_same] at ha; simp [active] at ha
      · rw [set_other _ _ _ _ hat] at ha; rw [hothers a hat] at ha; cases ha
    · intro hl; simp [hsh] at hl
    · intro a ha
      by_cases hat : a = t
      · subst hat; rw [set_same] at ha; simp [active] at ha
      · rw [set_other _ _ _ _ hat] at ha; rw [hothers a hat] at ha; cases ha
    · intro a ha
      by_cases hat : a = t
      · subst hat; rw [set_same] at ha; simp at ha
      · rw [set_other _ _ _ _ hat] at ha
        have := hothers a hat
        rcases ha with h | h <;> (rw [h] at this; simp [active] at this)
    · intro a ha
      by_cases hat : a = t
      · subst hat; rw [set_same] at ha; simp at ha
      · rw [set_other _ _ _ _ hat] at ha
        have := hothers a hat
        rw [ha] at this; simp [active] at this
    · intro m hm hvv
      simp only [set_mo] at hm
      rcases List.mem_append.mp hm with h | h
      · exact absurd hvv (b1 m h).1
      · simp at h; subst h; simp [failed, ready] at hvv
    · intro a ha
      by_cases hat : a = t
      · subst hat; rw [set_same] at ha; simp at ha
      · rw [set_other _ _ _ _ hat] at ha; exact absurd ha (b3 a)

/-- **C13-T1**: the invariant holds in every reachable state - every interleaving, any number of
    threads, any spin limit -/
theorem reachable_inv (limit : Nat) (s : State) (h : Reachable (expected limit) s) : Inv s := by
  induction h with
  | init => exact inv_init
  | step s s' _ hs ih => exact inv_step limit s s' ih hs

end AdaVerif.Lemmas.Init

import AdaVerif.Model.HostKernels
import AdaVerif.Lemmas.Ipv6
import AdaVerif.Lemmas.HostCanon
import AdaVerif.Lemmas.Decode
/-
C10: pieces of `parse_ipv6` against the Standard's IPv6 parser: the hex piece reader, the embedded IPv4 piece
reader and the final move of the pieces behind `::`.
-/
namespace AdaVerif.Lemmas.K6
open AdaVerif AdaVerif.Spec AdaVerif.Lemmas AdaVerif.Model.HostKernels AdaVerif.Model.FastScan

theorem nibble_hex : ∀ b : UInt8, (isAsciiHexDigit b = true ↔ hexNibble b ≠ 0xff) ∧ (isAsciiHexDigit b = true → hexNibble b = hexVal b) := by
  apply forall_uint8_of_fin; decide +kernel

/-- **parse_hex_piece** reads what the Standard's "read up to four hex digits" reads -/
theorem parseHexPiece_eq (p : Bytes) : parseHexPiece p = readHex 4 p := by
  have key : ∀ b : UInt8, (hexNibble b == 0xff) = !isAsciiHexDigit b := by
    intro b
    have := nibble_hex b
    cases h : isAsciiHexDigit b with
    | true => have := this.1.mp h; simp [this]
    | false =>
      have : hexNibble b = 0xff := Classical.byContradiction (fun hc => by have := this.1.mpr hc; rw [h] at this; cases this)
      simp [this]
  have hv : ∀ b : UInt8, isAsciiHexDigit b = true → hexNibble b = hexVal b := fun b h => (nibble_hex b).2 h
  have hn : ∀ b : UInt8, (hexVal b = 255) = False := by
    intro b; have := hexVal_lt b; simp; omega
  match p with
  | [] => rfl
  | [c0] =>
    unfold parseHexPiece readHex
    by_cases h0 : isAsciiHexDigit c0 = true
    · simp [key, hn, h0, hv c0 h0, readHex]
    · have h0' : isAsciiHexDigit c0 = false := by simpa using h0
      simp [key, h0']
  | [c0, c1] =>
    unfold parseHexPiece readHex
    by_cases h0 : isAsciiHexDigit c0 = true
    · by_cases h1 : isAsciiHexDigit c1 = true
      · simp [key, hn, h0, h1, hv c0 h0, hv c1 h1, readHex]
      · have h1' : isAsciiHexDigit c1 = false := by simpa using h1
        simp [key, hn, h0, h1', hv c0 h0, readHex]
    · have h0' : isAsciiHexDigit c0 = false := by simpa using h0
      simp [key, h0']
  | [c0, c1, c2] =>
    unfold parseHexPiece readHex
    by_cases h0 : isAsciiHexDigit c0 = true
    · by_cases h1 : isAsciiHexDigit c1 = true
      · by_cases h2 : isAsciiHexDigit c2 = true
        · simp [key, hn, h0, h1, h2, hv c0 h0, hv c1 h1, hv c2 h2, readHex]
        · have h2' : isAsciiHexDigit c2 = false := by simpa using h2
          simp [key, hn, h0, h1, h2', hv c0 h0, hv c1 h1, readHex]
      · have h1' : isAsciiHexDigit c1 = false := by simpa using h1
        simp [key, hn, h0, h1', hv c0 h0, readHex]
    · have h0' : isAsciiHexDigit c0 = false := by simpa using h0
      simp [key, h0']
  | c0 :: c1 :: c2 :: c3 :: r =>
    unfold parseHexPiece readHex
    by_cases h0 : isAsciiHexDigit c0 = true
    · by_cases h1 : isAsciiHexDigit c1 = true
      · by_cases h2 : isAsciiHexDigit c2 = true
        · by_cases h3 : isAsciiHexDigit c3 = true
          · simp [key, hn, h0, h1, h2, h3, hv c0 h0, hv c1 h1, hv c2 h2, hv c3 h3, readHex]
          · have h3' : isAsciiHexDigit c3 = false := by simpa using h3
            simp [key, hn, h0, h1, h2, h3', hv c0 h0, hv c1 h1, hv c2 h2, readHex]
        · have h2' : isAsciiHexDigit c2 = false := by simpa using h2
          simp [key, hn, h0, h1, h2', hv c0 h0, hv c1 h1, readHex]
      · have h1' : isAsciiHexDigit c1 = false := by simpa using h1
        simp [key, hn, h0, h1', hv c0 h0, readHex]
    · have h0' : isAsciiHexDigit c0 = false := by simpa using h0
      simp [key, h0']


/-! ### the end of the parse: moving the pieces behind `::` -/
/-- the Standard's list of pieces as the code's array: a zero piece is reserved where `::` was seen -/
def expand (pieces : List Nat) (comp : Option Nat) : List Nat :=
  match comp with
  | none => pieces
  | some k => pieces.take k ++ 0 :: pieces.drop k

def pad8 (l : List Nat) : List Nat := l ++ List.replicate (8 - l.length) 0

/-- the last lines of `parse_ipv6` -/
def finC (address : List Nat) (pieceIndex : Nat) (compress : Option Nat) : Option (List Nat) :=
  match compress with
  | some c =>
    let right := pieceIndex - c
    if right > 0 then
      let dest := 8 - right
      if dest != c then some (moveLoop right address dest c) else some address
    else some address
  | none => if pieceIndex != 8 then none else some address

theorem final_some (pieces : List Nat) (k : Nat) (hk : k ≤ pieces.length) (hlen : pieces.length ≤ 7) :
    finC (pad8 (expand pieces (some k))) (expand pieces (some k)).length (some (k + 1)) = V6.finish (some (pieces, some k)) := by
  match pieces, k, hk, hlen with
  | [], 0, _, _ => simp [finC, expand, pad8, moveLoop, setAt, getAt, V6.finish]
  | [a0], 0, _, _ => simp [finC, expand, pad8, moveLoop, setAt, getAt, V6.finish]
  | [a0], 1, _, _ => simp [finC, expand, pad8, moveLoop, setAt, getAt, V6.finish]
  | [a0, a1], 0, _, _ => simp [finC, expand, pad8, moveLoop, setAt, getAt, V6.finish]
  | [a0, a1], 1, _, _ => simp [finC, expand, pad8, moveLoop, setAt, getAt, V6.finish]
  | [a0, a1], 2, _, _ => simp [finC, expand, pad8, moveLoop, setAt, getAt, V6.finish]
  | [a0, a1, a2], 0, _, _ => simp [finC, expand, pad8, moveLoop, setAt, getAt, V6.finish]
  | [a0, a1, a2], 1, _, _ => simp [finC, expand, pad8, moveLoop, setAt, getAt, V6.finish]
  | [a0, a1, a2], 2, _, _ => simp [finC, expand, pad8, moveLoop, setAt, getAt, V6.finish]
  | [a0, a1, a2], 3, _, _ => simp [finC, expand, pad8, moveLoop, setAt, getAt, V6.finish]
  | [a0, a1, a2, a3], 0, _, _ => simp [finC, expand, pad8, moveLoop, setAt, getAt, V6.finish]
  | [a0, a1, a2, a3], 1, _, _ => simp [finC, expand, pad8, moveLoop, setAt, getAt, V6.finish]
  | [a0, a1, a2, a3], 2, _, _ => simp [finC, expand, pad8, moveLoop, setAt, getAt, V6.finish]
  | [a0, a1, a2, a3], 3, _, _ => simp [finC, expand, pad8, moveLoop, setAt, getAt, V6.finish]
  | [a0, a1, a2, a3], 4, _, _ => simp [finC, expand, pad8, moveLoop, setAt, getAt, V6.finish]
  | [a0, a1, a2, a3, a4], 0, _, _ => simp [finC, expand, pad8, moveLoop, setAt, getAt, V6.finish]
  | [a0, a1, a2, a3, a4], 1, _, _ => simp [finC, expand, pad8, moveLoop, setAt, getAt, V6.finish]
  | [a0, a1, a2, a3, a4], 2, _, _ => simp [finC, expand, pad8, moveLoop, setAt, getAt, V6.finish]
  | [a0, a1, a2, a3, a4], 3, _, _ => simp [finC, expand, pad8, moveLoop, setAt, getAt, V6.finish]
  | [a0, a1, a2, a3, a4], 4, _, _ => simp [finC, expand, pad8, moveLoop, setAt, getAt, V6.finish]
  | [a0, a1, a2, a3, a4], 5, _, _ => simp [finC, expand, pad8, moveLoop, setAt, getAt, V6.finish]
  | [a0, a1, a2, a3, a4, a5], 0, _, _ => simp [finC, expand, pad8, moveLoop, setAt, getAt, V6.finish]
  | [a0, a1, a2, a3, a4, a5], 1, _, _ => simp [finC, expand, pad8, moveLoop, setAt, getAt, V6.finish]
  | [a0, a1, a2, a3, a4, a5], 2, _, _ => simp [finC, expand, pad8, moveLoop, setAt, getAt, V6.finish]
  | [a0, a1, a2, a3, a4, a5], 3, _, _ => simp [finC, expand, pad8, moveLoop, setAt, getAt, V6.finish]
  | [a0, a1, a2, a3, a4, a5], 4, _, _ => simp [finC, expand, pad8, moveLoop, setAt, getAt, V6.finish]
  | [a0, a1, a2, a3, a4, a5], 5, _, _ => simp [finC, expand, pad8, moveLoop, setAt, getAt, V6.finish]
  | [a0, a1, a2, a3, a4, a5], 6, _, _ => simp [finC, expand, pad8, moveLoop, setAt, getAt, V6.finish]
  | [a0, a1, a2, a3, a4, a5, a6], 0, _, _ => simp [finC, expand, pad8, moveLoop, setAt, getAt, V6.finish]
  | [a0, a1, a2, a3, a4, a5, a6], 1, _, _ => simp [finC, expand, pad8, moveLoop, setAt, getAt, V6.finish]
  | [a0, a1, a2, a3, a4, a5, a6], 2, _, _ => simp [finC, expand, pad8, moveLoop, setAt, getAt, V6.finish]
  | [a0, a1, a2, a3, a4, a5, a6], 3, _, _ => simp [finC, expand, pad8, moveLoop, setAt, getAt, V6.finish]
  | [a0, a1, a2, a3, a4, a5, a6], 4, _, _ => simp [finC, expand, pad8, moveLoop, setAt, getAt, V6.finish]
  | [a0, a1, a2, a3, a4, a5, a6], 5, _, _ => simp [finC, expand, pad8, moveLoop, setAt, getAt, V6.finish]
  | [a0, a1, a2, a3, a4, a5, a6], 6, _, _ => simp [finC, expand, pad8, moveLoop, setAt, getAt, V6.finish]
  | [a0, a1, a2, a3, a4, a5, a6], 7, _, _ => simp [finC, expand, pad8, moveLoop, setAt, getAt, V6.finish]
  | _ :: _ :: _ :: _ :: _ :: _ :: _ :: _ :: _, _, _, hlen => simp at hlen
  | [], _ + 1, hk, _ => simp at hk
  | [_], _ + 2, hk, _ => simp at hk
  | [_, _], _ + 3, hk, _ => simp at hk
  | [_, _, _], _ + 4, hk, _ => simp at hk
  | [_, _, _, _], _ + 5, hk, _ => simp at hk
  | [_, _, _, _, _], _ + 6, hk, _ => simp at hk
  | [_, _, _, _, _, _], _ + 7, hk, _ => simp at hk
  | [_, _, _, _, _, _, _], _ + 8, hk, _ => simp at hk

theorem final_none (pieces : List Nat) (hlen : pieces.length ≤ 8) :
    finC (pad8 (expand pieces none)) (expand pieces none).length none = V6.finish (some (pieces, none)) := by
  simp only [expand, finC, V6.finish]
  by_cases h8 : pieces.length = 8
  · simp [h8, pad8]
  · simp [h8]

end AdaVerif.Lemmas.K6

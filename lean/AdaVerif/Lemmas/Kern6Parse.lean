import AdaVerif.Model.HostKernels
import AdaVerif.Lemmas.Ipv6
import AdaVerif.Lemmas.HostCanon
import AdaVerif.Lemmas.Decode
/-
C10: pieces of `parse_ipv6` against the Standard's IPv6 parser: the hex piece reader, the embedded IPv4 piece
reader and the final move of the pieces behind `::`.
-/
namespace AdaVerif.Lemmas.K6
open AdaVerif AdaVerif.Spec AdaVerif.Lemmas AdaVerif.Model.HostKernels AdaVerif.Model.FastScan

theorem nibble_hex : ∀ b : UInt8, (isAsciiHexDigit b = true ↔ hexNibble b ≠ 0xff) ∧ (isAsciiHexDigit b = true → hexNibble b = hexVal b) := by
  apply forall_uint8_of_fin; decide +kernel

/-- **parse_hex_piece** reads what the Standard's "read up to four hex digits" reads -/
theorem parseHexPiece_eq (p : Bytes) : parseHexPiece p = readHex 4 p := by
  have key : ∀ b : UInt8, (hexNibble b == 0xff) = !isAsciiHexDigit b := by
    intro b
    have := nibble_hex b
    cases h : isAsciiHexDigit b with
    | true => have := this.1.mp h; simp [this]
    | false =>
      have : hexNibble b = 0xff := Classical.byContradiction (fun hc => by have := this.1.mpr hc; rw [h] at this; cases this)
      simp [this]
  have hv : ∀ b : UInt8, isAsciiHexDigit b = true → hexNibble b = hexVal b := fun b h => (nibble_hex b).2 h
  have hn : ∀ b : UInt8, (hexVal b = 255) = False := by
    intro b; have := hexVal_lt b; simp; omega
  match p with
  | [] => rfl
  | [c0] =>
    unfold parseHexPiece readHex
    by_cases h0 : isAsciiHexDigit c0 = true
    · simp [key, hn, h0, hv c0 h0, readHex]
    · have h0' : isAsciiHexDigit c0 = false := by simpa using h0
      simp [key, h0']
  | [c0, c1] =>
    unfold parseHexPiece readHex
    by_cases h0 : isAsciiHexDigit c0 = true
    · by_cases h1 : isAsciiHexDigit c1 = true
      · simp [key, hn, h0, h1, hv c0 h0, hv c1 h1, readHex]
      · have h1' : isAsciiHexDigit c1 = false := by simpa using h1
        simp [key, hn, h0, h1', hv c0 h0, readHex]
    · have h0' : isAsciiHexDigit c0 = false := by simpa using h0
      simp [key, h0']
  | [c0, c1, c2] =>
    unfold parseHexPiece readHex
    by_cases h0 : isAsciiHexDigit c0 = true
    · by_cases h1 : isAsciiHexDigit c1 = true
      · by_cases h2 : isAsciiHexDigit c2 = true
        · simp [key, hn, h0, h1, h2, hv c0 h0, hv c1 h1, hv c2 h2, readHex]
        · have h2' : isAsciiHexDigit c2 = false := by simpa using h2
          simp [key, hn, h0, h1, h2', hv c0 h0, hv c1 h1, readHex]
      · have h1' : isAsciiHexDigit c1 = false := by simpa using h1
        simp [key, hn, h0, h1', hv c0 h0, readHex]
    · have h0' : isAsciiHexDigit c0 = false := by simpa using h0
      simp [key, h0']
  | c0 :: c1 :: c2 :: c3 :: r =>
    unfold parseHexPiece readHex
    by_cases h0 : isAsciiHexDigit c0 = true
    · by_cases h1 : isAsciiHexDigit c1 = true
      · by_cases h2 : isAsciiHexDigit c2 = true
        · by_cases h3 : isAsciiHexDigit c3 = true
          · simp [key, hn, h0, h1, h2, h3, hv c0 h0, hv c1 h1, hv c2 h2, hv c3 h3, readHex]
          · have h3' : isAsciiHexDigit c3 = false := by simpa using h3
            simp [key, hn, h0, h1, h2, h3', hv c0 h0, hv c1 h1, hv c2 h2, readHex]
        · have h2' : isAsciiHexDigit c2 = false := by simpa using h2
          simp [key, hn, h0, h1, h2', hv c0 h0, hv c1 h1, readHex]
      · have h1' : isAsciiHexDigit c1 = false := by simpa using h1
        simp [key, hn, h0, h1', hv c0 h0, readHex]
    · have h0' : isAsciiHexDigit c0 = false := by simpa using h0
      simp [key, h0']


/-! ### the end of the parse: moving the pieces behind `::` -/
/-- the Standard's list of pieces as the code's array: a zero piece is reserved where `::` was seen -/
def expand (pieces : List Nat) (comp : Option Nat) : List Nat :=
  match comp with
  | none => pieces
  | some k => pieces.take k ++ 0 :: pieces.drop k

def pad8 (l : List Nat) : List Nat := l ++ List.replicate (8 - l.length) 0

theorem final_some (pieces : List Nat) (k : Nat) (hk : k ≤ pieces.length) (hlen : pieces.length ≤ 7) :
    finC (pad8 (expand pieces (some k))) (expand pieces (some k)).length (some (k + 1)) = V6.finish (some (pieces, some k)) := by
  match pieces, k, hk, hlen with
  | [], 0, _, _ => simp [finC, expand, pad8, moveLoop, setAt, getAt, V6.finish]
  | [a0], 0, _, _ => simp [finC, expand, pad8, moveLoop, setAt, getAt, V6.finish]
  | [a0], 1, _, _ => simp [finC, expand, pad8, moveLoop, setAt, getAt, V6.finish]
  | [a0, a1], 0, _, _ => simp [finC, expand, pad8, moveLoop, setAt, getAt, V6.finish]
  | [a0, a1], 1, _, _ => simp [finC, expand, pad8, moveLoop, setAt, getAt, V6.finish]
  | [a0, a1], 2, _, _ => simp [finC, expand, pad8, moveLoop, setAt, getAt, V6.finish]
  | [a0, a1, a2], 0, _, _ => simp [finC, expand, pad8, moveLoop, setAt, getAt, V6.finish]
  | [a0, a1, a2], 1, _, _ => simp [finC, expand, pad8, moveLoop, setAt, getAt, V6.finish]
  | [a0, a1, a2], 2, _, _ => simp [finC, expand, pad8, moveLoop, setAt, getAt, V6.finish]
  | [a0, a1, a2], 3, _, _ => simp [finC, expand, pad8, moveLoop, setAt, getAt, V6.finish]
  | [a0, a1, a2, a3], 0, _, _ => simp [finC, expand, pad8, moveLoop, setAt, getAt, V6.finish]
  | [a0, a1, a2, a3], 1, _, _ => simp [finC, expand, pad8, moveLoop, setAt, getAt, V6.finish]
  | [a0, a1, a2, a3], 2, _, _ => simp [finC, expand, pad8, moveLoop, setAt, getAt, V6.finish]
  | [a0, a1, a2, a3], 3, _, _ => simp [finC, expand, pad8, moveLoop, setAt, getAt, V6.finish]
  | [a0, a1, a2, a3], 4, _, _ => simp [finC, expand, pad8, moveLoop, setAt, getAt, V6.finish]
  | [a0, a1, a2, a3, a4], 0, _, _ => simp [finC, expand, pad8, moveLoop, setAt, getAt, V6.finish]
  | [a0, a1, a2, a3, a4], 1, _, _ => simp [finC, expand, pad8, moveLoop, setAt, getAt, V6.finish]
  | [a0, a1, a2, a3, a4], 2, _, _ => simp [finC, expand, pad8, moveLoop, setAt, getAt, V6.finish]
  | [a0, a1, a2, a3, a4], 3, _, _ => simp [finC, expand, pad8, moveLoop, setAt, getAt, V6.finish]
  | [a0, a1, a2, a3, a4], 4, _, _ => simp [finC, expand, pad8, moveLoop, setAt, getAt, V6.finish]
  | [a0, a1, a2, a3, a4], 5, _, _ => simp [finC, expand, pad8, moveLoop, setAt, getAt, V6.finish]
  | [a0, a1, a2, a3, a4, a5], 0, _, _ => simp [finC, expand, pad8, moveLoop, setAt, getAt, V6.finish]
  | [a0, a1, a2, a3, a4, a5], 1, _, _ => simp [finC, expand, pad8, moveLoop, setAt, getAt, V6.finish]
  | [a0, a1, a2, a3, a4, a5], 2, _, _ => simp [finC, expand, pad8, moveLoop, setAt, getAt, V6.finish]
  | [a0, a1, a2, a3, a4, a5], 3, _, _ => simp [finC, expand, pad8, moveLoop, setAt, getAt, V6.finish]
  | [a0, a1, a2, a3, a4, a5], 4, _, _ => simp [finC, expand, pad8, moveLoop, setAt, getAt, V6.finish]
  | [a0, a1, a2, a3, a4, a5], 5, _, _ => simp [finC, expand, pad8, moveLoop, setAt, getAt, V6.finish]
  | [a0, a1, a2, a3, a4, a5], 6, _, _ => simp [finC, expand, pad8, moveLoop, setAt, getAt, V6.finish]
  | [a0, a1, a2, a3, a4, a5, a6], 0, _, _ => simp [finC, expand, pad8, moveLoop, setAt, getAt, V6.finish]
  | [a0, a1, a2, a3, a4, a5, a6], 1, _, _ => simp [finC, expand, pad8, moveLoop, setAt, getAt, V6.finish]
  | [a0, a1, a2, a3, a4, a5, a6], 2, _, _ => simp [finC, expand, pad8, moveLoop, setAt, getAt, V6.finish]
  | [a0, a1, a2, a3, a4, a5, a6], 3, _, _ => simp [finC, expand, pad8, moveLoop, setAt, getAt, V6.finish]
  | [a0, a1, a2, a3, a4, a5, a6], 4, _, _ => simp [finC, expand, pad8, moveLoop, setAt, getAt, V6.finish]
  | [a0, a1, a2, a3, a4, a5, a6], 5, _, _ => simp [finC, expand, pad8, moveLoop, setAt, getAt, V6.finish]
  | [a0, a1, a2, a3, a4, a5, a6], 6, _, _ => simp [finC, expand, pad8, moveLoop, setAt, getAt, V6.finish]
  | [a0, a1, a2, a3, a4, a5, a6], 7, _, _ => simp [finC, expand, pad8, moveLoop, setAt, getAt, V6.finish]
  | _ :: _ :: _ :: _ :: _ :: _ :: _ :: _ :: _, _, _, hlen => simp at hlen
  | [], _ + 1, hk, _ => simp at hk
  | [_], _ + 2, hk, _ => simp at hk
  | [_, _], _ + 3, hk, _ => simp at hk
  | [_, _, _], _ + 4, hk, _ => simp at hk
  | [_, _, _, _], _ + 5, hk, _ => simp at hk
  | [_, _, _, _, _], _ + 6, hk, _ => simp at hk
  | [_, _, _, _, _, _], _ + 7, hk, _ => simp at hk
  | [_, _, _, _, _, _, _], _ + 8, hk, _ => simp at hk

theorem final_none (pieces : List Nat) (hlen : pieces.length ≤ 8) :
    finC (pad8 (expand pieces none)) (expand pieces none).length none = V6.finish (some (pieces, none)) := by
  simp only [expand, finC, V6.finish]
  by_cases h8 : pieces.length = 8
  · simp [h8, pad8]
  · simp [h8]

/-! ### the embedded IPv4 tail -/
def headIsDigit (l : Bytes) : Bool := match l with | c :: _ => isDigit c | [] => false

theorem dval : ∀ b : UInt8, isDigit b = true → digitVal b = b.toNat - 0x30 ∧ b.toNat - 0x30 ≤ 9 := by
  apply forall_uint8_of_fin; decide +kernel

theorem pgo_stop (f v : Nat) (t : Bytes) (h : headIsDigit t = false) : readIpv4Piece.go f v t = some (v, t) := by
  cases f with
  | zero => rfl
  | succ f =>
    cases t with
    | nil => rfl
    | cons c t' =>
      have : isAsciiDigit c = false := h
      simp [readIpv4Piece.go, this]

theorem pgo_digit (f v : Nat) (c : UInt8) (t : Bytes) (hd : isAsciiDigit c = true) :
    readIpv4Piece.go (f + 1) v (c :: t) =
      (if v == 0 then none else if v * 10 + digitVal c > 255 then none else readIpv4Piece.go f (v * 10 + digitVal c) t) := by
  simp [readIpv4Piece.go, hd]

/-- the code's piece reader against the Standard's: same value when the piece ends after at most three digits,
    and a fourth digit makes the Standard's reader fail -/
theorem piece_rel (p : Bytes) :
    (match v4Piece p with
     | none => readIpv4Piece p = none
     | some (v, rest) => v ≤ 255 ∧ (if headIsDigit rest then readIpv4Piece p = none else readIpv4Piece p = some (v, rest))) := by
  unfold v4Piece
  match p with
  | [] => simp [readIpv4Piece]
  | c :: p1 =>
    by_cases hc : isDigit c = true
    · have hca : isAsciiDigit c = true := hc
      obtain ⟨dv0, l0⟩ := dval c hc
      have hs : readIpv4Piece (c :: p1) = readIpv4Piece.go p1.length (digitVal c) p1 := by simp [readIpv4Piece, hca]
      simp only [hc, Bool.not_true, Bool.false_eq_true, ↓reduceIte, hs]
      rw [← dv0] at l0 ⊢
      generalize digitVal c = a at l0 ⊢
      match p1 with
      | [] => simp [readIpv4Piece.go, headIsDigit]; omega
      | c1 :: p2 =>
        by_cases h1 : isDigit c1 = true
        · have h1a : isAsciiDigit c1 = true := h1
          obtain ⟨dv1, l1⟩ := dval c1 h1
          simp only [h1, ↓reduceIte, List.length_cons, pgo_digit _ _ _ _ h1a]
          rw [← dv1] at l1 ⊢
          generalize digitVal c1 = b at l1 ⊢
          by_cases hz : (a == 0) = true
          · simp [hz]
          · have hz' : a ≠ 0 := by simpa using hz
            have hb : ¬ a * 10 + b > 255 := by omega
            simp only [hz, Bool.false_eq_true, ↓reduceIte, hb]
            match p2 with
            | [] => simp [readIpv4Piece.go, headIsDigit]; omega
            | c2 :: p3 =>
              by_cases h2 : isDigit c2 = true
              · have h2a : isAsciiDigit c2 = true := h2
                obtain ⟨dv2, l2⟩ := dval c2 h2
                simp only [h2, ↓reduceIte, List.length_cons, pgo_digit _ _ _ _ h2a]
                rw [← dv2] at l2 ⊢
                generalize digitVal c2 = d at l2 ⊢
                have hnz : ((a * 10 + b) == 0) = false := by
                  have : a * 10 + b ≠ 0 := by omega
                  simpa using this
                simp only [hnz, Bool.false_eq_true, ↓reduceIte]
                by_cases hgt : (a * 10 + b) * 10 + d > 255
                · simp [hgt]
                · simp only [hgt, ↓reduceIte]
                  refine ⟨by omega, ?_⟩
                  by_cases h3 : headIsDigit p3 = true
                  · simp only [h3, ↓reduceIte]
                    cases p3 with
                    | nil => simp [headIsDigit] at h3
                    | cons c3 p4 =>
                      have h3a : isAsciiDigit c3 = true := h3
                      rw [List.length_cons, pgo_digit _ _ _ _ h3a]
                      have hnz2 : (((a * 10 + b) * 10 + d) == 0) = false := by
                        have : (a * 10 + b) * 10 + d ≠ 0 := by omega
                        simpa using this
                      have hb4 : ((a * 10 + b) * 10 + d) * 10 + digitVal c3 > 255 := by
                        have : 1 ≤ a := by omega
                        omega
                      simp [hnz2, hb4]
                  · have h3' : headIsDigit p3 = false := by simpa using h3
                    simp only [h3', Bool.false_eq_true, ↓reduceIte]
                    exact pgo_stop _ _ _ h3'
              · have h2' : isDigit c2 = false := by simpa using h2
                simp only [h2', Bool.false_eq_true, ↓reduceIte, headIsDigit]
                refine ⟨by omega, ?_⟩
                exact pgo_stop _ _ _ (by simpa [headIsDigit] using h2')
        · have h1' : isDigit c1 = false := by simpa using h1
          simp only [h1', Bool.false_eq_true, ↓reduceIte, headIsDigit]
          refine ⟨by omega, ?_⟩
          exact pgo_stop _ _ _ (by simpa [headIsDigit] using h1')
    · have hc' : isDigit c = false := by simpa using hc
      have hca : isAsciiDigit c = false := hc'
      simp [hc', readIpv4Piece, hca]

/-- the Standard's embedded-IPv4 reader as "n more pieces" -/
def specRest : Nat → Bool → Bytes → Option (List Nat)
  | 0, _, s => if s.isEmpty then some [] else none
  | n + 1, needDot, s =>
    match (if needDot then (match s with | 0x2E :: t => some t | _ => none) else some s) with
    | none => none
    | some t =>
      match readIpv4Piece t with
      | none => none
      | some (v, r) => (specRest n true r).map (v :: ·)

def toPair : List Nat → Option (Nat × Nat)
  | [a, b, c, d] => some (a * 256 + b, c * 256 + d)
  | _ => none

theorem readEmbedded_rest (s : Bytes) : readEmbeddedIpv4 s = (specRest 4 false s).bind toPair := by
  unfold readEmbeddedIpv4
  simp only [specRest, Bool.false_eq_true, ↓reduceIte]
  cases h1 : readIpv4Piece s with
  | none => rfl
  | some r1 =>
    obtain ⟨a, s1⟩ := r1
    simp only [↓reduceIte]
    match s1 with
    | [] => rfl
    | c1 :: s1' =>
      by_cases e1 : c1 = 0x2E
      · subst e1
        simp only
        cases h2 : readIpv4Piece s1' with
        | none => rfl
        | some r2 =>
          obtain ⟨b, s2⟩ := r2
          simp only
          match s2 with
          | [] => rfl
          | c2 :: s2' =>
            by_cases e2 : c2 = 0x2E
            · subst e2
              simp only
              cases h3 : readIpv4Piece s2' with
              | none => rfl
              | some r3 =>
                obtain ⟨c, s3⟩ := r3
                simp only
                match s3 with
                | [] => rfl
                | c3 :: s3' =>
                  by_cases e3 : c3 = 0x2E
                  · subst e3
                    simp only
                    cases h4 : readIpv4Piece s3' with
                    | none => rfl
                    | some r4 =>
                      obtain ⟨d, s4⟩ := r4
                      simp only
                      cases s4 with
                      | nil => simp [toPair]
                      | cons x xs => simp
                  · have : (match c3 :: s3' with | 0x2E :: t => some t | _ => (none : Option Bytes)) = none := by
                      split
                      · rename_i heq; injection heq with e _; exact absurd e e3
                      · rfl
                    split
                    · rename_i heq; injection heq with e _; exact absurd e e3
                    · simp [this]
            · have : (match c2 :: s2' with | 0x2E :: t => some t | _ => (none : Option Bytes)) = none := by
                split
                · rename_i heq; injection heq with e _; exact absurd e e2
                · rfl
              split
              · rename_i heq; injection heq with e _; exact absurd e e2
              · simp [this]
      · have : (match c1 :: s1' with | 0x2E :: t => some t | _ => (none : Option Bytes)) = none := by
          split
          · rename_i heq; injection heq with e _; exact absurd e e1
          · rfl
        split
        · rename_i heq; injection heq with e _; exact absurd e e1
        · simp [this]

theorem v4Piece_len (p : Bytes) (v : Nat) (rest : Bytes) (h : v4Piece p = some (v, rest)) : rest.length < p.length := by
  match p, h with
  | [], h => simp [v4Piece] at h
  | [c], h =>
    by_cases hc : isDigit c <;> simp [v4Piece, hc] at h
    simp [h.2]
  | [c, c1], h =>
    by_cases hc : isDigit c <;> by_cases hc1 : isDigit c1 <;> by_cases hv : c.toNat - 48 = 0 <;> simp [v4Piece, hc, hc1, hv] at h <;> simp [h.2]
  | c :: c1 :: c2 :: p3, h =>
    by_cases hc : isDigit c <;> by_cases hc1 : isDigit c1 <;> by_cases hv : c.toNat - 48 = 0 <;> by_cases hc2 : isDigit c2 <;> simp [v4Piece, hc, hc1, hv, hc2] at h <;> (first | (simp [h.2]; done) | (simp [h.2]; omega))

/-- the array updates of the embedded-IPv4 loop for the numbers still to come -/
def applyNums : Nat → List Nat → List Nat → Nat → List Nat × Nat
  | _, [], ad, pi => (ad, pi)
  | ns, v :: l, ad, pi =>
    let ad' := setAt ad pi ((getAt ad pi * 256 + v) % 65536)
    let pi' := if ns + 1 == 2 || ns + 1 == 4 then pi + 1 else pi
    applyNums (ns + 1) l ad' pi'

theorem headDigit_notdot (r : Bytes) (h : headIsDigit r = true) :
    (match r with | 0x2E :: t => some t | _ => (none : Option Bytes)) = none ∧ r ≠ [] := by
  cases r with
  | nil => simp [headIsDigit] at h
  | cons c t =>
    have hc : c ≠ 0x2E := by
      intro e; subst e; simp [headIsDigit, isDigit] at h
    refine ⟨?_, by simp⟩
    split
    · rename_i heq; injection heq with e _; exact absurd e hc
    · rfl

theorem specRest_headDigit (n : Nat) (r : Bytes) (h : headIsDigit r = true) : specRest n true r = none := by
  obtain ⟨h1, h2⟩ := headDigit_notdot r h
  cases n with
  | zero => simp [specRest, h2]
  | succ n => simp only [specRest, ↓reduceIte, h1]

/-- the embedded-IPv4 loop of the code reads what the Standard's reader reads -/
theorem v4Loop_rest (n : Nat) (f : Nat) (p : Bytes) (ns : Nat) (hns : ns + n = 4) (address : List Nat) (pi : Nat)
    (hf : p.length < f) :
    (v4Loop f p ns address pi).bind (fun r => if r.2.2 != 4 then none else some (r.1, r.2.1)) =
      (specRest n (decide (ns > 0)) p).map (fun l => applyNums ns l address pi) := by
  induction n generalizing f p ns address pi with
  | zero =>
    have hns4 : ns = 4 := by omega
    subst hns4
    cases f with
    | zero => omega
    | succ f =>
      unfold v4Loop
      cases p with
      | nil => simp [specRest, applyNums]
      | cons c r => simp [specRest]
  | succ n ih =>
    have hlt : ns < 4 := by omega
    cases f with
    | zero => omega
    | succ f =>
      unfold v4Loop
      cases p with
      | nil =>
        have : (ns != 4) = true := by simp; omega
        have hne4 : ¬ ns = 4 := by omega
        by_cases h0 : ns > 0
        · simp [specRest, h0, hne4]
        · simp [specRest, h0, hne4, readIpv4Piece]
      | cons c r =>
        simp only [List.isEmpty_cons, Bool.false_eq_true, ↓reduceIte, specRest]
        -- the text at which the piece starts
        have hdot : (if ns > 0 then (if (c == 0x2E && decide (ns < 4)) = true then some r else none) else some (c :: r)) =
            (if decide (ns > 0) = true then (match c :: r with | 0x2E :: t => some t | _ => none) else some (c :: r)) := by
          by_cases h0 : ns > 0
          · simp only [h0, ↓reduceIte, decide_true, hlt, Bool.and_true]
            by_cases hc : c = 0x2E
            · subst hc; simp
            · have : (c == 0x2E) = false := by simpa using hc
              simp only [this, Bool.false_eq_true, ↓reduceIte]
              split
              · rename_i heq; injection heq with e _; exact absurd e hc
              · rfl
          · simp [h0]
        rw [hdot]
        cases hq : (if decide (ns > 0) = true then (match c :: r with | 0x2E :: t => some t | _ => none) else some (c :: r)) with
        | none => simp
        | some t =>
          have htlen : t.length ≤ (c :: r).length := by
            by_cases h0 : ns > 0
            · simp only [h0, decide_true, ↓reduceIte] at hq
              split at hq
              · rename_i heq; injection hq with hq; subst hq; injection heq with _ e; subst e; simp
              · cases hq
            · simp only [h0, decide_false, Bool.false_eq_true, ↓reduceIte] at hq
              injection hq with hq; subst hq; exact Nat.le_refl _
          simp only
          have hrel := piece_rel t
          cases hv : v4Piece t with
          | none =>
            rw [hv] at hrel
            simp only at hrel
            simp [hrel]
          | some vr =>
            obtain ⟨v, rest⟩ := vr
            rw [hv] at hrel
            obtain ⟨hv255, hrd⟩ := hrel
            -- the piece consumed at least one byte
            have hrlen : rest.length < t.length := v4Piece_len t v rest hv
            have hih := ih f rest (ns + 1) (by omega)
              (setAt address pi ((getAt address pi * 256 + v) % 65536))
              (if (ns + 1 == 2 || ns + 1 == 4) = true then pi + 1 else pi) (by
                have : (c :: r).length = r.length + 1 := rfl
                omega)
            simp only
            rw [hih]
            have hdec : decide (ns + 1 > 0) = true := by simp
            rw [hdec]
            by_cases hhd : headIsDigit rest = true
            · simp only [hhd, ↓reduceIte] at hrd
              rw [hrd, specRest_headDigit n rest hhd]
              simp
            · have hhd' : headIsDigit rest = false := by simpa using hhd
              simp only [hhd', Bool.false_eq_true, ↓reduceIte] at hrd
              rw [hrd]
              simp only
              cases hsr : specRest n true rest with
              | none => simp
              | some l => simp [applyNums]

end AdaVerif.Lemmas.K6

import AdaVerif.Model.AggSetters
import AdaVerif.Lemmas.AggSpec
import AdaVerif.Spec.RecInv
/-
End-to-end refinement for the component setters: the model of the C++ setter (precondition, encode,
in-place edit, limit check, roll-back) applied to the laid-out record gives the layout of the
Standard's setter result when that fits the limit, and leaves the buffer untouched otherwise.
-/
namespace AdaVerif.Lemmas.AggL
open AdaVerif AdaVerif.Model AdaVerif.Model.Agg

/-- what the record invariants (C19) give about credentials: none without a non-empty host, and a host
    that is present and not the empty host serialises to at least one byte -/
structure CredOk (u : Spec.Url) : Prop where
  hostless : HostlessOk u
  emptyHost : u.host = some .empty → u.username = [] ∧ u.password = []
  nonEmpty : ∀ h, u.host = some h → h ≠ .empty → h.serialize ≠ []

theorem cannot_iff (u : Spec.Url) (ok : CredOk u) :
    cannotHaveCredentialsOrPort (u.scheme == Spec.bFile) (layout (ofUrl u)) = u.cannotHaveUsernamePasswordPort := by
  unfold cannotHaveCredentialsOrPort Spec.Url.cannotHaveUsernamePasswordPort
  cases hh : u.host with
  | none =>
    obtain ⟨hu, hp, _⟩ := ok.hostless hh
    simp [layout, ofUrl, hh, hu, hp, atS, passS, authS]
  | some h =>
    by_cases he : h = .empty
    · subst he
      obtain ⟨hu, hp⟩ := ok.emptyHost hh
      simp [layout, ofUrl, hh, hu, hp, atS, passS, Spec.Host.serialize]
    · have hne := ok.nonEmpty h hh he
      have hl : 0 < h.serialize.length := by cases hs : h.serialize <;> simp_all
      have h1 : ((layout (ofUrl u)).hs == (layout (ofUrl u)).he) = false := by
        simp [layout, ofUrl, hh]; omega
      have h2 : (some h == some Spec.Host.empty) = false := by simpa using he
      simp [h1, h2]

theorem setUsername_end_to_end (L : Nat) (u : Spec.Url) (v : Bytes) (ok : CredOk u) (hna : TailNoAt (ofUrl u)) :
    setUsernameM L (u.scheme == Spec.bFile) (layout (ofUrl u)) v =
      if u.cannotHaveUsernamePasswordPort then (layout (ofUrl u), false)
      else if (layout (ofUrl (Spec.setUsername u v))).buf.length ≤ L then (layout (ofUrl (Spec.setUsername u v)), true)
      else (layout (ofUrl u), false) := by
  unfold setUsernameM
  rw [cannot_iff u ok]
  cases hc : u.cannotHaveUsernamePasswordPort
  · simp only [Bool.false_eq_true, ↓reduceIte, guarded]
    rw [← setUsername_refines u v hc hna]
  · simp

theorem setPassword_end_to_end (L : Nat) (u : Spec.Url) (v : Bytes) (ok : CredOk u) (hna : TailNoAt (ofUrl u)) :
    setPasswordM L (u.scheme == Spec.bFile) (layout (ofUrl u)) v =
      if u.cannotHaveUsernamePasswordPort then (layout (ofUrl u), false)
      else if (layout (ofUrl (Spec.setPassword u v))).buf.length ≤ L then (layout (ofUrl (Spec.setPassword u v)), true)
      else (layout (ofUrl u), false) := by
  unfold setPasswordM
  rw [cannot_iff u ok]
  cases hc : u.cannotHaveUsernamePasswordPort
  · simp only [Bool.false_eq_true, ↓reduceIte, guarded]
    rw [← setPassword_refines u v hc hna]
  · simp

theorem dropLeading_eq (c : UInt8) (v : Bytes) : dropLeading c v = dropOne c v := by
  cases v <;> rfl

theorem setSearch_end_to_end (L : Nat) (u : Spec.Url) (v : Bytes) (hv : v ≠ []) :
    setSearchM L u.isSpecial (layout (ofUrl u)) v =
      if (layout (ofUrl (Spec.setSearch u v))).buf.length ≤ L then layout (ofUrl (Spec.setSearch u v)) else layout (ofUrl u) := by
  have h := setSearch_refines u v hv
  unfold setSearchM guardedVoid guarded
  simp only [dropLeading_eq, ← h]
  split <;> rfl

theorem setHash_end_to_end (L : Nat) (u : Spec.Url) (v : Bytes) (hv : v ≠ []) :
    setHashM L (layout (ofUrl u)) v =
      if (layout (ofUrl (Spec.setHash u v))).buf.length ≤ L then layout (ofUrl (Spec.setHash u v)) else layout (ofUrl u) := by
  have h := setHash_refines u v hv
  unfold setHashM guardedVoid guarded
  simp only [dropLeading_eq, ← h]
  split <;> rfl

end AdaVerif.Lemmas.AggL

namespace AdaVerif.Lemmas.AggL
open AdaVerif AdaVerif.Model AdaVerif.Model.Agg

/-- the record invariants of C19 provide `CredOk` -/
theorem credOk_of_recInv (u : Spec.Url) (h : Spec.RecInv u = true) : CredOk u := by
  simp only [Spec.RecInv, Bool.and_eq_true, Bool.or_eq_true, Bool.not_eq_true'] at h
  obtain ⟨⟨⟨⟨⟨_, hwf⟩, _⟩, hcred⟩, _⟩, _⟩ := h
  have hc : u.cannotHaveUsernamePasswordPort = true → u.username = [] ∧ u.password = [] ∧ u.port = none := by
    intro hcan
    rcases hcred with hcf | hcc
    · rw [hcan] at hcf; cases hcf
    · simp only [Bool.and_eq_true, List.isEmpty_iff, Option.isNone_iff_eq_none] at hcc
      exact ⟨hcc.1.1, hcc.1.2, hcc.2⟩
  refine ⟨?_, ?_, ?_⟩
  · intro hn
    exact hc (by simp [Spec.Url.cannotHaveUsernamePasswordPort, hn])
  · intro he
    have := hc (by simp [Spec.Url.cannotHaveUsernamePasswordPort, he])
    exact ⟨this.1, this.2.1⟩
  · intro hst hh hne
    cases hst with
    | domain d => simp [Spec.hostWf, hh] at hwf; simpa [Spec.Host.serialize] using hwf
    | opaqueHost d => simp [Spec.hostWf, hh] at hwf; simpa [Spec.Host.serialize] using hwf
    | ipv4 a => simp [Spec.Host.serialize, Spec.ipv4Serialize]
    | ipv6 p => simp [Spec.Host.serialize]
    | empty => exact absurd rfl hne

end AdaVerif.Lemmas.AggL

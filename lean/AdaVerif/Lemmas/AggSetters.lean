import AdaVerif.Model.AggSetters
import AdaVerif.Lemmas.AggSpec
import AdaVerif.Spec.RecInv
/-
End-to-end refinement for the component setters: the model of the C++ setter (precondition, encode,
in-place edit, limit check, roll-back) applied to the laid-out record gives the layout of the
Standard's setter result when that fits the limit, and leaves the buffer untouched otherwise.
-/
namespace AdaVerif.Lemmas.AggL
open AdaVerif AdaVerif.Model AdaVerif.Model.Agg

/-- what the record invariants (C19) give about credentials: none without a non-empty host, and a host
    that is present and not the empty host serialises to at least one byte -/
structure CredOk (u : Spec.Url) : Prop where
  hostless : HostlessOk u
  emptyHost : u.host = some .empty → u.username = [] ∧ u.password = []
  nonEmpty : ∀ h, u.host = some h → h ≠ .empty → h.serialize ≠ []

theorem cannot_iff (u : Spec.Url) (ok : CredOk u) :
    cannotHaveCredentialsOrPort (u.scheme == Spec.bFile) (layout (ofUrl u)) = u.cannotHaveUsernamePasswordPort := by
  unfold cannotHaveCredentialsOrPort Spec.Url.cannotHaveUsernamePasswordPort
  cases hh : u.host with
  | none =>
    obtain ⟨hu, hp, _⟩ := ok.hostless hh
    simp [layout, ofUrl, hh, hu, hp, atS, passS, authS]
  | some h =>
    by_cases he : h = .empty
    · subst he
      obtain ⟨hu, hp⟩ := ok.emptyHost hh
      simp [layout, ofUrl, hh, hu, hp, atS, passS, Spec.Host.serialize]
    · have hne := ok.nonEmpty h hh he
      have hl : 0 < h.serialize.length := by cases hs : h.serialize <;> simp_all
      have h1 : ((layout (ofUrl u)).hs == (layout (ofUrl u)).he) = false := by
        simp [layout, ofUrl, hh]; omega
      have h2 : (some h == some Spec.Host.empty) = false := by simpa using he
      simp [h1, h2]

theorem setUsername_end_to_end (L : Nat) (u : Spec.Url) (v : Bytes) (ok : CredOk u) (hna : TailNoAt (ofUrl u)) :
    setUsernameM L (u.scheme == Spec.bFile) (layout (ofUrl u)) v =
      if u.cannotHaveUsernamePasswordPort then (layout (ofUrl u), false)
      else if (layout (ofUrl (Spec.setUsername u v))).buf.length ≤ L then (layout (ofUrl (Spec.setUsername u v)), true)
      else (layout (ofUrl u), false) := by
  unfold setUsernameM
  rw [cannot_iff u ok]
  cases hc : u.cannotHaveUsernamePasswordPort
  · simp only [Bool.false_eq_true, ↓reduceIte, guarded]
    rw [← setUsername_refines u v hc hna]
  · simp

theorem setPassword_end_to_end (L : Nat) (u : Spec.Url) (v : Bytes) (ok : CredOk u) (hna : TailNoAt (ofUrl u)) :
    setPasswordM L (u.scheme == Spec.bFile) (layout (ofUrl u)) v =
      if u.cannotHaveUsernamePasswordPort then (layout (ofUrl u), false)
      else if (layout (ofUrl (Spec.setPassword u v))).buf.length ≤ L then (layout (ofUrl (Spec.setPassword u v)), true)
      else (layout (ofUrl u), false) := by
  unfold setPasswordM
  rw [cannot_iff u ok]
  cases hc : u.cannotHaveUsernamePasswordPort
  · simp only [Bool.false_eq_true, ↓reduceIte, guarded]
    rw [← setPassword_refines u v hc hna]
  · simp

theorem dropLeading_eq (c : UInt8) (v : Bytes) : dropLeading c v = dropOne c v := by
  cases v <;> rfl

theorem setSearch_end_to_end (L : Nat) (u : Spec.Url) (v : Bytes) (hv : v ≠ []) :
    setSearchM L u.isSpecial (layout (ofUrl u)) v =
      if (layout (ofUrl (Spec.setSearch u v))).buf.length ≤ L then layout (ofUrl (Spec.setSearch u v)) else layout (ofUrl u) := by
  have h := setSearch_refines u v hv
  unfold setSearchM guardedVoid guarded
  simp only [dropLeading_eq, ← h]
  split <;> rfl

theorem setHash_end_to_end (L : Nat) (u : Spec.Url) (v : Bytes) (hv : v ≠ []) :
    setHashM L (layout (ofUrl u)) v =
      if (layout (ofUrl (Spec.setHash u v))).buf.length ≤ L then layout (ofUrl (Spec.setHash u v)) else layout (ofUrl u) := by
  have h := setHash_refines u v hv
  unfold setHashM guardedVoid guarded
  simp only [dropLeading_eq, ← h]
  split <;> rfl

end AdaVerif.Lemmas.AggL

namespace AdaVerif.Lemmas.AggL
open AdaVerif AdaVerif.Model AdaVerif.Model.Agg

theorem dashdot_false_of_host (u : Spec.Url) (h : u.cannotHaveUsernamePasswordPort = false) : (ofUrl u).dashdot = false := by
  cases hh : u.host <;> simp_all [Spec.Url.cannotHaveUsernamePasswordPort, ofUrl]

theorem setPort_end_to_end (L : Nat) (u : Spec.Url) (v : Bytes) (ok : CredOk u) :
    setPortM L (u.scheme == Spec.bFile) (Spec.defaultPort u.scheme) (layout (ofUrl u)) v =
      if u.cannotHaveUsernamePasswordPort then (layout (ofUrl u), false)
      else if v.isEmpty then (layout (ofUrl (Spec.setPort u v)), true)
      else match Spec.stripTN v with
        | [] => (layout (ofUrl u), true)
        | c :: _ =>
          if !isAsciiDigit c then (layout (ofUrl u), false)
          else if Spec.parseRadix 10 ((Spec.stripTN v).takeWhile isAsciiDigit) > 65535 then (layout (ofUrl u), false)
          else if (layout (ofUrl (Spec.setPort u v))).buf.length ≤ L then (layout (ofUrl (Spec.setPort u v)), true)
          else (layout (ofUrl u), false) := by
  unfold setPortM
  rw [cannot_iff u ok]
  cases hc : u.cannotHaveUsernamePasswordPort
  · have hdd := dashdot_false_of_host u hc
    simp only [Bool.false_eq_true, ↓reduceIte]
    by_cases hv : v.isEmpty = true
    · have hv' : v = [] := by cases v <;> simp_all
      subst hv'
      simp only [List.isEmpty_nil, ↓reduceIte, clearPort_layout _ hdd]
      simp [Spec.setPort, hc, ofUrl, Spec.Url.pathSerialized]
    · simp only [hv, Bool.false_eq_true, ↓reduceIte]
      cases ht : Spec.stripTN v with
      | nil => simp
      | cons c t =>
        simp only
        by_cases hd : isAsciiDigit c = true
        · simp only [hd, Bool.not_true, Bool.false_eq_true, ↓reduceIte]
          by_cases hbig : Spec.parseRadix 10 ((c :: t).takeWhile isAsciiDigit) > 65535
          · simp [hbig]
          · simp only [hbig, ↓reduceIte]
            -- what the Standard's port state computes
            have hne : ((c :: t).takeWhile isAsciiDigit).isEmpty = false := by simp [List.takeWhile, hd]
            have hspec : Spec.setPort u v =
                (if Spec.defaultPort u.scheme == some (Spec.parseRadix 10 ((c :: t).takeWhile isAsciiDigit))
                 then { u with port := none } else { u with port := some (Spec.parseRadix 10 ((c :: t).takeWhile isAsciiDigit)) }) := by
              simp only [Spec.setPort, hc, Bool.false_eq_true, ↓reduceIte, hv, ht, Spec.portOverride, hne, hbig]
            rw [hspec]
            split
            · rw [clearPort_layout _ hdd]
              simp [ofUrl, Spec.Url.pathSerialized]
            · rw [updateBasePort_layout _ _ _ hdd]
              simp [ofUrl, Spec.Url.pathSerialized]
        · simp [hd]
  · simp

theorem clearPort_none (l : L) (hp : l.port = none) : clearPort (layout l) = layout l := by
  simp [clearPort, layout, hp]

theorem hasCredentials_layout (u : Spec.Url) (ok : CredOk u) : hasCredentials (layout (ofUrl u)) = u.includesCredentials := by
  unfold hasCredentials Spec.Url.includesCredentials
  cases hh : u.host with
  | none =>
    obtain ⟨hu, hp, _⟩ := ok.hostless hh
    simp [hasNonEmptyUsername, hasNonEmptyPassword, layout, ofUrl, hh, hu, hp, authS, passS]
  | some h =>
    have e1 : hasNonEmptyUsername (layout (ofUrl u)) = !u.username.isEmpty := by
      rw [hasNonEmptyUsername_layout (ofUrl u) (by simp [ofUrl, hh])]; simp [ofUrl]
    have e2 : hasNonEmptyPassword (layout (ofUrl u)) = !u.password.isEmpty := by
      rw [hasNonEmptyPassword_layout]; simp [ofUrl]
    rw [e1, e2]

/-- the protocol setter, state-override part, end to end -/
theorem setProtocolCore_end_to_end (L : Nat) (u : Spec.Url) (s : Bytes) (ok : CredOk u) (hsch : u.scheme ≠ [])
    (hfile : u.scheme = Spec.bFile → u.host.isSome = true) :
    (setProtocolCoreM L u.isSpecial (u.scheme == Spec.bFile) (layout (ofUrl u)) s).1 =
      if (layout (ofUrl (Spec.protocolCore u s))).buf.length ≤ L then layout (ofUrl (Spec.protocolCore u s)) else layout (ofUrl u) := by
  unfold setProtocolCoreM Spec.protocolCore
  simp only [Spec.Url.isSpecial]
  by_cases h1 : (Spec.isSpecialScheme u.scheme != Spec.isSpecialScheme s) = true
  · simp only [h1, ↓reduceIte]; split <;> rfl
  · simp only [h1, Bool.false_eq_true, ↓reduceIte, hasCredentials_layout u ok]
    have hport : (layout (ofUrl u)).port = u.port := by cases hp : u.port <;> simp [layout, ofUrl, hp]
    rw [hport]
    by_cases h2 : ((u.includesCredentials || u.port.isSome) && s == Spec.bFile) = true
    · simp only [h2, ↓reduceIte]; split <;> rfl
    · simp only [h2, Bool.false_eq_true, ↓reduceIte]
      -- the third refusal: a file URL with an empty host
      have h3eq : ((u.scheme == Spec.bFile) && ((layout (ofUrl u)).hs == (layout (ofUrl u)).he)) =
          (u.scheme == Spec.bFile && u.host == some .empty) := by
        by_cases hf : (u.scheme == Spec.bFile) = true
        · simp only [hf, Bool.true_and]
          have := cannot_iff u ok
          simp only [cannotHaveCredentialsOrPort, hf, Bool.true_or, Spec.Url.cannotHaveUsernamePasswordPort] at this
          -- compute hs == he directly
          have hsome := hfile (by simpa using hf)
          cases hh : u.host with
          | none => simp [hh] at hsome
          | some h =>
            by_cases he : h = .empty
            · subst he
              obtain ⟨hu, hp⟩ := ok.emptyHost hh
              simp [layout, ofUrl, hh, hu, hp, atS, passS, Spec.Host.serialize]
            · have hne := ok.nonEmpty h hh he
              have hl : 0 < h.serialize.length := List.length_pos_iff.mpr hne
              have h2' : (some h == some Spec.Host.empty) = false := by simpa using he
              have hx : ((layout (ofUrl u)).hs == (layout (ofUrl u)).he) = false := by
                simp [layout, ofUrl, hh]; omega
              rw [hx, h2']
        · simp [hf]
      rw [h3eq]
      by_cases h3 : (u.scheme == Spec.bFile && u.host == some .empty) = true
      · simp only [h3, ↓reduceIte]; split <;> rfl
      · simp only [h3, Bool.false_eq_true, ↓reduceIte]
        have hss : setScheme (layout (ofUrl u)) s = layout (ofUrl { u with scheme := s }) := by
          rw [setScheme_layout (ofUrl u) s (by simp [ofUrl])]
          simp [ofUrl, Spec.Url.pathSerialized]
        rw [hss]
        have hport2 : (layout (ofUrl { u with scheme := s })).port = u.port := by cases hp : u.port <;> simp [layout, ofUrl, hp]
        rw [hport2]
        by_cases h4 : (u.port.isSome && u.port == Spec.defaultPort s) = true
        · simp only [h4, ↓reduceIte]
          have hdd : (ofUrl { u with scheme := s }).dashdot = false := by
            have hps : u.port.isSome = true := by
              simp only [Bool.and_eq_true] at h4; exact h4.1
            cases hh : u.host with
            | none => obtain ⟨_, _, hpn⟩ := ok.hostless hh; simp [hpn] at hps
            | some h => simp [ofUrl, hh]
          rw [clearPort_layout _ hdd]
          have : layout { ofUrl { u with scheme := s } with port := none } = layout (ofUrl { u with scheme := s, port := none }) := by
            simp [ofUrl, Spec.Url.pathSerialized]
          rw [this]
          split <;> rfl
        · simp only [h4, Bool.false_eq_true, ↓reduceIte]
          split <;> rfl

/-- the record invariants of C19 provide `CredOk` -/
theorem credOk_of_recInv (u : Spec.Url) (h : Spec.RecInv u = true) : CredOk u := by
  simp only [Spec.RecInv, Bool.and_eq_true, Bool.or_eq_true, Bool.not_eq_true'] at h
  obtain ⟨⟨⟨⟨⟨_, hwf⟩, _⟩, hcred⟩, _⟩, _⟩ := h
  have hc : u.cannotHaveUsernamePasswordPort = true → u.username = [] ∧ u.password = [] ∧ u.port = none := by
    intro hcan
    rcases hcred with hcf | hcc
    · rw [hcan] at hcf; cases hcf
    · simp only [Bool.and_eq_true, List.isEmpty_iff, Option.isNone_iff_eq_none] at hcc
      exact ⟨hcc.1.1, hcc.1.2, hcc.2⟩
  refine ⟨?_, ?_, ?_⟩
  · intro hn
    exact hc (by simp [Spec.Url.cannotHaveUsernamePasswordPort, hn])
  · intro he
    have := hc (by simp [Spec.Url.cannotHaveUsernamePasswordPort, he])
    exact ⟨this.1, this.2.1⟩
  · intro hst hh hne
    cases hst with
    | domain d => simp [Spec.hostWf, hh] at hwf; simpa [Spec.Host.serialize] using hwf
    | opaqueHost d => simp [Spec.hostWf, hh] at hwf; simpa [Spec.Host.serialize] using hwf
    | ipv4 a => simp [Spec.Host.serialize, Spec.ipv4Serialize]
    | ipv6 p => simp [Spec.Host.serialize]
    | empty => exact absurd rfl hne

end AdaVerif.Lemmas.AggL

import AdaVerif.Lemmas.HostCanon
/-
`Spec.parse` returns canonical records (`FP.Canon`): for every input and every canonical base, when the IDNA
parameter is stable.  Together with `FP.parse_href_canon` this is the fixed-point property C05 for all inputs.
-/
namespace AdaVerif.Lemmas.PC
open AdaVerif AdaVerif.Spec AdaVerif.Lemmas AdaVerif.Lemmas.FP AdaVerif.Lemmas.HC

/-! ### paths -/
def SegsOk (sp : Bool) (path : List Bytes) : Prop := ∀ s ∈ path, SegOk sp s
def DriveOk (path : List Bytes) : Prop :=
  ∀ s, path.head? = some s → isWindowsDriveLetter s = true → isNormalizedWindowsDriveLetter s = true

theorem splitPath_sepfree (sp : Bool) (t : Bytes) : ∀ seg ∈ splitPath sp t, ∀ b ∈ seg, isSep sp b = false := by
  induction t with
  | nil => intro seg hs b hb; simp [splitPath] at hs; subst hs; simp at hb
  | cons c rest ih =>
    intro seg hs b hb
    simp only [splitPath] at hs
    split at hs
    · rcases List.mem_cons.mp hs with rfl | hs
      · simp at hb
      · exact ih seg hs b hb
    · rename_i hc
      cases hsp : splitPath sp rest with
      | nil => exact absurd hsp (splitPath_ne_nil sp rest)
      | cons h tl =>
        rw [hsp] at hs ih
        simp only [List.mem_cons] at hs
        rcases hs with rfl | hs
        · rcases List.mem_cons.mp hb with rfl | hb
          · unfold isSep; simpa using hc
          · exact ih h (by simp) b hb
        · exact ih seg (by simp [hs]) b hb

theorem segOk_nil (sp : Bool) : SegOk sp [] :=
  ⟨by simp, by simp, by decide, by decide⟩

theorem segOk_enc (sp : Bool) (seg : Bytes) (hsep : ∀ b ∈ seg, isSep sp b = false)
    (h1 : isSingleDot (percentEncode inPath seg) = false) (h2 : isDoubleDot (percentEncode inPath seg) = false) :
    SegOk sp (percentEncode inPath seg) := by
  refine ⟨percentEncode_clean inPath (fun b hb => (pctb_facts b hb).2.2.2.2.1) seg, ?_, h1, h2⟩
  intro b hb
  rcases mem_percentEncode inPath seg b hb with h | h
  · exact hsep b h.1
  · have := pctb_facts b h
    have e1 : (b == 0x2F) = false := by simpa using this.2.2.2.2.2.2.2.1
    have e2 : (b == 0x5C) = false := by simpa using this.2.2.2.2.2.2.2.2.1
    simp [isSep, e1, e2]

theorem alpha_seg : ∀ a : UInt8, isAsciiAlpha a = true → inPath a = false ∧ a ≠ 0x2F ∧ a ≠ 0x5C ∧ toLowerByte a ≠ 0x2E := by
  apply forall_uint8_of_fin; decide +kernel

theorem segOk_drive (sp : Bool) (a : UInt8) (ha : isAsciiAlpha a = true) : SegOk sp [a, 0x3A] := by
  have f := alpha_seg a ha
  refine ⟨?_, ?_, ?_, ?_⟩
  · intro b hb
    simp only [List.mem_cons, List.not_mem_nil, or_false] at hb
    rcases hb with rfl | rfl
    · exact f.1
    · decide
  · intro b hb
    simp only [List.mem_cons, List.not_mem_nil, or_false] at hb
    rcases hb with rfl | rfl
    · have e1 : (b == 0x2F) = false := by simpa using f.2.1
      have e2 : (b == 0x5C) = false := by simpa using f.2.2.1
      simp [isSep, e1, e2]
    · cases sp <;> decide
  · simp [isSingleDot, lowerAscii]
  · have e : (toLowerByte a == 0x2E) = false := by simpa using f.2.2.2
    simp [isDoubleDot, lowerAscii, e]

theorem segsOk_snoc (sp : Bool) (acc : List Bytes) (s : Bytes) (ha : SegsOk sp acc) (hs : SegOk sp s) : SegsOk sp (acc ++ [s]) := by
  intro x hx
  rcases List.mem_append.mp hx with hx | hx
  · exact ha x hx
  · simp at hx; subst hx; exact hs

theorem driveOk_snoc (acc : List Bytes) (s : Bytes) (ha : DriveOk acc)
    (hs : acc = [] → isWindowsDriveLetter s = true → isNormalizedWindowsDriveLetter s = true) : DriveOk (acc ++ [s]) := by
  cases acc with
  | nil => intro x hx hw; simp at hx; subst hx; exact hs rfl hw
  | cons a t => intro x hx hw; exact ha x (by simpa using hx) hw

theorem shortenPath_segs (sp : Bool) (scheme : Bytes) (path : List Bytes) (hs : SegsOk sp path) :
    SegsOk sp (shortenPath scheme path) := by
  unfold shortenPath
  split
  · split
    · exact hs
    · intro x hx; simp at hx
  · exact fun x hx => hs x (List.dropLast_subset _ hx)

theorem shortenPath_drive (scheme : Bytes) (path : List Bytes) (hd : DriveOk path) : DriveOk (shortenPath scheme path) := by
  unfold shortenPath
  split
  · split
    · exact hd
    · intro x hx; simp at hx
  · cases path with
    | nil => intro x hx; simp at hx
    | cons a t =>
      cases t with
      | nil => intro x hx; simp at hx
      | cons b t' => intro x hx hw; exact hd x (by simpa [List.dropLast] using hx) hw

theorem normalized_drive : isNormalizedWindowsDriveLetter [a, 0x3A] = isAsciiAlpha a := by
  simp [isNormalizedWindowsDriveLetter]

theorem wdl_shape (s : Bytes) (h : isWindowsDriveLetter s = true) : ∃ a b, s = [a, b] ∧ isAsciiAlpha a = true := by
  unfold isWindowsDriveLetter at h
  split at h
  · rename_i a b
    simp only [Bool.and_eq_true] at h
    exact ⟨a, b, rfl, h.1⟩
  · cases h

theorem wdl_nil : isWindowsDriveLetter [] = false := rfl

theorem pushed_ok (sp : Bool) (scheme : Bytes) (acc : List Bytes) (enc : Bytes) :
    SegOk sp enc →
    SegOk sp (if (scheme == bFile && acc.isEmpty && isWindowsDriveLetter enc) = true then
      (match enc with | [a, _] => [a, 0x3A] | _ => enc) else enc) ∧
    (scheme = bFile → acc = [] → isWindowsDriveLetter (if (scheme == bFile && acc.isEmpty && isWindowsDriveLetter enc) = true then
      (match enc with | [a, _] => [a, 0x3A] | _ => enc) else enc) = true →
      isNormalizedWindowsDriveLetter (if (scheme == bFile && acc.isEmpty && isWindowsDriveLetter enc) = true then
      (match enc with | [a, _] => [a, 0x3A] | _ => enc) else enc) = true) := by
  intro hE
  by_cases hc : (scheme == bFile && acc.isEmpty && isWindowsDriveLetter enc) = true
  · have hc' := hc
    simp only [Bool.and_eq_true] at hc'
    obtain ⟨a, b, rfl, ha⟩ := wdl_shape enc hc'.2
    simp only [hc, ↓reduceIte]
    exact ⟨segOk_drive _ a ha, fun _ _ _ => by simp [isNormalizedWindowsDriveLetter, ha]⟩
  · simp only [hc, Bool.false_eq_true, ↓reduceIte]
    refine ⟨hE, fun hf he hw => ?_⟩
    exfalso; apply hc
    simp [hf, he, hw]

theorem pathSegments_ok (scheme : Bytes) (segs acc : List Bytes)
    (hsegs : ∀ seg ∈ segs, ∀ b ∈ seg, isSep (isSpecialScheme scheme) b = false)
    (hacc : SegsOk (isSpecialScheme scheme) acc) (hd : scheme = bFile → DriveOk acc) :
    SegsOk (isSpecialScheme scheme) (pathSegments scheme segs acc) ∧
    (scheme = bFile → DriveOk (pathSegments scheme segs acc)) := by
  induction segs generalizing acc with
  | nil => simpa [pathSegments] using ⟨hacc, hd⟩
  | cons seg more ih =>
    unfold pathSegments
    simp only
    have hmore : ∀ s ∈ more, ∀ b ∈ s, isSep (isSpecialScheme scheme) b = false := fun s hs => hsegs s (by simp [hs])
    have hE := segOk_enc (isSpecialScheme scheme) seg (hsegs seg (by simp))
    generalize percentEncode inPath seg = enc at hE ⊢
    have hnil := segOk_nil (isSpecialScheme scheme)
    have hnd : ∀ P : List Bytes, P = [] → isWindowsDriveLetter ([] : Bytes) = true → isNormalizedWindowsDriveLetter ([] : Bytes) = true :=
      fun _ _ h => by simp [wdl_nil] at h
    have hpush := pushed_ok (isSpecialScheme scheme) scheme acc enc
    apply ih _ hmore
    · split
      · have hs := shortenPath_segs _ scheme acc hacc
        split
        · exact segsOk_snoc _ _ _ hs hnil
        · exact hs
      · split
        · split
          · exact segsOk_snoc _ _ _ hacc hnil
          · exact hacc
        · rename_i h2 h1
          exact segsOk_snoc _ _ _ hacc (hpush (hE (by simpa using h1) (by simpa using h2))).1
    · intro hf
      have hda := hd hf
      split
      · have hs := shortenPath_drive scheme acc hda
        split
        · exact driveOk_snoc _ _ hs (fun _ h => by simp [wdl_nil] at h)
        · exact hs
      · split
        · split
          · exact driveOk_snoc _ _ hda (fun _ h => by simp [wdl_nil] at h)
          · exact hda
        · rename_i h2 h1
          exact driveOk_snoc _ _ hda ((hpush (hE (by simpa using h1) (by simpa using h2))).2 hf)

theorem pathState_ok (scheme : Bytes) (path0 : List Bytes) (text : Bytes)
    (h0 : SegsOk (isSpecialScheme scheme) path0) (hd : scheme = bFile → DriveOk path0) :
    SegsOk (isSpecialScheme scheme) (pathState scheme path0 text) ∧ (scheme = bFile → DriveOk (pathState scheme path0 text)) := by
  unfold pathState
  exact pathSegments_ok scheme _ path0 (splitPath_sepfree _ text) h0 hd

theorem segsOk_nil (sp : Bool) : SegsOk sp [] := by intro x hx; simp at hx
theorem driveOk_nil : DriveOk [] := by intro x hx; simp at hx

theorem pathStartState_ok (scheme : Bytes) (text : Bytes) :
    SegsOk (isSpecialScheme scheme) (pathStartState scheme text) ∧ (scheme = bFile → DriveOk (pathStartState scheme text)) := by
  have key := fun t => pathState_ok scheme [] t (segsOk_nil _) (fun _ => driveOk_nil)
  unfold pathStartState
  split
  · split
    · split <;> exact key _
    · exact key _
  · split
    · exact ⟨segsOk_nil _, fun _ => driveOk_nil⟩
    · split <;> exact key _

/-! ### assembling canonical records -/
theorem canon_mk_auth (idna : Idna) (scheme user pass : Bytes) (h : Host) (port : Option Nat) (path : List Bytes)
    (q : Option Bytes)
    (hs : schemeOk scheme = true)
    (hu : ∀ b ∈ user, inUserinfo b = false) (hpw : ∀ b ∈ pass, inUserinfo b = false)
    (hh : HostCanon idna (isSpecialScheme scheme) h) (hport : portOk scheme port)
    (hemp : (h = .empty ∨ scheme = bFile) → user = [] ∧ pass = [] ∧ port = none)
    (hsp : isSpecialScheme scheme = true → path ≠ [] ∧ (scheme ≠ bFile → h ≠ .empty))
    (hloc : scheme = bFile → h ≠ .domain bLocalhost)
    (hsegs : SegsOk (isSpecialScheme scheme) path) (hdrive : scheme = bFile → DriveOk path)
    (hq : ∀ x, q = some x → ∀ b ∈ x, (if isSpecialScheme scheme then inSpecialQuery b else inQuery b) = false) :
    Canon idna { scheme, username := user, password := pass, host := some h, port, path, query := q } where
  scheme := hs
  user := hu
  pass := hpw
  host := by intro h' hh'; injection hh' with e; subst e; exact hh
  port := hport
  nocred := by
    rintro (h1 | h1 | h1)
    · cases h1
    · injection h1 with e; exact hemp (Or.inl e)
    · exact hemp (Or.inr h1)
  special := fun hspec => ⟨rfl, (hsp hspec).1, h, rfl, (hsp hspec).2⟩
  file := by intro hf e; injection e with e; exact hloc hf e
  segs := fun _ => hsegs
  drive := hdrive
  nonopq := fun _ => ⟨rfl, fun h => by cases h⟩
  opq := fun h => by cases h
  query := hq
  frag := fun f hf => by cases hf

theorem not_file_of_not_special (scheme : Bytes) (hns : isSpecialScheme scheme = false) : scheme ≠ bFile := by
  intro e; subst e; simp [special_file] at hns

theorem canon_nohost_path (idna : Idna) (scheme : Bytes) (path : List Bytes)
    (hs : schemeOk scheme = true) (hns : isSpecialScheme scheme = false) (hne : path ≠ [])
    (hsegs : SegsOk (isSpecialScheme scheme) path) :
    Canon idna { scheme, path } where
  scheme := hs
  user := by simp
  pass := by simp
  host := fun h hh => by cases hh
  port := trivial
  nocred := fun _ => ⟨rfl, rfl, rfl⟩
  special := by
    intro hspec
    simp only [Url.isSpecial] at hspec
    rw [hns] at hspec; cases hspec
  file := fun hf => absurd hf (not_file_of_not_special scheme hns)
  segs := fun _ => hsegs
  drive := fun hf => absurd hf (not_file_of_not_special scheme hns)
  nonopq := fun _ => ⟨rfl, fun _ => hne⟩
  opq := fun h => by cases h
  query := fun x hx => by cases hx
  frag := fun f hf => by cases hf

theorem canon_opaque (idna : Idna) (scheme opath : Bytes) (q : Option Bytes)
    (hs : schemeOk scheme = true) (hns : isSpecialScheme scheme = false)
    (hb : ∀ b ∈ opath, inC0 b = false ∧ b ≠ 0x3F ∧ b ≠ 0x23) (hhd : opath.head? ≠ some 0x2F)
    (hlast : opath.getLast? ≠ some 0x20)
    (hq : ∀ x, q = some x → ∀ b ∈ x, inQuery b = false) :
    Canon idna { scheme, isOpaque := true, opath, query := q } where
  scheme := hs
  user := by simp
  pass := by simp
  host := fun h hh => by cases hh
  port := trivial
  nocred := fun _ => ⟨rfl, rfl, rfl⟩
  special := by
    intro hspec
    simp only [Url.isSpecial] at hspec
    rw [hns] at hspec; cases hspec
  file := fun hf => absurd hf (not_file_of_not_special scheme hns)
  segs := fun h => by cases h
  drive := fun hf => absurd hf (not_file_of_not_special scheme hns)
  nonopq := fun h => by cases h
  opq := fun _ => ⟨rfl, rfl, hb, hhd, hlast⟩
  query := by
    intro x hx b hb'
    simp only [Url.isSpecial, hns, Bool.false_eq_true, ↓reduceIte]
    exact hq x hx b hb'
  frag := fun f hf => by cases hf

/-! ### authority -/
theorem parseHostPort_can (idna : Idna) (hst : IdnaStable idna) (scheme hp : Bytes) (h : Host) (p : Option Nat)
    (hh : parseHostPort idna scheme hp = some (h, p)) :
    HostCanon idna (isSpecialScheme scheme) h ∧
    (isSpecialScheme scheme = true → h ≠ .empty) ∧
    (h = .empty → hp = [] ∧ p = none) ∧
    portOk scheme p := by
  unfold parseHostPort at hh
  simp only at hh
  split at hh
  · split at hh; · cases hh
    rename_i hne
    split at hh; · cases hh
    rename_i h' hp'
    split at hh; · cases hh
    rename_i port hport
    injection hh with hh; injection hh with h1 h2; subst h1; subst h2
    have ⟨hc, hnE⟩ := hostParse_canon idna hst _ _ h' (ne_nil_of_not_isEmpty hne) hp'
    simp only [Bool.not_not] at hc
    exact ⟨hc, fun _ => hnE, fun he => absurd he hnE, parsePort_ok _ _ _ hport⟩
  · split at hh
    · split at hh; · cases hh
      rename_i hemp hsp
      injection hh with hh; injection hh with h1 h2; subst h1; subst h2
      refine ⟨trivial, fun hs => absurd hs hsp, fun _ => ⟨by simpa using hemp, rfl⟩, trivial⟩
    · rename_i hne
      split at hh; · cases hh
      rename_i h' hp'
      injection hh with hh; injection hh with h1 h2; subst h1; subst h2
      have ⟨hc, hnE⟩ := hostParse_canon idna hst _ _ h' (ne_nil_of_not_isEmpty hne) hp'
      simp only [Bool.not_not] at hc
      exact ⟨hc, fun _ => hnE, fun he => absurd he hnE, trivial⟩

theorem userinfo_clean (s : Bytes) : ∀ b ∈ percentEncode inUserinfo s, inUserinfo b = false :=
  percentEncode_clean inUserinfo (fun b hb => (pctb_facts b hb).2.2.2.2.2.1) s

theorem credUser_clean (c : Option Bytes) : ∀ b ∈ credUser c, inUserinfo b = false := by
  cases c with
  | none => simp [credUser]
  | some c => exact userinfo_clean _
theorem credPass_clean (c : Option Bytes) : ∀ b ∈ credPass c, inUserinfo b = false := by
  cases c with
  | none => simp [credPass]
  | some c => exact userinfo_clean _

theorem parseAuthority_can (idna : Idna) (hst : IdnaStable idna) (scheme auth : Bytes) (a : Authority)
    (h : parseAuthority idna scheme auth = some a) :
    (∀ b ∈ a.username, inUserinfo b = false) ∧ (∀ b ∈ a.password, inUserinfo b = false) ∧
    HostCanon idna (isSpecialScheme scheme) a.host ∧
    (isSpecialScheme scheme = true → a.host ≠ .empty) ∧
    (a.host = .empty → a.username = [] ∧ a.password = [] ∧ a.port = none) ∧
    portOk scheme a.port := by
  unfold parseAuthority at h
  simp only at h
  split at h; · cases h
  rename_i hc
  split at h; · cases h
  rename_i hp hhp
  injection h with h; subst h
  obtain ⟨h1, h2, h3, h4⟩ := parseHostPort_can idna hst scheme _ hp.1 hp.2 (by simpa using hhp)
  refine ⟨credUser_clean _, credPass_clean _, h1, h2, ?_, h4⟩
  intro he
  obtain ⟨he1, he2⟩ := h3 he
  simp only
  rw [he1] at hc
  cases hcr : (splitCredentials auth).1 with
  | none => simp [credUser, credPass, he2]
  | some c => simp [hcr] at hc

theorem fromAuthority_can (idna : Idna) (hst : IdnaStable idna) (scheme text : Bytes) (u : Url) (hs : schemeOk scheme = true)
    (hnf : scheme ≠ bFile) (h : fromAuthority idna scheme text = some u) : Canon idna u := by
  unfold fromAuthority at h
  simp only at h
  split at h; · cases h
  rename_i a ha
  injection h with h; subst h
  obtain ⟨h1, h2, h3, h4, h5, h6⟩ := parseAuthority_can idna hst scheme _ a ha
  have hps := pathStartState_ok scheme (text.drop (authorityEnd (isSpecialScheme scheme) text))
  apply canon_mk_auth idna scheme _ _ _ _ _ none hs h1 h2 h3 h6
  · rintro (he | hf)
    · exact h5 he
    · exact absurd hf hnf
  · intro hsp; exact ⟨pathStartState_special_ne_nil _ _ hsp, fun _ => h4 hsp⟩
  · intro hf; exact absurd hf hnf
  · exact hps.1
  · exact hps.2
  · intro x hx; cases hx

/-! ### records that inherit from a base -/
theorem canon_rebase (idna : Idna) (b : Url) (hb : Canon idna b) (ho : b.isOpaque = false) (P : List Bytes)
    (hP : SegsOk b.isSpecial P) (hPd : b.scheme = bFile → DriveOk P)
    (hne : (b.isSpecial = true → P ≠ []) ∧ (b.host = none → P ≠ []))
    (q : Option Bytes) (hq : ∀ x, q = some x → ∀ c ∈ x, (if b.isSpecial then inSpecialQuery c else inQuery c) = false) :
    Canon idna { scheme := b.scheme, username := b.username, password := b.password, host := b.host, port := b.port,
                 path := P, query := q } where
  scheme := hb.scheme
  user := hb.user
  pass := hb.pass
  host := hb.host
  port := hb.port
  nocred := hb.nocred
  special := fun hs => ⟨rfl, hne.1 hs, (hb.special hs).2.2⟩
  file := hb.file
  segs := fun _ => hP
  drive := hPd
  nonopq := fun _ => ⟨rfl, hne.2⟩
  opq := fun h => by cases h
  query := hq
  frag := fun f hf => by cases hf

theorem canon_file_host (idna : Idna) (h : Host) (hh : HostCanon idna true h) (hloc : h ≠ .domain bLocalhost)
    (P : List Bytes) (hP : SegsOk true P) (hPd : DriveOk P) (hne : P ≠ []) :
    Canon idna { scheme := bFile, host := some h, path := P } := by
  apply canon_mk_auth idna bFile [] [] h none P none schemeOk_file (by simp) (by simp) (by rw [special_file]; exact hh) trivial
  · intro _; exact ⟨rfl, rfl, rfl⟩
  · intro _; exact ⟨hne, fun hc => absurd rfl hc⟩
  · intro _; exact hloc
  · rw [special_file]; exact hP
  · intro _; exact hPd
  · intro x hx; cases hx

theorem canon_file_from_base (idna : Idna) (b : Url) (hb : Canon idna b) (hf : b.scheme = bFile) (P : List Bytes)
    (hP : SegsOk true P) (hPd : DriveOk P) (hne : P ≠ []) (q : Option Bytes)
    (hq : ∀ x, q = some x → ∀ c ∈ x, inSpecialQuery c = false) :
    Canon idna { scheme := bFile, host := b.host, path := P, query := q } := by
  have hsp : b.isSpecial = true := by simp [Url.isSpecial, hf, special_file]
  obtain ⟨_, _, h, hh, _⟩ := hb.special hsp
  have hc := hb.host h hh
  rw [hsp] at hc
  rw [hh]
  apply canon_mk_auth idna bFile [] [] h none P q schemeOk_file (by simp) (by simp) (by rw [special_file]; exact hc) trivial
  · intro _; exact ⟨rfl, rfl, rfl⟩
  · intro _; exact ⟨hne, fun hc => absurd rfl hc⟩
  · intro _ e; exact hb.file hf (by rw [hh, e])
  · rw [special_file]; exact hP
  · intro _; exact hPd
  · intro x hx c hc'; simp only [special_file, ↓reduceIte]; exact hq x hx c hc'

theorem base_path_ok (idna : Idna) (b : Url) (hb : Canon idna b) (ho : b.isOpaque = false) :
    SegsOk b.isSpecial b.path ∧ (b.scheme = bFile → DriveOk b.path) :=
  ⟨hb.segs ho, hb.drive⟩

/-! ### file states -/
theorem fileHost_can (idna : Idna) (hst : IdnaStable idna) (text : Bytes) (u : Url) (h : fileHost idna text = some u) :
    Canon idna u := by
  have hsf : isSpecialScheme bFile = true := special_file
  have kps := fun t => pathState_ok bFile [] t (segsOk_nil _) (fun _ => driveOk_nil)
  have kpss := fun t => pathStartState_ok bFile t
  simp only [hsf] at kps kpss
  unfold fileHost at h
  simp only at h
  split at h
  · injection h with h; subst h
    exact canon_file_host idna .empty trivial (by simp) _ (kps _).1 ((kps _).2 trivial) (pathState_ne_nil _ _ _)
  · split at h
    · injection h with h; subst h
      exact canon_file_host idna .empty trivial (by simp) _ (kpss _).1 ((kpss _).2 trivial)
        (pathStartState_special_ne_nil _ _ special_file)
    · rename_i hne
      split at h; · cases h
      rename_i h' hp
      injection h with h; subst h
      have ⟨hc, _⟩ := hostParse_canon idna hst _ _ h' (ne_nil_of_not_isEmpty hne) hp
      simp only [Bool.not_false] at hc
      split
      · exact canon_file_host idna .empty trivial (by simp) _ (kpss _).1 ((kpss _).2 trivial)
          (pathStartState_special_ne_nil _ _ special_file)
      · rename_i hloc
        exact canon_file_host idna h' hc (by simpa using hloc) _ (kpss _).1 ((kpss _).2 trivial)
          (pathStartState_special_ne_nil _ _ special_file)

theorem file_base_facts (idna : Idna) (b : Url) (hb : Canon idna b) (hf : b.scheme = bFile) :
    b.isSpecial = true ∧ b.isOpaque = false ∧ SegsOk true b.path ∧ DriveOk b.path ∧ b.path ≠ [] ∧
    (∀ x, b.query = some x → ∀ c ∈ x, inSpecialQuery c = false) := by
  have hsp : b.isSpecial = true := by simp [Url.isSpecial, hf, special_file]
  obtain ⟨ho, hne, _⟩ := hb.special hsp
  have hs := hb.segs ho
  rw [hsp] at hs
  refine ⟨hsp, ho, hs, hb.drive hf, hne, ?_⟩
  intro x hx c hc
  have := hb.query x hx c hc
  simpa [hsp] using this

theorem fileSlashElse_can (idna : Idna) (base : Option Url) (text : Bytes) (u : Url)
    (hb : ∀ b, base = some b → Canon idna b)
    (h : fileSlash.fileSlashElse base text = some u) : Canon idna u := by
  have hsf : isSpecialScheme bFile = true := special_file
  unfold fileSlash.fileSlashElse at h
  split at h
  · rename_i b hbf
    obtain ⟨h1, h2⟩ := baseIsFile_spec base b hbf
    obtain ⟨_, _, hsegs, hdrive, _, _⟩ := file_base_facts idna b (hb b h1) h2
    injection h with h; subst h
    have hp0 : ∀ P0 : List Bytes, SegsOk true P0 → DriveOk P0 → Canon idna
        { scheme := bFile, host := b.host, path := pathState bFile P0 text } := by
      intro P0 s0 d0
      have k := pathState_ok bFile P0 text (by rw [hsf]; exact s0) (fun _ => d0)
      rw [hsf] at k
      exact canon_file_from_base idna b (hb b h1) h2 _ k.1 (k.2 rfl) (pathState_ne_nil _ _ _) none (fun x hx => by cases hx)
    apply hp0
    · split
      · split
        · rename_i p rest hpath
          split
          · intro x hx; simp at hx; subst hx; exact hsegs x (by rw [hpath]; simp)
          · exact segsOk_nil _
        · exact segsOk_nil _
      · exact segsOk_nil _
    · split
      · split
        · split
          · rename_i hn
            intro x hx _; simp at hx; subst hx; exact hn
          · exact driveOk_nil
        · exact driveOk_nil
      · exact driveOk_nil
  · injection h with h; subst h
    have k := pathState_ok bFile [] text (segsOk_nil _) (fun _ => driveOk_nil)
    rw [hsf] at k
    exact canon_file_host idna .empty trivial (by simp) _ k.1 (k.2 rfl) (pathState_ne_nil _ _ _)

theorem fileSlash_can (idna : Idna) (hst : IdnaStable idna) (base : Option Url) (text : Bytes) (u : Url)
    (hb : ∀ b, base = some b → Canon idna b)
    (h : fileSlash idna base text = some u) : Canon idna u := by
  unfold fileSlash at h
  split at h
  · split at h
    · exact fileHost_can idna hst _ u h
    · exact fileSlashElse_can idna base _ u hb h
  · exact fileSlashElse_can idna base _ u hb h

theorem fileElse_can (idna : Idna) (base : Option Url) (pre tail : Bytes) (hasQ hasF : Bool) (u : Url)
    (hb : ∀ b, base = some b → Canon idna b)
    (h : fileState.fileElse base pre tail hasQ hasF = some u) : Canon idna u := by
  have hsf : isSpecialScheme bFile = true := special_file
  unfold fileState.fileElse at h
  split at h
  · rename_i b hbf
    obtain ⟨h1, h2⟩ := baseIsFile_spec base b hbf
    obtain ⟨_, _, hsegs, hdrive, hne, hq⟩ := file_base_facts idna b (hb b h1) h2
    split at h
    · injection h with h; subst h
      apply canon_file_from_base idna b (hb b h1) h2 _ hsegs hdrive hne
      intro x hx
      split at hx
      · cases hx
      · split at hx <;> exact hq x hx
    · injection h with h; subst h
      have hp0 : ∀ P0 : List Bytes, SegsOk true P0 → DriveOk P0 → Canon idna
          { scheme := bFile, host := b.host, path := pathState bFile P0 pre } := by
        intro P0 s0 d0
        have k := pathState_ok bFile P0 pre (by rw [hsf]; exact s0) (fun _ => d0)
        rw [hsf] at k
        exact canon_file_from_base idna b (hb b h1) h2 _ k.1 (k.2 rfl) (pathState_ne_nil _ _ _) none (fun x hx => by cases hx)
      apply hp0
      · split
        · exact shortenPath_segs _ _ _ hsegs
        · exact segsOk_nil _
      · split
        · exact shortenPath_drive _ _ hdrive
        · exact driveOk_nil
  · injection h with h; subst h
    have k := pathState_ok bFile [] pre (segsOk_nil _) (fun _ => driveOk_nil)
    rw [hsf] at k
    exact canon_file_host idna .empty trivial (by simp) _ k.1 (k.2 rfl) (pathState_ne_nil _ _ _)

theorem fileState_can (idna : Idna) (hst : IdnaStable idna) (base : Option Url) (pre tail : Bytes) (hasQ hasF : Bool) (u : Url)
    (hb : ∀ b, base = some b → Canon idna b)
    (h : fileState idna base pre tail hasQ hasF = some u) : Canon idna u := by
  unfold fileState at h
  split at h
  · split at h
    · exact fileSlash_can idna hst base _ u hb h
    · exact fileElse_can idna base _ _ _ _ u hb h
  · exact fileElse_can idna base _ _ _ _ u hb h

/-! ### relative states -/
theorem relativeState_can (idna : Idna) (hst : IdnaStable idna) (b : Url) (pre : Bytes) (u : Url) (hb : Canon idna b)
    (ho : b.isOpaque = false) (hnf : b.scheme ≠ bFile) (h : relativeState idna b pre = some u) :
    Canon idna u := by
  have hso := hb.scheme
  have hbp := base_path_ok idna b hb ho
  have hre : ∀ P0 t, SegsOk b.isSpecial P0 → Canon idna
      { scheme := b.scheme, username := b.username, password := b.password, host := b.host, port := b.port,
        path := pathState b.scheme P0 t } := by
    intro P0 t s0
    have k := pathState_ok b.scheme P0 t s0 (fun hf => absurd hf hnf)
    exact canon_rebase idna b hb ho _ k.1 (fun hf => absurd hf hnf)
      ⟨fun _ => pathState_ne_nil _ _ _, fun _ => pathState_ne_nil _ _ _⟩ none (fun x hx => by cases hx)
  unfold relativeState at h
  simp only at h
  split at h
  · split at h
    · split at h
      · split at h
        · exact fromAuthority_can idna hst _ _ u hso hnf h
        · split at h
          · exact fromAuthority_can idna hst _ _ u hso hnf h
          · injection h with h; subst h
            exact hre [] _ (segsOk_nil _)
      · injection h with h; subst h
        exact hre [] _ (segsOk_nil _)
    · injection h with h; subst h
      exact hre _ _ (shortenPath_segs _ _ _ hbp.1)
  · injection h with h; subst h
    exact canon_rebase idna b hb ho _ hbp.1 hbp.2
      ⟨fun hs => (hb.special hs).2.1, fun hn => (hb.nonopq ho).2 hn⟩ _ hb.query

/-! ### opaque paths -/
theorem enc_last (s : Bytes) (h : s.getLast? ≠ some 0x20) : (percentEncode inC0 s).getLast? ≠ some 0x20 := by
  intro hl
  cases hp : s.getLast? with
  | none =>
    have : s = [] := by simpa using hp
    subst this; simp [percentEncode] at hl
  | some c =>
    have hc : c ≠ 0x20 := by intro e; subst e; exact h hp
    obtain ⟨init, rfl⟩ : ∃ init, s = init ++ [c] := by
      have hne : s ≠ [] := by intro e; subst e; simp at hp
      refine ⟨s.dropLast, ?_⟩
      have h1 := List.dropLast_concat_getLast hne
      have h2 : s.getLast hne = c := by
        rw [List.getLast?_eq_some_getLast hne] at hp; injection hp
      rw [h2] at h1; exact h1.symm
    have happ : percentEncode inC0 (init ++ [c]) = percentEncode inC0 init ++ percentEncode inC0 [c] := by
      simp [percentEncode, List.flatMap_append]
    rw [happ, List.getLast?_append] at hl
    have hlast : (percentEncode inC0 [c]).getLast? ≠ some 0x20 ∧ (percentEncode inC0 [c]).getLast? ≠ none := by
      simp only [percentEncode, List.flatMap_cons, List.flatMap_nil, List.append_nil]
      split
      · simp only [pctByte]
        have hx : ∀ n, n < 16 → hexUpper n ≠ 0x20 := by decide
        constructor
        · simp; exact hx _ (Nat.mod_lt _ (by decide))
        · simp
      · constructor
        · simpa using hc
        · simp
    cases hq : (percentEncode inC0 [c]).getLast? with
    | none => exact hlast.2 hq
    | some q => rw [hq] at hl; simp at hl; exact hlast.1 (by rw [hq, hl])

theorem opaquePathState_facts (rest : Bytes) (f : Bool) (hq : ∀ b ∈ rest, b ≠ 0x3F ∧ b ≠ 0x23)
    (hhd : rest.head? ≠ some 0x2F) (hl : f = false → rest.getLast? ≠ some 0x20) :
    (∀ b ∈ opaquePathState rest f, inC0 b = false ∧ b ≠ 0x3F ∧ b ≠ 0x23) ∧
    (opaquePathState rest f).head? ≠ some 0x2F ∧ (opaquePathState rest f).getLast? ≠ some 0x20 := by
  have hbytes : ∀ t : Bytes, (∀ b ∈ t, b ≠ 0x3F ∧ b ≠ 0x23) → ∀ b ∈ percentEncode inC0 t, inC0 b = false ∧ b ≠ 0x3F ∧ b ≠ 0x23 := by
    intro t ht b hb
    rcases mem_percentEncode inC0 t b hb with h | h
    · exact ⟨h.2, ht b h.1⟩
    · have := pctb_facts b h
      exact ⟨this.1, this.2.2.2.2.2.2.2.2.2.1, this.2.2.2.2.2.2.2.2.2.2⟩
  have hhead : ∀ t : Bytes, t.head? ≠ some 0x2F → (percentEncode inC0 t).head? ≠ some 0x2F := by
    intro t ht
    cases t with
    | nil => simp [percentEncode]
    | cons c r =>
      have hc : c ≠ 0x2F := by simpa using ht
      simp only [percentEncode, List.flatMap_cons]
      split
      · simp [pctByte]
      · simpa using hc
  unfold opaquePathState
  simp only
  split
  · rename_i hsp
    split
    · refine ⟨?_, ?_, by simp⟩
      · intro b hb
        rcases List.mem_append.mp hb with hb | hb
        · exact hbytes _ (fun x hx => hq x (List.dropLast_subset _ hx)) b hb
        · simp only [List.mem_cons, List.not_mem_nil, or_false] at hb
          rcases hb with rfl | rfl | rfl <;> decide
      · cases hd : rest.dropLast with
        | nil => simp [percentEncode]
        | cons c r =>
          have : (percentEncode inC0 (c :: r)).head? ≠ some 0x2F := by
            apply hhead
            have : rest.head? = some c := by
              cases rest with
              | nil => simp at hd
              | cons a t =>
                cases t with
                | nil => simp at hd
                | cons a2 t2 => simp [List.dropLast] at hd; simp [hd.1]
            rw [this] at hhd
            simpa using hhd
          have hne : percentEncode inC0 (c :: r) ≠ [] := percentEncode_ne_nil _ _ (by simp)
          cases hpe : percentEncode inC0 (c :: r) with
          | nil => exact absurd hpe hne
          | cons x y => rw [hpe] at this; simpa using this
    · rename_i hf
      have hf' : f = false := by simpa using hf
      exact absurd hsp (hl hf')
  · rename_i hns
    exact ⟨hbytes _ hq, hhead _ hhd, enc_last _ (by intro e; exact hns e)⟩

/-! ### the scheme cut -/
theorem takeScheme_suffix (s name rest : Bytes) (h : takeScheme s = some (name, rest)) : ∃ p, s = p ++ rest := by
  unfold takeScheme at h
  split at h
  · cases h
  · rename_i c t
    split at h
    · cases h
    · simp only at h
      split at h
      · rename_i r heq
        injection h with h; injection h with _ h2
        subst h2
        refine ⟨((c :: t).take ((c :: t).takeWhile isSchemeChar).length) ++ [0x3A], ?_⟩
        have := (List.take_append_drop ((c :: t).takeWhile isSchemeChar).length (c :: t)).symm
        rw [heq] at this
        exact this.trans (by rw [List.append_assoc]; rfl)
      · cases h

theorem suffix_last (p rest : Bytes) (hr : rest ≠ []) : (p ++ rest).getLast? = rest.getLast? := by
  rw [List.getLast?_append]
  cases h : rest.getLast? with
  | none => simp at h; exact absurd h hr
  | some x => rfl

theorem parseCore_can (idna : Idna) (hst : IdnaStable idna) (base : Option Url) (pre tail : Bytes) (hasQ hasF : Bool) (u : Url)
    (hb : ∀ b, base = some b → Canon idna b)
    (hq : ∀ b ∈ pre, b ≠ 0x3F ∧ b ≠ 0x23)
    (hl : (hasQ || hasF) = false → pre.getLast? ≠ some 0x20)
    (h : parseCore idna base pre tail hasQ hasF = some u) : Canon idna u := by
  unfold parseCore at h
  split at h
  · rename_i scheme rest hts
    have hso := takeScheme_ok _ _ _ hts
    obtain ⟨pfx, hpfx⟩ := takeScheme_suffix _ _ _ hts
    simp only at h
    split at h
    · exact fileState_can idna hst base _ _ _ _ u hb h
    · rename_i hnf
      have hnf' : scheme ≠ bFile := by simpa using hnf
      split at h
      · rename_i hsp
        split at h
        · rename_i b
          have hrb := hb b rfl
          split at h
          · rename_i hsame
            have hsame' : b.scheme = scheme := by simpa using hsame
            split at h
            · exact fromAuthority_can idna hst _ _ u hso hnf' h
            · split at h
              · cases h
              · rename_i hno
                exact relativeState_can idna hst b _ u hrb (by simpa using hno) (by rw [hsame']; exact hnf') h
          · exact fromAuthority_can idna hst _ _ u hso hnf' h
        · exact fromAuthority_can idna hst _ _ u hso hnf' h
      · rename_i hns
        have hns' : isSpecialScheme scheme = false := by simpa using hns
        split at h
        · exact fromAuthority_can idna hst _ _ u hso hnf' h
        · injection h with h; subst h
          refine canon_nohost_path idna scheme _ hso hns' (pathState_ne_nil _ _ _) ?_
          exact (pathState_ok scheme [] _ (segsOk_nil _) (fun hf => absurd hf hnf')).1
        · rename_i hn1 hn2
          injection h with h; subst h
          have hrq : ∀ b ∈ rest, b ≠ 0x3F ∧ b ≠ 0x23 := fun b hb' => hq b (by rw [hpfx]; simp [hb'])
          have hhd : rest.head? ≠ some 0x2F := by
            intro e
            cases rest with
            | nil => simp at e
            | cons c t =>
              have : c = 0x2F := by simpa using e
              subst this
              exact hn2 t rfl
          have hlast : (hasQ || hasF) = false → rest.getLast? ≠ some 0x20 := by
            intro hf
            by_cases hr : rest = []
            · subst hr; simp
            · rw [← suffix_last pfx rest hr, ← hpfx]; exact hl hf
          obtain ⟨f1, f2, f3⟩ := opaquePathState_facts rest (hasQ || hasF) hrq hhd hlast
          exact canon_opaque idna scheme _ none hso hns' f1 f2 f3 (fun x hx => by cases hx)
  · split at h
    · cases h
    · rename_i b
      have hrb := hb b rfl
      split at h
      · rename_i hop
        split at h
        · injection h with h; subst h
          obtain ⟨_, _, f1, f2, f3⟩ := hrb.opq hop
          have hns : isSpecialScheme b.scheme = false := by
            cases hx : isSpecialScheme b.scheme with
            | false => rfl
            | true =>
              have := (hrb.special hx).1
              rw [hop] at this; cases this
          apply canon_opaque idna b.scheme _ b.query hrb.scheme hns f1 f2 f3
          intro x hx c hc
          have := hrb.query x hx c hc
          simpa [Url.isSpecial, hns] using this
        · cases h
      · rename_i hno
        split at h
        · rename_i hnf
          exact relativeState_can idna hst b _ u hrb (by simpa using hno) (by simpa using hnf) h
        · exact fileState_can idna hst (some b) _ _ _ _ u hb h

/-! ### the whole parser -/
theorem cutAt_fst (c : UInt8) (s : Bytes) : c ∉ (cutAt c s).1 ∧ (∀ b ∈ (cutAt c s).1, b ∈ s) ∧
    ((cutAt c s).2 = none → (cutAt c s).1 = s) := by
  induction s with
  | nil => simp [cutAt]
  | cons b t ih =>
    simp only [cutAt]
    split
    · simp
    · rename_i hb
      obtain ⟨i1, i2, i3⟩ := ih
      refine ⟨?_, ?_, ?_⟩
      · intro hm
        simp only [List.mem_cons] at hm
        rcases hm with rfl | hm
        · simp at hb
        · exact i1 hm
      · intro x hx
        simp only [List.mem_cons] at hx ⊢
        rcases hx with rfl | hx
        · left; rfl
        · right; exact i2 x hx
      · intro hn
        simp only at hn ⊢
        rw [i3 hn]

theorem preprocess_last (input : Bytes) : ∀ l, (preprocess input).getLast? = some l → isC0OrSpace l = false := by
  intro l hl
  unfold preprocess at hl
  generalize hd : dropWhileEnd isC0OrSpace (input.dropWhile isC0OrSpace) = d at hl
  -- the last byte of `d` is not a C0 control or space
  have hdl : ∀ x, d.getLast? = some x → isC0OrSpace x = false := by
    intro x hx
    rw [← hd] at hx
    unfold dropWhileEnd at hx
    rw [List.getLast?_reverse] at hx
    have := List.head?_dropWhile_not isC0OrSpace (input.dropWhile isC0OrSpace).reverse
    rw [hx] at this
    simpa using this
  -- filtering keeps a last byte that passes the filter
  have hm := List.mem_of_getLast? hl
  have hlq : (!isTabOrNewline l) = true := (List.mem_filter.mp hm).2
  by_cases hne : d = []
  · subst hne; simp at hl
  · obtain ⟨init, x, rfl⟩ : ∃ init x, d = init ++ [x] := ⟨d.dropLast, d.getLast hne, (List.dropLast_concat_getLast hne).symm⟩
    have hx := hdl x (by simp)
    have hxq : (!isTabOrNewline x) = true := by
      have := c0sp_tn x hx
      simp [this]
    rw [List.filter_append] at hl
    simp only [List.filter_cons, hxq, ↓reduceIte, List.filter_nil, List.getLast?_append, List.getLast?_singleton,
      Option.some_or, Option.some.injEq] at hl
    subst hl; exact hx

theorem canon_set_query (idna : Idna) (u : Url) (hc : Canon idna u) (q : Bytes)
    (hq : ∀ b ∈ q, (if u.isSpecial then inSpecialQuery b else inQuery b) = false) :
    Canon idna { u with query := some q } :=
  ⟨hc.scheme, hc.user, hc.pass, hc.host, hc.port, hc.nocred, hc.special, hc.file, hc.segs, hc.drive, hc.nonopq, hc.opq,
   fun x hx => by injection hx with e; subst e; exact hq, hc.frag⟩

theorem canon_set_frag (idna : Idna) (u : Url) (hc : Canon idna u) (f : Bytes) (hf : ∀ b ∈ f, inFragment b = false) :
    Canon idna { u with fragment := some f } :=
  ⟨hc.scheme, hc.user, hc.pass, hc.host, hc.port, hc.nocred, hc.special, hc.file, hc.segs, hc.drive, hc.nonopq, hc.opq,
   hc.query, fun x hx => by injection hx with e; subst e; exact hf⟩

theorem encodeQuery_clean (sp : Bool) (q : Bytes) :
    ∀ b ∈ encodeQuery sp q, (if sp then inSpecialQuery b else inQuery b) = false := by
  unfold encodeQuery
  cases sp with
  | true => exact percentEncode_clean _ (fun b hb => (pctb_facts b hb).2.2.2.1) q
  | false => exact percentEncode_clean _ (fun b hb => (pctb_facts b hb).2.2.1) q

/-- every record the parser returns is canonical, for every input and every canonical base -/
theorem parse_can (idna : Idna) (hst : IdnaStable idna) (input : Bytes) (base : Option Url) (u : Url)
    (hb : ∀ b, base = some b → Canon idna b)
    (h : parse idna input base = some u) : Canon idna u := by
  unfold parse at h
  have c1 := cutAt_fst 0x23 (preprocess input)
  have c2 := cutAt_fst 0x3F (cutAt 0x23 (preprocess input)).1
  simp only at h
  split at h; · cases h
  rename_i u0 hc0
  have h0 : Canon idna u0 := by
    apply parseCore_can idna hst base _ _ _ _ u0 hb _ _ hc0
    · intro b hb'
      refine ⟨fun e => c2.1 (e ▸ hb'), fun e => c1.1 (e ▸ c2.2.1 b hb')⟩
    · intro hqf
      simp only [Bool.or_eq_false_iff, Option.isSome_eq_false_iff, Option.isNone_iff_eq_none] at hqf
      have e1 := c2.2.2 hqf.1
      have e2 := c1.2.2 hqf.2
      rw [e1, e2]
      intro e
      have := preprocess_last input 0x20 e
      simp [isC0OrSpace] at this
  injection h with h; subst h
  have hfr := percentEncode_clean inFragment (fun b hb' => (pctb_facts b hb').2.1)
  generalize (cutAt 0x3F (cutAt 0x23 (preprocess input)).fst).snd = query
  generalize (cutAt 0x23 (preprocess input)).snd = frag
  cases query with
  | none =>
    cases frag with
    | none => exact h0
    | some f => exact canon_set_frag idna u0 h0 _ (hfr f)
  | some q =>
    have h1 := canon_set_query idna u0 h0 _ (encodeQuery_clean u0.isSpecial q)
    cases frag with
    | none => exact h1
    | some f => exact canon_set_frag idna _ h1 _ (hfr f)

end AdaVerif.Lemmas.PC

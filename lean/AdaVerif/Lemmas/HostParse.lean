import AdaVerif.Model.HostParse
import AdaVerif.Lemmas.Kern4
import AdaVerif.Lemmas.KernIs4
import AdaVerif.Lemmas.Kern6Main
import AdaVerif.Lemmas.Kern6Ser
import AdaVerif.Lemmas.HostCanon
import AdaVerif.Lemmas.FastSpec
import AdaVerif.Lemmas.FastNumber
import AdaVerif.Props.C11
/-
`url::parse_host` and `url_aggregator::parse_host` (Model/HostParse.lean) are the Standard's host parser: same failures,
same host text, and `host_type` says which kind of host the Standard's parser produced.
-/
namespace AdaVerif.Lemmas.HP
open AdaVerif AdaVerif.Spec AdaVerif.Lemmas AdaVerif.Model.HostKernels AdaVerif.Model.HostParse AdaVerif.Model.FastScan

/-! ### the pure-decimal shortcut -/
/-- what `try_parse_ipv4_fast` accepts is an IPv4 address whose serialisation is the text itself (without a trailing dot) -/
theorem fast_text (t : Bytes) (ip : Nat) (h : ipv4Decimal t = some ip) :
    ∃ a, ipv4Parse t = some a ∧ ipv4Serialize a = (if t.getLast? == some 0x2E then t.dropLast else t) := by
  unfold ipv4Decimal at h
  split at h; · cases h
  rename_i va p1 h1
  split at h <;> try cases h
  rename_i p1'
  split at h; · cases h
  rename_i vb p2 h2
  split at h <;> try cases h
  rename_i p2'
  split at h; · cases h
  rename_i vc p3 h3
  split at h <;> try cases h
  rename_i p3'
  split at h; · cases h
  rename_i vd p4 h4
  obtain ⟨da, e1, _, u1, n1, l1⟩ := K4.decPart_pure _ _ _ h1
  obtain ⟨db, e2, _, u2, n2, l2⟩ := K4.decPart_pure _ _ _ h2
  obtain ⟨dc, e3, _, u3, n3, l3⟩ := K4.decPart_pure _ _ _ h3
  obtain ⟨dd, e4, ne4, u4, n4, l4⟩ := K4.decPart_pure _ _ _ h4
  have nodot : ∀ ds : Bytes, K4.pureDec ds = true → (0x2E : UInt8) ∉ ds := by
    intro ds hp hm
    simp only [K4.pureDec, Bool.and_eq_true, List.all_eq_true] at hp
    have := hp.1 _ hm
    simp [isDigit] at this
  have hfront : ([va, vb, vc].any fun x => decide (x > 255)) = false := by
    simp only [List.any_cons, List.any_nil, Bool.or_false, Bool.or_eq_false_iff, decide_eq_false_iff_not]; omega
  have hlast : ¬ vd ≥ 256 ^ (5 - 4) := by simp; omega
  have hspec : K4.specParts [da, db, dc, dd] = some (ipv4Parse.go [va, vb, vc] 0 vd) := by
    simp [K4.specParts, n1, n2, n3, n4, hfront, hlast]
  have hpc : K4.pcSum [da, db, dc, dd] = 4 := by simp [K4.pcSum, K4.pc1, u1, u2, u3, u4]
  have htext := K4.pc4_text [da, db, dc, dd] _ hspec hpc
  have hjoin : joinWith 0x2E [da, db, dc, dd] = da ++ 0x2E :: (db ++ 0x2E :: (dc ++ 0x2E :: dd)) := by simp [joinWith]
  have hddl : dd.getLast? ≠ some 0x2E := by
    intro hl
    exact nodot dd u4 (List.mem_of_getLast? hl)
  have hbody : (da ++ 0x2E :: (db ++ 0x2E :: (dc ++ 0x2E :: dd))).getLast? ≠ some 0x2E := by
    have : da ++ 0x2E :: (db ++ 0x2E :: (dc ++ 0x2E :: dd)) = (da ++ 0x2E :: (db ++ 0x2E :: (dc ++ [0x2E]))) ++ dd := by simp
    rw [this, List.getLast?_append]
    cases hdl : dd.getLast? with
    | none => exact absurd (List.getLast?_eq_none_iff.mp hdl) ne4
    | some x =>
      rw [hdl] at hddl
      simpa using hddl
  refine ⟨ipv4Parse.go [va, vb, vc] 0 vd, ?_, ?_⟩
  · rw [K4.ipv4Parse_parts]
    simp only at h
    split at h
    · have hsp : splitOn 0x2E t = [da, db, dc, dd] := by
        rw [e1, e2, e3, e4, List.append_nil, splitOn_append _ _ _ (nodot da u1), splitOn_append _ _ _ (nodot db u2),
          splitOn_append _ _ _ (nodot dc u3), splitOn_no_sep _ _ (nodot dd u4)]
      have hne : (some dd == some ([] : Bytes)) = false := by simpa using ne4
      simp [hsp, hne, hspec]
    · have hsp : splitOn 0x2E t = [da, db, dc, dd, []] := by
        rw [e1, e2, e3, e4, splitOn_append _ _ _ (nodot da u1), splitOn_append _ _ _ (nodot db u2),
          splitOn_append _ _ _ (nodot dc u3), splitOn_append _ _ _ (nodot dd u4)]
        rfl
      simp [hsp, hspec]
    · cases h
  · rw [← htext, hjoin]
    simp only at h
    split at h
    · have ht : t = da ++ 0x2E :: (db ++ 0x2E :: (dc ++ 0x2E :: dd)) := by rw [e1, e2, e3, e4, List.append_nil]
      rw [← ht] at hbody ⊢
      have : (t.getLast? == some 0x2E) = false := by simpa using hbody
      simp [this]
    · have ht : t = (da ++ 0x2E :: (db ++ 0x2E :: (dc ++ 0x2E :: dd))) ++ [0x2E] := by rw [e1, e2, e3, e4]; simp
      generalize da ++ 0x2E :: (db ++ 0x2E :: (dc ++ 0x2E :: dd)) = B at ht ⊢
      rw [ht, List.getLast?_concat]
      simp [List.dropLast_concat]
    · cases h

/-! ### the forbidden-code-point scans -/
def TD (b : UInt8) : Nat := tget Gen.forbiddenDomainTable b.toNat
def TU (b : UInt8) : Nat := tget Gen.forbiddenDomainOrUpperTable b.toNat

theorem cfd_fold (l : Bytes) (acc : Nat) : containsForbiddenDomain l acc = (l.foldl (fun acc x => acc ||| TD x) acc != 0) := by
  fun_induction containsForbiddenDomain l acc with
  | case1 a b c d rest acc ih =>
    rw [ih]
    simp only [List.foldl_cons, TD]
  | case2 l acc hne => rfl

theorem cfu_fold (l : Bytes) (acc : Nat) : containsForbiddenOrUpper l acc = l.foldl (fun acc x => acc ||| TU x) acc := by
  fun_induction containsForbiddenOrUpper l acc with
  | case1 a b c d rest acc ih =>
    rw [ih]
    simp only [List.foldl_cons, TU]
  | case2 l acc hne => rfl

theorem foldOr_zero (f : UInt8 → Nat) (l : Bytes) (acc : Nat) :
    (l.foldl (fun acc x => acc ||| f x) acc = 0) ↔ (acc = 0 ∧ ∀ x ∈ l, f x = 0) := by
  induction l generalizing acc with
  | nil => simp
  | cons x t ih =>
    simp only [List.foldl_cons, ih, Nat.or_eq_zero_iff, List.mem_cons, forall_eq_or_imp]
    constructor
    · rintro ⟨⟨h1, h2⟩, h3⟩; exact ⟨h1, h2, h3⟩
    · rintro ⟨h1, h2, h3⟩; exact ⟨⟨h1, h2⟩, h3⟩

/-- `contains_forbidden_domain_code_point` says whether some byte is a forbidden domain code point -/
theorem cfd_any (l : Bytes) : containsForbiddenDomain l 0 = l.any isForbiddenDomainCp := by
  rw [cfd_fold]
  cases h : l.any isForbiddenDomainCp
  · have hz : ∀ x ∈ l, TD x = 0 := by
      intro x hx
      have := (List.any_eq_false.mp h) x hx
      simpa [isForbiddenDomainCp, TD] using this
    have := (foldOr_zero TD l 0).mpr ⟨rfl, hz⟩
    simp [this]
  · obtain ⟨x, hx, hfx⟩ := List.any_eq_true.mp h
    have : l.foldl (fun acc x => acc ||| TD x) 0 ≠ 0 := by
      intro hz
      have := ((foldOr_zero TD l 0).mp hz).2 x hx
      simp [isForbiddenDomainCp, TD] at hfx
      exact hfx this
    simpa using this

theorem or_bits2 : ∀ acc : Fin 4, ∀ t : Fin 3,
    (acc.val ||| t.val) < 4 ∧
    (((acc.val ||| t.val) &&& 1 ≠ 0) ↔ (acc.val &&& 1 ≠ 0 ∨ t.val = 1)) ∧
    (((acc.val ||| t.val) &&& 2 ≠ 0) ↔ (acc.val &&& 2 ≠ 0 ∨ t.val = 2)) := by decide

/-- the three tables agree byte by byte -/
theorem TU_facts : ∀ b : UInt8, TU b ≤ 2 ∧
    (TU b = 0 → toLowerByte b = b ∧ isForbiddenDomainCp b = false) ∧
    (TU b = 2 → isForbiddenDomainCp (toLowerByte b) = false) ∧
    (TU b = 1 → isForbiddenDomainCp (toLowerByte b) = true) := by
  unfold TU isForbiddenDomainCp; apply forall_uint8_of_fin; decide +kernel

structure UFacts (l : Bytes) (acc : Nat) : Prop where
  lt : acc < 4
  b1 : acc &&& 1 ≠ 0 ↔ ∃ b ∈ l, TU b = 1
  b2 : acc &&& 2 ≠ 0 ↔ ∃ b ∈ l, TU b = 2

theorem ufacts_fold (l pre : Bytes) (acc : Nat) (h : UFacts pre acc) :
    UFacts (pre ++ l) (l.foldl (fun acc x => acc ||| TU x) acc) := by
  induction l generalizing pre acc with
  | nil => simpa using h
  | cons x t ih =>
    simp only [List.foldl_cons]
    have hx3 : TU x < 3 := by have := (TU_facts x).1; omega
    have key := or_bits2 ⟨acc, h.lt⟩ ⟨TU x, hx3⟩
    simp only at key
    have hs : UFacts (pre ++ [x]) (acc ||| TU x) := by
      refine ⟨key.1, ?_, ?_⟩
      · rw [key.2.1, h.b1]; constructor
        · rintro (⟨b, hb, e⟩ | e)
          · exact ⟨b, by simp [hb], e⟩
          · exact ⟨x, by simp, e⟩
        · rintro ⟨b, hb, e⟩
          simp only [List.mem_append, List.mem_singleton] at hb
          rcases hb with hb | rfl
          · exact Or.inl ⟨b, hb, e⟩
          · exact Or.inr e
      · rw [key.2.2, h.b2]; constructor
        · rintro (⟨b, hb, e⟩ | e)
          · exact ⟨b, by simp [hb], e⟩
          · exact ⟨x, by simp, e⟩
        · rintro ⟨b, hb, e⟩
          simp only [List.mem_append, List.mem_singleton] at hb
          rcases hb with hb | rfl
          · exact Or.inl ⟨b, hb, e⟩
          · exact Or.inr e
    have := ih (pre ++ [x]) _ hs
    simpa using this

theorem ufacts (l : Bytes) : UFacts l (containsForbiddenOrUpper l 0) := by
  rw [cfu_fold]
  have := ufacts_fold l [] 0 ⟨by decide, by simp, by simp⟩
  simpa using this

theorem fin4_cases : ∀ v : Fin 4, (v.val = 0 ↔ (v.val &&& 1 = 0 ∧ v.val &&& 2 = 0)) ∧ (v.val = 2 ↔ (v.val &&& 1 = 0 ∧ v.val &&& 2 ≠ 0)) := by
  decide

/-- **the two scans make the same decision**: `url_aggregator::parse_host` (forbidden-or-upper scan on the text as given)
    and `url::parse_host` (forbidden scan on a lower-cased copy) take the same route with the same text -/
theorem parseHostA_eq (idna : Idna) (special : Bool) (input : Bytes) : parseHostA idna special input = parseHost idna special input := by
  unfold parseHostA parseHost
  by_cases he : input.isEmpty = true
  · simp [he]
  simp only [he, Bool.false_eq_true, ↓reduceIte]
  by_cases hb : (input.head? == some 0x5B) = true
  · simp only [hb, ↓reduceIte]
  simp only [hb, Bool.false_eq_true, ↓reduceIte]
  by_cases hs : special = true
  · simp only [hs, Bool.not_true, Bool.false_eq_true, ↓reduceIte]
    by_cases hf : (ipv4Fast input).isSome = true
    · simp only [hf, ↓reduceIte]
    simp only [hf, Bool.false_eq_true, ↓reduceIte]
    have hu := ufacts input
    have hc := fin4_cases ⟨containsForbiddenOrUpper input 0, hu.lt⟩
    simp only at hc
    rw [cfd_any]
    by_cases h1 : ∃ b ∈ input, TU b = 1
    · -- a forbidden byte: both go to to_ascii
      have hbit : containsForbiddenOrUpper input 0 &&& 1 ≠ 0 := hu.b1.mpr h1
      have n0 : (containsForbiddenOrUpper input 0 == 0) = false := by
        have : containsForbiddenOrUpper input 0 ≠ 0 := fun e => hbit (hc.1.mp e).1
        simpa using this
      have n2 : (containsForbiddenOrUpper input 0 == 2) = false := by
        have : containsForbiddenOrUpper input 0 ≠ 2 := fun e => hbit (hc.2.mp e).1
        simpa using this
      obtain ⟨b, hbm, hb1⟩ := h1
      have hany : (input.map toLowerByte).any isForbiddenDomainCp = true := by
        simp only [List.any_map, List.any_eq_true, Function.comp]
        exact ⟨b, hbm, (TU_facts b).2.2.2 hb1⟩
      simp [n0, n2, hany]
    · have hbit : containsForbiddenOrUpper input 0 &&& 1 = 0 := by
        by_cases hx : containsForbiddenOrUpper input 0 &&& 1 = 0
        · exact hx
        · exact absurd (hu.b1.mp hx) h1
      have hclean : (input.map toLowerByte).any isForbiddenDomainCp = false := by
        simp only [List.any_map, List.any_eq_false, Function.comp]
        intro b hbm
        have hle := (TU_facts b).1
        have hne1 : TU b ≠ 1 := fun e => h1 ⟨b, hbm, e⟩
        have : TU b = 0 ∨ TU b = 2 := by omega
        rcases this with e | e
        · have := (TU_facts b).2.1 e
          rw [this.1]; simp [this.2]
        · simp [(TU_facts b).2.2.1 e]
      by_cases h2 : ∃ b ∈ input, TU b = 2
      · have e2 : containsForbiddenOrUpper input 0 = 2 := hc.2.mpr ⟨hbit, hu.b2.mpr h2⟩
        simp [e2, hclean]
      · have hb2 : containsForbiddenOrUpper input 0 &&& 2 = 0 := by
          by_cases hx : containsForbiddenOrUpper input 0 &&& 2 = 0
          · exact hx
          · exact absurd (hu.b2.mp hx) h2
        have e0 : containsForbiddenOrUpper input 0 = 0 := hc.1.mpr ⟨hbit, hb2⟩
        have hid : input.map toLowerByte = input := by
          have : ∀ b ∈ input, toLowerByte b = b := by
            intro b hbm
            have hle := (TU_facts b).1
            have hne1 : TU b ≠ 1 := fun e => h1 ⟨b, hbm, e⟩
            have hne2 : TU b ≠ 2 := fun e => h2 ⟨b, hbm, e⟩
            exact ((TU_facts b).2.1 (by omega)).1
          calc input.map toLowerByte = input.map id := List.map_congr_left this
            _ = input := List.map_id _
        rw [hid] at hclean
        simp [e0, hclean, hid]
  · simp [hs]

/-! ### tables, lower-casing, `xn-` -/
theorem cp_tables : ∀ b : UInt8,
    isForbiddenDomainCp b = (isForbiddenDomain b || decide (b.toNat ≥ 128)) ∧ isForbiddenHostCp b = isForbiddenHost b ∧
    isForbiddenDomainCp (toLowerByte b) = isForbiddenDomainCp b ∧ (isAsciiUpper (toLowerByte b) = false) := by
  unfold isForbiddenDomainCp isForbiddenHostCp; apply forall_uint8_of_fin; decide +kernel

theorem xn_lower : ∀ a : UInt8, ((a == 0x78 || a == 0x58) → toLowerByte a = 0x78) ∧ ((a == 0x6E || a == 0x4E) → toLowerByte a = 0x6E) ∧
    toLowerByte 0x2D = 0x2D := by
  apply forall_uint8_of_fin; decide +kernel

theorem hasXn_prefix (p : Bytes) (r : Bytes) : hasXnDash (p ++ 0x78 :: 0x6E :: 0x2D :: r) = true := by
  induction p with
  | nil => simp [hasXnDash]
  | cons a t ih =>
    cases t with
    | nil => simp only [List.cons_append, List.nil_append] at ih ⊢; unfold hasXnDash; simp [ih]
    | cons b t' =>
      cases t' with
      | nil => simp only [List.cons_append, List.nil_append] at ih ⊢; unfold hasXnDash; simp [ih]
      | cons c t'' => simp only [List.cons_append] at ih ⊢; unfold hasXnDash; simp [ih]

theorem mem_join_infix (sep : UInt8) (parts : List Bytes) (l : Bytes) (h : l ∈ parts) :
    ∃ p q, joinWith sep parts = p ++ l ++ q := by
  induction parts with
  | nil => cases h
  | cons a rest ih =>
    cases rest with
    | nil =>
      simp only [List.mem_singleton] at h; subst h
      exact ⟨[], [], by simp [joinWith]⟩
    | cons b rest' =>
      simp only [List.mem_cons] at h
      rcases h with rfl | h
      · exact ⟨[], sep :: joinWith sep (b :: rest'), by simp [joinWith]⟩
      · obtain ⟨p, q, e⟩ := ih (by simpa using h)
        exact ⟨l.take 0 ++ a ++ sep :: p, q, by simp [joinWith, e]⟩

/-- no "xn-" in the lower-cased text: no label starts with "xn--" in whatever case -/
theorem noxn_of_scan (s : Bytes) (h : hasXnDash (s.map toLowerByte) = false) : (splitOn 0x2E s).any startsWithXn = false := by
  cases hx : (splitOn 0x2E s).any startsWithXn with
  | false => rfl
  | true =>
    exfalso
    obtain ⟨l, hl, hst⟩ := List.any_eq_true.mp hx
    obtain ⟨p, q, e⟩ := mem_join_infix 0x2E _ l hl
    rw [FS.join_split] at e
    unfold startsWithXn at hst
    split at hst
    · rename_i a b c d r
      simp only [Bool.and_eq_true, beq_iff_eq] at hst
      obtain ⟨⟨⟨ha, hb⟩, hc⟩, hd⟩ := hst
      subst hc
      have e1 := (xn_lower a).1 (by simpa using ha)
      have e2 := (xn_lower b).2.1 (by simpa using hb)
      have e3 := (xn_lower 0).2.2
      have : s.map toLowerByte = p.map toLowerByte ++ 0x78 :: 0x6E :: 0x2D :: (toLowerByte d :: r.map toLowerByte ++ q.map toLowerByte) := by
        rw [e]; simp [e1, e2, e3]
      rw [this, hasXn_prefix] at h
      cases h
    · cases hst

/-! ### percent decoding -/
theorem takeWhile_all (p : UInt8 → Bool) (s : Bytes) : ∀ b ∈ s.takeWhile p, p b = true := by
  induction s with
  | nil => intro b hb; simp at hb
  | cons a t ih =>
    intro b hb
    by_cases ha : p a = true
    · simp only [List.takeWhile_cons, ha, ↓reduceIte, List.mem_cons] at hb
      rcases hb with rfl | hb
      · exact ha
      · exact ih b hb
    · simp [List.takeWhile_cons, ha] at hb

theorem decode_model (input : Bytes) : Model.percentDecode input (findPercent input) = Spec.percentDecode input := by
  unfold findPercent
  simp only
  split
  · apply Props.C11.decoder_from_first_percent
    intro b hb
    have : input.take (input.takeWhile (· != 0x25)).length = input.takeWhile (· != 0x25) := by
      have := List.takeWhile_prefix (p := (· != 0x25)) (l := input)
      exact List.prefix_iff_eq_take.mp this |>.symm
    rw [this] at hb
    have := takeWhile_all _ _ b hb
    simpa using this
  · rename_i hlt
    have hlen : (input.takeWhile (· != 0x25)).length = input.length := by
      have := (List.takeWhile_prefix (p := (· != 0x25)) (l := input)).length_le
      omega
    have heq : input.takeWhile (· != 0x25) = input := by
      have hp := List.takeWhile_prefix (p := (· != 0x25)) (l := input)
      exact hp.eq_of_length hlen
    simp only [Model.percentDecode]
    symm
    apply percentDecode_no_pct
    intro b hb
    rw [← heq] at hb
    have := takeWhile_all _ _ b hb
    simpa using this

/-! ### the Standard's host parser -/
/-- `host_type` of a host of the Standard: 1 = IPv4, 2 = IPv6, 0 = anything else -/
def kindOf : Host → Nat
  | .ipv4 _ => 1
  | .ipv6 _ => 2
  | _ => 0
/-- what the C++ object stores for a host of the Standard: its serialisation and its kind -/
def viewH (h : Host) : Bytes × Nat := (h.serialize, kindOf h)

/-- what is assumed of `ada::idna::to_ascii` at the one domain it is asked about: ASCII lower-case output, and the URL
    Standard's rule that an all-ASCII domain without an ACE label is just lower-cased (decided per input by C06) -/
structure IdnaAt (idna : Idna) (d : Bytes) : Prop where
  asciiOut : ∀ o, idna.toAscii d = some o → ∀ b ∈ o, b.toNat < 128
  lowerOut : ∀ o, idna.toAscii d = some o → ∀ b ∈ o, isAsciiUpper b = false
  asciiRule : isAsciiBytes d = true → (splitOn 0x2E d).any startsWithXn = false → idna.toAscii d = some (d.map toLowerByte)

theorem parseIpv4_after (s : Bytes) (hs : s ≠ []) (hlow : ∀ b ∈ s, isAsciiUpper b = false) (h : isIpv4 s = true) :
    parseIpv4 s = (ipv4Parse s).map ipv4Serialize := by
  apply K4.parseIpv4_eq
  intro hdot
  rw [K4.isIpv4_eq s hs hlow, K4.endsInANumber_view s _ hs rfl] at h
  generalize (if s.getLast? == some 0x2E then s.dropLast else s) = view at hdot h
  split at h; · cases h
  have hv := K4.snoc_of_getLast?' view 0x2E hdot
  rw [hv, K4.splitOn_snoc_sep] at h
  simp [K4.decision_nil] at h

/-- `is_ipv4` then `parse_ipv4` on an accepted lower-case text: the Standard's "ends in a number → IPv4 parser" step -/
theorem ipv4OrDomain_spec (host : Bytes) (hne : host ≠ []) (hlow : ∀ b ∈ host, isAsciiUpper b = false) :
    ipv4OrDomain host = (if endsInANumber host then (ipv4Parse host).map Host.ipv4 else some (.domain host)).map viewH := by
  unfold ipv4OrDomain
  rw [K4.isIpv4_eq host hne hlow]
  by_cases he : endsInANumber host = true
  · have hi : isIpv4 host = true := by rw [K4.isIpv4_eq host hne hlow]; exact he
    simp only [he, ↓reduceIte, parseIpv4_after host hne hlow hi]
    cases ipv4Parse host <;> simp [viewH, kindOf, Host.serialize]
  · simp [he, viewH, kindOf, Host.serialize]

theorem any_ext (l : Bytes) (p q : UInt8 → Bool) (h : ∀ b ∈ l, p b = q b) : l.any p = l.any q := by
  induction l with
  | nil => rfl
  | cons a t ih =>
    simp only [List.any_cons, h a (by simp), ih (fun b hb => h b (by simp [hb]))]

theorem hasXn_needs_x (s : Bytes) (h : ∀ b ∈ s, b ≠ 0x78) : hasXnDash s = false := by
  match s with
  | [] => rfl
  | [_] => rfl
  | [_, _] => rfl
  | a :: b :: c :: rest =>
    unfold hasXnDash
    have ha : (a == 0x78) = false := by simpa using h a (by simp)
    simp only [ha, Bool.false_and, Bool.false_or]
    exact hasXn_needs_x (b :: c :: rest) (fun x hx => h x (by simp [hx]))

theorem hostText_of_scan (input : Bytes) (hne : input ≠ []) (hclean : (input.map toLowerByte).any isForbiddenDomainCp = false)
    (hxn : hasXnDash (input.map toLowerByte) = false) : FS.HostText input := by
  have hb : ∀ b ∈ input, isForbiddenDomain b = false ∧ b.toNat < 128 := by
    intro b hbm
    have := (List.any_eq_false.mp hclean) (toLowerByte b) (List.mem_map.mpr ⟨b, hbm, rfl⟩)
    rw [(cp_tables b).2.2.1, (cp_tables b).1] at this
    simp only [Bool.not_eq_true, Bool.or_eq_false_iff, decide_eq_false_iff_not] at this
    exact ⟨this.1, by omega⟩
  exact ⟨hne, fun b hbm => (hb b hbm).2, fun b hbm => (hb b hbm).1, noxn_of_scan input hxn⟩

theorem dd_bytes : ∀ b : UInt8, (isAsciiDigit b = true ∨ b = 0x2E) →
    isForbiddenDomainCp (toLowerByte b) = false ∧ toLowerByte b = b ∧ b ≠ 0x78 := by
  unfold isForbiddenDomainCp; apply forall_uint8_of_fin; decide +kernel

/-- **`url::parse_host` is the Standard's host parser** (failures, host text, host kind) -/
theorem parseHost_eq (idna : Idna) (special : Bool) (input : Bytes) (hne : input ≠ [])
    (hid : IdnaAt idna (Spec.percentDecode input)) :
    parseHost idna special input = (hostParse idna input (!special)).map viewH := by
  unfold parseHost
  have hie : input.isEmpty = false := FS.isEmpty_false_of_ne hne
  simp only [hie, Bool.false_eq_true, ↓reduceIte]
  cases input with
  | nil => exact absurd rfl hne
  | cons c rest =>
  by_cases hc : c = 0x5B
  · -- an IPv6 literal
    subst hc
    simp only [List.head?_cons, beq_self_eq_true, ↓reduceIte, List.drop_succ_cons, List.drop_zero]
    unfold hostParse
    simp only
    have hl : (0x5B :: rest : Bytes).getLast? = if rest = [] then some 0x5B else rest.getLast? := by
      cases rest with
      | nil => simp
      | cons r rs => simp [List.getLast?_cons_cons]
    rw [hl]
    cases rest with
    | nil => simp
    | cons r rs =>
      simp only [reduceCtorEq, ↓reduceIte]
      by_cases hlast : ((r :: rs).getLast? != some 0x5D) = true
      · simp [hlast]
      · simp only [hlast, Bool.false_eq_true, ↓reduceIte, K6.parseIpv6_eq]
        cases hp : ipv6Parse (r :: rs).dropLast with
        | none => simp
        | some a =>
          obtain ⟨h8, hb⟩ := HC.ipv6Parse_shape _ a hp
          simp [viewH, kindOf, Host.serialize, K6.serIpv6_eq a h8 hb]
  · have hcb : (some c == some (0x5B : UInt8)) = false := by simpa using hc
    simp only [List.head?_cons, hcb, Bool.false_eq_true, ↓reduceIte]
    have hspec : hostParse idna (c :: rest) (!special) =
        (if (!special) = true then opaqueHostParse (c :: rest)
         else match domainToAscii idna (Spec.percentDecode (c :: rest)) with
           | none => none
           | some ascii =>
             if ascii.any isForbiddenDomain then none
             else if endsInANumber ascii then (ipv4Parse ascii).map Host.ipv4
             else some (.domain ascii)) := by
      unfold hostParse
      split
      · rename_i r heq; injection heq with e _; exact absurd e hc
      · rfl
    by_cases hs : special = true
    · subst hs
      simp only [Bool.not_true, Bool.false_eq_true, ↓reduceIte] at hspec ⊢
      by_cases hf : (ipv4Fast (c :: rest)).isSome = true
      · -- the pure-decimal shortcut
        simp only [hf, ↓reduceIte]
        have hdec : ∃ ip, ipv4Decimal (c :: rest) = some ip := by
          unfold ipv4Fast at hf
          split at hf
          · simp at hf
          · exact Option.isSome_iff_exists.mp hf
        obtain ⟨ip, hip⟩ := hdec
        obtain ⟨a, hpa, hser⟩ := fast_text _ ip hip
        obtain ⟨hend, _, hbytes⟩ := FS.ipv4Decimal_sound _ ip hip
        have hclean : ((c :: rest).map toLowerByte).any isForbiddenDomainCp = false := by
          simp only [List.any_map, List.any_eq_false, Function.comp]
          intro b hbm
          simp [(dd_bytes b (hbytes b hbm)).1]
        have hlowid : (c :: rest).map toLowerByte = c :: rest := by
          calc (c :: rest).map toLowerByte = (c :: rest).map id :=
                List.map_congr_left (fun b hbm => (dd_bytes b (hbytes b hbm)).2.1)
            _ = c :: rest := List.map_id _
        have hxn : hasXnDash ((c :: rest).map toLowerByte) = false := by
          rw [hlowid]; exact hasXn_needs_x _ (fun b hbm => (dd_bytes b (hbytes b hbm)).2.2)
        have hT := hostText_of_scan (c :: rest) hne hclean hxn
        have hsp := FS.hostParse_ascii idna (c :: rest) hT
        rw [hsp, hlowid, hend]
        simp [hpa, viewH, kindOf, Host.serialize, hser]
      · simp only [hf, Bool.false_eq_true, ↓reduceIte]
        rw [cfd_any]
        by_cases hfastpath : (!((c :: rest).map toLowerByte).any isForbiddenDomainCp && !hasXnDash ((c :: rest).map toLowerByte)) = true
        · -- nothing forbidden, no "xn-": lower-casing is all there is
          simp only [hfastpath, ↓reduceIte]
          simp only [Bool.and_eq_true, Bool.not_eq_true'] at hfastpath
          have hT := hostText_of_scan (c :: rest) hne hfastpath.1 hfastpath.2
          have hsp := FS.hostParse_ascii idna (c :: rest) hT
          rw [hsp]
          apply ipv4OrDomain_spec
          · simp
          · intro b hbm
            obtain ⟨x, _, rfl⟩ := List.mem_map.mp hbm
            exact (cp_tables x).2.2.2
        · -- through to_ascii
          simp only [hfastpath, Bool.false_eq_true, ↓reduceIte]
          rw [hspec]
          unfold Model.HostParse.toAscii
          simp only [decode_model]
          generalize hd : Spec.percentDecode (c :: rest) = d at hid
          have hda : domainToAscii idna d = match idna.toAscii d with
              | some x => if x.isEmpty then none else some x
              | none => none := by
            unfold domainToAscii
            by_cases hcond : (isAsciiBytes d && !(splitOn 0x2E d).any startsWithXn) = true
            · simp only [hcond, ↓reduceIte]
              simp only [Bool.and_eq_true, Bool.not_eq_true'] at hcond
              rw [hid.asciiRule hcond.1 hcond.2]
            · simp only [hcond, Bool.false_eq_true, ↓reduceIte]
              cases idna.toAscii d <;> rfl
          rw [hda]
          cases hto : idna.toAscii d with
          | none => simp
          | some o =>
            simp only
            have hasc := hid.asciiOut o hto
            have hlow := hid.lowerOut o hto
            have hforb : o.any isForbiddenDomainCp = o.any isForbiddenDomain := by
              apply any_ext
              intro b hbm
              rw [(cp_tables b).1]
              have := hasc b hbm
              have : decide (b.toNat ≥ 128) = false := by simp; omega
              simp [this]
            by_cases hoe : o.isEmpty = true
            · simp [hoe]
            · simp only [hoe, Bool.false_eq_true, ↓reduceIte, Bool.false_or, cfd_any, hforb]
              by_cases hfb : o.any isForbiddenDomain = true
              · simp [hfb]
              · simp only [hfb, Bool.false_eq_true, ↓reduceIte, hforb]
                apply ipv4OrDomain_spec
                · intro e; subst e; simp at hoe
                · exact hlow
    · have hs' : special = false := by simpa using hs
      subst hs'
      simp only [Bool.not_false, ↓reduceIte] at hspec ⊢
      rw [hspec]
      unfold parseOpaqueHost opaqueHostParse
      have : (c :: rest).any isForbiddenHostCp = (c :: rest).any isForbiddenHost :=
        any_ext _ _ _ (fun b _ => (cp_tables b).2.1)
      rw [this]
      by_cases hfo : (c :: rest).any isForbiddenHost = true
      · simp [hfo]
      · simp [hfo, viewH, kindOf, Host.serialize]

end AdaVerif.Lemmas.HP

import AdaVerif.Spec.Setters
namespace AdaVerif.Lemmas
open AdaVerif AdaVerif.Spec

/-- printable ASCII, space excluded -/
def printable (b : UInt8) : Bool := 0x21 ≤ b.toNat && b.toNat ≤ 0x7E
/-- printable ASCII or space -/
def printableSp (b : UInt8) : Bool := 0x20 ≤ b.toNat && b.toNat ≤ 0x7E

theorem pctByte_printable : ∀ b : UInt8, (pctByte b).all printable = true := by
  apply forall_uint8_of_fin; decide +kernel

/-- a byte outside the C0-control set is printable ASCII or space -/
theorem notC0_printableSp : ∀ b : UInt8, inC0 b = false → printableSp b = true := by
  apply forall_uint8_of_fin; decide +kernel

theorem printable_of_sp (b : UInt8) (h : printableSp b = true) (h20 : b ≠ 0x20) : printable b = true := by
  revert h h20; revert b
  apply forall_uint8_of_fin; decide +kernel

/-- every encode set that contains the C0-control set produces printable-or-space output -/
theorem percentEncode_printableSp (p : UInt8 → Bool) (hp : ∀ b, inC0 b = true → p b = true) (s : Bytes) :
    (percentEncode p s).all printableSp = true := by
  induction s with
  | nil => rfl
  | cons b rest ih =>
    simp only [percentEncode, List.flatMap_cons, List.all_append, Bool.and_eq_true] at ih ⊢
    refine ⟨?_, ih⟩
    split
    · have := pctByte_printable b
      simp only [List.all_eq_true] at this ⊢
      intro x hx
      have := this x hx
      simp only [printable, printableSp, Bool.and_eq_true, decide_eq_true_eq] at this ⊢
      omega
    · rename_i hpb
      have hc : inC0 b = false := by
        cases h : inC0 b with
        | false => rfl
        | true => exact absurd (hp b h) hpb
      simp [notC0_printableSp b hc]

/-- … and printable (no space) output when the set also contains space -/
theorem percentEncode_printable (p : UInt8 → Bool) (hp : ∀ b, inC0 b = true → p b = true)
    (hsp : p 0x20 = true) (s : Bytes) : (percentEncode p s).all printable = true := by
  induction s with
  | nil => rfl
  | cons b rest ih =>
    simp only [percentEncode, List.flatMap_cons, List.all_append, Bool.and_eq_true] at ih ⊢
    refine ⟨?_, ih⟩
    split
    · exact pctByte_printable b
    · rename_i hpb
      have hc : inC0 b = false := by
        cases h : inC0 b with
        | false => rfl
        | true => exact absurd (hp b h) hpb
      have h20 : b ≠ 0x20 := by intro h; subst h; exact hpb hsp
      simp [printable_of_sp b (notC0_printableSp b hc) h20]

/-- the escape bytes themselves are never escaped by a set without `%` and hex digits -/
theorem pctByte_fixed (p : UInt8 → Bool) (h25 : p 0x25 = false)
    (hhex : ∀ b, isAsciiHexDigit b = true → p b = false) (b : UInt8) :
    percentEncode p (pctByte b) = pctByte b := by
  have hx : ∀ n, n < 16 → isAsciiHexDigit (hexUpper n) = true := by decide
  have h1 := hhex _ (hx (b.toNat / 16) (by have := b.toNat_lt; omega))
  have h2 := hhex _ (hx (b.toNat % 16) (by omega))
  simp [percentEncode, pctByte, h25, h1, h2]

/-- re-encoding an encoded component changes nothing -/
theorem percentEncode_idem (p : UInt8 → Bool) (h25 : p 0x25 = false)
    (hhex : ∀ b, isAsciiHexDigit b = true → p b = false) (s : Bytes) :
    percentEncode p (percentEncode p s) = percentEncode p s := by
  induction s with
  | nil => rfl
  | cons b rest ih =>
    have e : percentEncode p (b :: rest) = (if p b then pctByte b else [b]) ++ percentEncode p rest := by
      simp [percentEncode]
    rw [e]
    have app : ∀ a c : Bytes, percentEncode p (a ++ c) = percentEncode p a ++ percentEncode p c := by
      intro a c; simp [percentEncode, List.flatMap_append]
    rw [app, ih]
    congr 1
    split
    · exact pctByte_fixed p h25 hhex b
    · rename_i hpb
      simp [percentEncode, hpb]

end AdaVerif.Lemmas

import AdaVerif.Spec.Host
/-
IPv6: the Standard's serializer followed by the Standard's parser is the identity on every address
(eight 16-bit pieces), whatever the position and length of the compressed zero run.
-/
namespace AdaVerif.Lemmas.V6
open AdaVerif AdaVerif.Spec

/-! ### hex pieces -/

theorem hexLower_ok : ∀ d : Fin 16, isAsciiHexDigit (hexLower d.val) = true ∧ hexVal (hexLower d.val) = d.val ∧
    hexLower d.val ≠ 0x3A ∧ hexLower d.val ≠ 0x2E := by decide

theorem hex_digit (d : Nat) (h : d < 16) : isAsciiHexDigit (hexLower d) = true := (hexLower_ok ⟨d, h⟩).1
theorem hex_val (d : Nat) (h : d < 16) : hexVal (hexLower d) = d := (hexLower_ok ⟨d, h⟩).2.1
theorem hex_ne_colon (d : Nat) (h : d < 16) : hexLower d ≠ 0x3A := (hexLower_ok ⟨d, h⟩).2.2.1

/-- the digits of a 16-bit piece, most significant first, without leading zeros -/
def hex4 (x : Nat) : Bytes :=
  if x < 16 then [hexLower x]
  else if x < 256 then [hexLower (x / 16), hexLower (x % 16)]
  else if x < 4096 then [hexLower (x / 256), hexLower (x / 16 % 16), hexLower (x % 16)]
  else [hexLower (x / 4096), hexLower (x / 256 % 16), hexLower (x / 16 % 16), hexLower (x % 16)]

theorem natToHexLower_eq (x : Nat) (h : x < 65536) : natToHexLower x = hex4 x := by
  unfold hex4
  by_cases h1 : x < 16
  · rw [natToHexLower]; simp [h1]
  · by_cases h2 : x < 256
    · rw [natToHexLower]; simp only [h1, ↓reduceIte]
      rw [natToHexLower]; have : x / 16 < 16 := by omega
      simp [this, h2]
    · by_cases h3 : x < 4096
      · rw [natToHexLower]; simp only [h1, ↓reduceIte]
        rw [natToHexLower]; have a : ¬ x / 16 < 16 := by omega
        simp only [a, ↓reduceIte]
        rw [natToHexLower]; have b : x / 16 / 16 < 16 := by omega
        have e1 : x / 16 / 16 = x / 256 := by omega
        have b' : x / 256 < 16 := by omega
        simp [b', h2, h3, e1]
      · rw [natToHexLower]; simp only [h1, ↓reduceIte]
        rw [natToHexLower]; have a : ¬ x / 16 < 16 := by omega
        simp only [a, ↓reduceIte]
        rw [natToHexLower]; have b : ¬ x / 16 / 16 < 16 := by omega
        simp only [b, ↓reduceIte]
        rw [natToHexLower]; have c : x / 16 / 16 / 16 < 16 := by omega
        have e1 : x / 16 / 16 = x / 256 := by omega
        have e2 : x / 16 / 16 / 16 = x / 4096 := by omega
        have e3 : x / 16 / 16 % 16 = x / 256 % 16 := by omega
        have c' : x / 256 / 16 < 16 := by omega
        have e4 : x / 256 / 16 = x / 4096 := by omega
        have c'' : x / 4096 < 16 := by omega
        simp [c'', h2, h3, e1, e2, e3, e4]


def NotHexHead (rest : Bytes) : Prop := ∀ b, rest.head? = some b → isAsciiHexDigit b = false

theorem readHex_stop (m v len : Nat) (rest : Bytes) (hr : NotHexHead rest) : readHex m rest v len = (v, len, rest) := by
  cases m with
  | zero => cases rest <;> simp [readHex]
  | succ m =>
    cases rest with
    | nil => simp [readHex]
    | cons b r => simp [readHex, hr b rfl]

theorem readHex_step (m v len : Nat) (d : Nat) (hd : d < 16) (rest : Bytes) :
    readHex (m + 1) (hexLower d :: rest) v len = readHex m rest (v * 16 + d) (len + 1) := by
  simp [readHex, hex_digit d hd, hex_val d hd]

theorem readHex_zero (v len : Nat) (s : Bytes) : readHex 0 s v len = (v, len, s) := by
  cases s <;> simp [readHex]

/-- reading a piece back: value and digit count; stops at the first non-hex byte (or after four digits) -/
theorem readHex_hex4 (x : Nat) (hx : x < 65536) (rest : Bytes) (hr : NotHexHead rest) :
    readHex 4 (hex4 x ++ rest) = (x, (hex4 x).length, rest) := by
  unfold hex4
  by_cases h1 : x < 16
  · simp only [h1, ↓reduceIte, List.cons_append, List.nil_append, List.length_cons, List.length_nil]
    rw [readHex_step 3 0 0 x h1, readHex_stop _ _ _ _ hr]; simp
  · by_cases h2 : x < 256
    · simp only [h1, h2, ↓reduceIte, List.cons_append, List.nil_append, List.length_cons, List.length_nil]
      rw [readHex_step 3 0 0 _ (by omega), readHex_step 2 _ _ _ (by omega), readHex_stop _ _ _ _ hr]
      simp; omega
    · by_cases h3 : x < 4096
      · simp only [h1, h2, h3, ↓reduceIte, List.cons_append, List.nil_append, List.length_cons, List.length_nil]
        rw [readHex_step 3 0 0 _ (by omega), readHex_step 2 _ _ _ (by omega), readHex_step 1 _ _ _ (by omega),
          readHex_stop _ _ _ _ hr]
        simp; omega
      · simp only [h1, h2, h3, ↓reduceIte, List.cons_append, List.nil_append, List.length_cons, List.length_nil]
        rw [readHex_step 3 0 0 _ (by omega), readHex_step 2 _ _ _ (by omega), readHex_step 1 _ _ _ (by omega),
          readHex_step 0 _ _ _ (by omega), readHex_zero]
        simp; omega

theorem hex4_length_pos (x : Nat) : 0 < (hex4 x).length := by
  unfold hex4; repeat' split
  all_goals simp
theorem hex4_head (x : Nat) (hx : x < 65536) : ∃ d r, d < 16 ∧ hex4 x = hexLower d :: r := by
  unfold hex4
  by_cases h1 : x < 16
  · exact ⟨x, [], h1, by simp [h1]⟩
  · by_cases h2 : x < 256
    · exact ⟨x / 16, [hexLower (x % 16)], by omega, by simp [h1, h2]⟩
    · by_cases h3 : x < 4096
      · exact ⟨x / 256, [hexLower (x / 16 % 16), hexLower (x % 16)], by omega, by simp [h1, h2, h3]⟩
      · exact ⟨x / 4096, [hexLower (x / 256 % 16), hexLower (x / 16 % 16), hexLower (x % 16)], by omega, by simp [h1, h2, h3]⟩


/-! ### the serializer's loop -/

local notation "go" => ipv6Serialize.go

theorem go_nil (c : Option Nat) (i : Nat) (ig : Bool) (out : Bytes) : go c [] i ig out = out := by
  simp [ipv6Serialize.go]

/-- the accumulator is only ever appended to -/
theorem go_acc (c : Option Nat) (l : List Nat) (i : Nat) (ig : Bool) (out : Bytes) : go c l i ig out = out ++ go c l i ig [] := by
  induction l generalizing i ig out with
  | nil => simp [go_nil]
  | cons x rest ih =>
    simp only [ipv6Serialize.go]
    by_cases h1 : (ig && x == 0) = true
    · simp only [h1, ↓reduceIte]; exact ih _ _ _
    · simp only [h1, Bool.false_eq_true, ↓reduceIte]
      by_cases h2 : (c == some i) = true
      · simp only [h2, ↓reduceIte]
        rw [ih _ _ (out ++ _), ih _ _ ([] ++ _)]; simp [List.append_assoc]
      · simp only [h2, Bool.false_eq_true, ↓reduceIte]
        rw [ih _ _ (if (i != 7) = true then out ++ natToHexLower x ++ [0x3A] else out ++ natToHexLower x),
          ih _ _ (if (i != 7) = true then [] ++ natToHexLower x ++ [0x3A] else [] ++ natToHexLower x)]
        split <;> simp [List.append_assoc]

/-- a printed piece (not the last one): digits, colon, then the rest -/
theorem go_piece (c : Option Nat) (x : Nat) (rest : List Nat) (i : Nat) (hx : x < 65536) (hc : c ≠ some i) (hi : i ≠ 7) :
    go c (x :: rest) i false [] = hex4 x ++ 0x3A :: go c rest (i + 1) false [] := by
  have h2 : (c == some i) = false := by simpa using hc
  have h3 : (i != 7) = true := by simpa using hi
  simp only [ipv6Serialize.go, Bool.false_and, Bool.false_eq_true, ↓reduceIte, h2, h3]
  rw [go_acc]; simp [natToHexLower_eq x hx, List.append_assoc]

/-- the last piece -/
theorem go_last (c : Option Nat) (x : Nat) (hx : x < 65536) (hc : c ≠ some 7) : go c [x] 7 false [] = hex4 x := by
  have h2 : (c == some 7) = false := by simpa using hc
  simp [ipv6Serialize.go, h2, natToHexLower_eq x hx]

/-- a skipped zero -/
theorem go_skip (c : Option Nat) (rest : List Nat) (i : Nat) : go c (0 :: rest) i true [] = go c rest (i + 1) true [] := by
  simp [ipv6Serialize.go]

/-- the compression marker (the piece at that index is not printed) -/
theorem go_marker (x : Nat) (rest : List Nat) (i : Nat) :
    go (some i) (x :: rest) i false [] = (if i == 0 then [0x3A, 0x3A] else [0x3A]) ++ go (some i) rest (i + 1) true [] := by
  simp only [ipv6Serialize.go, Bool.false_and, Bool.false_eq_true, ↓reduceIte, beq_self_eq_true]
  rw [go_acc]; simp

/-- a non-zero piece ends the skipping -/
theorem go_resume (c : Option Nat) (x : Nat) (rest : List Nat) (i : Nat) (hx0 : x ≠ 0) :
    go c (x :: rest) i true [] = go c (x :: rest) i false [] := by
  have : (x == 0) = false := by simpa using hx0
  simp [ipv6Serialize.go, this]


/-! ### the parser's loop, one step at a time -/

theorem loop_end (f : Nat) (pieces : List Nat) (comp : Option Nat) : ipv6Loop (f + 1) [] pieces comp = some (pieces, comp) := by
  simp [ipv6Loop]

theorem notHex_colon (t : Bytes) : NotHexHead (0x3A :: t) := by
  intro b hb; simp at hb; subst hb; decide

theorem notHex_nil : NotHexHead [] := by intro b hb; simp at hb

/-- a piece followed by ':' and more input -/
theorem loop_piece (f x : Nat) (hx : x < 65536) (t : Bytes) (ht : t ≠ []) (pieces : List Nat) (hp : pieces.length < 8)
    (comp : Option Nat) :
    ipv6Loop (f + 1) (hex4 x ++ 0x3A :: t) pieces comp = ipv6Loop f t (pieces ++ [x]) comp := by
  obtain ⟨d, r, hd, hr⟩ := hex4_head x hx
  have hrd := readHex_hex4 x hx (0x3A :: t) (notHex_colon t)
  have hne : (pieces.length == 8) = false := by simp; omega
  have hcolon : (hexLower d == 0x3A) = false := by simpa using hex_ne_colon d hd
  have hlen := hex4_length_pos x
  have hte : t.isEmpty = false := by cases t <;> simp_all
  have hl0 : ((hex4 x).length == 0) = false := beq_false_of_ne (Nat.ne_of_gt hlen)
  rw [hr] at hrd ⊢
  simp only [List.cons_append, ipv6Loop, hne, Bool.false_eq_true, ↓reduceIte, hcolon]
  rw [← List.cons_append, hrd]
  simp [hte, hl0, ← hr]

/-- the last piece -/
theorem loop_last (f x : Nat) (hx : x < 65536) (pieces : List Nat) (hp : pieces.length < 8) (comp : Option Nat) :
    ipv6Loop (f + 1) (hex4 x) pieces comp = some (pieces ++ [x], comp) := by
  obtain ⟨d, r, hd, hr⟩ := hex4_head x hx
  have hrd := readHex_hex4 x hx [] notHex_nil
  have hne : (pieces.length == 8) = false := by simp; omega
  have hcolon : (hexLower d == 0x3A) = false := by simpa using hex_ne_colon d hd
  have hlen := hex4_length_pos x
  have hl0 : ((hex4 x).length == 0) = false := beq_false_of_ne (Nat.ne_of_gt hlen)
  simp only [List.append_nil] at hrd
  rw [hr] at hrd ⊢
  simp only [ipv6Loop, hne, Bool.false_eq_true, ↓reduceIte, hcolon]
  rw [hrd]
  simp [hl0, ← hr]

/-- the second ':' of "::" -/
theorem loop_compress (f : Nat) (t : Bytes) (pieces : List Nat) (hp : pieces.length < 8) :
    ipv6Loop (f + 1) (0x3A :: t) pieces none = ipv6Loop f t pieces (some pieces.length) := by
  have hne : (pieces.length == 8) = false := by simp; omega
  simp [ipv6Loop, hne]


/-! ### whole runs -/

theorem go_ne_nil (c : Option Nat) (x : Nat) (rest : List Nat) (i : Nat) (hx : x < 65536) (hlen : i + (x :: rest).length = 8) :
    go c (x :: rest) i false [] ≠ [] := by
  by_cases hc : c = some i
  · subst hc; rw [go_marker]; split <;> simp
  · cases rest with
    | nil =>
      have : i = 7 := by simp at hlen; omega
      subst this
      rw [go_last c x hx hc]
      have := hex4_length_pos x
      intro h; rw [h] at this; simp at this
    | cons y r =>
      have : i ≠ 7 := by simp at hlen; omega
      rw [go_piece c x (y :: r) i hx hc this]
      have := hex4_length_pos x
      intro h
      have h' := congrArg List.length h
      simp at h'

/-- plain pieces (no marker ahead): the loop collects them all -/
theorem plain_run (c : Option Nat) : ∀ (l : List Nat) (i : Nat) (acc : List Nat) (comp : Option Nat) (f : Nat),
    l ≠ [] → i + l.length = 8 → (∀ x ∈ l, x < 65536) → (∀ j, c = some j → j < i) → acc.length + l.length ≤ 8 →
    (go c l i false []).length ≤ f →
    ipv6Loop f (go c l i false []) acc comp = some (acc ++ l, comp) := by
  intro l
  induction l with
  | nil => intro i acc comp f h; exact absurd rfl h
  | cons x rest ih =>
    intro i acc comp f _ hlen hb hc hacc hf
    have hx : x < 65536 := hb x (by simp)
    have hci : c ≠ some i := fun h => by have := hc i h; omega
    cases rest with
    | nil =>
      have hi : i = 7 := by simp at hlen; omega
      subst hi
      rw [go_last c x hx hci] at hf ⊢
      have hpos := hex4_length_pos x
      obtain ⟨f', rfl⟩ : ∃ f', f = f' + 1 := ⟨f - 1, by omega⟩
      exact loop_last f' x hx acc (by simp at hacc; omega) comp
    | cons y r =>
      have hi : i ≠ 7 := by simp at hlen; omega
      rw [go_piece c x (y :: r) i hx hci hi] at hf ⊢
      have hpos := hex4_length_pos x
      obtain ⟨f', rfl⟩ : ∃ f', f = f' + 1 := ⟨f - 1, by simp at hf; omega⟩
      rw [loop_piece f' x hx _ (go_ne_nil c y r (i + 1) (hb y (by simp)) (by simp at hlen ⊢; omega)) acc
        (by simp at hacc; omega) comp]
      have := ih (i + 1) (acc ++ [x]) comp f' (by simp) (by simp at hlen ⊢; omega) (fun z hz => hb z (by simp [hz]))
        (fun j hj => by have := hc j hj; omega) (by simp at hacc ⊢; omega) (by simp at hf; omega)
      rw [this]; simp

/-- after the marker: zeros are skipped, then the rest is plain -/
theorem skip_run (c : Option Nat) : ∀ (l : List Nat) (i : Nat) (acc : List Nat) (comp : Option Nat) (f : Nat),
    i + l.length = 8 → (∀ x ∈ l, x < 65536) → (∀ j, c = some j → j < i) → acc.length + l.length ≤ 8 →
    (go c l i true []).length + 1 ≤ f →
    ipv6Loop f (go c l i true []) acc comp = some (acc ++ l.dropWhile (· == 0), comp) := by
  intro l
  induction l with
  | nil =>
    intro i acc comp f _ _ _ _ hf
    obtain ⟨f', rfl⟩ : ∃ f', f = f' + 1 := ⟨f - 1, by omega⟩
    simp [go_nil, loop_end]
  | cons x rest ih =>
    intro i acc comp f hlen hb hc hacc hf
    by_cases hx0 : x = 0
    · subst hx0
      rw [go_skip] at hf ⊢
      have := ih (i + 1) acc comp f (by simp at hlen ⊢; omega) (fun z hz => hb z (by simp [hz]))
        (fun j hj => by have := hc j hj; omega) (by simp at hacc ⊢; omega) hf
      rw [this]; simp
    · rw [go_resume c x rest i hx0] at hf ⊢
      have hxb : (x == 0) = false := by simpa using hx0
      have hdw : (x :: rest).dropWhile (· == 0) = x :: rest := by simp [List.dropWhile, hxb]
      rw [hdw]
      exact plain_run c (x :: rest) i acc comp f (by simp) hlen hb hc hacc (by omega)


/-- before the marker (which sits at index `cs > 0`): pieces are collected, the second ':' records the
    compression point, the zeros after it are skipped -/
theorem before_run (cs : Nat) : ∀ (l : List Nat) (i : Nat) (acc : List Nat) (f : Nat),
    i + l.length = 8 → (∀ x ∈ l, x < 65536) → i ≤ cs → cs < 8 → 0 < i → acc.length = i →
    (go (some cs) l i false []).length + 1 ≤ f →
    ipv6Loop f (go (some cs) l i false []) acc none =
      some (acc ++ l.take (cs - i) ++ (l.drop (cs - i + 1)).dropWhile (· == 0), some cs) := by
  intro l
  induction l with
  | nil => intro i acc f hlen _ hi hcs; simp at hlen; omega
  | cons x rest ih =>
    intro i acc f hlen hb hi hcs hi0 hacc hf
    have hx : x < 65536 := hb x (by simp)
    obtain ⟨f', rfl⟩ : ∃ f', f = f' + 1 := ⟨f - 1, by omega⟩
    by_cases he : i = cs
    · subst he
      rw [go_marker] at hf ⊢
      have hne : (i == 0) = false := by simp; omega
      simp only [hne, Bool.false_eq_true, ↓reduceIte, List.cons_append, List.nil_append] at hf ⊢
      rw [loop_compress f' _ acc (by omega)]
      have := skip_run (some i) rest (i + 1) acc (some acc.length) f' (by simp at hlen ⊢; omega)
        (fun z hz => hb z (by simp [hz])) (fun j hj => by injection hj with hj; omega) (by simp at hlen; omega)
        (by simp at hf; omega)
      rw [this, hacc]; simp
    · have hlt : i < cs := by omega
      have hci : some cs ≠ some i := by intro h; injection h with h; omega
      have hi7 : i ≠ 7 := by omega
      rw [go_piece (some cs) x rest i hx hci hi7] at hf ⊢
      cases rest with
      | nil => simp at hlen; omega
      | cons y r =>
        rw [loop_piece f' x hx _ (go_ne_nil (some cs) y r (i + 1) (hb y (by simp)) (by simp at hlen ⊢; omega)) acc
          (by omega) none]
        have := ih (i + 1) (acc ++ [x]) f' (by simp at hlen ⊢; omega) (fun z hz => hb z (by simp [hz])) (by omega) hcs
          (by omega) (by simp [hacc]) (by simp at hf; omega)
        rw [this]
        have e1 : cs - i = (cs - (i + 1)) + 1 := by omega
        rw [e1]; simp [List.append_assoc]

theorem zeros_prefix (l : List Nat) : l = List.replicate (l.length - (l.dropWhile (· == 0)).length) 0 ++ l.dropWhile (· == 0) := by
  induction l with
  | nil => simp
  | cons x rest ih =>
    by_cases hx : x = 0
    · subst hx
      simp only [List.dropWhile_cons, beq_self_eq_true, ↓reduceIte, List.length_cons]
      have hle : (rest.dropWhile (· == 0)).length ≤ rest.length := (List.dropWhile_sublist _).length_le
      have : rest.length + 1 - (rest.dropWhile (· == 0)).length = (rest.length - (rest.dropWhile (· == 0)).length) + 1 := by omega
      rw [this, List.replicate_succ, List.cons_append, ← ih]
    · have : (x == 0) = false := by simpa using hx
      simp [List.dropWhile_cons, this]


/-! ### parse ∘ serialise -/

/-- the last step of the parser: expand the compression -/
def finish : Option (List Nat × Option Nat) → Option (List Nat)
  | none => none
  | some (pieces, some k) =>
    if pieces.length > 7 then none else some (pieces.take k ++ List.replicate (8 - pieces.length) 0 ++ pieces.drop k)
  | some (pieces, none) => if pieces.length == 8 then some pieces else none

theorem parse_nocolon (b : UInt8) (t : Bytes) (hb : b ≠ 0x3A) :
    ipv6Parse (b :: t) = finish (ipv6Loop ((b :: t).length + 1) (b :: t) [] none) := by
  unfold ipv6Parse
  split
  · rename_i heq; injection heq with h1 _; exact absurd h1 hb
  · rename_i heq; injection heq with h1 _; exact absurd h1 hb
  · simp only
    cases h : ipv6Loop ((b :: t).length + 1) (b :: t) [] none with
    | none => simp [finish]
    | some r => obtain ⟨pieces, comp⟩ := r; cases comp <;> simp [finish]

theorem parse_coloncolon (t : Bytes) :
    ipv6Parse (0x3A :: 0x3A :: t) = finish (ipv6Loop ((0x3A :: 0x3A :: t : Bytes).length + 1) t [] (some 0)) := by
  unfold ipv6Parse
  split
  · rename_i rest heq
    injection heq with _ h2; injection h2 with _ h3; subst h3
    simp only
    cases h : ipv6Loop ((0x3A :: 0x3A :: t : Bytes).length + 1) t [] (some 0) with
    | none => simp [finish]
    | some r => obtain ⟨pieces, comp⟩ := r; cases comp <;> simp [finish]
  · rename_i tl hno heq
    injection heq with _ h2; subst h2
    exact absurd rfl (hno t)
  · rename_i hno _; exact absurd rfl (hno t)


/-- for any admissible choice of the compression point - an index holding a zero piece, or none -
    parsing the serialisation gives the address back -/
theorem parse_go (a : List Nat) (ha : a.length = 8) (hb : ∀ x ∈ a, x < 65536) (c : Option Nat)
    (hc : ∀ cs, c = some cs → a[cs]? = some 0) : ipv6Parse (go c a 0 false []) = some a := by
  obtain ⟨x, rest, rfl⟩ : ∃ x rest, a = x :: rest := by cases a <;> simp_all
  have hx : x < 65536 := hb x (by simp)
  have hrl : rest.length = 7 := by simpa using ha
  cases c with
  | none =>
    obtain ⟨d, r, hd, hr⟩ := hex4_head x hx
    have hs : go none (x :: rest) 0 false [] = hexLower d :: (r ++ 0x3A :: go none rest 1 false []) := by
      rw [go_piece none x rest 0 hx (by simp) (by decide), hr]; simp
    rw [hs, parse_nocolon _ _ (hex_ne_colon d hd), ← hs]
    rw [plain_run none (x :: rest) 0 [] none _ (by simp) (by simpa using ha) hb (by simp) (by simp [ha]) (by omega)]
    simp [finish, ha]
  | some cs =>
    have hz := hc cs rfl
    have hcs : cs < 8 := by
      have := (List.getElem?_eq_some_iff.mp hz).1; omega
    by_cases h0 : cs = 0
    · subst h0
      have hx0 : x = 0 := by simpa using hz
      subst hx0
      rw [go_marker]
      simp only [beq_self_eq_true, ↓reduceIte, List.cons_append, List.nil_append]
      rw [parse_coloncolon]
      rw [skip_run (some 0) rest 1 [] (some 0) _ (by omega) (fun z hz => hb z (by simp [hz])) (by intro j hj; injection hj with hj; omega)
        (by simp; omega) (by simp)]
      have hle : (rest.dropWhile (· == 0)).length ≤ rest.length := (List.dropWhile_sublist _).length_le
      have hlt : ¬ ((rest.dropWhile (· == 0)).length > 7) := by omega
      simp only [finish, List.nil_append, hlt, ↓reduceIte, List.take_zero, List.drop_zero]
      have hz2 := zeros_prefix rest
      have e : 8 - (rest.dropWhile (· == 0)).length = (rest.length - (rest.dropWhile (· == 0)).length) + 1 := by omega
      rw [e, List.replicate_succ, List.cons_append, ← hz2]
    · -- a piece comes first
      have hci : some cs ≠ some 0 := by intro h; injection h with h; exact h0 h
      obtain ⟨d, r, hd, hr⟩ := hex4_head x hx
      cases rest with
      | nil => simp at hrl
      | cons y rest' =>
        have hs : go (some cs) (x :: y :: rest') 0 false [] = hexLower d :: (r ++ 0x3A :: go (some cs) (y :: rest') 1 false []) := by
          rw [go_piece (some cs) x (y :: rest') 0 hx hci (by decide), hr]; simp
        rw [hs, parse_nocolon _ _ (hex_ne_colon d hd)]
        have hs2 : hexLower d :: (r ++ 0x3A :: go (some cs) (y :: rest') 1 false []) = hex4 x ++ 0x3A :: go (some cs) (y :: rest') 1 false [] := by
          rw [hr]; simp
        rw [hs2]
        rw [loop_piece _ x hx _ (go_ne_nil (some cs) y rest' 1 (hb y (by simp)) (by simp at hrl ⊢; omega)) [] (by simp) none]
        simp only [List.nil_append]
        rw [before_run cs (y :: rest') 1 [x] _ (by simp at hrl ⊢; omega) (fun z hz => hb z (by simp [hz])) (by omega) hcs (by omega) rfl
          (by simp)]
        -- expand the compression
        have hzz : (y :: rest')[cs - 1]? = some 0 := by
          have : cs = (cs - 1) + 1 := by omega
          rw [this] at hz; simpa using hz
        have hsplit : y :: rest' = (y :: rest').take (cs - 1) ++ 0 :: (y :: rest').drop (cs - 1 + 1) := by
          have hlt : cs - 1 < (y :: rest').length := by simp at hrl ⊢; omega
          have := List.getElem?_eq_some_iff.mp hzz
          obtain ⟨_, hget⟩ := this
          conv => lhs; rw [← List.take_append_drop (cs - 1) (y :: rest')]
          congr 1
          rw [List.drop_eq_getElem_cons hlt, hget]
        -- name the three segments
        generalize hP : (y :: rest').take (cs - 1) = P at hsplit ⊢
        generalize hQ0 : (y :: rest').drop (cs - 1 + 1) = Q0 at hsplit ⊢
        have hr6 : rest'.length = 6 := by simpa using hrl
        have hPl : P.length = cs - 1 := by rw [← hP]; simp; omega
        have hQ0l : Q0.length = 7 - cs := by rw [← hQ0]; simp; omega
        have hle : (Q0.dropWhile (· == 0)).length ≤ Q0.length := (List.dropWhile_sublist _).length_le
        have hz2 := zeros_prefix Q0
        generalize hQ : Q0.dropWhile (· == 0) = Q at hle hz2 ⊢
        have hlen : ([x] ++ P ++ Q).length = cs + Q.length := by simp [hPl]; omega
        have hnot : ¬ (([x] ++ P ++ Q).length > 7) := by omega
        simp only [finish, hnot, ↓reduceIte]
        have htake : ([x] ++ P ++ Q).take cs = [x] ++ P := by
          rw [List.take_append_of_le_length (by simp [hPl]; omega), List.take_of_length_le (by simp [hPl]; omega)]
        have hdrop : ([x] ++ P ++ Q).drop cs = Q := by
          have : cs = ([x] ++ P).length := by simp [hPl]; omega
          rw [this, List.drop_left]
        rw [htake, hdrop, hlen, hsplit, hz2]
        have e : 8 - (cs + Q.length) = (Q0.length - Q.length) + 1 := by omega
        rw [e, List.replicate_succ]
        simp [List.append_assoc]


/-! ### the compression point chosen by the serializer holds a zero piece -/

theorem lzr_go (a : List Nat) : ∀ (l : List Nat) (i cs cl bs bl : Nat),
    (∀ j, l[j]? = a[i + j]?) → (cl > 0 → a[cs]? = some 0) → (bl > 0 → a[bs]? = some 0) →
    (longestZeroRun.go l i cs cl bs bl).2 > 0 → a[(longestZeroRun.go l i cs cl bs bl).1]? = some 0 := by
  intro l
  induction l with
  | nil =>
    intro i cs cl bs bl _ h1 h2
    simp only [longestZeroRun.go]
    split
    · intro h; exact h1 (by simpa using h)
    · intro h; exact h2 (by simpa using h)
  | cons x rest ih =>
    intro i cs cl bs bl hl h1 h2
    have hshift : ∀ j, rest[j]? = a[i + 1 + j]? := by
      intro j
      have := hl (j + 1)
      simp only [List.getElem?_cons_succ] at this
      rw [this]; congr 1; omega
    simp only [longestZeroRun.go]
    by_cases hx : (x == 0) = true
    · simp only [hx, ↓reduceIte]
      have hx0 : x = 0 := by simpa using hx
      have hai : a[i]? = some 0 := by
        have := hl 0; simp at this; rw [← this, hx0]
      apply ih (i + 1) _ (cl + 1) bs bl hshift _ h2
      intro _
      by_cases hc : (cl == 0) = true
      · simp only [hc, ↓reduceIte]; exact hai
      · simp only [hc, Bool.false_eq_true, ↓reduceIte]
        exact h1 (by have : cl ≠ 0 := by simpa using hc
                     omega)
    · simp only [hx, Bool.false_eq_true, ↓reduceIte]
      by_cases hc : cl > bl
      · simp only [hc, ↓reduceIte]
        exact ih (i + 1) 0 0 cs cl hshift (by intro h; omega) (fun _ => h1 (by omega))
      · simp only [hc, ↓reduceIte]
        exact ih (i + 1) 0 0 bs bl hshift (by intro h; omega) h2

theorem lzr_zero (a : List Nat) (h : (longestZeroRun a).2 > 0) : a[(longestZeroRun a).1]? = some 0 := by
  unfold longestZeroRun at h ⊢
  exact lzr_go a a 0 0 0 0 0 (by intro j; simp) (by intro h; omega) (by intro h; omega) h

/-- **IPv6 round trip**: for every address (eight pieces below 2^16), parsing its serialisation gives
    the address back -/
theorem ipv6_roundtrip (a : List Nat) (ha : a.length = 8) (hb : ∀ x ∈ a, x < 65536) :
    ipv6Parse (ipv6Serialize a) = some a := by
  unfold ipv6Serialize
  have hz := lzr_zero a
  cases hr : longestZeroRun a with
  | mk cs cl =>
    rw [hr] at hz
    simp only
    apply parse_go a ha hb
    intro k hk
    by_cases hcl : cl > 1
    · simp only [hcl, ↓reduceIte] at hk
      injection hk with hk; subst hk
      exact hz (by simp; omega)
    · simp [hcl] at hk

end AdaVerif.Lemmas.V6

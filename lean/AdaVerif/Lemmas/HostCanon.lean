import AdaVerif.Lemmas.FixedPoint
import AdaVerif.Lemmas.Decode
/-
What the host parser returns is canonical (`FP.HostCanon`): IPv4 addresses are below 2^32, IPv6 addresses have eight
16-bit pieces, opaque hosts are encoded and free of forbidden code points, domains are stable under
domain-to-ASCII when the IDNA parameter is.
-/
namespace AdaVerif.Lemmas.HC
open AdaVerif AdaVerif.Spec AdaVerif.Lemmas AdaVerif.Lemmas.FP

/-! ### IPv4 -/
theorem ipv4_tail (numbers : List Nat) (last : Nat) (hl : numbers.getLast? = some last) (hlen : numbers.length ≤ 4)
    (hfront : ∀ x ∈ numbers.dropLast, x ≤ 255) (hlast : last < 256 ^ (5 - numbers.length)) :
    ipv4Parse.go numbers.dropLast 0 last < 4294967296 := by
  match numbers, hl, hlen, hfront, hlast with
  | [a], hl, _, _, hlast =>
    simp at hl; subst hl
    simp [ipv4Parse.go] at hlast ⊢; omega
  | [a, b], hl, _, hfront, hlast =>
    simp at hl; subst hl
    have ha := hfront a (by simp)
    simp [ipv4Parse.go] at hlast ⊢; omega
  | [a, b, c], hl, _, hfront, hlast =>
    simp at hl; subst hl
    have ha := hfront a (by simp)
    have hb := hfront b (by simp)
    simp [ipv4Parse.go] at hlast ⊢; omega
  | [a, b, c, d], hl, _, hfront, hlast =>
    simp at hl; subst hl
    have ha := hfront a (by simp)
    have hb := hfront b (by simp)
    have hc := hfront c (by simp)
    simp [ipv4Parse.go] at hlast ⊢; omega
  | [], hl, _, _, _ => simp at hl
  | _ :: _ :: _ :: _ :: _ :: _, _, hlen, _, _ => simp at hlen

theorem mapM_length {α β} (f : α → Option β) (l : List α) (r : List β) (h : l.mapM f = some r) : r.length = l.length := by
  induction l generalizing r with
  | nil => simp at h; subst h; rfl
  | cons a t ih =>
    simp only [List.mapM_cons] at h
    cases ha : f a with
    | none => simp [ha] at h
    | some b =>
      cases ht : t.mapM f with
      | none => simp [ha, ht] at h
      | some r' =>
        simp [ha, ht] at h
        subst h
        simp [ih r' ht]

theorem ipv4_parts (parts : List Bytes) (a : Nat)
    (h : (if parts.length > 4 then none else
      match parts.mapM ipv4Number with
      | none => none
      | some numbers =>
        match numbers.getLast? with
        | none => none
        | some last =>
          let front := numbers.dropLast
          if front.any (· > 255) then none
          else if last ≥ 256 ^ (5 - numbers.length) then none
          else some (ipv4Parse.go front 0 last)) = some a) : a < 4294967296 := by
  split at h; · cases h
  rename_i hlen
  split at h; · cases h
  rename_i numbers hn
  split at h; · cases h
  rename_i last hl
  simp only at h
  split at h; · cases h
  rename_i hfront
  split at h; · cases h
  rename_i hlast
  injection h with h
  subst h
  have hlen' : numbers.length = parts.length := mapM_length _ _ _ hn
  apply ipv4_tail numbers last hl (by omega)
  · intro x hx
    simp only [List.any_eq_true, decide_eq_true_eq, not_exists, not_and] at hfront
    have := hfront x hx
    omega
  · omega

theorem ipv4Parse_lt (s : Bytes) (a : Nat) (h : ipv4Parse s = some a) : a < 4294967296 := by
  unfold ipv4Parse at h
  exact ipv4_parts _ a h

/-! ### IPv6 -/
theorem readHex_bound (m : Nat) (s : Bytes) (v len : Nat) : (readHex m s v len).1 < (v + 1) * 16 ^ m := by
  induction m generalizing s v len with
  | zero => simp [readHex]
  | succ m ih =>
    cases s with
    | nil =>
      simp only [readHex]
      have : 1 ≤ 16 ^ (m + 1) := Nat.pow_pos (by decide)
      calc v < (v + 1) * 1 := by omega
        _ ≤ (v + 1) * 16 ^ (m + 1) := Nat.mul_le_mul_left _ this
    | cons b rest =>
      simp only [readHex]
      split
      · have h1 := ih rest (v * 16 + hexVal b) (len + 1)
        have h2 := hexVal_lt b
        have h3 : (v * 16 + hexVal b + 1) * 16 ^ m ≤ ((v + 1) * 16) * 16 ^ m := Nat.mul_le_mul_right _ (by omega)
        have h4 : ((v + 1) * 16) * 16 ^ m = (v + 1) * 16 ^ (m + 1) := by
          rw [Nat.pow_succ, Nat.mul_assoc, Nat.mul_comm 16 (16 ^ m)]
        omega
      · have : 1 ≤ 16 ^ (m + 1) := Nat.pow_pos (by decide)
        calc v < (v + 1) * 1 := by omega
          _ ≤ (v + 1) * 16 ^ (m + 1) := Nat.mul_le_mul_left _ this

theorem readHex4_lt (s : Bytes) : (readHex 4 s).1 < 65536 := by
  have := readHex_bound 4 s 0 0
  simpa using this

theorem piece_go_le (fuel v : Nat) (t : Bytes) (r : Nat × Bytes) (hv : v ≤ 255)
    (h : readIpv4Piece.go fuel v t = some r) : r.1 ≤ 255 := by
  induction fuel generalizing v t with
  | zero => unfold readIpv4Piece.go at h; injection h with h; subst h; exact hv
  | succ f ih =>
    cases t with
    | nil => unfold readIpv4Piece.go at h; injection h with h; subst h; exact hv
    | cons c t' =>
      simp only [readIpv4Piece.go] at h
      split at h
      · split at h; · cases h
        split at h; · cases h
        rename_i hle
        exact ih _ _ (by omega) h
      · injection h with h; subst h; exact hv

theorem digitVal_le9 : ∀ b : UInt8, isAsciiDigit b = true → digitVal b ≤ 9 := by
  apply forall_uint8_of_fin; decide +kernel

theorem readIpv4Piece_le (s : Bytes) (r : Nat × Bytes) (h : readIpv4Piece s = some r) : r.1 ≤ 255 := by
  unfold readIpv4Piece at h
  split at h; · cases h
  rename_i b rest
  split at h; · cases h
  rename_i hd
  have := digitVal_le9 b (by simpa using hd)
  exact piece_go_le _ _ _ r (by omega) h

theorem readEmbeddedIpv4_lt (s : Bytes) (p1 p2 : Nat) (h : readEmbeddedIpv4 s = some (p1, p2)) : p1 < 65536 ∧ p2 < 65536 := by
  unfold readEmbeddedIpv4 at h
  split at h; · cases h
  rename_i a s1 ha
  split at h <;> try cases h
  split at h; · cases h
  rename_i b s2 hb
  split at h <;> try cases h
  split at h; · cases h
  rename_i c s3 hc
  split at h <;> try cases h
  split at h; · cases h
  rename_i d s4 hd
  split at h <;> try cases h
  have h1 := readIpv4Piece_le _ _ ha
  have h2 := readIpv4Piece_le _ _ hb
  have h3 := readIpv4Piece_le _ _ hc
  have h4 := readIpv4Piece_le _ _ hd
  simp only at h1 h2 h3 h4
  constructor <;> omega

def Small (ps : List Nat) : Prop := ∀ x ∈ ps, x < 65536

theorem small_snoc (ps : List Nat) (v : Nat) (hp : Small ps) (hv : v < 65536) : Small (ps ++ [v]) := by
  intro x hx
  rcases List.mem_append.mp hx with hx | hx
  · exact hp x hx
  · simp at hx; subst hx; exact hv

theorem ipv6Loop_inv (fuel : Nat) (s : Bytes) (pieces : List Nat) (comp : Option Nat) (r : List Nat × Option Nat)
    (hp : Small pieces) (hl : pieces.length ≤ 8) (h : ipv6Loop fuel s pieces comp = some r) :
    Small r.1 ∧ r.1.length ≤ 8 := by
  induction fuel generalizing s pieces comp with
  | zero => simp [ipv6Loop] at h
  | succ f ih =>
    unfold ipv6Loop at h
    cases s with
    | nil => simp at h; subst h; exact ⟨hp, hl⟩
    | cons c rest =>
      simp only at h
      split at h; · cases h
      rename_i h8
      have hlt : pieces.length < 8 := by
        have : pieces.length ≠ 8 := by simpa using h8
        omega
      split at h
      · split at h; · cases h
        exact ih _ _ _ hp hl h
      · have hv := readHex4_lt (c :: rest)
        generalize hrh : readHex 4 (c :: rest) = rh at h hv
        obtain ⟨value, len, after⟩ := rh
        simp only at h hv
        split at h
        · split at h; · cases h
          split at h; · cases h
          rename_i h6
          split at h; · cases h
          rename_i p1 p2 hemb
          injection h with h; subst h
          have := readEmbeddedIpv4_lt _ _ _ hemb
          refine ⟨?_, by simp; omega⟩
          intro x hx
          rcases List.mem_append.mp hx with hx | hx
          · exact hp x hx
          · simp at hx; rcases hx with rfl | rfl
            · exact this.1
            · exact this.2
        · split at h; · cases h
          split at h; · cases h
          exact ih _ _ _ (small_snoc _ _ hp hv) (by simp; omega) h
        · split at h; · cases h
          injection h with h; subst h
          exact ⟨small_snoc _ _ hp hv, by simp; omega⟩
        · cases h

theorem ipv6Parse_shape (s : Bytes) (p : List Nat) (h : ipv6Parse s = some p) : p.length = 8 ∧ ∀ x ∈ p, x < 65536 := by
  unfold ipv6Parse at h
  simp only at h
  split at h; · cases h
  rename_i t ps comp hstart
  have hps : ps = [] := by
    split at hstart
    · injection hstart with e; injection e with _ e; injection e with e _; exact e.symm
    · cases hstart
    · injection hstart with e; injection e with _ e; injection e with e _; exact e.symm
  subst hps
  split at h; · cases h
  rename_i pieces compress hloop
  have ⟨hsm, hle⟩ := ipv6Loop_inv _ _ _ _ _ (by intro x hx; simp at hx) (by simp) hloop
  simp only at hsm hle
  split at h
  · rename_i k
    split at h; · cases h
    rename_i h7
    injection h with h; subst h
    constructor
    · simp only [List.length_append, List.length_take, List.length_replicate, List.length_drop]; omega
    · intro x hx
      simp only [List.mem_append, List.mem_replicate] at hx
      rcases hx with (hx | hx) | hx
      · exact hsm x (List.mem_of_mem_take hx)
      · omega
      · exact hsm x (List.mem_of_mem_drop hx)
  · split at h
    · rename_i h8
      injection h with h; subst h
      exact ⟨by simpa using h8, hsm⟩
    · cases h

/-! ### what percent-encoding can produce -/
theorem mem_percentEncode (p : UInt8 → Bool) (s : Bytes) (b : UInt8) (h : b ∈ percentEncode p s) :
    (b ∈ s ∧ p b = false) ∨ b = 0x25 ∨ ∃ n, n < 16 ∧ b = hexUpper n := by
  simp only [percentEncode, List.mem_flatMap] at h
  obtain ⟨a, ha, hb⟩ := h
  split at hb
  · simp only [pctByte, List.mem_cons, List.not_mem_nil, or_false] at hb
    rcases hb with rfl | rfl | rfl
    · right; left; rfl
    · right; right; exact ⟨_, by have := a.toNat_lt; omega, rfl⟩
    · right; right; exact ⟨_, Nat.mod_lt _ (by decide), rfl⟩
  · rename_i hp
    simp only [List.mem_singleton] at hb; subst hb
    left; exact ⟨ha, by simpa using hp⟩

/-- `%` and the upper-case hex digits belong to no percent-encode set, are no separators and no forbidden host bytes -/
theorem pctb_facts (b : UInt8) (h : b = 0x25 ∨ ∃ n, n < 16 ∧ b = hexUpper n) :
    inC0 b = false ∧ inFragment b = false ∧ inQuery b = false ∧ inSpecialQuery b = false ∧ inPath b = false ∧
    inUserinfo b = false ∧ isForbiddenHost b = false ∧ b ≠ 0x2F ∧ b ≠ 0x5C ∧ b ≠ 0x3F ∧ b ≠ 0x23 := by
  have t : ∀ n : Fin 16, inC0 (hexUpper n.val) = false ∧ inFragment (hexUpper n.val) = false ∧ inQuery (hexUpper n.val) = false ∧
      inSpecialQuery (hexUpper n.val) = false ∧ inPath (hexUpper n.val) = false ∧ inUserinfo (hexUpper n.val) = false ∧
      isForbiddenHost (hexUpper n.val) = false ∧ hexUpper n.val ≠ 0x2F ∧ hexUpper n.val ≠ 0x5C ∧ hexUpper n.val ≠ 0x3F ∧
      hexUpper n.val ≠ 0x23 := by decide +kernel
  rcases h with rfl | ⟨n, hn, rfl⟩
  · decide
  · exact t ⟨n, hn⟩

theorem percentEncode_clean (p : UInt8 → Bool) (hp : ∀ b, (b = 0x25 ∨ ∃ n, n < 16 ∧ b = hexUpper n) → p b = false) (s : Bytes) :
    ∀ b ∈ percentEncode p s, p b = false := by
  intro b hb
  rcases mem_percentEncode p s b hb with h | h
  · exact h.2
  · exact hp b h

/-! ### domains -/
/-- the assumption on the IDNA parameter (UTS46 ToASCII): what it returns is ASCII and stable under domain-to-ASCII -/
def IdnaStable (idna : Idna) : Prop :=
  ∀ d r, idna.toAscii d = some r → r ≠ [] → domainToAscii idna r = some r ∧ isAsciiBytes r = true

theorem lower_facts : ∀ a : UInt8,
    ((toLowerByte a == 0x2E) = (a == 0x2E)) ∧ (a.toNat < 0x80 → (toLowerByte a).toNat < 0x80) ∧
    toLowerByte (toLowerByte a) = toLowerByte a ∧
    ((toLowerByte a == 0x78 || toLowerByte a == 0x58) = (a == 0x78 || a == 0x58)) ∧
    ((toLowerByte a == 0x6E || toLowerByte a == 0x4E) = (a == 0x6E || a == 0x4E)) ∧
    ((toLowerByte a == 0x2D) = (a == 0x2D)) := by
  apply forall_uint8_of_fin; decide +kernel

theorem splitOn_map_lower (d : Bytes) : splitOn 0x2E (d.map toLowerByte) = (splitOn 0x2E d).map (·.map toLowerByte) := by
  induction d with
  | nil => rfl
  | cons b t ih =>
    simp only [List.map_cons, splitOn, (lower_facts b).1]
    split
    · simp [ih]
    · rw [ih]
      cases splitOn 0x2E t <;> simp

theorem startsWithXn_lower (l : Bytes) : startsWithXn (l.map toLowerByte) = startsWithXn l := by
  match l with
  | [] => rfl
  | [_] => rfl
  | [_, _] => rfl
  | [_, _, _] => rfl
  | a :: b :: c :: d :: _ =>
    simp only [List.map_cons, startsWithXn, (lower_facts a).2.2.2.1, (lower_facts b).2.2.2.2.1, (lower_facts c).2.2.2.2.2,
      (lower_facts d).2.2.2.2.2]

theorem domainToAscii_stable (idna : Idna) (hst : IdnaStable idna) (d r : Bytes) (h : domainToAscii idna d = some r) :
    domainToAscii idna r = some r ∧ isAsciiBytes r = true := by
  have hne := domainToAscii_ne_nil idna d r h
  unfold domainToAscii at h
  simp only at h
  split at h
  · rename_i x hx
    split at h; · cases h
    injection h with h; subst h
    split at hx
    · rename_i hcond
      injection hx with hx; subst hx
      simp only [Bool.and_eq_true, Bool.not_eq_eq_eq_not, Bool.not_true] at hcond
      obtain ⟨hasc, hxn⟩ := hcond
      have hasc' : isAsciiBytes (d.map toLowerByte) = true := by
        simp only [isAsciiBytes, List.all_eq_true, decide_eq_true_eq, List.mem_map] at hasc ⊢
        rintro b ⟨a, ha, rfl⟩
        exact (lower_facts a).2.1 (hasc a ha)
      have hxn' : (splitOn 0x2E (d.map toLowerByte)).any startsWithXn = false := by
        rw [splitOn_map_lower, List.any_map]
        rw [← hxn]
        congr 1
        funext l
        exact startsWithXn_lower l
      have hmap : (d.map toLowerByte).map toLowerByte = d.map toLowerByte := by
        rw [List.map_map]
        apply List.map_congr_left
        intro a _
        exact (lower_facts a).2.2.1
      refine ⟨?_, hasc'⟩
      unfold domainToAscii
      simp only [hasc', hxn', Bool.not_false, Bool.and_self, ↓reduceIte, hmap]
      cases hm : d.map toLowerByte with
      | nil => exact absurd hm hne
      | cons => rfl
    · exact hst d x hx hne
  · cases h

/-! ### the host parser returns canonical hosts -/
theorem hostParse_canon (idna : Idna) (hst : IdnaStable idna) (s : Bytes) (opq : Bool) (h : Host) (hs : s ≠ [])
    (hp : hostParse idna s opq = some h) : HostCanon idna (!opq) h ∧ h ≠ .empty := by
  unfold hostParse at hp
  split at hp
  · split at hp
    · cases hp
    · simp only [Option.map_eq_some_iff] at hp
      obtain ⟨a, ha, rfl⟩ := hp
      exact ⟨ipv6Parse_shape _ _ ha, by simp⟩
  · split at hp
    · rename_i hopq
      unfold opaqueHostParse at hp
      split at hp
      · cases hp
      · rename_i hforb
        injection hp with hp; subst hp
        have hne := percentEncode_ne_nil inC0 s hs
        have hfs : ∀ b ∈ s, isForbiddenHost b = false := by simpa [List.any_eq_false] using hforb
        refine ⟨⟨by simp [hopq], hne, ?_, ?_⟩, by simp⟩
        · simp only [List.any_eq_false]
          intro b hb
          rcases mem_percentEncode inC0 s b hb with h1 | h1
          · simp [hfs b h1.1]
          · simp [(pctb_facts b h1).2.2.2.2.2.2.1]
        · exact percentEncode_clean inC0 (fun b hb => (pctb_facts b hb).1) s
    · rename_i hopq
      have hopq' : opq = false := by simpa using hopq
      simp only at hp
      split at hp
      · cases hp
      · rename_i ascii hd
        split at hp
        · cases hp
        · rename_i hforb
          split at hp
          · simp only [Option.map_eq_some_iff] at hp
            obtain ⟨a, ha, rfl⟩ := hp
            exact ⟨⟨by simp [hopq'], ipv4Parse_lt _ _ ha⟩, by simp⟩
          · rename_i hnum
            injection hp with hp; subst hp
            have hst' := domainToAscii_stable idna hst _ _ hd
            refine ⟨⟨by simp [hopq'], domainToAscii_ne_nil idna _ _ hd, by simpa using hforb, by simpa using hnum,
              hst'.1, hst'.2⟩, by simp⟩

end AdaVerif.Lemmas.HC

import AdaVerif.Lemmas.FastNumber
/-
C08: what the merged authority + host scan of the fast scanner has established when it runs to the end of the
authority (every early return of that loop is `nullopt`).
-/
namespace AdaVerif.Lemmas.FS
open AdaVerif AdaVerif.Spec AdaVerif.Lemmas AdaVerif.Model.FastScan

/-- the byte at which the authority ends -/
def delimHead (rest : Bytes) : Prop := ∀ b, rest.head? = some b → (b = 0x2F ∨ b = 0x3F ∨ b = 0x23 ∨ b = 0x5C)

/-- bytes the loop steps over -/
def authByte (b : UInt8) : Prop :=
  b.toNat < 0x80 ∧ b ≠ 0x2F ∧ b ≠ 0x3F ∧ b ≠ 0x23 ∧ b ≠ 0x5C ∧ b ≠ 0x40 ∧ b ≠ 0x25 ∧ isTabNl b = false

/-- bytes the loop accepts as host bytes -/
def hostOk (b : UInt8) : Prop := authByte b ∧ b ≠ 0x3A ∧ isForbiddenDomain b = false

theorem authScan_inl (l : Bytes) (i : Nat) (st : AuthSt) (r : Option Bool) (h : authScan l i st = .inl r) : r = none := by
  induction l generalizing i st with
  | nil => simp [authScan] at h
  | cons c rest ih =>
    unfold authScan at h
    split at h; · injection h with h; exact h.symm
    split at h; · cases h
    split at h; · exact ih _ _ h
    split at h; · injection h with h; exact h.symm
    split at h; · injection h with h; exact h.symm
    split at h; · exact ih _ _ h
    split at h; · injection h with h; exact h.symm
    simp only at h
    split at h; · injection h with h; exact h.symm
    exact ih _ _ h

/-- once the port colon has been seen, the loop only looks for the end of the authority -/
theorem authScan_port (l : Bytes) (i : Nat) (st : AuthSt) (hp : st.portColon.isSome = true) (e : Nat) (st' : AuthSt)
    (h : authScan l i st = .inr (e, st')) :
    st' = st ∧ ∃ port rest, l = port ++ rest ∧ e = i + port.length ∧ delimHead rest ∧ ∀ b ∈ port, authByte b := by
  induction l generalizing i with
  | nil =>
    simp only [authScan, Sum.inr.injEq, Prod.mk.injEq] at h
    exact ⟨h.2.symm, [], [], rfl, by simp [h.1], by intro b hb; simp at hb, by simp⟩
  | cons c rest ih =>
    unfold authScan at h
    split at h; · cases h
    rename_i h80
    split at h
    · rename_i hd
      simp only [Sum.inr.injEq, Prod.mk.injEq] at h
      refine ⟨h.2.symm, [], c :: rest, rfl, by simp [h.1], ?_, by simp⟩
      intro b hb
      simp only [List.head?_cons, Option.some.injEq] at hb; subst hb
      simp only [Bool.or_eq_true, beq_iff_eq] at hd
      rcases hd with ((h1 | h1) | h1) | h1 <;> simp [h1]
    rename_i hnd
    have hnd' : c ≠ 0x2F ∧ c ≠ 0x3F ∧ c ≠ 0x23 ∧ c ≠ 0x5C := by
      simp only [Bool.or_eq_true, beq_iff_eq, not_or] at hnd
      exact ⟨hnd.1.1.1, hnd.1.1.2, hnd.1.2, hnd.2⟩
    have step : ∀ (hab : authByte c), authScan rest (i + 1) st = .inr (e, st') →
        st' = st ∧ ∃ port rest', c :: rest = port ++ rest' ∧ e = i + port.length ∧ delimHead rest' ∧ ∀ b ∈ port, authByte b := by
      intro hab hh
      obtain ⟨hst, port, rest', e1, e2, e3, e4⟩ := ih _ hh
      refine ⟨hst, c :: port, rest', by rw [e1]; rfl, by simp [e2]; omega, e3, ?_⟩
      intro b hb
      rcases List.mem_cons.mp hb with rfl | hb
      · exact hab
      · exact e4 b hb
    split at h
    · rename_i hcolon
      have hc : c = 0x3A := by simpa using hcolon
      have hst : (if st.portColon.isNone = true then { st with portColon := some i } else st) = st := by
        have : st.portColon.isNone = false := by
          cases hq : st.portColon with
          | none => rw [hq] at hp; cases hp
          | some _ => rfl
        simp [this]
      rw [hst] at h
      exact step (by subst hc; unfold authByte; decide) h
    rename_i hncolon
    split at h; · cases h
    rename_i hat
    split at h; · cases h
    rename_i htn
    have hab : authByte c := by
      have hat' : c ≠ 0x40 ∧ c ≠ 0x25 := by simpa using hat
      exact ⟨by omega, hnd'.1, hnd'.2.1, hnd'.2.2.1, hnd'.2.2.2, hat'.1, hat'.2, by simpa using htn⟩
    first
      | exact step hab h
      | (split at h
         · exact step hab h
         · rename_i hno; exact absurd hp hno)

def ddByte (b : UInt8) : Bool := b == 0x2E || isDigit b

theorem host_byte_table : ∀ c : UInt8, c.toNat < 0x80 → c ≠ 0x2F → c ≠ 0x3F → c ≠ 0x23 → c ≠ 0x5C → c ≠ 0x3A → c ≠ 0x40 →
    c ≠ 0x25 → (c.toNat ≤ 0x20 || c == 0x7F || c == 0x3C || c == 0x3E || c == 0x5B || c == 0x5D || c == 0x5E || c == 0x7C) = false →
    isForbiddenDomain c = false := by
  apply forall_uint8_of_fin; decide +kernel

theorem lnd_cons (c : UInt8) (host : Bytes) (d : UInt8) :
    (lnd (c :: host)).getD d = (lnd host).getD (if c != 0x2E then c else d) := by
  unfold lnd
  simp only [List.filter_cons]
  by_cases hc : (c != 0x2E) = true
  · simp only [hc, ↓reduceIte]
    cases hq : (host.filter (· != 0x2E)) with
    | nil => simp
    | cons x t =>
      have : (c :: x :: t).getLast? = (x :: t).getLast? := by simp [List.getLast?_cons_cons]
      rw [this]
      cases hg : (x :: t).getLast? with
      | none => simp at hg
      | some z => rfl
  · simp only [hc, Bool.false_eq_true, ↓reduceIte]

/-- the host phase of the loop -/
theorem authScan_host (l : Bytes) (i : Nat) (st : AuthSt) (hp : st.portColon = none) (e : Nat) (st' : AuthSt)
    (h : authScan l i st = .inr (e, st')) :
    ∃ host tl, l = host ++ tl ∧ (∀ b ∈ host, hostOk b) ∧
      (∀ a b, host = a ++ b → b ≠ [] → xnAt (b ++ tl) = false) ∧
      st'.allDecDots = (st.allDecDots && host.all ddByte) ∧
      st'.lastNonDot = (lnd host).getD st.lastNonDot ∧
      ((delimHead tl ∧ st'.portColon = none ∧ e = i + host.length) ∨
       (∃ port rest, tl = 0x3A :: (port ++ rest) ∧ st'.portColon = some (i + host.length) ∧
          e = i + host.length + 1 + port.length ∧ delimHead rest ∧ ∀ b ∈ port, authByte b)) := by
  induction l generalizing i st with
  | nil =>
    simp only [authScan, Sum.inr.injEq, Prod.mk.injEq] at h
    obtain ⟨h1, h2⟩ := h
    subst h2
    refine ⟨[], [], rfl, by simp, by intro a b hab hb; simp at hab; exact absurd hab.2 hb, by simp, by simp [lnd], ?_⟩
    left; exact ⟨by intro b hb; simp at hb, hp, by simp [h1]⟩
  | cons c rest ih =>
    unfold authScan at h
    split at h; · cases h
    rename_i h80
    split at h
    · rename_i hd
      simp only [Sum.inr.injEq, Prod.mk.injEq] at h
      obtain ⟨h1, h2⟩ := h
      subst h2
      refine ⟨[], c :: rest, rfl, by simp, by intro a b hab hb; simp at hab; exact absurd hab.2 hb, by simp, by simp [lnd], ?_⟩
      left
      refine ⟨?_, hp, by simp [h1]⟩
      intro b hb
      simp only [List.head?_cons, Option.some.injEq] at hb; subst hb
      simp only [Bool.or_eq_true, beq_iff_eq] at hd
      rcases hd with ((h1 | h1) | h1) | h1 <;> simp [h1]
    rename_i hnd
    have hnd' : c ≠ 0x2F ∧ c ≠ 0x3F ∧ c ≠ 0x23 ∧ c ≠ 0x5C := by
      simp only [Bool.or_eq_true, beq_iff_eq, not_or] at hnd
      exact ⟨hnd.1.1.1, hnd.1.1.2, hnd.1.2, hnd.2⟩
    split at h
    · rename_i hcolon
      have hc : c = 0x3A := by simpa using hcolon
      subst hc
      simp only [hp, Option.isNone_none, ↓reduceIte] at h
      obtain ⟨hst, port, rest', e1, e2, e3, e4⟩ := authScan_port rest (i + 1) _ (by simp) e st' h
      subst hst
      refine ⟨[], 0x3A :: rest, rfl, by simp, by intro a b hab hb; simp at hab; exact absurd hab.2 hb, by simp, by simp [lnd], ?_⟩
      right
      exact ⟨port, rest', by rw [e1], by simp, by simp [e2], e3, e4⟩
    rename_i hncolon
    have hncolon' : c ≠ 0x3A := by simpa using hncolon
    split at h; · cases h
    rename_i hat
    have hat' : c ≠ 0x40 ∧ c ≠ 0x25 := by simpa using hat
    split at h; · cases h
    rename_i htn
    have hab : authByte c :=
      ⟨by omega, hnd'.1, hnd'.2.1, hnd'.2.2.1, hnd'.2.2.2, hat'.1, hat'.2, by simpa using htn⟩
    simp only [hp, Option.isSome_none, Bool.false_eq_true, ↓reduceIte] at h
    split at h; · cases h
    rename_i hforb
    split at h; · cases h
    rename_i hxn
    have hok : hostOk c := ⟨hab, hncolon', host_byte_table c (by omega) hnd'.1 hnd'.2.1 hnd'.2.2.1 hnd'.2.2.2 hncolon' hat'.1 hat'.2
      (by simpa using hforb)⟩
    obtain ⟨host, tl, e1, e2, e3, e4, e5, e6⟩ := ih (i + 1) _ (by split <;> split <;> first | rfl | exact hp) h
    refine ⟨c :: host, tl, by rw [e1]; rfl, ?_, ?_, ?_, ?_, ?_⟩
    · intro b hb
      rcases List.mem_cons.mp hb with rfl | hb
      · exact hok
      · exact e2 b hb
    · intro a b hab hb
      cases a with
      | nil =>
        simp only [List.nil_append] at hab
        subst hab
        rw [List.cons_append, ← e1]
        simpa using hxn
      | cons a0 a' =>
        simp only [List.cons_append, List.cons.injEq] at hab
        exact e3 a' b hab.2 hb
    · rw [e4]
      simp only [List.all_cons, ddByte]
      by_cases hdot : (c != 0x2E) = true <;> by_cases hdig : isDigit c = true <;> simp_all
    · rw [e5, lnd_cons]
      by_cases hdot : (c != 0x2E) = true <;> by_cases hdig : isDigit c = true <;> simp_all
    · rcases e6 with ⟨g1, g2, g3⟩ | ⟨port, rest', g1, g2, g3, g4, g5⟩
      · left
        refine ⟨g1, ?_, by simp [g3]; omega⟩
        rw [g2]
      · right
        refine ⟨port, rest', g1, ?_, by simp [g3]; omega, g4, g5⟩
        rw [g2]; simp; omega

end AdaVerif.Lemmas.FS

import AdaVerif.Model.UrlSetters
import AdaVerif.Lemmas.AggSetters
import AdaVerif.Lemmas.PathMain
/-
The component setters of `ada::url` (Model/UrlSetters.lean) implement the Standard's API setters (Spec/Setters.lean):
for every URL record of the Standard, the C++ setter applied to the `ada::url` holding that record yields the
`ada::url` holding the Standard's result when its href fits the limit, and otherwise leaves it as it was and
reports failure.
-/
namespace AdaVerif.Lemmas.UR
open AdaVerif AdaVerif.Model AdaVerif.Model.UrlRec AdaVerif.Model.Agg AdaVerif.Lemmas.AggL

/-- the `ada::url` object that holds the Standard's record `u` -/
def recOf (u : Spec.Url) : Rec :=
  { scheme := u.scheme, special := u.isSpecial, username := u.username, password := u.password,
    host := u.host.map Spec.Host.serialize, port := u.port, path := u.pathSerialized,
    query := u.query, hash := u.fragment, opq := u.isOpaque }

theorem ite_gt {α : Type} (a L : Nat) (x y : α) : (if a > L then x else y) = if a ≤ L then y else x := by
  by_cases h : a ≤ L
  · have : ¬ a > L := by omega
    simp [h, this]
  · have : a > L := by omega
    simp [h, this]

theorem cannot_iffR (u : Spec.Url) (ok : CredOk u) (ty : Nat) (hty : (ty == 6) = (u.scheme == Spec.bFile)) :
    (recOf u).cannotHaveCredentialsOrPort ty = u.cannotHaveUsernamePasswordPort := by
  unfold Rec.cannotHaveCredentialsOrPort Spec.Url.cannotHaveUsernamePasswordPort
  rw [hty]
  cases hh : u.host with
  | none => simp [recOf, hh]
  | some h =>
    by_cases he : h = .empty
    · subst he; simp [recOf, hh, Spec.Host.serialize]
    · have hne := ok.nonEmpty h hh he
      have h1 : (some h.serialize == some ([] : Bytes)) = false := by simpa using hne
      have h2 : (some h == some Spec.Host.empty) = false := by simpa using he
      simp [recOf, hh, h1, h2]

/-- **set_username** -/
theorem setUsernameR_eq (L ty : Nat) (u : Spec.Url) (v : Bytes) (ok : CredOk u) (hty : (ty == 6) = (u.scheme == Spec.bFile)) :
    setUsernameR L ty (recOf u) v =
      if u.cannotHaveUsernamePasswordPort then (recOf u, false)
      else if getHrefSize (recOf (Spec.setUsername u v)) ≤ L then (recOf (Spec.setUsername u v), true)
      else (recOf u, false) := by
  unfold setUsernameR
  rw [cannot_iffR u ok ty hty]
  cases hc : u.cannotHaveUsernamePasswordPort
  · have e : ({ recOf u with username := Spec.percentEncode Spec.inUserinfo v } : Rec) = recOf (Spec.setUsername u v) := by
      simp [Spec.setUsername, hc, recOf, Spec.Url.isSpecial, Spec.Url.pathSerialized]
    simp only [Bool.false_eq_true, ↓reduceIte, e, ite_gt]
  · simp

/-- **set_password** -/
theorem setPasswordR_eq (L ty : Nat) (u : Spec.Url) (v : Bytes) (ok : CredOk u) (hty : (ty == 6) = (u.scheme == Spec.bFile)) :
    setPasswordR L ty (recOf u) v =
      if u.cannotHaveUsernamePasswordPort then (recOf u, false)
      else if getHrefSize (recOf (Spec.setPassword u v)) ≤ L then (recOf (Spec.setPassword u v), true)
      else (recOf u, false) := by
  unfold setPasswordR
  rw [cannot_iffR u ok ty hty]
  cases hc : u.cannotHaveUsernamePasswordPort
  · have e : ({ recOf u with password := Spec.percentEncode Spec.inUserinfo v } : Rec) = recOf (Spec.setPassword u v) := by
      simp [Spec.setPassword, hc, recOf, Spec.Url.isSpecial, Spec.Url.pathSerialized]
    simp only [Bool.false_eq_true, ↓reduceIte, e, ite_gt]
  · simp

theorem defaultPort_pos (s : Bytes) (d : Nat) (h : Spec.defaultPort s = some d) : d ≠ 0 := by
  unfold Spec.defaultPort at h
  repeat' split at h
  all_goals first | (injection h with h; omega) | cases h

/-- `is_port_valid` of `url::parse_port` is "not the scheme's default port" -/
theorem portValid_eq (s : Bytes) (p : Nat) :
    (((Spec.defaultPort s).getD 0 == 0 && p == 0) || (Spec.defaultPort s).getD 0 != p) = !(Spec.defaultPort s == some p) := by
  cases hd : Spec.defaultPort s with
  | none =>
    by_cases hp : p = 0
    · simp [hp]
    · simp [hp]; omega
  | some d =>
    have := defaultPort_pos s d hd
    have h0 : (d == 0) = false := by simpa using this
    by_cases hp : d = p
    · subst hp; simp [h0]
    · have : (d == p) = false := by simpa using hp
      simp [h0, this, bne]

/-- **set_port** -/
theorem setPortR_eq (L ty : Nat) (u : Spec.Url) (v : Bytes) (ok : CredOk u) (hty : (ty == 6) = (u.scheme == Spec.bFile)) :
    setPortR L ty ((Spec.defaultPort u.scheme).getD 0) (recOf u) v =
      if u.cannotHaveUsernamePasswordPort then (recOf u, false)
      else if v.isEmpty then (recOf (Spec.setPort u v), true)
      else match Spec.stripTN v with
        | [] => (recOf u, true)
        | c :: _ =>
          if !isAsciiDigit c then (recOf u, false)
          else if Spec.parseRadix 10 ((Spec.stripTN v).takeWhile isAsciiDigit) > 65535 then (recOf u, false)
          else if getHrefSize (recOf (Spec.setPort u v)) ≤ L then (recOf (Spec.setPort u v), true)
          else (recOf u, false) := by
  unfold setPortR
  rw [cannot_iffR u ok ty hty]
  cases hc : u.cannotHaveUsernamePasswordPort
  · simp only [Bool.false_eq_true, ↓reduceIte]
    by_cases hv : v.isEmpty = true
    · have hv' : v = [] := by cases v <;> simp_all
      subst hv'
      simp [Spec.setPort, hc, recOf, Spec.Url.isSpecial, Spec.Url.pathSerialized]
    · simp only [hv, Bool.false_eq_true, ↓reduceIte]
      cases ht : Spec.stripTN v with
      | nil => simp
      | cons c t =>
        simp only
        by_cases hd : isAsciiDigit c = true
        · simp only [hd, Bool.not_true, Bool.false_eq_true, ↓reduceIte]
          by_cases hbig : Spec.parseRadix 10 ((c :: t).takeWhile isAsciiDigit) > 65535
          · simp [hbig]
          · simp only [hbig, ↓reduceIte]
            have hne : ((c :: t).takeWhile isAsciiDigit).isEmpty = false := by simp [List.takeWhile, hd]
            have hspec : Spec.setPort u v =
                (if Spec.defaultPort u.scheme == some (Spec.parseRadix 10 ((c :: t).takeWhile isAsciiDigit))
                 then { u with port := none } else { u with port := some (Spec.parseRadix 10 ((c :: t).takeWhile isAsciiDigit)) }) := by
              simp only [Spec.setPort, hc, Bool.false_eq_true, ↓reduceIte, hv, ht, Spec.portOverride, hne, hbig]
            rw [hspec, portValid_eq]
            generalize Spec.parseRadix 10 ((c :: t).takeWhile isAsciiDigit) = p
            by_cases hdp : (Spec.defaultPort u.scheme == some p) = true
            · have e : ({ recOf u with port := none } : Rec) = recOf { u with port := none } := by
                simp [recOf, Spec.Url.isSpecial, Spec.Url.pathSerialized]
              simp only [hdp, Bool.not_true, Bool.false_eq_true, ↓reduceIte, e, ite_gt]
            · have e : ({ recOf u with port := some p } : Rec) = recOf { u with port := some p } := by
                simp [recOf, Spec.Url.isSpecial, Spec.Url.pathSerialized]
              have hdp' : (Spec.defaultPort u.scheme == some p) = false := by simpa using hdp
              simp only [hdp', Bool.not_false, Bool.false_eq_true, ↓reduceIte, e, ite_gt]
        · simp [hd]
  · simp

theorem strip_eq (u : Spec.Url) : stripTrailingSpacesR (recOf u) = recOf u.stripTrailingSpaces := by
  unfold stripTrailingSpacesR Spec.Url.stripTrailingSpaces
  by_cases ho : u.isOpaque = true
  · cases hf : u.fragment <;> cases hq : u.query <;>
      simp [recOf, ho, hf, hq, Spec.Url.isSpecial, Spec.Url.pathSerialized]
  · simp [recOf, ho]

/-- **set_hash** -/
theorem setHashR_eq (L : Nat) (u : Spec.Url) (v : Bytes) :
    setHashR L (recOf u) v =
      if v.isEmpty then recOf (Spec.setHash u v)
      else if getHrefSize (recOf (Spec.setHash u v)) ≤ L then recOf (Spec.setHash u v) else recOf u := by
  unfold setHashR
  rcases v with _ | ⟨b, t⟩
  · have e : ({ recOf u with hash := none } : Rec) = recOf { u with fragment := none } := by
      simp [recOf, Spec.Url.isSpecial, Spec.Url.pathSerialized]
    simp only [List.isEmpty_nil, ↓reduceIte, e, strip_eq, Spec.setHash]
  · have e : ({ recOf u with hash := some (Spec.percentEncode Spec.inFragment (Spec.stripTN (dropLeading 0x23 (b :: t)))) } : Rec) =
        recOf (Spec.setHash u (b :: t)) := by
      by_cases hb : b = 0x23
      · subst hb; simp [Spec.setHash, recOf, dropLeading, Spec.Url.isSpecial, Spec.Url.pathSerialized]
      · have e2 : Spec.setHash u (b :: t) = { u with fragment := some (Spec.percentEncode Spec.inFragment (Spec.stripTN (b :: t))) } := by
          unfold Spec.setHash
          simp only [List.isEmpty_cons, Bool.false_eq_true, ↓reduceIte]
          split
          · rename_i rest heq; injection heq with h1 h2; exact absurd h1 hb
          · rfl
        rw [e2]
        simp [recOf, dropLeading, hb, Spec.Url.isSpecial, Spec.Url.pathSerialized]
    simp only [List.isEmpty_cons, Bool.false_eq_true, ↓reduceIte, e, ite_gt]

/-- **set_search** -/
theorem setSearchR_eq (L : Nat) (u : Spec.Url) (v : Bytes) :
    setSearchR L (recOf u) v =
      if v.isEmpty then recOf (Spec.setSearch u v)
      else if getHrefSize (recOf (Spec.setSearch u v)) ≤ L then recOf (Spec.setSearch u v) else recOf u := by
  unfold setSearchR
  rcases v with _ | ⟨b, t⟩
  · have e : ({ recOf u with query := none } : Rec) = recOf { u with query := none } := by
      simp [recOf, Spec.Url.isSpecial, Spec.Url.pathSerialized]
    simp only [List.isEmpty_nil, ↓reduceIte, e, strip_eq, Spec.setSearch]
  · have e : ({ recOf u with query := some (Spec.encodeQuery (recOf u).special (Spec.stripTN (dropLeading 0x3F (b :: t)))) } : Rec) =
        recOf (Spec.setSearch u (b :: t)) := by
      by_cases hb : b = 0x3F
      · subst hb; simp [Spec.setSearch, recOf, dropLeading, Spec.Url.isSpecial, Spec.Url.pathSerialized]
      · have e2 : Spec.setSearch u (b :: t) = { u with query := some (Spec.encodeQuery u.isSpecial (Spec.stripTN (b :: t))) } := by
          unfold Spec.setSearch
          simp only [List.isEmpty_cons, Bool.false_eq_true, ↓reduceIte]
          split
          · rename_i rest heq; injection heq with h1 h2; exact absurd h1 hb
          · rfl
        rw [e2]
        simp [recOf, dropLeading, hb, Spec.Url.isSpecial, Spec.Url.pathSerialized]
    simp only [List.isEmpty_cons, Bool.false_eq_true, ↓reduceIte, e, ite_gt]

end AdaVerif.Lemmas.UR

namespace AdaVerif.Lemmas.UR
open AdaVerif AdaVerif.Model AdaVerif.Model.UrlRec AdaVerif.Model.Agg AdaVerif.Lemmas.AggL

theorem pathState_nil (scheme : Bytes) : Spec.pathState scheme [] [] = [[]] := by
  have h0 : Spec.percentEncode Spec.inPath [] = [] := by decide
  have h1 : Spec.isDoubleDot [] = false := by decide
  have h2 : Spec.isSingleDot [] = false := by decide
  have h3 : Spec.isWindowsDriveLetter [] = false := by decide
  simp [Spec.pathState, Spec.splitPath, Spec.pathSegments, h0, h1, h2, h3]

theorem pathSerialized_text (u : Spec.Url) (ho : u.isOpaque = false) : u.pathSerialized = FP.pathText u.path := by
  simp [Spec.Url.pathSerialized, ho, FP.pathText]

theorem prepared_nil (scheme : Bytes) (ty : Nat) (hty : PP.TyOf scheme ty) (input : Bytes) :
    PathPrepared.parsePreparedPath input ty [] = FP.pathText (Spec.pathState scheme [] input) := by
  have := PP.parsePreparedPath_eq scheme ty hty input [] (by intro s hs; cases hs)
  simpa [FP.pathText, Spec.pathState] using this

/-- `url::parse_path` on a cleared path is the Standard's path start state with a state override -/
theorem parsePathR_eq (ty : Nat) (u : Spec.Url) (v : Bytes) (hty : PP.TyOf u.scheme ty) (ho : u.isOpaque = false)
    (r0 : Rec) (h0 : r0 = { recOf u with path := [] }) :
    parsePathR ty r0 v = recOf (Spec.setPathname u v) := by
  subst h0
  unfold parsePathR Spec.setPathname
  simp only [ho, Bool.false_eq_true, ↓reduceIte]
  have hsp : (recOf u).special = u.isSpecial := rfl
  have hhost : (recOf u).host.isNone = u.host.isNone := by cases h : u.host <;> simp [recOf, h]
  simp only [hsp, hhost]
  by_cases hs : u.isSpecial = true
  · have hs' : Spec.isSpecialScheme u.scheme = true := hs
    simp only [hs, ↓reduceIte]
    cases ht : Spec.stripTN v with
    | nil => simp [pathState_nil, FP.pathText, recOf, Spec.Url.isSpecial, Spec.Url.pathSerialized, hs', ho]
    | cons c rest =>
      simp only
      split
      · rw [prepared_nil u.scheme ty hty]
        simp [FP.pathText, recOf, Spec.Url.isSpecial, Spec.Url.pathSerialized, hs', ho]
      · rw [prepared_nil u.scheme ty hty]
        simp [FP.pathText, recOf, Spec.Url.isSpecial, Spec.Url.pathSerialized, hs', ho]
  · have hs' : Spec.isSpecialScheme u.scheme = false := by simpa [Spec.Url.isSpecial] using hs
    simp only [hs, Bool.false_eq_true, ↓reduceIte]
    cases ht : Spec.stripTN v with
    | nil =>
      simp only
      cases hh : u.host.isNone <;> simp [FP.pathText, recOf, Spec.Url.isSpecial, Spec.Url.pathSerialized, hs', ho]
    | cons c rest =>
      simp only
      split
      · rw [prepared_nil u.scheme ty hty]
        simp [FP.pathText, recOf, Spec.Url.isSpecial, Spec.Url.pathSerialized, hs', ho]
      · rw [prepared_nil u.scheme ty hty]
        simp [FP.pathText, recOf, Spec.Url.isSpecial, Spec.Url.pathSerialized, hs', ho]

/-- **set_pathname** -/
theorem setPathnameR_eq (L ty : Nat) (u : Spec.Url) (v : Bytes) (hty : PP.TyOf u.scheme ty) :
    setPathnameR L ty (recOf u) v =
      if u.isOpaque then (recOf u, false)
      else if getHrefSize (recOf (Spec.setPathname u v)) ≤ L then (recOf (Spec.setPathname u v), true)
      else (recOf u, false) := by
  unfold setPathnameR
  have hop : (recOf u).opq = u.isOpaque := rfl
  cases ho : u.isOpaque
  · have hop' : (recOf u).opq = false := by rw [hop, ho]
    simp only [hop', Bool.false_eq_true, ↓reduceIte, ite_gt]
    rw [parsePathR_eq ty u v hty ho _ (by simp [recOf, ho])]
  · have hop' : (recOf u).opq = true := by rw [hop, ho]
    simp [hop']

end AdaVerif.Lemmas.UR

namespace AdaVerif.Lemmas.UR
open AdaVerif AdaVerif.Model AdaVerif.Model.UrlRec AdaVerif.Model.Agg AdaVerif.Lemmas.AggL

theorem nd_lt (f n : Nat) (h : n < 10) : Spec.natToDecF (f + 1) n = [UInt8.ofNat (48 + n)] := by
  rw [Spec.natToDecF]; simp only [h, ↓reduceIte]
theorem nd_ge (f n : Nat) (h : ¬ n < 10) : Spec.natToDecF (f + 1) n = Spec.natToDecF f (n / 10) ++ [UInt8.ofNat (48 + n % 10)] := by
  rw [Spec.natToDecF]; simp only [h, ↓reduceIte]

/-- `std::to_chars` of a port is the Standard's shortest decimal representation -/
theorem dec16_eq (p : Nat) (h : p < 65536) : dec16 p = Spec.natToDec p := by
  unfold dec16 Spec.natToDec digit
  have d1 : p / 10 / 10 = p / 100 := by omega
  have d2 : p / 100 / 10 = p / 1000 := by omega
  have d3 : p / 1000 / 10 = p / 10000 := by omega
  by_cases h4 : p ≥ 10000
  · simp only [h4, ↓reduceIte]
    rw [nd_ge 39 p (by omega), nd_ge 38 (p / 10) (by omega), d1, nd_ge 37 (p / 100) (by omega), d2,
      nd_ge 36 (p / 1000) (by omega), d3, nd_lt 35 (p / 10000) (by omega)]
    have : p / 10000 % 10 = p / 10000 := Nat.mod_eq_of_lt (by omega)
    simp [this]
  · simp only [h4, ↓reduceIte]
    by_cases h3 : p ≥ 1000
    · simp only [h3, ↓reduceIte]
      rw [nd_ge 39 p (by omega), nd_ge 38 (p / 10) (by omega), d1, nd_ge 37 (p / 100) (by omega), d2, nd_lt 36 (p / 1000) (by omega)]
      have : p / 1000 % 10 = p / 1000 := Nat.mod_eq_of_lt (by omega)
      simp [this]
    · simp only [h3, ↓reduceIte]
      by_cases h2 : p ≥ 100
      · simp only [h2, ↓reduceIte]
        rw [nd_ge 39 p (by omega), nd_ge 38 (p / 10) (by omega), d1, nd_lt 37 (p / 100) (by omega)]
        have : p / 100 % 10 = p / 100 := Nat.mod_eq_of_lt (by omega)
        simp [this]
      · simp only [h2, ↓reduceIte]
        by_cases h1 : p ≥ 10
        · simp only [h1, ↓reduceIte]
          rw [nd_ge 39 p (by omega), nd_lt 38 (p / 10) (by omega)]
          have : p / 10 % 10 = p / 10 := Nat.mod_eq_of_lt (by omega)
          simp [this]
        · simp only [h1, ↓reduceIte]
          rw [nd_lt 39 p (by omega)]
          have : p % 10 = p := Nat.mod_eq_of_lt (by omega)
          simp [this]

theorem sss_cons (x : UInt8) (t : Bytes) (hx : x ≠ 0x2F) : startsWithSlashSlash (0x2F :: x :: t) = false := by
  unfold startsWithSlashSlash
  split
  · rename_i heq; injection heq with _ e; injection e with e _; exact absurd e hx
  · rfl

/-- `path.starts_with("//")` is the Standard's "path has more than one segment and the first is empty" -/
theorem dashdot_eq (path : List Bytes) (hns : ∀ s ∈ path, (0x2F : UInt8) ∉ s) :
    startsWithSlashSlash (path.flatMap (fun seg => 0x2F :: seg)) = (decide (path.length > 1) && path.head? == some []) := by
  match path, hns with
  | [], _ => simp [startsWithSlashSlash]
  | [a], hns =>
    cases a with
    | nil => simp [startsWithSlashSlash]
    | cons x a' =>
      have hx : x ≠ 0x2F := by intro e; exact hns (x :: a') (by simp) (by simp [e])
      simp [sss_cons x _ hx]
  | a :: b :: r, hns =>
    cases a with
    | nil => simp [startsWithSlashSlash]
    | cons x a' =>
      have hx : x ≠ 0x2F := by intro e; exact hns (x :: a') (by simp) (by simp [e])
      simp [sss_cons x _ hx]

/-- both C++ types hold the same content: the `ada::url` record of `u` lays out as `u`'s aggregator buffer -/
theorem toL_recOf (u : Spec.Url) (ok : HostlessOk u) (hp : ∀ p, u.port = some p → p < 65536)
    (hns : ∀ s ∈ u.path, (0x2F : UInt8) ∉ s) : toL (recOf u) = ofUrl u := by
  have hport : u.port.map (fun p => (p, dec16 p)) = u.port.map (fun p => (p, Spec.natToDec p)) := by
    cases hpp : u.port with
    | none => rfl
    | some p => simp [dec16_eq p (hp p hpp)]
  cases hh : u.host with
  | none =>
    obtain ⟨hu, hpw, hpo⟩ := ok hh
    by_cases ho : u.isOpaque = true
    · simp [toL, recOf, ofUrl, hh, hu, hpw, hpo, ho, pathStartsSlashSlash]
    · have ho' : u.isOpaque = false := by simpa using ho
      have := dashdot_eq u.path hns
      simp [toL, recOf, ofUrl, hh, hu, hpw, hpo, ho', pathStartsSlashSlash, Spec.Url.pathSerialized, this]
  | some h =>
    simp [toL, recOf, ofUrl, hh, hport]

end AdaVerif.Lemmas.UR

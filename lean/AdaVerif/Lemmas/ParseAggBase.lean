import AdaVerif.Lemmas.ParseAgg
import AdaVerif.Lemmas.ParseBase
import AdaVerif.Lemmas.HostCanon
/-
`parse_url_impl<ada::url_aggregator>(input, &base)` (Model/ParseAgg.lean, `machineBA`) stays in step with the `ada::url`
instantiation (`machineB`) when the base object is the layout of a record with the record invariants: the relative states.
-/
namespace AdaVerif.Lemmas.PAB
open AdaVerif AdaVerif.Spec AdaVerif.Lemmas AdaVerif.Lemmas.AggL AdaVerif.Lemmas.PA AdaVerif.Model AdaVerif.Model.Agg
  AdaVerif.Model.ParseSpecial AdaVerif.Model.ParseAgg AdaVerif.Model.UrlRec AdaVerif.Model.HostParse

/-! ### helpers -/
theorem findColon_nocolon (u : Bytes) (h : (0x3A : UInt8) ∉ u) : findColon u = none := by
  unfold findColon
  have : u.takeWhile (· != 0x3A) = u := by
    apply PS.takeWhile_self
    intro b hb
    have : b ≠ 0x3A := fun e => h (e ▸ hb)
    simpa using this
  simp [this]

theorem findColon_at (u rest : Bytes) (h : (0x3A : UInt8) ∉ u) : findColon (u ++ 0x3A :: rest) = some u.length := by
  unfold findColon
  have : (u ++ 0x3A :: rest).takeWhile (· != 0x3A) = u := by
    rw [HS.takeWhile_prefix_stop _ u (0x3A :: rest) (Or.inr ⟨0x3A, rest, rfl, by decide⟩)]
    apply PS.takeWhile_self
    intro b hb
    have : b ≠ 0x3A := fun e => h (e ▸ hb)
    simpa using this
  simp [this]

/-- the object between `update_base_authority` and `update_host_to_base_host`: "//", the credentials, and no '@' yet -/
def A1 (s u p : Bytes) : Agg :=
  { buf := s ++ ([0x2F, 0x2F] ++ (u ++ passS p)), pe := s.length, ue := s.length + 2 + u.length,
    hs := s.length + 2 + u.length + (passS p).length, he := s.length + 2 + u.length + (passS p).length,
    ps := s.length + 2 + u.length + (passS p).length, port := none, ss := none, hh := none, opq := false }

/-- the text between the scheme and the host of a laid-out URL with an authority -/
theorem auth_slice (l : L) (ha : l.auth = true) :
    slice (layout l).buf (layout l).pe (layout l).hs = [0x2F, 0x2F] ++ (l.user ++ passS l.pass) := by
  have hb : (layout l).buf = l.scheme ++ (([0x2F, 0x2F] ++ (l.user ++ passS l.pass)) ++ (atS l.user l.pass ++ tailS l)) := by
    rw [buf_split]; simp [ha, authS, List.append_assoc]
  have hpe : (layout l).pe = l.scheme.length := rfl
  have hhs : (layout l).hs = l.scheme.length + ([0x2F, 0x2F] ++ (l.user ++ passS l.pass)).length := by
    simp [layout, ha, authS]; omega
  rw [slice, hb, hpe, hhs]
  generalize [0x2F, 0x2F] ++ (l.user ++ passS l.pass) = M
  generalize atS l.user l.pass ++ tailS l = R
  generalize l.scheme = S
  have : S ++ (M ++ R) = (S ++ M) ++ R := by simp
  rw [this, List.take_left' (by simp), List.drop_left' rfl]

theorem sinsert_end (X x : Bytes) (i : Nat) (h : i = X.length) : sinsert X i x = X ++ x := by
  subst h; simp [sinsert]

/-- the object that holds only its scheme -/
def bare (s : Bytes) : Agg :=
  { buf := s, pe := s.length, ue := s.length, hs := s.length, he := s.length, port := none, ps := s.length, ss := none, hh := none,
    opq := false }

theorem layout_LA_bare (s : Bytes) : layout (LA s false [] []) = bare s := by
  simp [layout, LA, bare, authS, passS, atS, portS, ddS, queryS, fragS]

/-- `update_base_authority` on an object that holds only its scheme, reading a base with the same scheme and an authority -/
theorem updateBaseAuthority_auth (s : Bytes) (lb : L) (hs : lb.scheme = s) (ha : lb.auth = true) (hc : (0x3A : UInt8) ∉ lb.user) :
    updateBaseAuthority (bare s) (layout lb).buf (layout lb).pe (layout lb).hs = A1 s lb.user lb.pass := by
  unfold updateBaseAuthority
  rw [auth_slice lb ha]
  have hbhs : (layout lb).hs = s.length + 2 + lb.user.length + (passS lb.pass).length := by
    simp [layout, ha, authS, hs]
  rw [hbhs]
  simp only [bare, List.take_left' (show ([0x2F, 0x2F] : Bytes).length = 2 from rfl), beq_self_eq_true, ↓reduceIte,
    List.drop_left' (show ([0x2F, 0x2F] : Bytes).length = 2 from rfl), Nat.sub_self, Nat.zero_add]
  have hser : serase s s.length 0 = s := by simp [serase]
  have hins : sinsert s s.length [0x2F, 0x2F] = s ++ [0x2F, 0x2F] := sinsert_end _ _ _ rfl
  rw [hser, hins]
  by_cases hp : lb.pass = []
  · -- no password: the user name alone, or nothing
    rw [hp]
    simp only [passS, List.isEmpty_nil, ↓reduceIte, List.append_nil, List.length_nil, Nat.add_zero]
    rw [findColon_nocolon _ hc]
    by_cases hu : lb.user = []
    · rw [hu]
      simp [A1, passS, at_, shiftO]
    · have hue : lb.user.isEmpty = false := by cases h : lb.user <;> simp_all
      simp only [hue, Bool.not_false, ↓reduceIte]
      rw [sinsert_end (s ++ [0x2F, 0x2F]) lb.user _ (by simp)]
      have hlen : ¬ (s ++ [0x2F, 0x2F] ++ lb.user).length > s.length + 2 + lb.user.length := by simp; omega
      simp only [hlen, decide_false, Bool.false_and, Bool.false_eq_true, ↓reduceIte]
      simp [A1, passS, shiftO]
      omega
  · have hpp : passS lb.pass = 0x3A :: lb.pass := passS_head hp
    rw [hpp, findColon_at _ _ hc]
    have hd : (lb.user ++ 0x3A :: lb.pass).drop (lb.user.length + 1) = lb.pass := by
      rw [show lb.user ++ 0x3A :: lb.pass = (lb.user ++ [0x3A]) ++ lb.pass by simp]
      exact List.drop_left' (by simp)
    simp only [List.take_left' rfl, hd]
    rw [sinsert_end (s ++ [0x2F, 0x2F]) lb.user _ (by simp)]
    rw [sinsert_end (s ++ [0x2F, 0x2F] ++ lb.user) [0x3A] _ (by simp; omega)]
    rw [sinsert_end (s ++ [0x2F, 0x2F] ++ lb.user ++ [0x3A]) lb.pass _ (by simp; omega)]
    have hlen : ¬ (s ++ [0x2F, 0x2F] ++ lb.user ++ [0x3A] ++ lb.pass).length > s.length + 2 + lb.user.length + (0x3A :: lb.pass).length := by
      simp; omega
    simp only [hlen, decide_false, Bool.false_and, Bool.false_eq_true, ↓reduceIte]
    simp [A1, hpp, shiftO]
    omega

theorem hasAuthority_A1 (s u p : Bytes) : hasAuthority (A1 s u p) = true := by
  unfold hasAuthority
  have h1 : at_ (A1 s u p).buf (A1 s u p).pe = 0x2F := by
    simp only [A1]
    rw [at_eq (A := s) (B := [0x2F, 0x2F] ++ (u ++ passS p)) rfl rfl]; rfl
  have h2 : at_ (A1 s u p).buf ((A1 s u p).pe + 1) = 0x2F := by
    simp only [A1]
    rw [at_peel]; rfl
  rw [h1, h2]
  have : (A1 s u p).pe + 2 ≤ (A1 s u p).hs := by simp only [A1]; omega
  simp [this]

/-- `update_base_hostname` right after `update_base_authority`: the '@' arrives with the host -/
theorem hostname_A1 (s u p h : Bytes) : updateBaseHostname (A1 s u p) h = layout (LH s u p h none) := by
  unfold updateBaseHostname addAuthoritySlashes
  simp only [hasAuthority_A1, ↓reduceIte]
  have hrr : replaceAndResize (A1 s u p).buf (A1 s u p).hs (A1 s u p).he h = ((A1 s u p).buf ++ h, (h.length : Int)) := by
    unfold replaceAndResize
    simp only [A1, Nat.sub_self, beq_self_eq_true, ↓reduceIte]
    rw [sinsert_end _ _ _ (by simp; omega)]
    simp
  rw [hrr]
  simp only
  by_cases hc : u = [] ∧ p = []
  · obtain ⟨hu, hp⟩ := hc
    subst hu; subst hp
    apply agg_ext <;> simp [A1, layout, LH, passS, atS, authS, portS, ddS, queryS, fragS, shift, shiftO] <;> omega
  · have hcred : (A1 s u p).pe + 2 < (A1 s u p).hs := by
      simp only [A1]
      have := cred_len hc
      omega
    simp only [hcred, decide_true, ↓reduceIte]
    have hat : atS u p = [0x40] := atS_of_cred hc
    rw [sinsert_at (A := (A1 s u p).buf) (B := h) (by simp [A1]; omega)]
    apply agg_ext <;> simp [A1, layout, LH, hat, authS, portS, ddS, queryS, fragS, shift, shiftO, List.append_assoc] <;> omega

/-! ### the base object -/
/-- what is assumed of the record the base object holds (all of it follows from the record invariants of C19 for a
    record that came out of the parser) -/
structure BaseRec (r : Rec) : Prop where
  hostless : r.host = none → r.username = [] ∧ r.password = [] ∧ r.port = none
  emptyHost : r.host = some [] → r.username = [] ∧ r.password = [] ∧ r.port = none
  specialHost : getSchemeType r.scheme ≠ 1 → r.host.isSome = true
  noColon : (0x3A : UInt8) ∉ r.username
  noAt : ∀ h, r.host = some h → h.headD 0 ≠ 0x40
  special : r.special = (getSchemeType r.scheme != 1)
  pathSegs : r.opq = false → ∃ segs, r.path = FP.pathText segs ∧ PP.NoSlash segs
  specialNotOpaque : getSchemeType r.scheme ≠ 1 → r.opq = false
  fileNoCred : getSchemeType r.scheme = 6 → r.username = [] ∧ r.password = [] ∧ r.port = none

theorem toL_na (r : Rec) (hb : BaseRec r) : NoAuthNoCred (toL r) := by
  intro h
  have : r.host = none := by
    cases hh : r.host with
    | none => rfl
    | some x => simp [toL, hh] at h
  simp [toL, this]

theorem baseType_layout (r : Rec) : baseType (layout (toL r)) = getSchemeType r.scheme := by
  unfold baseType
  rw [Props.C07.getProtocol_layout]
  simp [toL]

theorem getHostname_toL (r : Rec) (hb : BaseRec r) : getHostname (layout (toL r)) = r.host.getD [] := by
  have hslice := hostSlice_layout (toL r)
  unfold getHostname
  by_cases hc : (toL r).user = [] ∧ (toL r).pass = []
  · -- no credentials: the host text starts at host_start, and it does not start with '@'
    have hat : atS (toL r).user (toL r).pass = [] := by simp [atS, hc.1, hc.2]
    rw [hat] at hslice
    have hne : (decide ((layout (toL r)).he > (layout (toL r)).hs) && at_ (layout (toL r)).buf (layout (toL r)).hs == 0x40) = false := by
      cases hh : r.host with
      | none =>
        have : (layout (toL r)).he = (layout (toL r)).hs := by simp [layout, toL, hh, atS]
        simp [this]
      | some h =>
        by_cases hemp : h = []
        · have : (layout (toL r)).he = (layout (toL r)).hs := by
            have hhost : (toL r).host = [] := by simp [toL, hh, hemp]
            simp [layout, hat, hhost]
          simp [this]
        · have hat' : at_ (layout (toL r)).buf (layout (toL r)).hs = h.headD 0 := by
            have hbuf : (layout (toL r)).buf = ((toL r).scheme ++ authS (toL r).auth ++ ((toL r).user ++ passS (toL r).pass)) ++
                (atS (toL r).user (toL r).pass ++ tailS (toL r)) := by rw [buf_split]; simp [List.append_assoc]
            rw [at_eq hbuf (hs_eq (toL r)), hat]
            cases h with
            | nil => exact absurd rfl hemp
            | cons c t => simp [tailS, toL, hh]
          rw [hat']
          have := hb.noAt h hh
          have : (h.headD 0 == 0x40) = false := by simpa using this
          rw [this]; simp
    simp only [hne, Bool.false_eq_true, ↓reduceIte, hslice]
    simp [toL]
  · have hat : atS (toL r).user (toL r).pass = [0x40] := atS_of_cred hc
    rw [hat] at hslice
    have hhe : (layout (toL r)).he = (layout (toL r)).hs + 1 + (toL r).host.length := by simp [layout, hat]
    have hat' : at_ (layout (toL r)).buf (layout (toL r)).hs = 0x40 := by
      have hbuf : (layout (toL r)).buf = ((toL r).scheme ++ authS (toL r).auth ++ ((toL r).user ++ passS (toL r).pass)) ++
          (atS (toL r).user (toL r).pass ++ tailS (toL r)) := by rw [buf_split]; simp [List.append_assoc]
      rw [at_eq hbuf (hs_eq (toL r)), hat]; rfl
    have hgt : (layout (toL r)).he > (layout (toL r)).hs := by omega
    simp only [hgt, decide_true, hat', beq_self_eq_true, Bool.and_self, ↓reduceIte]
    have : slice (layout (toL r)).buf ((layout (toL r)).hs + 1) (layout (toL r)).he = (toL r).host := by
      have h1 : slice (layout (toL r)).buf (layout (toL r)).hs (layout (toL r)).he = [0x40] ++ (toL r).host := hslice
      unfold slice at h1 ⊢
      rw [← List.drop_drop, h1]
      rfl
    rw [this]
    simp [toL]

/-! ### copy_scheme, and the authority of the base -/
theorem getProtocol_toL (r : Rec) : getProtocol (layout (toL r)) = r.scheme ++ [0x3A] := by
  rw [Props.C07.getProtocol_layout]; rfl

theorem copyScheme_empty (r : Rec) : copyScheme emptyAgg (layout (toL r)) = bare (r.scheme ++ [0x3A]) := by
  unfold copyScheme
  rw [getProtocol_toL]
  have hpe : (layout (toL r)).pe = (r.scheme ++ [0x3A]).length := by simp [layout, toL]
  rw [hpe]
  have hd : (((r.scheme ++ [0x3A]).length : Int) - ((emptyAgg.pe : Nat) : Int) == 0) = false := by
    simp [emptyAgg]; omega
  simp only [hd, Bool.false_eq_true, ↓reduceIte]
  simp [emptyAgg, bare, serase, sinsert, shift, shiftO]

theorem copyScheme_bare (r : Rec) : copyScheme (bare (r.scheme ++ [0x3A])) (layout (toL r)) = bare (r.scheme ++ [0x3A]) := by
  unfold copyScheme
  rw [getProtocol_toL]
  have hpe : (layout (toL r)).pe = (r.scheme ++ [0x3A]).length := by simp [layout, toL]
  rw [hpe]
  simp [bare, serase, sinsert]

/-- the content right after "username, password, host and port of the base" -/
def LC (r : Rec) : L :=
  { scheme := r.scheme ++ [0x3A], auth := r.host.isSome, user := (toL r).user, pass := (toL r).pass, host := (toL r).host,
    port := (toL r).port, dashdot := false, path := [], query := none, frag := none, opq := false }

theorem updateBaseAuthority_noauth (s : Bytes) (lb : L) (hs : lb.scheme = s) (ha : lb.auth = false) (hna : NoAuthNoCred lb) :
    updateBaseAuthority (bare s) (layout lb).buf (layout lb).pe (layout lb).hs = bare s := by
  obtain ⟨hu, hp⟩ := hna ha
  have hhs : (layout lb).hs = (layout lb).pe := by simp [layout, ha, hu, hp, authS, passS]
  unfold updateBaseAuthority
  rw [hhs]
  have hsl : slice (layout lb).buf (layout lb).pe (layout lb).pe = [] := by simp [slice]
  rw [hsl]
  have hpe : (layout lb).pe = s.length := by simp [layout, hs]
  simp [bare, findColon, serase, hpe, shiftO]

theorem copyAuthority_eq (r : Rec) (hb : BaseRec r) :
    copyAuthority (bare (r.scheme ++ [0x3A])) (layout (toL r)) = layout (LC r) := by
  unfold copyAuthority
  rw [getHostname_toL r hb]
  have hbt := baseType_layout r
  have hbsp : baseSpecial (layout (toL r)) = (getSchemeType r.scheme != 1) := by unfold baseSpecial; rw [hbt]
  rw [hbsp, hbt]
  cases hh : r.host with
  | none =>
    have hport : r.port = none := (hb.hostless hh).2.2
    have hns : (getSchemeType r.scheme != 1) = false := by
      cases h : (getSchemeType r.scheme != 1) with
      | false => rfl
      | true =>
        have := hb.specialHost (by simpa using h)
        rw [hh] at this; cases this
    have hnf : (getSchemeType r.scheme == 6) = false := by
      cases h : (getSchemeType r.scheme == 6) with
      | false => rfl
      | true =>
        have h6 : getSchemeType r.scheme = 6 := by simpa using h
        have := hb.specialHost (by rw [h6]; decide)
        rw [hh] at this; cases this
    rw [updateBaseAuthority_noauth (r.scheme ++ [0x3A]) (toL r) rfl (by simp [toL, hh]) (toL_na r hb)]
    simp only
    unfold updateHostToBaseHost
    simp only [hnf, hns, Option.getD_none, List.isEmpty_nil, Bool.not_false, Bool.and_self, ↓reduceIte]
    have hbare := layout_LA_bare (r.scheme ++ [0x3A])
    rw [← hbare]
    have h1 : hasHostname (layout (LA (r.scheme ++ [0x3A]) false [] [])) = false := by
      unfold hasHostname
      rw [hasAuthority_layout _ (by intro _; exact ⟨rfl, rfl⟩)]; rfl
    have h2 : hasDashDot (layout (LA (r.scheme ++ [0x3A]) false [] [])) = false := by
      rw [hasDashDot_layout _ (by intro h; cases h)]; rfl
    simp only [h1, h2, Bool.false_eq_true, ↓reduceIte]
    unfold copyPort
    have hbp : (layout (toL r)).port = none := by simp [layout, toL, hh]
    rw [hbp]
    simp only
    rw [clearPort_none _ rfl]
    simp [LC, LA, toL, hh]
  | some h =>
    have hauth : (toL r).auth = true := by simp [toL, hh]
    rw [updateBaseAuthority_auth (r.scheme ++ [0x3A]) (toL r) rfl hauth (by simp [toL, hh]; exact hb.noColon), Option.getD_some]
    simp only
    have hstep : updateHostToBaseHost (getSchemeType r.scheme != 1) (getSchemeType r.scheme == 6) (A1 (r.scheme ++ [0x3A]) (toL r).user (toL r).pass) h =
        layout (LH (r.scheme ++ [0x3A]) (toL r).user (toL r).pass h none) := by
      unfold updateHostToBaseHost
      by_cases hcond : (!(getSchemeType r.scheme == 6) && h.isEmpty && !(getSchemeType r.scheme != 1)) = true
      · simp only [hcond, ↓reduceIte]
        have hemp : h = [] := by
          simp only [Bool.and_eq_true] at hcond; simpa using hcond.1.2
        subst hemp
        obtain ⟨hu, hp, _⟩ := hb.emptyHost hh
        have hu' : (toL r).user = [] := by simp [toL, hh, hu]
        have hp' : (toL r).pass = [] := by simp [toL, hh, hp]
        rw [hu', hp']
        have hA : A1 (r.scheme ++ [0x3A]) [] [] = layout (LA (r.scheme ++ [0x3A]) true [] []) := by
          simp [A1, layout, LA, passS, atS, authS, portS, ddS, queryS, fragS]
        rw [hA]
        have h1 : hasHostname (layout (LA (r.scheme ++ [0x3A]) true [] [])) = true := by
          unfold hasHostname
          rw [hasAuthority_layout _ (by intro h; cases h)]; rfl
        simp only [h1, ↓reduceIte]
        rcases clearHostname_layout (LA (r.scheme ++ [0x3A]) true [] []) (by intro h; cases h) (LA_tail _ _ _ _) with e | e
        · rw [e]; rfl
        · cases e
      · simp only [hcond, Bool.false_eq_true, ↓reduceIte]
        exact hostname_A1 _ _ _ h
    rw [hstep]
    unfold copyPort
    have hbp : (layout (toL r)).port = r.port := by
      cases hp : r.port <;> simp [layout, toL, hh, hp]
    rw [hbp]
    cases hp : r.port with
    | none =>
      simp only
      rw [clearPort_none _ rfl]
      simp [LC, LH, toL, hh, hp]
    | some p =>
      simp only
      rw [updateBasePort_layout _ p (dec16 p) rfl]
      simp [LC, LH, toL, hh, hp]

/-! ### path, query, fragment of the base -/
/-- the query of the laid-out record, when there is one -/
def qOr (lbq lq : Option Bytes) : Option Bytes :=
  match lbq with
  | some q => some q
  | none => lq

theorem copySearch_eq (l lb : L) : copySearch (layout l) (layout lb) = layout { l with query := qOr lb.query l.query } := by
  unfold copySearch
  cases hq : lb.query with
  | none =>
    have : (layout lb).ss = none := by simp [layout, hq]
    rw [this]
    rfl
  | some q =>
    have hss : (layout lb).ss = some ((headS lb ++ lb.path).length) := by
      simp [layout, hq, headS]; omega
    rw [hss]
    simp only
    have hstop : searchEnd (layout lb) = (headS lb ++ lb.path).length + (0x3F :: q).length := by
      unfold searchEnd
      cases hf : lb.frag with
      | none => simp [layout, hq, hf, headS, queryS, fragS]; omega
      | some f => simp [layout, hq, hf, headS, queryS, fragS]; omega
    rw [hstop]
    have hbuf : (layout lb).buf = (headS lb ++ lb.path) ++ (([0x3F] ++ q) ++ fragS lb.frag) := by
      rw [buf_path, hq]; simp [queryS, List.append_assoc]
    have hsl : slice (layout lb).buf ((headS lb ++ lb.path).length + 1) ((headS lb ++ lb.path).length + (0x3F :: q).length) = q := by
      rw [slice, hbuf]
      generalize headS lb ++ lb.path = H
      rw [take_peel, drop_peel]
      have : ([0x3F] ++ q ++ fragS lb.frag).take (0x3F :: q).length = [0x3F] ++ q := by
        rw [List.take_left' (by simp)]
      rw [this]
      rfl
    rw [hsl, updateBaseSearch_layout]
    rfl

theorem newDashDot_ok (l : L) (P : Bytes) (hd : DashDotOk l) :
    newDashDot l P = (startsWithSlashSlash P && (!l.opq && !l.auth)) := by
  unfold newDashDot
  cases hs : startsWithSlashSlash P
  · simp
  · cases hdd : l.dashdot
    · simp
    · obtain ⟨ha, ho, _⟩ := hd hdd
      simp [ha, ho]

/-- PATH and QUERY when the object already has a path (taken over from the base and shortened) -/
theorem pathQA_nonempty (sp : Bool) (scheme : Bytes) (ty : Nat) (hty : PP.TyOf scheme ty) (l : L) (segs : List Bytes)
    (hpath : l.path = FP.pathText segs) (hne : l.path ≠ []) (hn : PP.NoSlash segs) (t : Bytes) (hna : NoAuthNoCred l) (hdd : DashDotOk l) :
    pathQA sp ty (layout l) t =
      layout { l with dashdot := newDashDot l (pathQFrom sp ty l.path t).1, path := (pathQFrom sp ty l.path t).1,
                      query := match (pathQFrom sp ty l.path t).2 with | some q => some q | none => l.query } := by
  unfold pathQA pathQFrom
  simp only
  generalize t.takeWhile (· != 0x3F) = view
  have hnat : isAtPath (layout l) = false := by
    cases h : isAtPath (layout l) with
    | false => rfl
    | true => exact absurd (Props.C07.isAtPath_layout l h).1 hne
  have hcp : consumePreparedPath (layout l) ty view =
      layout { l with dashdot := newDashDot l (PathPrepared.parsePreparedPath view ty l.path),
                      path := PathPrepared.parsePreparedPath view ty l.path } := by
    rw [Props.C07.consume_prepared_path_layout l ty view hna hdd, hnat]
    simp only [Bool.and_false, Bool.false_eq_true, ↓reduceIte]
    have : PathPrepared.pathLoops view ty l.path = PathPrepared.parsePreparedPath view ty l.path := by
      unfold PathPrepared.parsePreparedPath
      split
      · rename_i htr
        rw [hpath, PP.pathLoops_eq scheme ty hty view segs hn, PP.trivial_sound scheme ty hty view segs htr]
      · rfl
    rw [this]
  rw [hcp]
  by_cases hlt : view.length < t.length
  · simp only [hlt, ↓reduceIte, Option.map_some, updateBaseSearch_layout]
    rfl
  · simp only [hlt, ↓reduceIte, Option.map_none]

/-! ### RELATIVE_SLASH and RELATIVE_SCHEME -/
theorem LC_na (r : Rec) (hb : BaseRec r) : NoAuthNoCred (LC r) := by
  intro h
  have : r.host = none := by
    cases hh : r.host with
    | none => rfl
    | some x => simp [LC, hh] at h
  simp [LC, toL, this]

/-- the content of the object that inherits credentials, host and port from the base -/
theorem toL_inherit (r : Rec) (sp : Bool) (P : Bytes) (Q F : Option Bytes) (o : Bool) :
    toL { scheme := r.scheme, special := sp, username := r.username, password := r.password, host := r.host, port := r.port,
          path := P, query := Q, hash := F, opq := o } =
      { LC r with opq := o, dashdot := r.host.isNone && !o && startsWithSlashSlash P, path := P, query := Q, frag := F } := by
  simp [toL, LC, pathStartsSlashSlash]

theorem relativeSlashA_eq (idna : Idna) (r : Rec) (hb : BaseRec r) (frag : Option Bytes) (t : Bytes) :
    relativeSlashA idna (bare (r.scheme ++ [0x3A])) (layout (toL r)) frag t = aggOf (relativeSlash idna r frag t) := by
  unfold relativeSlashA relativeSlash
  have hbt := baseType_layout r
  have hbsp : baseSpecial (layout (toL r)) = r.special := by unfold baseSpecial; rw [hbt, hb.special]
  rw [hbsp, hbt]
  have hpo : ∀ t' P Q, t'.head? ≠ some 0x2F → pathQ r.special (getSchemeType r.scheme) t' = (P, Q) →
      some (withFragment (pathQA r.special (getSchemeType r.scheme) (copyAuthority (bare (r.scheme ++ [0x3A])) (layout (toL r))) t') frag) =
        aggOf (.ok { scheme := r.scheme, special := r.special, username := r.username, password := r.password, host := r.host, port := r.port,
                     path := P, query := Q, hash := encFrag frag, opq := false }) := by
    intro t' P Q ht' hpq
    rw [copyAuthority_eq r hb, pathQA_layout _ _ (LC r) t' (LC_na r hb) rfl rfl rfl rfl rfl (Or.inr ht'), withFragment_layout _ _ rfl]
    simp only [aggOf, toL_inherit, hpq]
    congr 2
    simp [LC, encFrag]
  cases t with
  | nil =>
    simp only
    generalize hpq : pathQ r.special (getSchemeType r.scheme) [] = pq
    obtain ⟨P, Q⟩ := pq
    exact hpo [] P Q (by simp) hpq
  | cons c r' =>
    simp only
    by_cases h1 : (r.special && (c == 0x2F || c == 0x5C)) = true
    · simp only [h1, ↓reduceIte]
      rw [← layout_LA_bare]
      exact afterSlashesA_eq idna true _ r.scheme frag _
    · simp only [h1, Bool.false_eq_true, ↓reduceIte]
      by_cases h2 : (c == 0x2F) = true
      · simp only [h2, ↓reduceIte]
        rw [← layout_LA_bare]
        exact afterSlashesA_eq idna false _ r.scheme frag _
      · simp only [h2, Bool.false_eq_true, ↓reduceIte]
        generalize hpq : pathQ r.special (getSchemeType r.scheme) (c :: r') = pq
        obtain ⟨P, Q⟩ := pq
        exact hpo (c :: r') P Q (by simp; exact fun e => h2 (by simp [e])) hpq

/-- the content after "username … query of the base" -/
def LI (r : Rec) : L :=
  { LC r with opq := r.opq, dashdot := r.host.isNone && !r.opq && startsWithSlashSlash r.path, path := r.path, query := r.query }

/-- … with the query set to null -/
def LQ (r : Rec) : L := { LI r with query := none }

theorem LI_na (r : Rec) (hb : BaseRec r) : NoAuthNoCred (LI r) := LC_na r hb

theorem LI_dd (r : Rec) (hb : BaseRec r) : DashDotOk (LI r) := by
  intro h
  have h' : (r.host.isNone && !r.opq && startsWithSlashSlash r.path) = true := h
  simp only [Bool.and_eq_true, Bool.not_eq_true'] at h'
  have hh : r.host = none := by cases hx : r.host <;> simp_all
  refine ⟨by simp [LI, LC, hh], h'.1.2, ?_⟩
  simp [LI, LC, toL, hh]

theorem inheritA_eq (r : Rec) (hb : BaseRec r) :
    copySearch (updateBasePathname { copyAuthority (bare (r.scheme ++ [0x3A])) (layout (toL r)) with opq := (layout (toL r)).opq }
      (getPathname (layout (toL r)))) (layout (toL r)) = layout (LI r) := by
  rw [copyAuthority_eq r hb, Props.C07.getPathname_layout]
  have h1 : ({ layout (LC r) with opq := (layout (toL r)).opq } : Agg) = layout { LC r with opq := r.opq } := rfl
  rw [h1, updateBasePathname_layout _ _ (show NoAuthNoCred { LC r with opq := r.opq } from LC_na r hb) (by intro h; cases h),
    copySearch_eq]
  congr 1
  have hnd : newDashDot { LC r with opq := r.opq } (toL r).path = (r.host.isNone && !r.opq && startsWithSlashSlash r.path) := by
    rw [newDashDot_ok _ _ (by intro h; cases h)]
    simp only [LC, toL]
    cases r.host <;> cases r.opq <;> cases startsWithSlashSlash r.path <;> rfl
  simp only [hnd]
  simp [LI, LC, toL, qOr]
  cases r.query <;> rfl

theorem relativeSchemeA_eq (idna : Idna) (r : Rec) (hb : BaseRec r) (hno : r.opq = false) (a0 : Agg)
    (ha0 : copyScheme a0 (layout (toL r)) = bare (r.scheme ++ [0x3A])) (frag : Option Bytes) (t : Bytes) :
    relativeSchemeA idna a0 (layout (toL r)) frag t = aggOf (relativeScheme idna r frag t) := by
  unfold relativeSchemeA relativeScheme
  have hbt := baseType_layout r
  have hbsp : baseSpecial (layout (toL r)) = r.special := by unfold baseSpecial; rw [hbt, hb.special]
  rw [hbsp, hbt, ha0]
  simp only [inheritA_eq r hb]
  have hopq : (layout (toL r)).opq = r.opq := rfl
  have hself : ({ layout (LI r) with opq := (layout (toL r)).opq } : Agg) = layout (LI r) := rfl
  simp only [hself]
  cases t with
  | nil =>
    simp only [inherit, aggOf]
    rw [withFragment_layout _ _ rfl, toL_inherit]
    rfl
  | cons c rest =>
    simp only
    by_cases hsl : (c == 0x2F || (r.special && c == 0x5C)) = true
    · simp only [hsl, ↓reduceIte]
      exact relativeSlashA_eq idna r hb frag rest
    · simp only [hsl, Bool.false_eq_true, ↓reduceIte]
      by_cases hq : (c == 0x3F) = true
      · simp only [hq, ↓reduceIte, inherit, aggOf]
        rw [updateBaseSearch_layout, withFragment_layout _ _ rfl, toL_inherit]
        rfl
      · simp only [hq, Bool.false_eq_true, ↓reduceIte]
        -- "set url's query to null, shorten url's path", then PATH on the whole text
        obtain ⟨segs, hsegs, hns⟩ := hb.pathSegs hno
        have hc2 : c ≠ 0x2F := by
          intro e; apply hsl; simp [e]
        have hhead : (c :: rest).head? ≠ some 0x2F := by simp; exact fun e => hc2 e
        have hcs : clearSearch (layout (LI r)) = layout (LQ r) := clearSearch_layout _
        have hgp : getPathname (layout (LQ r)) = r.path := by rw [Props.C07.getPathname_layout]; rfl
        rw [hcs, hgp]
        have hshort : PathPrepared.shortenPath r.path (getSchemeType r.scheme) = FP.pathText (Spec.shortenPath r.scheme segs) := by
          rw [hsegs]; exact PP.shortenPath_eq r.scheme _ (Proto.type_facts r.scheme).2.1 segs hns
        generalize hsh : PathPrepared.shortenPath r.path (getSchemeType r.scheme) = short at hshort
        -- the object before PATH, whichever way the `if` goes
        have hl1na : NoAuthNoCred (LQ r) := LI_na r hb
        have hl1dd : DashDotOk (LQ r) := LI_dd r hb
        have ha2 : (if (short != r.path) = true then updateBasePathname (layout (LQ r)) short else layout (LQ r)) =
            layout { LQ r with dashdot := newDashDot (LQ r) short, path := short } := by
          by_cases hne : (short != r.path) = true
          · simp only [hne, ↓reduceIte]
            rw [updateBasePathname_layout _ short hl1na hl1dd]
          · simp only [hne, Bool.false_eq_true, ↓reduceIte]
            have he : short = r.path := by simpa using hne
            rw [he]
            congr 1
            have : newDashDot (LQ r) r.path = (r.host.isNone && !r.opq && startsWithSlashSlash r.path) := by
              rw [newDashDot_ok _ _ hl1dd]
              simp only [LQ, LI, LC]
              cases r.host <;> cases r.opq <;> cases startsWithSlashSlash r.path <;> rfl
            rw [this]
            rfl
        rw [ha2]
        generalize hl2 : ({ LQ r with dashdot := newDashDot (LQ r) short, path := short } : L) = l2
        have hl2na : NoAuthNoCred l2 := by rw [← hl2]; exact LI_na r hb
        have hl2f : l2.frag = none := by rw [← hl2]; rfl
        have hl2q : l2.query = none := by rw [← hl2]; rfl
        have hl2o : l2.opq = false := by rw [← hl2]; exact hno
        have hl2p : l2.path = short := by rw [← hl2]
        have hl2a : l2.auth = r.host.isSome := by rw [← hl2]; rfl
        have hl2d : l2.dashdot = newDashDot (LQ r) short := by rw [← hl2]
        have hl2dd : DashDotOk l2 := by
          intro hd
          rw [hl2d, newDashDot_ok _ _ hl1dd] at hd
          simp only [Bool.and_eq_true, Bool.not_eq_true'] at hd
          have hh : r.host = none := by
            have : (LQ r).auth = false := hd.2.2
            cases hx : r.host with
            | none => rfl
            | some x => simp [LQ, LI, LC, hx] at this
          refine ⟨by rw [hl2a, hh]; rfl, hl2o, ?_⟩
          rw [← hl2]; simp [LQ, LI, LC, toL, hh]
        simp only [inherit, aggOf]
        generalize hpq : pathQFrom r.special (getSchemeType r.scheme) short (c :: rest) = pq
        obtain ⟨P, Q⟩ := pq
        simp only
        rw [toL_inherit]
        congr 1
        by_cases hse : short = []
        · -- nothing is left of the base path
          have hl2p' : l2.path = [] := by rw [hl2p, hse]
          have hl2d' : l2.dashdot = false := by
            rw [hl2d, hse]; unfold newDashDot; simp [startsWithSlashSlash]
          rw [pathQA_layout _ _ l2 (c :: rest) hl2na hl2d' hl2p' hl2q hl2f hl2o (Or.inr hhead), withFragment_layout _ _ (by exact hl2f)]
          have hpq' : pathQ r.special (getSchemeType r.scheme) (c :: rest) = (P, Q) := by rw [← hpq, hse]; rfl
          rw [hpq', ← hl2]
          simp [LQ, LI, LC, encFrag, hno]
        · have hl2ne : l2.path ≠ [] := by rw [hl2p]; exact hse
          rw [pathQA_nonempty r.special r.scheme _ (PB.tyOf r.scheme) l2 (Spec.shortenPath r.scheme segs) (by rw [hl2p, hshort]) hl2ne
            (PB.noSlash_shorten r.scheme segs hns) (c :: rest) hl2na hl2dd, hl2p, hpq, hl2q, withFragment_layout _ _ (by exact hl2f)]
          rw [newDashDot_ok _ _ hl2dd, hl2o, hl2a, ← hl2]
          simp [LQ, LI, LC, encFrag, hno]
          cases r.host <;> cases Q <;> simp

/-! ### the machine with a base (routes that do not pass through the file states) -/
/-- **with a base, too, both instantiations stay in step** - for a base object that is the layout of a record with the
    record invariants, and as long as neither the base nor the input is a `file` URL (those routes are compared only) -/
theorem machineBA_eq (idna : Idna) (r : Rec) (hb : BaseRec r) (input : Bytes) (hnf : getSchemeType r.scheme ≠ 6)
    (hin : ∀ name rest, schemeScan (prep input).1 = some (name, rest) → (parseSchemeNoOverride name).1 ≠ 6) :
    machineBA idna (layout (toL r)) input = some (aggOf (machineB idna r input)) := by
  unfold machineBA machineB
  have hbt := baseType_layout r
  have hopq : (layout (toL r)).opq = r.opq := rfl
  generalize hpd : prep input = pd at hin ⊢
  obtain ⟨d, frag⟩ := pd
  simp only at hin ⊢
  rw [hbt, hopq]
  cases hss : schemeScan d with
  | none =>
    simp only
    by_cases h1 : (r.opq && !(frag.isSome && d.isEmpty)) = true
    · simp only [h1, ↓reduceIte]; rfl
    · simp only [h1, Bool.false_eq_true, ↓reduceIte]
      by_cases h2 : r.opq = true
      · simp only [h2, ↓reduceIte]
        congr 1
        simp only [aggOf]
        congr 1
        rw [copyScheme_empty, ← layout_LA_bare, Props.C07.getPathname_layout]
        have hx : ({ layout (LA (r.scheme ++ [0x3A]) false [] []) with opq := true } : Agg) =
            layout { LA (r.scheme ++ [0x3A]) false [] [] with opq := true } := rfl
        rw [hx, updateBasePathname_layout _ _ (by intro _; exact ⟨rfl, rfl⟩) (by intro h; cases h), copySearch_eq,
          withFragment_layout _ _ rfl]
        have hnd : newDashDot { LA (r.scheme ++ [0x3A]) false [] [] with opq := true } (toL r).path = false := by
          unfold newDashDot; cases startsWithSlashSlash (toL r).path <;> simp [LA]
        rw [hnd]
        simp [toL, LA, qOr, encFrag, h2]
        cases r.query <;> rfl
      · have hno : r.opq = false := by simpa using h2
        have h6 : (getSchemeType r.scheme != 6) = true := by simpa using hnf
        simp only [hno, Bool.false_eq_true, ↓reduceIte, h6]
        congr 1
        exact relativeSchemeA_eq idna r hb hno emptyAgg (copyScheme_empty r) frag d
  | some nr =>
    obtain ⟨name, rest⟩ := nr
    have hin' := hin name rest hss
    simp only [parseSchemeA_eq]
    rw [PS.parseSchemeNoOverride_spec] at hin' ⊢
    simp only at hin' ⊢
    have h6 : (getSchemeType (name.map toLowerByte) == 6) = false := by simpa using hin'
    simp only [h6, Bool.false_eq_true, ↓reduceIte]
    by_cases hrel : (getSchemeType (name.map toLowerByte) != 1 && getSchemeType r.scheme == getSchemeType (name.map toLowerByte)) = true
    · simp only [hrel, ↓reduceIte]
      have hne1 : getSchemeType (name.map toLowerByte) ≠ 1 := by
        simp only [Bool.and_eq_true] at hrel; simpa using hrel.1
      have hsame : r.scheme = name.map toLowerByte := by
        have := PB.same_type r.scheme (name.map toLowerByte) hne1
        simp only [Bool.and_eq_true] at hrel
        rw [hrel.2] at this
        simpa using this.symm
      by_cases hss2 : (rest.take 2 == [0x2F, 0x2F]) = true
      · simp only [hss2, ↓reduceIte]
        congr 1
        exact afterSlashesA_eq idna true _ _ frag _
      · simp only [hss2, Bool.false_eq_true, ↓reduceIte]
        congr 1
        rw [← hsame, layout_LA_bare]
        exact relativeSchemeA_eq idna r hb (hb.specialNotOpaque (by rw [hsame]; exact hne1)) _ (copyScheme_bare r) frag rest
    · simp only [hrel, Bool.false_eq_true, ↓reduceIte]
      by_cases h1 : (getSchemeType (name.map toLowerByte) == 1) = true
      · simp only [h1, ↓reduceIte]
        congr 1
        exact afterSchemeNSA_eq idna _ frag rest
      · simp only [h1, Bool.false_eq_true, ↓reduceIte]
        congr 1
        unfold afterScheme
        exact afterSlashesA_eq idna true _ _ frag _

end AdaVerif.Lemmas.PAB

namespace AdaVerif.Lemmas.PAB
open AdaVerif AdaVerif.Spec AdaVerif.Lemmas AdaVerif.Lemmas.AggL AdaVerif.Lemmas.PA AdaVerif.Model AdaVerif.Model.Agg
  AdaVerif.Model.ParseSpecial AdaVerif.Model.ParseAgg AdaVerif.Model.UrlRec AdaVerif.Model.HostParse

/-! ### a parsed record is a good base -/
theorem hexUpper_ne (n : Nat) (hn : n < 16) : hexUpper n ≠ 0x3A ∧ hexUpper n ≠ 0x40 := by
  have : ∀ k : Fin 16, hexUpper k.val ≠ 0x3A ∧ hexUpper k.val ≠ 0x40 := by decide
  exact this ⟨n, hn⟩

theorem enc_userinfo_nocolon (s : Bytes) : (0x3A : UInt8) ∉ percentEncode inUserinfo s := by
  intro h
  rcases HC.mem_percentEncode _ _ _ h with ⟨_, h2⟩ | h2 | ⟨n, hn, h2⟩
  · revert h2; decide
  · revert h2; decide
  · exact (hexUpper_ne n hn).1 h2.symm

theorem credUser_nocolon (c : Option Bytes) : (0x3A : UInt8) ∉ credUser c := by
  unfold credUser
  cases c with
  | none => simp
  | some c => exact enc_userinfo_nocolon _

/-- no parsed host starts with '@' -/
theorem hostParse_no_at (idna : Idna) (buf : Bytes) (opq : Bool) (h : Host) (hp : hostParse idna buf opq = some h) :
    h.serialize.headD 0 ≠ 0x40 := by
  cases opq with
  | false => exact host_no_at idna buf h hp
  | true =>
    unfold hostParse at hp
    split at hp
    · rename_i rest
      split at hp
      · cases hp
      · cases hq : ipv6Parse rest.dropLast with
        | none => simp [hq] at hp
        | some p => simp [hq] at hp; subst hp; simp [Host.serialize]
    · simp only [↓reduceIte] at hp
      unfold opaqueHostParse at hp
      split at hp
      · cases hp
      · rename_i hforb
        injection hp with hp; subst hp
        simp only [Host.serialize]
        cases buf with
        | nil => simp [Spec.percentEncode]
        | cons c t =>
          have hc : c ≠ 0x40 := by
            intro e; subst e
            apply hforb
            simp [isForbiddenHost]
          simp only [Spec.percentEncode, List.flatMap_cons]
          split
          · simp [pctByte]
          · simp [hc]

theorem parseHostPort_no_at (idna : Idna) (scheme hp : Bytes) (x : Host × Option Nat) (h : parseHostPort idna scheme hp = some x) :
    x.1.serialize.headD 0 ≠ 0x40 := by
  unfold parseHostPort at h
  simp only at h
  split at h
  · split at h
    · cases h
    · split at h
      · cases h
      · rename_i host hhost
        split at h
        · cases h
        · injection h with h; subst h; exact hostParse_no_at idna _ _ host hhost
  · split at h
    · split at h
      · cases h
      · injection h with h; subst h; simp [Host.serialize]
    · split at h
      · cases h
      · rename_i host hhost
        injection h with h; subst h; exact hostParse_no_at idna _ _ host hhost

/-- what `BaseRec` asks of a record beyond the invariants of C19 -/
structure CredHostOk (u : Url) : Prop where
  noColon : (0x3A : UInt8) ∉ u.username
  noAt : ∀ h, u.host = some h → h.serialize.headD 0 ≠ 0x40

theorem fromAuthority_ch (idna : Idna) (scheme text : Bytes) (u : Url) (h : fromAuthority idna scheme text = some u) : CredHostOk u := by
  unfold fromAuthority at h
  simp only at h
  split at h
  · cases h
  · rename_i a ha
    injection h with h; subst h
    unfold parseAuthority at ha
    simp only at ha
    split at ha
    · cases ha
    · split at ha
      · cases ha
      · rename_i hp hhp
        injection ha with ha; subst ha
        refine ⟨credUser_nocolon _, ?_⟩
        intro h' hh'
        injection hh' with hh'; subst hh'
        exact parseHostPort_no_at idna _ _ hp hhp

theorem fileHost_ch (idna : Idna) (text : Bytes) (u : Url) (h : Spec.fileHost idna text = some u) : CredHostOk u := by
  unfold Spec.fileHost at h
  simp only at h
  split at h
  · injection h with h; subst h; exact ⟨by simp, by intro h' hh'; injection hh' with e; subst e; simp [Host.serialize]⟩
  · split at h
    · injection h with h; subst h; exact ⟨by simp, by intro h' hh'; injection hh' with e; subst e; simp [Host.serialize]⟩
    · split at h
      · cases h
      · rename_i host hhost
        injection h with h; subst h
        refine ⟨by simp, ?_⟩
        intro h' hh'
        injection hh' with e; subst e
        split
        · simp [Host.serialize]
        · exact host_no_at idna _ host hhost

theorem hostEmpty_ch (scheme : Bytes) (p : List Bytes) :
    CredHostOk { scheme := scheme, host := some .empty, path := p } :=
  ⟨by simp, by intro h' hh'; injection hh' with e; subst e; simp [Host.serialize]⟩

theorem fileState_ch (idna : Idna) (pre tail : Bytes) (hQ hF : Bool) (u : Url) (h : fileState idna none pre tail hQ hF = some u) :
    CredHostOk u := by
  unfold fileState fileState.fileElse at h
  simp only [baseIsFile] at h
  split at h
  · split at h
    · unfold fileSlash fileSlash.fileSlashElse at h
      simp only [baseIsFile] at h
      split at h
      · split at h
        · exact fileHost_ch idna _ u h
        · injection h with h; subst h; exact hostEmpty_ch _ _
      · injection h with h; subst h; exact hostEmpty_ch _ _
    · injection h with h; subst h; exact hostEmpty_ch _ _
  · injection h with h; subst h; exact hostEmpty_ch _ _

theorem parse_ch (idna : Idna) (input : Bytes) (u : Url) (h : parse idna input none = some u) : CredHostOk u := by
  unfold parse at h
  simp only at h
  split at h
  · cases h
  · rename_i u0 hc
    have h0 : CredHostOk u0 := by
      unfold parseCore at hc
      split at hc
      · simp only at hc
        split at hc
        · exact fileState_ch idna _ _ _ _ u0 hc
        · split at hc
          · exact fromAuthority_ch idna _ _ u0 hc
          · split at hc
            · exact fromAuthority_ch idna _ _ u0 hc
            · injection hc with hc; subst hc; exact ⟨by simp, by intro h' hh'; cases hh'⟩
            · injection hc with hc; subst hc; exact ⟨by simp, by intro h' hh'; cases hh'⟩
      · cases hc
    injection h with h
    subst h
    split <;> split <;> exact ⟨h0.noColon, h0.noAt⟩

end AdaVerif.Lemmas.PAB

namespace AdaVerif.Lemmas.PAB
open AdaVerif AdaVerif.Spec AdaVerif.Lemmas AdaVerif.Lemmas.AggL AdaVerif.Lemmas.PA AdaVerif.Model AdaVerif.Model.Agg
  AdaVerif.Model.ParseSpecial AdaVerif.Model.ParseAgg AdaVerif.Model.UrlRec AdaVerif.Model.HostParse

/-- the object that holds a record of the Standard with the invariants of C19 is a good base object -/
theorem baseRec_of (b : Url) (hinv : RecInv b = true) (hseg : PP.NoSlash b.path) (hch : CredHostOk b) : BaseRec (UR.recOf b) := by
  have ok := credOk_of_recInv b hinv
  have hcan : b.cannotHaveUsernamePasswordPort = true → b.username = [] ∧ b.password = [] ∧ b.port = none := by
    have h := hinv
    simp only [RecInv, Bool.and_eq_true, Bool.or_eq_true, Bool.not_eq_true'] at h
    obtain ⟨⟨⟨⟨⟨_, _⟩, _⟩, hcred⟩, _⟩, _⟩ := h
    intro hc
    rcases hcred with hcf | hcc
    · rw [hc] at hcf; cases hcf
    · simp only [Bool.and_eq_true, List.isEmpty_iff, Option.isNone_iff_eq_none] at hcc
      exact ⟨hcc.1.1, hcc.1.2, hcc.2⟩
  have hspec : isSpecialScheme b.scheme = true → b.host.isSome = true ∧ b.isOpaque = false := by
    intro hs
    have h := hinv
    simp only [RecInv, Bool.and_eq_true] at h
    have := h.1.1.1.2
    simp only [Url.isSpecial, hs, Bool.not_true, Bool.false_or, Bool.and_eq_true] at this
    exact ⟨this.1.1.1, by simpa using this.1.2⟩
  have htf := Proto.type_facts b.scheme
  refine ⟨?_, ?_, ?_, hch.noColon, ?_, htf.1.symm, ?_, ?_, ?_⟩
  · intro hn
    have : b.host = none := by cases h : b.host <;> simp_all [UR.recOf]
    exact ok.hostless this
  · intro he
    cases hh : b.host with
    | none => simp [UR.recOf, hh] at he
    | some h =>
      have hser : h.serialize = [] := by simpa [UR.recOf, hh] using he
      have : h = .empty := by
        cases hhe : (decide (h = Host.empty)) with
        | true => simpa using hhe
        | false => exact absurd hser (ok.nonEmpty h hh (by simpa using hhe))
      subst this
      exact hcan (by simp [Url.cannotHaveUsernamePasswordPort, hh])
  · intro hne
    have hne' : getSchemeType b.scheme ≠ 1 := hne
    have hs : isSpecialScheme b.scheme = true := by
      rw [← htf.1]; simpa using hne'
    have := (hspec hs).1
    cases hh : b.host with
    | none => rw [hh] at this; cases this
    | some h => simp [UR.recOf, hh]
  · intro h hh
    cases hb : b.host with
    | none => simp [UR.recOf, hb] at hh
    | some x =>
      have : h = x.serialize := by simpa [UR.recOf, hb] using hh.symm
      rw [this]
      exact hch.noAt x hb
  · intro hno
    exact ⟨b.path, by simp [UR.recOf, Url.pathSerialized, FP.pathText] at hno ⊢; simp [hno], hseg⟩
  · intro hne
    have hne' : getSchemeType b.scheme ≠ 1 := hne
    have hs : isSpecialScheme b.scheme = true := by
      rw [← htf.1]; simpa using hne'
    exact (hspec hs).2
  · intro h6
    have h6' : getSchemeType b.scheme = 6 := h6
    have hf : (b.scheme == bFile) = true := by rw [← htf.2.1, h6']; rfl
    exact hcan (by simp [Url.cannotHaveUsernamePasswordPort, hf])

end AdaVerif.Lemmas.PAB

namespace AdaVerif.Lemmas.PAB
open AdaVerif AdaVerif.Spec AdaVerif.Lemmas AdaVerif.Lemmas.AggL AdaVerif.Lemmas.PA AdaVerif.Model AdaVerif.Model.Agg
  AdaVerif.Model.ParseSpecial AdaVerif.Model.ParseAgg AdaVerif.Model.UrlRec AdaVerif.Model.HostParse

/-! ### FILE and FILE_SLASH with a file base -/
/-- a base object of type FILE: its record -/
structure FileRec (r : Rec) : Prop where
  base : BaseRec r
  ty : getSchemeType r.scheme = 6

theorem FileRec.scheme {r : Rec} (h : FileRec r) : r.scheme = bFile := by
  have := (Proto.type_facts r.scheme).2.1
  rw [h.ty] at this
  simpa using this.symm

theorem FileRec.host {r : Rec} (h : FileRec r) : ∃ x, r.host = some x := by
  have := h.base.specialHost (by rw [h.ty]; decide)
  cases hh : r.host with
  | none => rw [hh] at this; cases this
  | some x => exact ⟨x, rfl⟩

theorem FileRec.opq {r : Rec} (h : FileRec r) : r.opq = false := h.base.specialNotOpaque (by rw [h.ty]; decide)

/-- the content of a `file` object that took host, path and query over from the base -/
def LFI (r : Rec) (path : Bytes) (query : Option Bytes) : L :=
  { scheme := bFile ++ [0x3A], auth := true, user := [], pass := [], host := r.host.getD [], port := none, dashdot := false,
    path := path, query := query, frag := none, opq := false }

theorem LFI_na (r : Rec) (p : Bytes) (q : Option Bytes) : NoAuthNoCred (LFI r p q) := by intro h; cases h
theorem LFI_dd (r : Rec) (p : Bytes) (q : Option Bytes) : DashDotOk (LFI r p q) := by intro h; cases h

/-- the `ada::url` object of a `file` URL that took its host from the base -/
def fileOut (r : Rec) (P : Bytes) (Q F : Option Bytes) : Rec :=
  { scheme := bFile, special := true, username := [], password := [], host := r.host, port := none, path := P, query := Q,
    hash := F, opq := false }

theorem toL_fileInherit (r : Rec) (hf : FileRec r) (P : Bytes) (Q F : Option Bytes) :
    toL (fileOut r P Q F) = { LFI r P Q with frag := F } := by
  obtain ⟨x, hx⟩ := hf.host
  simp [toL, fileOut, LFI, hx, pathStartsSlashSlash]

theorem getHost_toL (r : Rec) (hf : FileRec r) : getHost (layout (toL r)) = r.host.getD [] := by
  have hgh := getHostname_toL r hf.base
  obtain ⟨x, hx⟩ := hf.host
  have hport : r.port = none := (hf.base.fileNoCred hf.ty).2.2
  have hps : (layout (toL r)).ps = (layout (toL r)).he := by simp [layout, toL, hx, hport, portS, ddS]
  have key : ∀ (buf : Bytes) (start he : Nat) (X : Bytes), slice buf start he = X → (if (start == he) = true then [] else slice buf start he) = X := by
    intro buf start he X h
    split
    · rename_i hst
      have : start = he := by simpa using hst
      rw [← h, this]
      simp [slice]
    · exact h
  unfold getHost
  unfold getHostname at hgh
  simp only [hps]
  exact key _ _ _ _ hgh

/-- "url's host := base's host" on the `file` object right after FILE -/
theorem fileHostCopy (r : Rec) (hf : FileRec r) (x : Bytes) (hx : x = r.host.getD []) :
    updateHostToBaseHost true true (layout (LH (bFile ++ [0x3A]) [] [] [] none)) x = layout (LFI r [] none) := by
  unfold updateHostToBaseHost
  simp only [Bool.not_true, Bool.false_and, Bool.false_eq_true, ↓reduceIte]
  rw [hostname_LH, hx]
  rfl

theorem filePathA_from (r : Rec) (hf : FileRec r) (l : L) (hl : l = LFI r l.path none) (segs : List Bytes)
    (hpath : l.path = FP.pathText segs) (hn : PP.NoSlash segs) (frag : Option Bytes) (t : Bytes) (P : Bytes) (Q : Option Bytes)
    (hpq : pathQFrom true 6 l.path t = (P, Q)) :
    filePathA (layout l) frag t = layout (toL (fileOut r P Q (encFrag frag))) := by
  unfold filePathA
  rw [toL_fileInherit r hf]
  have hna : NoAuthNoCred l := by rw [hl]; exact LFI_na _ _ _
  have hdd : DashDotOk l := by rw [hl]; exact LFI_dd _ _ _
  have hq : l.query = none := by rw [hl]; rfl
  have hfr : l.frag = none := by rw [hl]; rfl
  have hau : l.auth = true := by rw [hl]; rfl
  have ho : l.opq = false := by rw [hl]; rfl
  have hd0 : l.dashdot = false := by rw [hl]; rfl
  by_cases hne : l.path = []
  · have hpq' : pathQ true 6 t = (P, Q) := by rw [← hpq, hne]; rfl
    rw [pathQA_layout true 6 l t hna hd0 hne hq hfr ho (Or.inl hau), withFragment_layout _ _ (by exact hfr), hpq', hau]
    rw [hl]
    simp [LFI, encFrag]
  · rw [pathQA_nonempty true bFile 6 ⟨by decide, by decide⟩ l segs hpath hne hn t hna hdd, hpq, hq,
      withFragment_layout _ _ (by exact hfr), newDashDot_ok _ _ hdd, hau]
    rw [hl]
    simp [LFI, encFrag]
    cases Q <;> rfl

end AdaVerif.Lemmas.PAB

namespace AdaVerif.Lemmas.PAB
open AdaVerif AdaVerif.Spec AdaVerif.Lemmas AdaVerif.Lemmas.AggL AdaVerif.Lemmas.PA AdaVerif.Model AdaVerif.Model.Agg
  AdaVerif.Model.ParseSpecial AdaVerif.Model.ParseAgg AdaVerif.Model.UrlRec AdaVerif.Model.HostParse

theorem fileInherit_out (r : Rec) (frag : Option Bytes) (P : Bytes) (Q : Option Bytes) :
    fileInherit r frag P Q false = .ok (fileOut r P Q (encFrag frag)) := rfl

theorem newDashDot_auth (l : L) (P : Bytes) (ha : l.auth = true) (hd : l.dashdot = false) : newDashDot l P = false := by
  unfold newDashDot; cases startsWithSlashSlash P <;> simp [ha, hd]

/-- host, path and query of the base taken over (FILE, base of type FILE) -/
theorem fileTakeOver (r : Rec) (hf : FileRec r) :
    ({ copySearch (updateBasePathname (updateHostToBaseHost true true (layout (LH (bFile ++ [0x3A]) [] [] [] none))
        (getHostname (layout (toL r)))) (getPathname (layout (toL r)))) (layout (toL r)) with opq := (layout (toL r)).opq } : Agg) =
      layout (LFI r r.path r.query) := by
  rw [fileHostCopy r hf _ (getHostname_toL r hf.base), Props.C07.getPathname_layout,
    updateBasePathname_layout _ _ (LFI_na _ _ _) (LFI_dd _ _ _), copySearch_eq]
  rw [newDashDot_auth _ _ rfl rfl]
  have hopq : (layout (toL r)).opq = false := hf.opq
  have : ∀ l : L, l.opq = false → ({ layout l with opq := (layout (toL r)).opq } : Agg) = layout l := by
    intro l hl; rw [hopq]; cases l; simp_all [layout]
  rw [this _ rfl]
  simp [LFI, toL, qOr]
  cases r.query <;> rfl

theorem fileOtherA_eq (r : Rec) (hf : FileRec r) (frag : Option Bytes) (t : Bytes) :
    some (fileOtherA (some (layout (toL r))) (layout (LH (bFile ++ [0x3A]) [] [] [] none)) frag t) =
      aggOf (fileOther (some r) frag t) := by
  unfold fileOtherA fileOther
  simp only [fileTakeOver r hf, hf.opq, fileInherit_out, aggOf]
  obtain ⟨segs, hsegs, hns⟩ := hf.base.pathSegs hf.opq
  cases t with
  | nil =>
    simp only
    rw [withFragment_layout _ _ rfl, toL_fileInherit r hf]
    rfl
  | cons c rest =>
    simp only
    by_cases hq : (c == 0x3F) = true
    · simp only [hq, ↓reduceIte]
      rw [updateBaseSearch_layout, withFragment_layout _ _ rfl, toL_fileInherit r hf]
      rfl
    · simp only [hq, Bool.false_eq_true, ↓reduceIte]
      rw [clearSearch_layout]
      have hl4 : ({ LFI r r.path r.query with query := none } : L) = LFI r r.path none := rfl
      rw [hl4]
      by_cases hdl : PathPrepared.isWindowsDriveLetter (c :: rest) = true
      · -- the input starts with a drive letter: the inherited path goes
        simp only [hdl, Bool.not_true, Bool.false_eq_true, ↓reduceIte]
        rw [clearPathname_layout _ (LFI_dd _ _ _)]
        have hl5 : ({ LFI r r.path none with dashdot := false, path := [] } : L) = LFI r [] none := rfl
        rw [hl5]
        generalize hpq : pathQFrom true 6 [] (c :: rest) = pq
        obtain ⟨P, Q⟩ := pq
        congr 1
        exact filePathA_from r hf (LFI r [] none) rfl [] rfl (by intro s hs; cases hs) frag (c :: rest) P Q hpq
      · simp only [hdl, Bool.not_false, ↓reduceIte]
        rw [Props.C07.getPathname_layout]
        have hp4 : (LFI r r.path none).path = r.path := rfl
        rw [hp4]
        have hshort : PathPrepared.shortenPath r.path 6 = FP.pathText (Spec.shortenPath bFile segs) := by
          rw [hsegs]; exact PP.shortenPath_eq bFile 6 (by decide) segs hns
        generalize PathPrepared.shortenPath r.path 6 = short at hshort
        have ha2 : (if (short != r.path) = true then updateBasePathname (layout (LFI r r.path none)) short else layout (LFI r r.path none)) =
            layout (LFI r short none) := by
          by_cases hne : (short != r.path) = true
          · simp only [hne, ↓reduceIte]
            rw [updateBasePathname_layout _ short (LFI_na _ _ _) (LFI_dd _ _ _), newDashDot_auth _ _ rfl rfl]
            rfl
          · simp only [hne, Bool.false_eq_true, ↓reduceIte]
            have he : short = r.path := by simpa using hne
            rw [he]
        rw [ha2]
        generalize hpq : pathQFrom true 6 short (c :: rest) = pq
        obtain ⟨P, Q⟩ := pq
        congr 1
        exact filePathA_from r hf (LFI r short none) rfl (Spec.shortenPath bFile segs) hshort
          (PB.noSlash_shorten bFile segs hns) frag (c :: rest) P Q hpq

end AdaVerif.Lemmas.PAB

namespace AdaVerif.Lemmas.PAB
open AdaVerif AdaVerif.Spec AdaVerif.Lemmas AdaVerif.Lemmas.AggL AdaVerif.Lemmas.PA AdaVerif.Model AdaVerif.Model.Agg
  AdaVerif.Model.ParseSpecial AdaVerif.Model.ParseAgg AdaVerif.Model.UrlRec AdaVerif.Model.HostParse

theorem fileSlashOtherA_eq (r : Rec) (hf : FileRec r) (frag : Option Bytes) (t : Bytes) :
    some (fileSlashOtherA (some (layout (toL r))) (layout (LH (bFile ++ [0x3A]) [] [] [] none)) frag t) =
      aggOf (fileSlashOther (some r) frag t) := by
  unfold fileSlashOtherA fileSlashOther
  simp only [fileHostCopy r hf _ (getHost_toL r hf), Props.C07.getPathname_layout, fileInherit_out, aggOf]
  have hp : (toL r).path = r.path := rfl
  rw [hp]
  obtain ⟨segs, hsegs, hns⟩ := hf.base.pathSegs hf.opq
  -- the path the object starts PATH with: the base's drive letter, or nothing
  generalize hfirst : (r.path.drop 1).takeWhile (· != 0x2F) = first
  by_cases hcond : (!r.path.isEmpty && !PathPrepared.isWindowsDriveLetter t && PathPrepared.isNormalizedWindowsDriveLetter first) = true
  · simp only [hcond, ↓reduceIte]
    rw [appendBasePathname_layout]
    have hl : ({ LFI r [] none with path := (LFI r [] none).path ++ 0x2F :: first } : L) = LFI r (0x2F :: first) none := rfl
    rw [hl]
    -- `first` is the first segment of the base path
    have hsegne : segs ≠ [] := by
      intro e
      rw [hsegs, e] at hcond
      simp [FP.pathText] at hcond
    obtain ⟨p, more, hpm⟩ : ∃ p more, segs = p :: more := by
      cases segs with
      | nil => exact absurd rfl hsegne
      | cons p more => exact ⟨p, more, rfl⟩
    have hfp : first = p := by
      rw [← hfirst, hsegs, hpm]
      exact PB.first_segment p more (hns p (by rw [hpm]; simp))
    generalize hpq : pathQFrom true 6 (0x2F :: first) t = pq
    obtain ⟨P, Q⟩ := pq
    congr 1
    exact filePathA_from r hf (LFI r (0x2F :: first) none) rfl [p] (by rw [hfp]; simp [FP.pathText, LFI])
      (by intro s hs; simp only [List.mem_singleton] at hs; subst hs; exact hns s (by rw [hpm]; simp)) frag t P Q hpq
  · simp only [hcond, Bool.false_eq_true, ↓reduceIte]
    generalize hpq : pathQFrom true 6 [] t = pq
    obtain ⟨P, Q⟩ := pq
    congr 1
    exact filePathA_from r hf (LFI r [] none) rfl [] rfl (by intro s hs; cases hs) frag t P Q hpq

/-- the model's file base is the base object when its type is FILE -/
theorem fileBaseA_toL (r : Rec) : fileBaseA (layout (toL r)) = if getSchemeType r.scheme == 6 then some (layout (toL r)) else none := by
  unfold fileBaseA
  rw [baseType_layout]

theorem fileSlashBA_eq (idna : Idna) (r : Rec) (hb : BaseRec r) (frag : Option Bytes) (t : Bytes) (hid : ∀ d, HP.IdnaAt idna d) :
    fileSlashBA idna (fileBaseA (layout (toL r))) (layout (LH (bFile ++ [0x3A]) [] [] [] none)) frag t =
      aggOf (fileSlashB idna (fileBase r) frag t) := by
  unfold fileSlashBA fileSlashB
  have hother : some (fileSlashOtherA (fileBaseA (layout (toL r))) (layout (LH (bFile ++ [0x3A]) [] [] [] none)) frag t) =
      aggOf (fileSlashOther (fileBase r) frag t) := by
    rw [fileBaseA_toL]
    unfold fileBase
    by_cases h6 : (getSchemeType r.scheme == 6) = true
    · simp only [h6, ↓reduceIte]
      exact fileSlashOtherA_eq r ⟨hb, by simpa using h6⟩ frag t
    · simp only [h6, Bool.false_eq_true, ↓reduceIte]
      unfold fileSlashOtherA fileSlashOther
      exact filePathA_eq frag t
  cases t with
  | nil => exact hother
  | cons c r' =>
    simp only
    split
    · exact fileHostA_eq idna frag r' hid
    · exact hother

theorem fileBA_eq (idna : Idna) (r : Rec) (hb : BaseRec r) (a0 : Agg)
    (ha0 : updateBaseHostname (setSchemeWithColon a0 (bFile ++ [0x3A])) [] = layout (LH (bFile ++ [0x3A]) [] [] [] none))
    (frag : Option Bytes) (t : Bytes) (hid : ∀ d, HP.IdnaAt idna d) :
    fileBA idna (fileBaseA (layout (toL r))) a0 frag t = aggOf (fileB idna (fileBase r) frag t) := by
  unfold fileBA fileB
  rw [ha0]
  have hother : some (fileOtherA (fileBaseA (layout (toL r))) (layout (LH (bFile ++ [0x3A]) [] [] [] none)) frag t) =
      aggOf (fileOther (fileBase r) frag t) := by
    rw [fileBaseA_toL]
    unfold fileBase
    by_cases h6 : (getSchemeType r.scheme == 6) = true
    · simp only [h6, ↓reduceIte]
      exact fileOtherA_eq r ⟨hb, by simpa using h6⟩ frag t
    · simp only [h6, Bool.false_eq_true, ↓reduceIte]
      unfold fileOtherA fileOther
      exact filePathA_eq frag t
  cases t with
  | nil => exact hother
  | cons c r' =>
    simp only
    split
    · exact fileSlashBA_eq idna r hb frag r' hid
    · exact hother

end AdaVerif.Lemmas.PAB

namespace AdaVerif.Lemmas.PAB
open AdaVerif AdaVerif.Spec AdaVerif.Lemmas AdaVerif.Lemmas.AggL AdaVerif.Lemmas.PA AdaVerif.Model AdaVerif.Model.Agg
  AdaVerif.Model.ParseSpecial AdaVerif.Model.ParseAgg AdaVerif.Model.UrlRec AdaVerif.Model.HostParse

theorem fileStart_empty : updateBaseHostname (setSchemeWithColon emptyAgg (bFile ++ [0x3A])) [] = layout (LH (bFile ++ [0x3A]) [] [] [] none) := by
  rw [setSchemeWithColon_empty]
  exact hostname_LA (bFile ++ [0x3A]) false [] [] [] (fun _ => ⟨rfl, rfl⟩)

theorem fileStart_scheme :
    updateBaseHostname (setSchemeWithColon (layout (LA (bFile ++ [0x3A]) false [] [])) (bFile ++ [0x3A])) [] =
      layout (LH (bFile ++ [0x3A]) [] [] [] none) := by
  rw [setSchemeWithColon_layout _ _ (by simp [LA, bFile])]
  exact hostname_LA (bFile ++ [0x3A]) false [] [] [] (fun _ => ⟨rfl, rfl⟩)

/-- **with a base, both instantiations stay in step - every route** -/
theorem machineBA_eq_full (idna : Idna) (r : Rec) (hb : BaseRec r) (input : Bytes) (hid : ∀ d, HP.IdnaAt idna d) :
    machineBA idna (layout (toL r)) input = some (aggOf (machineB idna r input)) := by
  by_cases hroute : getSchemeType r.scheme ≠ 6 ∧
      (∀ name rest, schemeScan (prep input).1 = some (name, rest) → (parseSchemeNoOverride name).1 ≠ 6)
  · exact machineBA_eq idna r hb input hroute.1 hroute.2
  · -- a file URL on one side at least
    unfold machineBA machineB
    have hbt := baseType_layout r
    have hopq : (layout (toL r)).opq = r.opq := rfl
    generalize hpd : prep input = pd at hroute ⊢
    obtain ⟨d, frag⟩ := pd
    simp only at hroute ⊢
    rw [hbt, hopq]
    cases hss : schemeScan d with
    | none =>
      rw [hss] at hroute
      have h6 : getSchemeType r.scheme = 6 := by
        cases hx : decide (getSchemeType r.scheme = 6) with
        | true => simpa using hx
        | false =>
          exfalso; apply hroute
          exact ⟨by simpa using hx, by intro _ _ h; cases h⟩
      have hno : r.opq = false := hb.specialNotOpaque (by rw [h6]; decide)
      have hne66 : ((6 : Nat) != 6) = false := rfl
      simp only [hno, Bool.false_and, Bool.false_eq_true, ↓reduceIte, h6, hne66]
      congr 1
      exact fileBA_eq idna r hb emptyAgg fileStart_empty frag d hid
    | some nr =>
      obtain ⟨name, rest⟩ := nr
      simp only [parseSchemeA_eq]
      rw [PS.parseSchemeNoOverride_spec]
      simp only
      by_cases h6 : (getSchemeType (name.map toLowerByte) == 6) = true
      · simp only [h6, ↓reduceIte]
        have hfile : name.map toLowerByte = bFile := by
          have := (Proto.type_facts (name.map toLowerByte)).2.1
          rw [h6] at this
          simpa using this.symm
        rw [hfile]
        congr 1
        exact fileBA_eq idna r hb _ fileStart_scheme frag rest hid
      · -- the input is not a file URL, so the base is; but then the base's type is not the input's
        have h6b : getSchemeType r.scheme = 6 := by
          cases hx : decide (getSchemeType r.scheme = 6) with
          | true => simpa using hx
          | false =>
            exfalso; apply hroute
            refine ⟨by simpa using hx, ?_⟩
            intro n2 r2 h2
            rw [hss] at h2
            injection h2 with h2; injection h2 with e1 e2; subst e1
            rw [PS.parseSchemeNoOverride_spec]
            simpa using h6
        simp only [h6, Bool.false_eq_true, ↓reduceIte, h6b]
        have hneq : ((6 : Nat) == getSchemeType (name.map toLowerByte)) = false := by
          have : getSchemeType (name.map toLowerByte) ≠ 6 := by simpa using h6
          simpa using fun e => this e.symm
        simp only [hneq, Bool.and_false, Bool.false_eq_true, ↓reduceIte]
        by_cases h1 : (getSchemeType (name.map toLowerByte) == 1) = true
        · simp only [h1, ↓reduceIte]
          congr 1
          exact afterSchemeNSA_eq idna _ frag rest
        · simp only [h1, Bool.false_eq_true, ↓reduceIte]
          congr 1
          unfold afterScheme
          exact afterSlashesA_eq idna true _ _ frag _

end AdaVerif.Lemmas.PAB

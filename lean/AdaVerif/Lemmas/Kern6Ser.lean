import AdaVerif.Model.HostKernels
import AdaVerif.Lemmas.Ipv6
/-
C10: `serializers::ipv6` (with `find_longest_sequence_of_ipv6_pieces` and `write_hex_u16`) is the Standard's IPv6
serializer.  Both only look at which pieces are zero and otherwise print pieces and colons, so both factor through a
*template* (a list of "piece i" / "colon" items) that depends on the zero pattern alone; the 256 patterns are
decided, the rest is the rendering of a template.
-/
namespace AdaVerif.Lemmas.K6
open AdaVerif AdaVerif.Spec AdaVerif.Lemmas AdaVerif.Model.HostKernels

/-! ### pieces as text -/
theorem hexDigit_eq : ∀ n : Fin 16, hexDigitLower n.val = hexLower n.val := by decide

theorem writeHexU16_eq (v : Nat) (h : v < 65536) : writeHexU16 v = natToHexLower v := by
  rw [V6.natToHexLower_eq v h]
  unfold writeHexU16 V6.hex4
  have d := fun n (hn : n < 16) => hexDigit_eq ⟨n, hn⟩
  by_cases h1 : v < 16
  · have : ¬ v ≥ 0x1000 := by omega
    have : ¬ v ≥ 0x100 := by omega
    have : ¬ v ≥ 0x10 := by omega
    simp [*, d (v % 16) (Nat.mod_lt _ (by decide)), Nat.mod_eq_of_lt h1]
  · by_cases h2 : v < 256
    · have : ¬ v ≥ 0x1000 := by omega
      have : ¬ v ≥ 0x100 := by omega
      have : v ≥ 0x10 := by omega
      have e : v / 16 % 16 = v / 16 := Nat.mod_eq_of_lt (by omega)
      simp [*, d (v / 16) (by omega), d (v % 16) (Nat.mod_lt _ (by decide))]
    · by_cases h3 : v < 4096
      · have : ¬ v ≥ 0x1000 := by omega
        have : v ≥ 0x100 := by omega
        have e : v / 256 % 16 = v / 256 := Nat.mod_eq_of_lt (by omega)
        simp [*, d (v / 256) (by omega), d (v / 16 % 16) (Nat.mod_lt _ (by decide)), d (v % 16) (Nat.mod_lt _ (by decide))]
      · have : v ≥ 0x1000 := by omega
        have e : v / 4096 % 16 = v / 4096 := Nat.mod_eq_of_lt (by omega)
        simp [*, d (v / 4096) (by omega), d (v / 256 % 16) (Nat.mod_lt _ (by decide)), d (v / 16 % 16) (Nat.mod_lt _ (by decide)),
          d (v % 16) (Nat.mod_lt _ (by decide))]

/-! ### templates -/
inductive Item
  | piece (i : Nat)
  | colon
deriving DecidableEq, Repr

def render (txt : Nat → Bytes) (a : List Nat) (t : List Item) : Bytes :=
  t.flatMap (fun it => match it with | .piece i => txt (a.getD i 0) | .colon => [0x3A])

theorem render_append (txt : Nat → Bytes) (a : List Nat) (x y : List Item) : render txt a (x ++ y) = render txt a x ++ render txt a y := by
  simp [render, List.flatMap_append]

/-- the Standard's longest-zero-run search on the zero pattern -/
def lzrGo : List Bool → Nat → Nat → Nat → Nat → Nat → Nat × Nat
  | [], _, curStart, curLen, bestStart, bestLen => if curLen > bestLen then (curStart, curLen) else (bestStart, bestLen)
  | z :: rest, i, curStart, curLen, bestStart, bestLen =>
    if z then
      let cs := if curLen == 0 then i else curStart
      lzrGo rest (i + 1) cs (curLen + 1) bestStart bestLen
    else
      if curLen > bestLen then lzrGo rest (i + 1) 0 0 curStart curLen
      else lzrGo rest (i + 1) 0 0 bestStart bestLen

theorem lzr_flags (l : List Nat) (i cs cl bs bl : Nat) :
    longestZeroRun.go l i cs cl bs bl = lzrGo (l.map (· == 0)) i cs cl bs bl := by
  induction l generalizing i cs cl bs bl with
  | nil => rfl
  | cons x rest ih =>
    simp only [longestZeroRun.go, List.map_cons, lzrGo]
    split
    · exact ih _ _ _ _ _
    · split <;> exact ih _ _ _ _ _

/-- the Standard's serializer loop producing items -/
def goT (compress : Option Nat) : List Bool → Nat → Bool → List Item → List Item
  | [], _, _, out => out
  | z :: rest, i, ignore0, out =>
    if ignore0 && z then goT compress rest (i + 1) true out
    else
      if compress == some i then
        let sep : List Item := if i == 0 then [.colon, .colon] else [.colon]
        goT compress rest (i + 1) true (out ++ sep)
      else
        let out := out ++ [.piece i]
        let out := if i != 7 then out ++ [.colon] else out
        goT compress rest (i + 1) false out

theorem go_items (a : List Nat) (c : Option Nat) (l : List Nat) (i : Nat) (ig : Bool) (out : List Item)
    (hl : l = a.drop i) :
    ipv6Serialize.go c l i ig (render natToHexLower a out) = render natToHexLower a (goT c (l.map (· == 0)) i ig out) := by
  induction l generalizing i ig out with
  | nil => simp [ipv6Serialize.go, goT]
  | cons x rest ih =>
    have hx : a.getD i 0 = x := by
      have : (a.drop i).getD 0 0 = x := by rw [← hl]; rfl
      simpa [List.getD_eq_getElem?_getD] using this
    have hrest : rest = a.drop (i + 1) := by
      have : (a.drop i).drop 1 = rest := by rw [← hl]; rfl
      rw [← this, List.drop_drop]
    simp only [ipv6Serialize.go, List.map_cons, goT]
    split
    · exact ih _ _ _ hrest
    · split
      · have : render natToHexLower a out ++ (if (i == 0) = true then [0x3A, 0x3A] else [0x3A]) =
            render natToHexLower a (out ++ (if (i == 0) = true then [Item.colon, Item.colon] else [Item.colon])) := by
          rw [render_append]; split <;> simp [render]
        rw [this]; exact ih _ _ _ hrest
      · have : (if (i != 7) = true then render natToHexLower a out ++ natToHexLower x ++ [0x3A]
              else render natToHexLower a out ++ natToHexLower x) =
            render natToHexLower a (if (i != 7) = true then out ++ [Item.piece i] ++ [Item.colon] else out ++ [Item.piece i]) := by
          have hx' : a[i]?.getD 0 = x := by rw [← hx]; simp [List.getD_eq_getElem?_getD]
          split <;> simp [render_append, render, hx']
        rw [this]; exact ih _ _ _ hrest

def tmplSpec (f : List Bool) : List Item :=
  let r := lzrGo f 0 0 0 0 0
  goT (if r.2 > 1 then some r.1 else none) f 0 false []

theorem spec_template (a : List Nat) : ipv6Serialize a = render natToHexLower a (tmplSpec (a.map (· == 0))) := by
  unfold ipv6Serialize tmplSpec longestZeroRun
  rw [lzr_flags]
  have := go_items a (if (lzrGo (a.map (· == 0)) 0 0 0 0 0).2 > 1 then some (lzrGo (a.map (· == 0)) 0 0 0 0 0).1 else none) a 0 false []
    (by simp)
  simpa [render] using this

/-! ### the implementation's template -/
def flT : Nat → List Bool → Nat → Nat → Nat → Nat × Nat
  | 0, _, _, c, cl => (c, cl)
  | fuel + 1, f, i, c, cl =>
    if i ≥ 8 then (c, cl)
    else if !(f.getD i true) then flT fuel f (i + 1) c cl
    else
      let next := i + 1 + ((f.drop (i + 1)).takeWhile id).length
      let next := if next > 8 then 8 else next
      let count := next - i
      if count > cl then flT fuel f next i count else flT fuel f next c cl

theorem takeWhile_flags (l : List Nat) : ((l.map (· == 0)).takeWhile id).length = (l.takeWhile (· == 0)).length := by
  induction l with
  | nil => rfl
  | cons x t ih =>
    simp only [List.map_cons, List.takeWhile_cons, id]
    split <;> simp [ih]

theorem findLongest_flags (fuel : Nat) (a : List Nat) (i c cl : Nat) :
    findLongest fuel a i c cl = flT fuel (a.map (· == 0)) i c cl := by
  induction fuel generalizing i c cl with
  | zero => rfl
  | succ f ih =>
    have hget : (getAt a i != 0) = !((a.map (· == 0)).getD i true) := by
      unfold getAt
      by_cases hi : i < a.length
      · simp [List.getD_eq_getElem?_getD, hi, bne]
      · have : a.length ≤ i := by omega
        simp [List.getD_eq_getElem?_getD, this]
    have htw : ((a.drop (i + 1)).takeWhile (· == 0)).length = (((a.map (· == 0)).drop (i + 1)).takeWhile id).length := by
      rw [← List.map_drop, takeWhile_flags]
    simp only [findLongest, flT, hget, htw]
    split
    · rfl
    · split
      · exact ih _ _ _
      · split
        · split <;> exact ih _ _ _
        · split <;> exact ih _ _ _

def ser6LoopT : Nat → Nat → Nat → Nat → List Item → List Item
  | 0, _, _, _, out => out
  | fuel + 1, pieceIndex, compress, compressLength, out =>
    let (pieceIndex, out, stop) :=
      if pieceIndex == compress then
        let out := out ++ [.colon]
        let out := if pieceIndex == 0 then out ++ [.colon] else out
        let pi := pieceIndex + compressLength
        (pi, out, pi == 8)
      else (pieceIndex, out, false)
    if stop then out else
    let out := out ++ [.piece pieceIndex]
    let pieceIndex := pieceIndex + 1
    if pieceIndex == 8 then out
    else ser6LoopT fuel pieceIndex compress compressLength (out ++ [.colon])

theorem ser6_items (fuel : Nat) (a : List Nat) (pi c cl : Nat) (out : List Item) :
    ser6Loop fuel a pi c cl (render writeHexU16 a out) = render writeHexU16 a (ser6LoopT fuel pi c cl out) := by
  induction fuel generalizing pi out with
  | zero => rfl
  | succ f ih =>
    unfold ser6Loop ser6LoopT
    by_cases h1 : (pi == c) = true
    · simp only [h1, ↓reduceIte]
      by_cases h0 : (pi == 0) = true
      · simp only [h0, ↓reduceIte]
        by_cases h8 : (pi + cl == 8) = true
        · simp [h8, render_append, render]
        · simp only [h8, Bool.false_eq_true, ↓reduceIte]
          by_cases h88 : (pi + cl + 1 == 8) = true
          · simp [h88, render_append, render, getAt]
          · simp only [h88, Bool.false_eq_true, ↓reduceIte]
            have := ih (pi + cl + 1) (out ++ [Item.colon] ++ [Item.colon] ++ [Item.piece (pi + cl)] ++ [Item.colon])
            simpa [render_append, render, getAt] using this
      · simp only [h0, Bool.false_eq_true, ↓reduceIte]
        by_cases h8 : (pi + cl == 8) = true
        · simp [h8, render_append, render]
        · simp only [h8, Bool.false_eq_true, ↓reduceIte]
          by_cases h88 : (pi + cl + 1 == 8) = true
          · simp [h88, render_append, render, getAt]
          · simp only [h88, Bool.false_eq_true, ↓reduceIte]
            have := ih (pi + cl + 1) (out ++ [Item.colon] ++ [Item.piece (pi + cl)] ++ [Item.colon])
            simpa [render_append, render, getAt] using this
    · simp only [h1, Bool.false_eq_true, ↓reduceIte]
      by_cases h88 : (pi + 1 == 8) = true
      · simp [h88, render_append, render, getAt]
      · simp only [h88, Bool.false_eq_true, ↓reduceIte]
        have := ih (pi + 1) (out ++ [Item.piece pi] ++ [Item.colon])
        simpa [render_append, render, getAt] using this

def tmplModel (f : List Bool) : List Item :=
  let r := flT 9 f 0 0 0
  let r := if r.2 ≤ 1 then (8, 8) else r
  ser6LoopT 9 0 r.1 r.2 []

theorem model_template (a : List Nat) :
    serIpv6 a = [0x5B] ++ render writeHexU16 a (tmplModel (a.map (· == 0))) ++ [0x5D] := by
  unfold serIpv6 tmplModel
  rw [findLongest_flags]
  have := ser6_items 9 a 0 (if (flT 9 (a.map (· == 0)) 0 0 0).2 ≤ 1 then (8, 8) else flT 9 (a.map (· == 0)) 0 0 0).1
    (if (flT 9 (a.map (· == 0)) 0 0 0).2 ≤ 1 then (8, 8) else flT 9 (a.map (· == 0)) 0 0 0).2 []
  simp only [render, List.flatMap_nil] at this
  cases hq : flT 9 (a.map (· == 0)) 0 0 0 with
  | mk c cl =>
    rw [hq] at this
    simp only
    split <;> simp_all [render]

/-- the two templates agree on every zero pattern of eight pieces -/
theorem templates_agree : ∀ b0 b1 b2 b3 b4 b5 b6 b7 : Bool,
    tmplSpec [b0, b1, b2, b3, b4, b5, b6, b7] = tmplModel [b0, b1, b2, b3, b4, b5, b6, b7] := by decide +kernel

theorem render_txt (a : List Nat) (ha : ∀ x ∈ a, x < 65536) (t : List Item) : render writeHexU16 a t = render natToHexLower a t := by
  unfold render
  congr 1
  funext it
  cases it with
  | colon => rfl
  | piece i =>
    simp only
    apply writeHexU16_eq
    by_cases hi : i < a.length
    · have : a.getD i 0 = a[i] := by simp [List.getD_eq_getElem?_getD, hi]
      rw [this]; exact ha _ (List.getElem_mem hi)
    · have : a.getD i 0 = 0 := by
        have hle : a.length ≤ i := by omega
        simp [List.getD_eq_getElem?_getD, List.getElem?_eq_none hle]
      rw [this]; decide

/-- **serializers::ipv6** writes the Standard's serialisation between brackets -/
theorem serIpv6_eq (a : List Nat) (hl : a.length = 8) (ha : ∀ x ∈ a, x < 65536) :
    serIpv6 a = [0x5B] ++ ipv6Serialize a ++ [0x5D] := by
  rw [model_template, spec_template, render_txt a ha]
  match a, hl with
  | [x0, x1, x2, x3, x4, x5, x6, x7], _ =>
    simp only [List.map_cons, List.map_nil]
    rw [templates_agree]

end AdaVerif.Lemmas.K6

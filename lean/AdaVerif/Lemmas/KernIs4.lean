import AdaVerif.Lemmas.Kern4
import AdaVerif.Lemmas.PathString
/-
C10: `checkers::is_ipv4` is the Standard's ends-in-a-number checker on non-empty texts without upper-case letters
(the precondition stated in the source).
-/
namespace AdaVerif.Lemmas.K4
open AdaVerif AdaVerif.Spec AdaVerif.Lemmas AdaVerif.Model.HostKernels AdaVerif.Model.FastScan

/-- the label after the last dot -/
theorem afterLastDot_snoc (pre L : Bytes) (hL : (0x2E : UInt8) ∉ L) : afterLastDot (pre ++ 0x2E :: L) = L := by
  unfold afterLastDot Model.PathPrepared.rfind
  rw [PP.rfind_go_last _ _ _ _ _ hL]
  simp only [Nat.zero_add]
  rw [show pre ++ 0x2E :: L = (pre ++ [0x2E]) ++ L by simp]
  exact List.drop_left' (by simp)

theorem afterLastDot_nodot (L : Bytes) (hL : (0x2E : UInt8) ∉ L) : afterLastDot L = L := by
  unfold afterLastDot Model.PathPrepared.rfind
  rw [PP.rfind_go_none _ _ _ _ hL]

/-- a text is its labels: everything before the last label, a dot, the last label -/
theorem last_label_split (t : Bytes) :
    ∃ pre L, (0x2E : UInt8) ∉ L ∧ (splitOn 0x2E t).getLast? = some L ∧ (t = L ∨ t = pre ++ 0x2E :: L) := by
  induction t with
  | nil => exact ⟨[], [], by simp, by simp [splitOn], Or.inl rfl⟩
  | cons b r ih =>
    obtain ⟨pre, L, hL, hl, hsplit⟩ := ih
    simp only [splitOn]
    split
    · rename_i hb
      have hb' : b = 0x2E := by simpa using hb
      subst hb'
      have hl2 : ([] :: splitOn 0x2E r).getLast? = some L := by
        cases hsp : splitOn 0x2E r with
        | nil => exact absurd hsp (FS.splitOn_ne_nil _ r)
        | cons p ps => rw [hsp] at hl; simpa [List.getLast?_cons_cons] using hl
      rcases hsplit with e | e
      · exact ⟨[], L, hL, hl2, Or.inr (by rw [e]; rfl)⟩
      · exact ⟨0x2E :: pre, L, hL, hl2, Or.inr (by rw [e]; rfl)⟩
    · rename_i hb
      have hb' : b ≠ 0x2E := by simpa using hb
      cases hsp : splitOn 0x2E r with
      | nil => exact absurd hsp (FS.splitOn_ne_nil _ r)
      | cons p ps =>
        rw [hsp] at hl
        cases ps with
        | nil =>
          -- a single label: r = L
          simp only [List.getLast?_singleton, Option.some.injEq] at hl
          subst hl
          have hr : r = p := by
            have := FS.join_split 0x2E r
            rw [hsp] at this; simpa [joinWith] using this.symm
          refine ⟨[], b :: p, ?_, by simp, Or.inl (by rw [hr])⟩
          intro hm
          rcases List.mem_cons.mp hm with e | e
          · exact hb' e.symm
          · exact hL e
        | cons q qs =>
          have hl' : (q :: qs).getLast? = some L := by simpa [List.getLast?_cons_cons] using hl
          rcases hsplit with e | e
          · -- r = L has no dot, but r has at least two labels
            exfalso
            have := Lemmas.splitOn_no_sep 0x2E r (by rw [e]; exact hL)
            rw [hsp] at this; simp at this
          · refine ⟨b :: pre, L, hL, by simpa [List.getLast?_cons_cons] using hl', Or.inr (by rw [e]; rfl)⟩

/-- the Standard's verdict on the label it examines -/
def decision (L : Bytes) : Bool := (!L.isEmpty && L.all isAsciiDigit) || (ipv4Number L).isSome

/-- the code's verdict on the text after the last dot -/
def cppDecision (L : Bytes) (last : UInt8) : Bool :=
  let possible := isDigit last || (decide (0x61 ≤ last.toNat) && decide (last.toNat ≤ 0x66)) || last == 0x78
  if !possible then false else
  if L.all isDigit then true
  else if L.length == 1 then false
  else hexTail L

theorem lowhex_facts : ∀ b : UInt8, isAsciiUpper b = false →
    (isRadixDigit 16 b = isLowerHex b) ∧
    (isLowerHex b = true → (isDigit b || (decide (0x61 ≤ b.toNat) && decide (b.toNat ≤ 0x66)) || b == 0x78) = true) ∧
    (isDigit b = true → (isDigit b || (decide (0x61 ≤ b.toNat) && decide (b.toNat ≤ 0x66)) || b == 0x78) = true) ∧
    (isRadixDigit 8 b = true → isDigit b = true) ∧ (isRadixDigit 10 b = isDigit b) ∧ b ≠ 0x58 := by
  apply forall_uint8_of_fin; decide +kernel

theorem all_last' {p : UInt8 → Bool} (t : Bytes) (h : t.all p = true) (z : UInt8) (hz : t.getLast? = some z) : p z = true := by
  simp only [List.all_eq_true] at h
  exact h z (List.mem_of_getLast? hz)

theorem all_congr_mem (l : Bytes) (p q : UInt8 → Bool) (h : ∀ b ∈ l, p b = q b) : l.all p = l.all q := by
  induction l with
  | nil => rfl
  | cons a t ih =>
    simp only [List.all_cons, h a (by simp)]
    rw [ih (fun b hb => h b (by simp [hb]))]

theorem label_decision (L : Bytes) (hne : L ≠ []) (hlow : ∀ b ∈ L, isAsciiUpper b = false) (last : UInt8)
    (hl : L.getLast? = some last) : cppDecision L last = decision L := by
  have hlastlow := hlow last (List.mem_of_getLast? hl)
  have hemp : L.isEmpty = false := FS.isEmpty_false_of_ne hne
  unfold cppDecision decision
  simp only [hemp, Bool.not_false, Bool.true_and]
  have hdig : L.all isAsciiDigit = L.all isDigit := rfl
  by_cases hall : L.all isDigit = true
  · have hp := (lowhex_facts last hlastlow).2.2.1 (all_last' L hall last hl)
    simp [hp, hall, hdig]
  · have hall' : L.all isDigit = false := by simpa using hall
    rw [hdig, hall']
    simp only [Bool.false_eq_true, ↓reduceIte, Bool.false_or]
    match L, hne, hlow, hl, hall' with
    | [c], _, _, hl, hall' =>
      have hc : isDigit c = false := by simpa using hall'
      have : ipv4Number [c] = none := by
        simp [ipv4Number, parseRadix, (nibble_facts c).2.2.2.2.1, hc]
      rw [this]
      simp
    | c0 :: c1 :: rest, _, hlow, hl, hall' =>
      have hlen : ((c0 :: c1 :: rest).length == 1) = false := by simp
      simp only [hlen, Bool.false_eq_true, ↓reduceIte]
      by_cases h0 : c0 = 0x30
      · subst h0
        by_cases h1 : c1 = 0x78
        · subst h1
          have hsp : ipv4Number (0x30 :: 0x78 :: rest) =
              (if rest.isEmpty then some 0 else if rest.all (isRadixDigit 16) then some (parseRadix 16 rest) else none) := by
            simp [ipv4Number]
          rw [hsp]
          cases rest with
          | nil =>
            have : last = 0x78 := by simpa using hl.symm
            subst this
            simp [hexTail]
          | cons d t' =>
            have hlr : (d :: t').getLast? = some last := by simpa [List.getLast?_cons_cons] using hl
            have h16 : (d :: t').all (isRadixDigit 16) = (d :: t').all isLowerHex :=
              all_congr_mem _ _ _ (fun b hb => (lowhex_facts b (hlow b (List.mem_cons_of_mem _ (List.mem_cons_of_mem _ hb)))).1)
            simp only [List.isEmpty_cons, Bool.false_eq_true, ↓reduceIte, h16]
            by_cases hh : (d :: t').all isLowerHex = true
            · have hp := (lowhex_facts last hlastlow).2.1 (all_last' _ hh last hlr)
              simp [hp, hh, hexTail]
            · have hh' : (d :: t').all isLowerHex = false := by simpa using hh
              simp [hh', hexTail]
        · -- "0" then something else: octal would be all digits
          have hx : c1 ≠ 0x58 := (lowhex_facts c1 (hlow c1 (by simp))).2.2.2.2.2
          have hnx : (c1 == 0x78 || c1 == 0x58) = false := by simp [h1, hx]
          have hsp : ipv4Number (0x30 :: c1 :: rest) =
              (if (c1 :: rest).all (isRadixDigit 8) then some (parseRadix 8 (c1 :: rest)) else none) := by
            simp [ipv4Number, hnx]
          have hoct : (c1 :: rest).all (isRadixDigit 8) = false := by
            cases hq : (c1 :: rest).all (isRadixDigit 8) with
            | false => rfl
            | true =>
              exfalso
              have : (0x30 :: c1 :: rest).all isDigit = true := by
                simp only [List.all_cons, List.all_eq_true] at hq ⊢
                simp only [Bool.and_eq_true, List.all_eq_true] at hq
                refine Bool.and_eq_true_iff.mpr ⟨by decide, Bool.and_eq_true_iff.mpr ⟨?_, ?_⟩⟩
                · exact (lowhex_facts c1 (hlow c1 (by simp))).2.2.2.1 hq.1
                · simp only [List.all_eq_true]
                  intro b hb
                  exact (lowhex_facts b (hlow b (by simp [hb]))).2.2.2.1 (hq.2 b hb)
              rw [this] at hall'; cases hall'
          rw [hsp, hoct]
          have hm : hexTail ((0x30 : UInt8) :: c1 :: rest) = false := by
            unfold hexTail
            split
            · rename_i heq; injection heq with _ h2; injection h2 with h3 _; exact absurd h3 h1
            · rfl
          simp [hm]
      · have hsp : ipv4Number (c0 :: c1 :: rest) =
            (if (c0 :: c1 :: rest).all (isRadixDigit 10) then some (parseRadix 10 (c0 :: c1 :: rest)) else none) := by
          unfold ipv4Number
          simp only [List.isEmpty_cons, Bool.false_eq_true, ↓reduceIte]
          split
          · rename_i heq; injection heq with e _; exact absurd e h0
          · simp
        have h10 : (c0 :: c1 :: rest).all (isRadixDigit 10) = false := by
          have : isRadixDigit 10 = isDigit := funext (fun b => (nibble_facts b).2.2.2.2.1)
          rw [this]; exact hall'
        rw [hsp, h10]
        have hm : hexTail (c0 :: c1 :: rest) = false := by
          unfold hexTail
          split
          · rename_i heq; injection heq with e _; exact absurd e h0
          · rfl
        simp [hm]

theorem snoc_of_getLast?' (l : Bytes) (x : UInt8) (h : l.getLast? = some x) : l = l.dropLast ++ [x] :=
  FS.snoc_of_getLast? l x h

theorem decision_nil : decision [] = false := by simp [decision, ipv4Number]

/-- the Standard's checker looks at the last label of the text without one trailing dot -/
theorem endsInANumber_view (s view : Bytes) (hs : s ≠ [])
    (hv : view = if s.getLast? == some 0x2E then s.dropLast else s) :
    endsInANumber s = (if view.isEmpty then false else decision (((splitOn 0x2E view).getLast?).getD [])) := by
  unfold endsInANumber
  simp only
  by_cases hdot : (s.getLast? == some 0x2E) = true
  · simp only [hdot, ↓reduceIte] at hv
    have hsd : s = view ++ [0x2E] := by
      have := FS.snoc_of_getLast? s 0x2E (by simpa using hdot)
      rw [hv]; exact this
    have hne := FS.splitOn_ne_nil 0x2E view
    rw [hsd, splitOn_snoc_sep]
    have hlast : ((splitOn 0x2E view ++ [[]]).getLast? == some []) = true := by simp
    have hlen : ((splitOn 0x2E view ++ [[]]).length == 1) = false := by
      cases hq : splitOn 0x2E view with
      | nil => exact absurd hq hne
      | cons a b => simp
    simp only [hlast, ↓reduceIte, hlen, Bool.false_eq_true, List.dropLast_concat]
    by_cases hve : view = []
    · subst hve; simp [splitOn, ipv4Number]
    · have : view.isEmpty = false := FS.isEmpty_false_of_ne hve
      simp only [this, Bool.false_eq_true, ↓reduceIte]
      cases hq : (splitOn 0x2E view).getLast? with
      | none => simp at hq; exact absurd hq hne
      | some L =>
        simp only [Option.getD_some, decision]
        cases (!L.isEmpty && L.all isAsciiDigit) <;> rfl
  · have hdot' : (s.getLast? == some 0x2E) = false := by simpa using hdot
    simp only [hdot', Bool.false_eq_true, ↓reduceIte] at hv
    subst hv
    have hve : view.isEmpty = false := FS.isEmpty_false_of_ne hs
    have hlne : ((splitOn 0x2E view).getLast? == some []) = false := by
      cases hq : ((splitOn 0x2E view).getLast? == some []) with
      | false => rfl
      | true =>
        exfalso
        rcases last_label_empty 0x2E view (by simpa using hq) with e | e
        · exact hs e
        · rw [e] at hdot'; simp at hdot'
    simp only [hlne, Bool.false_eq_true, ↓reduceIte, hve]
    cases hq : (splitOn 0x2E view).getLast? with
    | none => simp at hq; exact absurd hq (FS.splitOn_ne_nil _ _)
    | some L =>
      simp only [Option.getD_some, decision]
      cases (!L.isEmpty && L.all isAsciiDigit) <;> rfl

/-- **checkers::is_ipv4** is the Standard's ends-in-a-number checker (on the inputs of its stated precondition) -/
theorem isIpv4_eq (s : Bytes) (hs : s ≠ []) (hlow : ∀ b ∈ s, isAsciiUpper b = false) : isIpv4 s = endsInANumber s := by
  rw [endsInANumber_view s _ hs rfl]
  unfold isIpv4
  simp only
  generalize hv : (if s.getLast? == some 0x2E then s.dropLast else s) = view
  have hsub : ∀ b ∈ view, b ∈ s := by
    intro b hb
    rw [← hv] at hb
    split at hb
    · exact List.dropLast_subset _ hb
    · exact hb
  by_cases hve : view = []
  · subst hve; rfl
  have hemp : view.isEmpty = false := FS.isEmpty_false_of_ne hve
  simp only [hemp, Bool.false_eq_true, ↓reduceIte]
  obtain ⟨pre, L, hL, hlastL, hsplit⟩ := last_label_split view
  rw [hlastL]
  simp only [Option.getD_some]
  have hafter : afterLastDot view = L := by
    rcases hsplit with e | e
    · rw [e]; exact afterLastDot_nodot L hL
    · rw [e]; exact afterLastDot_snoc pre L hL
  rw [hafter]
  obtain ⟨last, hlast⟩ : ∃ last, view.getLast? = some last := by
    cases hq : view.getLast? with
    | none => simp at hq; exact absurd hq hve
    | some z => exact ⟨z, rfl⟩
  rw [hlast]
  simp only [Option.getD_some]
  by_cases hLe : L = []
  · -- the text ends with a dot: the last label is empty
    subst hLe
    have hl46 : last = 0x2E := by
      rcases hsplit with e | e
      · exact absurd e hve
      · rw [e] at hlast; simpa using hlast.symm
    subst hl46
    rw [decision_nil]
    decide
  · have hLlast : L.getLast? = some last := by
      rcases hsplit with e | e
      · rw [← e]; exact hlast
      · rw [e, List.getLast?_append] at hlast
        cases hq : (0x2E :: L).getLast? with
        | none => simp at hq
        | some z =>
          rw [hq] at hlast
          simp only [Option.some_or, Option.some.injEq] at hlast
          subst hlast
          cases L with
          | nil => exact absurd rfl hLe
          | cons a t => simpa [List.getLast?_cons_cons] using hq
    have hLlow : ∀ b ∈ L, isAsciiUpper b = false := by
      intro b hb
      apply hlow b (hsub b _)
      rcases hsplit with e | e
      · rw [e]; exact hb
      · rw [e]; simp [hb]
    have := label_decision L hLe hLlow last hLlast
    unfold cppDecision at this
    exact this

end AdaVerif.Lemmas.K4

import AdaVerif.Spec.Sets
import AdaVerif.Model.Encode
/-
Helper lemmas for C11: the encoders are `flatMap`, the index search is "first index",
decode laws.  Property statements live in Props/C11.lean.
-/
namespace AdaVerif.Lemmas
open AdaVerif AdaVerif.Model

/-- T2 (table rows): `hex + 4*b` is `%` and two upper-case hex digits, for all 256 bytes. -/
theorem hexRow_eq : ∀ b : UInt8, hexRow b = Spec.pctByte b := by
  apply forall_uint8_of_fin; decide +kernel

theorem encodeLoop_eq (set : List Nat) (s : Bytes) :
    encodeLoop set s = Spec.percentEncode (bitAt set) s := by
  induction s with
  | nil => rfl
  | cons b rest ih =>
    simp only [encodeLoop, Spec.percentEncode, List.flatMap_cons, hexRow_eq] at *
    rw [ih]

theorem findFirst_le (set : List Nat) (s : Bytes) : findFirst set s ≤ s.length := by
  induction s with
  | nil => simp [findFirst]
  | cons b rest ih => simp only [findFirst]; split <;> simp <;> omega

/-- everything before the first hit is copied verbatim by the spec encoder -/
theorem spec_take_findFirst (set : List Nat) (s : Bytes) :
    Spec.percentEncode (bitAt set) (s.take (findFirst set s)) = s.take (findFirst set s) := by
  induction s with
  | nil => simp [findFirst, Spec.percentEncode]
  | cons b rest ih =>
    simp only [findFirst]
    split
    · simp [Spec.percentEncode]
    · rename_i h
      have : 1 + findFirst set rest = findFirst set rest + 1 := by omega
      rw [this, List.take_succ_cons]
      simp only [Spec.percentEncode, List.flatMap_cons, h] at *
      simp [ih]

theorem spec_append (p : UInt8 → Bool) (a b : Bytes) :
    Spec.percentEncode p (a ++ b) = Spec.percentEncode p a ++ Spec.percentEncode p b := by
  simp [Spec.percentEncode, List.flatMap_append]

theorem findFirst_eq_length (set : List Nat) (s : Bytes) (h : findFirst set s = s.length) :
    Spec.percentEncode (bitAt set) s = s := by
  have := spec_take_findFirst set s
  rw [h, List.take_length] at this
  exact this

/-- T3a: `std::string percent_encode(input, set)` is the Standard's encoder. -/
theorem percentEncode_eq (set : List Nat) (s : Bytes) :
    percentEncode set s = Spec.percentEncode (bitAt set) s := by
  unfold percentEncode
  simp only
  split
  · rename_i h
    exact (findFirst_eq_length set s (by simpa using h)).symm
  · rw [encodeLoop_eq]
    conv => rhs; rw [← List.take_append_drop (findFirst set s) s]
    rw [spec_append, spec_take_findFirst]

/-- T3b: the `out`-parameter overload: returns false exactly when nothing needs encoding,
    and then `input` itself is the encoding. -/
theorem percentEncodeInto_none (app : Bool) (set : List Nat) (s out : Bytes)
    (h : percentEncodeInto app set s out = none) : Spec.percentEncode (bitAt set) s = s := by
  unfold percentEncodeInto at h
  simp only at h
  split at h
  · rename_i h'; exact findFirst_eq_length set s (by simpa using h')
  · cases h

theorem percentEncodeInto_some (app : Bool) (set : List Nat) (s out o : Bytes)
    (h : percentEncodeInto app set s out = some o) :
    o = (if app then out else []) ++ Spec.percentEncode (bitAt set) s := by
  unfold percentEncodeInto at h
  simp only at h
  split at h
  · cases h
  · injection h with h
    rw [← h, encodeLoop_eq, List.append_assoc]
    congr 1
    conv => rhs; rw [← List.take_append_drop (findFirst set s) s]
    rw [spec_append, spec_take_findFirst]

/-- T3c: `percent_encode(input, set, index)` when nothing before `index` needs encoding. -/
theorem percentEncodeFrom_eq (set : List Nat) (s : Bytes) (i : Nat)
    (h : Spec.percentEncode (bitAt set) (s.take i) = s.take i) :
    percentEncodeFrom set s i = Spec.percentEncode (bitAt set) s := by
  unfold percentEncodeFrom
  rw [encodeLoop_eq]
  conv => rhs; rw [← List.take_append_drop i s]
  rw [spec_append, h]

theorem indexTail_eq (set : List Nat) (i : Nat) (s : Bytes) :
    indexTail set i s = i + findFirst set s := by
  induction s generalizing i with
  | nil => simp [indexTail, findFirst]
  | cons b rest ih =>
    simp only [indexTail, findFirst]
    split
    · simp
    · rw [ih]; omega

/-- T3d: the 8-unrolled `percent_encode_index` is the first index (or the length). -/
theorem percentEncodeIndex_eq (set : List Nat) (i : Nat) (s : Bytes) :
    percentEncodeIndex set i s = i + findFirst set s := by
  fun_induction percentEncodeIndex set i s with
  | case1 => simp [findFirst, *]
  | case2 => simp [findFirst, *]
  | case3 => simp [findFirst, *]
  | case4 => simp [findFirst, *]
  | case5 => simp [findFirst, *]
  | case6 => simp [findFirst, *]
  | case7 => simp [findFirst, *]
  | case8 => simp [findFirst, *]
  | case9 _ _ _ _ _ _ _ _ _ _ _ _ _ _ _ _ _ _ ih => simp [findFirst, *]; omega
  | case10 => exact indexTail_eq ..

end AdaVerif.Lemmas

import AdaVerif.Model.AggHostSetter
import AdaVerif.Lemmas.HostSetter
import AdaVerif.Lemmas.AggSetPathname
/-
`url_aggregator::set_host` / `set_hostname` on the buffer of a record = the Standard's host setters, under the same side
condition as for `ada::url` (Lemmas/HostSetter.lean).
-/
namespace AdaVerif.Lemmas.AggL
open AdaVerif AdaVerif.Spec AdaVerif.Model AdaVerif.Model.Agg AdaVerif.Model.HostParse AdaVerif.Model.UrlRec

/-- `has_dash_dot()` reads the content's flag (no assumption on the authority: the transient state right after a host
    was written in front of a guarded path has both) -/
theorem hasDashDot_layout' (l : L) (h : l.dashdot = true → l.port = none ∧ l.opq = false) : hasDashDot (layout l) = l.dashdot := by
  cases hd : l.dashdot
  · cases hp : l.port with
    | none => simp [hasDashDot, layout, hd, hp, ddS, portS]
    | some pd =>
      obtain ⟨p, d⟩ := pd
      have hat : at_ (layout l).buf (layout l).he = 0x3A := by
        rw [at_eq (A := l.scheme ++ authS l.auth ++ l.user ++ passS l.pass ++ atS l.user l.pass ++ l.host)
          (B := portS l.port ++ (ddS l.dashdot ++ (l.path ++ (queryS l.query ++ fragS l.frag))))
          (by simp [layout, List.append_assoc]) (by simp [layout]; omega)]
        simp [hp, portS]
      simp [hasDashDot, hat]
  · obtain ⟨hp, ho⟩ := h hd
    have hat0 : at_ (layout l).buf (layout l).he = 0x2F := by
      rw [at_eq (A := l.scheme ++ authS l.auth ++ l.user ++ passS l.pass ++ atS l.user l.pass ++ l.host)
        (B := portS l.port ++ (ddS l.dashdot ++ (l.path ++ (queryS l.query ++ fragS l.frag))))
        (by simp [layout, List.append_assoc]) (by simp [layout]; omega)]
      simp [hp, hd, portS, ddS]
    have hat1 : at_ (layout l).buf ((layout l).he + 1) = 0x2E := by
      rw [at_eq (A := l.scheme ++ authS l.auth ++ l.user ++ passS l.pass ++ atS l.user l.pass ++ l.host ++ [0x2F])
        (B := 0x2E :: (l.path ++ (queryS l.query ++ fragS l.frag)))
        (by simp [layout, hp, hd, portS, ddS, List.append_assoc]) (by simp [layout]; omega)]
      rfl
    simp [hasDashDot, hat0, hat1]
    simp [layout, hp, hd, portS, ddS, ho]

theorem dropDashDot_layout (l : L) (h : l.dashdot = true → l.port = none ∧ l.opq = false) :
    dropDashDot (layout l) = layout { l with dashdot := false } := by
  unfold dropDashDot
  rw [hasDashDot_layout' l h]
  cases hd : l.dashdot
  · simp only [Bool.false_eq_true, ↓reduceIte]
    congr 1
    cases l; simp_all
  · simp only [↓reduceIte]
    exact deleteDashDot_layout l hd (h hd).1

/-- the content of the record with a new host -/
theorem ofUrl_host (u : Url) (h : Host) :
    ofUrl { u with host := some h } = { ofUrl u with auth := true, host := h.serialize, dashdot := false } := by
  simp [ofUrl, Url.pathSerialized]

/-- `parse_host` on the buffer of a record stores the Standard's host -/
theorem parseHostAgg_eq (idna : Idna) (u : Url) (ok : CredOk u) (buf : Bytes) (hne : buf ≠ []) (hid : ∀ d, HP.IdnaAt idna d) :
    parseHostAgg idna u.isSpecial (layout (ofUrl u)) buf =
      (hostParse idna buf (!u.isSpecial)).map (fun h => layout { ofUrl u with auth := true, host := h.serialize }) := by
  unfold parseHostAgg
  rw [HP.parseHostA_eq, HP.parseHost_eq idna u.isSpecial buf hne (hid _)]
  cases hostParse idna buf (!u.isSpecial) with
  | none => rfl
  | some h =>
    simp only [Option.map_some, HP.viewH]
    rw [updateBaseHostname_layout (ofUrl u) _ (noAuthNoCred_ofUrl u ok)]

/-- ... and with the "/." guard dropped it is the buffer of the record with that host -/
theorem host_written (u : Url) (ok : CredOk u) (h : Host) :
    dropDashDot (layout { ofUrl u with auth := true, host := h.serialize }) = layout (ofUrl { u with host := some h }) := by
  rw [dropDashDot_layout, ofUrl_host]
  intro hd
  have hd' : (ofUrl u).dashdot = true := hd
  obtain ⟨_, ho, hp⟩ := dashDotOk_ofUrl u ok hd'
  exact ⟨hp, ho⟩

/-- the port part on the buffer -/
theorem hostSetterPortA_eq (u : Url) (hh : u.host.isSome = true) (t : Bytes) :
    hostSetterPortA ((defaultPort u.scheme).getD 0) (layout (ofUrl u)) t = layout (ofUrl (portOverride u t)) := by
  have hdd : (ofUrl u).dashdot = false := by
    cases h : u.host with
    | none => simp [h] at hh
    | some x => simp [ofUrl, h]
  unfold hostSetterPortA portOverride
  cases t with
  | nil => simp
  | cons c r =>
    simp only
    by_cases hd : isAsciiDigit c = true
    · have hne : ((c :: r).takeWhile isAsciiDigit).isEmpty = false := by simp [List.takeWhile_cons, hd]
      simp only [hd, Bool.not_true, Bool.false_eq_true, ↓reduceIte, hne]
      by_cases hbig : parseRadix 10 ((c :: r).takeWhile isAsciiDigit) > 65535
      · simp [hbig]
      · simp only [hbig, ↓reduceIte]
        rw [UR.portValid_eq]
        generalize parseRadix 10 ((c :: r).takeWhile isAsciiDigit) = p
        by_cases hdp : (defaultPort u.scheme == some p) = true
        · simp only [hdp, Bool.not_true, Bool.false_eq_true, ↓reduceIte]
          rw [clearPort_layout _ hdd]
          simp [ofUrl, Url.pathSerialized]
        · have hdp' : (defaultPort u.scheme == some p) = false := by simpa using hdp
          simp only [hdp', Bool.not_false, ↓reduceIte, Bool.false_eq_true]
          rw [updateBasePort_layout _ _ _ hdd]
          simp [ofUrl, Url.pathSerialized]
    · have hd' : isAsciiDigit c = false := by simpa using hd
      have he : ((c :: r).takeWhile isAsciiDigit).isEmpty = true := by simp [List.takeWhile_cons, hd']
      simp [hd', he]

/-- `has_port()` on the buffer of a record -/
theorem hasPort_layout (u : Url) (ok : CredOk u) : hasPort (layout (ofUrl u)) = u.port.isSome := by
  unfold hasPort hasHostname
  rw [hasAuthority_layout _ (noAuthNoCred_ofUrl u ok)]
  cases hh : u.host with
  | none =>
    obtain ⟨_, _, hp⟩ := ok.hostless hh
    simp [ofUrl, hh, hp]
  | some h =>
    cases hp : u.port with
    | none => simp [ofUrl, layout, hh, hp, portS, ddS]
    | some p => simp [ofUrl, layout, hh, hp, portS, ddS]

/-- an empty host on the buffer: `clear_hostname`, or the "//" alone (with the "/." guard dropped) -/
theorem emptyHost_layout (u : Url) (ok : CredOk u) (hna : TailNoAt (ofUrl u)) :
    (if hasHostname (layout (ofUrl u)) then clearHostname (layout (ofUrl u))
     else if hasDashDot (layout (ofUrl u)) then deleteDashDot (addAuthoritySlashes (layout (ofUrl u)))
     else addAuthoritySlashes (layout (ofUrl u))) = layout (ofUrl { u with host := some .empty }) := by
  have hnc := noAuthNoCred_ofUrl u ok
  have hdo := dashDotOk_ofUrl u ok
  unfold hasHostname
  rw [hasAuthority_layout _ hnc, hasDashDot_layout _ hdo, ofUrl_host]
  cases hh : u.host with
  | none =>
    have ha : (ofUrl u).auth = false := by simp [ofUrl, hh]
    simp only [ha, Bool.false_eq_true, ↓reduceIte]
    rw [addAuthoritySlashes_layout _ hnc]
    cases hd : (ofUrl u).dashdot
    · simp only [Bool.false_eq_true, ↓reduceIte]
      congr 1
      have hhost : (ofUrl u).host = [] := by simp [ofUrl, hh]
      cases hl : ofUrl u; simp_all [Host.serialize]
    · simp only [↓reduceIte]
      obtain ⟨_, _, hp⟩ := hdo hd
      have hdel := deleteDashDot_layout { ofUrl u with auth := true, dashdot := true } rfl hp
      rw [hdel]
      congr 1
      have hhost : (ofUrl u).host = [] := by simp [ofUrl, hh]
      cases hl : ofUrl u; simp_all [Host.serialize]
  | some h =>
    have ha : (ofUrl u).auth = true := by simp [ofUrl, hh]
    have hd : (ofUrl u).dashdot = false := by simp [ofUrl, hh]
    simp only [ha, ↓reduceIte]
    rcases clearHostname_layout (ofUrl u) hnc hna with e | e
    · rw [e]
      congr 1
      cases hl : ofUrl u; simp_all [Host.serialize]
    · rw [ha] at e; cases e

/-- the hostname region of a laid-out buffer -/
theorem hostSlice_layout (l : L) : slice (layout l).buf (layout l).hs (layout l).he = atS l.user l.pass ++ l.host := by
  have hb : (layout l).buf = (l.scheme ++ authS l.auth ++ (l.user ++ passS l.pass)) ++ ((atS l.user l.pass ++ l.host) ++
      (portS l.port ++ (ddS l.dashdot ++ (l.path ++ (queryS l.query ++ fragS l.frag))))) := by
    simp [layout, List.append_assoc]
  have hhe : (layout l).he = (l.scheme ++ authS l.auth ++ (l.user ++ passS l.pass)).length + (atS l.user l.pass ++ l.host).length := by
    simp [layout]; omega
  rw [slice, hb, hs_eq, hhe]
  generalize l.scheme ++ authS l.auth ++ (l.user ++ passS l.pass) = P
  generalize atS l.user l.pass ++ l.host = M
  rw [← List.append_assoc, List.take_left' (by simp), List.drop_left' rfl]

theorem sized_eqA (L : Nat) (u u' : Url) :
    (if (layout (ofUrl u')).buf.length > L then (layout (ofUrl u), false) else (layout (ofUrl u'), true)).1 =
      if (layout (ofUrl u')).buf.length ≤ L then layout (ofUrl u') else layout (ofUrl u) := by
  by_cases h : (layout (ofUrl u')).buf.length ≤ L
  · have : ¬ (layout (ofUrl u')).buf.length > L := by omega
    simp [h, this]
  · have : (layout (ofUrl u')).buf.length > L := by omega
    simp [h, this]

theorem same_eqA (L : Nat) (u : Url) :
    layout (ofUrl u) = if (layout (ofUrl u)).buf.length ≤ L then layout (ofUrl u) else layout (ofUrl u) := by
  split <;> rfl

/-- **`url_aggregator::set_host` / `set_hostname`**: the buffer is left holding the Standard's host-setter result when
    that fits the limit, and as it was otherwise -/
theorem setHostA_eq (hn : Bool) (idna : Idna) (L : Nat) (u : Url) (v : Bytes) (ok : CredOk u) (hna : TailNoAt (ofUrl u))
    (hfile : u.scheme = bFile → u.host.isSome = true ∧ u.username = [] ∧ u.password = [])
    (hid : ∀ d, HP.IdnaAt idna d)
    (hclean : u.scheme ≠ bFile → HS.bracketClean u.isSpecial false (stripTN (v.takeWhile (· != 0x23))) = true) :
    (setHostA hn idna L u.isSpecial (u.scheme == bFile) ((defaultPort u.scheme).getD 0) (layout (ofUrl u)) v).1 =
      if (layout (ofUrl (setHostGeneric hn idna u v))).buf.length ≤ L then layout (ofUrl (setHostGeneric hn idna u v))
      else layout (ofUrl u) := by
  unfold setHostA setHostGeneric
  have hopq : (layout (ofUrl u)).opq = u.isOpaque := rfl
  rw [hopq]
  by_cases ho : u.isOpaque = true
  · simp only [ho, ↓reduceIte]; exact same_eqA L u
  · have ho' : u.isOpaque = false := by simpa using ho
    simp only [ho, Bool.false_eq_true, ↓reduceIte, HS.strip_cut]
    generalize hsdef : stripTN v = s
    by_cases hfl : u.scheme = bFile
    · -- file host state
      obtain ⟨hsome, hfu, hfp⟩ := hfile hfl
      have hfb : (u.scheme == bFile) = true := by simp [hfl]
      simp only [hfb, Bool.not_true, Bool.false_eq_true, ↓reduceIte, HS.fileHost_eq]
      generalize (s.takeWhile (· != 0x23)).takeWhile (fun c => !(c == 0x2F || c == 0x5C || c == 0x3F)) = fh
      have hclr : clearHostname (layout (ofUrl u)) = layout (ofUrl { u with host := some .empty }) := by
        have := emptyHost_layout u ok hna
        unfold hasHostname at this
        rw [hasAuthority_layout _ (noAuthNoCred_ofUrl u ok)] at this
        have ha : (ofUrl u).auth = true := by
          cases hh : u.host with
          | none => simp [hh] at hsome
          | some x => simp [ofUrl, hh]
        simpa [ha] using this
      by_cases he : fh.isEmpty = true
      · simp only [he, ↓reduceIte, hclr]
        (try simp only [ho']); exact sized_eqA L u _
      · simp only [he, Bool.false_eq_true, ↓reduceIte]
        have hne : fh ≠ [] := by intro e; subst e; simp at he
        have hspf : u.isSpecial = true := by simp [Url.isSpecial, hfl, isSpecialScheme]
        rw [parseHostAgg_eq idna u ok fh hne hid, hspf]
        simp only [Bool.not_true]
        cases hp : hostParse idna fh false with
        | none => simp only [Option.map_none]; exact same_eqA L u
        | some h =>
          simp only [Option.map_some]
          -- a file URL has a host and no credentials: the record with the new host is already laid out
          have hl1 : ({ ofUrl u with auth := true, host := h.serialize } : Model.Agg.L) = ofUrl { u with host := some h } := by
            rw [ofUrl_host]
            cases hh : u.host with
            | none => simp [hh] at hsome
            | some x => simp [ofUrl, hh]
          rw [hl1, hostSlice_layout]
          have hat : atS (ofUrl { u with host := some h }).user (ofUrl { u with host := some h }).pass = [] := by
            simp [ofUrl, hfu, hfp, atS]
          have hhost : (ofUrl { u with host := some h }).host = h.serialize := by simp [ofUrl]
          rw [hat, hhost, List.nil_append, HS.serialize_localhost idna fh h hp]
          by_cases hl : (h == Host.domain bLocalhost) = true
          · simp only [hl, ↓reduceIte]
            have hh' : h = Host.domain bLocalhost := by simpa using hl
            subst hh'
            -- clear_hostname on the buffer that now holds "localhost"
            have ok1 : CredOk { u with host := some (Host.domain bLocalhost) } := by
              refine ⟨?_, ?_, ?_⟩
              · intro hx; cases hx
              · intro hx; injection hx with hx; cases hx
              · intro h2 hx _; injection hx with hx; subst hx; simp [Host.serialize, bLocalhost]
            have hna1 : TailNoAt (ofUrl { u with host := some (Host.domain bLocalhost) }) := by
              simp [TailNoAt, ofUrl, Host.serialize, bLocalhost]
            have := emptyHost_layout { u with host := some (Host.domain bLocalhost) } ok1 hna1
            unfold hasHostname at this
            rw [hasAuthority_layout _ (noAuthNoCred_ofUrl _ ok1)] at this
            have ha : (ofUrl { u with host := some (Host.domain bLocalhost) }).auth = true := by simp [ofUrl]
            simp only [ha, ↓reduceIte] at this
            rw [this]
            (try simp only [ho']); exact sized_eqA L u _
          · simp only [hl, Bool.false_eq_true, ↓reduceIte]
            (try simp only [ho']); exact sized_eqA L u _
    · -- host state
      have hfb : (u.scheme == bFile) = false := by simpa using hfl
      simp only [hfb, Bool.not_false, ↓reduceIte, Bool.false_eq_true, HS.upto_eq, hasCredentials_layout u ok, hasPort_layout u ok]
      have hcl := hclean hfl
      rw [HS.strip_cut, hsdef] at hcl
      generalize hN : s.takeWhile (· != 0x23) = N at hcl
      rw [HS.split_agree u.isSpecial N hcl]
      generalize hup : N.takeWhile (fun b => !isHardDelim u.isSpecial b) = upto
      by_cases hcolon : hostEnd upto < upto.length
      · simp only [hcolon, ↓reduceIte]
        have htk : N.take (hostEnd upto) = upto.take (hostEnd upto) := by
          rw [← hup]; exact HS.take_upto _ N _ (by rw [hup]; omega)
        rw [htk]
        by_cases hbe : (upto.take (hostEnd upto)).isEmpty = true
        · simp only [hbe, ↓reduceIte]; exact same_eqA L u
        · simp only [hbe, Bool.false_eq_true, ↓reduceIte]
          cases hn with
          | true => simp only [↓reduceIte]; exact same_eqA L u
          | false =>
            simp only [Bool.false_eq_true, ↓reduceIte]
            have hne : upto.take (hostEnd upto) ≠ [] := by intro e; rw [e] at hbe; simp at hbe
            rw [parseHostAgg_eq idna u ok _ hne hid]
            cases hp : hostParse idna (upto.take (hostEnd upto)) (!u.isSpecial) with
            | none => simp only [Option.map_none]; exact same_eqA L u
            | some h =>
              simp only [Option.map_some]
              rw [host_written u ok h]
              have hsch : ({ u with host := some h } : Url).scheme = u.scheme := rfl
              have hport := hostSetterPortA_eq { u with host := some h } rfl (N.drop (hostEnd upto + 1))
              rw [hsch] at hport
              rw [hport]
              have hdig : portOverride { u with host := some h } (N.drop (hostEnd upto + 1)) =
                  portOverride { u with host := some h } (s.drop (hostEnd upto + 1)) := by
                unfold portOverride
                have hk : hostEnd upto + 1 ≤ N.length := by
                  have h1 : upto.length ≤ N.length := by
                    rw [← hup]; exact (List.takeWhile_prefix (p := fun b => !isHardDelim u.isSpecial b)).length_le
                  omega
                rw [← hN] at hk ⊢
                rw [HS.digits_same s _ hk]
              rw [hdig]
              (try simp only [ho']); exact sized_eqA L u _
      · simp only [hcolon, ↓reduceIte]
        have htk : N.take upto.length = upto := by
          rw [← hup, HS.take_upto (fun b => !isHardDelim u.isSpecial b) N _ (Nat.le_refl _), List.take_length]
        rw [htk]
        by_cases hue : upto.isEmpty = true
        · have hunil : upto = [] := by cases upto <;> simp_all
          simp only [hue, Bool.true_and, Bool.and_true]
          cases hs : u.isSpecial
          · simp only [Bool.false_eq_true, ↓reduceIte, Bool.not_false]
            by_cases hcp : (u.includesCredentials || u.port.isSome) = true
            · simp only [hcp, ↓reduceIte]; exact same_eqA L u
            · simp only [hcp, Bool.false_eq_true, ↓reduceIte]
              have hp : hostParse idna upto true = some (.opaqueHost []) := by
                rw [hunil]; simp [hostParse, opaqueHostParse, Spec.percentEncode]
              rw [hp]
              simp only
              rw [emptyHost_layout u ok hna]
              (try simp only [ho']); exact sized_eqA L u _
          · simp only [↓reduceIte]; exact same_eqA L u
        · have hue' : upto.isEmpty = false := by simpa using hue
          simp only [hue', Bool.false_and, Bool.and_false, Bool.false_eq_true, ↓reduceIte]
          have hne : upto ≠ [] := by intro e; rw [e] at hue'; simp at hue'
          rw [parseHostAgg_eq idna u ok _ hne hid]
          cases hp : hostParse idna upto (!u.isSpecial) with
          | none => simp only [Option.map_none]; exact same_eqA L u
          | some h =>
            simp only [Option.map_some]
            rw [host_written u ok h]
            (try simp only [ho']); exact sized_eqA L u _

end AdaVerif.Lemmas.AggL

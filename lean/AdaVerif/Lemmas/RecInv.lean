import AdaVerif.Spec.RecInv
namespace AdaVerif.Lemmas
open AdaVerif AdaVerif.Spec

/-- after its last segment the path state always leaves a non-empty path -/
theorem pathSegments_ne_nil (scheme : Bytes) (segs : List Bytes) (path : List Bytes) (h : segs ≠ []) :
    pathSegments scheme segs path ≠ [] := by
  induction segs generalizing path with
  | nil => exact absurd rfl h
  | cons seg more ih =>
    unfold pathSegments
    by_cases hm : more = []
    · subst hm
      simp only [List.isEmpty_nil, ↓reduceIte, pathSegments]
      split
      · simp
      · split <;> simp
    · exact ih _ hm

theorem splitPath_ne_nil (sp : Bool) (t : Bytes) : splitPath sp t ≠ [] := by
  cases t with
  | nil => simp [splitPath]
  | cons b rest =>
    unfold splitPath
    split
    · simp
    · split <;> simp

theorem pathState_ne_nil (scheme : Bytes) (path : List Bytes) (t : Bytes) : pathState scheme path t ≠ [] :=
  pathSegments_ne_nil _ _ _ (splitPath_ne_nil _ _)

/-- serialized non-opaque paths are empty or start with '/' -/
theorem pathSerialized_shape (u : Url) (h : u.isOpaque = false) :
    u.pathSerialized = [] ∨ u.pathSerialized.head? = some 0x2F := by
  unfold Url.pathSerialized
  simp only [h, Bool.false_eq_true, ↓reduceIte]
  cases u.path with
  | nil => left; rfl
  | cons a t => right; simp

end AdaVerif.Lemmas

namespace AdaVerif.Lemmas
open AdaVerif AdaVerif.Spec

theorem recinv_username (u : Url) (v : Bytes) (h : RecInv u = true) : RecInv (setUsername u v) = true := by
  unfold setUsername
  split
  · exact h
  · rename_i hc
    obtain ⟨scheme, user, pass, host, port, iso, opath, path, q, f⟩ := u
    simp only [RecInv, portOkB, Url.isSpecial, Url.cannotHaveUsernamePasswordPort] at h hc ⊢
    cases host <;> simp_all

theorem recinv_password (u : Url) (v : Bytes) (h : RecInv u = true) : RecInv (setPassword u v) = true := by
  unfold setPassword
  split
  · exact h
  · rename_i hc
    obtain ⟨scheme, user, pass, host, port, iso, opath, path, q, f⟩ := u
    simp only [RecInv, portOkB, Url.isSpecial, Url.cannotHaveUsernamePasswordPort] at h hc ⊢
    cases host <;> simp_all

theorem recinv_portOverride (u : Url) (s : Bytes) (h : RecInv u = true)
    (hc : u.cannotHaveUsernamePasswordPort = false) : RecInv (portOverride u s) = true := by
  unfold portOverride
  simp only
  split
  · exact h
  · split
    · exact h
    · rename_i hp
      obtain ⟨scheme, user, pass, host, port, iso, opath, path, q, f⟩ := u
      split
      · simp only [RecInv, portOkB, Url.isSpecial, Url.cannotHaveUsernamePasswordPort] at h hc ⊢
        cases host <;> simp_all
      · rename_i hd
        simp only [RecInv, portOkB, Url.isSpecial, Url.cannotHaveUsernamePasswordPort] at h hc ⊢
        cases host <;> simp_all <;> omega

theorem recinv_port (u : Url) (v : Bytes) (h : RecInv u = true) : RecInv (setPort u v) = true := by
  unfold setPort
  split
  · exact h
  · rename_i hc
    split
    · obtain ⟨scheme, user, pass, host, port, iso, opath, path, q, f⟩ := u
      simp only [RecInv, portOkB, Url.isSpecial, Url.cannotHaveUsernamePasswordPort] at h hc ⊢
      cases host <;> simp_all
    · exact recinv_portOverride u _ h (by simpa using hc)

theorem recinv_strip (u : Url) (h : RecInv u = true) : RecInv u.stripTrailingSpaces = true := by
  unfold Url.stripTrailingSpaces
  split; · exact h
  split; · exact h
  split; · exact h
  simpa [RecInv, portOkB, Url.isSpecial, Url.cannotHaveUsernamePasswordPort] using h

theorem recinv_search (u : Url) (v : Bytes) (h : RecInv u = true) : RecInv (setSearch u v) = true := by
  unfold setSearch
  split
  · apply recinv_strip
    simpa [RecInv, portOkB, Url.isSpecial, Url.cannotHaveUsernamePasswordPort] using h
  · simpa [RecInv, portOkB, Url.isSpecial, Url.cannotHaveUsernamePasswordPort] using h

theorem recinv_hash (u : Url) (v : Bytes) (h : RecInv u = true) : RecInv (setHash u v) = true := by
  unfold setHash
  split
  · apply recinv_strip
    simpa [RecInv, portOkB, Url.isSpecial, Url.cannotHaveUsernamePasswordPort] using h
  · simpa [RecInv, portOkB, Url.isSpecial, Url.cannotHaveUsernamePasswordPort] using h

/-- RecInv only looks at `path` through emptiness -/
theorem recinv_with_path (u : Url) (p : List Bytes) (h : RecInv u = true)
    (hp : u.isSpecial = true → p ≠ []) : RecInv { u with path := p } = true := by
  obtain ⟨scheme, user, pass, host, port, iso, opath, path, q, f⟩ := u
  simp only [RecInv, portOkB, Url.isSpecial, Url.cannotHaveUsernamePasswordPort] at h hp ⊢
  by_cases hs : isSpecialScheme scheme = true
  · have := hp hs
    cases host <;> simp_all
  · cases host <;> simp_all

theorem recinv_pathname (u : Url) (v : Bytes) (h : RecInv u = true) : RecInv (setPathname u v) = true := by
  unfold setPathname
  split
  · exact h
  · apply recinv_with_path u _ h
    intro hs
    simp only [hs, ↓reduceIte]
    split
    · split <;> exact pathState_ne_nil _ _ _
    · exact pathState_ne_nil _ _ _

end AdaVerif.Lemmas

namespace AdaVerif.Lemmas
open AdaVerif AdaVerif.Spec

theorem mem_takeWhile_prop {p : UInt8 → Bool} {l : Bytes} {y : UInt8} (h : y ∈ l.takeWhile p) : p y = true := by
  induction l with
  | nil => simp at h
  | cons a t ih =>
    simp only [List.takeWhile_cons] at h
    split at h
    · rename_i ha
      rcases List.mem_cons.mp h with rfl | h'
      · exact ha
      · exact ih h'
    · simp at h

theorem lower_schemeChar : ∀ b : UInt8, isSchemeChar b = true → isLowerSchemeByte (toLowerByte b) = true := by
  apply forall_uint8_of_fin; decide +kernel
theorem lower_alpha : ∀ b : UInt8, isAsciiAlpha b = true → isAsciiLower (toLowerByte b) = true ∧ isSchemeChar b = true := by
  apply forall_uint8_of_fin; decide +kernel

theorem schemeOk_of_takeWhile (c : UInt8) (t : Bytes) (hc : isAsciiAlpha c = true) :
    schemeOk (((c :: t).takeWhile isSchemeChar).map toLowerByte) = true := by
  have ⟨h1, h2⟩ := lower_alpha c hc
  simp only [List.takeWhile_cons, h2, ↓reduceIte, List.map_cons, schemeOk, h1, Bool.true_and, List.all_eq_true,
    List.mem_map]
  rintro x ⟨y, hy, rfl⟩
  exact lower_schemeChar y (mem_takeWhile_prop hy)

/-- `parse`'s scheme, too, is well-formed -/
theorem takeScheme_ok (s name rest : Bytes) (h : takeScheme s = some (name, rest)) : schemeOk name = true := by
  unfold takeScheme at h
  split at h
  · cases h
  · rename_i c t
    split at h
    · cases h
    · rename_i hc
      simp only at h
      split at h
      · injection h with h; injection h with h1 h2
        rw [← h1]
        exact schemeOk_of_takeWhile c t (by simpa using hc)
      · cases h

theorem defaultPort_special (s : Bytes) (p : Nat) (h : defaultPort s = some p) : isSpecialScheme s = true := by
  unfold defaultPort at h
  unfold isSpecialScheme
  split at h; · simp_all
  split at h; · simp_all
  split at h; · simp_all
  split at h; · simp_all
  split at h; · simp_all
  cases h

theorem special_file : isSpecialScheme bFile = true := by decide

theorem recinv_protocolCore (u : Url) (buf : Bytes) (hok : schemeOk buf = true) (h : RecInv u = true) :
    RecInv (protocolCore u buf) = true := by
  unfold protocolCore
  split; · exact h
  rename_i hsp
  split; · exact h
  rename_i hcp
  split; · exact h
  rename_i hfe
  obtain ⟨scheme, user, pass, host, port, iso, opath, path, q, f⟩ := u
  simp only [RecInv, portOkB, Url.isSpecial, Url.cannotHaveUsernamePasswordPort, Url.includesCredentials] at h hsp hcp hfe ⊢
  have hsp' : isSpecialScheme scheme = isSpecialScheme buf := by
    cases h1 : isSpecialScheme scheme <;> cases h2 : isSpecialScheme buf <;> simp_all
  by_cases hb : buf = bFile <;> by_cases hsf : scheme = bFile <;> split <;>
    (cases host with
     | none => simp_all [hostNonEmpty, hostWf, special_file]
     | some hh => cases hh <;> simp_all [hostNonEmpty, hostWf, special_file] <;> grind)

theorem recinv_protocol (u : Url) (v : Bytes) (h : RecInv u = true) : RecInv (setProtocol u v) = true := by
  unfold setProtocol
  simp only
  split
  · exact h
  · rename_i c t hs
    split
    · exact h
    · rename_i hc
      split
      · rw [hs]; exact recinv_protocolCore u _ (schemeOk_of_takeWhile c t (by simpa using hc)) h
      · exact h

end AdaVerif.Lemmas

namespace AdaVerif.Lemmas
open AdaVerif AdaVerif.Spec

theorem percentEncode_ne_nil (p : UInt8 → Bool) (s : Bytes) (h : s ≠ []) : percentEncode p s ≠ [] := by
  cases s with
  | nil => exact absurd rfl h
  | cons a t =>
    simp only [percentEncode, List.flatMap_cons]
    split <;> simp [pctByte]

theorem domainToAscii_ne_nil (idna : Idna) (d r : Bytes) (h : domainToAscii idna d = some r) : r ≠ [] := by
  unfold domainToAscii at h
  simp only at h
  split at h
  · split at h
    · cases h
    · rename_i hne; injection h with h; subst h
      intro hh; simp [hh] at hne
  · cases h

/-- a successful host parse of a non-empty string yields a well-formed, non-empty host -/
theorem hostParse_wf (idna : Idna) (s : Bytes) (opq : Bool) (h : Host) (hs : s ≠ [])
    (hp : hostParse idna s opq = some h) : hostWf (some h) = true ∧ h ≠ .empty := by
  unfold hostParse at hp
  split at hp
  · split at hp
    · cases hp
    · simp only [Option.map_eq_some_iff] at hp
      obtain ⟨a, _, rfl⟩ := hp
      simp [hostWf]
  · split at hp
    · unfold opaqueHostParse at hp
      split at hp
      · cases hp
      · injection hp with hp; subst hp
        have := percentEncode_ne_nil inC0 s hs
        simp [hostWf, this]
    · simp only at hp
      split at hp
      · cases hp
      · rename_i ascii hd
        split at hp
        · cases hp
        · split at hp
          · simp only [Option.map_eq_some_iff] at hp
            obtain ⟨a, _, rfl⟩ := hp
            simp [hostWf]
          · injection hp with hp; subst hp
            have := domainToAscii_ne_nil idna _ _ hd
            simp [hostWf, this]

/-- RecInv after replacing the host by a well-formed non-empty one -/
theorem recinv_with_host (u : Url) (h : Host) (hu : RecInv u = true) (ho : u.isOpaque = false)
    (hwf : hostWf (some h) = true) (hne : h ≠ .empty) : RecInv { u with host := some h } = true := by
  obtain ⟨scheme, user, pass, host, port, iso, opath, path, q, f⟩ := u
  simp only [RecInv, portOkB, Url.isSpecial, Url.cannotHaveUsernamePasswordPort] at hu ho ⊢
  subst ho
  cases h <;> cases host <;> simp_all [hostNonEmpty, hostWf] <;> grind

/-- RecInv after setting the empty host, allowed when there are no credentials and no port and the
    scheme is `file` or not special -/
theorem recinv_with_empty_host (u : Url) (hu : RecInv u = true) (ho : u.isOpaque = false)
    (hc : u.includesCredentials = false ∧ u.port = none) (hs : u.isSpecial = false ∨ u.scheme = bFile) :
    RecInv { u with host := some .empty } = true := by
  obtain ⟨scheme, user, pass, host, port, iso, opath, path, q, f⟩ := u
  simp only [RecInv, portOkB, Url.isSpecial, Url.cannotHaveUsernamePasswordPort, Url.includesCredentials] at hu ho hc hs ⊢
  subst ho
  cases host <;> simp_all [hostNonEmpty, hostWf, special_file] <;> grind

end AdaVerif.Lemmas

namespace AdaVerif.Lemmas
open AdaVerif AdaVerif.Spec

theorem ne_nil_of_not_isEmpty {α : Type} {l : List α} (h : ¬ l.isEmpty = true) : l ≠ [] :=
  fun hh => h (by rw [hh]; rfl)

theorem recinv_file_nocred (u : Url) (hu : RecInv u = true) (hf : u.scheme = bFile) :
    u.includesCredentials = false ∧ u.port = none := by
  obtain ⟨scheme, user, pass, host, port, iso, opath, path, q, f⟩ := u
  simp only [RecInv, portOkB, Url.isSpecial, Url.cannotHaveUsernamePasswordPort, Url.includesCredentials] at hu hf ⊢
  subst hf
  cases host <;> simp_all

theorem recinv_host (hn : Bool) (idna : Idna) (u : Url) (v : Bytes) (hu : RecInv u = true) :
    RecInv (setHostGeneric hn idna u v) = true := by
  unfold setHostGeneric
  split
  · exact hu
  · rename_i ho
    have ho' : u.isOpaque = false := by simpa using ho
    simp only
    split
    · -- file
      rename_i hf
      have hf' : u.scheme = bFile := by simpa using hf
      have hnc := recinv_file_nocred u hu hf'
      split
      · exact recinv_with_empty_host u hu ho' hnc (Or.inr hf')
      · rename_i hbne
        split
        · exact hu
        · rename_i h hp
          have ⟨hwf, hne⟩ := hostParse_wf idna _ false h (ne_nil_of_not_isEmpty hbne) hp
          split
          · exact recinv_with_empty_host u hu ho' hnc (Or.inr hf')
          · exact recinv_with_host u h hu ho' hwf hne
    · rename_i hnf
      have hnf' : u.scheme ≠ bFile := by simpa using hnf
      split
      · -- ':' outside brackets
        split
        · exact hu
        · rename_i hbne
          split
          · exact hu
          · split
            · exact hu
            · rename_i h hp
              have ⟨hwf, hne⟩ := hostParse_wf idna _ _ h (ne_nil_of_not_isEmpty hbne) hp
              apply recinv_portOverride _ _ (recinv_with_host u h hu ho' hwf hne)
              simp only [Url.cannotHaveUsernamePasswordPort]
              cases h <;> simp_all
      · split
        · exact hu
        · rename_i hse
          split
          · exact hu
          · rename_i hce
            split
            · exact hu
            · rename_i h hp
              split
              · rename_i hbe
                have hsp : u.isSpecial = false := by
                  cases hh : u.isSpecial
                  · rfl
                  · exact absurd (by rw [hbe, hh]; rfl) hse
                have hcc : u.includesCredentials = false ∧ u.port = none := by
                  rw [hbe] at hce
                  cases h1 : u.includesCredentials <;> cases hpp : u.port <;> simp_all
                exact recinv_with_empty_host u hu ho' hcc (Or.inl hsp)
              · rename_i hbe
                have ⟨hwf, hne⟩ := hostParse_wf idna _ _ h (ne_nil_of_not_isEmpty hbe) hp
                exact recinv_with_host u h hu ho' hwf hne

end AdaVerif.Lemmas

import AdaVerif.Model.SearchParams
namespace AdaVerif.Lemmas
open AdaVerif AdaVerif.Model AdaVerif.Model.USP

/-! ### list-of-pairs laws -/

theorem set_absent (l : USP) (k v : Bytes) (h : USP.has l k = false) : USP.set l k v = l ++ [(k, v)] := by
  induction l with
  | nil => rfl
  | cons p rest ih =>
    simp only [USP.has, List.any_cons, Bool.or_eq_false_iff] at h
    simp only [USP.set, h.1, Bool.false_eq_true, ↓reduceIte, List.cons_append]
    rw [ih (by simpa [USP.has] using h.2)]

theorem getAll_set (l : USP) (k v : Bytes) : USP.getAll (USP.set l k v) k = [v] := by
  induction l with
  | nil => simp [USP.set, USP.getAll]
  | cons p rest ih =>
    simp only [USP.set]
    split
    · rename_i hp
      simp only [USP.getAll, List.filter_cons, hp, ↓reduceIte, List.map_cons, List.filter_filter]
      have : rest.filter (fun a => (!(a.1 == k)) && (a.1 == k)) = [] := by
        apply List.filter_eq_nil_iff.mpr; intro a _; cases a.1 == k <;> simp
      simp [this]
    · rename_i hp
      simp only [USP.getAll, List.filter_cons, hp, Bool.false_eq_true, ↓reduceIte] at ih ⊢
      exact ih

/-- `set` leaves every other key untouched, in the original order -/
theorem others_set (l : USP) (k v : Bytes) :
    (USP.set l k v).filter (fun p => !(p.1 == k)) = l.filter (fun p => !(p.1 == k)) := by
  induction l with
  | nil => simp [USP.set]
  | cons p rest ih =>
    simp only [USP.set]
    split
    · rename_i hp
      simp [List.filter_cons, hp, List.filter_filter]
    · rename_i hp
      simp [List.filter_cons, hp, ih]

/-- the replaced entry stays where the first entry with that key was -/
theorem position_set (l : USP) (k v : Bytes) :
    (USP.set l k v).takeWhile (fun p => !(p.1 == k)) = l.takeWhile (fun p => !(p.1 == k)) := by
  induction l with
  | nil => simp [USP.set]
  | cons p rest ih =>
    simp only [USP.set]
    split
    · rename_i hp; simp [List.takeWhile_cons, hp]
    · rename_i hp; simp [List.takeWhile_cons, hp, ih]

theorem getAll_remove (l : USP) (k : Bytes) : USP.getAll (USP.remove l k) k = [] := by
  simp only [USP.getAll, USP.remove, List.filter_filter, List.map_eq_nil_iff]
  apply List.filter_eq_nil_iff.mpr; intro a _; cases a.1 == k <;> simp

theorem others_remove (l : USP) (k k' : Bytes) (h : (k' == k) = false) :
    USP.getAll (USP.remove l k) k' = USP.getAll l k' := by
  simp only [USP.getAll, USP.remove, List.filter_filter]
  congr 1
  apply List.filter_congr
  intro a _
  by_cases ha : a.1 == k'
  · have : (a.1 == k) = false := by
      simp only [beq_iff_eq] at ha; rw [ha]; exact h
    simp [ha, this]
  · simp [ha]

theorem getAll_append (l : USP) (k v : Bytes) : USP.getAll (USP.append l k v) k = USP.getAll l k ++ [v] := by
  simp [USP.getAll, USP.append, List.filter_append]

theorem has_iff_getAll (l : USP) (k : Bytes) : USP.has l k = !(USP.getAll l k).isEmpty := by
  induction l with
  | nil => rfl
  | cons p rest ih =>
    simp only [USP.has, USP.getAll, List.any_cons, List.filter_cons] at ih ⊢
    split <;> simp_all

theorem get_eq_head_getAll (l : USP) (k : Bytes) : USP.get l k = (USP.getAll l k).head? := by
  induction l with
  | nil => rfl
  | cons p rest ih =>
    simp only [USP.get, USP.getAll, List.find?_cons, List.filter_cons] at ih ⊢
    split <;> simp_all

/-! ### the comparator of `sort()` -/

/-- the stream of UTF-16 code units the decoder produces from a cursor -/
def unitsFuel : Nat → Cursor → List Nat
  | 0, _ => []
  | f + 1, c => match nextUnit c with
    | none => []
    | some (u, c') => u :: unitsFuel f c'

def lexLt : List Nat → List Nat → Bool
  | [], [] => false
  | [], _ :: _ => true
  | _ :: _, [] => false
  | a :: as, b :: bs => if a != b then decide (a < b) else lexLt as bs

/-- a cursor's measure: every decoder step strictly decreases it -/
def cmeasure (c : Cursor) : Nat := 2 * c.1.length + (if c.2 != 0 then 1 else 0)

theorem nextUnit_decreases (c : Cursor) (u : Nat) (c' : Cursor) (h : nextUnit c = some (u, c')) :
    cmeasure c' < cmeasure c := by
  obtain ⟨s, low⟩ := c
  unfold nextUnit at h
  simp only at h
  split at h
  · rename_i hl
    injection h with h; injection h with h1 h2; subst h2
    simp only [cmeasure, hl, ↓reduceIte]; simp
  · rename_i hl
    have hl0 : low = 0 := by simpa using hl
    subst hl0
    split at h
    · cases h
    · rename_i c1 rest
      split at h
      · split at h <;> (injection h with h; injection h with h1 h2; subst h2; simp [cmeasure]; try omega)
      · split at h
        · split at h <;> (injection h with h; injection h with h1 h2; subst h2; simp [cmeasure]; try omega)
        · split at h
          · split at h
            · injection h with h; injection h with h1 h2; subst h2
              simp only [cmeasure, List.length_cons]
              split <;> omega
            · injection h with h; injection h with h1 h2; subst h2; simp [cmeasure]
          · injection h with h; injection h with h1 h2; subst h2; simp [cmeasure]

end AdaVerif.Lemmas

namespace AdaVerif.Lemmas
open AdaVerif AdaVerif.Model AdaVerif.Model.USP

/-- the code-unit stream of a cursor (well-founded on the decoder measure) -/
def units (c : Cursor) : List Nat :=
  match h : nextUnit c with
  | none => []
  | some (u, c') => u :: units c'
termination_by cmeasure c
decreasing_by exact nextUnit_decreases c u c' h

theorem units_none (c : Cursor) (h : nextUnit c = none) : units c = [] := by
  rw [units]; split
  · rfl
  · rename_i h'; rw [h] at h'; cases h'

theorem units_some (c : Cursor) (u : Nat) (c' : Cursor) (h : nextUnit c = some (u, c')) :
    units c = u :: units c' := by
  rw [units]; split
  · rename_i h'; rw [h] at h'; cases h'
  · rename_i u2 c2 h'; rw [h] at h'; injection h' with h'; injection h' with h1 h2; subst h1; subst h2; rfl

/-- the two-cursor loop of the comparator is lexicographic comparison of the code-unit streams -/
theorem cmpLoop_eq (fuel : Nat) (a b : Cursor) (hf : cmeasure a < fuel) :
    cmpLoop fuel a b = lexLt (units a) (units b) := by
  induction fuel generalizing a b with
  | zero => omega
  | succ f ih =>
    unfold cmpLoop
    cases ha : nextUnit a with
    | none =>
      rw [units_none a ha]
      cases hb : nextUnit b with
      | none => rw [units_none b hb]; rfl
      | some p => obtain ⟨u, b'⟩ := p; rw [units_some b u b' hb]; rfl
    | some p =>
      obtain ⟨u1, a'⟩ := p
      rw [units_some a u1 a' ha]
      cases hb : nextUnit b with
      | none => rw [units_none b hb]; rfl
      | some q =>
        obtain ⟨u2, b'⟩ := q
        rw [units_some b u2 b' hb]
        simp only [lexLt]
        split
        · rfl
        · exact ih a' b' (by have := nextUnit_decreases a u1 a' ha; omega)

theorem keyLess_eq (x y : Pair) : USP.keyLess x y = lexLt (units (x.1, 0)) (units (y.1, 0)) := by
  unfold USP.keyLess
  apply cmpLoop_eq
  simp [cmeasure]; omega

/-! lexicographic order on code-unit lists is a strict total order -/

theorem lexLt_irrefl (a : List Nat) : lexLt a a = false := by
  induction a with
  | nil => rfl
  | cons x xs ih => simp [lexLt, ih]

theorem lexLt_asymm (a b : List Nat) (h : lexLt a b = true) : lexLt b a = false := by
  induction a generalizing b with
  | nil => cases b <;> simp_all [lexLt]
  | cons x xs ih =>
    cases b with
    | nil => simp [lexLt] at h
    | cons y ys =>
      simp only [lexLt] at h ⊢
      by_cases hxy : x = y
      · subst hxy; simp at h ⊢; exact ih ys h
      · have : y ≠ x := fun e => hxy e.symm
        simp [hxy, this] at h ⊢; omega

theorem lexLt_trans (a b c : List Nat) (h1 : lexLt a b = true) (h2 : lexLt b c = true) : lexLt a c = true := by
  induction a generalizing b c with
  | nil => cases b <;> cases c <;> simp_all [lexLt]
  | cons x xs ih =>
    cases b with
    | nil => simp [lexLt] at h1
    | cons y ys =>
      cases c with
      | nil => simp [lexLt] at h2
      | cons z zs =>
        simp only [lexLt] at h1 h2 ⊢
        by_cases hxy : x = y
        · subst hxy
          by_cases hxz : x = z
          · subst hxz; simp at h1 h2 ⊢; exact ih ys zs h1 h2
          · simp [hxz] at h2 ⊢; simpa using h2
        · by_cases hyz : y = z
          · subst hyz; simp [hxy] at h1 ⊢; simpa using h1
          · simp [hxy, hyz] at h1 h2
            have : x ≠ z := by omega
            simp [this]; omega

theorem lexLt_total (a b : List Nat) (h1 : lexLt a b = false) (h2 : lexLt b a = false) : a = b := by
  induction a generalizing b with
  | nil => cases b <;> simp_all [lexLt]
  | cons x xs ih =>
    cases b with
    | nil => simp [lexLt] at h2
    | cons y ys =>
      simp only [lexLt] at h1 h2
      by_cases hxy : x = y
      · subst hxy; simp at h1 h2; rw [ih ys h1 h2]
      · have : y ≠ x := fun e => hxy e.symm
        simp [hxy, this] at h1 h2; omega

/-- "not greater" for the comparator -/
def keyLe (x y : Pair) : Bool := !USP.keyLess y x

theorem keyLe_total (x y : Pair) : (keyLe x y || keyLe y x) = true := by
  unfold keyLe
  rw [keyLess_eq, keyLess_eq]
  cases h : lexLt (units (y.1, 0)) (units (x.1, 0))
  · simp
  · simp [lexLt_asymm _ _ h]

theorem keyLe_trans (x y z : Pair) (h1 : keyLe x y = true) (h2 : keyLe y z = true) : keyLe x z = true := by
  unfold keyLe at *
  rw [keyLess_eq] at *
  simp only [Bool.not_eq_true', Bool.not_eq_eq_eq_not, Bool.not_true] at *
  -- ¬ y<x, ¬ z<y ⊢ ¬ z<x
  cases h : lexLt (units (z.1, 0)) (units (x.1, 0))
  · rfl
  · exfalso
    -- z < x; compare y with z
    cases hyz : lexLt (units (y.1, 0)) (units (z.1, 0))
    · have := lexLt_total _ _ hyz h2
      rw [this] at h1; rw [h1] at h; cases h
    · have := lexLt_trans _ _ _ hyz h
      rw [h1] at this; cases this

end AdaVerif.Lemmas

import AdaVerif.Lemmas.ParseSpecial
import AdaVerif.Spec.RecInv
/-
`parse_url_impl<ada::url>(input, &base)` (Model/ParseSpecial.lean, `machineB`) = the Standard's parser with a base, for a
base object that holds a record satisfying the record invariants.
-/
namespace AdaVerif.Lemmas.PB
open AdaVerif AdaVerif.Spec AdaVerif.Lemmas AdaVerif.Lemmas.PS AdaVerif.Model AdaVerif.Model.ParseSpecial AdaVerif.Model.UrlRec
  AdaVerif.Model.HostParse

/-! ### path with a path so far -/
theorem pathQFrom_spec (sp : Bool) (scheme : Bytes) (ty : Nat) (hty : PP.TyOf scheme ty) (segs : List Bytes) (hn : PP.NoSlash segs)
    (r : Bytes) (q : Option Bytes) (hr : (0x3F : UInt8) ∉ r) :
    pathQFrom sp ty (FP.pathText segs) (r ++ qs q) = (FP.pathText (pathState scheme segs r), q.map (encodeQuery sp)) := by
  unfold pathQFrom
  have h1 : (r ++ qs q).takeWhile (· != 0x3F) = r := by
    rw [HS.takeWhile_prefix_stop _ r (qs q) (qs_stop _ (by decide) q)]
    apply takeWhile_self
    intro b hb
    have : b ≠ 0x3F := fun e => hr (e ▸ hb)
    simpa using this
  rw [h1]
  simp only
  rw [PP.parsePreparedPath_eq scheme ty hty r segs hn]
  cases q with
  | none => simp [qs, pathState]
  | some q => cases sp <;> simp [qs, encodeQuery, pathState]

theorem noSlash_shorten (scheme : Bytes) (segs : List Bytes) (hn : PP.NoSlash segs) : PP.NoSlash (Spec.shortenPath scheme segs) := by
  unfold Spec.shortenPath
  split
  · split
    · exact hn
    · intro s hs; cases hs
  · intro s hs
    exact hn s (List.dropLast_subset _ hs)

/-! ### the base object -/
structure BaseOk (b : Url) : Prop where
  inv : RecInv b = true
  noSlash : PP.NoSlash b.path

theorem special_not_opaque (b : Url) (h : RecInv b = true) (hs : isSpecialScheme b.scheme = true) : b.isOpaque = false := by
  simp only [RecInv, Bool.and_eq_true] at h
  have := h.1.1.1.2
  simp only [Url.isSpecial, hs, Bool.not_true, Bool.false_or, Bool.and_eq_true] at this
  simpa using this.1.2

theorem base_path (b : Url) (ho : b.isOpaque = false) : (UR.recOf b).path = FP.pathText b.path := by
  simp [UR.recOf, Url.pathSerialized, ho, FP.pathText]

/-- the record that inherits from the base -/
theorem inherit_eq (b : Url) (ho : b.isOpaque = false) (frag : Option Bytes) (segs : List Bytes) (query : Option Bytes) :
    inherit (UR.recOf b) frag (FP.pathText segs) query =
      .ok (UR.recOf { scheme := b.scheme, username := b.username, password := b.password, host := b.host, port := b.port,
                      path := segs, query := query, fragment := frag.map (percentEncode inFragment) }) := by
  simp [inherit, UR.recOf, Url.isSpecial, Url.pathSerialized, ho, FP.pathText, encFrag]

/-! ### relative states -/
/-- the Standard's relative slash state -/
def relSlashSpec (idna : Idna) (b : Url) (rest : Bytes) : Option Url :=
  match rest with
  | d :: rest' =>
    if isSpecialScheme b.scheme && (d == 0x2F || d == 0x5C) then fromAuthority idna b.scheme (skipSlashes rest')
    else if d == 0x2F then fromAuthority idna b.scheme rest'
    else some { scheme := b.scheme, username := b.username, password := b.password, host := b.host, port := b.port,
                path := pathState b.scheme [] rest }
  | [] => some { scheme := b.scheme, username := b.username, password := b.password, host := b.host, port := b.port,
                 path := pathState b.scheme [] rest }

theorem tyOf (scheme : Bytes) : PP.TyOf scheme (getSchemeType scheme) :=
  ⟨(Proto.type_facts scheme).2.1, (Proto.type_facts scheme).1⟩

theorem pathOnly_eq (b : Url) (rest : Bytes) (q frag : Option Bytes) (hnoq : (0x3F : UInt8) ∉ rest) :
    (Out.ok { scheme := b.scheme, special := isSpecialScheme b.scheme, username := b.username, password := b.password,
              host := b.host.map Host.serialize, port := b.port,
              path := (pathQ (isSpecialScheme b.scheme) (getSchemeType b.scheme) (rest ++ qs q)).1,
              query := (pathQ (isSpecialScheme b.scheme) (getSchemeType b.scheme) (rest ++ qs q)).2, hash := encFrag frag, opq := false } : Out) =
      outOf ((some ({ scheme := b.scheme, username := b.username, password := b.password, host := b.host, port := b.port,
                      path := pathState b.scheme [] rest } : Url)).map (addQF q frag)) := by
  rw [pathQ_spec (isSpecialScheme b.scheme) b.scheme _ (tyOf b.scheme) rest q hnoq]
  cases q <;> cases frag <;>
    simp [outOf, addQF, UR.recOf, Url.isSpecial, Url.pathSerialized, FP.pathText, encFrag]

theorem relativeSlash_spec (idna : Idna) (b : Url) (rest : Bytes) (q frag : Option Bytes) (hid : ∀ d, HP.IdnaAt idna d)
    (hnoq : (0x3F : UInt8) ∉ rest)
    (hclean : ∀ sp text v cr, relAuthSlash (isSpecialScheme b.scheme) (rest ++ qs q) = some (sp, text) →
      authority sp text = some (v, cr) → AdaVerif.Lemmas.BR.bracketOk sp v = true) :
    relativeSlash idna (UR.recOf b) frag (rest ++ qs q) = outOf ((relSlashSpec idna b rest).map (addQF q frag)) := by
  unfold relativeSlash relSlashSpec
  have hsp : (UR.recOf b).special = isSpecialScheme b.scheme := rfl
  have hsch : (UR.recOf b).scheme = b.scheme := rfl
  have hu : (UR.recOf b).username = b.username := rfl
  have hpw : (UR.recOf b).password = b.password := rfl
  have hh : (UR.recOf b).host = b.host.map Host.serialize := rfl
  have hpo : (UR.recOf b).port = b.port := rfl
  simp only [hsp, hsch, hu, hpw, hh, hpo]
  cases rest with
  | nil =>
    have := pathOnly_eq b [] q frag (by simp)
    simp only [List.nil_append] at this ⊢
    cases q with
    | none => simpa [qs] using this
    | some q' =>
      simp only [qs] at this ⊢
      have h0 : ((0x3F : UInt8) == 0x5C) = false := by decide
      have h2 : ((0x3F : UInt8) == 0x2F) = false := by decide
      simp only [h0, Bool.or_self, Bool.or_false, Bool.and_false, h2, Bool.false_eq_true, ↓reduceIte]
      exact this
  | cons d rest' =>
    have hno' : (0x3F : UInt8) ∉ rest' := fun h => hnoq (List.mem_cons_of_mem _ h)
    simp only [List.cons_append]
    by_cases h1 : (isSpecialScheme b.scheme && (d == 0x2F || d == 0x5C)) = true
    · simp only [h1, ↓reduceIte]
      have hs : isSpecialScheme b.scheme = true := by
        cases h : isSpecialScheme b.scheme with
        | true => rfl
        | false => simp [h] at h1
      have hdw : (rest' ++ qs q).dropWhile (fun c => c == 0x2F || c == 0x5C) = skipSlashes rest' ++ qs q := skipSlashes_qs rest' q
      rw [hdw]
      have hsub : ∀ x ∈ skipSlashes rest', x ∈ rest' := fun x hx => (List.dropWhile_sublist _).subset hx
      have hcl : ∀ v cr, authority true (skipSlashes rest' ++ qs q) = some (v, cr) → AdaVerif.Lemmas.BR.bracketOk true v = true := by
        intro v cr hv
        apply hclean true (skipSlashes rest' ++ qs q) v cr _ hv
        simp only [relAuthSlash, List.cons_append, h1, ↓reduceIte, hdw]
      exact afterSlashes_spec idna true b.scheme hs (skipSlashes rest') q frag hid (fun h => hno' (hsub _ h)) hcl
    · simp only [h1, Bool.false_eq_true, ↓reduceIte]
      by_cases h2 : (d == 0x2F) = true
      · simp only [h2, ↓reduceIte]
        have hs : isSpecialScheme b.scheme = false := by
          cases h : isSpecialScheme b.scheme with
          | false => rfl
          | true => simp [h, h2] at h1
        have hcl : ∀ v cr, authority false (rest' ++ qs q) = some (v, cr) → AdaVerif.Lemmas.BR.bracketOk false v = true := by
          intro v cr hv
          apply hclean false (rest' ++ qs q) v cr _ hv
          simp [relAuthSlash, hs, h2]
        exact afterSlashes_spec idna false b.scheme hs rest' q frag hid hno' hcl
      · simp only [h2, Bool.false_eq_true, ↓reduceIte]
        have := pathOnly_eq b (d :: rest') q frag hnoq
        simpa using this

theorem relativeState_cons (idna : Idna) (b : Url) (c : UInt8) (rest : Bytes) :
    relativeState idna b (c :: rest) =
      if c == 0x2F || (isSpecialScheme b.scheme && c == 0x5C) then relSlashSpec idna b rest
      else some { scheme := b.scheme, username := b.username, password := b.password, host := b.host, port := b.port,
                  path := pathState b.scheme (Spec.shortenPath b.scheme b.path) (c :: rest) } := by
  unfold relativeState relSlashSpec
  simp only
  split
  · cases rest <;> rfl
  · rfl

theorem inherit_addQF (b : Url) (ho : b.isOpaque = false) (q frag : Option Bytes) (segs : List Bytes) (bq : Option Bytes) :
    inherit (UR.recOf b) frag (FP.pathText segs) (match q with | some x => some (encodeQuery (isSpecialScheme b.scheme) x) | none => bq) =
      outOf ((some ({ scheme := b.scheme, username := b.username, password := b.password, host := b.host, port := b.port,
                      path := segs, query := bq } : Url)).map (addQF q frag)) := by
  rw [inherit_eq b ho]
  cases q <;> cases frag <;> simp [outOf, addQF, Url.isSpecial]

/-- RELATIVE_SCHEME (and RELATIVE_SLASH and what follows) = the Standard's relative state -/
theorem relativeScheme_spec (idna : Idna) (b : Url) (hb : BaseOk b) (ho : b.isOpaque = false) (pre : Bytes) (q frag : Option Bytes)
    (hid : ∀ d, HP.IdnaAt idna d) (hnoq : (0x3F : UInt8) ∉ pre)
    (hclean : ∀ sp text v cr, relAuth (UR.recOf b) (pre ++ qs q) = some (sp, text) →
      authority sp text = some (v, cr) → AdaVerif.Lemmas.BR.bracketOk sp v = true) :
    relativeScheme idna (UR.recOf b) frag (pre ++ qs q) = outOf ((relativeState idna b pre).map (addQF q frag)) := by
  have hsp : (UR.recOf b).special = isSpecialScheme b.scheme := rfl
  have hsch : (UR.recOf b).scheme = b.scheme := rfl
  have hpath : (UR.recOf b).path = FP.pathText b.path := base_path b ho
  have hq : (UR.recOf b).query = b.query := rfl
  cases pre with
  | nil =>
    unfold relativeScheme relativeState
    simp only [List.nil_append, hsp, hpath, hq]
    cases q with
    | none =>
      have := inherit_addQF b ho none frag b.path b.query
      simpa [qs] using this
    | some q' =>
      have := inherit_addQF b ho (some q') frag b.path b.query
      have h0 : ((0x3F : UInt8) == 0x2F || (isSpecialScheme b.scheme && (0x3F : UInt8) == 0x5C)) = false := by
        cases isSpecialScheme b.scheme <;> decide
      simp only [qs, h0, Bool.false_eq_true, ↓reduceIte, beq_self_eq_true]
      cases hs : isSpecialScheme b.scheme <;> simp only [hs, encodeQuery, Bool.false_eq_true, ↓reduceIte] at this ⊢ <;> exact this
  | cons c r =>
    have hcq : (c == 0x3F) = false := by
      have : c ≠ 0x3F := fun e => hnoq (by simp [e])
      simpa using this
    rw [relativeState_cons]
    unfold relativeScheme
    simp only [List.cons_append, hsp, hsch, hpath]
    by_cases hc : (c == 0x2F || (isSpecialScheme b.scheme && c == 0x5C)) = true
    · simp only [hc, ↓reduceIte]
      apply relativeSlash_spec idna b r q frag hid (fun h => hnoq (List.mem_cons_of_mem _ h))
      intro sp text v cr h1 h2
      apply hclean sp text v cr _ h2
      simp only [relAuth, List.cons_append, hsp, hc, ↓reduceIte, h1]
    · simp only [hc, Bool.false_eq_true, ↓reduceIte, hcq]
      rw [PP.shortenPath_eq b.scheme _ (Proto.type_facts b.scheme).2.1 b.path hb.noSlash]
      have := pathQFrom_spec (isSpecialScheme b.scheme) b.scheme _ (tyOf b.scheme) (Spec.shortenPath b.scheme b.path)
        (noSlash_shorten b.scheme b.path hb.noSlash) (c :: r) q hnoq
      simp only [List.cons_append] at this
      rw [this]
      simp only
      have h2 := inherit_addQF b ho q frag (pathState b.scheme (Spec.shortenPath b.scheme b.path) (c :: r)) none
      cases q with
      | none => simpa using h2
      | some q' => simpa using h2

/-! ### file states with a base -/
theorem sw_eq (X : Bytes) : PathPrepared.isWindowsDriveLetter X = startsWithWindowsDriveLetter X := by
  unfold PathPrepared.isWindowsDriveLetter startsWithWindowsDriveLetter
  match X with
  | [] => rfl
  | [_] => rfl
  | a :: b :: rest => cases rest <;> simp [PP.isAlpha_model_eq]

/-- what may follow the text the drive-letter test looks at: nothing, or a '?' / '#' -/
def QF (Y : Bytes) : Prop := Y = [] ∨ ∃ c t, Y = c :: t ∧ (c = 0x3F ∨ c = 0x23)

theorem sw_append (X Y : Bytes) (hY : QF Y) : startsWithWindowsDriveLetter (X ++ Y) = startsWithWindowsDriveLetter X := by
  rcases hY with rfl | ⟨c, t, rfl, hc⟩
  · simp
  · match X with
    | [] =>
      have : isAsciiAlpha c = false := by rcases hc with rfl | rfl <;> decide
      cases t <;> simp [startsWithWindowsDriveLetter, this]
    | [a] =>
      have : (c == 0x3A || c == 0x7C) = false := by rcases hc with rfl | rfl <;> decide
      simp [startsWithWindowsDriveLetter, this]
    | [a, b] =>
      have : (c == 0x2F || c == 0x5C || c == 0x3F || c == 0x23) = true := by rcases hc with rfl | rfl <;> decide
      simp only [startsWithWindowsDriveLetter, List.cons_append, List.nil_append, this, Bool.and_true]
    | a :: b :: d :: rest => rfl

theorem qs_QF (q : Option Bytes) : QF (qs q) := by
  cases q with
  | none => exact Or.inl rfl
  | some q => exact Or.inr ⟨0x3F, q, rfl, Or.inl rfl⟩

theorem first_segment (p : Bytes) (more : List Bytes) (hp : (0x2F : UInt8) ∉ p) :
    ((FP.pathText (p :: more)).drop 1).takeWhile (· != 0x2F) = p := by
  have h1 : (FP.pathText (p :: more)).drop 1 = p ++ FP.pathText more := by simp [FP.pathText]
  rw [h1]
  have hstop : FP.pathText more = [] ∨ ∃ c t, FP.pathText more = c :: t ∧ (c != 0x2F) = false := by
    cases more with
    | nil => exact Or.inl rfl
    | cons m ms => exact Or.inr ⟨0x2F, m ++ FP.pathText ms, by simp [FP.pathText], by decide⟩
  rw [HS.takeWhile_prefix_stop _ p _ hstop]
  apply takeWhile_self
  intro b hb
  have : b ≠ 0x2F := fun e => hp (e ▸ hb)
  simpa using this

theorem fileInherit_eq (b : Url) (q frag : Option Bytes) (segs : List Bytes) :
    fileInherit (UR.recOf b) frag (FP.pathText segs) (q.map (encodeQuery true)) false =
      outOf ((some ({ scheme := bFile, host := b.host, path := segs } : Url)).map (addQF q frag)) := by
  cases q <;> cases frag <;>
    simp [fileInherit, outOf, addQF, UR.recOf, Url.isSpecial, sp_file, Url.pathSerialized, FP.pathText, encFrag]

/-- how the model's file base relates to the Standard's -/
structure FileBase (fb : Option Rec) (base : Option Url) : Prop where
  eq : fb = (baseIsFile base).map UR.recOf
  ok : ∀ b, baseIsFile base = some b → BaseOk b ∧ b.isOpaque = false

theorem fileSlashB_spec (idna : Idna) (fb : Option Rec) (base : Option Url) (hfb : FileBase fb base) (text : Bytes) (q frag : Option Bytes)
    (hid : ∀ d, HP.IdnaAt idna d) (hnoq : (0x3F : UInt8) ∉ text) (hnoh : (0x23 : UInt8) ∉ text) :
    fileSlashB idna fb frag (text ++ qs q) = outOf ((fileSlash idna base text).map (addQF q frag)) := by
  have hother : fileSlashOther fb frag (text ++ qs q) = outOf ((fileSlash.fileSlashElse base text).map (addQF q frag)) := by
    unfold fileSlashOther
    unfold fileSlash.fileSlashElse
    rw [hfb.eq]
    cases hbf : baseIsFile base with
    | none =>
      simp only [Option.map_none, Option.map_some, outOf]
      exact filePath_spec text q frag hnoq
    | some b =>
      obtain ⟨hb, ho⟩ := hfb.ok b hbf
      simp only [Option.map_some]
      rw [base_path b ho, sw_eq, sw_append text (qs q) (qs_QF q)]
      have hp0 : (if !(FP.pathText b.path).isEmpty && !startsWithWindowsDriveLetter text &&
            PathPrepared.isNormalizedWindowsDriveLetter (((FP.pathText b.path).drop 1).takeWhile (· != 0x2F))
          then 0x2F :: ((FP.pathText b.path).drop 1).takeWhile (· != 0x2F) else []) =
          FP.pathText (if !startsWithWindowsDriveLetter text then
            (match b.path with | p :: _ => if isNormalizedWindowsDriveLetter p then [p] else [] | [] => []) else []) := by
        cases hbp : b.path with
        | nil => cases startsWithWindowsDriveLetter text <;> simp [FP.pathText]
        | cons p more =>
          have hpn : (0x2F : UInt8) ∉ p := hb.noSlash p (by rw [hbp]; simp)
          rw [first_segment p more hpn, PP.normalized_eq]
          have hne : (FP.pathText (p :: more)).isEmpty = false := by simp [FP.pathText]
          cases hsw : startsWithWindowsDriveLetter text <;> cases hnz : isNormalizedWindowsDriveLetter p <;>
            simp [hne, FP.pathText, hnz]
      simp only [hp0]
      have hns : PP.NoSlash (if !startsWithWindowsDriveLetter text then
            (match b.path with | p :: _ => if isNormalizedWindowsDriveLetter p then [p] else [] | [] => []) else []) := by
        intro s hs
        split at hs
        · split at hs
          · rename_i p more hbp
            split at hs
            · simp only [List.mem_singleton] at hs
              subst hs
              exact hb.noSlash s (by rw [hbp]; simp)
            · cases hs
          · cases hs
        · cases hs
      rw [pathQFrom_spec true bFile 6 ⟨by decide, by decide⟩ _ hns text q hnoq]
      exact fileInherit_eq b q frag _
  unfold fileSlashB fileSlash
  cases text with
  | nil =>
    simp only [List.nil_append] at hother ⊢
    cases q with
    | none => simpa [qs] using hother
    | some q' =>
      simp only [qs] at hother ⊢
      have h0 : ((0x3F : UInt8) == 0x2F || (0x3F : UInt8) == 0x5C) = false := by decide
      simp only [h0, Bool.false_eq_true, ↓reduceIte]
      exact hother
  | cons c r =>
    simp only [List.cons_append] at hother ⊢
    by_cases hc : (c == 0x2F || c == 0x5C) = true
    · simp only [hc, ↓reduceIte]
      exact fileHost_spec idna r q frag hid (fun h => hnoq (List.mem_cons_of_mem _ h)) (fun h => hnoh (List.mem_cons_of_mem _ h))
    · simp only [hc, Bool.false_eq_true, ↓reduceIte]
      exact hother

def qOr (q bq : Option Bytes) : Option Bytes :=
  match q with
  | some x => some (encodeQuery true x)
  | none => bq

theorem fileInherit_q (b : Url) (q frag : Option Bytes) (segs : List Bytes) (bq bq' : Option Bytes) (hq : q = none → bq' = bq) :
    fileInherit (UR.recOf b) frag (FP.pathText segs) (qOr q bq) false =
      outOf ((some ({ scheme := bFile, host := b.host, path := segs, query := bq' } : Url)).map (addQF q frag)) := by
  cases q with
  | none =>
    rw [hq rfl]
    cases frag <;>
      simp [qOr, fileInherit, outOf, addQF, UR.recOf, Url.isSpecial, sp_file, Url.pathSerialized, FP.pathText, encFrag]
  | some x =>
    cases frag <;>
      simp [qOr, fileInherit, outOf, addQF, UR.recOf, Url.isSpecial, sp_file, Url.pathSerialized, FP.pathText, encFrag]

/-- FILE (and FILE_SLASH, FILE_HOST behind it) with a base = the Standard's file state -/
theorem fileB_spec (idna : Idna) (fb : Option Rec) (base : Option Url) (hfb : FileBase fb base) (pre tail Y : Bytes) (q frag : Option Bytes)
    (hid : ∀ d, HP.IdnaAt idna d) (hnoq : (0x3F : UInt8) ∉ pre) (hnoh : (0x23 : UInt8) ∉ pre) (hY : QF Y)
    (htail : tail = (pre ++ qs q) ++ Y) (hF : Bool) :
    fileB idna fb frag (pre ++ qs q) = outOf ((fileState idna base pre tail q.isSome hF).map (addQF q frag)) := by
  have hother : fileOther fb frag (pre ++ qs q) = outOf ((fileState.fileElse base pre tail q.isSome hF).map (addQF q frag)) := by
    unfold fileOther fileState.fileElse
    rw [hfb.eq]
    cases hbf : baseIsFile base with
    | none =>
      simp only [Option.map_none, Option.map_some, outOf]
      exact filePath_spec pre q frag hnoq
    | some b =>
      obtain ⟨hb, ho⟩ := hfb.ok b hbf
      have hopq : (UR.recOf b).opq = false := ho
      have hbq : (UR.recOf b).query = b.query := rfl
      simp only [Option.map_some, hopq, hbq]
      rw [base_path b ho]
      cases pre with
      | nil =>
        simp only [List.nil_append, List.isEmpty_nil, ↓reduceIte]
        cases q with
        | none =>
          have := fileInherit_q b none frag b.path b.query (if false then none else if hF then b.query else b.query) (by intro _; cases hF <;> rfl)
          simpa [qs, qOr] using this
        | some q' =>
          have := fileInherit_q b (some q') frag b.path b.query (if true then none else if hF then b.query else b.query) (by intro h; cases h)
          simpa [qs, qOr, encodeQuery] using this
      | cons c r =>
        have hcq : (c == 0x3F) = false := by
          have : c ≠ 0x3F := fun e => hnoq (by simp [e])
          simpa using this
        simp only [List.cons_append, hcq, Bool.false_eq_true, ↓reduceIte, List.isEmpty_cons]
        have hsw : PathPrepared.isWindowsDriveLetter (c :: (r ++ qs q)) = startsWithWindowsDriveLetter tail := by
          rw [sw_eq, htail, sw_append _ Y hY]; rfl
        simp only [hsw]
        have hp0 : (if !startsWithWindowsDriveLetter tail then PathPrepared.shortenPath (FP.pathText b.path) 6 else []) =
            FP.pathText (if !startsWithWindowsDriveLetter tail then Spec.shortenPath bFile b.path else []) := by
          rw [PP.shortenPath_eq bFile 6 (by decide) b.path hb.noSlash]
          cases startsWithWindowsDriveLetter tail <;> simp [FP.pathText]
        rw [hp0]
        have hns : PP.NoSlash (if !startsWithWindowsDriveLetter tail then Spec.shortenPath bFile b.path else []) := by
          split
          · exact noSlash_shorten bFile b.path hb.noSlash
          · intro s hs; cases hs
        have := pathQFrom_spec true bFile 6 ⟨by decide, by decide⟩ _ hns (c :: r) q hnoq
        simp only [List.cons_append] at this
        rw [this]
        exact fileInherit_eq b q frag _
  unfold fileB fileState
  cases pre with
  | nil =>
    simp only [List.nil_append] at hother ⊢
    cases q with
    | none => simpa [qs] using hother
    | some q' =>
      simp only [qs] at hother ⊢
      have h0 : ((0x3F : UInt8) == 0x2F || (0x3F : UInt8) == 0x5C) = false := by decide
      simp only [h0, Bool.false_eq_true, ↓reduceIte]
      exact hother
  | cons c r =>
    simp only [List.cons_append] at hother ⊢
    by_cases hc : (c == 0x2F || c == 0x5C) = true
    · simp only [hc, ↓reduceIte]
      exact fileSlashB_spec idna fb base hfb r q frag hid (fun h => hnoq (List.mem_cons_of_mem _ h)) (fun h => hnoh (List.mem_cons_of_mem _ h))
    · simp only [hc, Bool.false_eq_true, ↓reduceIte]
      exact hother

/-! ### the whole machine with a base -/
theorem parse_addQF_base (idna : Idna) (input : Bytes) (base : Option Url) (d pre : Bytes) (frag query : Option Bytes)
    (hcf : cutAt 0x23 (preprocess input) = (d, frag)) (hcq : cutAt 0x3F d = (pre, query)) :
    parse idna input base = (parseCore idna base pre (preprocess input) query.isSome frag.isSome).map (addQF query frag) := by
  unfold parse
  simp only [hcf, hcq]
  cases parseCore idna base pre (preprocess input) query.isSome frag.isSome with
  | none => rfl
  | some u => cases query <;> cases frag <;> rfl

/-- "#fragment" or nothing -/
def fsuf (frag : Option Bytes) : Bytes :=
  match frag with
  | some f => 0x23 :: f
  | none => []

theorem fsuf_QF (frag : Option Bytes) : QF (fsuf frag) := by
  cases frag with
  | none => exact Or.inl rfl
  | some f => exact Or.inr ⟨0x23, f, rfl, Or.inr rfl⟩

theorem fileBase_ok (b : Url) (hb : BaseOk b) : FileBase (fileBase (UR.recOf b)) (some b) := by
  have hf := Proto.type_facts b.scheme
  refine ⟨?_, ?_⟩
  · unfold fileBase baseIsFile
    have : (UR.recOf b).scheme = b.scheme := rfl
    rw [this, hf.2.1]
    by_cases h : (b.scheme == bFile) = true
    · simp [h]
    · simp [h]
  · intro b' hb'
    unfold baseIsFile at hb'
    simp only at hb'
    split at hb'
    · rename_i hsc
      injection hb' with e
      subst e
      have : b.scheme = bFile := by simpa using hsc
      exact ⟨hb, special_not_opaque b hb.inv (by rw [this]; exact sp_file)⟩
    · cases hb'

theorem same_type (s1 s2 : Bytes) (h1 : getSchemeType s2 ≠ 1) : (getSchemeType s1 == getSchemeType s2) = (s1 == s2) := by
  by_cases he : s1 = s2
  · subst he; simp
  · have : (s1 == s2) = false := by simpa using he
    rw [this]
    by_cases ht : getSchemeType s1 = getSchemeType s2
    · exfalso
      have f1 := (Proto.type_facts s1).2.2.2 (by rw [ht]; exact h1)
      have f2 := (Proto.type_facts s2).2.2.2 h1
      apply he
      rw [← f1.1, ← f2.1, ht]
    · simpa using ht

theorem take2_qs (restp : Bytes) (q : Option Bytes) :
    ((restp ++ qs q).take 2 == [0x2F, 0x2F]) = (restp.take 2 == [0x2F, 0x2F]) := by
  match restp with
  | [] => cases q <;> simp [qs]
  | [c] => cases q <;> simp [qs]
  | a :: b :: r => rfl

theorem take2_ss (restp : Bytes) (h : (restp.take 2 == [0x2F, 0x2F]) = true) : ∃ r2, restp = 0x2F :: 0x2F :: r2 := by
  match restp with
  | [] => simp at h
  | [c] => simp at h
  | a :: b :: r =>
    simp at h
    exact ⟨r, by rw [h.1, h.2]⟩

theorem skipSlashes_qs' (r : Bytes) (q : Option Bytes) :
    (r ++ qs q).dropWhile (fun c => c == 0x2F || c == 0x5C) = skipSlashes r ++ qs q := skipSlashes_qs r q

/-- **`parse_url_impl<ada::url>(input, &base)` = the Standard's basic URL parser with that base**, for every input and every
    base object that holds a record with the record invariants -/
theorem machineB_spec (idna : Idna) (b : Url) (hb : BaseOk b) (input : Bytes) (hid : ∀ d, HP.IdnaAt idna d)
    (hclean : BR.bracketOk (hostStartB (UR.recOf b) input).1 (hostStartB (UR.recOf b) input).2 = true) :
    machineB idna (UR.recOf b) input = outOf (parse idna input (some b)) := by
  unfold machineB
  unfold hostStartB authStartB at hclean
  rw [prep_eq] at hclean ⊢
  have hsj := cut_join 0x23 (preprocess input)
  rcases hcf : cutAt 0x23 (preprocess input) with ⟨d, frag⟩
  rw [hcf] at hclean hsj
  rcases hcq : cutAt 0x3F d with ⟨pre, query⟩
  have hj := cut_join 0x3F d
  rw [hcq] at hj
  obtain ⟨hd, hnoq⟩ := hj
  change d = pre ++ qs query at hd
  simp only at hnoq hclean hsj ⊢
  have hs : preprocess input = (pre ++ qs query) ++ fsuf frag := by
    rw [← hd]; exact hsj.1
  have hnohd : (0x23 : UInt8) ∉ d := hsj.2
  rw [parse_addQF_base idna input (some b) d pre frag query hcf hcq]
  have hbs : (UR.recOf b).scheme = b.scheme := rfl
  have hbo : (UR.recOf b).opq = b.isOpaque := rfl
  have hfb := fileBase_ok b hb
  have hfB := Proto.type_facts b.scheme
  have h1 := schemeScan_spec d
  have h2 : takeScheme d = (takeScheme pre).map (fun p => (p.1, p.2 ++ qs query)) := by
    rw [hd]; exact takeScheme_qs pre query
  simp only [hbs, hbo] at hclean ⊢
  cases hss : schemeScan d with
  | none =>
    rw [hss] at h1 hclean
    rw [h1] at h2
    have htp : takeScheme pre = none := by
      cases h : takeScheme pre with
      | none => rfl
      | some x => rw [h] at h2; cases h2
    simp only at hclean ⊢
    unfold parseCore
    simp only [htp]
    have hnoh : (0x23 : UInt8) ∉ pre := fun h => hnohd (by rw [hd]; exact List.mem_append_left _ h)
    by_cases hop : b.isOpaque = true
    · -- an opaque base: only "#fragment" goes through
      simp only [hop, ↓reduceIte, Bool.true_and]
      have hde : d.isEmpty = (pre.isEmpty && !query.isSome) := by
        rw [hd]; cases pre <;> cases query <;> simp [qs]
      rw [hde]
      by_cases hc : (frag.isSome && (pre.isEmpty && !query.isSome)) = true
      · have hc' : (pre.isEmpty && !query.isSome && frag.isSome) = true := by
          simp only [Bool.and_eq_true] at hc ⊢; exact ⟨hc.2, hc.1⟩
        simp only [hc, Bool.not_true, Bool.false_eq_true, ↓reduceIte, hc', Option.map_some, outOf]
        have hq : query = none := by
          cases query with
          | none => rfl
          | some x => simp at hc
        subst hq
        cases frag <;> simp [addQF, UR.recOf, Url.isSpecial, Url.pathSerialized, hop, encFrag]
      · have hc' : (pre.isEmpty && !query.isSome && frag.isSome) = false := by
          cases h1 : pre.isEmpty <;> cases h2 : query.isSome <;> cases h3 : frag.isSome <;> simp [h1, h2, h3] at hc ⊢
        have hcF := Bool.eq_false_iff.mpr hc
        simp only [hcF, Bool.not_false, ↓reduceIte, hc', Bool.false_eq_true, Option.map_none, outOf]
    · have hop' : b.isOpaque = false := by simpa using hop
      simp only [hop', Bool.false_eq_true, ↓reduceIte, Bool.false_and, Bool.false_or] at hclean ⊢
      have hbf : (b.scheme != bFile) = (getSchemeType b.scheme != 6) := by rw [bne, bne, hfB.2.1]
      rw [hbf]
      by_cases h6 : (getSchemeType b.scheme != 6) = true
      · simp only [h6, ↓reduceIte]
        have h6' : (getSchemeType b.scheme == 6) = false := by simpa [bne] using h6
        simp only [h6', Bool.false_eq_true, ↓reduceIte] at hclean
        rw [hd] at hclean ⊢
        apply relativeScheme_spec idna b hb hop' pre query frag hid hnoq
        intro sp text v cr ha hv
        simp only [ha, hv] at hclean
        exact hclean
      · simp only [h6, Bool.false_eq_true, ↓reduceIte]
        rw [hd]
        exact fileB_spec idna _ (some b) hfb pre (preprocess input) (fsuf frag) query frag hid hnoq hnoh (fsuf_QF frag) hs frag.isSome
  | some nr =>
    obtain ⟨name, rest⟩ := nr
    rw [hss] at h1 hclean
    rw [h1] at h2
    cases htp : takeScheme pre with
    | none => rw [htp] at h2; cases h2
    | some sr =>
      obtain ⟨scheme, restp⟩ := sr
      rw [htp] at h2
      simp only [Option.map_some, Option.some.injEq, Prod.mk.injEq] at h2
      obtain ⟨hname, hrest⟩ := h2
      simp only [parseSchemeNoOverride_spec, hname] at hclean ⊢
      have hf := Proto.type_facts scheme
      have hnoq' : (0x3F : UInt8) ∉ restp := fun h => hnoq (takeScheme_rest_sub pre scheme restp htp _ h)
      have hnoh : (0x23 : UInt8) ∉ restp := fun h => hnohd (by rw [hd]; exact List.mem_append_left _ (takeScheme_rest_sub pre scheme restp htp _ h))
      rw [hrest] at hclean ⊢
      unfold parseCore
      simp only [htp]
      by_cases h6 : (getSchemeType scheme == 6) = true
      · -- file
        have hfile : (scheme == bFile) = true := by rw [← hf.2.1]; exact h6
        simp only [h6, ↓reduceIte, hfile]
        obtain ⟨pfx, hpfx⟩ := takeScheme_suffix pre scheme restp htp
        have htl : (preprocess input).drop (pre.length - restp.length) = (restp ++ qs query) ++ fsuf frag := by
          rw [hs, hpfx]
          have : (pfx ++ 0x3A :: restp).length - restp.length = (pfx ++ [0x3A]).length := by simp; omega
          rw [this, show pfx ++ 0x3A :: restp ++ qs query ++ fsuf frag = (pfx ++ [0x3A]) ++ (restp ++ qs query ++ fsuf frag) by simp]
          exact List.drop_left
        exact fileB_spec idna _ (some b) hfb restp _ (fsuf frag) query frag hid hnoq' hnoh (fsuf_QF frag) htl frag.isSome
      simp only [h6, Bool.false_eq_true, ↓reduceIte] at hclean ⊢
      have hnf : (scheme == bFile) = false := by rw [← hf.2.1]; simpa using h6
      simp only [hnf, Bool.false_eq_true, ↓reduceIte]
      by_cases h1' : (getSchemeType scheme == 1) = true
      · -- not special: the base plays no part
        have ht1 : getSchemeType scheme = 1 := by simpa using h1'
        have hns : isSpecialScheme scheme = false := by rw [← hf.1, ht1]; rfl
        have hne1 : (getSchemeType scheme != 1) = false := by rw [ht1]; rfl
        simp only [hne1, Bool.false_and, Bool.false_eq_true, ↓reduceIte, h1', hns] at hclean ⊢
        rw [afterSchemeNS_spec idna scheme restp query frag hid hns ht1 hnoq'
          (last_space_followed input d pre scheme restp query frag hsj.1 hd htp)
          (by intro r2 hr2 v cr hv
              subst hr2
              simp only [authText, Bool.false_eq_true, ↓reduceIte, List.cons_append, Option.map_some, hv] at hclean
              exact hclean)]
        rfl
      · -- special
        have hsp : isSpecialScheme scheme = true := by
          rw [← hf.1]
          have : ¬ getSchemeType scheme = 1 := by simpa using h1'
          simpa using this
        have hne1 : (getSchemeType scheme != 1) = true := by rw [hf.1, hsp]
        have hne1' : getSchemeType scheme ≠ 1 := by simpa using h1'
        simp only [hne1, Bool.true_and, h1', Bool.false_eq_true, ↓reduceIte, hsp] at hclean ⊢
        rw [same_type b.scheme scheme hne1'] at hclean ⊢
        by_cases hsame : (b.scheme == scheme) = true
        · simp only [hsame, ↓reduceIte] at hclean ⊢
          have hbsch : b.scheme = scheme := by simpa using hsame
          have hnoop : b.isOpaque = false := special_not_opaque b hb.inv (by rw [hbsch]; exact hsp)
          rw [take2_qs restp query] at hclean ⊢
          by_cases hss2 : (restp.take 2 == [0x2F, 0x2F]) = true
          · obtain ⟨r2, hr2⟩ := take2_ss restp hss2
            subst hr2
            simp only [hss2, ↓reduceIte] at hclean ⊢
            have hdr : ((0x2F :: 0x2F :: r2) ++ qs query).drop 2 = r2 ++ qs query := rfl
            rw [hdr, skipSlashes_qs'] at hclean ⊢
            have hno2 : (0x3F : UInt8) ∉ skipSlashes r2 := fun h => hnoq' (by
              have := (List.dropWhile_sublist _).subset h
              simp [this])
            have hcl : ∀ v cr, authority true (skipSlashes r2 ++ qs query) = some (v, cr) → AdaVerif.Lemmas.BR.bracketOk true v = true := by
              intro v cr hv
              simp only [hv] at hclean
              exact hclean
            exact afterSlashes_spec idna true scheme hsp (skipSlashes r2) query frag hid hno2 hcl
          · simp only [hss2, Bool.false_eq_true, ↓reduceIte] at hclean ⊢
            split
            · simp at hss2
            · simp only [hnoop, Bool.false_eq_true, ↓reduceIte]
              apply relativeScheme_spec idna b hb hnoop restp query frag hid hnoq'
              intro sp text v cr ha hv
              simp only [ha, hv] at hclean
              exact hclean
        · simp only [hsame, Bool.false_eq_true, ↓reduceIte] at hclean ⊢
          have hcl : ∀ v cr, authority true (skipAuthoritySlashes (restp ++ qs query)) = some (v, cr) → AdaVerif.Lemmas.BR.bracketOk true v = true := by
            intro v cr hv
            simp only [authText, ↓reduceIte, Option.map_some, hv] at hclean
            exact hclean
          exact afterScheme_spec idna scheme hsp restp query frag hid hnoq' hcl

/-! ### the length limit and `set_href` -/
/-- what the limit makes of the Standard's answer -/
def outOfL (L : Nat) (input : Bytes) (o : Option Url) : Out :=
  match o with
  | some u => if input.length ≤ L ∧ getHrefSize (UR.recOf u) ≤ L then .ok (UR.recOf u) else .invalid
  | none => .invalid

theorem limited_outOf (L : Nat) (input : Bytes) (o : Option Url) : limited L input (outOf o) = outOfL L input o := by
  unfold limited outOfL
  cases o with
  | none => simp [outOf]
  | some u =>
    simp only [outOf]
    by_cases h1 : input.length > L
    · have : ¬ input.length ≤ L := by omega
      simp [h1, this]
    · have h1' : input.length ≤ L := by omega
      by_cases h2 : getHrefSize (UR.recOf u) > L
      · have : ¬ getHrefSize (UR.recOf u) ≤ L := by omega
        simp [h1, h2, this]
      · have : getHrefSize (UR.recOf u) ≤ L := by omega
        simp [h1, h2, h1', this]

/-- `url::set_href` = the Standard's href setter, within the limit -/
theorem setHrefR_eq (idna : Idna) (L : Nat) (u : Url) (v : Bytes) (hid : ∀ d, HP.IdnaAt idna d)
    (hclean : AdaVerif.Lemmas.BR.bracketOk (schemeSpecial v) (hostStart v) = true) :
    setHrefR idna L (UR.recOf u) v =
      match parse idna v none with
      | some n => if v.length ≤ L ∧ getHrefSize (UR.recOf n) ≤ L then (UR.recOf n, true) else (UR.recOf u, false)
      | none => (UR.recOf u, false) := by
  unfold setHrefR parseNoBaseL
  rw [parseNoBase_spec idna v hid hclean, limited_outOf]
  unfold outOfL
  cases parse idna v none with
  | none => rfl
  | some n =>
    simp only
    by_cases h : v.length ≤ L ∧ getHrefSize (UR.recOf n) ≤ L
    · have : ¬ getHrefSize (UR.recOf n) > L := by omega
      simp [h, this]
    · simp [h]

/-! ### `get_origin` -/
theorem getHostR_recOf (u : Url) (hp : ∀ p, u.port = some p → p < 65536) : getHostR (UR.recOf u) = u.getHost := by
  unfold getHostR Url.getHost
  cases hh : u.host with
  | none => simp [UR.recOf, hh]
  | some h =>
    cases hpo : u.port with
    | none => simp [UR.recOf, hh, hpo]
    | some p => simp [UR.recOf, hh, hpo, UR.dec16_eq p (hp p hpo)]

theorem type_http (s : Bytes) : (getSchemeType s == 0 || getSchemeType s == 2) = (s == bHttp || s == bHttps) := by
  rw [getSchemeType_eq]
  unfold schemeTypeSpec
  by_cases h0 : s = bHttp
  · subst h0; decide
  by_cases h2 : s = bHttps
  · subst h2; decide
  have e0 : (s == bHttp) = false := by simpa using h0
  have e2 : (s == bHttps) = false := by simpa using h2
  simp only [e0, e2, Bool.or_self, h0, h2, ↓reduceIte]
  repeat' split
  all_goals rfl

theorem parse_port_bound (idna : Idna) (input : Bytes) (base : Option Url) (u : Url) (hb : ∀ b, base = some b → RecInv b = true)
    (h : parse idna input base = some u) : ∀ p, u.port = some p → p < 65536 := by
  have hinv := parse_inv idna input base u hb h
  intro p hpp
  simp only [RecInv, Bool.and_eq_true] at hinv
  have := hinv.1.2
  rw [hpp] at this
  simp only [portOkB, Bool.and_eq_true, decide_eq_true_eq] at this
  omega

/-- **`url::get_origin` is the Standard's origin serialisation** (the inner parse of a blob URL under the side conditions of
    the parser theorem, stated for the path text) -/
theorem getOriginR_eq (idna : Idna) (u : Url) (hport : ∀ p, u.port = some p → p < 65536) (hid : ∀ d, HP.IdnaAt idna d)
    (hclean : u.scheme = bBlob → AdaVerif.Lemmas.BR.bracketOk (schemeSpecial u.pathSerialized) (hostStart u.pathSerialized) = true) :
    getOriginR idna (UR.recOf u) = u.origin idna := by
  unfold getOriginR Url.origin
  have hf := Proto.type_facts u.scheme
  have hsp : (UR.recOf u).special = isSpecialScheme u.scheme := rfl
  have hsc : (UR.recOf u).scheme = u.scheme := rfl
  have hpa : (UR.recOf u).path = u.pathSerialized := rfl
  rw [hsp, hsc, hpa]
  by_cases hblob : u.scheme = bBlob
  · have hb' : (u.scheme == bBlob) = true := by simpa using hblob
    have hns : isSpecialScheme u.scheme = false := by rw [hblob]; decide
    simp only [hns, Bool.false_eq_true, ↓reduceIte, hb', Bool.true_and]
    by_cases hemp : u.pathSerialized.isEmpty = true
    · -- an empty path parses to nothing
      have hpe : u.pathSerialized = [] := by simpa using hemp
      simp only [hemp, Bool.not_true, Bool.false_eq_true, ↓reduceIte, hpe]
      have : parse idna [] none = none := by
        unfold parse preprocess dropWhileEnd
        simp [cutAt, parseCore, takeScheme]
      rw [this]
      rfl
    · simp only [hemp, Bool.not_false, ↓reduceIte]
      rw [PS.parseNoBase_spec idna u.pathSerialized hid (hclean hblob)]
      cases hp : parse idna u.pathSerialized none with
      | none => rfl
      | some p =>
        simp only [PS.outOf]
        have hpp := parse_port_bound idna u.pathSerialized none p (by intro b hb; cases hb) hp
        have hsc' : (UR.recOf p).scheme = p.scheme := rfl
        rw [hsc', type_http, getHostR_recOf p hpp]
        simp [tupleOrigin, bNullB, bNull, List.append_assoc]
  · have hb' : (u.scheme == bBlob) = false := by simpa using hblob
    simp only [hb', Bool.false_and, Bool.false_eq_true, ↓reduceIte]
    rw [hf.2.1]
    by_cases hs : isSpecialScheme u.scheme = true
    · simp only [hs, ↓reduceIte]
      by_cases hfile : (u.scheme == bFile) = true
      · simp [hfile, bNullB, bNull]
      · simp only [hfile, Bool.false_eq_true, ↓reduceIte]
        rw [getHostR_recOf u hport]
        simp [tupleOrigin, List.append_assoc]
    · have hs' : isSpecialScheme u.scheme = false := by simpa using hs
      simp only [hs', Bool.false_eq_true, ↓reduceIte]
      have hfile : (u.scheme == bFile) = false := by
        cases h : (u.scheme == bFile) with
        | false => rfl
        | true =>
          have : u.scheme = bFile := by simpa using h
          rw [this] at hs'; exact absurd hs' (by decide)
      simp [hfile, bNullB, bNull]

/-! ### a plain sufficient condition for the bracket side condition -/
theorem relAuthSlash_sub (sp : Bool) (r : Bytes) (sp' : Bool) (text : Bytes) (h : relAuthSlash sp r = some (sp', text)) :
    ∀ x ∈ text, x ∈ r := by
  unfold relAuthSlash at h
  split at h
  · split at h
    · injection h with h; injection h with _ h; subst h
      exact fun x hx => List.mem_cons_of_mem _ ((List.dropWhile_sublist _).subset hx)
    · split at h
      · injection h with h; injection h with _ h; subst h
        exact fun x hx => List.mem_cons_of_mem _ hx
      · cases h
  · cases h

theorem relAuth_sub (b : Rec) (t : Bytes) (sp' : Bool) (text : Bytes) (h : relAuth b t = some (sp', text)) : ∀ x ∈ text, x ∈ t := by
  unfold relAuth at h
  split at h
  · split at h
    · exact fun x hx => List.mem_cons_of_mem _ (relAuthSlash_sub _ _ _ _ h x hx)
    · cases h
  · cases h

theorem authStartB_sub (b : Rec) (input : Bytes) (sp : Bool) (text : Bytes) (h : authStartB b input = some (sp, text)) :
    ∀ x ∈ text, x ∈ input := by
  unfold authStartB at h
  rw [prep_eq] at h
  have hd : ∀ x ∈ (cutAt 0x23 (preprocess input)).1, x ∈ input := by
    intro x hx
    apply preprocess_sub
    have := (cut_join 0x23 (preprocess input)).1
    rw [this]
    exact List.mem_append_left _ hx
  generalize (cutAt 0x23 (preprocess input)).1 = d at hd h
  simp only at h
  cases hss : schemeScan d with
  | none =>
    rw [hss] at h
    simp only at h
    split at h
    · cases h
    · exact fun x hx => hd _ (relAuth_sub b d sp text h x hx)
  | some nr =>
    obtain ⟨n, r⟩ := nr
    rw [hss] at h
    simp only at h
    have hr := schemeScan_sub d n r hss
    split at h
    · cases h
    · split at h
      · split at h
        · injection h with h; injection h with _ h; subst h
          exact fun x hx => hd _ (hr _ (List.mem_of_mem_drop ((List.dropWhile_sublist _).subset hx)))
        · exact fun x hx => hd _ (hr _ (relAuth_sub b r sp text h x hx))
      · cases hat : authText ((parseSchemeNoOverride n).1 != 1) r with
        | none => rw [hat] at h; cases h
        | some t =>
          rw [hat] at h
          simp only [Option.map_some, Option.some.injEq, Prod.mk.injEq] at h
          obtain ⟨_, h2⟩ := h
          subst h2
          exact fun x hx => hd _ (hr _ (authText_sub _ r t hat x hx))

/-- no '[' in the input: the bracket side condition holds, whatever the base -/
theorem clean_of_no_bracket_base (b : Rec) (input : Bytes) (h : (0x5B : UInt8) ∉ input) :
    BR.bracketOk (hostStartB b input).1 (hostStartB b input).2 = true := by
  apply BR.bracketOk_of_clean
  apply clean_no_bracket
  intro hm
  apply h
  unfold hostStartB at hm
  cases ha : authStartB b input with
  | none => rw [ha] at hm; cases hm
  | some st =>
    obtain ⟨sp, text⟩ := st
    rw [ha] at hm
    simp only at hm
    cases hv : authority sp text with
    | none => rw [hv] at hm; cases hm
    | some vc =>
      obtain ⟨v, cr⟩ := vc
      rw [hv] at hm
      simp only at hm
      exact authStartB_sub b input sp text ha _ (authority_sub sp text v cr hv _ hm)

end AdaVerif.Lemmas.PB

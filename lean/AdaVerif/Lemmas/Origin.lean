import AdaVerif.Lemmas.ParseAggBase
import AdaVerif.Lemmas.ParseValid
/-
`url_aggregator::get_origin` reads, through its getters, what `url::get_origin` reads from its fields - and a blob URL's
origin is decided by each type's own parser, which agree (Props/C04.parse_agrees).
-/
namespace AdaVerif.Lemmas.OR
open AdaVerif AdaVerif.Spec AdaVerif.Lemmas AdaVerif.Lemmas.AggL AdaVerif.Lemmas.PA AdaVerif.Lemmas.PAB AdaVerif.Model AdaVerif.Model.Agg
  AdaVerif.Model.ParseSpecial AdaVerif.Model.ParseAgg AdaVerif.Model.UrlRec AdaVerif.Model.HostParse

/-- host and port text of a laid-out URL without a "/." guard -/
theorem hostPortSlice_layout (l : L) (hd : l.dashdot = false) :
    slice (layout l).buf (layout l).hs (layout l).ps = atS l.user l.pass ++ l.host ++ portS l.port := by
  have hb : (layout l).buf = (l.scheme ++ authS l.auth ++ (l.user ++ passS l.pass)) ++ ((atS l.user l.pass ++ l.host ++ portS l.port) ++
      (l.path ++ (queryS l.query ++ fragS l.frag))) := by
    simp [layout, hd, ddS, List.append_assoc]
  have hps : (layout l).ps = (l.scheme ++ authS l.auth ++ (l.user ++ passS l.pass)).length + (atS l.user l.pass ++ l.host ++ portS l.port).length := by
    simp [layout, hd, ddS]; omega
  rw [slice, hb, hs_eq, hps]
  generalize l.scheme ++ authS l.auth ++ (l.user ++ passS l.pass) = P
  generalize atS l.user l.pass ++ l.host ++ portS l.port = M
  rw [← List.append_assoc, List.take_left' (by simp), List.drop_left' rfl]

/-- `url_aggregator::get_host()` on the layout of an `ada::url` object is `url::get_host()` -/
theorem getHost_toL_gen (r : Rec) (hb : BaseRec r) : getHost (layout (toL r)) = getHostR r := by
  unfold getHost getHostR
  cases hh : r.host with
  | none =>
    have : (layout (toL r)).he = (layout (toL r)).hs := by
      have := (hb.hostless hh)
      simp [layout, toL, hh, atS]
    simp [this]
  | some h =>
    have hdd : (toL r).dashdot = false := by simp [toL, hh]
    have hsl := hostPortSlice_layout (toL r) hdd
    have hhost : (toL r).host = h := by simp [toL, hh]
    have hport : portS (toL r).port = (match r.port with | some p => 0x3A :: dec16 p | none => []) := by
      cases hp : r.port <;> simp [toL, hh, hp, portS]
    by_cases hc : (toL r).user = [] ∧ (toL r).pass = []
    · have hat : atS (toL r).user (toL r).pass = [] := by simp [atS, hc.1, hc.2]
      rw [hat] at hsl
      by_cases hemp : h = []
      · -- an empty host: no credentials, no port, nothing to return
        subst hemp
        obtain ⟨_, _, hpn⟩ := hb.emptyHost hh
        have : (layout (toL r)).he = (layout (toL r)).hs := by simp [layout, hat, hhost]
        simp [this, hpn]
      · have hat' : at_ (layout (toL r)).buf (layout (toL r)).hs = h.headD 0 := by
          have hbuf : (layout (toL r)).buf = ((toL r).scheme ++ authS (toL r).auth ++ ((toL r).user ++ passS (toL r).pass)) ++
              (atS (toL r).user (toL r).pass ++ tailS (toL r)) := by rw [buf_split]; simp [List.append_assoc]
          rw [at_eq hbuf (hs_eq (toL r)), hat]
          cases h with
          | nil => exact absurd rfl hemp
          | cons c t => simp [tailS, hhost]
        have hne : (h.headD 0 == 0x40) = false := by simpa using hb.noAt h hh
        have hhe : (layout (toL r)).he = (layout (toL r)).hs + h.length := by simp [layout, hat, hhost]
        have hlen : 0 < h.length := by cases h <;> simp_all
        have hne2 : ((layout (toL r)).hs == (layout (toL r)).he) = false := by
          rw [hhe]; simp; omega
        rw [hat', hne]
        simp only [Bool.and_false, Bool.false_eq_true, ↓reduceIte, hne2, hsl, hhost, hport, List.nil_append]
        cases r.port <;> simp
    · have hat : atS (toL r).user (toL r).pass = [0x40] := atS_of_cred hc
      rw [hat] at hsl
      have hat' : at_ (layout (toL r)).buf (layout (toL r)).hs = 0x40 := by
        have hbuf : (layout (toL r)).buf = ((toL r).scheme ++ authS (toL r).auth ++ ((toL r).user ++ passS (toL r).pass)) ++
            (atS (toL r).user (toL r).pass ++ tailS (toL r)) := by rw [buf_split]; simp [List.append_assoc]
        rw [at_eq hbuf (hs_eq (toL r)), hat]; rfl
      have hhe : (layout (toL r)).he = (layout (toL r)).hs + 1 + h.length := by simp [layout, hat, hhost]
      -- credentials imply a non-empty host
      have hhne : h ≠ [] := by
        intro e
        subst e
        obtain ⟨hu, hp, _⟩ := hb.emptyHost hh
        apply hc
        simp [toL, hh, hu, hp]
      have hlen : 0 < h.length := by cases h <;> simp_all
      have hgt : (layout (toL r)).he > (layout (toL r)).hs := by omega
      have hne2 : ((layout (toL r)).hs + 1 == (layout (toL r)).he) = false := by rw [hhe]; simp; omega
      simp only [hgt, decide_true, hat', beq_self_eq_true, Bool.and_self, ↓reduceIte, hne2]
      have : slice (layout (toL r)).buf ((layout (toL r)).hs + 1) (layout (toL r)).ps = h ++ portS (toL r).port := by
        unfold slice at hsl ⊢
        rw [← List.drop_drop, hsl, hhost]
        rfl
      rw [this, hport]
      cases r.port <;> simp

theorem parsed_baseRec (idna : Idna) (bi : Bytes) (b : Url) (h : parse idna bi none = some b) : BaseRec (UR.recOf b) :=
  baseRec_of b (parse_inv idna bi none b (by intro x hx; cases hx) h) (PV.parse_noSlash idna bi b h) (parse_ch idna bi b h)

/-- **both types report the same origin** -/
theorem getOriginA_eq (idna : Idna) (r : Rec) (hb : BaseRec r) (hid : ∀ d, HP.IdnaAt idna d)
    (hclean : r.scheme = bBlob → AdaVerif.Lemmas.BR.bracketOk (schemeSpecial r.path) (hostStart r.path) = true) :
    getOriginA idna (layout (toL r)) = getOriginR idna r := by
  unfold getOriginA getOriginR
  rw [getProtocol_toL, Props.C07.getPathname_layout, getHost_toL_gen r hb]
  have hdl : (r.scheme ++ [0x3A]).dropLast = r.scheme := by simp
  have hpath : (toL r).path = r.path := rfl
  simp only [hdl, hpath]
  rw [hb.special]
  by_cases hsp : (getSchemeType r.scheme != 1) = true
  · simp only [hsp, ↓reduceIte]
  · simp only [hsp, Bool.false_eq_true, ↓reduceIte]
    have hbl : (r.scheme ++ [0x3A] == bBlob ++ [0x3A]) = (r.scheme == bBlob) := by
      by_cases e : r.scheme = bBlob
      · rw [e]; simp
      · have : r.scheme ++ [0x3A] ≠ bBlob ++ [0x3A] := fun h => e (List.append_cancel_right h)
        simp [e, this]
    rw [hbl]
    by_cases hblob : (r.scheme == bBlob && !r.path.isEmpty) = true
    · simp only [hblob, ↓reduceIte]
      have hsb : r.scheme = bBlob := by
        simp only [Bool.and_eq_true] at hblob; simpa using hblob.1
      rw [PA.parseNoBaseA_eq idna r.path hid, PS.parseNoBase_spec idna r.path hid (hclean hsb)]
      cases hp : parse idna r.path none with
      | none => rfl
      | some up =>
        simp only [PS.outOf, PA.aggOf]
        rw [getProtocol_toL, getHost_toL_gen _ (parsed_baseRec idna r.path up hp)]
        have hdl2 : ((UR.recOf up).scheme ++ [0x3A]).dropLast = (UR.recOf up).scheme := by simp
        simp only [hdl2]
    · simp only [hblob, Bool.false_eq_true, ↓reduceIte]

end AdaVerif.Lemmas.OR

import AdaVerif.Props.C07
import AdaVerif.Lemmas.AggPathname
import AdaVerif.Lemmas.UrlSetters
import AdaVerif.Lemmas.ParseCanon
/-
`url_aggregator::set_pathname` end to end: clear_pathname, parse_path (update_base_pathname / consume_prepared_path with
its in-place shortcut), the "/." fix-up, the limit check with roll-back - equal to the Standard's pathname setter on the
buffer of every record.
-/
namespace AdaVerif.Lemmas.AggL
open AdaVerif AdaVerif.Model AdaVerif.Model.Agg AdaVerif.Lemmas.FP AdaVerif.Lemmas.PP AdaVerif.Props.C07

/-- the path state never leaves a '/' inside a segment -/
theorem pathState_noSlash (scheme : Bytes) (input : Bytes) : NoSlash (Spec.pathState scheme [] input) := by
  unfold Spec.pathState
  have h := (PC.pathSegments_ok scheme (Spec.splitPath (Spec.isSpecialScheme scheme) input) []
    (PC.splitPath_sepfree _ input) (by intro s hs; cases hs) (by intro _ s hs; simp at hs)).1
  intro s hs hmem
  have := (h s hs).sep 0x2F hmem
  simp [FP.isSep] at this

/-- what `parse_path` leaves: the new path, with a "/." guard or (after the in-place shortcut) without -/
theorem fixup_layout (l0 : L) (X : Bytes) (d1 : Bool) (hopq : l0.opq = false) (hna : NoAuthNoCred l0)
    (hport : l0.auth = false → l0.port = none)
    (hd1 : d1 = false ∨ d1 = (startsWithSlashSlash X && !l0.auth)) :
    (let a1 := layout { l0 with dashdot := d1, path := X }
     if startsWithSlashSlash (getPathname a1) && !hasAuthority a1 && !hasDashDot a1 then insertDashDot a1 else a1) =
      layout { l0 with dashdot := startsWithSlashSlash X && !l0.auth, path := X } := by
  have hna1 : NoAuthNoCred { l0 with dashdot := d1, path := X } := hna
  have hdd1 : DashDotOk { l0 with dashdot := d1, path := X } := by
    intro hd
    have hd' : d1 = true := hd
    rcases hd1 with h | h
    · rw [h] at hd'; cases hd'
    · rw [h] at hd'
      simp only [Bool.and_eq_true, Bool.not_eq_true'] at hd'
      exact ⟨hd'.2, hopq, hport hd'.2⟩
  simp only [getPathname_layout, hasAuthority_layout _ hna1, hasDashDot_layout _ hdd1]
  cases hs : startsWithSlashSlash X <;> cases ha : l0.auth <;> rcases hd1 with h | h <;> subst h <;>
    simp only [hs, ha, Bool.not_false, Bool.not_true, Bool.and_true, Bool.and_false, Bool.true_and, Bool.false_and,
      Bool.false_eq_true, ↓reduceIte, Bool.and_self]
  · exact (insertDashDot_layout { l0 with auth := false, dashdot := false, path := X } rfl).trans rfl

/-- `consume_prepared_path` on a cleared path: the Standard's path state, with the guard `update_base_pathname` adds
    or (in-place shortcut) without -/
theorem consume_cleared (l0 : L) (scheme : Bytes) (ty : Nat) (hty : TyOf scheme ty) (inp : Bytes)
    (hpath : l0.path = []) (hdash : l0.dashdot = false) (hopq : l0.opq = false) (hna : NoAuthNoCred l0) :
    ∃ d1, (d1 = false ∨ d1 = (startsWithSlashSlash (pathText (Spec.pathState scheme [] inp)) && !l0.auth)) ∧
      consumePreparedPath (layout l0) ty inp = layout { l0 with dashdot := d1, path := pathText (Spec.pathState scheme [] inp) } := by
  have hdd0 : DashDotOk l0 := by intro h; rw [hdash] at h; cases h
  rw [consume_prepared_path_layout l0 ty inp hna hdd0]
  have hX : Model.PathPrepared.pathLoops inp ty l0.path = pathText (Spec.pathState scheme [] inp) := by
    rw [hpath]
    have := pathLoops_eq scheme ty hty inp [] (by intro s hs; cases hs)
    simpa [pathText, Spec.pathState] using this
  split
  · rename_i hc
    simp only [Bool.and_eq_true] at hc
    have ht := trivial_sound scheme ty hty inp [] hc.1
    have ht' : (0x2F : UInt8) :: inp = pathText (Spec.pathState scheme [] inp) := by simpa [pathText, Spec.pathState] using ht
    refine ⟨false, Or.inl rfl, ?_⟩
    rw [ht']
    congr 1
    cases l0; simp_all
  · refine ⟨_, Or.inr rfl, ?_⟩
    rw [hX]
    congr 1
    simp only [newDashDot, hdash, hopq, Bool.false_or, Bool.not_false, Bool.true_and]
    cases hs : startsWithSlashSlash (pathText (Spec.pathState scheme [] inp)) <;> simp

theorem noAuthNoCred_ofUrl (u : Spec.Url) (ok : CredOk u) : NoAuthNoCred (ofUrl u) := by
  intro ha
  have hn : u.host = none := by cases h : u.host <;> simp_all [ofUrl]
  obtain ⟨hu, hp, _⟩ := ok.hostless hn
  exact ⟨hu, hp⟩

theorem dashDotOk_ofUrl (u : Spec.Url) (ok : CredOk u) : DashDotOk (ofUrl u) := by
  intro hd
  simp only [ofUrl, Bool.and_eq_true, Bool.not_eq_true', Option.isNone_iff_eq_none] at hd
  obtain ⟨⟨⟨hn, ho⟩, _⟩, _⟩ := hd
  obtain ⟨_, _, hp⟩ := ok.hostless hn
  exact ⟨by simp [ofUrl, hn], ho, by simp [ofUrl, hp]⟩

/-- `parse_path` on the cleared buffer of a record -/
theorem parsePath_layout (ty : Nat) (u : Spec.Url) (v : Bytes) (ok : CredOk u) (hty : TyOf u.scheme ty) (ho : u.isOpaque = false) :
    ∃ d1, (d1 = false ∨ d1 = (startsWithSlashSlash (pathText (Spec.setPathname u v).path) && !(ofUrl u).auth)) ∧
      parsePathA ty u.isSpecial (layout { ofUrl u with dashdot := false, path := [] }) v =
        layout { ofUrl u with dashdot := d1, path := pathText (Spec.setPathname u v).path } ∧
      NoSlash (Spec.setPathname u v).path := by
  have hna0 : NoAuthNoCred { ofUrl u with dashdot := false, path := [] } := noAuthNoCred_ofUrl u ok
  have hopq : ({ ofUrl u with dashdot := false, path := [] } : L).opq = false := ho
  have cons := fun inp => consume_cleared { ofUrl u with dashdot := false, path := [] } u.scheme ty hty inp rfl rfl hopq hna0
  have hdd0 : DashDotOk { ofUrl u with dashdot := false, path := [] } := by intro h; cases h
  have hslash : updateBasePathname (layout { ofUrl u with dashdot := false, path := [] }) [0x2F] =
      layout { ofUrl u with dashdot := false, path := [0x2F] } := by
    rw [updateBasePathname_layout _ _ hna0 hdd0]
    simp [newDashDot, startsWithSlashSlash]
  unfold parsePathA Spec.setPathname
  simp only [ho, Bool.false_eq_true, ↓reduceIte]
  by_cases hs : u.isSpecial = true
  · simp only [hs, ↓reduceIte]
    cases ht : Spec.stripTN v with
    | nil =>
      simp only
      refine ⟨false, Or.inl rfl, ?_, ?_⟩
      · rw [hslash, UR.pathState_nil]; rfl
      · rw [UR.pathState_nil]; intro s hs; simp at hs; subst hs; simp
    | cons c rest =>
      simp only
      split
      · obtain ⟨d1, h1, h2⟩ := cons rest
        exact ⟨d1, h1, h2, pathState_noSlash _ _⟩
      · obtain ⟨d1, h1, h2⟩ := cons (c :: rest)
        exact ⟨d1, h1, h2, pathState_noSlash _ _⟩
  · simp only [hs, Bool.false_eq_true, ↓reduceIte]
    cases ht : Spec.stripTN v with
    | nil =>
      simp only
      have hauth : hasAuthority (layout { ofUrl u with dashdot := false, path := [] }) = u.host.isSome := by
        rw [hasAuthority_layout _ hna0]; rfl
      cases hh : u.host with
      | none =>
        obtain ⟨hu, hp, _⟩ := ok.hostless hh
        have hcond : ((layout { ofUrl u with dashdot := false, path := [] }).hs == (layout { ofUrl u with dashdot := false, path := [] }).he &&
            !hasAuthority (layout { ofUrl u with dashdot := false, path := [] })) = true := by
          rw [hauth]
          simp [layout, ofUrl, hh, hu, hp, authS, passS, atS]
        simp only [hcond, ↓reduceIte, Option.isNone_none]
        refine ⟨false, Or.inl rfl, ?_, ?_⟩
        · rw [hslash]; rfl
        · intro s hs; simp at hs; subst hs; simp
      | some h =>
        have hcond : ((layout { ofUrl u with dashdot := false, path := [] }).hs == (layout { ofUrl u with dashdot := false, path := [] }).he &&
            !hasAuthority (layout { ofUrl u with dashdot := false, path := [] })) = false := by
          rw [hauth]; simp [hh]
        simp only [hcond, Bool.false_eq_true, ↓reduceIte, Option.isNone_some]
        refine ⟨false, Or.inl rfl, rfl, ?_⟩
        intro s hs; cases hs
    | cons c rest =>
      simp only
      split
      · obtain ⟨d1, h1, h2⟩ := cons rest
        exact ⟨d1, h1, h2, pathState_noSlash _ _⟩
      · obtain ⟨d1, h1, h2⟩ := cons (c :: rest)
        exact ⟨d1, h1, h2, pathState_noSlash _ _⟩

/-- the buffer of the Standard's pathname-setter result -/
theorem ofUrl_setPathname (u : Spec.Url) (v : Bytes) (ho : u.isOpaque = false) (hn : NoSlash (Spec.setPathname u v).path) :
    ofUrl (Spec.setPathname u v) =
      { ofUrl u with dashdot := startsWithSlashSlash (pathText (Spec.setPathname u v).path) && !(ofUrl u).auth,
                     path := pathText (Spec.setPathname u v).path } := by
  have hd := UR.dashdot_eq (Spec.setPathname u v).path hn
  have hk : ∀ p : List Bytes, ofUrl ({ u with path := p } : Spec.Url) =
      { ofUrl u with dashdot := u.host.isNone && decide (p.length > 1) && p.head? == some [], path := pathText p } := by
    intro p
    simp [ofUrl, Spec.Url.pathSerialized, ho, pathText]
  have hsp : Spec.setPathname u v = { u with path := (Spec.setPathname u v).path } := by
    unfold Spec.setPathname
    simp only [ho, Bool.false_eq_true, ↓reduceIte]
  rw [hsp, hk]
  simp only
  have hd' : startsWithSlashSlash (pathText (Spec.setPathname u v).path) =
      (decide ((Spec.setPathname u v).path.length > 1) && (Spec.setPathname u v).path.head? == some []) := hd
  rw [hd']
  congr 1
  cases hh : u.host <;> simp [ofUrl, hh, Bool.and_comm]

/-- **set_pathname, end to end** -/
theorem setPathname_end_to_end (L ty : Nat) (u : Spec.Url) (v : Bytes) (ok : CredOk u) (hty : TyOf u.scheme ty) :
    setPathnameM L ty u.isSpecial (layout (ofUrl u)) v =
      if u.isOpaque then (layout (ofUrl u), false)
      else if (layout (ofUrl (Spec.setPathname u v))).buf.length ≤ L then (layout (ofUrl (Spec.setPathname u v)), true)
      else (layout (ofUrl u), false) := by
  unfold setPathnameM
  have hopq : (layout (ofUrl u)).opq = u.isOpaque := rfl
  rw [hopq]
  cases ho : u.isOpaque
  · simp only [Bool.false_eq_true, ↓reduceIte]
    rw [clearPathname_layout (ofUrl u) (dashDotOk_ofUrl u ok)]
    obtain ⟨d1, hd1, hpp, hns⟩ := parsePath_layout ty u v ok hty ho
    rw [hpp]
    have hfix := fixup_layout { ofUrl u with dashdot := false, path := [] } (pathText (Spec.setPathname u v).path) d1
      ho (noAuthNoCred_ofUrl u ok)
      (by
        intro ha
        have hn : u.host = none := by cases h : u.host <;> simp_all [ofUrl]
        obtain ⟨_, _, hp⟩ := ok.hostless hn
        simp [ofUrl, hp])
      hd1
    simp only at hfix
    rw [hfix, ← ofUrl_setPathname u v ho hns, UR.ite_gt]
  · simp

end AdaVerif.Lemmas.AggL

import AdaVerif.Model.Punycode
import AdaVerif.Lemmas.Punycode
/-
Punycode round trip: decoding what `utf32_to_punycode` wrote gives the code points back, for every list of code points.
The statement is first proved for the decoder without its int32 guards (pure arithmetic, `decodeU`); the guarded decoder
only ever rejects (`guards_only_reject`), so whenever it answers on an encoder output it answers the original.
-/
namespace AdaVerif.Lemmas.Puny
open AdaVerif AdaVerif.Model.Puny

/-! ### one generalized variable-length integer, with fuel measured in digits -/
theorem encodeInt_ne_nil (bias f q k : Nat) : encodeInt bias (f + 1) q k ≠ [] := by
  unfold encodeInt
  simp only
  split <;> simp

theorem varint_rt2 (bias : Nat) (f : Nat) : ∀ (q k i w : Nat) (rest : Bytes) (g : Nat), q < 10 ^ f →
    (encodeInt bias (f + 1) q k).length ≤ g →
    decodeIntU bias g (encodeInt bias (f + 1) q k ++ rest) i w k = some (i + q * w, rest) := by
  induction f with
  | zero =>
    intro q k i w rest g hq hg
    have hq0 : q = 0 := by simpa using hq
    subst hq0
    obtain ⟨ht1, _⟩ := threshold_range k bias
    have : 0 < threshold k bias := by unfold tmin at ht1; omega
    cases g with
    | zero => simp [encodeInt, this] at hg
    | succ g' =>
      simp only [encodeInt, this, ↓reduceIte, List.cons_append, List.nil_append, decodeIntU]
      rw [digit_rt 0 (by decide)]
      simp [this]
  | succ f ih =>
    intro q k i w rest g hq hg
    obtain ⟨ht1, ht2⟩ := threshold_range k bias
    unfold tmin at ht1; unfold tmax at ht2
    unfold encodeInt at hg ⊢
    simp only at hg ⊢
    by_cases hlt : q < threshold k bias
    · simp only [hlt, ↓reduceIte, List.cons_append, List.nil_append] at hg ⊢
      cases g with
      | zero => simp at hg
      | succ g' =>
        simp only [decodeIntU]
        rw [digit_rt q (by omega)]
        simp [hlt]
    · simp only [hlt, ↓reduceIte, List.cons_append, List.length_cons] at hg ⊢
      cases g with
      | zero => omega
      | succ g' =>
        simp only [decodeIntU]
        have hb : base - threshold k bias > 0 := by unfold base; omega
        have hd : threshold k bias + (q - threshold k bias) % (base - threshold k bias) < 36 := by
          have := Nat.mod_lt (q - threshold k bias) hb
          unfold base at this ⊢; omega
        rw [digit_rt _ hd]
        have hnlt : ¬ (threshold k bias + (q - threshold k bias) % (base - threshold k bias) < threshold k bias) := by omega
        simp only [hnlt, ↓reduceIte]
        have hq' : (q - threshold k bias) / (base - threshold k bias) < 10 ^ f := by
          have h10 : 10 ≤ base - threshold k bias := by unfold base; omega
          have h1 : (q - threshold k bias) / (base - threshold k bias) ≤ (q - threshold k bias) / 10 :=
            Nat.div_le_div_left h10 (by decide)
          have h2 : (q - threshold k bias) / 10 < 10 ^ f := by
            rw [Nat.div_lt_iff_lt_mul (by decide)]
            have : 10 ^ (f + 1) = 10 ^ f * 10 := Nat.pow_succ ..
            omega
          omega
        rw [ih _ _ _ _ _ g' hq' (by omega)]
        have hexp : (threshold k bias + (q - threshold k bias) % (base - threshold k bias)) * w +
            (q - threshold k bias) / (base - threshold k bias) * (w * (base - threshold k bias)) = q * w := by
          have : q = threshold k bias + ((q - threshold k bias) % (base - threshold k bias) +
              (base - threshold k bias) * ((q - threshold k bias) / (base - threshold k bias))) := by
            have hmd := Nat.mod_add_div (q - threshold k bias) (base - threshold k bias)
            omega
          conv => rhs; rw [this]
          rw [Nat.add_mul, Nat.add_mul, Nat.add_mul]
          have : (q - threshold k bias) / (base - threshold k bias) * (w * (base - threshold k bias)) =
              (base - threshold k bias) * ((q - threshold k bias) / (base - threshold k bias)) * w := by
            rw [Nat.mul_comm w, ← Nat.mul_assoc, Nat.mul_comm ((q - threshold k bias) / (base - threshold k bias))]
          rw [this]; omega
        congr 2
        omega

/-- fuel beyond what the number needs does not change what the encoder writes -/
theorem encodeInt_fuel (bias : Nat) (f : Nat) : ∀ (q k : Nat) (e : Nat), q < 10 ^ f → f ≤ e →
    encodeInt bias (e + 1) q k = encodeInt bias (f + 1) q k := by
  induction f with
  | zero =>
    intro q k e hq _
    have hq0 : q = 0 := by simpa using hq
    subst hq0
    obtain ⟨ht1, _⟩ := threshold_range k bias
    have : 0 < threshold k bias := by unfold tmin at ht1; omega
    simp [encodeInt, this]
  | succ f ih =>
    intro q k e hq he
    obtain ⟨ht1, ht2⟩ := threshold_range k bias
    unfold tmin at ht1; unfold tmax at ht2
    cases e with
    | zero => omega
    | succ e' =>
      unfold encodeInt
      simp only
      by_cases hlt : q < threshold k bias
      · simp [hlt]
      · simp only [hlt, ↓reduceIte]
        have hq' : (q - threshold k bias) / (base - threshold k bias) < 10 ^ f := by
          have h10 : 10 ≤ base - threshold k bias := by unfold base; omega
          have h1 : (q - threshold k bias) / (base - threshold k bias) ≤ (q - threshold k bias) / 10 :=
            Nat.div_le_div_left h10 (by decide)
          have h2 : (q - threshold k bias) / 10 < 10 ^ f := by
            rw [Nat.div_lt_iff_lt_mul (by decide)]
            have : 10 ^ (f + 1) = 10 ^ f * 10 := Nat.pow_succ ..
            omega
          omega
        rw [ih _ _ e' hq' (by omega)]

/-! ### the decoder without its int32 guards -/
def decodeLoopU : Nat → Bytes → List Nat → Nat → Nat → Nat → Option (List Nat)
  | 0, _, _, _, _, _ => none
  | f + 1, input, out, n, i, bias =>
    if input.isEmpty then some out else
    match decodeIntU bias (input.length + 1) input i 1 base with
    | none => none
    | some (i', rest) =>
      decodeLoopU f rest (insertAt out (i' % (out.length + 1)) (n + i' / (out.length + 1))) (n + i' / (out.length + 1))
        (i' % (out.length + 1) + 1) (adapt (i' - i) (out.length + 1) (i == 0))

/-- decoding one emitted delta: one insertion -/
theorem emit_step (F : Nat) (bias d : Nat) (cont : Bytes) (out : List Nat) (n i : Nat) (hd : d < 10 ^ 63) :
    decodeLoopU (F + 1) (encodeInt bias 64 d base ++ cont) out n i bias =
      decodeLoopU F cont (insertAt out ((i + d) % (out.length + 1)) (n + (i + d) / (out.length + 1)))
        (n + (i + d) / (out.length + 1)) ((i + d) % (out.length + 1) + 1) (adapt d (out.length + 1) (i == 0)) := by
  conv => lhs; unfold decodeLoopU
  have hne : (encodeInt bias 64 d base ++ cont).isEmpty = false := by
    have := encodeInt_ne_nil bias 63 d base
    cases h : encodeInt bias 64 d base with
    | nil => exact absurd h this
    | cons a t => rfl
  simp only [hne, Bool.false_eq_true, ↓reduceIte]
  rw [varint_rt2 bias 63 d base i 1 cont _ hd (by simp; omega)]
  simp only [Nat.mul_one, Nat.add_sub_cancel_left]

/-! ### the encoder's scan and the decoder's state -/
def ltF (m : Nat) (l : List Nat) : List Nat := l.filter (· < m)
def leF (m : Nat) (l : List Nat) : List Nat := l.filter (· ≤ m)

structure DState where
  out : List Nat
  n : Nat
  i : Nat
  bias : Nat

/-- where the decoder stands while the encoder has scanned `pre` (of `pre ++ rest`) for the value `m` and holds the
    pending delta `d`: its list is what lies below `m` plus the occurrences of `m` already scanned, and the delta
    would move it to the scan point -/
structure Inv (m : Nat) (pre rest : List Nat) (d : Nat) (st : DState) (h b : Nat) : Prop where
  out : st.out = leF m pre ++ ltF m rest
  hlen : h = st.out.length
  nle : st.n ≤ m
  lin : st.i + d = (m - st.n) * (h + 1) + (leF m pre).length
  first : (st.i = 0 ∧ h = b) ∨ (0 < st.i ∧ b < h)

theorem insertAt_mid (A B : List Nat) (x : Nat) : insertAt (A ++ B) A.length x = A ++ x :: B := by
  simp [insertAt]

theorem filter_len_le (p : Nat → Bool) (l : List Nat) : (l.filter p).length ≤ l.length := List.length_filter_le p l

theorem scan_sim (m b : Nat) (hm : m ≤ 0x10FFFF) : ∀ (rest pre : List Nat) (d bias h : Nat) (out : Bytes) (st : DState)
    (d' bias' h' : Nat) (out' : Bytes),
    encodeScan m b rest d bias h out = some (d', bias', h', out') →
    Inv m pre rest d st h b → st.bias = bias → (pre ++ rest).length ≤ intMax →
    ∃ (w : Bytes) (st' : DState), out' = out ++ w ∧ Inv m (pre ++ rest) [] d' st' h' b ∧ st'.bias = bias' ∧
      ∀ (cont : Bytes) (F : Nat), (w ++ cont).length < F →
        ∃ F', cont.length < F' ∧
          decodeLoopU F (w ++ cont) st.out st.n st.i st.bias = decodeLoopU F' cont st'.out st'.n st'.i st'.bias := by
  intro rest
  induction rest with
  | nil =>
    intro pre d bias h out st d' bias' h' out' hs hinv hb hlen
    simp only [encodeScan, Option.some.injEq, Prod.mk.injEq] at hs
    obtain ⟨rfl, rfl, rfl, rfl⟩ := hs
    refine ⟨[], st, by simp, by simpa using hinv, hb, ?_⟩
    intro cont F hF
    exact ⟨F, by simpa using hF, rfl⟩
  | cons c rest ih =>
    intro pre d bias h out st d' bias' h' out' hs hinv hb hlen
    have hlen' : (pre ++ [c] ++ rest).length ≤ intMax := by simpa [List.append_assoc] using hlen
    have happ : pre ++ c :: rest = pre ++ [c] ++ rest := by simp
    unfold encodeScan at hs
    by_cases hlt : c < m
    · -- an element below m: already in the decoder's list, one step further
      simp only [hlt, ↓reduceIte] at hs
      by_cases hdm : (d == intMax) = true
      · simp [hdm] at hs
      · simp only [hdm, Bool.false_eq_true, ↓reduceIte] at hs
        have hinv' : Inv m (pre ++ [c]) rest (d + 1) st h b := by
          refine ⟨?_, hinv.hlen, hinv.nle, ?_, hinv.first⟩
          · rw [hinv.out]; simp [leF, ltF, List.filter_append, List.filter_cons, hlt, Nat.le_of_lt hlt]
          · have := hinv.lin
            simp only [leF, List.filter_append, List.filter_cons, Nat.le_of_lt hlt, decide_true, ↓reduceIte, List.filter_nil,
              List.length_append, List.length_cons, List.length_nil] at this ⊢
            omega
        obtain ⟨w, st', e1, e2, e3, e4⟩ := ih (pre ++ [c]) (d + 1) bias h out st d' bias' h' out' hs hinv' hb hlen'
        exact ⟨w, st', e1, by rw [happ]; exact e2, e3, e4⟩
    · simp only [hlt, ↓reduceIte] at hs
      by_cases heq : (c == m) = true
      · -- an occurrence of m: the delta is written, the decoder inserts it at the scan point
        have hcm : c = m := by simpa using heq
        subst hcm
        simp only [heq, ↓reduceIte] at hs
        -- the decoder's arithmetic
        obtain ⟨k, hk⟩ : ∃ k, k = (leF c pre).length := ⟨_, rfl⟩
        have hkh : k ≤ h := by rw [hinv.hlen, hinv.out]; simp [hk]
        have hlin := hinv.lin
        rw [← hk] at hlin
        have hdiv : (st.i + d) / (h + 1) = c - st.n := by
          rw [hlin, Nat.mul_comm, Nat.mul_add_div (by omega), Nat.div_eq_of_lt (by omega)]; simp
        have hmod : (st.i + d) % (h + 1) = k := by
          rw [hlin, Nat.mul_comm, Nat.mul_add_mod, Nat.mod_eq_of_lt (by omega)]
        have hn' : st.n + (c - st.n) = c := by have := hinv.nle; omega
        -- the bound on the delta
        have hhle : h ≤ intMax := by
          rw [hinv.hlen, hinv.out]
          have h1 := filter_len_le (· ≤ c) pre
          have h2 := filter_len_le (· < c) (c :: rest)
          simp only [leF, ltF, List.length_append] at *
          simp only [List.length_append, List.length_cons] at hlen h2
          omega
        have hd63 : d < 10 ^ 63 := by
          have h1 : (c - st.n) * (h + 1) ≤ 0x10FFFF * (intMax + 1) := Nat.mul_le_mul (by omega) (by omega)
          have h2 : d ≤ (c - st.n) * (h + 1) + k := by omega
          have h3 : (0x10FFFF : Nat) * (intMax + 1) + intMax < 10 ^ 63 := by decide
          omega
        let st1 : DState := ⟨leF c pre ++ c :: ltF c rest, c, k + 1, adapt d (h + 1) (h == b)⟩
        have hfirst : (st.i == 0) = (h == b) := by
          rcases hinv.first with ⟨h1, h2⟩ | ⟨h1, h2⟩
          · simp [h1, h2]
          · have e1 : (st.i == 0) = false := by simpa using (by omega : st.i ≠ 0)
            have e2 : (h == b) = false := by simpa using (by omega : h ≠ b)
            rw [e1, e2]
        have hinv1 : Inv c (pre ++ [c]) rest 0 st1 (h + 1) b := by
          refine ⟨?_, ?_, Nat.le_refl _, ?_, ?_⟩
          · simp [st1, leF, ltF, List.filter_append, List.filter_cons]
          · have := hinv.hlen
            rw [hinv.out] at this
            simp only [st1, List.length_append, List.length_cons, leF, ltF, List.filter_cons, Nat.lt_irrefl, decide_false,
              Bool.false_eq_true, ↓reduceIte] at this ⊢
            omega
          · simp [st1, leF, List.filter_append, List.filter_cons, hk]
          · right
            refine ⟨by simp [st1], ?_⟩
            rcases hinv.first with ⟨_, h2⟩ | ⟨_, h2⟩ <;> omega
        obtain ⟨w, st', e1, e2, e3, e4⟩ := ih (pre ++ [c]) 0 (adapt d (h + 1) (h == b)) (h + 1)
          (out ++ encodeInt bias 64 d base) st1 d' bias' h' out' hs hinv1 rfl hlen'
        refine ⟨encodeInt bias 64 d base ++ w, st', by rw [e1]; simp, by rw [happ]; exact e2, e3, ?_⟩
        intro cont F hF
        cases F with
        | zero => omega
        | succ F0 =>
          obtain ⟨F', hF', hdec⟩ := e4 cont F0 (by
            have := encodeInt_ne_nil bias 63 d base
            have hpos : 0 < (encodeInt bias 64 d base).length := List.length_pos_iff.mpr this
            simp only [List.length_append] at hF ⊢
            omega)
          refine ⟨F', hF', ?_⟩
          rw [List.append_assoc, ← hb, emit_step F0 st.bias d (w ++ cont) st.out st.n st.i hd63, ← hdec]
          have hol : st.out.length = h := hinv.hlen.symm
          simp only [hol, hdiv, hmod, hn', hfirst, st1]
          rw [hinv.out]
          have : ltF c (c :: rest) = ltF c rest := by simp [ltF, List.filter_cons]
          rw [this, hk, insertAt_mid]
      · -- an element above m: not yet the decoder's business
        simp only [heq, Bool.false_eq_true, ↓reduceIte] at hs
        have hgt : m < c := by
          have : c ≠ m := by simpa using heq
          omega
        have hinv' : Inv m (pre ++ [c]) rest d st h b := by
          refine ⟨?_, hinv.hlen, hinv.nle, ?_, hinv.first⟩
          · rw [hinv.out]
            have h1 : ¬ c ≤ m := by omega
            simp [leF, ltF, List.filter_append, List.filter_cons, hlt, h1]
          · have := hinv.lin
            have h1 : ¬ c ≤ m := by omega
            simp only [leF, List.filter_append, List.filter_cons, h1, decide_false, Bool.false_eq_true, ↓reduceIte, List.filter_nil,
              List.length_append, List.length_nil, Nat.add_zero] at this ⊢
            exact this
        obtain ⟨w, st', e1, e2, e3, e4⟩ := ih (pre ++ [c]) d bias h out st d' bias' h' out' hs hinv' hb hlen'
        exact ⟨w, st', e1, by rw [happ]; exact e2, e3, e4⟩

/-! ### the outer loop -/
theorem min_fold (n : Nat) (l : List Nat) : ∀ acc : Nat,
    (l.foldl (fun m c => if c ≥ n && c < m then c else m) acc ≤ acc) ∧
    (l.foldl (fun m c => if c ≥ n && c < m then c else m) acc = acc ∨
      (l.foldl (fun m c => if c ≥ n && c < m then c else m) acc ∈ l ∧ n ≤ l.foldl (fun m c => if c ≥ n && c < m then c else m) acc)) ∧
    (∀ c ∈ l, n ≤ c → l.foldl (fun m c => if c ≥ n && c < m then c else m) acc ≤ c) := by
  induction l with
  | nil => intro acc; simp
  | cons x t ih =>
    intro acc
    simp only [List.foldl_cons]
    by_cases hx : (decide (x ≥ n) && decide (x < acc)) = true
    · simp only [hx, ↓reduceIte]
      simp only [Bool.and_eq_true, decide_eq_true_eq] at hx
      obtain ⟨i1, i2, i3⟩ := ih x
      refine ⟨by omega, ?_, ?_⟩
      · right
        rcases i2 with e | ⟨e1, e2⟩
        · rw [e]; exact ⟨List.mem_cons_self, hx.1⟩
        · exact ⟨List.mem_cons_of_mem _ e1, e2⟩
      · intro c hc hn
        simp only [List.mem_cons] at hc
        rcases hc with rfl | hc
        · exact i1
        · exact i3 c hc hn
    · simp only [hx, Bool.false_eq_true, ↓reduceIte]
      simp only [Bool.and_eq_true, decide_eq_true_eq, not_and, Nat.not_lt] at hx
      obtain ⟨i1, i2, i3⟩ := ih acc
      refine ⟨i1, ?_, ?_⟩
      · rcases i2 with e | ⟨e1, e2⟩
        · left; exact e
        · right; exact ⟨List.mem_cons_of_mem _ e1, e2⟩
      · intro c hc hn
        simp only [List.mem_cons] at hc
        rcases hc with rfl | hc
        · have := hx hn; omega
        · exact i3 c hc hn

theorem ltF_full (n : Nat) (l : List Nat) (h : (ltF n l).length = l.length) : ltF n l = l := by
  unfold ltF at h ⊢
  induction l with
  | nil => rfl
  | cons x t ih =>
    by_cases hx : x < n
    · simp only [List.filter_cons, hx, decide_true, ↓reduceIte, List.length_cons, Nat.add_right_cancel_iff] at h ⊢
      rw [ih h]
    · simp only [List.filter_cons, hx, decide_false, Bool.false_eq_true, ↓reduceIte, List.length_cons] at h
      have := List.length_filter_le (fun x => decide (x < n)) t
      omega

theorem ltF_same (n m : Nat) (l : List Nat) (hnm : n ≤ m) (hgap : ∀ c ∈ l, n ≤ c → m ≤ c) : ltF m l = ltF n l := by
  unfold ltF
  apply List.filter_congr
  intro c hc
  by_cases h1 : c < n
  · have : c < m := by omega
    simp [h1, this]
  · have := hgap c hc (by omega)
    have h2 : ¬ c < m := by omega
    simp [h1, h2]

theorem leF_succ (m : Nat) (l : List Nat) : leF m l = ltF (m + 1) l := by
  unfold leF ltF
  apply List.filter_congr
  intro c _
  by_cases h : c ≤ m
  · have : c < m + 1 := by omega
    simp [h, this]
  · have : ¬ c < m + 1 := by omega
    simp [h, this]

theorem mem_len_lt (m : Nat) (l : List Nat) (hm : m ∈ l) : (ltF m l).length < (leF m l).length := by
  unfold ltF leF
  induction l with
  | nil => cases hm
  | cons x t ih =>
    simp only [List.mem_cons] at hm
    have hmono : (t.filter (fun x => decide (x < m))).length ≤ (t.filter (fun x => decide (x ≤ m))).length := by
      clear ih hm
      induction t with
      | nil => simp
      | cons y u ihu =>
        by_cases h1 : y < m
        · have : y ≤ m := by omega
          simp [List.filter_cons, h1, this]; omega
        · by_cases h2 : y ≤ m
          · simp [List.filter_cons, h1, h2]; omega
          · simp [List.filter_cons, h1, h2]; omega
    by_cases hx : x = m
    · subst hx
      simp [List.filter_cons]
      omega
    · rcases hm with e | hm
      · exact absurd e.symm hx
      · have := ih hm
        by_cases h1 : x < m
        · have : x ≤ m := by omega
          simp [List.filter_cons, h1, this]; omega
        · have h2 : ¬ x ≤ m := by omega
          simp [List.filter_cons, h1, h2]; omega

theorem loop_sim (input : List Nat) (b : Nat) (hvalid : ∀ c ∈ input, c ≤ 0x10FFFF) (hlen : input.length ≤ intMax) :
    ∀ (f n d bias h : Nat) (out : Bytes) (st : DState) (out' : Bytes), input.length - h < f →
      encodeLoop input b f n d bias h out = some out' → Inv n [] input d st h b → st.bias = bias →
      ∃ w, out' = out ++ w ∧ ∀ F, w.length < F → decodeLoopU F w st.out st.n st.i st.bias = some input := by
  intro f
  induction f with
  | zero => intro n d bias h out st out' hf; omega
  | succ f ih =>
    intro n d bias h out st out' hf he hinv hb
    unfold encodeLoop at he
    have hout : st.out = ltF n input := by simpa [leF] using hinv.out
    by_cases hh : h < input.length
    · simp only [hh, ↓reduceIte] at he
      -- the next code point to handle
      have hex : ∃ c ∈ input, n ≤ c := by
        have hlt1 : (ltF n input).length < input.length := by rw [← hout, ← hinv.hlen]; exact hh
        refine Classical.byContradiction (fun hno => ?_)
        have hall : ∀ c ∈ input, c < n := by
          intro c hc
          have : ¬ n ≤ c := fun hn => hno ⟨c, hc, hn⟩
          omega
        have hfull : ltF n input = input := by
          unfold ltF; apply List.filter_eq_self.mpr; intro c hc; simpa using hall c hc
        rw [hfull] at hlt1; omega
      obtain ⟨i1, i2, i3⟩ := min_fold n input 0x10FFFF
      generalize hmdef : input.foldl (fun m c => if c ≥ n && c < m then c else m) 0x10FFFF = m at he i1 i2 i3
      have hmem : m ∈ input ∧ n ≤ m := by
        rcases i2 with e | e
        · obtain ⟨c, hc, hn⟩ := hex
          have h1 := i3 c hc hn
          have h2 := hvalid c hc
          have : c = m := by omega
          subst this
          exact ⟨hc, hn⟩
        · exact e
      by_cases hg : (m - n) > (intMax - d) / (h + 1)
      · simp [hg] at he
      · simp only [hg, ↓reduceIte] at he
        cases hsc : encodeScan m b input (d + (m - n) * (h + 1)) bias h out with
        | none => simp [hsc] at he
        | some r =>
          obtain ⟨d2, bias2, h2, out2⟩ := r
          simp only [hsc] at he
          have hinv1 : Inv m [] input (d + (m - n) * (h + 1)) st h b := by
            refine ⟨?_, hinv.hlen, Nat.le_trans hinv.nle hmem.2, ?_, hinv.first⟩
            · rw [hout]; simp only [leF, List.filter_nil, List.nil_append]
              exact (ltF_same n m input hmem.2 i3).symm
            · have := hinv.lin
              simp only [leF, List.filter_nil, List.length_nil, Nat.add_zero] at this ⊢
              have hn := hinv.nle
              have e : (m - st.n) * (h + 1) = (n - st.n) * (h + 1) + (m - n) * (h + 1) := by
                rw [← Nat.add_mul]; congr 1; omega
              rw [e]; omega
          obtain ⟨w, st2, e1, e2, e3, e4⟩ := scan_sim m b i1 input [] _ bias h out st d2 bias2 h2 out2 hsc hinv1 hb (by simpa using hlen)
          simp only [List.nil_append] at e2
          -- ready for the next round
          have hout2 : st2.out = leF m input := by simpa [ltF] using e2.out
          have hh2 : h2 = (leF m input).length := by rw [e2.hlen, hout2]
          have hprog : h < h2 := by
            have := mem_len_lt m input hmem.1
            rw [hh2]
            have e : h = (ltF m input).length := by rw [hinv.hlen, hout, ltF_same n m input hmem.2 i3]
            omega
          have hinv2 : Inv (m + 1) [] input (d2 + 1) st2 h2 b := by
            refine ⟨?_, e2.hlen, Nat.le_succ_of_le e2.nle, ?_, e2.first⟩
            · rw [hout2, leF_succ]; simp [leF]
            · have := e2.lin
              rw [← hh2] at this
              simp only [leF, List.filter_nil, List.length_nil, Nat.add_zero]
              have hn := e2.nle
              have e : (m + 1 - st2.n) * (h2 + 1) = (m - st2.n) * (h2 + 1) + (h2 + 1) := by
                have : m + 1 - st2.n = (m - st2.n) + 1 := by omega
                rw [this, Nat.add_mul]; simp
              rw [e]; omega
          obtain ⟨w2, e5, e6⟩ := ih (m + 1) (d2 + 1) bias2 h2 out2 st2 out' (by omega) he hinv2 e3
          refine ⟨w ++ w2, by rw [e5, e1]; simp, ?_⟩
          intro F hF
          obtain ⟨F', hF', hdec⟩ := e4 w2 F hF
          rw [hdec]
          exact e6 F' hF'
    · simp only [hh, ↓reduceIte, Option.some.injEq] at he
      subst he
      refine ⟨[], by simp, ?_⟩
      intro F hF
      cases F with
      | zero => omega
      | succ F0 =>
        simp only [decodeLoopU, List.isEmpty_nil, ↓reduceIte, Option.some.injEq]
        rw [hout]
        apply ltF_full
        have h1 : h = (ltF n input).length := by rw [hinv.hlen, hout]
        have h2 := filter_len_le (· < n) input
        unfold ltF at *
        omega

/-! ### the digits never contain the delimiter -/
theorem digit_ne_dash : ∀ d : Fin 36, digitToChar d.val ≠ 0x2D := by decide +kernel

theorem encodeInt_nodash (bias : Nat) (f : Nat) : ∀ (q k : Nat), ∀ b ∈ encodeInt bias f q k, b ≠ 0x2D := by
  induction f with
  | zero => intro q k b hb; simp [encodeInt] at hb
  | succ f ih =>
    intro q k b hb
    obtain ⟨ht1, ht2⟩ := threshold_range k bias
    unfold tmin at ht1; unfold tmax at ht2
    unfold encodeInt at hb
    simp only at hb
    split at hb
    · rename_i hlt
      simp only [List.mem_singleton] at hb
      subst hb
      exact digit_ne_dash ⟨q, by omega⟩
    · simp only [List.mem_cons] at hb
      rcases hb with rfl | hb
      · have hb' : base - threshold k bias > 0 := by unfold base; omega
        have hd : threshold k bias + (q - threshold k bias) % (base - threshold k bias) < 36 := by
          have := Nat.mod_lt (q - threshold k bias) hb'
          unfold base at this ⊢; omega
        exact digit_ne_dash ⟨_, hd⟩
      · exact ih _ _ b hb

theorem scan_nodash (m b : Nat) : ∀ (rest : List Nat) (d bias h : Nat) (out : Bytes) (d' bias' h' : Nat) (out' : Bytes),
    encodeScan m b rest d bias h out = some (d', bias', h', out') → ∃ w, out' = out ++ w ∧ ∀ x ∈ w, x ≠ 0x2D := by
  intro rest
  induction rest with
  | nil =>
    intro d bias h out d' bias' h' out' hs
    simp only [encodeScan, Option.some.injEq, Prod.mk.injEq] at hs
    obtain ⟨_, _, _, rfl⟩ := hs
    exact ⟨[], by simp, by simp⟩
  | cons c rest ih =>
    intro d bias h out d' bias' h' out' hs
    unfold encodeScan at hs
    by_cases hlt : c < m
    · simp only [hlt, ↓reduceIte] at hs
      by_cases hdm : (d == intMax) = true
      · simp [hdm] at hs
      · simp only [hdm, Bool.false_eq_true, ↓reduceIte] at hs
        exact ih _ _ _ _ _ _ _ _ hs
    · simp only [hlt, ↓reduceIte] at hs
      by_cases heq : (c == m) = true
      · simp only [heq, ↓reduceIte] at hs
        obtain ⟨w, e1, e2⟩ := ih _ _ _ _ _ _ _ _ hs
        refine ⟨encodeInt bias 64 d base ++ w, by rw [e1]; simp, ?_⟩
        intro x hx
        simp only [List.mem_append] at hx
        rcases hx with hx | hx
        · exact encodeInt_nodash bias 64 d base x hx
        · exact e2 x hx
      · simp only [heq, Bool.false_eq_true, ↓reduceIte] at hs
        exact ih _ _ _ _ _ _ _ _ hs

theorem loop_nodash (input : List Nat) (b : Nat) : ∀ (f n d bias h : Nat) (out out' : Bytes),
    encodeLoop input b f n d bias h out = some out' → ∃ w, out' = out ++ w ∧ ∀ x ∈ w, x ≠ 0x2D := by
  intro f
  induction f with
  | zero => intro n d bias h out out' he; simp [encodeLoop] at he; exact ⟨[], by simp [he], by simp⟩
  | succ f ih =>
    intro n d bias h out out' he
    unfold encodeLoop at he
    by_cases hh : h < input.length
    · simp only [hh, ↓reduceIte] at he
      split at he
      · cases he
      · split at he
        · cases he
        · rename_i d2 bias2 h2 out2 hsc
          obtain ⟨w1, e1, e2⟩ := scan_nodash _ b input _ _ _ _ _ _ _ _ hsc
          obtain ⟨w2, e3, e4⟩ := ih _ _ _ _ _ _ he
          refine ⟨w1 ++ w2, by rw [e3, e1]; simp, ?_⟩
          intro x hx
          simp only [List.mem_append] at hx
          rcases hx with hx | hx
          · exact e2 x hx
          · exact e4 x hx
    · simp only [hh, ↓reduceIte, Option.some.injEq] at he
      exact ⟨[], by simp [he], by simp⟩

/-! ### the whole round trip -/
/-- `punycode_to_utf32` without the int32 guards and without the "decoded form begins with xn--" refusal -/
def decodeU (input : Bytes) : Option (List Nat) :=
  let (basic, ext) : Bytes × Bytes :=
    match lastIndexOfDash input with
    | some e => (input.take e, input.drop (e + 1))
    | none => ([], input)
  decodeLoopU (ext.length + 1) ext (basic.map (·.toNat)) initialN 0 initialBias

theorem lastDash_go_none (l : Bytes) (i : Nat) (acc : Option Nat) (h : ∀ x ∈ l, x ≠ 0x2D) : lastIndexOfDash.go l i acc = acc := by
  induction l generalizing i acc with
  | nil => rfl
  | cons b t ih =>
    have hb : (b == 0x2D) = false := by simpa using h b (by simp)
    simp only [lastIndexOfDash.go, hb, Bool.false_eq_true, ↓reduceIte]
    exact ih _ _ (fun x hx => h x (by simp [hx]))

theorem lastDash_go_pre (pre : Bytes) (t : Bytes) (i : Nat) (acc : Option Nat) (ht : ∀ x ∈ t, x ≠ 0x2D) :
    lastIndexOfDash.go (pre ++ 0x2D :: t) i acc = some (i + pre.length) := by
  induction pre generalizing i acc with
  | nil =>
    simp only [List.nil_append, lastIndexOfDash.go, beq_self_eq_true, ↓reduceIte, List.length_nil, Nat.add_zero]
    exact lastDash_go_none t _ _ ht
  | cons b p ih =>
    simp only [List.cons_append, lastIndexOfDash.go, List.length_cons]
    rw [ih]
    congr 1; omega

/-- **Punycode round trip**: for every list of code points the encoder accepts (at most 2^31-1 of them), decoding its
    output - with the decoder's arithmetic, its int32 guards aside - gives the list back -/
theorem roundtripU (s : List Nat) (e : Bytes) (hlen : s.length ≤ intMax) (h : encode s = some e) : decodeU e = some s := by
  unfold encode at h
  split at h; · cases h
  rename_i hvalid
  have hv : ∀ c ∈ s, c ≤ 0x10FFFF := by
    intro c hc
    simp only [List.any_eq_true, Bool.or_eq_true, decide_eq_true_eq, Bool.and_eq_true, not_exists, not_and, not_or] at hvalid
    have := (hvalid c hc).1
    omega
  simp only at h
  have hbasic : s.filter (· < 0x80) = ltF 128 s := rfl
  obtain ⟨w, e1, e2⟩ := loop_nodash _ _ _ _ _ _ _ _ _ h
  let st0 : DState := ⟨ltF 128 s, 128, 0, 72⟩
  have hinv0 : Inv 128 [] s 0 st0 (s.filter (· < 0x80)).length (s.filter (· < 0x80)).length :=
    ⟨by simp [st0, leF], by simp [st0, hbasic], Nat.le_refl _, by simp [st0, leF], Or.inl ⟨rfl, rfl⟩⟩
  obtain ⟨w', e3, e4⟩ := loop_sim s _ hv hlen (s.length + 1) initialN 0 initialBias _ _ st0 e (by omega) h hinv0 rfl
  have hww : w' = w := List.append_cancel_left (e3.symm.trans e1)
  subst hww
  have hdec := e4 (w'.length + 1) (by omega)
  -- the basic code points
  have hb256 : ∀ c ∈ ltF 128 s, c < 128 := by
    intro c hc
    simpa [ltF] using (List.mem_filter.mp hc).2
  have hmap : ((ltF 128 s).map UInt8.ofNat).map (·.toNat) = ltF 128 s := by
    rw [List.map_map]
    calc (ltF 128 s).map ((·.toNat) ∘ UInt8.ofNat) = (ltF 128 s).map id := by
          apply List.map_congr_left
          intro c hc
          have := hb256 c hc
          simp only [Function.comp, id, UInt8.toNat_ofNat']
          omega
      _ = ltF 128 s := List.map_id _
  unfold decodeU
  rw [e1]
  by_cases hne : (ltF 128 s).length > 0
  · simp only [hbasic, hne, ↓reduceIte]
    have hsplit : lastIndexOfDash ((ltF 128 s).map UInt8.ofNat ++ [0x2D] ++ w') = some ((ltF 128 s).map UInt8.ofNat).length := by
      unfold lastIndexOfDash
      rw [List.append_assoc]
      simp only [List.singleton_append]
      rw [lastDash_go_pre _ w' 0 none e2]; simp
    rw [hsplit]
    simp only
    have ht : ((ltF 128 s).map UInt8.ofNat ++ [0x2D] ++ w').take ((ltF 128 s).map UInt8.ofNat).length = (ltF 128 s).map UInt8.ofNat := by
      rw [List.append_assoc, List.take_left']
      rfl
    have hd : ((ltF 128 s).map UInt8.ofNat ++ [0x2D] ++ w').drop (((ltF 128 s).map UInt8.ofNat).length + 1) = w' := by
      have : ((ltF 128 s).map UInt8.ofNat ++ [0x2D]).length = ((ltF 128 s).map UInt8.ofNat).length + 1 := by simp
      rw [← this, List.drop_left']
      rfl
    rw [ht, hd, hmap]
    exact hdec
  · have hnil : ltF 128 s = [] := by
      have : (ltF 128 s).length = 0 := by omega
      exact List.eq_nil_of_length_eq_zero this
    simp only [hbasic, hnil, List.length_nil, Nat.lt_irrefl, gt_iff_lt, ↓reduceIte, List.map_nil, List.nil_append]
    have hsplit : lastIndexOfDash w' = none := by
      unfold lastIndexOfDash
      exact lastDash_go_none w' 0 none e2
    rw [hsplit]
    simp only [List.map_nil]
    have hdec' : decodeLoopU (w'.length + 1) w' (ltF 128 s) 128 0 72 = some s := hdec
    rw [hnil] at hdec'
    exact hdec'

/-! ### the guarded decoder only rejects -/
theorem decodeIntU_len (bias : Nat) (f : Nat) : ∀ (input : Bytes) (i w k i' : Nat) (rest : Bytes),
    decodeIntU bias f input i w k = some (i', rest) → rest.length < input.length := by
  induction f with
  | zero => intro input i w k i' rest h; simp [decodeIntU] at h
  | succ f ih =>
    intro input i w k i' rest h
    unfold decodeIntU at h
    cases input with
    | nil => simp at h
    | cons c t =>
      simp only at h
      cases hc : charToDigit c with
      | none => simp [hc] at h
      | some digit =>
        simp only [hc] at h
        split at h
        · injection h with h; injection h with _ h2; subst h2; simp
        · have := ih _ _ _ _ _ _ h
          simp only [List.length_cons]; omega

theorem insertAt_len (l : List Nat) (i x : Nat) (h : i ≤ l.length) : (insertAt l i x).length = l.length + 1 := by
  simp [insertAt]; omega

theorem loop_guarded (f : Nat) : ∀ (inp : Bytes) (out : List Nat) (n i bias : Nat) (r : List Nat),
    decodeLoop f inp out n i bias = some r → i ≤ intMax → out.length + inp.length < intMax →
    decodeLoopU f inp out n i bias = some r := by
  induction f with
  | zero => intro inp out n i bias r h; simp [decodeLoop] at h
  | succ f ih =>
    intro inp out n i bias r h hi hsz
    unfold decodeLoop at h
    unfold decodeLoopU
    by_cases he : inp.isEmpty = true
    · simp only [he, ↓reduceIte] at h ⊢; exact h
    · simp only [he, Bool.false_eq_true, ↓reduceIte] at h ⊢
      cases hdi : decodeInt bias (inp.length + 1) inp i 1 base with
      | none => simp [hdi] at h
      | some p =>
        obtain ⟨i', rest⟩ := p
        obtain ⟨hu, hfit⟩ := guards_only_reject bias _ inp i 1 base (i', rest) (by decide) hi hdi
        simp only [hdi] at h
        simp only [hu]
        split at h
        · cases h
        · split at h
          · cases h
          · have hrl := decodeIntU_len bias _ inp i 1 base i' rest hu
            have hpos : i' % (out.length + 1) ≤ out.length := by
              have := Nat.mod_lt i' (by omega : 0 < out.length + 1); omega
            have hne : 0 < inp.length := by
              cases inp with
              | nil => simp at he
              | cons => simp
            apply ih _ _ _ _ _ _ h
            · omega
            · rw [insertAt_len _ _ _ hpos]; omega

/-- whenever the real decoder (int32 guards, refusals and all) answers, the guard-free arithmetic gives the same answer -/
theorem decode_sound (e : Bytes) (r : List Nat) (hlen : e.length < intMax) (h : decode e = some r) : decodeU e = some r := by
  have core : ∀ (basic ext : Bytes), basic.length + ext.length ≤ e.length →
      (if basic.any (·.toNat ≥ 0x80) then none else
        match decodeLoop (ext.length + 1) ext (basic.map (·.toNat)) initialN 0 initialBias with
        | none => none
        | some out =>
          match out with
          | 0x78 :: 0x6E :: 0x2D :: 0x2D :: _ => none
          | _ => some out) = some r →
      decodeLoopU (ext.length + 1) ext (basic.map (·.toNat)) initialN 0 initialBias = some r := by
    intro basic ext hsz h
    split at h
    · cases h
    · cases hl : decodeLoop (ext.length + 1) ext (basic.map (·.toNat)) initialN 0 initialBias with
      | none => simp [hl] at h
      | some out =>
        simp only [hl] at h
        have hu := loop_guarded _ _ _ _ _ _ _ hl (by decide) (by simp; omega)
        rw [hu]
        split at h
        · cases h
        · exact h
  unfold decode at h
  unfold decodeU
  cases hld : lastIndexOfDash e with
  | none =>
    simp only [hld] at h ⊢
    exact core [] e (by simp) h
  | some k =>
    simp only [hld] at h ⊢
    exact core (e.take k) (e.drop (k + 1)) (by simp only [List.length_take, List.length_drop]; omega) h

/-- **Punycode round trip, real decoder**: if `punycode_to_utf32` accepts what `utf32_to_punycode` wrote for `s`, it
    returns `s` -/
theorem roundtrip (s : List Nat) (e : Bytes) (r : List Nat) (hs : s.length ≤ intMax) (he : e.length < intMax)
    (henc : encode s = some e) (hdec : decode e = some r) : r = s := by
  have h1 := roundtripU s e hs henc
  have h2 := decode_sound e r he hdec
  rw [h1] at h2
  injection h2 with h2
  exact h2.symm

end AdaVerif.Lemmas.Puny

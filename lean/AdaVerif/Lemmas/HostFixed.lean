import AdaVerif.Lemmas.Ipv4
import AdaVerif.Lemmas.Ipv6
import AdaVerif.Lemmas.Ascii
/-
Hosts are fixed points of serialise-then-parse: an IPv4 address, an IPv6 address and an opaque host
re-parse to themselves (for every address / every encoded opaque host); a domain does when
domain-to-ASCII is stable on it (the IDNA part is a parameter of the Spec).
-/
namespace AdaVerif.Lemmas
open AdaVerif AdaVerif.Spec

/-- digits and dots only -/
def AllDD (s : Bytes) : Prop := ∀ b ∈ s, isAsciiDigit b = true ∨ b = 0x2E

theorem dd_facts : ∀ b : UInt8, (isAsciiDigit b = true ∨ b = 0x2E) →
    b ≠ 0x25 ∧ b.toNat < 0x80 ∧ toLowerByte b = b ∧ isForbiddenDomain b = false ∧ b ≠ 0x5B ∧ b ≠ 0x78 ∧ b ≠ 0x58 := by
  apply forall_uint8_of_fin; decide +kernel

theorem percentDecode_no_pct : ∀ (s : Bytes), (∀ b ∈ s, b ≠ 0x25) → percentDecode s = s
  | [], _ => rfl
  | [_], _ => rfl
  | [_, _], _ => rfl
  | a :: b :: c :: rest, h => by
    have ha : a ≠ 0x25 := h a (by simp)
    have : (a == 0x25) = false := by simpa using ha
    simp only [percentDecode, this, Bool.false_and, Bool.false_eq_true, ↓reduceIte]
    rw [percentDecode_no_pct (b :: c :: rest) (fun x hx => h x (by simp [hx]))]

theorem allDD_serialize (a : Nat) : AllDD (ipv4Serialize a) := by
  intro b hb
  unfold ipv4Serialize at hb
  have d1 := part_digits (a / 16777216 % 256) (Nat.mod_lt _ (by decide))
  have d2 := part_digits (a / 65536 % 256) (Nat.mod_lt _ (by decide))
  have d3 := part_digits (a / 256 % 256) (Nat.mod_lt _ (by decide))
  have d4 := part_digits (a % 256) (Nat.mod_lt _ (by decide))
  simp only [List.all_eq_true] at d1 d2 d3 d4
  simp only [List.mem_append, List.mem_singleton] at hb
  rcases hb with ((((((h | h) | h) | h) | h) | h) | h)
  · exact Or.inl (d1 b h)
  · exact Or.inr h
  · exact Or.inl (d2 b h)
  · exact Or.inr h
  · exact Or.inl (d3 b h)
  · exact Or.inr h
  · exact Or.inl (d4 b h)

theorem splitOn_mem (sep : UInt8) : ∀ (s : Bytes) (l : Bytes), l ∈ splitOn sep s → ∀ b ∈ l, b ∈ s := by
  intro s
  induction s with
  | nil => intro l hl b hb; simp [splitOn] at hl; subst hl; simp at hb
  | cons c t ih =>
    intro l hl b hb
    simp only [splitOn] at hl
    split at hl
    · rcases List.mem_cons.mp hl with rfl | hl'
      · simp at hb
      · exact List.mem_cons_of_mem _ (ih l hl' b hb)
    · cases hs : splitOn sep t with
      | nil => rw [hs] at hl; simp at hl; subst hl; simp at hb; subst hb; simp
      | cons h r =>
        rw [hs] at hl
        rcases List.mem_cons.mp hl with rfl | hl'
        · rcases List.mem_cons.mp hb with rfl | hb'
          · simp
          · exact List.mem_cons_of_mem _ (ih h (by rw [hs]; simp) b hb')
        · exact List.mem_cons_of_mem _ (ih l (by rw [hs]; simp [hl']) b hb)

theorem domainToAscii_dd (idna : Idna) (s : Bytes) (h : AllDD s) (hne : s ≠ []) : domainToAscii idna s = some s := by
  unfold domainToAscii
  have hasc : isAsciiBytes s = true := by
    simp only [isAsciiBytes, List.all_eq_true, decide_eq_true_eq]
    intro b hb; exact (dd_facts b (h b hb)).2.1
  have hxn : (splitOn 0x2E s).any startsWithXn = false := by
    simp only [List.any_eq_false]
    intro l hl
    cases l with
    | nil => simp [startsWithXn]
    | cons a t =>
      have ha := dd_facts a (h a (splitOn_mem _ s _ hl a (by simp)))
      cases t with
      | nil => simp [startsWithXn]
      | cons b t2 => cases t2 with
        | nil => simp [startsWithXn]
        | cons c t3 => cases t3 with
          | nil => simp [startsWithXn]
          | cons d t4 =>
            have h1 : (a == 0x78) = false := by simpa using ha.2.2.2.2.2.1
            have h2 : (a == 0x58) = false := by simpa using ha.2.2.2.2.2.2
            simp [startsWithXn, h1, h2]
  have hmap : s.map toLowerByte = s := by
    rw [List.map_congr_left (g := id)]
    · simp
    · intro b hb; exact (dd_facts b (h b hb)).2.2.1
  simp only [hasc, hxn, Bool.not_false, Bool.and_self, ↓reduceIte, hmap]
  cases s <;> simp_all

/-- IPv4: for every 32-bit address the host parser of a special URL returns it from its dotted-decimal form -/
theorem ipv4_host_fixed (idna : Idna) (a : Nat) (ha : a < 4294967296) :
    hostParse idna (Host.serialize (.ipv4 a)) false = some (.ipv4 a) := by
  have hdd := allDD_serialize a
  have hne : ipv4Serialize a ≠ [] := by
    have := part_ne_nil (a / 16777216 % 256) (Nat.mod_lt _ (by decide))
    unfold ipv4Serialize
    intro h; simp at h
  obtain ⟨d, t, hs⟩ : ∃ d t, ipv4Serialize a = d :: t := by
    cases h : ipv4Serialize a with
    | nil => exact absurd h hne
    | cons d t => exact ⟨d, t, rfl⟩
  have hd5b : d ≠ 0x5B := (dd_facts d (hdd d (by rw [hs]; simp))).2.2.2.2.1
  have hpd : percentDecode (ipv4Serialize a) = ipv4Serialize a :=
    percentDecode_no_pct _ (fun b hb => (dd_facts b (hdd b hb)).1)
  have hforb : (ipv4Serialize a).any isForbiddenDomain = false := by
    simp only [List.any_eq_false]; intro b hb; simp [(dd_facts b (hdd b hb)).2.2.2.1]
  simp only [Host.serialize]
  unfold hostParse
  rw [hs]
  split
  · rename_i heq; injection heq with h1 _; exact absurd h1 hd5b
  · rw [← hs]
    simp only [Bool.false_eq_true, ↓reduceIte, hpd, domainToAscii_dd idna _ hdd hne, hforb, ipv4_endsInANumber a,
      ipv4_roundtrip a ha, Option.map_some]

/-- an opaque host that is already encoded re-parses to itself -/
theorem opaque_host_fixed (idna : Idna) (o : Bytes) (hne : o ≠ []) (h5b : o.head? ≠ some 0x5B)
    (hforb : (percentEncode inC0 o).any isForbiddenHost = false) :
    hostParse idna (Host.serialize (.opaqueHost (percentEncode inC0 o))) true = some (.opaqueHost (percentEncode inC0 o)) := by
  have hidem : percentEncode inC0 (percentEncode inC0 o) = percentEncode inC0 o :=
    percentEncode_idem inC0 (by decide) (by apply forall_uint8_of_fin; decide +kernel) o
  simp only [Host.serialize]
  unfold hostParse
  split
  · rename_i rest heq
    -- an encoded host starting with '[' came from a host starting with '[' ('[' is not in the C0 set)
    exfalso
    cases o with
    | nil => exact hne rfl
    | cons c t =>
      have hc : c ≠ 0x5B := by simpa using h5b
      simp only [percentEncode, List.flatMap_cons] at heq
      split at heq
      · simp [pctByte] at heq
      · simp at heq; exact hc heq.1
  · simp [opaqueHostParse, hforb, hidem]

end AdaVerif.Lemmas

import AdaVerif.Model.Agg
namespace AdaVerif.Lemmas.AggL
open AdaVerif AdaVerif.Model.Agg

/-! ### segment calculus for the std::string primitives -/
theorem take_len (A B : Bytes) : (A ++ B).take A.length = A := List.take_left' rfl
theorem drop_len (A B : Bytes) : (A ++ B).drop A.length = B := List.drop_left' rfl
theorem drop_len_add (A B : Bytes) (n : Nat) : (A ++ B).drop (A.length + n) = B.drop n := by
  rw [← List.drop_drop, drop_len]
theorem take_len_add (A B : Bytes) (n : Nat) : (A ++ B).take (A.length + n) = A ++ B.take n := by
  rw [List.take_append, List.take_of_length_le (by omega), Nat.add_sub_cancel_left]

theorem sinsert_at {A B x : Bytes} {i : Nat} (h : i = A.length) : sinsert (A ++ B) i x = A ++ x ++ B := by
  subst h; simp [sinsert, take_len, drop_len]

theorem serase_at {A M B : Bytes} {i n : Nat} (hi : i = A.length) (hn : n = M.length) :
    serase (A ++ (M ++ B)) i n = A ++ B := by
  subst hi; subst hn; simp only [serase, take_len, drop_len_add, drop_len]

theorem sresize_at {A B : Bytes} {n : Nat} (h : n = A.length) : sresize (A ++ B) n = A := by
  subst h; simp [sresize, take_len]

theorem at_at {A B : Bytes} {i : Nat} (h : i = A.length) : at_ (A ++ B) i = B.headD 0 := by
  subst h; cases B <;> simp [at_, List.getD_eq_getElem?_getD]

theorem replaceAndResize_at {A M B x : Bytes} {start stop : Nat} (hs : start = A.length) (he : stop = A.length + M.length) :
    replaceAndResize (A ++ (M ++ B)) start stop x = (A ++ (x ++ B), (x.length : Int) - (M.length : Int)) := by
  subst hs; subst he
  unfold replaceAndResize
  simp only [Nat.add_sub_cancel_left]
  refine Prod.ext ?_ rfl
  simp only
  by_cases h0 : M.length = 0
  · have : M = [] := List.eq_nil_of_length_eq_zero h0
    subst this; simp [sinsert, take_len, drop_len]
  · have h0' : (M.length == 0) = false := by simpa using h0
    simp only [h0', Bool.false_eq_true, ↓reduceIte]
    by_cases h1 : x.length = M.length
    · have h1' : (x.length == M.length) = true := by simpa using h1
      simp only [h1', ↓reduceIte]
      rw [take_len, h1, drop_len_add, drop_len, List.append_assoc]
    · have h1' : (x.length == M.length) = false := by simpa using h1
      simp only [h1', Bool.false_eq_true, ↓reduceIte]
      by_cases h2 : x.length < M.length
      · simp only [h2, ↓reduceIte]
        -- erase the first (M.length - x.length) bytes of M, then overwrite
        have hM : M = M.take (M.length - x.length) ++ M.drop (M.length - x.length) := (List.take_append_drop _ _).symm
        have e1 : serase (A ++ (M ++ B)) A.length (M.length - x.length) = A ++ (M.drop (M.length - x.length) ++ B) := by
          conv => lhs; rw [hM]
          rw [List.append_assoc (M.take _)]
          exact serase_at rfl (by simp <;> omega)
        rw [e1, take_len]
        have hl : (M.drop (M.length - x.length)).length = x.length := by simp; omega
        have e2 := drop_len (M.drop (M.length - x.length)) B
        rw [hl] at e2
        rw [drop_len_add, e2, List.append_assoc]
      · simp only [h2, ↓reduceIte]
        have hx : x = x.take M.length ++ x.drop M.length := (List.take_append_drop _ _).symm
        have hl : (x.take M.length).length = M.length := by simp; omega
        rw [take_len, drop_len_add, drop_len]
        have : A ++ x.take M.length ++ B = (A ++ x.take M.length) ++ B := rfl
        rw [sinsert_at (A := A ++ x.take M.length) (B := B) (by simp; omega)]
        conv => rhs; rw [hx]
        simp [List.append_assoc]

/-- the wrap-around `uint32_t` computation `o += d` coincides with the integer one while everything
    stays below 2^32 -/
theorem shift_uint32 (o : Nat) (d : Int) (ho : o < 2 ^ 32) (h0 : 0 ≤ (o : Int) + d) (h1 : (o : Int) + d < 2 ^ 32) :
    (((o : Int) + d % 2 ^ 32) % 2 ^ 32).toNat = shift o d := by
  unfold shift
  have : ((o : Int) + d % 2 ^ 32) % 2 ^ 32 = (o : Int) + d := by
    rw [Int.add_emod, Int.emod_emod, ← Int.add_emod]
    exact Int.emod_eq_of_lt h0 h1
  rw [this]
end AdaVerif.Lemmas.AggL

namespace AdaVerif.Lemmas.AggL
open AdaVerif AdaVerif.Model.Agg

/-- all four branches of `replace_and_resize` compute "prefix ++ input ++ suffix" -/
theorem replaceAndResize_eq (b x : Bytes) (start stop : Nat) (h1 : start ≤ stop) (h2 : stop ≤ b.length) :
    replaceAndResize b start stop x = (b.take start ++ (x ++ b.drop stop), (x.length : Int) - ((stop - start : Nat) : Int)) := by
  have hb : b = b.take start ++ ((b.drop start).take (stop - start) ++ b.drop stop) := by
    conv => lhs; rw [← List.take_append_drop start b]
    congr 1
    conv => lhs; rw [← List.take_append_drop (stop - start) (b.drop start)]
    congr 1
    rw [List.drop_drop]; congr 1; omega
  have hl1 : (b.take start).length = start := by simp; omega
  have hl2 : ((b.drop start).take (stop - start)).length = stop - start := by simp; omega
  have := replaceAndResize_at (A := b.take start) (M := (b.drop start).take (stop - start)) (B := b.drop stop) (x := x)
    (start := start) (stop := stop) hl1.symm (by rw [hl1, hl2]; omega)
  rw [← hb, hl2] at this
  exact this
end AdaVerif.Lemmas.AggL

namespace AdaVerif.Lemmas.AggL
open AdaVerif AdaVerif.Model.Agg

/-! the same calculus with the buffer and the indices given up to provable equality -/
theorem sinsert_eq {b A B x : Bytes} {i : Nat} (hb : b = A ++ B) (hi : i = A.length) : sinsert b i x = A ++ (x ++ B) := by
  subst hb; rw [sinsert_at hi, List.append_assoc]
theorem serase_eq {b A M B : Bytes} {i n : Nat} (hb : b = A ++ (M ++ B)) (hi : i = A.length) (hn : n = M.length) :
    serase b i n = A ++ B := by subst hb; exact serase_at hi hn
theorem sresize_eq {b A B : Bytes} {n : Nat} (hb : b = A ++ B) (h : n = A.length) : sresize b n = A := by
  subst hb; exact sresize_at h
theorem at_eq {b A B : Bytes} {i : Nat} (hb : b = A ++ B) (hi : i = A.length) : at_ b i = B.headD 0 := by
  subst hb; exact at_at hi
theorem rr_eq {b A M B x : Bytes} {start stop : Nat} (hb : b = A ++ (M ++ B)) (hs : start = A.length)
    (he : stop = A.length + M.length) :
    replaceAndResize b start stop x = (A ++ (x ++ B), (x.length : Int) - (M.length : Int)) := by
  subst hb; exact replaceAndResize_at hs he
end AdaVerif.Lemmas.AggL

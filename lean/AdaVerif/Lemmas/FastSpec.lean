import AdaVerif.Lemmas.FixedPoint
import AdaVerif.Lemmas.HostCanon
/-
C08, Spec side: when does the basic URL parser accept an absolute special (non-file) URL whose authority has no
credentials?  `parse_special_abs` reduces success of the whole parse to success of the host and port states on
the authority text; `hostParse_ascii` and `parsePort_decision` decide those for the inputs the fast scanner
answers definitely.
-/
namespace AdaVerif.Lemmas.FS
open AdaVerif AdaVerif.Spec AdaVerif.Lemmas AdaVerif.Lemmas.FP

/-! ### cuts in front of a clean prefix -/
theorem cutAt_append_notin (c : UInt8) (p r : Bytes) (h : c ∉ p) :
    cutAt c (p ++ r) = (p ++ (cutAt c r).1, (cutAt c r).2) := by
  induction p with
  | nil => simp
  | cons b t ih =>
    have hb : (b == c) = false := by
      have : b ≠ c := fun e => h (by simp [e])
      simpa using this
    simp only [List.cons_append, cutAt, hb, Bool.false_eq_true, ↓reduceIte]
    rw [ih (fun hm => h (by simp [hm]))]

/-- the part before the cut is empty or keeps the head, which is not the separator -/
theorem cutAt_fst_head (c : UInt8) (r : Bytes) :
    (cutAt c r).1 = [] ∨ ((cutAt c r).1.head? = r.head? ∧ r.head? ≠ some c) := by
  cases r with
  | nil => left; rfl
  | cons b t =>
    simp only [cutAt]
    split
    · left; rfl
    · rename_i hb
      right
      have : b ≠ c := by simpa using hb
      simp [this]

/-! ### the scheme with any letter case -/
theorem takeScheme_raw (raw rest : Bytes) (c : UInt8) (t : Bytes) (hraw : raw = c :: t) (hc : isAsciiAlpha c = true)
    (hall : ∀ x ∈ raw, isSchemeChar x = true) :
    takeScheme (raw ++ 0x3A :: rest) = some (raw.map toLowerByte, rest) := by
  subst hraw
  have htw : ((c :: t) ++ 0x3A :: rest).takeWhile isSchemeChar = c :: t :=
    takeWhile_append_stop _ _ _ _ hall (by decide)
  unfold takeScheme
  simp only [List.cons_append, hc, Bool.not_true, Bool.false_eq_true, ↓reduceIte]
  rw [show c :: (t ++ 0x3A :: rest) = (c :: t) ++ 0x3A :: rest from rfl, htw]
  simp

def isSlash (b : UInt8) : Bool := b == 0x2F || b == 0x5C

theorem skipSlashes_all (sl a r : Bytes) (hsl : ∀ b ∈ sl, isSlash b = true)
    (ha : ∀ b, (a ++ r).head? = some b → isSlash b = false) :
    skipSlashes (sl ++ (a ++ r)) = a ++ r := by
  unfold skipSlashes
  induction sl with
  | nil =>
    simp only [List.nil_append]
    cases hx : a ++ r with
    | nil => rfl
    | cons b t =>
      have := ha b (by rw [hx]; rfl)
      simp only [isSlash] at this
      simp [List.dropWhile_cons, this]
  | cons b t ih =>
    have hb := hsl b (by simp)
    simp only [isSlash] at hb
    simp only [List.cons_append, List.dropWhile_cons, hb, ↓reduceIte]
    exact ih (fun x hx => hsl x (by simp [hx]))

theorem authorityEnd_special (a r : Bytes) (ha : ∀ b ∈ a, isSlash b = false)
    (hr : ∀ b, r.head? = some b → isSlash b = true) : authorityEnd true (a ++ r) = a.length := by
  unfold authorityEnd
  have hall : ∀ x ∈ a, (!(x == 0x2F || (true && x == 0x5C))) = true := by
    intro x hx
    have := ha x hx
    simp only [isSlash] at this
    simp [this]
  cases r with
  | nil => rw [List.append_nil, takeWhile_all _ a hall]
  | cons c t =>
    have := hr c rfl
    simp only [isSlash] at this
    rw [takeWhile_append_stop _ a c t hall (by simp [this])]

theorem schemeChar_facts : ∀ b : UInt8, isSchemeChar b = true → b ≠ 0x3F ∧ b ≠ 0x23 ∧ isTabOrNewline b = false := by
  apply forall_uint8_of_fin; decide +kernel
theorem slash_facts : ∀ b : UInt8, isSlash b = true → b ≠ 0x3F ∧ b ≠ 0x23 ∧ isTabOrNewline b = false := by
  apply forall_uint8_of_fin; decide +kernel

/-- the head of what is left of `rest` after the fragment and query cuts -/
theorem cuts_head (rest : Bytes) :
    let r2 := (cutAt 0x3F (cutAt 0x23 rest).1).1
    r2 = [] ∨ (r2.head? = rest.head? ∧ rest.head? ≠ some 0x3F ∧ rest.head? ≠ some 0x23) := by
  simp only
  rcases cutAt_fst_head 0x23 rest with h1 | h1
  · left; rw [h1]; rfl
  · rcases cutAt_fst_head 0x3F (cutAt 0x23 rest).1 with h2 | h2
    · left; exact h2
    · right
      rw [h1.1] at h2
      exact ⟨h2.1, h2.2, h1.2⟩

/-- success of parsing an absolute special non-file URL without credentials is success of the host and port states -/
theorem parse_special_abs (idna : Idna) (input raw sl auth rest : Bytes) (c : UInt8) (tl : Bytes)
    (hs : preprocess input = raw ++ 0x3A :: 0x2F :: 0x2F :: (sl ++ (auth ++ rest)))
    (hraw : raw = c :: tl) (hc : isAsciiAlpha c = true) (hall : ∀ x ∈ raw, isSchemeChar x = true)
    (hsp : isSpecialScheme (raw.map toLowerByte) = true) (hnf : raw.map toLowerByte ≠ bFile)
    (hsl : ∀ b ∈ sl, isSlash b = true)
    (hauth : ∀ b ∈ auth, isSlash b = false ∧ b ≠ 0x3F ∧ b ≠ 0x23 ∧ b ≠ 0x40)
    (hrest : ∀ b, rest.head? = some b → isSlash b = true ∨ b = 0x3F ∨ b = 0x23)
    (hempty : auth = [] → ∀ b, rest.head? = some b → isSlash b = false) :
    (parse idna input none).isSome = (parseHostPort idna (raw.map toLowerByte) auth).isSome := by
  -- the text before `rest` contains neither '#' nor '?'
  have hP : ∀ b ∈ raw ++ 0x3A :: 0x2F :: 0x2F :: (sl ++ auth), b ≠ 0x3F ∧ b ≠ 0x23 := by
    intro b hb
    simp only [List.mem_append, List.mem_cons] at hb
    rcases hb with hb | rfl | rfl | rfl | hb | hb
    · exact ⟨(schemeChar_facts b (hall b hb)).1, (schemeChar_facts b (hall b hb)).2.1⟩
    · decide
    · decide
    · decide
    · exact ⟨(slash_facts b (hsl b hb)).1, (slash_facts b (hsl b hb)).2.1⟩
    · exact ⟨(hauth b hb).2.1, (hauth b hb).2.2.1⟩
  have hs' : preprocess input = (raw ++ 0x3A :: 0x2F :: 0x2F :: (sl ++ auth)) ++ rest := by
    rw [hs]; simp [List.append_assoc]
  have hc1 := cutAt_append_notin 0x23 _ rest (fun hm => (hP _ hm).2 rfl)
  have hc2 := cutAt_append_notin 0x3F _ (cutAt 0x23 rest).1 (fun hm => (hP _ hm).1 rfl)
  have hr2 := cuts_head rest
  simp only at hr2
  generalize hr2def : (cutAt 0x3F (cutAt 0x23 rest).1).1 = r2 at hr2 hc2
  -- the remainder after both cuts begins with a slash (or is empty)
  have hr2slash : ∀ b, r2.head? = some b → isSlash b = true := by
    intro b hb
    rcases hr2 with h | h
    · rw [h] at hb; cases hb
    · rw [h.1] at hb
      rcases hrest b hb with h1 | h1 | h1
      · exact h1
      · subst h1; exact absurd hb h.2.1
      · subst h1; exact absurd hb h.2.2
  have hhead : ∀ b, (auth ++ r2).head? = some b → isSlash b = false := by
    intro b hb
    cases auth with
    | nil =>
      simp only [List.nil_append] at hb
      rcases hr2 with h | h
      · rw [h] at hb; cases hb
      · rw [h.1] at hb; exact hempty rfl b hb
    | cons a t =>
      simp only [List.cons_append, List.head?_cons, Option.some.injEq] at hb
      subst hb; exact (hauth a (by simp)).1
  have hts := takeScheme_raw raw (0x2F :: 0x2F :: (sl ++ (auth ++ r2))) c tl hraw hc hall
  have hfb : (raw.map toLowerByte == bFile) = false := by simpa using hnf
  have hskip := skipSlashes_all (0x2F :: 0x2F :: sl) auth r2 (by
    intro b hb
    simp only [List.mem_cons] at hb
    rcases hb with rfl | rfl | hb
    · decide
    · decide
    · exact hsl b hb) hhead
  have hae := authorityEnd_special auth r2 (fun b hb => (hauth b hb).1) hr2slash
  have hnoat : (0x40 : UInt8) ∉ auth := fun hm => (hauth _ hm).2.2.2 rfl
  unfold parse
  simp only [hs', hc1, hc2]
  have hpre : raw ++ 0x3A :: 0x2F :: 0x2F :: (sl ++ auth) ++ r2 = raw ++ 0x3A :: (0x2F :: 0x2F :: (sl ++ (auth ++ r2))) := by
    simp [List.append_assoc]
  rw [hpre]
  unfold parseCore
  simp only [hts, hfb, hsp, Bool.false_eq_true, ↓reduceIte]
  have e3 : (0x2F : UInt8) :: 0x2F :: (sl ++ (auth ++ r2)) = (0x2F :: 0x2F :: sl) ++ (auth ++ r2) := rfl
  rw [e3, hskip]
  unfold fromAuthority
  simp only [hsp, hae, List.take_left', List.drop_left']
  unfold parseAuthority
  simp only [splitCredentials_none auth hnoat, Option.isSome_none, Bool.false_and, Bool.false_eq_true, ↓reduceIte]
  cases parseHostPort idna (raw.map toLowerByte) auth with
  | none => rfl
  | some hp => simp

/-! ### the host and port states on clean ASCII text -/
structure HostText (host : Bytes) : Prop where
  ne : host ≠ []
  ascii : ∀ b ∈ host, b.toNat < 0x80
  clean : ∀ b ∈ host, isForbiddenDomain b = false
  noxn : (splitOn 0x2E host).any startsWithXn = false

theorem lower_forbidden : ∀ b : UInt8, isForbiddenDomain (toLowerByte b) = isForbiddenDomain b := by
  apply forall_uint8_of_fin; decide +kernel

theorem hostParse_ascii (idna : Idna) (host : Bytes) (h : HostText host) :
    hostParse idna host false =
      (if endsInANumber (host.map toLowerByte) then (ipv4Parse (host.map toLowerByte)).map Host.ipv4
       else some (.domain (host.map toLowerByte))) := by
  have hf := fun b hx => forbDomain_facts b (h.clean b hx) (h.ascii b hx)
  have hpd : percentDecode host = host := percentDecode_no_pct _ (fun b hx => (hf b hx).2.2.2.2.1)
  have hasc : isAsciiBytes host = true := by
    simp only [isAsciiBytes, List.all_eq_true, decide_eq_true_eq]; exact h.ascii
  have hlne : host.map toLowerByte ≠ [] := by
    intro e; exact h.ne (List.map_eq_nil_iff.mp e)
  have hda : domainToAscii idna host = some (host.map toLowerByte) := by
    unfold domainToAscii
    simp only [hasc, h.noxn, Bool.not_false, Bool.and_self, ↓reduceIte]
    cases hm : host.map toLowerByte with
    | nil => exact absurd hm hlne
    | cons => rfl
  have hforb : (host.map toLowerByte).any isForbiddenDomain = false := by
    simp only [List.any_map, List.any_eq_false, Function.comp]
    intro b hb
    rw [lower_forbidden]; simp [h.clean b hb]
  unfold hostParse
  split
  · rename_i rest heq
    have := (hf 0x5B (by simp)).2.2.1
    exact absurd rfl this
  · simp only [Bool.false_eq_true, ↓reduceIte, hpd, hda, hforb]

theorem parsePort_isSome (scheme port : Bytes) :
    (parsePort scheme port).isSome = (port.all isAsciiDigit && (port.isEmpty || decide (parseRadix 10 port ≤ 65535))) := by
  unfold parsePort
  by_cases h1 : port.all isAsciiDigit = true
  · by_cases h2 : port.isEmpty = true
    · simp [h1, h2]
    · by_cases h3 : parseRadix 10 port > 65535
      · have : ¬ parseRadix 10 port ≤ 65535 := by omega
        simp [h1, h2, h3, this]
      · have : parseRadix 10 port ≤ 65535 := by omega
        have h2' : port.isEmpty = false := by simpa using h2
        simp only [h1, h2', h3, Bool.not_true, Bool.false_eq_true, ↓reduceIte, Bool.false_or, Bool.true_and, this, decide_true]
        split <;> rfl
  · simp [h1]

theorem isEmpty_false_of_ne {α} {l : List α} (h : l ≠ []) : l.isEmpty = false := by
  cases l with
  | nil => exact absurd rfl h
  | cons => rfl

theorem parseHostPort_nocolon (idna : Idna) (scheme host : Bytes) (hs : isSpecialScheme scheme = true)
    (hb : ∀ b ∈ host, b ≠ 0x3A ∧ b ≠ 0x5B ∧ b ≠ 0x5D) :
    (parseHostPort idna scheme host).isSome = (!host.isEmpty && (hostParse idna host false).isSome) := by
  have he := hostEnd_plain host [] hb (Or.inl rfl)
  rw [List.append_nil] at he
  unfold parseHostPort
  simp only [he, Nat.lt_irrefl, ↓reduceIte, hs, Bool.not_true]
  cases host with
  | nil => rfl
  | cons c t =>
    simp only [List.isEmpty_cons, Bool.false_eq_true, ↓reduceIte, Bool.not_false, Bool.true_and]
    cases hostParse idna (c :: t) false <;> rfl

theorem parseHostPort_colon (idna : Idna) (scheme host port : Bytes) (hs : isSpecialScheme scheme = true)
    (hb : ∀ b ∈ host, b ≠ 0x3A ∧ b ≠ 0x5B ∧ b ≠ 0x5D) :
    (parseHostPort idna scheme (host ++ 0x3A :: port)).isSome =
      (!host.isEmpty && (hostParse idna host false).isSome && (parsePort scheme port).isSome) := by
  have he := hostEnd_plain host (0x3A :: port) hb (Or.inr rfl)
  have hlt : host.length < (host ++ 0x3A :: port).length := by simp
  have hd : (host ++ 0x3A :: port).drop (host.length + 1) = port := by
    rw [show host ++ 0x3A :: port = (host ++ [0x3A]) ++ port by simp]
    exact List.drop_left' (by simp)
  unfold parseHostPort
  simp only [he, hlt, ↓reduceIte, List.take_left', hd, hs, Bool.not_true]
  cases host with
  | nil => rfl
  | cons c t =>
    simp only [List.isEmpty_cons, Bool.false_eq_true, ↓reduceIte, Bool.not_false, Bool.true_and]
    cases hostParse idna (c :: t) false with
    | none => rfl
    | some h => cases parsePort scheme port <;> rfl

end AdaVerif.Lemmas.FS

import AdaVerif.Lemmas.Agg
import AdaVerif.Model.AggLayout
/-
Every editor of the single buffer commutes with `layout`: editing the laid-out buffer in place
(insert / erase / resize plus offset arithmetic) gives exactly the layout of the edited content.
-/
namespace AdaVerif.Lemmas.AggL
open AdaVerif AdaVerif.Model.Agg

/-! peeling lemmas: with buffers as right-nested appends and indices as right-nested sums of segment
    lengths, `simp` walks `take`/`drop`/`at_` through the segments -/
theorem take_peel (A B : Bytes) (n : Nat) : (A ++ B).take (A.length + n) = A ++ B.take n := take_len_add A B n
theorem drop_peel (A B : Bytes) (n : Nat) : (A ++ B).drop (A.length + n) = B.drop n := drop_len_add A B n
theorem take_peel0 (A B : Bytes) : (A ++ B).take A.length = A := take_len A B
theorem drop_peel0 (A B : Bytes) : (A ++ B).drop A.length = B := drop_len A B
theorem at_peel (A B : Bytes) (n : Nat) : at_ (A ++ B) (A.length + n) = at_ B n := by
  simp [at_, List.getD_eq_getElem?_getD, List.getElem?_append_right]
theorem at_peel0 (A B : Bytes) : at_ (A ++ B) A.length = at_ B 0 := by
  simpa using at_peel A B 0
@[simp] theorem at_cons_zero (a : UInt8) (l : Bytes) : at_ (a :: l) 0 = a := rfl
@[simp] theorem at_cons_succ (a : UInt8) (l : Bytes) (n : Nat) : at_ (a :: l) (n + 1) = at_ l n := rfl
@[simp] theorem at_nil (n : Nat) : at_ [] n = 0 := by simp [at_]
theorem at_zero (l : Bytes) : at_ l 0 = l.headD 0 := by cases l <;> simp [at_]

macro "agg_simp" "[" ts:Lean.Parser.Tactic.simpLemma,* "]" : tactic =>
  `(tactic| simp [layout, sinsert, serase, sresize, take_peel, drop_peel, take_peel0, drop_peel0, at_peel, at_peel0,
      Nat.add_assoc, List.append_assoc, shift, shiftO, $ts,*])

/-! ### query and fragment -/
theorem clearHash_layout (l : L) : clearHash (layout l) = layout { l with frag := none } := by
  cases hf : l.frag <;> agg_simp [clearHash, hf, fragS]

theorem updateBaseHash_layout (l : L) (x : Bytes) : updateBaseHash (layout l) x = layout { l with frag := some x } := by
  cases hf : l.frag <;> agg_simp [updateBaseHash, hf, fragS]

theorem clearSearch_layout (l : L) : clearSearch (layout l) = layout { l with query := none } := by
  cases hf : l.frag <;> cases hq : l.query <;> agg_simp [clearSearch, hq, hf, fragS, queryS]

theorem updateBaseSearch_layout (l : L) (x : Bytes) :
    updateBaseSearch (layout l) x = layout { l with query := some x } := by
  cases hf : l.frag <;> cases hq : l.query <;> agg_simp [updateBaseSearch, hq, hf, fragS, queryS]

/-! ### port -/
theorem clearPort_layout (l : L) (hdd : l.dashdot = false) : clearPort (layout l) = layout { l with port := none } := by
  cases hp : l.port <;> cases hf : l.frag <;> cases hq : l.query <;>
    agg_simp [clearPort, hp, hq, hf, hdd, portS, ddS, fragS, queryS] <;> omega

theorem updateBasePort_layout (l : L) (p : Nat) (digits : Bytes) (hdd : l.dashdot = false) :
    updateBasePort (layout l) p digits = layout { l with port := some (p, digits) } := by
  cases hp : l.port <;> cases hf : l.frag <;> cases hq : l.query <;>
    agg_simp [updateBasePort, hp, hq, hf, hdd, portS, ddS, fragS, queryS] <;> omega

end AdaVerif.Lemmas.AggL

namespace AdaVerif.Lemmas.AggL
open AdaVerif AdaVerif.Model.Agg

/-! ### authority -/

/-- without "//" there are no credentials (nothing sits between the scheme and the host start) -/
def NoAuthNoCred (l : L) : Prop := l.auth = false → l.user = [] ∧ l.pass = []

theorem hasAuthority_layout (l : L) (h : NoAuthNoCred l) : hasAuthority (layout l) = l.auth := by
  cases ha : l.auth
  · obtain ⟨hu, hp⟩ := h ha
    agg_simp [hasAuthority, ha, hu, hp, authS, passS]
    omega
  · agg_simp [hasAuthority, ha, authS]

theorem addAuthoritySlashes_layout (l : L) (h : NoAuthNoCred l) :
    addAuthoritySlashes (layout l) = layout { l with auth := true } := by
  unfold addAuthoritySlashes
  rw [hasAuthority_layout l h]
  cases ha : l.auth
  · cases hf : l.frag <;> cases hq : l.query <;>
      agg_simp [ha, hq, hf, authS, fragS, queryS] <;> omega
  · have : ({ l with auth := true } : L) = l := by cases l; simp_all
    simp [this]

end AdaVerif.Lemmas.AggL

namespace AdaVerif.Lemmas.AggL
open AdaVerif AdaVerif.Model.Agg

theorem atS_of_empty {u p : Bytes} (hu : u = []) (hp : p = []) : atS u p = [] := by simp [atS, hu, hp]
theorem atS_of_cred {u p : Bytes} (h : ¬(u = [] ∧ p = [])) : atS u p = [0x40] := by
  cases u <;> cases p <;> simp_all [atS]
theorem cred_len {u p : Bytes} (h : ¬(u = [] ∧ p = [])) : 0 < u.length + (passS p).length := by
  cases u <;> cases p <;> simp_all [passS] <;> omega

theorem replaceAndResize_peel (P M B x : Bytes) :
    replaceAndResize (P ++ (M ++ B)) P.length (P.length + M.length) x = (P ++ (x ++ B), (x.length : Int) - (M.length : Int)) :=
  replaceAndResize_at rfl rfl

theorem authS_true_len : (authS true).length = 2 := rfl

/-- `update_base_hostname`: the region [host_start, host_end) (which contains the '@') is replaced and
    the '@' re-inserted -/
theorem updateBaseHostname_layout (l : L) (x : Bytes) (h : NoAuthNoCred l) :
    updateBaseHostname (layout l) x = layout { l with auth := true, host := x } := by
  unfold updateBaseHostname
  rw [addAuthoritySlashes_layout l h]
  -- the buffer as P ++ (M ++ B) with M = atS ++ host
  have hb : (layout { l with auth := true }).buf =
      (l.scheme ++ authS true ++ l.user ++ passS l.pass) ++ ((atS l.user l.pass ++ l.host) ++
        (portS l.port ++ ddS l.dashdot ++ l.path ++ queryS l.query ++ fragS l.frag)) := by
    simp [layout, List.append_assoc]
  have hs : (layout { l with auth := true }).hs = (l.scheme ++ authS true ++ l.user ++ passS l.pass).length := by
    simp [layout]; omega
  have he : (layout { l with auth := true }).he =
      (l.scheme ++ authS true ++ l.user ++ passS l.pass).length + (atS l.user l.pass ++ l.host).length := by
    simp [layout]; omega
  by_cases hc : l.user = [] ∧ l.pass = []
  · obtain ⟨hu, hp⟩ := hc
    have hcred : ¬((layout { l with auth := true }).pe + 2 < (l.scheme ++ authS true ++ l.user ++ passS l.pass).length) := by
      simp [layout, hu, hp, passS, authS_true_len]
    simp only [hb, hs, he, replaceAndResize_peel, hcred, ↓reduceIte]
    clear hb hs he hcred
    cases hf : l.frag <;> cases hq : l.query <;>
      agg_simp [hu, hp, hq, hf, atS, passS, fragS, queryS] <;> omega
  · have hat := atS_of_cred hc
    have hlen := cred_len hc
    have hcred : (layout { l with auth := true }).pe + 2 < (l.scheme ++ authS true ++ l.user ++ passS l.pass).length := by
      simp [layout, authS_true_len]; omega
    simp only [hb, hs, he, replaceAndResize_peel, hcred, ↓reduceIte]
    clear hb hs he hcred
    cases hf : l.frag <;> cases hq : l.query <;>
      agg_simp [hat, hq, hf, fragS, queryS] <;> first | omega | trace_state

end AdaVerif.Lemmas.AggL

namespace AdaVerif.Lemmas.AggL
open AdaVerif AdaVerif.Model.Agg

/-- the byte that follows the credentials is not '@' unless it is the credentials' own delimiter:
    host, port, path, query and fragment cannot begin with '@' in this position -/
def TailNoAt (l : L) : Prop :=
  (l.host ++ (portS l.port ++ (ddS l.dashdot ++ (l.path ++ (queryS l.query ++ fragS l.frag))))).headD 0 ≠ 0x40

theorem passS_nil : passS [] = [] := rfl
theorem passS_len_pos {p : Bytes} (h : p ≠ []) : 0 < (passS p).length := by cases p <;> simp_all [passS]
theorem passS_head {p : Bytes} (h : p ≠ []) : passS p = 0x3A :: p := by cases p <;> simp_all [passS]

/-- what follows the credentials -/
def tailS (l : L) : Bytes := l.host ++ (portS l.port ++ (ddS l.dashdot ++ (l.path ++ (queryS l.query ++ fragS l.frag))))

theorem buf_split (l : L) : (layout l).buf = (l.scheme ++ authS l.auth) ++ (l.user ++ (passS l.pass ++ (atS l.user l.pass ++ tailS l))) := by
  simp [layout, tailS, List.append_assoc]

/-- an `Agg` is determined by its fields -/
theorem agg_ext {a b : Agg} (h1 : a.buf = b.buf) (h2 : a.pe = b.pe) (h3 : a.ue = b.ue) (h4 : a.hs = b.hs) (h5 : a.he = b.he)
    (h6 : a.port = b.port) (h7 : a.ps = b.ps) (h8 : a.ss = b.ss) (h9 : a.hh = b.hh) (h10 : a.opq = b.opq) : a = b := by
  cases a; cases b; simp_all

theorem addAuthoritySlashes_auth (l : L) (ha : l.auth = true) : addAuthoritySlashes (layout l) = layout l := by
  unfold addAuthoritySlashes
  have : hasAuthority (layout l) = true := by
    rw [hasAuthority_layout l (fun h => by simp [ha] at h), ha]
  simp [this]

theorem hs_eq (l : L) : (layout l).hs = (l.scheme ++ authS l.auth ++ (l.user ++ passS l.pass)).length := by
  simp [layout]; omega
theorem ue_eq (l : L) : (layout l).ue = (l.scheme ++ authS l.auth ++ l.user).length := by
  simp [layout]; omega

theorem hostAt_layout (l : L) (hna : TailNoAt l) :
    (decide ((layout l).buf.length > (layout l).hs) && at_ (layout l).buf (layout l).hs == 0x40) =
      !(l.user.isEmpty && l.pass.isEmpty) := by
  have hat : at_ (layout l).buf (layout l).hs = (atS l.user l.pass ++ tailS l).headD 0 := by
    rw [buf_split, hs_eq]
    have : l.scheme ++ authS l.auth ++ (l.user ++ (passS l.pass ++ (atS l.user l.pass ++ tailS l))) =
        (l.scheme ++ authS l.auth ++ (l.user ++ passS l.pass)) ++ (atS l.user l.pass ++ tailS l) := by simp [List.append_assoc]
    rw [this]; exact at_at rfl
  rw [hat]
  by_cases hc : l.user = [] ∧ l.pass = []
  · obtain ⟨hu, hp⟩ := hc
    have : (tailS l).headD 0 ≠ 0x40 := hna
    simp [atS, hu, hp]
    intro _
    simpa [List.headD_eq_head?_getD] using this
  · have h1 := atS_of_cred hc
    have hl : (layout l).buf.length > (layout l).hs := by
      rw [buf_split, hs_eq, h1]; simp
    have : (l.user.isEmpty && l.pass.isEmpty) = false := by
      cases hu : l.user <;> cases hp : l.pass <;> simp_all
    simp [h1, hl, this]

theorem hasNonEmptyPassword_layout (l : L) : hasNonEmptyPassword (layout l) = !l.pass.isEmpty := by
  cases hp : l.pass <;> simp [hasNonEmptyPassword, layout, hp, passS]

theorem hasPassword_layout (l : L) : hasPassword (layout l) = !l.pass.isEmpty := by
  cases hp : l.pass with
  | nil => simp [hasPassword, layout, hp, passS]
  | cons c r =>
    have hat : at_ (layout l).buf (layout l).ue = 0x3A := by
      rw [buf_split, ue_eq, hp]
      have : l.scheme ++ authS l.auth ++ (l.user ++ (passS (c :: r) ++ (atS l.user (c :: r) ++ tailS l))) =
          (l.scheme ++ authS l.auth ++ l.user) ++ (passS (c :: r) ++ (atS l.user (c :: r) ++ tailS l)) := by
        simp [List.append_assoc]
      rw [this, at_at rfl]; simp [passS]
    simp [hasPassword, hat]
    simp [layout, hp, passS]

theorem hasNonEmptyUsername_layout (l : L) (ha : l.auth = true) : hasNonEmptyUsername (layout l) = !l.user.isEmpty := by
  cases hu : l.user <;> simp [hasNonEmptyUsername, layout, ha, hu, authS_true_len]

end AdaVerif.Lemmas.AggL

namespace AdaVerif.Lemmas.AggL
open AdaVerif AdaVerif.Model.Agg

macro "close_agg" "[" ts:Lean.Parser.Tactic.simpLemma,* "]" : tactic =>
  `(tactic| (apply agg_ext <;> simp [layout, shift, shiftO, tailS, queryS, fragS, List.append_assoc, $ts,*] <;> omega))

theorem isEmpty_false {x : Bytes} (h : x.isEmpty = false) : x ≠ [] := by cases x <;> simp_all
theorem isEmpty_true {x : Bytes} (h : x.isEmpty = true) : x = [] := by cases x <;> simp_all

/-- `update_base_username` on a URL that already has its "//" -/
theorem updateBaseUsername_auth (l : L) (x : Bytes) (ha : l.auth = true) (hna : TailNoAt l) :
    updateBaseUsername (layout l) x = layout { l with user := x } := by
  unfold updateBaseUsername
  rw [addAuthoritySlashes_auth l ha]
  have hrr := rr_eq (x := x) (start := (layout l).pe + 2) (stop := (layout l).ue) (buf_split l)
    (by simp [layout, ha, authS_true_len]) (by simp [layout, ha])
  simp only [hrr, hostAt_layout l hna, hasNonEmptyPassword_layout]
  have hal := authS_true_len
  cases hx : x.isEmpty <;> cases hu : l.user.isEmpty <;> cases hp : l.pass.isEmpty <;>
    simp only [Bool.not_true, Bool.not_false, Bool.and_true, Bool.and_false, Bool.true_and, Bool.false_and,
      Bool.false_eq_true, ↓reduceIte]
  · -- x, user, pass non-empty
    have h1 : atS l.user l.pass = [0x40] := atS_of_cred (fun h => isEmpty_false hu h.1)
    have h2 : atS x l.pass = [0x40] := atS_of_cred (fun h => isEmpty_false hx h.1)
    cases hq : l.query <;> cases hf : l.frag <;> close_agg [h1, h2, hq, hf, ha]
  · have h1 : atS l.user l.pass = [0x40] := atS_of_cred (fun h => isEmpty_false hu h.1)
    have h2 : atS x l.pass = [0x40] := atS_of_cred (fun h => isEmpty_false hx h.1)
    cases hq : l.query <;> cases hf : l.frag <;> close_agg [h1, h2, hq, hf, ha]
  · have h1 : atS l.user l.pass = [0x40] := atS_of_cred (fun h => isEmpty_false hp h.2)
    have h2 : atS x l.pass = [0x40] := atS_of_cred (fun h => isEmpty_false hx h.1)
    cases hq : l.query <;> cases hf : l.frag <;> close_agg [h1, h2, hq, hf, ha]
  · -- the '@' is inserted
    have hu' := isEmpty_true hu
    have hp' := isEmpty_true hp
    have h2 : atS x [] = [0x40] := atS_of_cred (fun h => isEmpty_false hx h.1)
    have h3 : atS [] [] = ([] : Bytes) := rfl
    rw [sinsert_eq (A := l.scheme ++ authS l.auth ++ x) (B := tailS l) (by simp [hu', hp', h3, passS, List.append_assoc])
      (by simp [layout, shift, hu', hp', passS]; omega)]
    cases hq : l.query <;> cases hf : l.frag <;> close_agg [hu', hp', h2, h3, passS, hq, hf, ha]
  · -- x empty, user and password present: nothing but the user bytes go
    have hx' := isEmpty_true hx
    have h1 : atS l.user l.pass = [0x40] := atS_of_cred (fun h => isEmpty_false hu h.1)
    have h2 : atS [] l.pass = [0x40] := atS_of_cred (fun h => isEmpty_false hp h.2)
    cases hq : l.query <;> cases hf : l.frag <;> close_agg [hx', h1, h2, hq, hf, ha]
  · -- x empty, no password: the '@' is erased
    have hx' := isEmpty_true hx
    have hp' := isEmpty_true hp
    have h1 : atS l.user [] = [0x40] := atS_of_cred (fun h => isEmpty_false hu h.1)
    have h3 : atS [] [] = ([] : Bytes) := rfl
    rw [serase_eq (n := 1) (A := l.scheme ++ authS l.auth) (M := [0x40]) (B := tailS l) (by simp [hx', hp', h1, passS, List.append_assoc])
      (by simp [layout, shift, hx', hp', passS]; omega) rfl]
    cases hq : l.query <;> cases hf : l.frag <;> close_agg [hx', hp', h1, h3, passS, hq, hf, ha]
  · have hx' := isEmpty_true hx
    have hu' := isEmpty_true hu
    cases hq : l.query <;> cases hf : l.frag <;> close_agg [hx', hu', hq, hf, ha]
  · have hx' := isEmpty_true hx
    have hu' := isEmpty_true hu
    cases hq : l.query <;> cases hf : l.frag <;> close_agg [hx', hu', hq, hf, ha]

/-- `update_base_username` -/
theorem updateBaseUsername_layout (l : L) (x : Bytes) (h : NoAuthNoCred l) (hna : TailNoAt l) :
    updateBaseUsername (layout l) x = layout { l with auth := true, user := x } := by
  have h1 : updateBaseUsername (layout l) x = updateBaseUsername (layout { l with auth := true }) x := by
    unfold updateBaseUsername
    rw [addAuthoritySlashes_layout l h, addAuthoritySlashes_auth _ rfl]
  rw [h1]
  exact updateBaseUsername_auth { l with auth := true } x rfl hna

end AdaVerif.Lemmas.AggL

namespace AdaVerif.Lemmas.AggL
open AdaVerif AdaVerif.Model.Agg

/-! ### password -/

/-- `clear_password` removes ":password"; the '@' stays (a following `update_base_username("")` removes it) -/
theorem clearPassword_buf (l : L) :
    clearPassword (layout l) =
      if l.pass.isEmpty then layout l
      else { layout { l with pass := [] } with
             buf := l.scheme ++ authS l.auth ++ (l.user ++ ([0x40] ++ tailS l)),
             he := (layout { l with pass := [] }).he + (if l.user.isEmpty then 1 else 0),
             ps := (layout { l with pass := [] }).ps + (if l.user.isEmpty then 1 else 0),
             ss := shiftO (layout { l with pass := [] }).ss (if l.user.isEmpty then 1 else 0),
             hh := shiftO (layout { l with pass := [] }).hh (if l.user.isEmpty then 1 else 0) } := by
  unfold clearPassword
  rw [hasPassword_layout]
  cases hp : l.pass.isEmpty
  · have hp' := isEmpty_false hp
    have h1 : atS l.user l.pass = [0x40] := atS_of_cred (fun h => hp' h.2)
    simp only [Bool.not_false, Bool.not_true, Bool.false_eq_true, ↓reduceIte]
    rw [serase_eq (A := l.scheme ++ authS l.auth ++ l.user) (M := passS l.pass) (B := [0x40] ++ tailS l)
      (by rw [buf_split, h1]; simp [List.append_assoc]) (by simp [layout]; omega) (by simp [layout])]
    have h0 : passS [] = ([] : Bytes) := rfl
    cases hu : l.user.isEmpty
    · have h2 : atS l.user [] = [0x40] := atS_of_cred (fun h => isEmpty_false hu h.1)
      cases hq : l.query <;> cases hf : l.frag <;> close_agg [h0, h1, h2, hq, hf]
    · have hu' := isEmpty_true hu
      have h3 : atS [] [] = ([] : Bytes) := rfl
      have h4 : atS [] l.pass = [0x40] := atS_of_cred (fun h => hp' h.2)
      cases hq : l.query <;> cases hf : l.frag <;> close_agg [h0, h4, hu', h3, hq, hf]
  · simp

end AdaVerif.Lemmas.AggL

namespace AdaVerif.Lemmas.AggL
open AdaVerif AdaVerif.Model.Agg

/-- `update_base_password` with a non-empty password, on a URL that has its "//" -/
theorem updateBasePassword_auth (l : L) (x : Bytes) (hx : x ≠ []) (ha : l.auth = true) (hna : TailNoAt l) :
    updateBasePassword (layout l) x = layout { l with pass := x } := by
  unfold updateBasePassword
  rw [addAuthoritySlashes_auth l ha]
  have hxe : x.isEmpty = false := by cases x <;> simp_all
  have hal := authS_true_len
  have hT : (tailS l).headD 0 ≠ 0x40 := hna
  have h2 : atS l.user x = [0x40] := atS_of_cred (fun h => hx h.2)
  have hpx : passS x = 0x3A :: x := passS_head hx
  simp only [hxe, Bool.false_eq_true, ↓reduceIte, hasPassword_layout]
  cases hp : l.pass.isEmpty
  · -- a password exists: erase it, insert the new one; the '@' is there already
    have hp' := isEmpty_false hp
    have h1 : atS l.user l.pass = [0x40] := atS_of_cred (fun h => hp' h.2)
    have hpp : passS l.pass = 0x3A :: l.pass := passS_head hp'
    simp only [Bool.not_false, ↓reduceIte]
    rw [serase_eq (A := l.scheme ++ authS l.auth ++ l.user ++ [0x3A]) (M := l.pass) (B := [0x40] ++ tailS l)
      (by rw [buf_split, h1, hpp]; simp [List.append_assoc]) (by simp [layout]; omega) (by simp [layout, hpp])]
    rw [sinsert_eq (A := l.scheme ++ authS l.auth ++ l.user ++ [0x3A]) (B := [0x40] ++ tailS l) rfl (by simp [layout]; omega)]
    rw [at_eq (A := l.scheme ++ authS l.auth ++ l.user ++ [0x3A] ++ x) (B := [0x40] ++ tailS l) (by simp [List.append_assoc])
      (by simp [layout, shift, hpp]; omega)]
    simp only [List.cons_append, List.headD_cons, bne_self_eq_false, Bool.false_eq_true, ↓reduceIte]
    cases hq : l.query <;> cases hf : l.frag <;> close_agg [h1, h2, hpp, hpx, hq, hf]
  · -- no password yet: insert ':' and the password; the '@' is missing iff there is no user either
    have hp' := isEmpty_true hp
    have h0 : passS [] = ([] : Bytes) := rfl
    simp only [Bool.not_true, Bool.false_eq_true, ↓reduceIte]
    rw [sinsert_eq (b := (layout l).buf) (x := [0x3A]) (A := l.scheme ++ authS l.auth ++ l.user) (B := atS l.user [] ++ tailS l)
      (by rw [buf_split, hp', h0]; simp [List.append_assoc]) (by simp [layout]; omega)]
    rw [sinsert_eq (x := x) (A := l.scheme ++ authS l.auth ++ l.user ++ [0x3A]) (B := atS l.user [] ++ tailS l)
      (by simp [List.append_assoc]) (by simp [layout]; omega)]
    rw [at_eq (A := l.scheme ++ authS l.auth ++ l.user ++ [0x3A] ++ x) (B := atS l.user [] ++ tailS l) (by simp [List.append_assoc])
      (by simp [layout, shift, hp', h0]; omega)]
    cases hu : l.user.isEmpty
    · have h1 : atS l.user [] = [0x40] := atS_of_cred (fun h => isEmpty_false hu h.1)
      simp only [h1, List.cons_append, List.headD_cons, bne_self_eq_false, Bool.false_eq_true, ↓reduceIte]
      cases hq : l.query <;> cases hf : l.frag <;> close_agg [h1, h2, hp', h0, hpx, hq, hf]
    · have hu' := isEmpty_true hu
      have h3 : atS [] [] = ([] : Bytes) := rfl
      have hne : ((tailS l).headD 0 != 0x40) = true := by simpa using hT
      simp only [hu', h3, List.nil_append, hne, ↓reduceIte]
      rw [sinsert_eq (x := [0x40]) (A := l.scheme ++ authS l.auth ++ [] ++ [0x3A] ++ x) (B := tailS l)
        (by simp [List.append_assoc]) (by simp [layout, shift, hu', hp', h0]; omega)]
      have h2' : atS [] x = [0x40] := atS_of_cred (fun h => hx h.2)
      cases hq : l.query <;> cases hf : l.frag <;> close_agg [hu', h2', hp', h0, h3, hpx, hq, hf]

end AdaVerif.Lemmas.AggL

namespace AdaVerif.Lemmas.AggL
open AdaVerif AdaVerif.Model.Agg

/-- with a user name, clearing the password gives a proper layout at once -/
theorem clearPassword_user (l : L) (hu : l.user ≠ []) : clearPassword (layout l) = layout { l with pass := [] } := by
  rw [clearPassword_buf]
  cases hp : l.pass.isEmpty
  · have hue : l.user.isEmpty = false := by cases h : l.user <;> simp_all
    have h2 : atS l.user [] = [0x40] := atS_of_cred (fun h => hu h.1)
    have h0 : passS [] = ([] : Bytes) := rfl
    simp only [Bool.false_eq_true, ↓reduceIte, hue]
    cases hq : l.query <;> cases hf : l.frag <;> close_agg [h2, h0, hq, hf]
  · have hp' := isEmpty_true hp
    have : ({ l with pass := [] } : L) = l := by cases l; simp_all
    simp [this]

/-- without a user name the '@' is left behind for the moment: the transient state is the layout in
    which the '@' counts as the first byte of the host -/
theorem clearPassword_nouser (l : L) (hu : l.user = []) (hp : l.pass ≠ []) :
    clearPassword (layout l) = layout { l with pass := [], host := 0x40 :: l.host } := by
  rw [clearPassword_buf]
  have hpe : l.pass.isEmpty = false := by cases h : l.pass <;> simp_all
  have h0 : passS [] = ([] : Bytes) := rfl
  have h3 : atS [] [] = ([] : Bytes) := rfl
  simp only [hpe, Bool.false_eq_true, ↓reduceIte, hu, List.isEmpty_nil]
  cases hq : l.query <;> cases hf : l.frag <;> close_agg [hu, h0, h3, hq, hf]

/-- ... and `update_base_username("")` then removes it -/
theorem updateBaseUsername_stray (m : L) (h' : Bytes) (ha : m.auth = true) (hu : m.user = []) (hp : m.pass = [])
    (hh : m.host = 0x40 :: h') : updateBaseUsername (layout m) [] = layout { m with host := h' } := by
  unfold updateBaseUsername
  rw [addAuthoritySlashes_auth m ha]
  have hal := authS_true_len
  have h0 : passS [] = ([] : Bytes) := rfl
  have h3 : atS [] [] = ([] : Bytes) := rfl
  have hrr := rr_eq (x := []) (start := (layout m).pe + 2) (stop := (layout m).ue) (buf_split m)
    (by simp [layout, ha, authS_true_len]) (by simp [layout, ha])
  have hat : at_ (layout m).buf (layout m).hs = 0x40 := by
    rw [at_eq (A := m.scheme ++ authS m.auth) (B := tailS m) (by rw [buf_split]; simp [hu, hp, h0, h3])
      (by simp [layout, hu, hp, h0])]
    simp [tailS, hh]
  have hlen : (layout m).buf.length > (layout m).hs := by
    simp [layout, hu, hp, h0, h3, hh]
  simp only [hrr, hat, hasNonEmptyPassword_layout, hp, hlen]
  simp only [List.isEmpty_nil, decide_true, beq_self_eq_true, Bool.and_self, Bool.not_true, Bool.false_and, Bool.false_eq_true,
    ↓reduceIte, Bool.true_and, Bool.and_true]
  rw [serase_eq (n := 1) (A := m.scheme ++ authS m.auth) (M := [0x40]) (B := tailS { m with host := h' })
    (by simp [hu, hp, h0, h3, tailS, hh, List.append_assoc]) (by simp [layout, shift, hu, hp, h0]; omega) rfl]
  cases hq : m.query <;> cases hf : m.frag <;> close_agg [hu, hp, hh, h0, h3, hq, hf]

/-- `update_base_password("")`: the password goes, and so does a '@' that no user name needs -/
theorem updateBasePassword_empty (l : L) (ha : l.auth = true) (hna : TailNoAt l) :
    updateBasePassword (layout l) [] = layout { l with pass := [] } := by
  unfold updateBasePassword
  rw [addAuthoritySlashes_auth l ha]
  simp only [List.isEmpty_nil, ↓reduceIte]
  by_cases hu : l.user = []
  · by_cases hp : l.pass = []
    · -- nothing to clear; update_base_username("") is the identity
      have e1 : clearPassword (layout l) = layout l := by
        rw [clearPassword_buf]; simp [hp]
      rw [e1, hasNonEmptyUsername_layout l ha]
      simp only [hu, List.isEmpty_nil, Bool.not_true, Bool.not_false, ↓reduceIte]
      rw [updateBaseUsername_auth l [] ha hna]
      congr 1; cases l; simp_all
    · rw [clearPassword_nouser l hu hp,
        hasNonEmptyUsername_layout { l with pass := [], host := 0x40 :: l.host } ha]
      simp only [hu, List.isEmpty_nil, Bool.not_true, Bool.not_false, ↓reduceIte]
      have := updateBaseUsername_stray { l with pass := [], host := 0x40 :: l.host } l.host ha hu rfl rfl
      simp only [hu] at this
      rw [this]
  · rw [clearPassword_user l hu, hasNonEmptyUsername_layout { l with pass := [] } ha]
    have : l.user.isEmpty = false := by cases h : l.user <;> simp_all
    simp [this]

end AdaVerif.Lemmas.AggL

namespace AdaVerif.Lemmas.AggL
open AdaVerif AdaVerif.Model.Agg

theorem updateBasePassword_layout (l : L) (x : Bytes) (h : NoAuthNoCred l) (hna : TailNoAt l) :
    updateBasePassword (layout l) x = layout { l with auth := true, pass := x } := by
  have h1 : updateBasePassword (layout l) x = updateBasePassword (layout { l with auth := true }) x := by
    unfold updateBasePassword
    rw [addAuthoritySlashes_layout l h, addAuthoritySlashes_auth { l with auth := true } rfl]
  rw [h1]
  by_cases hx : x = []
  · subst hx; exact updateBasePassword_empty { l with auth := true } rfl hna
  · exact updateBasePassword_auth { l with auth := true } x hx rfl hna

/-! ### path -/

/-- the "/." guard is present only on a host-less, non-opaque URL, which then has no port -/
def DashDotOk (l : L) : Prop := l.dashdot = true → l.auth = false ∧ l.opq = false ∧ l.port = none

theorem hasDashDot_layout (l : L) (h : DashDotOk l) : hasDashDot (layout l) = l.dashdot := by
  cases hd : l.dashdot
  · cases hp : l.port with
    | none => simp [hasDashDot, layout, hd, hp, ddS, portS]
    | some pd =>
      obtain ⟨p, d⟩ := pd
      have hat : at_ (layout l).buf (layout l).he = 0x3A := by
        rw [at_eq (A := l.scheme ++ authS l.auth ++ l.user ++ passS l.pass ++ atS l.user l.pass ++ l.host)
          (B := portS l.port ++ (ddS l.dashdot ++ (l.path ++ (queryS l.query ++ fragS l.frag))))
          (by simp [layout, List.append_assoc]) (by simp [layout]; omega)]
        simp [hp, portS]
      simp [hasDashDot, hat]
  · obtain ⟨_, ho, hp⟩ := h hd
    have hat0 : at_ (layout l).buf (layout l).he = 0x2F := by
      rw [at_eq (A := l.scheme ++ authS l.auth ++ l.user ++ passS l.pass ++ atS l.user l.pass ++ l.host)
        (B := portS l.port ++ (ddS l.dashdot ++ (l.path ++ (queryS l.query ++ fragS l.frag))))
        (by simp [layout, List.append_assoc]) (by simp [layout]; omega)]
      simp [hp, hd, portS, ddS]
    have hat1 : at_ (layout l).buf ((layout l).he + 1) = 0x2E := by
      rw [at_eq (A := l.scheme ++ authS l.auth ++ l.user ++ passS l.pass ++ atS l.user l.pass ++ l.host ++ [0x2F])
        (B := 0x2E :: (l.path ++ (queryS l.query ++ fragS l.frag)))
        (by simp [layout, hp, hd, portS, ddS, List.append_assoc]) (by simp [layout]; omega)]
      rfl
    simp [hasDashDot, hat0, hat1]
    simp [layout, hp, hd, portS, ddS, ho]

theorem pathnameLength_layout (l : L) : pathnameLength (layout l) = l.path.length := by
  cases hq : l.query <;> cases hf : l.frag <;> simp [pathnameLength, layout, hq, hf, queryS, fragS] <;> omega

theorem deleteDashDot_layout (l : L) (hd : l.dashdot = true) (hp : l.port = none) :
    deleteDashDot (layout l) = layout { l with dashdot := false } := by
  unfold deleteDashDot
  rw [serase_eq (n := 2) (A := l.scheme ++ authS l.auth ++ l.user ++ passS l.pass ++ atS l.user l.pass ++ l.host)
    (M := [0x2F, 0x2E]) (B := l.path ++ (queryS l.query ++ fragS l.frag))
    (by simp [layout, hp, hd, portS, ddS, List.append_assoc]) (by simp [layout]; omega) rfl]
  cases hq : l.query <;> cases hf : l.frag <;> close_agg [hd, hp, portS, ddS, hq, hf]

end AdaVerif.Lemmas.AggL

namespace AdaVerif.Lemmas.AggL
open AdaVerif AdaVerif.Model.Agg

def headS (l : L) : Bytes :=
  l.scheme ++ authS l.auth ++ l.user ++ passS l.pass ++ atS l.user l.pass ++ l.host ++ portS l.port ++ ddS l.dashdot

theorem buf_path (l : L) : (layout l).buf = headS l ++ (l.path ++ (queryS l.query ++ fragS l.frag)) := by
  simp [layout, headS, List.append_assoc]
theorem ps_eq (l : L) : (layout l).ps = (headS l).length := by simp [layout, headS]; omega

/-- the last step of `update_base_pathname`: the path region is replaced -/
theorem replacePath_layout (l : L) (x : Bytes) : replacePath (layout l) x = layout { l with path := x } := by
  unfold replacePath
  rw [pathnameLength_layout, rr_eq (buf_path l) (ps_eq l) (by rw [ps_eq])]
  cases hq : l.query <;> cases hf : l.frag <;> close_agg [headS, hq, hf]

theorem insertDashDot_layout (l : L) (hl : l.dashdot = false) : insertDashDot (layout l) = layout { l with dashdot := true } := by
  unfold insertDashDot
  rw [sinsert_eq (A := l.scheme ++ authS l.auth ++ l.user ++ passS l.pass ++ atS l.user l.pass ++ l.host ++ portS l.port)
    (B := l.path ++ (queryS l.query ++ fragS l.frag)) (by simp [layout, hl, ddS, List.append_assoc])
    (by simp [layout, hl, ddS]; omega)]
  cases hq : l.query <;> cases hf : l.frag <;> close_agg [hl, ddS, hq, hf]

def newDashDot (l : L) (x : Bytes) : Bool :=
  if startsWithSlashSlash x then (l.dashdot || (!l.opq && !l.auth)) else false

theorem with_self (l : L) : ({ l with dashdot := l.dashdot } : L) = l := by cases l; rfl

theorem updateBasePathname_layout (l : L) (x : Bytes) (h : NoAuthNoCred l) (hd : DashDotOk l) :
    updateBasePathname (layout l) x = layout { l with dashdot := newDashDot l x, path := x } := by
  unfold updateBasePathname
  cases hdd : startsWithSlashSlash x
  · -- the new path does not start with "//": an existing "/." goes
    simp only [Bool.not_false, Bool.true_and, Bool.false_and, Bool.false_eq_true, ↓reduceIte, hasDashDot_layout l hd]
    cases hl : l.dashdot
    · simp only [Bool.false_eq_true, ↓reduceIte]
      rw [replacePath_layout]
      simp [newDashDot, hdd, hl]
    · obtain ⟨_, _, hp⟩ := hd hl
      simp only [↓reduceIte]
      rw [deleteDashDot_layout l hl hp, replacePath_layout]
      simp [newDashDot, hdd]
  · have hopq : (layout l).opq = l.opq := rfl
    simp only [Bool.not_true, Bool.false_and, Bool.false_eq_true, ↓reduceIte, Bool.true_and,
      hasDashDot_layout l hd, hasAuthority_layout l h, hopq]
    cases hl : l.dashdot
    · cases ho : l.opq <;> cases ha : l.auth <;>
        simp only [Bool.not_false, Bool.not_true, Bool.and_true, Bool.and_false, Bool.true_and, Bool.false_and,
          Bool.false_eq_true, ↓reduceIte]
      · rw [insertDashDot_layout l hl, replacePath_layout]
        simp [newDashDot, hdd, hl, ho, ha]
      all_goals
        rw [replacePath_layout]
        simp [newDashDot, hdd, hl, ho, ha]
    · simp only [Bool.not_true, Bool.and_false, Bool.false_eq_true, ↓reduceIte]
      rw [replacePath_layout]
      simp [newDashDot, hdd, hl]

end AdaVerif.Lemmas.AggL

namespace AdaVerif.Lemmas.AggL
open AdaVerif AdaVerif.Model.Agg

/-! ### host name cleared, scheme replaced -/

theorem clearHostname_layout (l : L) (h : NoAuthNoCred l) (hna : TailNoAt l) :
    clearHostname (layout l) = layout { l with host := [] } ∨ l.auth = false := by
  cases ha : l.auth
  · exact Or.inr rfl
  · left
    unfold clearHostname
    rw [hasAuthority_layout l h, ha]
    simp only [Bool.not_true, Bool.false_eq_true, ↓reduceIte]
    have hat : at_ (layout l).buf (layout l).hs = (atS l.user l.pass ++ tailS l).headD 0 := by
      rw [at_eq (A := l.scheme ++ authS l.auth ++ (l.user ++ passS l.pass)) (B := atS l.user l.pass ++ tailS l)
        (by rw [buf_split]; simp [List.append_assoc]) (hs_eq l)]
    rw [hat]
    by_cases hc : l.user = [] ∧ l.pass = []
    · obtain ⟨hu, hp⟩ := hc
      have h3 : atS [] [] = ([] : Bytes) := rfl
      have h0 : passS [] = ([] : Bytes) := rfl
      have hT : ((tailS l).headD 0 == 0x40) = false := by
        have : (tailS l).headD 0 ≠ 0x40 := hna
        simpa [List.headD_eq_head?_getD] using this
      simp only [hu, hp, h3, List.nil_append, hT, Bool.and_false, Bool.false_eq_true, ↓reduceIte]
      rw [serase_eq (A := l.scheme ++ authS l.auth) (M := l.host)
        (B := portS l.port ++ (ddS l.dashdot ++ (l.path ++ (queryS l.query ++ fragS l.frag))))
        (by simp [layout, hu, hp, h0, h3, List.append_assoc]) (by simp [layout, hu, hp, h0]) (by simp [layout, hu, hp, h0, h3])]
      cases hq : l.query <;> cases hf : l.frag <;> close_agg [hu, hp, h0, h3, hq, hf, ha]
    · have h1 := atS_of_cred hc
      have hlen : decide ((layout l).he - (layout l).hs > 0) = true := by simp [layout, h1]; omega
      simp only [h1, List.cons_append, List.headD_cons, beq_self_eq_true, hlen, Bool.and_self, ↓reduceIte]
      rw [serase_eq (A := l.scheme ++ authS l.auth ++ l.user ++ passS l.pass ++ [0x40]) (M := l.host)
        (B := portS l.port ++ (ddS l.dashdot ++ (l.path ++ (queryS l.query ++ fragS l.frag))))
        (by simp [layout, h1, List.append_assoc]) (by simp [layout]; omega) (by simp [layout, h1]; omega)]
      cases hq : l.query <;> cases hf : l.frag <;> close_agg [h1, hq, hf, ha]

/-- `set_scheme` on a URL that already has a scheme -/
theorem setScheme_layout (l : L) (s : Bytes) (hs : l.scheme ≠ []) :
    setScheme (layout l) s = layout { l with scheme := s ++ [0x3A] } := by
  unfold setScheme
  have hne : (layout l).buf.isEmpty = false := by
    cases h : l.scheme <;> simp_all [layout]
  simp only [hne, Bool.false_eq_true, ↓reduceIte]
  rw [serase_eq (i := 0) (A := []) (M := l.scheme)
    (B := authS l.auth ++ (l.user ++ (passS l.pass ++ (atS l.user l.pass ++ tailS l))))
    (by rw [buf_split]; simp [List.append_assoc]) rfl (by simp [layout])]
  rw [sinsert_eq (i := 0) (A := []) (B := authS l.auth ++ (l.user ++ (passS l.pass ++ (atS l.user l.pass ++ tailS l)))) rfl rfl]
  cases hq : l.query <;> cases hf : l.frag <;> close_agg [hq, hf]

end AdaVerif.Lemmas.AggL

namespace AdaVerif.Lemmas.AggL
open AdaVerif AdaVerif.Model.Agg

/-! ### the appending editors used by the parser's authority and path states -/

theorem appendBasePathname_layout (l : L) (x : Bytes) : appendBasePathname (layout l) x = layout { l with path := l.path ++ x } := by
  unfold appendBasePathname
  cases hq : l.query <;> cases hf : l.frag <;>
    simp only [layout, hq, hf, Option.isSome_some, Option.isSome_none, ↓reduceIte, Bool.false_eq_true]
  all_goals
    rw [sinsert_eq (A := l.scheme ++ authS l.auth ++ l.user ++ passS l.pass ++ atS l.user l.pass ++ l.host ++ portS l.port ++
        ddS l.dashdot ++ l.path) (B := queryS l.query ++ fragS l.frag) (by simp [hq, hf, queryS, fragS, List.append_assoc])
      (by simp [hq, hf, queryS, fragS] <;> omega)]
    close_agg [hq, hf]

theorem setSchemeWithColon_layout (l : L) (s : Bytes) (hs : l.scheme ≠ []) :
    setSchemeWithColon (layout l) s = layout { l with scheme := s } := by
  unfold setSchemeWithColon
  have hne : (layout l).buf.isEmpty = false := by
    cases h : l.scheme <;> simp_all [layout]
  simp only [hne, Bool.false_eq_true, ↓reduceIte]
  rw [serase_eq (i := 0) (A := []) (M := l.scheme)
    (B := authS l.auth ++ (l.user ++ (passS l.pass ++ (atS l.user l.pass ++ tailS l))))
    (by rw [buf_split]; simp [List.append_assoc]) rfl (by simp [layout])]
  rw [sinsert_eq (i := 0) (A := []) (B := authS l.auth ++ (l.user ++ (passS l.pass ++ (atS l.user l.pass ++ tailS l)))) rfl rfl]
  cases hq : l.query <;> cases hf : l.frag <;> close_agg [hq, hf]

/-- `append_base_password` (non-empty input) on a URL that has its "//" -/
theorem appendBasePassword_auth (l : L) (x : Bytes) (hx : x ≠ []) (ha : l.auth = true) (hna : TailNoAt l) :
    appendBasePassword (layout l) x = layout { l with pass := l.pass ++ x } := by
  unfold appendBasePassword
  rw [addAuthoritySlashes_auth l ha]
  have hxe : x.isEmpty = false := by cases x <;> simp_all
  have hT : (tailS l).headD 0 ≠ 0x40 := hna
  have hne : l.pass ++ x ≠ [] := by cases l.pass <;> simp_all
  have h2 : atS l.user (l.pass ++ x) = [0x40] := atS_of_cred (fun h => hne h.2)
  have hpx : passS (l.pass ++ x) = 0x3A :: (l.pass ++ x) := passS_head hne
  have h2x : atS l.user x = [0x40] := atS_of_cred (fun h => hx h.2)
  have hpxx : passS x = 0x3A :: x := passS_head hx
  simp only [hxe, Bool.false_eq_true, ↓reduceIte, hasPassword_layout]
  cases hp : l.pass.isEmpty
  · have hp' := isEmpty_false hp
    have h1 : atS l.user l.pass = [0x40] := atS_of_cred (fun h => hp' h.2)
    have hpp : passS l.pass = 0x3A :: l.pass := passS_head hp'
    simp only [Bool.not_false, ↓reduceIte]
    rw [sinsert_eq (x := x) (A := l.scheme ++ authS l.auth ++ l.user ++ passS l.pass) (B := [0x40] ++ tailS l)
      (by rw [buf_split, h1]; simp [List.append_assoc]) (by simp [layout]; omega)]
    rw [at_eq (A := l.scheme ++ authS l.auth ++ l.user ++ passS l.pass ++ x) (B := [0x40] ++ tailS l) (by simp [List.append_assoc])
      (by simp [layout]; omega)]
    simp only [List.cons_append, List.headD_cons, bne_self_eq_false, Bool.false_eq_true, ↓reduceIte]
    cases hq : l.query <;> cases hf : l.frag <;> close_agg [h1, h2, hpp, hpx, hq, hf]
  · have hp' := isEmpty_true hp
    have h0 : passS [] = ([] : Bytes) := rfl
    simp only [Bool.not_true, Bool.false_eq_true, ↓reduceIte]
    rw [sinsert_eq (b := (layout l).buf) (x := [0x3A]) (A := l.scheme ++ authS l.auth ++ l.user) (B := atS l.user [] ++ tailS l)
      (by rw [buf_split, hp', h0]; simp [List.append_assoc]) (by simp [layout]; omega)]
    rw [sinsert_eq (x := x) (A := l.scheme ++ authS l.auth ++ l.user ++ [0x3A]) (B := atS l.user [] ++ tailS l)
      (by simp [List.append_assoc]) (by simp [layout]; omega)]
    rw [at_eq (A := l.scheme ++ authS l.auth ++ l.user ++ [0x3A] ++ x) (B := atS l.user [] ++ tailS l) (by simp [List.append_assoc])
      (by simp [layout, hp', h0]; omega)]
    cases hu : l.user.isEmpty
    · have h1 : atS l.user [] = [0x40] := atS_of_cred (fun h => isEmpty_false hu h.1)
      simp only [h1, List.cons_append, List.headD_cons, bne_self_eq_false, Bool.false_eq_true, ↓reduceIte]
      cases hq : l.query <;> cases hf : l.frag <;> close_agg [h1, h2x, hp', h0, hpxx, hq, hf]
    · have hu' := isEmpty_true hu
      have h3 : atS [] [] = ([] : Bytes) := rfl
      have hne' : ((tailS l).headD 0 != 0x40) = true := by simpa using hT
      simp only [hu', h3, List.nil_append, hne', ↓reduceIte]
      rw [sinsert_eq (x := [0x40]) (A := l.scheme ++ authS l.auth ++ [] ++ [0x3A] ++ x) (B := tailS l)
        (by simp [List.append_assoc]) (by simp [layout, hu', hp', h0]; omega)]
      have h2' : atS [] x = [0x40] := atS_of_cred (fun h => hx h.2)
      cases hq : l.query <;> cases hf : l.frag <;> close_agg [hu', h2', hp', h0, h3, hpxx, hq, hf]

/-- `append_base_username` (non-empty input) on a URL that has its "//"; the comparison
    `host_start != host_end` in the source uses the updated start and the old end, which is the
    hypothesis `hq` (always true where the parser calls it: the host is still empty there) -/
theorem appendBaseUsername_auth (l : L) (x : Bytes) (hx : x ≠ []) (ha : l.auth = true) (hna : TailNoAt l)
    (hq : x.length ≠ (atS l.user l.pass).length + l.host.length) :
    appendBaseUsername (layout l) x = layout { l with user := l.user ++ x } := by
  unfold appendBaseUsername
  rw [addAuthoritySlashes_auth l ha]
  have hxe : x.isEmpty = false := by cases x <;> simp_all
  have hT : (tailS l).headD 0 ≠ 0x40 := hna
  have hne : l.user ++ x ≠ [] := by cases l.user <;> simp_all
  have h2 : atS (l.user ++ x) l.pass = [0x40] := atS_of_cred (fun h => hne h.1)
  simp only [hxe, Bool.false_eq_true, ↓reduceIte]
  rw [sinsert_eq (x := x) (A := l.scheme ++ authS l.auth ++ l.user) (B := passS l.pass ++ (atS l.user l.pass ++ tailS l))
    (by rw [buf_split]; simp [List.append_assoc]) (by simp [layout]; omega)]
  rw [at_eq (A := l.scheme ++ authS l.auth ++ l.user ++ x ++ passS l.pass) (B := atS l.user l.pass ++ tailS l)
    (by simp [List.append_assoc]) (by simp [layout]; omega)]
  have hcond : ((layout l).hs + x.length != (layout l).he) = true := by
    simp [layout]; omega
  by_cases hc : l.user = [] ∧ l.pass = []
  · obtain ⟨hu, hp⟩ := hc
    have h3 : atS [] [] = ([] : Bytes) := rfl
    have h0 : passS [] = ([] : Bytes) := rfl
    have hne' : ((tailS l).headD 0 != 0x40) = true := by simpa using hT
    simp only [hu, hp, h3, List.nil_append, hne', hcond, Bool.and_self, ↓reduceIte]
    rw [sinsert_eq (x := [0x40]) (A := l.scheme ++ authS l.auth ++ [] ++ x ++ passS []) (B := tailS l)
      (by simp [h0, List.append_assoc]) (by simp [layout, hu, hp, h0]; omega)]
    have h2' : atS x [] = [0x40] := atS_of_cred (fun h => hx h.1)
    cases hqq : l.query <;> cases hf : l.frag <;> close_agg [hu, hp, h0, h3, h2', hqq, hf]
  · have h1 := atS_of_cred hc
    simp only [h1, List.cons_append, List.headD_cons, bne_self_eq_false, Bool.false_and, Bool.false_eq_true, ↓reduceIte]
    cases hqq : l.query <;> cases hf : l.frag <;> close_agg [h1, h2, hqq, hf]

/-- the same with the hypothesis only where it is needed: once there are credentials the '@' is already in place and
    the comparison is not reached -/
theorem appendBaseUsername_auth' (l : L) (x : Bytes) (hx : x ≠ []) (ha : l.auth = true) (hna : TailNoAt l)
    (hq : l.user = [] ∧ l.pass = [] → x.length ≠ l.host.length) :
    appendBaseUsername (layout l) x = layout { l with user := l.user ++ x } := by
  unfold appendBaseUsername
  rw [addAuthoritySlashes_auth l ha]
  have hxe : x.isEmpty = false := by cases x <;> simp_all
  have hT : (tailS l).headD 0 ≠ 0x40 := hna
  have hne : l.user ++ x ≠ [] := by cases l.user <;> simp_all
  have h2 : atS (l.user ++ x) l.pass = [0x40] := atS_of_cred (fun h => hne h.1)
  simp only [hxe, Bool.false_eq_true, ↓reduceIte]
  rw [sinsert_eq (x := x) (A := l.scheme ++ authS l.auth ++ l.user) (B := passS l.pass ++ (atS l.user l.pass ++ tailS l))
    (by rw [buf_split]; simp [List.append_assoc]) (by simp [layout]; omega)]
  rw [at_eq (A := l.scheme ++ authS l.auth ++ l.user ++ x ++ passS l.pass) (B := atS l.user l.pass ++ tailS l)
    (by simp [List.append_assoc]) (by simp [layout]; omega)]
  by_cases hc : l.user = [] ∧ l.pass = []
  · have hq' := hq hc
    obtain ⟨hu, hp⟩ := hc
    have hcond : ((layout l).hs + x.length != (layout l).he) = true := by
      simp [layout, hu, hp, atS, passS]; omega
    have h3 : atS [] [] = ([] : Bytes) := rfl
    have h0 : passS [] = ([] : Bytes) := rfl
    have hne' : ((tailS l).headD 0 != 0x40) = true := by simpa using hT
    simp only [hu, hp, h3, List.nil_append, hne', hcond, Bool.and_self, ↓reduceIte]
    rw [sinsert_eq (x := [0x40]) (A := l.scheme ++ authS l.auth ++ [] ++ x ++ passS []) (B := tailS l)
      (by simp [h0, List.append_assoc]) (by simp [layout, hu, hp, h0]; omega)]
    have h2' : atS x [] = [0x40] := atS_of_cred (fun h => hx h.1)
    cases hqq : l.query <;> cases hf : l.frag <;> close_agg [hu, hp, h0, h3, h2', hqq, hf]
  · have h1 := atS_of_cred hc
    simp only [h1, List.cons_append, List.headD_cons, bne_self_eq_false, Bool.false_and, Bool.false_eq_true, ↓reduceIte]
    cases hqq : l.query <;> cases hf : l.frag <;> close_agg [h1, h2, hqq, hf]

end AdaVerif.Lemmas.AggL

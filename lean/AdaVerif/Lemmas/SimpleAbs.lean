import AdaVerif.Model.SimpleAbs
import AdaVerif.Lemmas.HostParse
import AdaVerif.Lemmas.UrlSetters
import AdaVerif.Lemmas.ParseCanon
import AdaVerif.Lemmas.PathTrivial
/-
`parser::try_parse_simple_absolute` is sound: whenever it accepts, the record it writes is the record the Standard's
parser produces for the same input.
-/
namespace AdaVerif.Lemmas.SA
open AdaVerif AdaVerif.Spec AdaVerif.Lemmas AdaVerif.Model.SimpleAbs AdaVerif.Model.HostParse

/-! ### what the class tables say -/
def Printable (b : UInt8) : Prop := isC0OrSpace b = false ∧ isTabOrNewline b = false

theorem hostClass_facts : ∀ b : UInt8,
    (hostClass b = 0 → Printable b ∧ b.toNat < 128 ∧ isForbiddenDomain b = false ∧ b ≠ 0x2F ∧ b ≠ 0x5C ∧ b ≠ 0x3F ∧ b ≠ 0x23 ∧
      b ≠ 0x40 ∧ b ≠ 0x3A ∧ b ≠ 0x5B ∧ b ≠ 0x5D) ∧
    (hostClass b = 1 → b = 0x2F ∨ b = 0x3F ∨ b = 0x23) ∧ hostClass b ≤ 2 := by
  unfold hostClass Printable; apply forall_uint8_of_fin; decide +kernel

theorem restClass_facts : ∀ b : UInt8,
    (restClass b = 0 → Printable b ∧ inPath b = false ∧ b ≠ 0x25 ∧ b ≠ 0x5C ∧ b ≠ 0x3F ∧ b ≠ 0x23) ∧
    (restClass b = 1 → b = 0x3F ∨ b = 0x23) ∧ restClass b ≤ 2 ∧
    ((b = 0x3F ∨ b = 0x25 ∨ restClass b ≠ 2) → b ≠ 0x23 → Printable b ∧ inSpecialQuery b = false) ∧
    ((b = 0x3F ∨ b = 0x23 ∨ b = 0x25 ∨ restClass b ≠ 2) → Printable b ∧ inFragment b = false) := by
  unfold restClass Printable; apply forall_uint8_of_fin; decide +kernel

/-! ### what the scans return -/
def qText (q : Option Bytes) : Bytes := match q with | some x => 0x3F :: x | none => []
def fText (f : Option Bytes) : Bytes := match f with | some x => 0x23 :: x | none => []

def QByte (b : UInt8) : Prop := Printable b ∧ inSpecialQuery b = false ∧ b ≠ 0x23
def FByte (b : UInt8) : Prop := Printable b ∧ inFragment b = false

theorem hostScan_spec (l : Bytes) : ∀ (h rest : Bytes), hostScan l = some (h, rest) →
    l = h ++ rest ∧ (∀ b ∈ h, hostClass b = 0) ∧ (rest = [] ∨ ∃ c t, rest = c :: t ∧ (c = 0x2F ∨ c = 0x3F ∨ c = 0x23)) := by
  induction l with
  | nil => intro h rest hs; simp [hostScan] at hs; obtain ⟨rfl, rfl⟩ := hs; simp
  | cons c r ih =>
    intro h rest hs
    unfold hostScan at hs
    by_cases h1 : (hostClass c == 1) = true
    · simp only [h1, ↓reduceIte, Option.some.injEq, Prod.mk.injEq] at hs
      obtain ⟨rfl, rfl⟩ := hs
      exact ⟨rfl, by simp, Or.inr ⟨c, r, rfl, (hostClass_facts c).2.1 (by simpa using h1)⟩⟩
    · simp only [h1, Bool.false_eq_true, ↓reduceIte] at hs
      by_cases h2 : (hostClass c == 2) = true
      · simp [h2] at hs
      · simp only [h2, Bool.false_eq_true, ↓reduceIte] at hs
        cases hr : hostScan r with
        | none => simp [hr] at hs
        | some p =>
          obtain ⟨h', rest'⟩ := p
          simp only [hr, Option.map_some, Option.some.injEq, Prod.mk.injEq] at hs
          obtain ⟨rfl, rfl⟩ := hs
          obtain ⟨e, hc, hrest⟩ := ih h' rest' hr
          have h0 : hostClass c = 0 := by
            have := (hostClass_facts c).2.2
            have n1 : hostClass c ≠ 1 := by simpa using h1
            have n2 : hostClass c ≠ 2 := by simpa using h2
            omega
          refine ⟨by rw [e]; rfl, ?_, hrest⟩
          intro b hb
          simp only [List.mem_cons] at hb
          rcases hb with rfl | hb
          · exact h0
          · exact hc b hb

theorem hashScan_spec (r : Bytes) (h : hashScan r = true) : ∀ b ∈ r, FByte b := by
  induction r with
  | nil => intro b hb; cases hb
  | cons c t ih =>
    unfold hashScan at h
    by_cases h1 : (c == 0x3F || c == 0x23 || c == 0x25) = true
    · simp only [h1, ↓reduceIte] at h
      intro b hb
      simp only [List.mem_cons] at hb
      rcases hb with rfl | hb
      · simp only [Bool.or_eq_true, beq_iff_eq] at h1
        exact (restClass_facts b).2.2.2.2 (by rcases h1 with (e | e) | e <;> simp [e])
      · exact ih h b hb
    · simp only [h1, Bool.false_eq_true, ↓reduceIte] at h
      by_cases h2 : (restClass c == 2) = true
      · simp [h2] at h
      · simp only [h2, Bool.false_eq_true, ↓reduceIte] at h
        intro b hb
        simp only [List.mem_cons] at hb
        rcases hb with rfl | hb
        · exact (restClass_facts b).2.2.2.2 (Or.inr (Or.inr (Or.inr (by simpa using h2))))
        · exact ih h b hb

theorem queryScan_spec (r : Bytes) : ∀ (q : Bytes) (f : Option Bytes), queryScan r = some (q, f) →
    r = q ++ fText f ∧ (∀ b ∈ q, QByte b) ∧ (∀ x, f = some x → ∀ b ∈ x, FByte b) := by
  induction r with
  | nil => intro q f h; simp [queryScan] at h; obtain ⟨rfl, rfl⟩ := h; simp [fText]
  | cons c t ih =>
    intro q f h
    unfold queryScan at h
    by_cases h0 : (c == 0x23) = true
    · simp only [h0, ↓reduceIte] at h
      have hc : c = 0x23 := by simpa using h0
      by_cases hh : hashScan t = true
      · simp only [hh, ↓reduceIte, Option.some.injEq, Prod.mk.injEq] at h
        obtain ⟨rfl, rfl⟩ := h
        refine ⟨by simp [fText, hc], by simp, ?_⟩
        intro x hx b hb
        injection hx with hx; subst hx
        exact hashScan_spec t hh b hb
      · simp [hh] at h
    · simp only [h0, Bool.false_eq_true, ↓reduceIte] at h
      have hne : c ≠ 0x23 := by simpa using h0
      have step : ∀ (hq : c = 0x3F ∨ c = 0x25 ∨ restClass c ≠ 2), (queryScan t).map (fun p => (c :: p.1, p.2)) = some (q, f) →
          c :: t = q ++ fText f ∧ (∀ b ∈ q, QByte b) ∧ (∀ x, f = some x → ∀ b ∈ x, FByte b) := by
        intro hq hm
        cases hr : queryScan t with
        | none => simp [hr] at hm
        | some p =>
          obtain ⟨q', f'⟩ := p
          simp only [hr, Option.map_some, Option.some.injEq, Prod.mk.injEq] at hm
          obtain ⟨rfl, rfl⟩ := hm
          obtain ⟨e, hqb, hfb⟩ := ih q' f' hr
          refine ⟨by rw [e]; rfl, ?_, hfb⟩
          intro b hb
          simp only [List.mem_cons] at hb
          rcases hb with rfl | hb
          · have := (restClass_facts b).2.2.2.1 hq hne
            exact ⟨this.1, this.2, hne⟩
          · exact hqb b hb
      by_cases h1 : (c == 0x3F || c == 0x25) = true
      · simp only [h1, ↓reduceIte] at h
        simp only [Bool.or_eq_true, beq_iff_eq] at h1
        exact step (by rcases h1 with e | e <;> simp [e]) h
      · simp only [h1, Bool.false_eq_true, ↓reduceIte] at h
        by_cases h2 : (restClass c == 2) = true
        · simp [h2] at h
        · simp only [h2, Bool.false_eq_true, ↓reduceIte] at h
          exact step (Or.inr (Or.inr (by simpa using h2))) h

theorem pathScan_spec (r : Bytes) : ∀ (p : Bytes) (q f : Option Bytes), pathScan r = some (p, q, f) →
    r = p ++ qText q ++ fText f ∧ (∀ b ∈ p, restClass b = 0) ∧ (∀ x, q = some x → ∀ b ∈ x, QByte b) ∧
    (∀ x, f = some x → ∀ b ∈ x, FByte b) := by
  induction r with
  | nil => intro p q f h; simp [pathScan] at h; obtain ⟨rfl, rfl, rfl⟩ := h; simp [qText, fText]
  | cons c t ih =>
    intro p q f h
    unfold pathScan at h
    by_cases h0 : (restClass c == 0) = true
    · simp only [h0, ↓reduceIte] at h
      cases hr : pathScan t with
      | none => simp [hr] at h
      | some x =>
        obtain ⟨p', q', f'⟩ := x
        simp only [hr, Option.map_some, Option.some.injEq, Prod.mk.injEq] at h
        obtain ⟨rfl, rfl, rfl⟩ := h
        obtain ⟨e, hp, hq, hf⟩ := ih p' q' f' hr
        refine ⟨by rw [e]; simp, ?_, hq, hf⟩
        intro b hb
        simp only [List.mem_cons] at hb
        rcases hb with rfl | hb
        · simpa using h0
        · exact hp b hb
    · simp only [h0, Bool.false_eq_true, ↓reduceIte] at h
      by_cases h1 : (restClass c == 1) = true
      · simp only [h1, ↓reduceIte] at h
        have hc := (restClass_facts c).2.1 (by simpa using h1)
        by_cases hq : (c == 0x3F) = true
        · simp only [hq, ↓reduceIte] at h
          have hc' : c = 0x3F := by simpa using hq
          cases hr : queryScan t with
          | none => simp [hr] at h
          | some x =>
            obtain ⟨q', f'⟩ := x
            simp only [hr, Option.map_some, Option.some.injEq, Prod.mk.injEq] at h
            obtain ⟨rfl, rfl, rfl⟩ := h
            obtain ⟨e, hqb, hfb⟩ := queryScan_spec t q' f' hr
            refine ⟨by rw [e]; simp [qText, hc'], by simp, ?_, hfb⟩
            intro x hx b hb
            injection hx with hx; subst hx
            exact hqb b hb
        · simp only [hq, Bool.false_eq_true, ↓reduceIte] at h
          have hc' : c = 0x23 := by
            rcases hc with e | e
            · exact absurd (by simpa using e) hq
            · exact e
          by_cases hh : hashScan t = true
          · simp only [hh, ↓reduceIte, Option.some.injEq, Prod.mk.injEq] at h
            obtain ⟨rfl, rfl, rfl⟩ := h
            refine ⟨by simp [qText, fText, hc'], by simp, by simp, ?_⟩
            intro x hx b hb
            injection hx with hx; subst hx
            exact hashScan_spec t hh b hb
          · simp [hh] at h
      · simp [h1] at h

/-! ### dot segments -/
theorem sp_sep (b : UInt8) (r : Bytes) (h : FP.isSep true b = true) : splitPath true (b :: r) = [] :: splitPath true r := by
  simp only [FP.isSep, Bool.true_and] at h
  simp [splitPath, h]

theorem sp_cons (b : UInt8) (r : Bytes) (h : FP.isSep true b = false) :
    ∃ hd tl, splitPath true r = hd :: tl ∧ splitPath true (b :: r) = (b :: hd) :: tl := by
  simp only [FP.isSep, Bool.true_and] at h
  cases hs : splitPath true r with
  | nil => exact absurd hs (splitPath_ne_nil true r)
  | cons hd tl => exact ⟨hd, tl, rfl, by simp [splitPath, h, hs]⟩

def startsDot (p : Bytes) : Bool := match p with | 0x2E :: l => dotSegAt l | _ => false

theorem dotReject_eq (p : Bytes) : dotReject (0x2F :: p) = (startsDot p || slashDotScan p) := by
  unfold dotReject startsDot
  cases p with
  | nil => rfl
  | cons a t =>
    by_cases ha : a = 0x2E
    · subst ha; rfl
    · simp only [List.drop_succ_cons, List.drop_zero]
      congr 1
      split
      · rename_i heq; injection heq with _ e; injection e with e _; exact absurd e ha
      · split
        · rename_i heq; injection heq with e _; exact absurd e ha
        · rfl

/-- the head segment is empty exactly at the end or in front of a separator -/
theorem head_nil (r : Bytes) (hb : ∀ b ∈ r, b ≠ 0x5C) (tl : List Bytes) (h : splitPath true r = [] :: tl) :
    r = [] ∨ ∃ t, r = 0x2F :: t := by
  cases r with
  | nil => left; rfl
  | cons c t =>
    right
    by_cases hc : FP.isSep true c = true
    · have : c = 0x2F := by
        simp only [FP.isSep, Bool.true_and, Bool.or_eq_true, beq_iff_eq] at hc
        rcases hc with e | e
        · exact e
        · exact absurd e (hb c (by simp))
      exact ⟨t, by rw [this]⟩
    · have hc' : FP.isSep true c = false := by simpa using hc
      obtain ⟨hd, tl', _, e2⟩ := sp_cons c t hc'
      rw [e2] at h
      injection h with h1 _
      cases h1

theorem dot_not_sep : FP.isSep true 0x2E = false := by decide

/-- a first segment "." or ".." is seen by the check at the head of the path -/
theorem first_dot (p : Bytes) (hb : ∀ b ∈ p, b ≠ 0x5C) (seg : Bytes) (tl : List Bytes) (h : splitPath true p = seg :: tl)
    (hd : seg = [0x2E] ∨ seg = [0x2E, 0x2E]) : startsDot p = true := by
  cases p with
  | nil =>
    simp [splitPath] at h
    obtain ⟨h1, _⟩ := h
    subst h1
    rcases hd with e | e <;> cases e
  | cons c r =>
    by_cases hc : FP.isSep true c = true
    · rw [sp_sep c r hc] at h
      injection h with h1 _
      rcases hd with e | e <;> simp [← h1] at e
    · have hc' : FP.isSep true c = false := by simpa using hc
      obtain ⟨hd1, tl1, e1, e2⟩ := sp_cons c r hc'
      rw [e2] at h
      injection h with h1 h2
      have hbr : ∀ b ∈ r, b ≠ 0x5C := fun b hx => hb b (by simp [hx])
      rcases hd with e | e
      · -- "."
        rw [e] at h1
        injection h1 with hc2 hh
        subst hc2
        rw [hh] at e1
        rcases head_nil r hbr _ e1 with rfl | ⟨t, rfl⟩
        · rfl
        · simp [startsDot, dotSegAt]
      · -- ".."
        rw [e] at h1
        injection h1 with hc2 hh
        subst hc2
        rw [hh] at e1
        -- r's first segment is "."
        cases r with
        | nil => simp [splitPath] at e1
        | cons c2 r2 =>
          by_cases hc3 : FP.isSep true c2 = true
          · rw [sp_sep c2 r2 hc3] at e1
            injection e1 with e1 _
            cases e1
          · have hc3' : FP.isSep true c2 = false := by simpa using hc3
            obtain ⟨hd2, tl2, e3, e4⟩ := sp_cons c2 r2 hc3'
            rw [e4] at e1
            injection e1 with e1 _
            injection e1 with e5 e6
            subst e5
            rw [e6] at e3
            have hbr2 : ∀ b ∈ r2, b ≠ 0x5C := fun b hx => hbr b (by simp [hx])
            rcases head_nil r2 hbr2 _ e3 with rfl | ⟨t, rfl⟩
            · rfl
            · simp [startsDot, dotSegAt]

theorem sds_cons_ne (b : UInt8) (r : Bytes) (hb : b ≠ 0x2F) : slashDotScan (b :: r) = slashDotScan r := by
  rw [slashDotScan.eq_def]
  split
  · rename_i heq; injection heq with e _; exact absurd e hb
  · rename_i heq; injection heq with _ e; rw [e]
  · rename_i heq; cases heq

theorem sds_slash (r : Bytes) : slashDotScan (0x2F :: r) = (startsDot r || slashDotScan r) := by
  cases r with
  | nil =>
    rw [slashDotScan.eq_def]
    simp [startsDot]
  | cons a t =>
    by_cases ha : a = 0x2E
    · subst ha
      rw [slashDotScan.eq_def]
      simp only [startsDot]
      rw [sds_cons_ne 0x2E t (by decide)]
    · rw [slashDotScan.eq_def]
      split
      · rename_i heq; injection heq with _ e; injection e with e _; exact absurd e ha
      · rename_i heq
        injection heq with _ e
        rw [← e]
        have : startsDot (a :: t) = false := by
          unfold startsDot
          split
          · rename_i heq2; injection heq2 with e2 _; exact absurd e2 ha
          · rfl
        simp [this]
      · rename_i heq; cases heq

/-- a later segment "." or ".." is seen by the `find("/.")` loop -/
theorem later_dot (p : Bytes) (hb : ∀ b ∈ p, b ≠ 0x5C) : ∀ (seg0 : Bytes) (tl : List Bytes), splitPath true p = seg0 :: tl →
    ∀ seg ∈ tl, (seg = [0x2E] ∨ seg = [0x2E, 0x2E]) → slashDotScan p = true := by
  induction p with
  | nil =>
    intro seg0 tl h seg hs
    simp [splitPath] at h
    obtain ⟨_, h2⟩ := h
    subst h2
    cases hs
  | cons c r ih =>
    intro seg0 tl h seg hs hd
    have hbr : ∀ b ∈ r, b ≠ 0x5C := fun b hx => hb b (by simp [hx])
    by_cases hc : FP.isSep true c = true
    · have hc2 : c = 0x2F := by
        simp only [FP.isSep, Bool.true_and, Bool.or_eq_true, beq_iff_eq] at hc
        rcases hc with e | e
        · exact e
        · exact absurd e (hb c (by simp))
      rw [sp_sep c r hc] at h
      injection h with _ h2
      subst h2
      rw [hc2, sds_slash]
      cases hsr : splitPath true r with
      | nil => exact absurd hsr (splitPath_ne_nil true r)
      | cons s0 t0 =>
        rw [hsr] at hs
        simp only [List.mem_cons] at hs
        rcases hs with rfl | hs
        · simp [first_dot r hbr seg t0 hsr hd]
        · simp [ih hbr s0 t0 hsr seg hs hd]
    · have hc' : FP.isSep true c = false := by simpa using hc
      obtain ⟨hd1, tl1, e1, e2⟩ := sp_cons c r hc'
      rw [e2] at h
      injection h with _ h2
      subst h2
      have hne : c ≠ 0x2F := by
        intro e; subst e; simp [FP.isSep] at hc'
      rw [sds_cons_ne c r hne]
      exact ih hbr hd1 tl1 e1 seg hs hd

theorem lower_lit : ∀ b : UInt8, (toLowerByte b = 0x2E → b = 0x2E) ∧ (toLowerByte b = 0x25 → b = 0x25) := by
  apply forall_uint8_of_fin; decide +kernel

/-- without '%', the Standard's dot-segment tests are plain comparisons with "." and ".." -/
theorem dot_of_clean (seg : Bytes) (h : ∀ b ∈ seg, b ≠ 0x25) :
    (isSingleDot seg = true → seg = [0x2E]) ∧ (isDoubleDot seg = true → seg = [0x2E, 0x2E]) := by
  have nopct : ∀ b ∈ seg, toLowerByte b ≠ 0x25 := fun b hb e => h b hb ((lower_lit b).2 e)
  constructor
  · intro hs
    simp only [isSingleDot, lowerAscii, Bool.or_eq_true, beq_iff_eq] at hs
    rcases hs with e | e
    · obtain ⟨a, xs, rfl, ha, hxs⟩ := List.map_eq_cons_iff.mp e
      have : xs = [] := List.map_eq_nil_iff.mp hxs
      subst this
      rw [(lower_lit a).1 ha]
    · obtain ⟨a, xs, rfl, ha, _⟩ := List.map_eq_cons_iff.mp e
      exact absurd ha (nopct a (by simp))
  · intro hs
    simp only [isDoubleDot, lowerAscii, Bool.or_eq_true, beq_iff_eq] at hs
    rcases hs with ((e | e) | e) | e
    · obtain ⟨a, xs, rfl, ha, hxs⟩ := List.map_eq_cons_iff.mp e
      obtain ⟨b, ys, rfl, hb2, hys⟩ := List.map_eq_cons_iff.mp hxs
      have : ys = [] := List.map_eq_nil_iff.mp hys
      subst this
      rw [(lower_lit a).1 ha, (lower_lit b).1 hb2]
    · obtain ⟨a, xs, rfl, ha, hxs⟩ := List.map_eq_cons_iff.mp e
      obtain ⟨b, ys, rfl, hb2, _⟩ := List.map_eq_cons_iff.mp hxs
      exact absurd hb2 (nopct b (by simp))
    · obtain ⟨a, xs, rfl, ha, _⟩ := List.map_eq_cons_iff.mp e
      exact absurd ha (nopct a (by simp))
    · obtain ⟨a, xs, rfl, ha, _⟩ := List.map_eq_cons_iff.mp e
      exact absurd ha (nopct a (by simp))

/-- splitting a backslash-free text at '/' and joining with '/' gives the text back -/
theorem join_split (p : Bytes) (hb : ∀ b ∈ p, b ≠ 0x5C) : ∀ (seg : Bytes) (more : List Bytes),
    splitPath true p = seg :: more → FP.joinTail seg more = p := by
  induction p with
  | nil =>
    intro seg more h
    simp [splitPath] at h
    obtain ⟨rfl, rfl⟩ := h
    rfl
  | cons c r ih =>
    intro seg more h
    have hbr : ∀ b ∈ r, b ≠ 0x5C := fun b hx => hb b (by simp [hx])
    by_cases hc : FP.isSep true c = true
    · have hc2 : c = 0x2F := by
        simp only [FP.isSep, Bool.true_and, Bool.or_eq_true, beq_iff_eq] at hc
        rcases hc with e | e
        · exact e
        · exact absurd e (hb c (by simp))
      rw [sp_sep c r hc] at h
      injection h with h1 h2
      subst h1; subst h2
      cases hsr : splitPath true r with
      | nil => exact absurd hsr (splitPath_ne_nil true r)
      | cons s0 t0 =>
        have := ih hbr s0 t0 hsr
        simp only [FP.joinTail, List.flatMap_cons, List.nil_append] at this ⊢
        rw [hc2, ← this]
        simp
    · have hc' : FP.isSep true c = false := by simpa using hc
      obtain ⟨hd1, tl1, e1, e2⟩ := sp_cons c r hc'
      rw [e2] at h
      injection h with h1 h2
      subst h1; subst h2
      have := ih hbr hd1 tl1 e1
      simp [FP.joinTail] at this ⊢
      exact this

/-- **the path scan leaves only segments the path state keeps as they are** -/
theorem segs_ok (p : Bytes) (hp : ∀ b ∈ p, restClass b = 0) (hd : dotReject (0x2F :: p) = false) :
    ∀ seg ∈ splitPath true p, FP.SegOk true seg := by
  have hbs : ∀ b ∈ p, b ≠ 0x5C := fun b hb => (restClass_facts b).1 (hp b hb) |>.2.2.2.1
  rw [dotReject_eq] at hd
  simp only [Bool.or_eq_false_iff] at hd
  intro seg hs
  have hmem := PP.splitPath_mem true p seg hs
  have hclean : ∀ b ∈ seg, b ≠ 0x25 := fun b hb => ((restClass_facts b).1 (hp b (hmem b hb))).2.2.1
  have hdots := dot_of_clean seg hclean
  -- seg is neither "." nor ".."
  have hnot : ¬ (seg = [0x2E] ∨ seg = [0x2E, 0x2E]) := by
    intro hdot
    cases hsp : splitPath true p with
    | nil => exact absurd hsp (splitPath_ne_nil true p)
    | cons s0 t0 =>
      rw [hsp] at hs
      simp only [List.mem_cons] at hs
      rcases hs with rfl | hs
      · have := first_dot p hbs seg t0 hsp hdot
        rw [this] at hd; exact absurd hd.1 (by simp)
      · have := later_dot p hbs s0 t0 hsp seg hs hdot
        rw [this] at hd; exact absurd hd.2 (by simp)
  refine ⟨fun b hb => ((restClass_facts b).1 (hp b (hmem b hb))).2.1, PC.splitPath_sepfree true p seg hs, ?_, ?_⟩
  · cases h : isSingleDot seg with
    | false => rfl
    | true => exact absurd (Or.inl (hdots.1 h)) hnot
  · cases h : isDoubleDot seg with
    | false => rfl
    | true => exact absurd (Or.inr (hdots.2 h)) hnot

/-! ### the Standard's parser on a text of the accepted shape -/
def pText (p : Option Bytes) : Bytes := match p with | some x => 0x2F :: x | none => []
/-- the path segments of an accepted URL: the text after the first '/' split at '/', or the single empty segment -/
def pathOf (p : Option Bytes) : List Bytes := match p with | some x => splitPath true x | none => [[]]

theorem scheme_bytes (S : Bytes) (hS : S = bHttp ∨ S = bHttps) :
    schemeOk S = true ∧ S ≠ bFile ∧ isSpecialScheme S = true ∧ (∀ b ∈ S, Printable b ∧ b ≠ 0x23 ∧ b ≠ 0x3F) ∧ S.head? = some 0x68 := by
  unfold Printable
  rcases hS with rfl | rfl <;> decide +kernel

theorem parse_simple (idna : Idna) (S H : Bytes) (P Q F : Option Bytes) (hS : S = bHttp ∨ S = bHttps)
    (hne : H ≠ []) (hH : ∀ b ∈ H, hostClass b = 0)
    (hnum : endsInANumber (H.map toLowerByte) = false) (hxn : hasXnDash (H.map toLowerByte) = false)
    (hP : ∀ p, P = some p → (∀ b ∈ p, restClass b = 0) ∧ dotReject (0x2F :: p) = false)
    (hQ : ∀ q, Q = some q → ∀ b ∈ q, QByte b) (hF : ∀ f, F = some f → ∀ b ∈ f, FByte b) :
    parse idna (S ++ 0x3A :: 0x2F :: 0x2F :: (H ++ pText P) ++ qText Q ++ fText F) none =
      some { scheme := S, host := some (.domain (H.map toLowerByte)),
             path := pathOf P, query := Q, fragment := F } := by
  obtain ⟨hSok, hSnf, hSsp, hSb, hShead⟩ := scheme_bytes S hS
  -- bytes of the three parts
  have hHb := fun b hb => (hostClass_facts b).1 (hH b hb)
  have hPb : ∀ b ∈ pText P, Printable b ∧ b ≠ 0x23 ∧ b ≠ 0x3F := by
    intro b hb
    cases hPp : P with
    | none => rw [hPp] at hb; cases hb
    | some p =>
      rw [hPp] at hb
      simp only [pText, List.mem_cons] at hb
      rcases hb with rfl | hb
      · unfold Printable; decide
      · have := (restClass_facts b).1 ((hP p hPp).1 b hb)
        exact ⟨this.1, this.2.2.2.2.2, this.2.2.2.2.1⟩
  have hbody : ∀ b ∈ S ++ 0x3A :: 0x2F :: 0x2F :: (H ++ pText P), Printable b ∧ b ≠ 0x23 ∧ b ≠ 0x3F := by
    intro b hb
    simp only [List.mem_append, List.mem_cons] at hb
    rcases hb with hb | rfl | rfl | rfl | hb | hb
    · exact hSb b hb
    · unfold Printable; decide
    · unfold Printable; decide
    · unfold Printable; decide
    · have := hHb b hb; exact ⟨this.1, this.2.2.2.2.2.2.1, this.2.2.2.2.2.1⟩
    · exact hPb b hb
  have hQb : ∀ b ∈ qText Q, Printable b ∧ b ≠ 0x23 := by
    intro b hb
    cases hQq : Q with
    | none => rw [hQq] at hb; cases hb
    | some q =>
      rw [hQq] at hb
      simp only [qText, List.mem_cons] at hb
      rcases hb with rfl | hb
      · unfold Printable; decide
      · have := hQ q hQq b hb; exact ⟨this.1, this.2.2⟩
  have hFb : ∀ b ∈ fText F, Printable b := by
    intro b hb
    cases hFf : F with
    | none => rw [hFf] at hb; cases hb
    | some f =>
      rw [hFf] at hb
      simp only [fText, List.mem_cons] at hb
      rcases hb with rfl | hb
      · unfold Printable; decide
      · exact (hF f hFf b hb).1
  generalize hbd : S ++ 0x3A :: 0x2F :: 0x2F :: (H ++ pText P) = body at hbody
  have hall : ∀ b ∈ body ++ qText Q ++ fText F, Printable b := by
    intro b hb
    simp only [List.mem_append] at hb
    rcases hb with (hb | hb) | hb
    · exact (hbody b hb).1
    · exact (hQb b hb).1
    · exact hFb b hb
  -- preprocessing does nothing
  have hpre : preprocess (body ++ qText Q ++ fText F) = body ++ qText Q ++ fText F := by
    apply FP.preprocess_id
    · intro a ha; exact (hall a (List.mem_of_mem_head? ha)).1
    · intro a ha; exact (hall a (List.mem_of_getLast? ha)).1
    · intro a ha; exact (hall a ha).2
  -- the two cuts
  have hcutF : cutAt 0x23 (body ++ qText Q ++ fText F) = (body ++ qText Q, F) := by
    have hno : (0x23 : UInt8) ∉ body ++ qText Q := by
      intro hm
      simp only [List.mem_append] at hm
      rcases hm with hm | hm
      · exact (hbody _ hm).2.1 rfl
      · exact (hQb _ hm).2 rfl
    cases F with
    | none => simp only [fText, List.append_nil]; exact FP.cutAt_none _ _ hno
    | some f => simp only [fText]; exact FP.cutAt_some _ _ _ hno
  have hcutQ : cutAt 0x3F (body ++ qText Q) = (body, Q) := by
    have hno : (0x3F : UInt8) ∉ body := fun hm => (hbody _ hm).2.2 rfl
    cases Q with
    | none => simp only [qText, List.append_nil]; exact FP.cutAt_none _ _ hno
    | some q => simp only [qText]; exact FP.cutAt_some _ _ _ hno
  -- the core: scheme, authority, host, path
  have hcore : ∀ tail hasQ hasF, parseCore idna none body tail hasQ hasF =
      some { scheme := S, host := some (.domain (H.map toLowerByte)),
             path := pathOf P } := by
    intro tail hasQ hasF
    unfold parseCore
    rw [← hbd, FP.takeScheme_href S _ hSok]
    have hfb : (S == bFile) = false := by simpa using hSnf
    simp only [hfb, Bool.false_eq_true, ↓reduceIte, hSsp]
    -- the slashes
    have hHslash : ∀ b ∈ H, b ≠ 0x2F ∧ b ≠ 0x5C := fun b hb => ⟨(hHb b hb).2.2.2.1, (hHb b hb).2.2.2.2.1⟩
    have hskip : skipSlashes (0x2F :: 0x2F :: (H ++ pText P)) = H ++ pText P := by
      have := FS.skipSlashes_all [0x2F, 0x2F] H (pText P) (by intro b hb; simp at hb; rcases hb with rfl | rfl <;> decide) (by
        intro b hb
        cases H with
        | nil => exact absurd rfl hne
        | cons h0 ht =>
          simp only [List.cons_append, List.head?_cons, Option.some.injEq] at hb
          subst hb
          have := hHslash h0 (by simp)
          simp [FS.isSlash, this.1, this.2])
      simpa using this
    rw [hskip]
    unfold fromAuthority
    have hae : authorityEnd (isSpecialScheme S) (H ++ pText P) = H.length := by
      apply FP.authorityEnd_canon _ _ _ hHslash
      cases P with
      | none => left; rfl
      | some p => right; rfl
    simp only [hae, List.take_left', List.drop_left']
    -- the authority is the host alone
    have hnoat : (0x40 : UInt8) ∉ H := fun hm => (hHb _ hm).2.2.2.2.2.2.2.1 rfl
    have hT : FS.HostText H := ⟨hne, fun b hb => (hHb b hb).2.1, fun b hb => (hHb b hb).2.2.1, HP.noxn_of_scan H hxn⟩
    have hhost : hostParse idna H false = some (.domain (H.map toLowerByte)) := by
      rw [FS.hostParse_ascii idna H hT]
      simp [hnum]
    have hhe : hostEnd H = H.length := by
      have := FP.hostEnd_plain H [] (fun b hb => ⟨(hHb b hb).2.2.2.2.2.2.2.2.1, (hHb b hb).2.2.2.2.2.2.2.2.2.1, (hHb b hb).2.2.2.2.2.2.2.2.2.2⟩) (Or.inl rfl)
      simpa using this
    have hHe : H.isEmpty = false := FS.isEmpty_false_of_ne hne
    have hhp : parseHostPort idna S H = some (.domain (H.map toLowerByte), none) := by
      unfold parseHostPort
      simp only [hhe, Nat.lt_irrefl, ↓reduceIte, hHe, Bool.false_eq_true, hSsp, Bool.not_true, hhost]
    have hauth : parseAuthority idna S H = some ⟨[], [], .domain (H.map toLowerByte), none⟩ := by
      unfold parseAuthority
      simp only [FP.splitCredentials_none H hnoat, Option.isSome_none, Bool.false_and, Bool.false_eq_true, ↓reduceIte, hhp]
      rfl
    rw [hauth]
    -- the path
    have hpath : pathStartState S (pText P) = pathOf P := by
      unfold pathStartState
      simp only [hSsp, ↓reduceIte]
      cases hPp : P with
      | none => simp only [pText, pathOf]; exact UR.pathState_nil S
      | some p =>
        simp only [pText, pathOf, beq_self_eq_true, Bool.true_or, ↓reduceIte]
        obtain ⟨hpc, hpd⟩ := hP p hPp
        have hbs : ∀ b ∈ p, b ≠ 0x5C := fun b hb => ((restClass_facts b).1 (hpc b hb)).2.2.2.1
        cases hsp : splitPath true p with
        | nil => exact absurd hsp (splitPath_ne_nil true p)
        | cons seg more =>
          have hj := join_split p hbs seg more hsp
          have hok := segs_ok p hpc hpd
          rw [hsp] at hok
          have := FP.pathState_canon S seg more (by rw [hSsp]; exact hok) (fun hf => absurd hf hSnf)
          rw [hj] at this
          exact this
    rw [hpath]
  unfold parse
  simp only [hpre, hcutF, hcutQ, hcore]
  -- query and fragment are left as they are
  have hq : ∀ q, Q = some q → encodeQuery true q = q := by
    intro q hq
    unfold encodeQuery
    simp only [↓reduceIte]
    exact FP.percentEncode_id _ q (fun b hb => (hQ q hq b hb).2.1)
  have hf : ∀ f, F = some f → percentEncode inFragment f = f := fun f hf' => FP.percentEncode_id _ f (fun b hb => (hF f hf' b hb).2)
  cases hQq : Q with
  | none =>
    cases hFf : F with
    | none => rfl
    | some f => simp only [hf f hFf]
  | some q =>
    have hsp' : ({ scheme := S, host := some (.domain (H.map toLowerByte)), path := pathOf P } : Url).isSpecial = true := hSsp
    cases hFf : F with
    | none => simp only [hsp', hq q hQq]
    | some f => simp only [hsp', hq q hQq, hf f hFf]

/-! ### soundness -/
theorem schemeWindow_spec (input : Bytes) (https : Bool) (after : Bytes) (h : schemeWindow input = some (https, after)) :
    input = (if https then bHttps else bHttp) ++ 0x3A :: 0x2F :: 0x2F :: after := by
  unfold schemeWindow at h
  split at h
  · rename_i b4 b5 b6 rest
    by_cases h1 : (b4 == 0x3A && b5 == 0x2F && b6 == 0x2F) = true
    · simp only [h1, ↓reduceIte, Option.some.injEq, Prod.mk.injEq] at h
      obtain ⟨rfl, rfl⟩ := h
      simp only [Bool.and_eq_true, beq_iff_eq] at h1
      obtain ⟨⟨rfl, rfl⟩, rfl⟩ := h1
      rfl
    · simp only [h1, Bool.false_eq_true, ↓reduceIte] at h
      split at h
      · rename_i b7 rest'
        by_cases h2 : (b4 == 0x73 && b5 == 0x3A && b6 == 0x2F && b7 == 0x2F) = true
        · simp only [h2, ↓reduceIte, Option.some.injEq, Prod.mk.injEq] at h
          obtain ⟨rfl, rfl⟩ := h
          simp only [Bool.and_eq_true, beq_iff_eq] at h2
          obtain ⟨⟨⟨rfl, rfl⟩, rfl⟩, rfl⟩ := h2
          rfl
        · simp [h2] at h
      · cases h
  · cases h

theorem pathText_pathOf (P : Option Bytes) (hb : ∀ p, P = some p → ∀ b ∈ p, b ≠ 0x5C) :
    FP.pathText (pathOf P) = (P.map (fun p => 0x2F :: p)).getD [0x2F] := by
  cases hP : P with
  | none => simp [pathOf, FP.pathText]
  | some p =>
    simp only [pathOf, Option.map_some, Option.getD_some]
    cases hsp : splitPath true p with
    | nil => exact absurd hsp (splitPath_ne_nil true p)
    | cons seg more =>
      rw [FP.pathText_cons, join_split p (hb p hP) seg more hsp]

theorem restScan_spec (rest : Bytes) (hrest : rest = [] ∨ ∃ c t, rest = c :: t ∧ (c = 0x2F ∨ c = 0x3F ∨ c = 0x23))
    (path Q F : Option Bytes) (h : restScan rest = some (path, Q, F)) :
    ∃ P : Option Bytes, path = P.map (fun p => 0x2F :: p) ∧ rest = pText P ++ qText Q ++ fText F ∧
      (∀ p, P = some p → ∀ b ∈ p, restClass b = 0) ∧ (∀ q, Q = some q → ∀ b ∈ q, QByte b) ∧ (∀ f, F = some f → ∀ b ∈ f, FByte b) := by
  unfold restScan at h
  rcases hrest with rfl | ⟨c, t, rfl, hc⟩
  · simp only [Option.some.injEq, Prod.mk.injEq] at h
    obtain ⟨rfl, rfl, rfl⟩ := h
    exact ⟨none, rfl, rfl, (by intro p hp; cases hp), (by intro q hq; cases hq), (by intro f hf; cases hf)⟩
  · simp only at h
    by_cases h1 : (c == 0x2F) = true
    · have hc1 : c = 0x2F := by simpa using h1
      simp only [h1, ↓reduceIte] at h
      cases hps : pathScan t with
      | none => simp [hps] at h
      | some x =>
        obtain ⟨p, q, f⟩ := x
        simp only [hps, Option.map_some, Option.some.injEq, Prod.mk.injEq] at h
        obtain ⟨rfl, rfl, rfl⟩ := h
        obtain ⟨e, hp, hq, hf⟩ := pathScan_spec t p q f hps
        refine ⟨some p, (by simp [hc1]), (by rw [e, hc1]; simp [pText]), ?_, hq, hf⟩
        intro p' hp'
        injection hp' with hp'; subst hp'
        exact hp
    · simp only [h1, Bool.false_eq_true, ↓reduceIte] at h
      by_cases h2 : (c == 0x3F) = true
      · have hc2 : c = 0x3F := by simpa using h2
        simp only [h2, ↓reduceIte] at h
        cases hqs : queryScan t with
        | none => simp [hqs] at h
        | some x =>
          obtain ⟨q, f⟩ := x
          simp only [hqs, Option.map_some, Option.some.injEq, Prod.mk.injEq] at h
          obtain ⟨rfl, rfl, rfl⟩ := h
          obtain ⟨e, hq, hf⟩ := queryScan_spec t q f hqs
          refine ⟨none, rfl, (by rw [e, hc2]; simp [pText, qText]), (by intro p hp; cases hp), ?_, hf⟩
          intro q' hq'
          injection hq' with hq'; subst hq'
          exact hq
      · simp only [h2, Bool.false_eq_true, ↓reduceIte] at h
        have hc3 : c = 0x23 := by
          rcases hc with e | e | e
          · exact absurd (by simpa using e) h1
          · exact absurd (by simpa using e) h2
          · exact e
        by_cases hh : hashScan t = true
        · simp only [hh, ↓reduceIte, Option.some.injEq, Prod.mk.injEq] at h
          obtain ⟨rfl, rfl, rfl⟩ := h
          refine ⟨none, rfl, (by rw [hc3]; simp [pText, qText, fText]), (by intro p hp; cases hp), (by intro q hq; cases hq), ?_⟩
          intro f' hf'
          injection hf' with hf'; subst hf'
          exact hashScan_spec t hh
        · simp [hh] at h

/-- **`try_parse_simple_absolute` is sound**: what it writes is what the Standard's parser produces for the same input,
    whatever the IDNA function (the hosts it accepts never reach it) -/
theorem trySimple_sound (idna : Idna) (input : Bytes) (r : Model.UrlRec.Rec) (h : trySimple input = some r) :
    ∃ u, parse idna input none = some u ∧ UR.recOf u = r := by
  unfold trySimple at h
  by_cases h8 : input.length < 8
  · simp [h8] at h
  simp only [h8, ↓reduceIte] at h
  cases hsw : schemeWindow input with
  | none => simp [hsw] at h
  | some w =>
  obtain ⟨https, after⟩ := w
  have hin := schemeWindow_spec input https after hsw
  simp only [hsw] at h
  by_cases ha1 : after.isEmpty = true
  · simp [ha1] at h
  simp only [ha1, Bool.false_eq_true, ↓reduceIte] at h
  by_cases ha2 : (after.head? == some 0x2F || after.head? == some 0x5C) = true
  · simp [ha2] at h
  simp only [ha2, Bool.false_eq_true, ↓reduceIte] at h
  by_cases ha3 : Model.SimpleAbs.headIsDigit after = true
  · simp [ha3] at h
  simp only [ha3, Bool.false_eq_true, ↓reduceIte] at h
  cases hhs : hostScan after with
  | none => simp [hhs] at h
  | some x =>
  obtain ⟨host, rest⟩ := x
  obtain ⟨haft, hHc, hrest⟩ := hostScan_spec _ host rest hhs
  simp only [hhs] at h
  by_cases hnemp : host.isEmpty = true
  · simp [hnemp] at h
  simp only [hnemp, Bool.false_eq_true, ↓reduceIte] at h
  by_cases hlen : host.length > 253
  · simp [hlen] at h
  simp only [hlen, ↓reduceIte] at h
  by_cases hip4 : Model.HostKernels.isIpv4 (host.map toLowerByte) = true
  · simp [hip4] at h
  simp only [hip4, Bool.false_eq_true, ↓reduceIte] at h
  by_cases hxn : hasXnDash (host.map toLowerByte) = true
  · simp [hxn] at h
  simp only [hxn, Bool.false_eq_true, ↓reduceIte] at h
  cases hrs : restScan rest with
  | none => simp [hrs] at h
  | some y =>
  obtain ⟨path, Q, F⟩ := y
  simp only [hrs] at h
  by_cases hdot : dotRejectOpt path = true
  · simp [hdot] at h
  simp only [hdot, Bool.false_eq_true, ↓reduceIte, Option.some.injEq] at h
  obtain ⟨P, hpath, hr, hP, hQ, hF⟩ := restScan_spec rest hrest path Q F hrs
  have hne : host ≠ [] := by intro e; subst e; simp at hnemp
  have hxn' : hasXnDash (host.map toLowerByte) = false := by simpa using hxn
  have hlowne : host.map toLowerByte ≠ [] := fun e => hne (List.map_eq_nil_iff.mp e)
  have hlow : ∀ b ∈ host.map toLowerByte, isAsciiUpper b = false := by
    intro b hb
    obtain ⟨x, _, rfl⟩ := List.mem_map.mp hb
    exact (HP.cp_tables x).2.2.2
  have hnum : endsInANumber (host.map toLowerByte) = false := by
    rw [← K4.isIpv4_eq _ hlowne hlow]; simpa using hip4
  generalize hSdef : (if https = true then bHttps else bHttp) = S at hin
  have hS : S = bHttp ∨ S = bHttps := by cases https <;> simp [← hSdef]
  have hPd : ∀ p, P = some p → (∀ b ∈ p, restClass b = 0) ∧ dotReject (0x2F :: p) = false := by
    intro p hp
    refine ⟨hP p hp, ?_⟩
    subst hp
    simp only [Option.map_some] at hpath
    subst hpath
    simpa [dotRejectOpt] using hdot
  have hinput : input = S ++ 0x3A :: 0x2F :: 0x2F :: (host ++ pText P) ++ qText Q ++ fText F := by
    rw [hin, haft, hr]; simp [List.append_assoc]
  refine ⟨_, by rw [hinput]; exact parse_simple idna S host P Q F hS hne hHc hnum hxn' hPd hQ hF, ?_⟩
  have hbs : ∀ p, P = some p → ∀ b ∈ p, b ≠ 0x5C :=
    fun p hp b hb => ((restClass_facts b).1 (hP p hp b hb)).2.2.2.1
  have hsp : isSpecialScheme S = true := (scheme_bytes S hS).2.2.1
  have hsch : (if https = true then [0x68, 0x74, 0x74, 0x70, 0x73] else [0x68, 0x74, 0x74, 0x70]) = S := by
    rw [← hSdef]; cases https <;> rfl
  rw [← h, hsch, hpath]
  simp only [UR.recOf, Url.isSpecial, hsp, Option.map_some, Host.serialize, Url.pathSerialized, Bool.false_eq_true, ↓reduceIte]
  have := pathText_pathOf P hbs
  simp only [FP.pathText] at this
  rw [this]

end AdaVerif.Lemmas.SA

import AdaVerif.Lemmas.FastPort
/-
C08: soundness of the fast scanner.  Whenever `try_can_parse_absolute_fast` gives a definite answer, that answer is
whether the basic URL parser accepts the input without a base -- for every input and every IDNA parameter.
-/
namespace AdaVerif.Lemmas.FS
open AdaVerif AdaVerif.Spec AdaVerif.Lemmas AdaVerif.Model AdaVerif.Model.FastScan

theorem preprocess_trim (input : Bytes) : preprocess input = (trim input).filter (fun b => !isTabOrNewline b) := rfl

/-- no scheme and no base: failure -/
theorem parse_none_of_noscheme (idna : Idna) (input : Bytes)
    (h : takeScheme (cutAt 0x3F (cutAt 0x23 (preprocess input)).1).1 = none) : parse idna input none = none := by
  unfold parse
  simp only
  unfold parseCore
  simp [h]

theorem isWs_tn : ∀ b : UInt8, isWs b = false → isTabOrNewline b = false := by
  apply forall_uint8_of_fin; decide +kernel

theorem trim_head (s : Bytes) (b : UInt8) (h : (trim s).head? = some b) : isWs b = false := by
  unfold trim at h
  have hpre : ((s.dropWhile isWs).reverse.dropWhile isWs).reverse <+: s.dropWhile isWs := by
    have := List.dropWhile_suffix isWs (l := (s.dropWhile isWs).reverse)
    have := List.reverse_prefix.mpr this
    simpa using this
  obtain ⟨r, hr⟩ := hpre
  cases hx : ((s.dropWhile isWs).reverse.dropWhile isWs).reverse with
  | nil => rw [hx] at h; cases h
  | cons a t =>
    rw [hx] at h hr
    simp only [List.head?_cons, Option.some.injEq] at h
    subst h
    have := List.head?_dropWhile_not isWs s
    rw [← hr] at this
    simpa using this

theorem filter_keep_head (b : UInt8) (rest : Bytes) (hb : isTabOrNewline b = false) :
    (b :: rest).filter (fun x => !isTabOrNewline x) = b :: rest.filter (fun x => !isTabOrNewline x) := by
  simp [List.filter_cons, hb]

theorem filter_clean (l : Bytes) (h : ∀ b ∈ l, isTabOrNewline b = false) : l.filter (fun x => !isTabOrNewline x) = l := by
  rw [List.filter_eq_self]; intro b hb; simp [h b hb]

/-- first byte is not a letter: no scheme, failure -/
theorem parse_none_not_alpha (idna : Idna) (input : Bytes) (b0 : UInt8) (rest : Bytes) (ht : trim input = b0 :: rest)
    (ha : isAsciiAlpha b0 = false) : parse idna input none = none := by
  apply parse_none_of_noscheme
  have hws := trim_head input b0 (by rw [ht]; rfl)
  rw [preprocess_trim, ht, filter_keep_head b0 rest (isWs_tn b0 hws)]
  have := cuts_head (b0 :: rest.filter (fun x => !isTabOrNewline x))
  simp only at this
  rcases this with h | h
  · rw [h]; rfl
  · generalize (cutAt 0x3F (cutAt 0x23 (b0 :: rest.filter (fun x => !isTabOrNewline x))).1).1 = X at h
    cases X with
    | nil => rfl
    | cons x xs =>
      have : x = b0 := by simpa using h.1
      subst this
      simp [takeScheme, ha]

/-- a byte that cannot be part of a scheme before any ':' : no scheme, failure -/
theorem parse_none_reject (idna : Idna) (input : Bytes) (b0 : UInt8) (pre : Bytes) (c : UInt8) (rest : Bytes)
    (ht : trim input = b0 :: (pre ++ c :: rest)) (ha : isAsciiAlpha b0 = true)
    (hpre : ∀ b ∈ pre, isSchemeChar b = true) (hc1 : c ≠ 0x3A) (hc2 : isSchemeChar c = false) (hc3 : isTabNl c = false) :
    parse idna input none = none := by
  apply parse_none_of_noscheme
  have hA : ∀ b ∈ b0 :: pre, isSchemeChar b = true := by
    intro b hb
    rcases List.mem_cons.mp hb with rfl | hb
    · exact (lower_alpha b ha).2
    · exact hpre b hb
  have hAtn : ∀ b ∈ b0 :: pre, isTabOrNewline b = false := fun b hb => (schemeChar_facts b (hA b hb)).2.2
  have hctn : isTabOrNewline c = false := by simpa [isTabNl, isTabOrNewline] using hc3
  have hs : preprocess input = (b0 :: pre) ++ (c :: rest.filter (fun x => !isTabOrNewline x)) := by
    rw [preprocess_trim, ht, show b0 :: (pre ++ c :: rest) = (b0 :: pre) ++ (c :: rest) from rfl, List.filter_append,
      filter_clean _ hAtn, filter_keep_head c rest hctn]
  rw [hs]
  have hc1' := cutAt_append_notin 0x23 (b0 :: pre) (c :: rest.filter (fun x => !isTabOrNewline x))
    (fun hm => (schemeChar_facts _ (hA _ hm)).2.1 rfl)
  rw [hc1']
  simp only
  have hc2' := cutAt_append_notin 0x3F (b0 :: pre) (cutAt 0x23 (c :: rest.filter (fun x => !isTabOrNewline x))).1
    (fun hm => (schemeChar_facts _ (hA _ hm)).1 rfl)
  rw [hc2']
  simp only
  have hY := cuts_head (c :: rest.filter (fun x => !isTabOrNewline x))
  simp only at hY
  generalize (cutAt 0x3F (cutAt 0x23 (c :: rest.filter (fun x => !isTabOrNewline x))).1).1 = Y at hY
  have hYhead : ∀ y ys, Y = y :: ys → y = c := by
    intro y ys e
    rcases hY with h | h
    · rw [h] at e; cases e
    · rw [e] at h; simpa using h.1
  -- the scheme scan stops at the end of `b0 :: pre`, where no ':' follows
  unfold takeScheme
  simp only [List.cons_append, ha, Bool.not_true, Bool.false_eq_true, ↓reduceIte]
  have htw : (b0 :: (pre ++ Y)).takeWhile isSchemeChar = b0 :: pre := by
    rw [show b0 :: (pre ++ Y) = (b0 :: pre) ++ Y from rfl]
    cases Y with
    | nil => rw [List.append_nil]; exact FP.takeWhile_all _ _ hA
    | cons y ys =>
      have := hYhead y ys rfl
      subst this
      exact FP.takeWhile_append_stop _ _ _ _ hA hc2
  rw [htw]
  have hd : (b0 :: (pre ++ Y)).drop (b0 :: pre).length = Y := by
    rw [show b0 :: (pre ++ Y) = (b0 :: pre) ++ Y from rfl]; exact List.drop_left' rfl
  rw [hd]
  cases Y with
  | nil => rfl
  | cons y ys =>
    have := hYhead y ys rfl
    subst this
    split
    · rename_i heq; injection heq with e _; exact absurd e hc1
    · rfl

/-- a definite answer of the general scheme detection is `false`, and the parser fails too -/
theorem generalScheme_inl (idna : Idna) (input : Bytes) (b : Bool) (h : generalScheme (trim input) = .inl (some b)) :
    b = false ∧ parse idna input none = none := by
  unfold generalScheme at h
  split at h
  · rename_i ht
    injection h with h; injection h with h
    refine ⟨h.symm, ?_⟩
    apply parse_none_of_noscheme
    rw [preprocess_trim, ht]; rfl
  · rename_i b0 rest ht
    split at h
    · rename_i halpha
      injection h with h; injection h with h
      have ha : isAsciiAlpha b0 = false := by rw [← isAlpha_eq]; simpa using halpha
      exact ⟨h.symm, parse_none_not_alpha idna input b0 rest ht ha⟩
    · rename_i halpha
      have ha : isAsciiAlpha b0 = true := by rw [← isAlpha_eq]; simpa using halpha
      split at h
      · cases h
      · rename_i hrej
        injection h with h; injection h with h
        obtain ⟨pre, c, rest', e1, e2, e3, e4, e5⟩ := findColon_reject rest 1 hrej
        exact ⟨h.symm, parse_none_reject idna input b0 pre c rest' (by rw [ht, e1]) ha e2 e3 e4 e5⟩
      · simp only at h
        split at h; · cases h
        split at h; · cases h
        split at h <;> cases h

/-- the scanner after the scheme has been found (`skip_extra_slashes:` onwards) -/
def cont (t : Bytes) (pos : Nat) : Option Bool :=
  let after := (t.drop pos).dropWhile (fun b => b == 0x2F || b == 0x5C)
  let authStart := t.length - after.length
  if after.head? == some 0x5B then none else
  match authScan after authStart {} with
  | .inl r => r
  | .inr (authEnd, st) =>
    let hostEnd := st.portColon.getD authEnd
    if authStart == hostEnd then some false else
    let host := (t.drop authStart).take (hostEnd - authStart)
    let portCheck : Option Bool :=
      match st.portColon with
      | some pc => if FastScan.portOk ((t.drop (pc + 1)).take (authEnd - pc - 1)) then some true else some false
      | none => some true
    if st.allDecDots then
      if (ipv4Fast host).isSome then portCheck else none
    else
      let lc := lo st.lastNonDot
      if isDigit st.lastNonDot || (0x61 ≤ lc.toNat && lc.toNat ≤ 0x66) || lc == 0x78 then none
      else portCheck

theorem fastScan_eq (input : Bytes) :
    fastScan input =
      (if (trim input).isEmpty then some false else
        match (match httpShortcut (trim input) with
               | some p => (Sum.inr p : Sum (Option Bool) Nat)
               | none => generalScheme (trim input)) with
        | .inl r => r
        | .inr pos => cont (trim input) pos) := rfl

/-! ### from the scan's facts to the host parser's verdict -/
theorem splitOn_head_prefix (sep : UInt8) (s h : Bytes) (tl : List Bytes) (hs : splitOn sep s = h :: tl) : ∃ r, s = h ++ r := by
  induction s generalizing h tl with
  | nil => simp [splitOn] at hs; exact ⟨[], by simp [hs.1]⟩
  | cons b rest ih =>
    simp only [splitOn] at hs
    split at hs
    · injection hs with h1 _; subst h1; exact ⟨b :: rest, rfl⟩
    · cases hsp : splitOn sep rest with
      | nil => exact absurd hsp (splitOn_ne_nil sep rest)
      | cons h' tl' =>
        rw [hsp] at hs
        injection hs with h1 _
        obtain ⟨r, hr⟩ := ih h' tl' hsp
        exact ⟨r, by rw [← h1, hr]; rfl⟩

theorem splitOn_infix (sep : UInt8) (s label : Bytes) (hl : label ∈ splitOn sep s) : ∃ a r, s = a ++ (label ++ r) := by
  induction s with
  | nil => simp [splitOn] at hl; subst hl; exact ⟨[], [], rfl⟩
  | cons b rest ih =>
    simp only [splitOn] at hl
    split at hl
    · rcases List.mem_cons.mp hl with rfl | hl
      · exact ⟨[], b :: rest, rfl⟩
      · obtain ⟨a, r, e⟩ := ih hl
        exact ⟨b :: a, r, by rw [e]; rfl⟩
    · cases hsp : splitOn sep rest with
      | nil => exact absurd hsp (splitOn_ne_nil sep rest)
      | cons h' tl' =>
        rw [hsp] at hl
        simp only [List.mem_cons] at hl
        rcases hl with rfl | hl
        · obtain ⟨r, hr⟩ := splitOn_head_prefix sep rest h' tl' hsp
          exact ⟨[], r, by rw [hr]; rfl⟩
        · obtain ⟨a, r, e⟩ := ih (by rw [hsp]; simp [hl])
          exact ⟨b :: a, r, by rw [e]; rfl⟩

theorem xn_lo : ∀ b : UInt8, ((b == 0x78 || b == 0x58) = (lo b == 0x78)) ∧ ((b == 0x6E || b == 0x4E) = (lo b == 0x6E)) := by
  apply forall_uint8_of_fin; decide +kernel

theorem noxn_of_scan (host tl' : Bytes) (h : ∀ a b, host = a ++ b → b ≠ [] → xnAt (b ++ tl') = false) :
    (splitOn 0x2E host).any startsWithXn = false := by
  simp only [List.any_eq_false]
  intro label hl hx
  obtain ⟨a, r, e⟩ := splitOn_infix 0x2E host label hl
  match label, hx with
  | x :: n :: d1 :: d2 :: more, hx =>
    have := h a ((x :: n :: d1 :: d2 :: more) ++ r) e (by simp)
    simp only [startsWithXn, (xn_lo x).1, (xn_lo n).2] at hx
    simp only [List.cons_append, xnAt] at this
    rw [hx] at this
    cases this
  | [], hx => simp [startsWithXn] at hx
  | [_], hx => simp [startsWithXn] at hx
  | [_, _], hx => simp [startsWithXn] at hx
  | [_, _, _], hx => simp [startsWithXn] at hx

theorem lower_dot : ∀ b : UInt8, ((toLowerByte b != 0x2E) = (b != 0x2E)) ∧ numTail (toLowerByte b) = numTail b := by
  apply forall_uint8_of_fin; decide +kernel

theorem lnd_map_lower (s : Bytes) : lnd (s.map toLowerByte) = (lnd s).map toLowerByte := by
  unfold lnd
  have : (s.map toLowerByte).filter (· != 0x2E) = (s.filter (· != 0x2E)).map toLowerByte := by
    induction s with
    | nil => rfl
    | cons b t ih =>
      simp only [List.map_cons, List.filter_cons, (lower_dot b).1]
      split <;> simp [ih]
  rw [this, List.getLast?_map]

theorem dd_lower : ∀ b : UInt8, ddByte b = true → toLowerByte b = b ∧ (isAsciiDigit b = true ∨ b = 0x2E) := by
  apply forall_uint8_of_fin; decide +kernel

/-- the scanner's host decision is the host parser's: whenever the scanner goes on to the port, the host parses -/
theorem host_decision (idna : Idna) (host tl' : Bytes) (hne : host ≠ []) (e2 : ∀ b ∈ host, hostOk b)
    (e3 : ∀ a b, host = a ++ b → b ≠ [] → xnAt (b ++ tl') = false) :
    (host.all ddByte = true → (ipv4Fast host).isSome = true → (hostParse idna host false).isSome = true) ∧
    (host.all ddByte = false → numTail ((lnd host).getD 0) = false → (hostParse idna host false).isSome = true) := by
  have hT : HostText host := ⟨hne, fun b hb => (e2 b hb).1.1, fun b hb => (e2 b hb).2.2, noxn_of_scan host tl' e3⟩
  have hpa := hostParse_ascii idna host hT
  constructor
  · intro hdd hfast
    have hlow : host.map toLowerByte = host := by
      apply FP.map_id_of
      intro b hb
      simp only [List.all_eq_true] at hdd
      exact (dd_lower b (hdd b hb)).1
    rw [hlow] at hpa
    unfold ipv4Fast at hfast
    split at hfast; · cases hfast
    cases hq : ipv4Decimal host with
    | none => rw [hq] at hfast; cases hfast
    | some ip =>
      obtain ⟨s1, s2, _⟩ := ipv4Decimal_sound host ip hq
      rw [hpa, s1]
      simp only [↓reduceIte, Option.isSome_map]
      exact s2
  · intro _ hnt
    have hnum : endsInANumber (host.map toLowerByte) = false := by
      cases hq : endsInANumber (host.map toLowerByte) with
      | false => rfl
      | true =>
        obtain ⟨z, hz, hzt⟩ := endsInANumber_lnd _ hq
        rw [lnd_map_lower] at hz
        cases hl : lnd host with
        | none => rw [hl] at hz; cases hz
        | some z0 =>
          rw [hl] at hz hnt
          simp only [Option.map_some, Option.some.injEq] at hz
          subst hz
          rw [(lower_dot z0).2] at hzt
          simp only [Option.getD_some] at hnt
          rw [hnt] at hzt; cases hzt
    rw [hpa, hnum]; rfl

theorem authByte_facts (b : UInt8) (h : authByte b) :
    isSlash b = false ∧ b ≠ 0x3F ∧ b ≠ 0x23 ∧ b ≠ 0x40 ∧ isTabOrNewline b = false := by
  obtain ⟨_, h1, h2, h3, h4, h5, _, h7⟩ := h
  have e1 : (b == 0x2F) = false := by simpa using h1
  have e2 : (b == 0x5C) = false := by simpa using h4
  refine ⟨by simp [isSlash, e1, e2], h2, h3, h5, ?_⟩
  simpa [isTabNl, isTabOrNewline] using h7

theorem delim_facts : ∀ b : UInt8, (b = 0x2F ∨ b = 0x3F ∨ b = 0x23 ∨ b = 0x5C) →
    isTabOrNewline b = false ∧ (isSlash b = true ∨ b = 0x3F ∨ b = 0x23) := by
  apply forall_uint8_of_fin; decide +kernel

/-- the Spec side for a trimmed input cut the way the scanner cuts it -/
theorem spec_reduce (idna : Idna) (input t raw sl auth rest0 : Bytes) (c : UInt8) (tlr : Bytes)
    (htrim : trim input = t) (ett : t = raw ++ 0x3A :: 0x2F :: 0x2F :: (sl ++ (auth ++ rest0)))
    (eraw : raw = c :: tlr) (hc : isAsciiAlpha c = true) (hall : ∀ x ∈ raw, isSchemeChar x = true)
    (hsp : isSpecialScheme (raw.map toLowerByte) = true) (hnf : raw.map toLowerByte ≠ bFile)
    (hslash : ∀ b ∈ sl, isSlash b = true) (hauth : ∀ b ∈ auth, authByte b) (hrest : delimHead rest0)
    (hempty : auth = [] → ∀ b, rest0.head? = some b → isSlash b = false) :
    (parse idna input none).isSome = (parseHostPort idna (raw.map toLowerByte) auth).isSome := by
  have hfr : ∀ b, (rest0.filter (fun x => !isTabOrNewline x)).head? = some b → rest0.head? = some b := by
    intro b hb
    cases rest0 with
    | nil => simp at hb
    | cons d r =>
      have hd := (delim_facts d (hrest d rfl)).1
      rw [filter_keep_head d r hd] at hb
      exact hb
  apply parse_special_abs idna input raw sl auth (rest0.filter (fun x => !isTabOrNewline x)) c tlr ?_ eraw hc hall hsp hnf hslash
  · intro b hb
    have := authByte_facts b (hauth b hb)
    exact ⟨this.1, this.2.1, this.2.2.1, this.2.2.2.1⟩
  · intro b hb
    exact (delim_facts b (hrest b (hfr b hb))).2
  · intro he b hb
    exact hempty he b (hfr b hb)
  · rw [preprocess_trim, htrim, ett]
    simp only [List.filter_append, List.filter_cons]
    rw [filter_clean raw (fun b hb => (schemeChar_facts b (hall b hb)).2.2),
      filter_clean sl (fun b hb => (slash_facts b (hslash b hb)).2.2),
      filter_clean auth (fun b hb => (authByte_facts b (hauth b hb)).2.2.2.2)]
    simp [isTabOrNewline]

theorem cont_sound (idna : Idna) (input : Bytes) (pos : Nat) (hcut : SchemeCut (trim input) pos) (r : Bool)
    (h : cont (trim input) pos = some r) : r = (parse idna input none).isSome := by
  obtain ⟨raw, t2, c, tl, et, epos, eraw, hc, hall, hsp, hnf⟩ := hcut.ex
  generalize htrim : trim input = t at et h
  have hdrop : t.drop pos = t2 := by
    rw [et, epos, show raw ++ 0x3A :: 0x2F :: 0x2F :: t2 = (raw ++ [0x3A, 0x2F, 0x2F]) ++ t2 by simp]
    exact List.drop_left' (by simp)
  unfold cont at h
  simp only [hdrop] at h
  have ht2 := (List.takeWhile_append_dropWhile (p := fun b => b == 0x2F || b == 0x5C) (l := t2)).symm
  have hslash : ∀ b ∈ t2.takeWhile (fun b => b == 0x2F || b == 0x5C), isSlash b = true :=
    fun b hb => mem_takeWhile_prop hb
  have hahead : ∀ b, (t2.dropWhile (fun b => b == 0x2F || b == 0x5C)).head? = some b → isSlash b = false := by
    intro b hb
    have := List.head?_dropWhile_not (fun b => b == 0x2F || b == 0x5C) t2
    rw [hb] at this
    simpa [isSlash] using this
  generalize t2.takeWhile (fun b => b == 0x2F || b == 0x5C) = sl at ht2 hslash
  generalize t2.dropWhile (fun b => b == 0x2F || b == 0x5C) = after at ht2 hahead h
  -- t = pfx ++ after
  have ett : t = (raw ++ 0x3A :: 0x2F :: 0x2F :: sl) ++ after := by rw [et, ht2]; simp
  have hlen : t.length - after.length = (raw ++ 0x3A :: 0x2F :: 0x2F :: sl).length := by
    rw [ett, List.length_append, Nat.add_sub_cancel]
  have hdropA : t.drop (raw ++ 0x3A :: 0x2F :: 0x2F :: sl).length = after := by rw [ett]; exact List.drop_left' rfl
  rw [hlen] at h
  generalize hA : (raw ++ 0x3A :: 0x2F :: 0x2F :: sl).length = authStart at h hdropA
  split at h; · cases h
  rename_i hbracket
  cases hscan : authScan after authStart {} with
  | inl r0 =>
    rw [hscan] at h
    simp only at h
    rw [authScan_inl _ _ _ _ hscan] at h
    cases h
  | inr res =>
    obtain ⟨authEnd, st⟩ := res
    rw [hscan] at h
    simp only at h
    obtain ⟨host, tl', e1, e2, e3, e4, e5, e6⟩ := authScan_host after authStart {} rfl authEnd st hscan
    have e4' : st.allDecDots = host.all ddByte := by simpa using e4
    have e5' : st.lastNonDot = (lnd host).getD 0 := e5
    have hhb : ∀ b ∈ host, b ≠ 0x3A ∧ b ≠ 0x5B ∧ b ≠ 0x5D := by
      intro b hb
      have f := FP.forbDomain_facts b (e2 b hb).2.2 (e2 b hb).1.1
      exact ⟨f.2.1, f.2.2.1, f.2.2.2.1⟩
    have hhauth : ∀ b ∈ host, authByte b := fun b hb => (e2 b hb).1
    have hsub : authStart + host.length - authStart = host.length := by omega
    have hbeq : (authStart == authStart + host.length) = host.isEmpty := by
      cases host with
      | nil => simp
      | cons x xs => simp
    have htake : List.take host.length (List.drop authStart t) = host := by
      rw [hdropA, e1]; exact List.take_left' rfl
    have hnumtail : (isDigit st.lastNonDot || decide (97 ≤ (lo st.lastNonDot).toNat) && decide ((lo st.lastNonDot).toNat ≤ 102) ||
        lo st.lastNonDot == 120) = numTail ((lnd host).getD 0) := by rw [e5']; rfl
    rw [hnumtail, e4'] at h
    rcases e6 with ⟨g1, g2, g3⟩ | ⟨port, rest, g1, g2, g3, g4, g5⟩
    · -- no port
      have hred := spec_reduce idna input t raw sl host tl' c tl htrim (by rw [ett, e1]; simp) eraw hc hall hsp hnf hslash
        hhauth g1 (fun he b hb => hahead b (by rw [e1, he]; exact hb))
      rw [hred, parseHostPort_nocolon idna _ host hsp hhb]
      rw [g2] at h
      simp only [Option.getD_none, g3, hbeq, hsub, htake] at h
      by_cases hh : host = []
      · subst hh
        simp at h
        subst h
        simp
      · have hemp : host.isEmpty = false := isEmpty_false_of_ne hh
        obtain ⟨d1, d2⟩ := host_decision idna host tl' hh e2 e3
        simp only [hemp, Bool.false_eq_true, ↓reduceIte] at h
        simp only [hemp, Bool.not_false, Bool.true_and]
        by_cases hdd : host.all ddByte = true
        · simp only [hdd, ↓reduceIte] at h
          split at h
          · rename_i hf
            injection h with h; subst h
            exact (d1 hdd hf).symm
          · cases h
        · have hdd' : host.all ddByte = false := by simpa using hdd
          simp only [hdd', Bool.false_eq_true, ↓reduceIte] at h
          split at h
          · cases h
          · rename_i hnt
            injection h with h; subst h
            exact (d2 hdd' (by simpa using hnt)).symm
    · -- with a port
      have hauthB : ∀ b ∈ host ++ 0x3A :: port, authByte b := by
        intro b hb
        simp only [List.mem_append, List.mem_cons] at hb
        rcases hb with hb | rfl | hb
        · exact hhauth b hb
        · unfold authByte; decide
        · exact g5 b hb
      have hred := spec_reduce idna input t raw sl (host ++ 0x3A :: port) rest c tl htrim (by rw [ett, e1, g1]; simp) eraw hc hall
        hsp hnf hslash hauthB g4 (fun he => by simp at he)
      rw [hred, parseHostPort_colon idna _ host port hsp hhb, ← portOk_eq]
      have hporttake : List.take (authEnd - (authStart + host.length) - 1) (List.drop (authStart + host.length + 1) t) = port := by
        have h1 : List.drop (authStart + host.length + 1) t = port ++ rest := by
          rw [show authStart + host.length + 1 = authStart + (host.length + 1) by omega, ← List.drop_drop, hdropA, e1, g1]
          rw [show host ++ 0x3A :: (port ++ rest) = (host ++ [0x3A]) ++ (port ++ rest) by simp]
          exact List.drop_left' (by simp)
        have h2 : authEnd - (authStart + host.length) - 1 = port.length := by omega
        rw [h1, h2]; exact List.take_left' rfl
      rw [g2] at h
      simp only [Option.getD_some, hbeq, hsub, htake, hporttake] at h
      by_cases hh : host = []
      · subst hh
        simp at h
        subst h
        simp
      · have hemp : host.isEmpty = false := isEmpty_false_of_ne hh
        obtain ⟨d1, d2⟩ := host_decision idna host tl' hh e2 e3
        simp only [hemp, Bool.false_eq_true, ↓reduceIte] at h
        simp only [hemp, Bool.not_false, Bool.true_and]
        have fin : ∀ (hp : (hostParse idna host false).isSome = true),
            (if FastScan.portOk port = true then some true else some false) = some r →
            r = ((hostParse idna host false).isSome && FastScan.portOk port) := by
          intro hp hr
          rw [hp, Bool.true_and]
          split at hr <;> (injection hr with hr; subst hr; simp_all)
        by_cases hdd : host.all ddByte = true
        · simp only [hdd, ↓reduceIte] at h
          split at h
          · rename_i hf
            exact fin (d1 hdd hf) h
          · cases h
        · have hdd' : host.all ddByte = false := by simpa using hdd
          simp only [hdd', Bool.false_eq_true, ↓reduceIte] at h
          split at h
          · cases h
          · rename_i hnt
            exact fin (d2 hdd' (by simpa using hnt)) h

/-- **FastSound**: a definite answer of the fast scanner is the parser's verdict, for every input and every IDNA
    parameter -/
theorem fast_sound (idna : Idna) (input : Bytes) (r : Bool) (h : fastScan input = some r) :
    r = (parse idna input none).isSome := by
  rw [fastScan_eq] at h
  split at h
  · rename_i hemp
    injection h with h; subst h
    have ht : trim input = [] := by simpa using hemp
    have : parse idna input none = none := by
      apply parse_none_of_noscheme
      rw [preprocess_trim, ht]; rfl
    rw [this]; rfl
  · cases hs : httpShortcut (trim input) with
    | some p =>
      rw [hs] at h
      exact cont_sound idna input p (httpShortcut_cut _ p hs) r h
    | none =>
      rw [hs] at h
      simp only at h
      cases hg : generalScheme (trim input) with
      | inl r0 =>
        rw [hg] at h
        simp only at h
        subst h
        obtain ⟨e1, e2⟩ := generalScheme_inl idna input r hg
        rw [e1, e2]; rfl
      | inr p =>
        rw [hg] at h
        exact cont_sound idna input p (generalScheme_cut _ p hg) r h

end AdaVerif.Lemmas.FS

import AdaVerif.Lemmas.ParseInv
import AdaVerif.Lemmas.HostFixed
import AdaVerif.Lemmas.Ipv6
/-
C05: a canonical URL record is a fixed point of serialise-then-parse (`Spec.parse (href u) none = some u`).
Generic list lemmas, then the pieces of the parser in the order the href is consumed.
-/
namespace AdaVerif.Lemmas.FP
open AdaVerif AdaVerif.Spec AdaVerif.Lemmas

/-! ### cuts -/
theorem cutAt_none (c : UInt8) (s : Bytes) (h : c ∉ s) : cutAt c s = (s, none) := by
  induction s with
  | nil => rfl
  | cons b t ih =>
    have hb : (b == c) = false := by
      have : b ≠ c := fun e => h (by simp [e])
      simpa using this
    simp only [cutAt, hb, Bool.false_eq_true, ↓reduceIte]
    rw [ih (fun hm => h (by simp [hm]))]

theorem cutAt_some (c : UInt8) (a r : Bytes) (h : c ∉ a) : cutAt c (a ++ c :: r) = (a, some r) := by
  induction a with
  | nil => simp [cutAt]
  | cons b t ih =>
    have hb : (b == c) = false := by
      have : b ≠ c := fun e => h (by simp [e])
      simpa using this
    simp only [List.cons_append, cutAt, hb, Bool.false_eq_true, ↓reduceIte]
    rw [ih (fun hm => h (by simp [hm]))]

/-! ### preprocessing -/
theorem dropWhile_id {α} (p : α → Bool) (s : List α) (h : ∀ a, s.head? = some a → p a = false) : s.dropWhile p = s := by
  cases s with
  | nil => rfl
  | cons a t => simp [List.dropWhile_cons, h a rfl]

theorem dropWhileEnd_id (p : UInt8 → Bool) (s : Bytes) (h : ∀ a, s.getLast? = some a → p a = false) :
    dropWhileEnd p s = s := by
  unfold dropWhileEnd
  rw [dropWhile_id p s.reverse (by simpa using h)]
  simp

theorem filter_id {α} (p : α → Bool) (s : List α) (h : ∀ a ∈ s, p a = true) : s.filter p = s := by
  rw [List.filter_eq_self]; exact h

theorem preprocess_id (s : Bytes) (hh : ∀ a, s.head? = some a → isC0OrSpace a = false)
    (hl : ∀ a, s.getLast? = some a → isC0OrSpace a = false) (hm : ∀ a ∈ s, isTabOrNewline a = false) :
    preprocess s = s := by
  unfold preprocess
  rw [dropWhile_id _ _ hh, dropWhileEnd_id _ _ hl, filter_id _ _ (by intro a ha; simp [hm a ha])]

theorem map_id_of {α} (f : α → α) (l : List α) (h : ∀ x ∈ l, f x = x) : l.map f = l := by
  induction l with
  | nil => rfl
  | cons a t ih => simp [h a (by simp), ih (fun x hx => h x (by simp [hx]))]

/-! ### scheme -/
theorem lowerScheme_facts : ∀ b : UInt8, isLowerSchemeByte b = true → isSchemeChar b = true ∧ toLowerByte b = b ∧ b ≠ 0x3A := by
  apply forall_uint8_of_fin; decide +kernel
theorem lower_is_alpha : ∀ b : UInt8, isAsciiLower b = true → isAsciiAlpha b = true ∧ isLowerSchemeByte b = true := by
  apply forall_uint8_of_fin; decide +kernel

theorem takeWhile_append_stop {α} (p : α → Bool) (a : List α) (c : α) (r : List α) (ha : ∀ x ∈ a, p x = true) (hc : p c = false) :
    (a ++ c :: r).takeWhile p = a := by
  induction a with
  | nil => simp [List.takeWhile_cons, hc]
  | cons x t ih =>
    simp only [List.cons_append, List.takeWhile_cons, ha x (by simp), ↓reduceIte]
    rw [ih (fun y hy => ha y (by simp [hy]))]

theorem takeWhile_all {α} (p : α → Bool) (a : List α) (ha : ∀ x ∈ a, p x = true) : a.takeWhile p = a := by
  induction a with
  | nil => rfl
  | cons x t ih => simp only [List.takeWhile_cons, ha x (by simp), ↓reduceIte]; rw [ih (fun y hy => ha y (by simp [hy]))]

theorem takeScheme_href (scheme rest : Bytes) (h : schemeOk scheme = true) :
    takeScheme (scheme ++ 0x3A :: rest) = some (scheme, rest) := by
  cases scheme with
  | nil => simp [schemeOk] at h
  | cons c t =>
    simp only [schemeOk, Bool.and_eq_true, List.all_eq_true] at h
    obtain ⟨hc, ht⟩ := h
    have hall : ∀ x ∈ c :: t, isLowerSchemeByte x = true := by
      intro x hx
      rcases List.mem_cons.mp hx with rfl | hx
      · exact (lower_is_alpha _ hc).2
      · exact ht x hx
    have htw : ((c :: t) ++ 0x3A :: rest).takeWhile isSchemeChar = c :: t :=
      takeWhile_append_stop _ _ _ _ (fun x hx => (lowerScheme_facts x (hall x hx)).1) (by decide)
    have hmap : (c :: t).map toLowerByte = c :: t :=
      map_id_of _ _ (fun x hx => (lowerScheme_facts x (hall x hx)).2.1)
    unfold takeScheme
    simp only [List.cons_append, (lower_is_alpha _ hc).1, Bool.not_true, Bool.false_eq_true, ↓reduceIte]
    rw [show c :: (t ++ 0x3A :: rest) = (c :: t) ++ 0x3A :: rest from rfl, htw]
    simp [hmap]

/-! ### path -/
def isSep (special : Bool) (b : UInt8) : Bool := b == 0x2F || (special && b == 0x5C)

theorem splitPath_last (sp : Bool) (seg : Bytes) (h : ∀ b ∈ seg, isSep sp b = false) : splitPath sp seg = [seg] := by
  induction seg with
  | nil => rfl
  | cons b t ih =>
    have hb := h b (by simp)
    unfold isSep at hb
    simp only [splitPath, hb, Bool.false_eq_true, ↓reduceIte]
    rw [ih (fun x hx => h x (by simp [hx]))]

theorem splitPath_cons (sp : Bool) (seg rest : Bytes) (h : ∀ b ∈ seg, isSep sp b = false) :
    splitPath sp (seg ++ 0x2F :: rest) = seg :: splitPath sp rest := by
  induction seg with
  | nil => simp [splitPath]
  | cons b t ih =>
    have hb := h b (by simp)
    unfold isSep at hb
    simp only [List.cons_append, splitPath, hb, Bool.false_eq_true, ↓reduceIte]
    rw [ih (fun x hx => h x (by simp [hx]))]

/-- the path text after the leading '/' -/
def joinTail (seg : Bytes) (more : List Bytes) : Bytes := seg ++ more.flatMap (fun s => 0x2F :: s)

theorem splitPath_join (sp : Bool) (seg : Bytes) (more : List Bytes)
    (h : ∀ s ∈ seg :: more, ∀ b ∈ s, isSep sp b = false) : splitPath sp (joinTail seg more) = seg :: more := by
  induction more generalizing seg with
  | nil => simpa [joinTail] using splitPath_last sp seg (h seg (by simp))
  | cons m rest ih =>
    have : joinTail seg (m :: rest) = seg ++ 0x2F :: joinTail m rest := by simp [joinTail]
    rw [this, splitPath_cons sp seg _ (h seg (by simp)), ih m (fun s hs => h s (by simp only [List.mem_cons] at hs ⊢; exact Or.inr hs))]

/-- a path segment that the path state leaves alone -/
structure SegOk (special : Bool) (seg : Bytes) : Prop where
  enc : ∀ b ∈ seg, inPath b = false
  sep : ∀ b ∈ seg, isSep special b = false
  nodot : isSingleDot seg = false
  noddot : isDoubleDot seg = false

theorem percentEncode_id (p : UInt8 → Bool) (s : Bytes) (h : ∀ b ∈ s, p b = false) : percentEncode p s = s := by
  induction s with
  | nil => rfl
  | cons b t ih =>
    have := ih (fun x hx => h x (by simp [hx]))
    simp only [percentEncode, List.flatMap_cons, h b (by simp), Bool.false_eq_true, ↓reduceIte] at this ⊢
    simp [this]

theorem drive_norm (seg : Bytes) (h : isNormalizedWindowsDriveLetter seg = true) : ∃ a, seg = [a, 0x3A] := by
  unfold isNormalizedWindowsDriveLetter at h
  split at h
  · rename_i a b
    simp only [Bool.and_eq_true, beq_iff_eq] at h
    exact ⟨a, by rw [h.2]⟩
  · cases h

theorem pathSegments_canon (scheme : Bytes) (segs acc : List Bytes)
    (hs : ∀ s ∈ segs, SegOk (isSpecialScheme scheme) s)
    (hd : scheme = bFile → acc = [] → ∀ s, segs.head? = some s → isWindowsDriveLetter s = true →
          isNormalizedWindowsDriveLetter s = true) :
    pathSegments scheme segs acc = acc ++ segs := by
  induction segs generalizing acc with
  | nil => simp [pathSegments]
  | cons seg more ih =>
    have ok := hs seg (by simp)
    have henc := percentEncode_id inPath seg ok.enc
    have hrest := ih (acc ++ [seg]) (fun s hs' => hs s (by simp [hs'])) (fun _ h => by simp at h)
    by_cases hc : (scheme == bFile && acc.isEmpty && isWindowsDriveLetter seg) = true
    · have hc' := hc
      simp only [Bool.and_eq_true, beq_iff_eq, List.isEmpty_iff] at hc'
      obtain ⟨a, rfl⟩ := drive_norm seg (hd hc'.1.1 hc'.1.2 seg rfl hc'.2)
      unfold pathSegments
      simp only [henc, ok.nodot, ok.noddot, Bool.false_eq_true, ↓reduceIte, hc]
      rw [hrest]; simp
    · unfold pathSegments
      simp only [henc, ok.nodot, ok.noddot, Bool.false_eq_true, ↓reduceIte, hc]
      rw [hrest]; simp

/-! ### hosts -/
/-- not a printable ASCII byte: C0 control, space, DEL or above -/
def bad (b : UInt8) : Bool := isC0OrSpace b || decide (0x7F ≤ b.toNat)
theorem bad_c0 : ∀ b : UInt8, bad b = false → isC0OrSpace b = false ∧ isTabOrNewline b = false := by
  apply forall_uint8_of_fin; decide +kernel

def hostByte (b : UInt8) : Prop :=
  b ≠ 0x2F ∧ b ≠ 0x5C ∧ b ≠ 0x3F ∧ b ≠ 0x23 ∧ b ≠ 0x40 ∧ bad b = false

theorem forbDomain_facts : ∀ b : UInt8, isForbiddenDomain b = false → b.toNat < 0x80 →
    hostByte b ∧ b ≠ 0x3A ∧ b ≠ 0x5B ∧ b ≠ 0x5D ∧ b ≠ 0x25 ∧ b ≠ 0x7C := by
  unfold hostByte; apply forall_uint8_of_fin; decide +kernel
theorem forbHost_facts : ∀ b : UInt8, isForbiddenHost b = false → inC0 b = false →
    hostByte b ∧ b ≠ 0x3A ∧ b ≠ 0x5B ∧ b ≠ 0x5D ∧ b ≠ 0x7C := by
  unfold hostByte; apply forall_uint8_of_fin; decide +kernel
theorem dd_host : ∀ b : UInt8, (isAsciiDigit b = true ∨ b = 0x2E) →
    hostByte b ∧ b ≠ 0x3A ∧ b ≠ 0x5B ∧ b ≠ 0x5D ∧ b ≠ 0x7C := by
  unfold hostByte; apply forall_uint8_of_fin; decide +kernel
theorem v6_host : ∀ b : UInt8, (isAsciiHexDigit b = true ∨ b = 0x3A) → hostByte b ∧ b ≠ 0x5B ∧ b ≠ 0x5D := by
  unfold hostByte; apply forall_uint8_of_fin; decide +kernel

local notation "hgo" => hostEnd.go

theorem hostEnd_skip (s r : Bytes) (i : Nat) (inside : Bool)
    (hs : ∀ b ∈ s, b ≠ 0x5B ∧ b ≠ 0x5D ∧ (inside = true ∨ b ≠ 0x3A)) :
    hgo (s ++ r) i inside = hgo r (i + s.length) inside := by
  induction s generalizing i with
  | nil => simp
  | cons b t ih =>
    obtain ⟨h1, h2, h3⟩ := hs b (by simp)
    have e1 : (b == 0x5B) = false := by simpa using h1
    have e2 : (b == 0x5D) = false := by simpa using h2
    have e3 : (b == 0x3A && !inside) = false := by
      rcases h3 with h | h
      · simp [h]
      · have : (b == 0x3A) = false := by simpa using h
        simp [this]
    simp only [List.cons_append, hostEnd.go, e1, e2, e3, Bool.false_eq_true, ↓reduceIte, List.length_cons]
    rw [ih (i + 1) (fun x hx => hs x (by simp [hx]))]
    congr 1; omega

theorem hostEnd_stop (r : Bytes) (i : Nat) (hr : r = [] ∨ r.head? = some 0x3A) : hgo r i false = i := by
  rcases hr with rfl | hr
  · simp [hostEnd.go]
  · cases r with
    | nil => simp at hr
    | cons c t =>
      have : c = 0x3A := by simpa using hr
      subst this; simp [hostEnd.go]

/-- no ':' and no brackets: the host ends where the text does, or at the ':' that follows -/
theorem hostEnd_plain (s r : Bytes) (hs : ∀ b ∈ s, b ≠ 0x3A ∧ b ≠ 0x5B ∧ b ≠ 0x5D) (hr : r = [] ∨ r.head? = some 0x3A) :
    hostEnd (s ++ r) = s.length := by
  unfold hostEnd
  rw [hostEnd_skip s r 0 false (fun b hb => ⟨(hs b hb).2.1, (hs b hb).2.2, Or.inr (hs b hb).1⟩), hostEnd_stop r _ hr]
  simp

/-- a bracketed literal: colons inside the brackets do not end the host -/
theorem hostEnd_bracket (s r : Bytes) (hs : ∀ b ∈ s, b ≠ 0x5B ∧ b ≠ 0x5D) (hr : r = [] ∨ r.head? = some 0x3A) :
    hostEnd (0x5B :: s ++ 0x5D :: r) = s.length + 2 := by
  unfold hostEnd
  have e : (0x5B :: s ++ 0x5D :: r) = 0x5B :: (s ++ 0x5D :: r) := rfl
  rw [e]
  simp only [hostEnd.go, show ((0x5B : UInt8) == 0x3A) = false by decide, Bool.false_and, Bool.false_eq_true, ↓reduceIte,
    beq_self_eq_true]
  rw [hostEnd_skip s _ _ true (fun b hb => ⟨(hs b hb).1, (hs b hb).2, Or.inl rfl⟩)]
  simp only [hostEnd.go, show ((0x5D : UInt8) == 0x3A) = false by decide, Bool.false_and, Bool.false_eq_true, ↓reduceIte,
    show ((0x5D : UInt8) == 0x5B) = false by decide, beq_self_eq_true]
  rw [hostEnd_stop r _ hr]; omega

/-! the characters of a serialised IPv6 address -/
theorem natToHexLower_chars (x : Nat) : ∀ b ∈ natToHexLower x, isAsciiHexDigit b = true := by
  induction x using Nat.strongRecOn with
  | ind x ih =>
    rw [natToHexLower]
    split
    · rename_i h; intro b hb; simp only [List.mem_singleton] at hb; subst hb; exact V6.hex_digit x h
    · rename_i h
      intro b hb
      simp only [List.mem_append, List.mem_singleton] at hb
      rcases hb with hb | rfl
      · exact ih (x / 16) (by omega) b hb
      · exact V6.hex_digit _ (Nat.mod_lt _ (by decide))

theorem v6go_chars (c : Option Nat) (l : List Nat) (i : Nat) (ig : Bool) (out : Bytes) :
    ∀ b ∈ ipv6Serialize.go c l i ig out, b ∈ out ∨ isAsciiHexDigit b = true ∨ b = 0x3A := by
  induction l generalizing i ig out with
  | nil => intro b hb; simp [ipv6Serialize.go] at hb; exact Or.inl hb
  | cons x rest ih =>
    intro b hb
    simp only [ipv6Serialize.go] at hb
    split at hb
    · exact ih _ _ _ b hb
    · split at hb
      · rcases ih _ _ _ b hb with h | h
        · simp only [List.mem_append] at h
          rcases h with h | h
          · exact Or.inl h
          · right; right
            split at h <;> simp at h <;> simp [h]
        · exact Or.inr h
      · rcases ih _ _ _ b hb with h | h
        · split at h
          · simp only [List.mem_append, List.mem_singleton] at h
            rcases h with (h | h) | h
            · exact Or.inl h
            · exact Or.inr (Or.inl (natToHexLower_chars x b h))
            · exact Or.inr (Or.inr h)
          · simp only [List.mem_append] at h
            rcases h with h | h
            · exact Or.inl h
            · exact Or.inr (Or.inl (natToHexLower_chars x b h))
        · exact Or.inr h

theorem ipv6Serialize_chars (p : List Nat) : ∀ b ∈ ipv6Serialize p, isAsciiHexDigit b = true ∨ b = 0x3A := by
  intro b hb
  unfold ipv6Serialize at hb
  rcases v6go_chars _ _ _ _ _ b hb with h | h
  · simp at h
  · exact h

/-- what the authority, host and port states need to know about a serialised host -/
structure HostOk (idna : Idna) (special : Bool) (h : Host) : Prop where
  reparse : h ≠ .empty → hostParse idna h.serialize (!special) = some h
  ne : h ≠ .empty → h.serialize ≠ []
  bytes : ∀ b ∈ h.serialize, hostByte b
  hend : ∀ r, (r = [] ∨ r.head? = some 0x3A) → hostEnd (h.serialize ++ r) = h.serialize.length
  nodrive : isWindowsDriveLetter h.serialize = false

/-- canonical host values: what the host parser can return -/
def HostCanon (idna : Idna) (special : Bool) : Host → Prop
  | .domain d => special = true ∧ d ≠ [] ∧ d.any isForbiddenDomain = false ∧ endsInANumber d = false ∧
                 domainToAscii idna d = some d ∧ isAsciiBytes d = true
  | .ipv4 a => special = true ∧ a < 4294967296
  | .ipv6 p => p.length = 8 ∧ ∀ x ∈ p, x < 65536
  | .opaqueHost o => special = false ∧ o ≠ [] ∧ o.any isForbiddenHost = false ∧ ∀ b ∈ o, inC0 b = false
  | .empty => True

theorem nodrive_of_bytes (s : Bytes) (h : ∀ b ∈ s, b ≠ 0x3A ∧ b ≠ 0x7C) : isWindowsDriveLetter s = false := by
  unfold isWindowsDriveLetter
  split
  · rename_i a b
    have := h b (by simp)
    have e1 : (b == 0x3A) = false := by simpa using this.1
    have e2 : (b == 0x7C) = false := by simpa using this.2
    simp [e1, e2]
  · rfl

theorem hostOk_of_canon (idna : Idna) (special : Bool) (h : Host) (hc : HostCanon idna special h) :
    HostOk idna special h := by
  cases h with
  | domain d =>
    obtain ⟨hsp, hne, hforb, hnum, hidna, hasc⟩ := hc
    have hb : ∀ b ∈ d, isForbiddenDomain b = false := by simpa [List.any_eq_false] using hforb
    have hasc' : ∀ b ∈ d, b.toNat < 0x80 := by simpa [isAsciiBytes] using hasc
    have hf := fun b hx => forbDomain_facts b (hb b hx) (hasc' b hx)
    refine ⟨fun _ => ?_, fun _ => hne, fun b hx => (hf b hx).1, fun r hr => ?_, ?_⟩
    · subst hsp
      have hpd : percentDecode d = d := percentDecode_no_pct _ (fun b hx => (hf b hx).2.2.2.2.1)
      simp only [Host.serialize, Bool.not_true]
      unfold hostParse
      split
      · rename_i rest heq
        have := (hf 0x5B (by simp)).2.2.1
        exact absurd rfl this
      · simp [hpd, hidna, hforb, hnum]
    · exact hostEnd_plain d r (fun b hx => ⟨(hf b hx).2.1, (hf b hx).2.2.1, (hf b hx).2.2.2.1⟩) hr
    · exact nodrive_of_bytes d (fun b hx => ⟨(hf b hx).2.1, (hf b hx).2.2.2.2.2⟩)
  | ipv4 a =>
    obtain ⟨hsp, ha⟩ := hc
    have hdd := allDD_serialize a
    have hf := fun b hx => dd_host b (hdd b hx)
    refine ⟨fun _ => ?_, fun _ => ?_, fun b hx => (hf b hx).1, fun r hr => ?_, ?_⟩
    · subst hsp; exact ipv4_host_fixed idna a ha
    · have := part_ne_nil (a / 16777216 % 256) (Nat.mod_lt _ (by decide))
      simp only [Host.serialize]; unfold ipv4Serialize
      intro h; simp at h
    · exact hostEnd_plain _ r (fun b hx => ⟨(hf b hx).2.1, (hf b hx).2.2.1, (hf b hx).2.2.2.1⟩) hr
    · exact nodrive_of_bytes _ (fun b hx => ⟨(hf b hx).2.1, (hf b hx).2.2.2.2⟩)
  | ipv6 p =>
    obtain ⟨hl, hb⟩ := hc
    have hch := ipv6Serialize_chars p
    have hf := fun b hx => v6_host b (hch b hx)
    refine ⟨fun _ => ?_, fun _ => by simp [Host.serialize], fun b hx => ?_, fun r hr => ?_, ?_⟩
    · simp [Host.serialize, hostParse, V6.ipv6_roundtrip p hl hb]
    · simp only [Host.serialize, List.mem_append, List.mem_singleton, List.mem_cons, List.not_mem_nil, or_false] at hx
      rcases hx with (rfl | hx) | rfl
      · unfold hostByte; decide
      · exact (hf b hx).1
      · unfold hostByte; decide
    · have := hostEnd_bracket (ipv6Serialize p) r (fun b hx => (hf b hx).2) hr
      simp only [Host.serialize, List.singleton_append, List.cons_append, List.append_assoc, List.length_cons,
        List.length_append, List.length_nil, List.nil_append] at this ⊢
      rw [this]
    · simp only [Host.serialize, List.singleton_append, List.cons_append]
      unfold isWindowsDriveLetter
      split
      · rename_i a b heq
        injection heq with h1 _
        subst h1
        have : isAsciiAlpha 0x5B = false := by decide
        simp [this]
      · rfl
  | opaqueHost o =>
    obtain ⟨hsp, hne, hforb, hc0⟩ := hc
    have hb : ∀ b ∈ o, isForbiddenHost b = false := by simpa [List.any_eq_false] using hforb
    have hf := fun b hx => forbHost_facts b (hb b hx) (hc0 b hx)
    have henc := percentEncode_id inC0 o hc0
    refine ⟨fun _ => ?_, fun _ => hne, fun b hx => (hf b hx).1, fun r hr => ?_, ?_⟩
    · subst hsp
      have h5b : o.head? ≠ some 0x5B := by
        intro h
        cases o with
        | nil => exact hne rfl
        | cons c t =>
          have : c = 0x5B := by simpa using h
          exact (hf c (by simp)).2.2.1 this
      have := opaque_host_fixed idna o hne h5b (by rw [henc]; exact hforb)
      rwa [henc] at this
    · exact hostEnd_plain o r (fun b hx => ⟨(hf b hx).2.1, (hf b hx).2.2.1, (hf b hx).2.2.2.1⟩) hr
    · exact nodrive_of_bytes o (fun b hx => ⟨(hf b hx).2.1, (hf b hx).2.2.2.2⟩)
  | empty =>
    refine ⟨fun h => absurd rfl h, fun h => absurd rfl h, fun b hx => by simp [Host.serialize] at hx, fun r hr => ?_, by decide⟩
    simp only [Host.serialize, List.nil_append, List.length_nil]
    unfold hostEnd
    exact hostEnd_stop r 0 hr

/-! ### port -/
theorem digit_facts : ∀ k : Fin 10, isAsciiDigit (UInt8.ofNat (48 + k.val)) = true ∧ digitVal (UInt8.ofNat (48 + k.val)) = k.val := by
  decide +kernel
theorem digit_ok (k : Nat) (h : k < 10) : isAsciiDigit (UInt8.ofNat (48 + k)) = true ∧ digitVal (UInt8.ofNat (48 + k)) = k :=
  digit_facts ⟨k, h⟩

theorem parseRadix_snoc (a : Bytes) (d : UInt8) : parseRadix 10 (a ++ [d]) = parseRadix 10 a * 10 + digitVal d := by
  simp [parseRadix, List.foldl_append]
theorem parseRadix_one (d : UInt8) : parseRadix 10 [d] = digitVal d := by
  simp [parseRadix]

theorem natToDecF_small (f n : Nat) (hn : n < 10) :
    (natToDecF (f + 1) n).all isAsciiDigit = true ∧ natToDecF (f + 1) n ≠ [] ∧ parseRadix 10 (natToDecF (f + 1) n) = n := by
  have hd := digit_ok n hn
  have e : natToDecF (f + 1) n = [UInt8.ofNat (48 + n)] := by rw [natToDecF]; simp only [hn, ↓reduceIte]
  rw [e, parseRadix_one, hd.2]
  refine ⟨?_, List.cons_ne_nil _ _, rfl⟩
  simp only [List.all_cons, hd.1, List.all_nil, Bool.and_self]

theorem natToDecF_spec (f n : Nat) (h : n < 10 ^ (f + 1)) :
    (natToDecF (f + 1) n).all isAsciiDigit = true ∧ natToDecF (f + 1) n ≠ [] ∧ parseRadix 10 (natToDecF (f + 1) n) = n := by
  induction f generalizing n with
  | zero => exact natToDecF_small 0 n (by simpa using h)
  | succ f ih =>
    by_cases hn : n < 10
    · exact natToDecF_small _ n hn
    · have hd : n / 10 < 10 ^ (f + 1) := by
        rw [Nat.pow_succ] at h; omega
      obtain ⟨i1, i2, i3⟩ := ih (n / 10) hd
      have hk := digit_ok (n % 10) (Nat.mod_lt _ (by decide))
      have e : natToDecF (f + 1 + 1) n = natToDecF (f + 1) (n / 10) ++ [UInt8.ofNat (48 + n % 10)] := by
        rw [natToDecF]; simp only [hn, ↓reduceIte]
      rw [e, parseRadix_snoc, i3, hk.2]
      refine ⟨?_, by simp, by omega⟩
      simp only [List.all_append, i1, List.all_cons, hk.1, List.all_nil, Bool.and_self]

theorem natToDec_spec (n : Nat) (h : n ≤ 65535) :
    (natToDec n).all isAsciiDigit = true ∧ natToDec n ≠ [] ∧ parseRadix 10 (natToDec n) = n := by
  unfold natToDec
  exact natToDecF_spec 39 n (by omega)

theorem parsePort_dec (scheme : Bytes) (p : Nat) (h : portOk scheme (some p)) : parsePort scheme (natToDec p) = some (some p) := by
  obtain ⟨h1, h2⟩ := h
  obtain ⟨d1, d2, d3⟩ := natToDec_spec p h1
  unfold parsePort
  have hne : (natToDec p).isEmpty = false := by
    cases hx : natToDec p with
    | nil => exact absurd hx d2
    | cons => rfl
  have h3 : ¬ p > 65535 := by omega
  simp [d1, hne, d3, h3, h2]

/-! ### credentials and authority -/
local notation "lgo" => lastIndexOf.go

theorem lastIndexOf_go_none (c : UInt8) (l : Bytes) (i : Nat) (acc : Option Nat) (h : c ∉ l) : lgo c l i acc = acc := by
  induction l generalizing i acc with
  | nil => rfl
  | cons b t ih =>
    have hb : (b == c) = false := by
      have : b ≠ c := fun e => h (by simp [e])
      simpa using this
    simp only [lastIndexOf.go, hb, Bool.false_eq_true, ↓reduceIte]
    exact ih _ _ (fun hm => h (by simp [hm]))

theorem lastIndexOf_go_last (c : UInt8) (a r : Bytes) (i : Nat) (acc : Option Nat) (h : c ∉ r) :
    lgo c (a ++ c :: r) i acc = some (i + a.length) := by
  induction a generalizing i acc with
  | nil => simp [lastIndexOf.go, lastIndexOf_go_none c r _ _ h]
  | cons b t ih =>
    simp only [List.cons_append, lastIndexOf.go, List.length_cons]
    rw [ih]; congr 1; omega

theorem splitCredentials_none (hp : Bytes) (h : (0x40 : UInt8) ∉ hp) : splitCredentials hp = (none, hp) := by
  simp [splitCredentials, lastIndexOf, lastIndexOf_go_none _ _ _ _ h]

theorem splitCredentials_some (cred hp : Bytes) (h : (0x40 : UInt8) ∉ hp) :
    splitCredentials (cred ++ 0x40 :: hp) = (some cred, hp) := by
  simp [splitCredentials, lastIndexOf, lastIndexOf_go_last _ _ _ _ _ h]

theorem userinfo_facts : ∀ b : UInt8, inUserinfo b = false → hostByte b ∧ b ≠ 0x3A := by
  unfold hostByte; apply forall_uint8_of_fin; decide +kernel

def credText (user pass : Bytes) : Bytes := user ++ (if !pass.isEmpty then 0x3A :: pass else [])

theorem credUser_text (user pass : Bytes) (hu : ∀ b ∈ user, inUserinfo b = false) :
    credUser (some (credText user pass)) = user := by
  have hc : (0x3A : UInt8) ∉ user := fun hm => (userinfo_facts _ (hu _ hm)).2 rfl
  unfold credUser credText
  by_cases hp : pass.isEmpty = true
  · simp only [hp, Bool.not_true, Bool.false_eq_true, ↓reduceIte, List.append_nil, cutAt_none _ _ hc]
    exact percentEncode_id _ _ hu
  · simp only [hp, Bool.not_false, ↓reduceIte, cutAt_some _ _ _ hc]
    exact percentEncode_id _ _ hu

theorem credPass_text (user pass : Bytes) (hu : ∀ b ∈ user, inUserinfo b = false) (hpw : ∀ b ∈ pass, inUserinfo b = false) :
    credPass (some (credText user pass)) = pass := by
  have hc : (0x3A : UInt8) ∉ user := fun hm => (userinfo_facts _ (hu _ hm)).2 rfl
  unfold credPass credText
  by_cases hp : pass.isEmpty = true
  · have : pass = [] := by simpa using hp
    subst this
    simp [cutAt_none _ _ hc, percentEncode]
  · simp only [hp, Bool.not_false, ↓reduceIte, cutAt_some _ _ _ hc, Option.getD_some]
    exact percentEncode_id _ _ hpw

def portText (p : Option Nat) : Bytes := match p with | some p => 0x3A :: natToDec p | none => []

theorem parseHostPort_canon (idna : Idna) (scheme : Bytes) (h : Host) (port : Option Nat)
    (hok : HostOk idna (isSpecialScheme scheme) h) (hp : portOk scheme port) (hne : h ≠ .empty) :
    parseHostPort idna scheme (h.serialize ++ portText port) = some (h, port) := by
  have hsne := hok.ne hne
  unfold parseHostPort
  cases port with
  | none =>
    have he := hok.hend [] (Or.inl rfl)
    simp only [portText, List.append_nil] at he ⊢
    have hemp : h.serialize.isEmpty = false := by
      cases hx : h.serialize with
      | nil => exact absurd hx hsne
      | cons => rfl
    simp [he, hemp, hok.reparse hne]
  | some p =>
    have he := hok.hend (0x3A :: natToDec p) (Or.inr rfl)
    have hlt : h.serialize.length < (h.serialize ++ 0x3A :: natToDec p).length := by simp
    have hemp : h.serialize.isEmpty = false := by
      cases hx : h.serialize with
      | nil => exact absurd hx hsne
      | cons => rfl
    simp only [portText, he, hlt, ↓reduceIte, List.take_left', hemp, Bool.false_eq_true, hok.reparse hne]
    have hd : (h.serialize ++ 0x3A :: natToDec p).drop (h.serialize.length + 1) = natToDec p := by
      rw [show h.serialize ++ 0x3A :: natToDec p = (h.serialize ++ [0x3A]) ++ natToDec p by simp]
      exact List.drop_left' (by simp)
    rw [hd, parsePort_dec scheme p hp]

theorem parseHostPort_empty (idna : Idna) (scheme : Bytes) (hs : isSpecialScheme scheme = false) :
    parseHostPort idna scheme [] = some (.empty, none) := by
  simp [parseHostPort, hostEnd, hostEnd.go, hs]

def hasCred (user pass : Bytes) : Bool := !user.isEmpty || !pass.isEmpty

def authText (user pass : Bytes) (h : Host) (port : Option Nat) : Bytes :=
  (if hasCred user pass then credText user pass ++ [0x40] else []) ++ (h.serialize ++ portText port)

theorem digit_host : ∀ b : UInt8, isAsciiDigit b = true → hostByte b ∧ b ≠ 0x3A := by
  unfold hostByte; apply forall_uint8_of_fin; decide +kernel

theorem portText_bytes (port : Option Nat) (hp : portOk scheme port) : ∀ b ∈ portText port, hostByte b := by
  cases port with
  | none => intro b hb; simp [portText] at hb
  | some p =>
    intro b hb
    simp only [portText, List.mem_cons] at hb
    rcases hb with rfl | hb
    · unfold hostByte; decide
    · have := (natToDec_spec p hp.1).1
      simp only [List.all_eq_true] at this
      exact (digit_host b (this b hb)).1

theorem hostport_bytes (idna : Idna) (sp : Bool) (h : Host) (port : Option Nat) (hok : HostOk idna sp h)
    (hp : portOk scheme port) : ∀ b ∈ h.serialize ++ portText port, hostByte b := by
  intro b hb
  rcases List.mem_append.mp hb with hb | hb
  · exact hok.bytes b hb
  · exact portText_bytes port hp b hb

theorem credText_bytes (user pass : Bytes) (hu : ∀ b ∈ user, inUserinfo b = false) (hpw : ∀ b ∈ pass, inUserinfo b = false) :
    ∀ b ∈ credText user pass ++ [0x40], b ≠ 0x2F ∧ b ≠ 0x5C ∧ b ≠ 0x3F ∧ b ≠ 0x23 ∧ bad b = false := by
  intro b hb
  have hub := fun b hx => (userinfo_facts b (hu b hx)).1
  have hpb := fun b hx => (userinfo_facts b (hpw b hx)).1
  simp only [credText, List.mem_append, List.mem_singleton] at hb
  rcases hb with (hb | hb) | rfl
  · have := hub b hb; exact ⟨this.1, this.2.1, this.2.2.1, this.2.2.2.1, this.2.2.2.2.2⟩
  · split at hb
    · rcases List.mem_cons.mp hb with rfl | hb
      · decide
      · have := hpb b hb; exact ⟨this.1, this.2.1, this.2.2.1, this.2.2.2.1, this.2.2.2.2.2⟩
    · simp at hb
  · decide

theorem parseAuthority_canon (idna : Idna) (scheme user pass : Bytes) (h : Host) (port : Option Nat)
    (hu : ∀ b ∈ user, inUserinfo b = false) (hpw : ∀ b ∈ pass, inUserinfo b = false)
    (hok : HostOk idna (isSpecialScheme scheme) h) (hp : portOk scheme port) (hne : h ≠ .empty) :
    (parseAuthority idna scheme (authText user pass h port)).map (fun a => (a.username, a.password, a.host, a.port)) =
      some (user, pass, h, port) := by
  have hat : (0x40 : UInt8) ∉ h.serialize ++ portText port := fun hm => (hostport_bytes idna _ h port hok hp _ hm).2.2.2.2.1 rfl
  have hhp := parseHostPort_canon idna scheme h port hok hp hne
  have hnemp : (h.serialize ++ portText port).isEmpty = false := by
    have := hok.ne hne
    cases hx : h.serialize with
    | nil => exact absurd hx this
    | cons => rfl
  unfold parseAuthority authText
  by_cases hc : hasCred user pass = true
  · simp only [hc, ↓reduceIte, List.append_assoc, List.singleton_append, splitCredentials_some _ _ hat, Option.isSome_some,
      hnemp, Bool.and_false, Bool.false_eq_true, hhp, Option.map_some, credUser_text user pass hu,
      credPass_text user pass hu hpw]
  · have hu0 : user = [] ∧ pass = [] := by
      simp only [hasCred, Bool.or_eq_true, Bool.not_eq_eq_eq_not, Bool.not_true, not_or, Bool.not_eq_false,
        List.isEmpty_iff] at hc
      exact hc
    obtain ⟨rfl, rfl⟩ := hu0
    simp [hc, splitCredentials_none _ hat, hhp, credUser, credPass]

theorem parseAuthority_empty (idna : Idna) (scheme : Bytes) (hs : isSpecialScheme scheme = false) :
    (parseAuthority idna scheme []).map (fun a => (a.username, a.password, a.host, a.port)) = some ([], [], .empty, none) := by
  have := splitCredentials_none [] (by simp)
  simp [parseAuthority, this, parseHostPort_empty idna scheme hs, credUser, credPass]

/-! ### from the authority state to the end of the path -/
def pathText (path : List Bytes) : Bytes := path.flatMap (fun seg => 0x2F :: seg)

theorem pathText_cons (seg : Bytes) (more : List Bytes) : pathText (seg :: more) = 0x2F :: joinTail seg more := by
  simp [pathText, joinTail]

theorem pathText_head (path : List Bytes) : pathText path = [] ∨ (pathText path).head? = some 0x2F := by
  cases path with
  | nil => left; rfl
  | cons s m => right; simp [pathText_cons]

theorem pathState_canon (scheme : Bytes) (seg : Bytes) (more : List Bytes)
    (hs : ∀ s ∈ seg :: more, SegOk (isSpecialScheme scheme) s)
    (hd : scheme = bFile → isWindowsDriveLetter seg = true → isNormalizedWindowsDriveLetter seg = true) :
    pathState scheme [] (joinTail seg more) = seg :: more := by
  unfold pathState
  rw [splitPath_join _ seg more (fun s hx => (hs s hx).sep)]
  rw [pathSegments_canon scheme (seg :: more) [] hs (fun hf _ s hh hw => by
    have : s = seg := by simpa using hh.symm
    subst this; exact hd hf hw)]
  simp

theorem pathStartState_canon (scheme : Bytes) (path : List Bytes)
    (hs : ∀ s ∈ path, SegOk (isSpecialScheme scheme) s)
    (hd : scheme = bFile → ∀ s, path.head? = some s → isWindowsDriveLetter s = true → isNormalizedWindowsDriveLetter s = true)
    (hne : isSpecialScheme scheme = true → path ≠ []) :
    pathStartState scheme (pathText path) = path := by
  cases path with
  | nil =>
    have hsp : isSpecialScheme scheme = false := by
      cases h : isSpecialScheme scheme with
      | false => rfl
      | true => exact absurd rfl (hne h)
    simp [pathStartState, pathText, hsp]
  | cons seg more =>
    have hp := pathState_canon scheme seg more hs (fun hf hw => hd hf seg rfl hw)
    rw [pathText_cons]
    unfold pathStartState
    split <;> simp [hp]

theorem authorityEnd_canon (sp : Bool) (a r : Bytes) (ha : ∀ b ∈ a, b ≠ 0x2F ∧ b ≠ 0x5C)
    (hr : r = [] ∨ r.head? = some 0x2F) : authorityEnd sp (a ++ r) = a.length := by
  unfold authorityEnd
  have hall : ∀ x ∈ a, (!(x == 0x2F || (sp && x == 0x5C))) = true := by
    intro x hx
    have := ha x hx
    have e1 : (x == 0x2F) = false := by simpa using this.1
    have e2 : (x == 0x5C) = false := by simpa using this.2
    simp [e1, e2]
  rcases hr with rfl | hr
  · rw [List.append_nil, takeWhile_all _ a hall]
  · cases r with
    | nil => simp at hr
    | cons c t =>
      have : c = 0x2F := by simpa using hr
      subst this
      rw [takeWhile_append_stop _ a _ t hall (by simp)]

theorem authText_bytes (idna : Idna) (scheme user pass : Bytes) (h : Host) (port : Option Nat)
    (hu : ∀ b ∈ user, inUserinfo b = false) (hpw : ∀ b ∈ pass, inUserinfo b = false)
    (hok : HostOk idna (isSpecialScheme scheme) h) (hp : portOk scheme port) :
    ∀ b ∈ authText user pass h port, b ≠ 0x2F ∧ b ≠ 0x5C ∧ b ≠ 0x3F ∧ b ≠ 0x23 ∧ bad b = false := by
  intro b hb
  unfold authText at hb
  rcases List.mem_append.mp hb with hb | hb
  · split at hb
    · exact credText_bytes user pass hu hpw b hb
    · simp at hb
  · have := hostport_bytes idna _ h port hok hp b hb
    exact ⟨this.1, this.2.1, this.2.2.1, this.2.2.2.1, this.2.2.2.2.2⟩

theorem fromAuthority_canon (idna : Idna) (scheme user pass : Bytes) (h : Host) (port : Option Nat) (path : List Bytes)
    (hu : ∀ b ∈ user, inUserinfo b = false) (hpw : ∀ b ∈ pass, inUserinfo b = false)
    (hok : HostOk idna (isSpecialScheme scheme) h) (hp : portOk scheme port) (hne : h ≠ .empty)
    (hs : ∀ s ∈ path, SegOk (isSpecialScheme scheme) s)
    (hd : scheme = bFile → ∀ s, path.head? = some s → isWindowsDriveLetter s = true → isNormalizedWindowsDriveLetter s = true)
    (hpne : isSpecialScheme scheme = true → path ≠ []) :
    fromAuthority idna scheme (authText user pass h port ++ pathText path) =
      some { scheme, username := user, password := pass, host := some h, port := port, path := path } := by
  have hab := authText_bytes idna scheme user pass h port hu hpw hok hp
  have hn := authorityEnd_canon (isSpecialScheme scheme) (authText user pass h port) (pathText path)
    (fun b hb => ⟨(hab b hb).1, (hab b hb).2.1⟩) (pathText_head path)
  have hpa := parseAuthority_canon idna scheme user pass h port hu hpw hok hp hne
  unfold fromAuthority
  simp only [hn, List.take_left', List.drop_left']
  cases hx : parseAuthority idna scheme (authText user pass h port) with
  | none => rw [hx] at hpa; simp at hpa
  | some a =>
    rw [hx] at hpa
    simp only [Option.map_some, Option.some.injEq, Prod.mk.injEq] at hpa
    obtain ⟨h1, h2, h3, h4⟩ := hpa
    simp only [h1, h2, h3, h4, pathStartState_canon scheme path hs hd hpne]

/-! ### the shape of the href -/
def qText : Option Bytes → Bytes | some q => 0x3F :: q | none => []
def fText : Option Bytes → Bytes | some f => 0x23 :: f | none => []

def restText (u : Url) : Bytes :=
  match u.host with
  | some h => 0x2F :: 0x2F :: (authText u.username u.password h u.port ++ u.pathSerialized)
  | none => (if !u.isOpaque && u.path.length > 1 && u.path.head? == some [] then [0x2F, 0x2E] else []) ++ u.pathSerialized

theorem href_split (u : Url) : u.href = (u.scheme ++ 0x3A :: restText u) ++ qText u.query ++ fText u.fragment := by
  unfold Url.href restText authText credText hasCred portText
  cases hh : u.host <;> cases hp : u.port <;> cases hq : u.query <;> cases hf : u.fragment <;>
    simp only [qText, fText, List.append_nil, List.append_assoc, List.cons_append, List.nil_append] <;>
    (try split) <;> (try split) <;> simp [List.append_assoc]

/-! ### canonical records -/
/-- the canonical form of a URL record: every component is a fixed point of the state that produces it -/
structure Canon (idna : Idna) (u : Url) : Prop where
  scheme : schemeOk u.scheme = true
  user : ∀ b ∈ u.username, inUserinfo b = false
  pass : ∀ b ∈ u.password, inUserinfo b = false
  host : ∀ h, u.host = some h → HostCanon idna u.isSpecial h
  port : portOk u.scheme u.port
  nocred : (u.host = none ∨ u.host = some .empty ∨ u.scheme = bFile) → u.username = [] ∧ u.password = [] ∧ u.port = none
  special : u.isSpecial = true → u.isOpaque = false ∧ u.path ≠ [] ∧ ∃ h, u.host = some h ∧ (u.scheme ≠ bFile → h ≠ .empty)
  file : u.scheme = bFile → u.host ≠ some (.domain bLocalhost)
  segs : u.isOpaque = false → ∀ s ∈ u.path, SegOk u.isSpecial s
  drive : u.scheme = bFile → ∀ s, u.path.head? = some s → isWindowsDriveLetter s = true → isNormalizedWindowsDriveLetter s = true
  nonopq : u.isOpaque = false → u.opath = [] ∧ (u.host = none → u.path ≠ [])
  opq : u.isOpaque = true → u.host = none ∧ u.path = [] ∧ (∀ b ∈ u.opath, inC0 b = false ∧ b ≠ 0x3F ∧ b ≠ 0x23) ∧
    u.opath.head? ≠ some 0x2F ∧ u.opath.getLast? ≠ some 0x20
  query : ∀ q, u.query = some q → ∀ b ∈ q, (if u.isSpecial then inSpecialQuery b else inQuery b) = false
  frag : ∀ f, u.fragment = some f → ∀ b ∈ f, inFragment b = false

theorem skipSlashes_canon (a r : Bytes) (hne : a ≠ []) (ha : ∀ b ∈ a, b ≠ 0x2F ∧ b ≠ 0x5C) :
    skipSlashes (0x2F :: 0x2F :: (a ++ r)) = a ++ r := by
  cases a with
  | nil => exact absurd rfl hne
  | cons c t =>
    have := ha c (by simp)
    have e1 : (c == 0x2F) = false := by simpa using this.1
    have e2 : (c == 0x5C) = false := by simpa using this.2
    simp [skipSlashes, List.dropWhile_cons, e1, e2]

theorem fileHost_canon (idna : Idna) (h : Host) (path : List Bytes)
    (hok : HostOk idna true h) (hloc : h ≠ .domain bLocalhost)
    (hs : ∀ s ∈ path, SegOk true s)
    (hd : ∀ s, path.head? = some s → isWindowsDriveLetter s = true → isNormalizedWindowsDriveLetter s = true)
    (hpne : path ≠ []) :
    fileHost idna (h.serialize ++ pathText path) = some { scheme := bFile, host := some h, path := path } := by
  have hn := authorityEnd_canon true h.serialize (pathText path)
    (fun b hb => ⟨(hok.bytes b hb).1, (hok.bytes b hb).2.1⟩) (pathText_head path)
  have hps := pathStartState_canon bFile path (by simpa [special_file] using hs) (fun _ => hd) (fun _ => hpne)
  unfold fileHost
  simp only [hn, List.take_left', List.drop_left', hok.nodrive, Bool.false_eq_true, ↓reduceIte, hps]
  by_cases he : h = .empty
  · subst he; simp [Host.serialize]
  · have hne := hok.ne he
    have hemp : h.serialize.isEmpty = false := by
      cases hx : h.serialize with
      | nil => exact absurd hx hne
      | cons => rfl
    have hr := hok.reparse he
    simp only [Bool.not_true] at hr
    have hloc' : (h == Host.domain bLocalhost) = false := by simpa using hloc
    simp [hemp, hr, hloc']

theorem fromAuthority_emptyHost (idna : Idna) (scheme : Bytes) (path : List Bytes) (hsp : isSpecialScheme scheme = false)
    (hs : ∀ s ∈ path, SegOk false s) :
    fromAuthority idna scheme (pathText path) =
      some { scheme, username := [], password := [], host := some .empty, port := none, path := path } := by
  have hn := authorityEnd_canon false [] (pathText path) (by simp) (pathText_head path)
  have hpa := parseAuthority_empty idna scheme hsp
  have hps := pathStartState_canon scheme path (by simpa [hsp] using hs) (fun hf => by rw [hf] at hsp; simp [special_file] at hsp)
    (fun h => by rw [hsp] at h; cases h)
  unfold fromAuthority
  simp only [List.nil_append, List.length_nil] at hn
  simp only [hsp, hn, List.take_zero, List.drop_zero]
  cases hx : parseAuthority idna scheme [] with
  | none => rw [hx] at hpa; simp at hpa
  | some a =>
    rw [hx] at hpa
    simp only [Option.map_some, Option.some.injEq, Prod.mk.injEq] at hpa
    obtain ⟨h1, h2, h3, h4⟩ := hpa
    simp only [h1, h2, h3, h4, hps]

theorem pathSerialized_nonopaque (u : Url) (h : u.isOpaque = false) : u.pathSerialized = pathText u.path := by
  simp [Url.pathSerialized, pathText, h]
theorem pathSerialized_opaque (u : Url) (h : u.isOpaque = true) : u.pathSerialized = u.opath := by
  simp [Url.pathSerialized, h]

theorem opaquePathState_id (s : Bytes) (hb : ∀ b ∈ s, inC0 b = false) (hl : s.getLast? ≠ some 0x20) (f : Bool) :
    opaquePathState s f = s := by
  unfold opaquePathState
  split
  · rename_i heq; exact absurd heq hl
  · exact percentEncode_id _ _ hb

theorem pathState_dot (scheme : Bytes) (t : Bytes) :
    pathState scheme [] (0x2E :: 0x2F :: t) = pathState scheme [] t := by
  unfold pathState
  have e : splitPath (isSpecialScheme scheme) (0x2E :: 0x2F :: t) = [0x2E] :: splitPath (isSpecialScheme scheme) t := by
    have := splitPath_cons (isSpecialScheme scheme) [0x2E] t (by intro b hb; simp at hb; subst hb; simp [isSep])
    simpa using this
  rw [e]
  have hne := splitPath_ne_nil (isSpecialScheme scheme) t
  have hemp : (splitPath (isSpecialScheme scheme) t).isEmpty = false := by
    cases hx : splitPath (isSpecialScheme scheme) t with
    | nil => exact absurd hx hne
    | cons => rfl
  have h1 : percentEncode inPath [0x2E] = [0x2E] := by decide
  have h2 : isDoubleDot [0x2E] = false := by decide
  have h3 : isSingleDot [0x2E] = true := by decide
  rw [pathSegments]
  simp only [h1, h2, h3, hemp, Bool.false_eq_true, ↓reduceIte]

theorem isSpecial_file_true : isSpecialScheme bFile = true := by decide

theorem parseCore_canon (idna : Idna) (u : Url) (hc : Canon idna u) (tail : Bytes) (hasQ hasF : Bool) :
    parseCore idna none (u.scheme ++ 0x3A :: restText u) tail hasQ hasF =
      some { u with query := none, fragment := none } := by
  obtain ⟨scheme, user, pass, host, port, isOpq, opath, path, query, frag⟩ := u
  have c_scheme := hc.scheme
  have c_user := hc.user
  have c_pass := hc.pass
  have c_host := hc.host
  have c_port := hc.port
  have c_nocred := hc.nocred
  have c_special := hc.special
  have c_file := hc.file
  have c_segs := hc.segs
  have c_drive := hc.drive
  have c_nonopq := hc.nonopq
  have c_opq := hc.opq
  simp only [Url.isSpecial] at c_scheme c_user c_pass c_host c_port c_nocred c_special c_file c_segs c_drive c_nonopq c_opq
  unfold parseCore
  rw [takeScheme_href _ _ c_scheme]
  simp only [restText]
  cases host with
  | some h =>
    have hcan := c_host h rfl
    have hok := hostOk_of_canon idna _ h hcan
    by_cases hf : scheme = bFile
    · subst hf
      obtain ⟨rfl, rfl, rfl⟩ := c_nocred (Or.inr (Or.inr rfl))
      obtain ⟨ho, hpne, _⟩ := c_special isSpecial_file_true
      subst ho
      have hsegs := c_segs rfl
      simp only [isSpecial_file_true] at hsegs hok
      have hfh := fileHost_canon idna h path hok (fun e => c_file rfl (by rw [e])) hsegs (c_drive rfl) hpne
      have hopath := (c_nonopq rfl).1
      subst hopath
      unfold pathText at hfh
      simp only [Url.pathSerialized, authText, hasCred, List.isEmpty_nil, Bool.not_true, Bool.or_self, Bool.false_eq_true, ↓reduceIte,
        portText, List.append_nil, List.nil_append, beq_self_eq_true, fileState, fileSlash, Bool.true_or, hfh]
    · have hfb : (scheme == bFile) = false := by simpa using hf
      have ho : isOpq = false := by
        cases isOpq with
        | false => rfl
        | true => exact absurd (c_opq rfl).1 (by simp)
      subst ho
      have hopath := (c_nonopq rfl).1
      subst hopath
      have hsegs := c_segs rfl
      have hab := authText_bytes idna scheme user pass h port c_user c_pass hok c_port
      by_cases hsp : isSpecialScheme scheme = true
      · obtain ⟨_, hpne, h', hh', hne⟩ := c_special hsp
        have : h' = h := by injection hh' with e; exact e.symm
        subst this
        have hne := hne hf
        have hfa := fromAuthority_canon idna scheme user pass h' port path c_user c_pass hok c_port hne hsegs c_drive
          (fun _ => hpne)
        have hane : authText user pass h' port ≠ [] := by
          have := hok.ne hne
          unfold authText
          intro e
          simp only [List.append_eq_nil_iff] at e
          exact this e.2.1
        unfold pathText at hfa
        simp only [hfb, hsp, Bool.false_eq_true, ↓reduceIte, Url.pathSerialized,
          skipSlashes_canon _ _ hane (fun b hb => ⟨(hab b hb).1, (hab b hb).2.1⟩), hfa]
      · have hsp' : isSpecialScheme scheme = false := by simpa using hsp
        simp only [hfb, hsp', Bool.false_eq_true, ↓reduceIte, Url.pathSerialized]
        by_cases he : h = .empty
        · subst he
          obtain ⟨rfl, rfl, rfl⟩ := c_nocred (Or.inr (Or.inl rfl))
          have hfa := fromAuthority_emptyHost idna scheme path hsp' (by simpa [hsp'] using hsegs)
          unfold pathText at hfa
          simp only [authText, hasCred, List.isEmpty_nil, Bool.not_true, Bool.or_self, Bool.false_eq_true, ↓reduceIte,
            Host.serialize, portText, List.append_nil, List.nil_append, hfa]
        · have hfa := fromAuthority_canon idna scheme user pass h port path c_user c_pass hok c_port he hsegs c_drive
            (fun hh => by rw [hsp'] at hh; cases hh)
          unfold pathText at hfa
          simp only [hfa]
  | none =>
    obtain ⟨rfl, rfl, rfl⟩ := c_nocred (Or.inl rfl)
    have hsp : isSpecialScheme scheme = false := by
      cases hx : isSpecialScheme scheme with
      | false => rfl
      | true =>
        obtain ⟨_, _, h', hh', _⟩ := c_special hx
        cases hh'
    have hfb : (scheme == bFile) = false := by
      have : scheme ≠ bFile := by
        intro e; subst e; simp [isSpecial_file_true] at hsp
      simpa using this
    simp only [hfb, hsp, Bool.false_eq_true, ↓reduceIte]
    cases isOpq with
    | true =>
      obtain ⟨_, hp, hb, hhd, hlast⟩ := c_opq rfl
      subst hp
      have hid := opaquePathState_id opath (fun b hx => (hb b hx).1) hlast (hasQ || hasF)
      simp only [Url.pathSerialized, Bool.not_true, Bool.false_and, Bool.false_eq_true, ↓reduceIte, List.nil_append]
      split
      · simp at hhd
      · simp at hhd
      · rw [hid]
    | false =>
      have hopath := (c_nonopq rfl).1
      subst hopath
      have hpne := (c_nonopq rfl).2 rfl
      have hsegs := c_segs rfl
      rw [hsp] at hsegs
      have hnf : scheme = bFile → False := by
        intro e; subst e; simp [isSpecial_file_true] at hsp
      cases path with
      | nil => exact absurd rfl hpne
      | cons seg more =>
        have hps := pathState_canon scheme seg more (by rw [hsp]; exact hsegs) (fun e => (hnf e).elim)
        cases seg with
        | nil =>
          cases more with
          | nil =>
            simp only [joinTail, List.flatMap_nil, List.append_nil] at hps
            simp [Url.pathSerialized, hps]
          | cons m ms =>
            have e : joinTail [] (m :: ms) = 0x2F :: joinTail m ms := by simp [joinTail]
            rw [e] at hps
            simp only [Url.pathSerialized, Bool.not_false, Bool.true_and, List.length_cons, List.head?_cons,
              beq_self_eq_true, Bool.and_true, Bool.false_eq_true, ↓reduceIte, List.flatMap_cons, List.nil_append]
            have hlen : (ms.length + 1 + 1 > 1) := by omega
            simp only [hlen, decide_true, ↓reduceIte, List.cons_append, List.nil_append]
            have hfm : List.flatMap (fun seg => 0x2F :: seg) ms = ms.flatMap (fun s => 0x2F :: s) := rfl
            have e2 : (0x2F :: (m ++ List.flatMap (fun seg => 0x2F :: seg) ms)) = 0x2F :: joinTail m ms := by simp [joinTail]
            rw [e2]
            split
            · rename_i heq; simp at heq
            · rename_i heq; injection heq with _ h2; rw [← h2, pathState_dot, hps]
            · rename_i _ hx; exact absurd rfl (hx _)
        | cons c t =>
          have hc : c ≠ 0x2F := by
            have := (hsegs (c :: t) (by simp)).sep c (by simp)
            simp only [isSep, Bool.false_and, Bool.or_false, beq_eq_false_iff_ne] at this
            exact this
          have e : joinTail (c :: t) more = c :: joinTail t more := by simp [joinTail]
          rw [e] at hps
          simp only [Url.pathSerialized, Bool.not_false, Bool.true_and, List.head?_cons, Bool.false_eq_true, ↓reduceIte,
            List.flatMap_cons, List.cons_append]
          have hne : (some (c :: t) == some ([] : Bytes)) = false := by simp
          simp only [hne, Bool.and_false, Bool.false_eq_true, ↓reduceIte, List.nil_append]
          have e2 : (t ++ List.flatMap (fun seg => 0x2F :: seg) more) = joinTail t more := rfl
          rw [e2]
          split
          · rename_i heq; injection heq with _ h2; injection h2 with h3 _; exact absurd h3 hc
          · rename_i heq; injection heq with _ h2; rw [← h2, hps]
          · rename_i _ hx; exact absurd rfl (hx _)

/-! ### the bytes of the href -/
def Vis (b : UInt8) : Prop := b ≠ 0x3F ∧ b ≠ 0x23 ∧ bad b = false
def PreByte (b : UInt8) : Prop := b ≠ 0x3F ∧ b ≠ 0x23 ∧ isTabOrNewline b = false
def LastOk (s : Bytes) : Prop := ∀ l, s.getLast? = some l → isC0OrSpace l = false

theorem c0sp_tn : ∀ b : UInt8, isC0OrSpace b = false → isTabOrNewline b = false := by
  apply forall_uint8_of_fin; decide +kernel
theorem vis_pre (b : UInt8) (h : Vis b) : PreByte b := ⟨h.1, h.2.1, (bad_c0 b h.2.2).2⟩
theorem scheme_vis : ∀ b : UInt8, isLowerSchemeByte b = true → Vis b := by
  unfold Vis; apply forall_uint8_of_fin; decide +kernel
theorem seg_vis : ∀ b : UInt8, inPath b = false → Vis b := by
  unfold Vis; apply forall_uint8_of_fin; decide +kernel
theorem c0_pre : ∀ b : UInt8, inC0 b = false → isTabOrNewline b = false ∧ (b ≠ 0x20 → isC0OrSpace b = false) := by
  apply forall_uint8_of_fin; decide +kernel
theorem query_facts : ∀ b : UInt8, inQuery b = false → b ≠ 0x23 ∧ bad b = false := by
  apply forall_uint8_of_fin; decide +kernel
theorem squery_facts : ∀ b : UInt8, inSpecialQuery b = false → inQuery b = false := by
  apply forall_uint8_of_fin; decide +kernel
theorem frag_facts : ∀ b : UInt8, inFragment b = false → bad b = false := by
  apply forall_uint8_of_fin; decide +kernel

theorem lastOk_of_all (s : Bytes) (h : ∀ b ∈ s, isC0OrSpace b = false) : LastOk s :=
  fun l hl => h l (List.mem_of_getLast? hl)

theorem lastOk_append (a b : Bytes) (ha : LastOk a) (hb : LastOk b) : LastOk (a ++ b) := by
  intro l hl
  rw [List.getLast?_append] at hl
  cases hx : b.getLast? with
  | none => rw [hx] at hl; exact ha l (by simpa using hl)
  | some y => rw [hx] at hl; simp at hl; subst hl; exact hb y hx

/-- the part of the href before the path -/
def headText (u : Url) : Bytes :=
  u.scheme ++ 0x3A :: (match u.host with
    | some h => 0x2F :: 0x2F :: authText u.username u.password h u.port
    | none => if !u.isOpaque && u.path.length > 1 && u.path.head? == some [] then [0x2F, 0x2E] else [])

theorem pre_eq (u : Url) : u.scheme ++ 0x3A :: restText u = headText u ++ u.pathSerialized := by
  unfold restText headText
  cases u.host <;> simp

theorem schemeOk_bytes (s : Bytes) (h : schemeOk s = true) : ∀ b ∈ s, isLowerSchemeByte b = true := by
  cases s with
  | nil => simp [schemeOk] at h
  | cons c t =>
    simp only [schemeOk, Bool.and_eq_true, List.all_eq_true] at h
    intro b hb
    rcases List.mem_cons.mp hb with rfl | hb
    · exact (lower_is_alpha _ h.1).2
    · exact h.2 b hb

theorem headText_vis (idna : Idna) (u : Url) (hc : Canon idna u) : ∀ b ∈ headText u, Vis b := by
  intro b hb
  unfold headText at hb
  rcases List.mem_append.mp hb with hb | hb
  · exact scheme_vis b (schemeOk_bytes _ hc.scheme b hb)
  · rcases List.mem_cons.mp hb with rfl | hb
    · unfold Vis; decide
    · cases hh : u.host with
      | some h =>
        rw [hh] at hb
        simp only [List.mem_cons] at hb
        rcases hb with rfl | rfl | hb
        · unfold Vis; decide
        · unfold Vis; decide
        · have hok := hostOk_of_canon idna _ h (hc.host h hh)
          have := authText_bytes idna u.scheme u.username u.password h u.port hc.user hc.pass hok hc.port b hb
          exact ⟨this.2.2.1, this.2.2.2.1, this.2.2.2.2⟩
      | none =>
        rw [hh] at hb
        simp only at hb
        split at hb
        · simp only [List.mem_cons, List.not_mem_nil, or_false] at hb
          rcases hb with rfl | rfl <;> (unfold Vis; decide)
        · simp at hb

theorem pathText_vis (sp : Bool) (path : List Bytes) (hs : ∀ s ∈ path, SegOk sp s) : ∀ b ∈ pathText path, Vis b := by
  intro b hb
  simp only [pathText, List.mem_flatMap, List.mem_cons] at hb
  obtain ⟨s, hs', hb⟩ := hb
  rcases hb with rfl | hb
  · unfold Vis; decide
  · exact seg_vis b ((hs s hs').enc b hb)

/-- everything before the query: no `?`, no `#`, no tab or newline, and it does not end in a space -/
theorem pre_facts (idna : Idna) (u : Url) (hc : Canon idna u) :
    (∀ b ∈ u.scheme ++ 0x3A :: restText u, PreByte b) ∧ LastOk (u.scheme ++ 0x3A :: restText u) := by
  rw [pre_eq]
  have hv := headText_vis idna u hc
  have hlv : LastOk (headText u) := lastOk_of_all _ (fun b hb => (bad_c0 b (hv b hb).2.2).1)
  cases ho : u.isOpaque with
  | false =>
    rw [pathSerialized_nonopaque u ho]
    have hp := pathText_vis _ u.path (hc.segs ho)
    refine ⟨fun b hb => ?_, lastOk_append _ _ hlv (lastOk_of_all _ (fun b hb => (bad_c0 b (hp b hb).2.2).1))⟩
    rcases List.mem_append.mp hb with hb | hb
    · exact vis_pre b (hv b hb)
    · exact vis_pre b (hp b hb)
  | true =>
    rw [pathSerialized_opaque u ho]
    obtain ⟨_, _, hb, _, hlast⟩ := hc.opq ho
    refine ⟨fun b hx => ?_, lastOk_append _ _ hlv ?_⟩
    · rcases List.mem_append.mp hx with hx | hx
      · exact vis_pre b (hv b hx)
      · exact ⟨(hb b hx).2.1, (hb b hx).2.2, (c0_pre b (hb b hx).1).1⟩
    · intro l hl
      have hm := List.mem_of_getLast? hl
      exact (c0_pre l (hb l hm).1).2 (fun e => hlast (by rw [hl, e]))

theorem qText_facts (idna : Idna) (u : Url) (hc : Canon idna u) : ∀ b ∈ qText u.query, b ≠ 0x23 ∧ bad b = false := by
  intro b hb
  cases hq : u.query with
  | none => rw [hq] at hb; simp [qText] at hb
  | some q =>
    rw [hq] at hb
    simp only [qText, List.mem_cons] at hb
    rcases hb with rfl | hb
    · decide
    · have := hc.query q hq b hb
      split at this
      · exact query_facts b (squery_facts b this)
      · exact query_facts b this

theorem fText_facts (idna : Idna) (u : Url) (hc : Canon idna u) : ∀ b ∈ fText u.fragment, bad b = false := by
  intro b hb
  cases hf : u.fragment with
  | none => rw [hf] at hb; simp [fText] at hb
  | some f =>
    rw [hf] at hb
    simp only [fText, List.mem_cons] at hb
    rcases hb with rfl | hb
    · decide
    · exact frag_facts b (hc.frag f hf b hb)

theorem lower_not_c0sp : ∀ b : UInt8, isAsciiLower b = true → isC0OrSpace b = false := by
  apply forall_uint8_of_fin; decide +kernel

theorem preprocess_href (idna : Idna) (u : Url) (hc : Canon idna u) : preprocess u.href = u.href := by
  obtain ⟨hpb, hlast⟩ := pre_facts idna u hc
  have hq := qText_facts idna u hc
  have hf := fText_facts idna u hc
  rw [href_split]
  apply preprocess_id
  · intro a ha
    have hs := hc.scheme
    cases hsch : u.scheme with
    | nil => rw [hsch] at hs; simp [schemeOk] at hs
    | cons c t =>
      rw [hsch] at hs ha
      simp only [schemeOk, Bool.and_eq_true] at hs
      simp only [List.cons_append, List.head?_cons, Option.some.injEq] at ha
      subst ha
      exact lower_not_c0sp _ hs.1
  · exact lastOk_append _ _ (lastOk_append _ _ hlast (lastOk_of_all _ (fun b hb => (bad_c0 b (hq b hb).2).1))) (lastOk_of_all _ (fun b hb => (bad_c0 b (hf b hb)).1))
  · intro a ha
    rcases List.mem_append.mp ha with ha | ha
    · rcases List.mem_append.mp ha with ha | ha
      · exact (hpb a ha).2.2
      · exact (bad_c0 a (hq a ha).2).2
    · exact (bad_c0 a (hf a ha)).2

theorem cut_fragment (idna : Idna) (u : Url) (hc : Canon idna u) :
    cutAt 0x23 u.href = (u.scheme ++ 0x3A :: restText u ++ qText u.query, u.fragment) := by
  obtain ⟨hpb, _⟩ := pre_facts idna u hc
  have hq := qText_facts idna u hc
  have hno : (0x23 : UInt8) ∉ u.scheme ++ 0x3A :: restText u ++ qText u.query := by
    intro hm
    rcases List.mem_append.mp hm with hm | hm
    · exact (hpb _ hm).2.1 rfl
    · exact (hq _ hm).1 rfl
  rw [href_split]
  cases hf : u.fragment with
  | none => simp only [fText, List.append_nil]; exact cutAt_none _ _ hno
  | some f => simp only [fText]; exact cutAt_some _ _ _ hno

theorem cut_query (idna : Idna) (u : Url) (hc : Canon idna u) :
    cutAt 0x3F (u.scheme ++ 0x3A :: restText u ++ qText u.query) = (u.scheme ++ 0x3A :: restText u, u.query) := by
  obtain ⟨hpb, _⟩ := pre_facts idna u hc
  have hno : (0x3F : UInt8) ∉ u.scheme ++ 0x3A :: restText u := fun hm => (hpb _ hm).1 rfl
  cases hq : u.query with
  | none => simp only [qText, List.append_nil]; exact cutAt_none _ _ hno
  | some q => simp only [qText]; exact cutAt_some _ _ _ hno

theorem c0_sp : ∀ b : UInt8, inC0 b = false → bad b = false ∨ b = 0x20 := by
  apply forall_uint8_of_fin; decide +kernel

/-- **C05 (plain ASCII)**: every byte of a canonical record's href is in 0x21..0x7E, except that a space may occur
    inside an opaque path; the href never ends in a space -/
theorem href_printable (idna : Idna) (u : Url) (hc : Canon idna u) :
    (∀ b ∈ u.href, bad b = false ∨ (b = 0x20 ∧ u.isOpaque = true ∧ b ∈ u.opath)) ∧
    (∀ l, u.href.getLast? = some l → bad l = false) := by
  have hq := qText_facts idna u hc
  have hf := fText_facts idna u hc
  have hv := headText_vis idna u hc
  obtain ⟨_, hlast⟩ := pre_facts idna u hc
  have hpath : ∀ b ∈ u.pathSerialized, bad b = false ∨ (b = 0x20 ∧ u.isOpaque = true ∧ b ∈ u.opath) := by
    intro b hb
    cases ho : u.isOpaque with
    | false =>
      rw [pathSerialized_nonopaque u ho] at hb
      exact Or.inl (pathText_vis _ u.path (hc.segs ho) b hb).2.2
    | true =>
      rw [pathSerialized_opaque u ho] at hb
      rcases c0_sp b ((hc.opq ho).2.2.1 b hb).1 with h | h
      · exact Or.inl h
      · exact Or.inr ⟨h, rfl, hb⟩
  have hall : ∀ b ∈ u.href, bad b = false ∨ (b = 0x20 ∧ u.isOpaque = true ∧ b ∈ u.opath) := by
    intro b hb
    rw [href_split, pre_eq] at hb
    rcases List.mem_append.mp hb with hb | hb
    · rcases List.mem_append.mp hb with hb | hb
      · rcases List.mem_append.mp hb with hb | hb
        · exact Or.inl (hv b hb).2.2
        · exact hpath b hb
      · exact Or.inl (hq b hb).2
    · exact Or.inl (hf b hb)
  refine ⟨hall, ?_⟩
  intro l hl
  have hm := List.mem_of_getLast? hl
  rcases hall l hm with h | h
  · exact h
  · exfalso
    have hlo : LastOk u.href := by
      rw [href_split]
      exact lastOk_append _ _ (lastOk_append _ _ hlast (lastOk_of_all _ (fun b hb => (bad_c0 b (hq b hb).2).1)))
        (lastOk_of_all _ (fun b hb => (bad_c0 b (hf b hb)).1))
    have := hlo l hl
    rw [h.1] at this
    simp [isC0OrSpace] at this

/-- **C05**: a canonical record is a fixed point of serialise-then-parse -/
theorem parse_href_canon (idna : Idna) (u : Url) (hc : Canon idna u) : parse idna u.href none = some u := by
  unfold parse
  simp only [preprocess_href idna u hc, cut_fragment idna u hc, cut_query idna u hc, parseCore_canon idna u hc]
  have hq := hc.query
  have hf := hc.frag
  obtain ⟨scheme, user, pass, host, port, isOpq, opath, path, query, frag⟩ := u
  simp only [Url.isSpecial] at hq hf ⊢
  cases query with
  | none =>
    cases frag with
    | none => rfl
    | some f => simp only [percentEncode_id _ f (hf f rfl)]
  | some q =>
    have hqe : encodeQuery (isSpecialScheme scheme) q = q := by
      unfold encodeQuery
      have := hq q rfl
      split
      · rename_i hs; simp only [hs, ↓reduceIte] at this; exact percentEncode_id _ q this
      · rename_i hs; simp only [hs, Bool.false_eq_true, ↓reduceIte] at this; exact percentEncode_id _ q this
    cases frag with
    | none => simp only [hqe]
    | some f => simp only [hqe, percentEncode_id _ f (hf f rfl)]

end AdaVerif.Lemmas.FP

import AdaVerif.Lemmas.FastIpv4
/-
C08: the fast scanner's "last significant character" heuristic is sound: when the last non-dot byte of a host is
neither a digit, nor a..f, nor x (any case), the host does not end in a number.
-/
namespace AdaVerif.Lemmas.FS
open AdaVerif AdaVerif.Spec AdaVerif.Lemmas AdaVerif.Model.FastScan

/-- the last byte of the host that is not a dot -/
def lnd (s : Bytes) : Option UInt8 := (s.filter (· != 0x2E)).getLast?

/-- bytes a number can end in: digit, a..f, x (any case) -/
def numTail (z : UInt8) : Bool :=
  isDigit z || (0x61 ≤ (lo z).toNat && (lo z).toNat ≤ 0x66) || lo z == 0x78

theorem splitOn_ne_nil (sep : UInt8) (s : Bytes) : splitOn sep s ≠ [] := by
  cases s with
  | nil => simp [splitOn]
  | cons b t =>
    simp only [splitOn]
    split
    · simp
    · cases splitOn sep t <;> simp

theorem join_split (sep : UInt8) (s : Bytes) : joinWith sep (splitOn sep s) = s := by
  induction s with
  | nil => rfl
  | cons b rest ih =>
    simp only [splitOn]
    split
    · rename_i hb
      have hb' : b = sep := by simpa using hb
      cases hsp : splitOn sep rest with
      | nil => exact absurd hsp (splitOn_ne_nil sep rest)
      | cons h t => rw [hsp] at ih; simp [joinWith, ih, hb']
    · cases hsp : splitOn sep rest with
      | nil => exact absurd hsp (splitOn_ne_nil sep rest)
      | cons h t =>
        rw [hsp] at ih
        cases t with
        | nil => simp [joinWith] at ih ⊢; exact ih
        | cons h2 t2 => simp only [joinWith, List.cons_append] at ih ⊢; rw [ih]

theorem split_nosep (sep : UInt8) (s : Bytes) : ∀ p ∈ splitOn sep s, sep ∉ p := by
  induction s with
  | nil => intro p hp; simp [splitOn] at hp; subst hp; simp
  | cons b rest ih =>
    intro p hp
    simp only [splitOn] at hp
    split at hp
    · rcases List.mem_cons.mp hp with rfl | hp
      · simp
      · exact ih p hp
    · rename_i hb
      have hb' : b ≠ sep := by simpa using hb
      cases hsp : splitOn sep rest with
      | nil => rw [hsp] at hp; simp at hp; subst hp; simp [hb'.symm]
      | cons h t =>
        rw [hsp] at hp ih
        simp only [List.mem_cons] at hp
        rcases hp with rfl | hp
        · intro hm
          rcases List.mem_cons.mp hm with e | hm
          · exact hb' e.symm
          · exact ih h (by simp) hm
        · exact ih p (by simp [hp])

theorem filter_join (sep : UInt8) (parts : List Bytes) (h : ∀ p ∈ parts, sep ∉ p) :
    (joinWith sep parts).filter (· != sep) = parts.flatten := by
  induction parts with
  | nil => rfl
  | cons a rest ih =>
    have ha : a.filter (· != sep) = a := by
      rw [List.filter_eq_self]
      intro x hx
      have : x ≠ sep := fun e => h a (by simp) (e ▸ hx)
      simpa using this
    cases rest with
    | nil => simp [joinWith, ha]
    | cons b r =>
      have := ih (fun p hp => h p (by simp [hp]))
      simp only [joinWith, List.filter_append, ha, List.filter_cons, bne_self_eq_false, Bool.false_eq_true, ↓reduceIte,
        List.flatten_cons] at this ⊢
      rw [this]

theorem flatten_snoc_last (init : List Bytes) (last : Bytes) (h : last ≠ []) :
    (init ++ [last]).flatten.getLast? = last.getLast? := by
  simp only [List.flatten_append, List.flatten_cons, List.flatten_nil, List.append_nil, List.getLast?_append]
  cases hx : last.getLast? with
  | none => simp at hx; exact absurd hx h
  | some z => rfl

theorem snoc_of_getLast? {α} (l : List α) (x : α) (h : l.getLast? = some x) : l = l.dropLast ++ [x] := by
  have hne : l ≠ [] := by intro e; subst e; simp at h
  have h1 := List.dropLast_concat_getLast hne
  have h2 : l.getLast hne = x := by rw [List.getLast?_eq_some_getLast hne] at h; injection h
  rw [h2] at h1; exact h1.symm

theorem hex_tail : ∀ b : UInt8, isRadixDigit 16 b = true → numTail b = true := by
  apply forall_uint8_of_fin; decide +kernel
theorem oct_tail : ∀ b : UInt8, isRadixDigit 8 b = true → numTail b = true := by
  apply forall_uint8_of_fin; decide +kernel
theorem dec_tail : ∀ b : UInt8, isRadixDigit 10 b = true → numTail b = true := by
  apply forall_uint8_of_fin; decide +kernel
theorem digit_tail : ∀ b : UInt8, isAsciiDigit b = true → numTail b = true := by
  apply forall_uint8_of_fin; decide +kernel

theorem all_last {p : UInt8 → Bool} (t : Bytes) (h : t.all p = true) (z : UInt8) (hz : t.getLast? = some z) : p z = true := by
  simp only [List.all_eq_true] at h
  exact h z (List.mem_of_getLast? hz)

/-- a label the IPv4 number parser accepts ends in a digit, a hex letter or `x` -/
theorem ipv4Number_tail (l : Bytes) (v : Nat) (h : ipv4Number l = some v) : ∃ z, l.getLast? = some z ∧ numTail z = true := by
  unfold ipv4Number at h
  split at h; · cases h
  rename_i hne
  have hne' : l ≠ [] := by intro e; subst e; simp at hne
  obtain ⟨z, hz⟩ : ∃ z, l.getLast? = some z := by
    cases hx : l.getLast? with
    | none => simp at hx; exact absurd hx hne'
    | some z => exact ⟨z, rfl⟩
  refine ⟨z, hz, ?_⟩
  simp only at h
  split at h
  · rename_i x rest
    split at h
    · rename_i hx
      -- 0x / 0X prefix
      simp only at h
      split at h
      · rename_i hemp
        have : rest = [] := by simpa using hemp
        subst this
        simp at hz; subst hz
        simp only [Bool.or_eq_true, beq_iff_eq] at hx
        rcases hx with rfl | rfl <;> decide
      · split at h
        · rename_i hall
          have hr : rest ≠ [] := by intro e; subst e; simp at *
          have : (0x30 :: x :: rest).getLast? = rest.getLast? := by
            rw [show (0x30 : UInt8) :: x :: rest = [0x30, x] ++ rest from rfl, List.getLast?_append]
            cases hq : rest.getLast? with
            | none => simp at hq; exact absurd hq hr
            | some q => rfl
          rw [this] at hz
          exact hex_tail z (all_last rest hall z hz)
        · cases h
    · simp only at h
      split at h
      · rename_i hemp; simp at hemp
      · split at h
        · rename_i hall
          have : (0x30 :: x :: rest).getLast? = (x :: rest).getLast? := by simp [List.getLast?_cons_cons]
          rw [this] at hz
          exact oct_tail z (all_last (x :: rest) hall z hz)
        · cases h
  · simp only at h
    split at h
    · rename_i hemp; simp [hemp] at hne
    · split at h
      · rename_i hall
        exact dec_tail z (all_last l hall z hz)
      · cases h

/-- **the heuristic**: a host that ends in a number has a number-like last non-dot byte -/
theorem endsInANumber_lnd (s : Bytes) (h : endsInANumber s = true) : ∃ z, lnd s = some z ∧ numTail z = true := by
  have hj := join_split 0x2E s
  have hns := split_nosep 0x2E s
  have hf := filter_join 0x2E (splitOn 0x2E s) hns
  rw [hj] at hf
  unfold lnd
  rw [hf]
  unfold endsInANumber at h
  simp only at h
  generalize splitOn 0x2E s = parts at h hns hf ⊢
  -- the label that is examined, and the flattened text ending in it
  have key : ∀ (ps : List Bytes) (last : Bytes), ps.getLast? = some last →
      ((!last.isEmpty && last.all isAsciiDigit) = true ∨ (ipv4Number last).isSome = true) →
      ∃ z, ps.flatten.getLast? = some z ∧ numTail z = true := by
    intro ps last hl hc
    have hne : last ≠ [] := by
      intro e; subst e
      rcases hc with hc | hc
      · simp at hc
      · simp [ipv4Number] at hc
    rw [snoc_of_getLast? ps last hl, flatten_snoc_last _ _ hne]
    rcases hc with hc | hc
    · simp only [Bool.and_eq_true] at hc
      obtain ⟨z, hz⟩ : ∃ z, last.getLast? = some z := by
        cases hx : last.getLast? with
        | none => simp at hx; exact absurd hx hne
        | some z => exact ⟨z, rfl⟩
      exact ⟨z, hz, digit_tail z (all_last last hc.2 z hz)⟩
    · cases hv : ipv4Number last with
      | none => rw [hv] at hc; cases hc
      | some v => exact ipv4Number_tail last v hv
  by_cases hc : (parts.getLast? == some []) = true
  · simp only [hc, ↓reduceIte] at h
    by_cases hlen : (parts.length == 1) = true
    · simp [hlen] at h
    · simp only [hlen, Bool.false_eq_true, ↓reduceIte] at h
      -- parts = init ++ [[]]; the examined label is the last of init
      have hl : parts.getLast? = some [] := by simpa using hc
      have hps := snoc_of_getLast? parts [] hl
      have hfl : parts.flatten = parts.dropLast.flatten := by
        conv => lhs; rw [hps]
        simp
      rw [hfl]
      cases hq : parts.dropLast.getLast? with
      | none => rw [hq] at h; simp at h
      | some last =>
        rw [hq] at h
        simp only at h
        apply key parts.dropLast last hq
        split at h
        · left; assumption
        · right; exact h
  · simp only [hc, Bool.false_eq_true, ↓reduceIte] at h
    cases hq : parts.getLast? with
    | none => rw [hq] at h; simp at h
    | some last =>
      rw [hq] at h
      simp only at h
      apply key parts last hq
      split at h
      · left; assumption
      · right; exact h

end AdaVerif.Lemmas.FS

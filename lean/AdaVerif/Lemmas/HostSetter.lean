import AdaVerif.Model.HostSetter
import AdaVerif.Lemmas.HostParse
import AdaVerif.Lemmas.UrlSetters
/-
`url::set_host` / `url::set_hostname` implement the Standard's host / hostname setters (host state and file host state
with a state override), for every value in which no '/', '?' or '\\' stands between a '[' and the next ']'.
-/
namespace AdaVerif.Lemmas.HS
open AdaVerif AdaVerif.Spec AdaVerif.Lemmas AdaVerif.Model.UrlRec AdaVerif.Model.HostParse

/-! ### where the host ends -/
/-- no hard delimiter between a '[' and the next ']' (before the host ends): the one situation in which
    `get_host_delimiter_location` (which jumps to the ']') and the Standard's host state (which stops) part ways -/
def bracketClean (special : Bool) : Bool → Bytes → Bool
  | _, [] => true
  | false, c :: r =>
    if isHardDelim special c || c == 0x3A then true
    else if c == 0x5B then bracketClean special true r else bracketClean special false r
  | true, c :: r =>
    if c == 0x5D then bracketClean special false r
    else if isHardDelim special c then false
    else bracketClean special true r

/-- the Standard's host state as one scan: stop at a hard delimiter, or at a ':' outside brackets -/
def specScan (special : Bool) : Bool → Bytes → Nat → Nat × Bool
  | _, [], i => (i, false)
  | inside, c :: r, i =>
    if isHardDelim special c then (i, false)
    else if c == 0x3A && !inside then (i, true)
    else specScan special (if c == 0x5B then true else if c == 0x5D then false else inside) r (i + 1)

theorem gScan_eq_specScan (special : Bool) : ∀ (l : Bytes) (inside : Bool) (i : Nat), bracketClean special inside l = true →
    gScan special inside l i = specScan special inside l i := by
  intro l
  induction l with
  | nil => intro inside i _; cases inside <;> rfl
  | cons c r ih =>
    intro inside i h
    cases inside with
    | false =>
      unfold gScan specScan
      unfold bracketClean at h
      by_cases hh : isHardDelim special c = true
      · simp [hh]
      · simp only [hh, Bool.false_eq_true, ↓reduceIte, Bool.false_or] at h ⊢
        by_cases hc : (c == 0x3A) = true
        · simp [hc]
        · simp only [hc, Bool.false_eq_true, ↓reduceIte, Bool.false_and] at h ⊢
          by_cases hb : (c == 0x5B) = true
          · simp only [hb, ↓reduceIte] at h ⊢
            exact ih true (i + 1) h
          · simp only [hb, Bool.false_eq_true, ↓reduceIte] at h ⊢
            have : (if (c == 0x5D) = true then false else false) = false := by split <;> rfl
            rw [this]
            exact ih false (i + 1) h
    | true =>
      unfold gScan specScan
      unfold bracketClean at h
      by_cases hd : (c == 0x5D) = true
      · have hcd : c = 0x5D := by simpa using hd
        subst hcd
        simp only [beq_self_eq_true, ↓reduceIte] at h ⊢
        have h1 : isHardDelim special 0x5D = false := by cases special <;> decide
        simp only [h1, Bool.false_eq_true, ↓reduceIte, Bool.not_true, Bool.and_false]
        have h2 : ((0x5D : UInt8) == 0x5B) = false := by decide
        simp only [h2, Bool.false_eq_true, ↓reduceIte]
        exact ih false (i + 1) h
      · simp only [hd, Bool.false_eq_true, ↓reduceIte] at h ⊢
        by_cases hh : isHardDelim special c = true
        · simp [hh] at h
        · simp only [hh, Bool.false_eq_true, ↓reduceIte, Bool.not_true, Bool.and_false] at h ⊢
          have : (if (c == 0x5B) = true then true else true) = true := by split <;> rfl
          rw [this]
          exact ih true (i + 1) h

/-- the one scan is the Standard's two steps: cut at the first hard delimiter, then look for a ':' outside brackets -/
theorem specScan_split (special : Bool) : ∀ (l : Bytes) (inside : Bool) (i : Nat),
    specScan special inside l i =
      (let upto := l.takeWhile (fun b => !isHardDelim special b)
       let he := hostEnd.go upto i inside
       if he < i + upto.length then (he, true) else (i + upto.length, false)) := by
  intro l
  induction l with
  | nil => intro inside i; simp [specScan, hostEnd.go]
  | cons c r ih =>
    intro inside i
    unfold specScan
    by_cases hh : isHardDelim special c = true
    · simp [hh, hostEnd.go]
    · have hh' : isHardDelim special c = false := by simpa using hh
      simp only [hh', Bool.false_eq_true, ↓reduceIte, List.takeWhile_cons, Bool.not_false, hostEnd.go, List.length_cons]
      by_cases hc : (c == 0x3A && !inside) = true
      · simp only [hc, ↓reduceIte]
        have : i < i + (List.length (List.takeWhile (fun b => !isHardDelim special b) r) + 1) := by omega
        simp [this]
      · simp only [hc, Bool.false_eq_true, ↓reduceIte]
        rw [ih]
        simp only
        have e : i + 1 + (List.takeWhile (fun b => !isHardDelim special b) r).length =
            i + ((List.takeWhile (fun b => !isHardDelim special b) r).length + 1) := by omega
        rw [e]

/-! ### small list facts -/
theorem filter_takeWhile_comm (q p : UInt8 → Bool) (hpq : ∀ x, p x = false → q x = true) (l : Bytes) :
    (l.takeWhile p).filter q = (l.filter q).takeWhile p := by
  induction l with
  | nil => rfl
  | cons x t ih =>
    by_cases hp : p x = true
    · by_cases hq : q x = true
      · simp [List.takeWhile_cons, List.filter_cons, hp, hq, ih]
      · simp [List.takeWhile_cons, List.filter_cons, hp, hq, ih]
    · have hp' : p x = false := by simpa using hp
      have hq := hpq x hp'
      simp [List.takeWhile_cons, List.filter_cons, hp', hq]

theorem takeWhile_takeWhile' (p q : UInt8 → Bool) (l : Bytes) :
    (l.takeWhile p).takeWhile q = l.takeWhile (fun b => p b && q b) := by
  induction l with
  | nil => rfl
  | cons x t ih =>
    by_cases hp : p x = true
    · by_cases hq : q x = true
      · simp [List.takeWhile_cons, hp, hq, ih]
      · simp [List.takeWhile_cons, hp, hq]
    · simp [List.takeWhile_cons, hp]

theorem takeWhile_split (p : UInt8 → Bool) (l : Bytes) :
    ∃ rest, l = l.takeWhile p ++ rest ∧ (rest = [] ∨ ∃ c t, rest = c :: t ∧ p c = false) := by
  induction l with
  | nil => exact ⟨[], rfl, Or.inl rfl⟩
  | cons x t ih =>
    by_cases hp : p x = true
    · obtain ⟨rest, e, hr⟩ := ih
      refine ⟨rest, ?_, hr⟩
      simp only [List.takeWhile_cons, hp, ↓reduceIte, List.cons_append]
      rw [← e]
    · exact ⟨x :: t, by simp [List.takeWhile_cons, hp], Or.inr ⟨x, t, rfl, by simpa using hp⟩⟩

theorem takeWhile_prefix_stop (p : UInt8 → Bool) (a rest : Bytes) (hr : rest = [] ∨ ∃ c t, rest = c :: t ∧ p c = false) :
    (a ++ rest).takeWhile p = a.takeWhile p := by
  induction a with
  | nil =>
    rcases hr with rfl | ⟨c, t, rfl, hc⟩
    · rfl
    · simp [List.takeWhile_cons, hc]
  | cons x t ih =>
    by_cases hp : p x = true
    · simp [List.takeWhile_cons, hp, ih]
    · simp [List.takeWhile_cons, hp]

/-- the digits right behind the ':' are the same whether or not the text was cut at '#' -/
theorem digits_same (s : Bytes) (k : Nat) (hk : k ≤ (s.takeWhile (· != 0x23)).length) :
    ((s.takeWhile (· != 0x23)).drop k).takeWhile isAsciiDigit = (s.drop k).takeWhile isAsciiDigit := by
  obtain ⟨rest, e, hr⟩ := takeWhile_split (· != 0x23) s
  have hr' : rest = [] ∨ ∃ c t, rest = c :: t ∧ isAsciiDigit c = false := by
    rcases hr with h | ⟨c, t, h1, h2⟩
    · exact Or.inl h
    · right
      have hc : c = 0x23 := by simpa using h2
      exact ⟨c, t, h1, by rw [hc]; decide⟩
  conv => rhs; rw [e, List.drop_append_of_le_length hk]
  rw [takeWhile_prefix_stop _ _ _ hr']

/-! ### the port part -/
open AdaVerif.Lemmas.UR in
theorem hostSetterPort_eq (u : Url) (t : Bytes) :
    hostSetterPort ((defaultPort u.scheme).getD 0) (recOf u) (t.takeWhile isAsciiDigit ++ []) = recOf (portOverride u (t.takeWhile isAsciiDigit)) ∧
    hostSetterPort ((defaultPort u.scheme).getD 0) (recOf u) t = recOf (portOverride u t) := by
  have key : ∀ t : Bytes, hostSetterPort ((defaultPort u.scheme).getD 0) (recOf u) t = recOf (portOverride u t) := by
    intro t
    unfold hostSetterPort portOverride
    cases t with
    | nil => simp
    | cons c r =>
      simp only
      by_cases hd : isAsciiDigit c = true
      · have hne : ((c :: r).takeWhile isAsciiDigit).isEmpty = false := by simp [List.takeWhile_cons, hd]
        simp only [hd, Bool.not_true, Bool.false_eq_true, ↓reduceIte, hne]
        by_cases hbig : parseRadix 10 ((c :: r).takeWhile isAsciiDigit) > 65535
        · simp [hbig]
        · simp only [hbig, ↓reduceIte]
          rw [UR.portValid_eq]
          generalize parseRadix 10 ((c :: r).takeWhile isAsciiDigit) = p
          by_cases hdp : (defaultPort u.scheme == some p) = true
          · simp [hdp, recOf, Url.isSpecial, Url.pathSerialized]
          · have hdp' : (defaultPort u.scheme == some p) = false := by simpa using hdp
            simp [hdp', recOf, Url.isSpecial, Url.pathSerialized]
      · have hd' : isAsciiDigit c = false := by simpa using hd
        have he : ((c :: r).takeWhile isAsciiDigit).isEmpty = true := by simp [List.takeWhile_cons, hd']
        simp [hd', he]
  exact ⟨by simpa using key _, key t⟩

/-! ### the setter -/
theorem strip_cut (v : Bytes) : stripTN (v.takeWhile (· != 0x23)) = (stripTN v).takeWhile (· != 0x23) := by
  unfold stripTN
  apply filter_takeWhile_comm
  intro x hx
  have : x = 0x23 := by simpa using hx
  subst this; decide

theorem upto_eq (special : Bool) (s : Bytes) :
    s.takeWhile (fun b => !(b == 0x2F || b == 0x3F || b == 0x23 || (special && b == 0x5C))) =
      (s.takeWhile (· != 0x23)).takeWhile (fun b => !isHardDelim special b) := by
  rw [takeWhile_takeWhile']
  congr 1
  funext b
  unfold isHardDelim
  by_cases h1 : b = 0x2F
  · subst h1; simp
  · by_cases h2 : b = 0x3F
    · subst h2; simp
    · by_cases h3 : b = 0x23
      · subst h3; simp
      · have e1 : (b == 0x2F) = false := by simpa using h1
        have e2 : (b == 0x3F) = false := by simpa using h2
        have e3 : (b == 0x23) = false := by simpa using h3
        simp [e1, e2, e3, bne]

theorem fileHost_eq (s : Bytes) :
    s.takeWhile (fun b => !(b == 0x2F || b == 0x5C || b == 0x3F || b == 0x23)) =
      (s.takeWhile (· != 0x23)).takeWhile (fun c => !(c == 0x2F || c == 0x5C || c == 0x3F)) := by
  rw [takeWhile_takeWhile']
  congr 1
  funext b
  by_cases h3 : b = 0x23
  · subst h3; simp
  · have e3 : (b == 0x23) = false := by simpa using h3
    simp [e3, bne]

theorem split_agree (special : Bool) (N : Bytes) (hc : bracketClean special false N = true) :
    getHostDelimiterLocation special N =
      (if hostEnd (N.takeWhile (fun b => !isHardDelim special b)) < (N.takeWhile (fun b => !isHardDelim special b)).length
       then (hostEnd (N.takeWhile (fun b => !isHardDelim special b)), true)
       else ((N.takeWhile (fun b => !isHardDelim special b)).length, false)) := by
  unfold getHostDelimiterLocation
  rw [gScan_eq_specScan special N false 0 hc, specScan_split]
  simp only [Nat.zero_add, hostEnd]
  rfl

theorem take_upto (p : UInt8 → Bool) (N : Bytes) (k : Nat) (hk : k ≤ (N.takeWhile p).length) : N.take k = (N.takeWhile p).take k := by
  obtain ⟨rest, e, _⟩ := takeWhile_split p N
  conv => lhs; rw [e]
  rw [List.take_append_of_le_length hk]

open AdaVerif.Lemmas.UR in
theorem sized_eq (L : Nat) (u u' : Url) :
    (if getHrefSize (recOf u') > L then (recOf u, false) else (recOf u', true)).1 =
      if getHrefSize (recOf u') ≤ L then recOf u' else recOf u := by
  by_cases h : getHrefSize (recOf u') ≤ L
  · have : ¬ getHrefSize (recOf u') > L := by omega
    simp [h, this]
  · have : getHrefSize (recOf u') > L := by omega
    simp [h, this]

open AdaVerif.Lemmas.UR in
theorem same_eq (L : Nat) (u : Url) : recOf u = if getHrefSize (recOf u) ≤ L then recOf u else recOf u := by
  split <;> rfl

theorem hostParse_kinds (idna : Idna) (buf : Bytes) (h : Host) (hp : hostParse idna buf false = some h) :
    (∃ d, h = .domain d) ∨ (∃ a, h = .ipv4 a) ∨ (∃ p, h = .ipv6 p) := by
  unfold hostParse at hp
  split at hp
  · rename_i rest
    split at hp
    · cases hp
    · cases hq : ipv6Parse rest.dropLast with
      | none => simp [hq] at hp
      | some p => simp [hq] at hp; exact Or.inr (Or.inr ⟨p, hp.symm⟩)
  · simp only [Bool.false_eq_true, ↓reduceIte] at hp
    split at hp
    · cases hp
    · rename_i ascii _
      split at hp
      · cases hp
      · split at hp
        · cases hq : ipv4Parse ascii with
          | none => simp [hq] at hp
          | some a => simp [hq] at hp; exact Or.inr (Or.inl ⟨a, hp.symm⟩)
        · injection hp with hp; exact Or.inl ⟨ascii, hp.symm⟩

theorem serialize_localhost (idna : Idna) (buf : Bytes) (h : Host) (hp : hostParse idna buf false = some h) :
    (h.serialize == bLocalhost) = (h == .domain bLocalhost) := by
  rcases hostParse_kinds idna buf h hp with ⟨d, rfl⟩ | ⟨a, rfl⟩ | ⟨p, rfl⟩
  · by_cases hd : d = bLocalhost
    · subst hd; simp [Host.serialize]
    · have e1 : (d == bLocalhost) = false := by simpa using hd
      have e2 : (Host.domain d == Host.domain bLocalhost) = false := by
        apply beq_eq_false_iff_ne.mpr; intro e; injection e with e; exact hd e
      simp [Host.serialize, e1, e2]
  · have h1 : (Host.ipv4 a).serialize ≠ bLocalhost := by
      intro e
      have hd := allDD_serialize a
      rw [show (Host.ipv4 a).serialize = ipv4Serialize a from rfl] at e
      rw [e] at hd
      have := hd 0x6C (by simp [bLocalhost])
      rcases this with h | h
      · exact absurd h (by decide)
      · exact absurd h (by decide)
    rw [beq_eq_false_iff_ne.mpr h1, beq_eq_false_iff_ne.mpr (by intro e; cases e)]
  · have h1 : (Host.ipv6 p).serialize ≠ bLocalhost := by simp [Host.serialize, bLocalhost]
    rw [beq_eq_false_iff_ne.mpr h1, beq_eq_false_iff_ne.mpr (by intro e; cases e)]

open AdaVerif.Lemmas.UR in
theorem withHost_recOf (u : Url) (h : Host) : (recOf u).withHost h.serialize = recOf { u with host := some h } := by
  simp [Rec.withHost, recOf, Url.isSpecial, Url.pathSerialized]

open AdaVerif.Lemmas.UR in
theorem withHost_empty (u : Url) : (recOf u).withHost [] = recOf { u with host := some .empty } := by
  simp [Rec.withHost, recOf, Url.isSpecial, Url.pathSerialized, Host.serialize]

open AdaVerif.Lemmas.UR AdaVerif.Lemmas.AggL in
/-- what `parse_host` answers for a record's scheme class: the Standard's host, serialised -/
theorem host_text (idna : Idna) (u : Url) (buf : Bytes) (hne : buf ≠ []) (hid : ∀ d, HP.IdnaAt idna d) :
    (parseHost idna u.isSpecial buf).map (·.1) = (hostParse idna buf (!u.isSpecial)).map Host.serialize := by
  rw [HP.parseHost_eq idna u.isSpecial buf hne (hid _)]
  cases hostParse idna buf (!u.isSpecial) <;> simp [HP.viewH]

open AdaVerif.Lemmas.UR AdaVerif.Lemmas.AggL in
/-- **`url::set_host` / `url::set_hostname`**: the object is left holding the Standard's host-setter result when that
    fits the limit, and as it was otherwise -/
theorem setHostR_eq (hn : Bool) (idna : Idna) (L ty : Nat) (u : Url) (v : Bytes) (hty : PP.TyOf u.scheme ty)
    (hid : ∀ d, HP.IdnaAt idna d)
    (hclean : u.scheme ≠ bFile → bracketClean u.isSpecial false (stripTN (v.takeWhile (· != 0x23))) = true) :
    (setHostR hn idna L ty ((defaultPort u.scheme).getD 0) (recOf u) v).1 =
      if getHrefSize (recOf (setHostGeneric hn idna u v)) ≤ L then recOf (setHostGeneric hn idna u v) else recOf u := by
  unfold setHostR setHostGeneric
  have hopq : (recOf u).opq = u.isOpaque := rfl
  have hsp : (recOf u).special = u.isSpecial := rfl
  have hcr : (recOf u).hasCredentials = u.includesCredentials := rfl
  have hpo : (recOf u).port = u.port := rfl
  rw [hopq]
  by_cases ho : u.isOpaque = true
  · simp only [ho, ↓reduceIte]; exact same_eq L u
  · have ho' : u.isOpaque = false := by simpa using ho
    simp only [ho, Bool.false_eq_true, ↓reduceIte, strip_cut]
    generalize hsdef : stripTN v = s
    by_cases hfile : u.scheme = bFile
    · -- file host state
      have hty6 : (ty != 6) = false := by
        have := hty.file; rw [hfile] at this; simp at this; simp [this]
      have hfb : (u.scheme == bFile) = true := by simp [hfile]
      simp only [hty6, Bool.false_eq_true, ↓reduceIte, hfb, fileHost_eq]
      generalize (s.takeWhile (· != 0x23)).takeWhile (fun c => !(c == 0x2F || c == 0x5C || c == 0x3F)) = fh
      by_cases he : fh.isEmpty = true
      · simp only [he, ↓reduceIte, withHost_empty]
        first | exact sized_eq L u _ | (simp only [ho']; exact sized_eq L u _)
      · simp only [he, Bool.false_eq_true, ↓reduceIte]
        have hne : fh ≠ [] := by intro e; subst e; simp at he
        have hspf : u.isSpecial = true := by simp [Url.isSpecial, hfile, isSpecialScheme]
        have hst := host_text idna u fh hne hid
        rw [hsp]
        rw [hspf] at hst ⊢
        simp only [Bool.not_true] at hst
        cases hp : hostParse idna fh false with
        | none =>
          rw [hp] at hst
          simp only [Option.map_none, Option.map_eq_none_iff] at hst
          rw [hst]
          exact same_eq L u
        | some h =>
          rw [hp] at hst
          simp only [Option.map_some] at hst
          cases hph : parseHost idna true fh with
          | none => rw [hph] at hst; cases hst
          | some p =>
            obtain ⟨ht, kd⟩ := p
            rw [hph] at hst
            simp only [Option.map_some, Option.some.injEq] at hst
            subst hst
            simp only
            rw [serialize_localhost idna fh h hp]
            by_cases hl : (h == Host.domain bLocalhost) = true
            · simp only [hl, ↓reduceIte, withHost_empty]
              first | exact sized_eq L u _ | (simp only [ho']; exact sized_eq L u _)
            · simp only [hl, Bool.false_eq_true, ↓reduceIte, withHost_recOf]
              first | exact sized_eq L u _ | (simp only [ho']; exact sized_eq L u _)
    · -- host state
      have hty6 : (ty != 6) = true := by
        have := hty.file
        have hf : (u.scheme == bFile) = false := by simpa using hfile
        rw [hf] at this; simpa using this
      have hfb : (u.scheme == bFile) = false := by simpa using hfile
      simp only [hty6, ↓reduceIte, hfb, Bool.false_eq_true, upto_eq, hsp, hcr, hpo]
      have hcl := hclean hfile
      rw [strip_cut, hsdef] at hcl
      generalize hN : s.takeWhile (· != 0x23) = N at hcl
      rw [split_agree u.isSpecial N hcl]
      generalize hup : N.takeWhile (fun b => !isHardDelim u.isSpecial b) = upto
      by_cases hcolon : hostEnd upto < upto.length
      · -- a ':' outside brackets
        simp only [hcolon, ↓reduceIte]
        have htk : N.take (hostEnd upto) = upto.take (hostEnd upto) := by
          rw [← hup]; exact take_upto _ N _ (by rw [hup]; omega)
        rw [htk]
        by_cases hbe : (upto.take (hostEnd upto)).isEmpty = true
        · simp only [hbe, ↓reduceIte]; exact same_eq L u
        · simp only [hbe, Bool.false_eq_true, ↓reduceIte]
          cases hn with
          | true => simp only [↓reduceIte]; exact same_eq L u
          | false =>
            simp only [Bool.false_eq_true, ↓reduceIte]
            have hne : upto.take (hostEnd upto) ≠ [] := by intro e; rw [e] at hbe; simp at hbe
            have hst := host_text idna u _ hne hid
            cases hp : hostParse idna (upto.take (hostEnd upto)) (!u.isSpecial) with
            | none =>
              rw [hp] at hst
              simp only [Option.map_none, Option.map_eq_none_iff] at hst
              rw [hst]; exact same_eq L u
            | some h =>
              rw [hp] at hst
              simp only [Option.map_some] at hst
              cases hph : parseHost idna u.isSpecial (upto.take (hostEnd upto)) with
              | none => rw [hph] at hst; cases hst
              | some p =>
                obtain ⟨ht, kd⟩ := p
                rw [hph] at hst
                simp only [Option.map_some, Option.some.injEq] at hst
                subst hst
                simp only [withHost_recOf]
                have hsch : ({ u with host := some h } : Url).scheme = u.scheme := rfl
                have hport := (hostSetterPort_eq { u with host := some h } (N.drop (hostEnd upto + 1))).2
                rw [hsch] at hport
                rw [hport]
                have hdig : portOverride { u with host := some h } (N.drop (hostEnd upto + 1)) =
                    portOverride { u with host := some h } (s.drop (hostEnd upto + 1)) := by
                  unfold portOverride
                  have hk : hostEnd upto + 1 ≤ N.length := by
                    have h1 : upto.length ≤ N.length := by
                      rw [← hup]; exact (List.takeWhile_prefix (p := fun b => !isHardDelim u.isSpecial b)).length_le
                    omega
                  rw [← hN] at hk ⊢
                  rw [digits_same s _ hk]
                rw [hdig]
                first | exact sized_eq L u _ | (simp only [ho']; exact sized_eq L u _)
      · -- the host runs to the end of the text
        simp only [hcolon, ↓reduceIte]
        have htk : N.take upto.length = upto := by
          rw [← hup, take_upto (fun b => !isHardDelim u.isSpecial b) N _ (Nat.le_refl _), List.take_length]
        rw [htk]
        by_cases hue : upto.isEmpty = true
        · have hunil : upto = [] := by cases upto <;> simp_all
          simp only [hue, Bool.true_and, Bool.and_true]
          cases hs : u.isSpecial
          · simp only [Bool.false_eq_true, ↓reduceIte, Bool.not_false]
            by_cases hcp : (u.includesCredentials || u.port.isSome) = true
            · simp only [hcp, ↓reduceIte]; exact same_eq L u
            · simp only [hcp, Bool.false_eq_true, ↓reduceIte]
              have hp : hostParse idna upto true = some (.opaqueHost []) := by
                rw [hunil]; simp [hostParse, opaqueHostParse, percentEncode]
              rw [hp]
              simp only [withHost_empty]
              first | exact sized_eq L u _ | (simp only [ho']; exact sized_eq L u _)
          · simp only [↓reduceIte]; exact same_eq L u
        · have hue' : upto.isEmpty = false := by simpa using hue
          simp only [hue', Bool.false_and, Bool.and_false, Bool.false_eq_true, ↓reduceIte]
          have hne : upto ≠ [] := by intro e; rw [e] at hue'; simp at hue'
          have hst := host_text idna u upto hne hid
          cases hp : hostParse idna upto (!u.isSpecial) with
          | none =>
            rw [hp] at hst
            simp only [Option.map_none, Option.map_eq_none_iff] at hst
            rw [hst]; exact same_eq L u
          | some h =>
            rw [hp] at hst
            simp only [Option.map_some] at hst
            cases hph : parseHost idna u.isSpecial upto with
            | none => rw [hph] at hst; cases hst
            | some p =>
              obtain ⟨ht, kd⟩ := p
              rw [hph] at hst
              simp only [Option.map_some, Option.some.injEq] at hst
              subst hst
              simp only [withHost_recOf]
              first | exact sized_eq L u _ | (simp only [ho']; exact sized_eq L u _)

end AdaVerif.Lemmas.HS

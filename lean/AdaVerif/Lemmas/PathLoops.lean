import AdaVerif.Lemmas.PathString
import AdaVerif.Lemmas.Encode
import AdaVerif.Lemmas.HostCanon
/-
The general ("slow") loop of `parse_prepared_path` is the Standard's path state over the segments of the input.
-/
namespace AdaVerif.Lemmas.PP
open AdaVerif AdaVerif.Spec AdaVerif.Lemmas AdaVerif.Lemmas.FP AdaVerif.Model.PathPrepared

theorem pathSet_table : ∀ b : UInt8, bitAt Gen.pathSet b = Spec.inPath b := by
  apply forall_uint8_of_fin; decide +kernel

theorem pathSet_fun : bitAt Gen.pathSet = Spec.inPath := funext pathSet_table

/-! ### cutting one segment off -/
theorem cutSeg_none (bs : Bool) (l seg : Bytes) (h : cutSeg bs l = (seg, none)) : splitPath bs l = [seg] ∧ seg = l := by
  induction l generalizing seg with
  | nil => simp [cutSeg] at h; subst h; exact ⟨rfl, rfl⟩
  | cons b t ih =>
    simp only [cutSeg] at h
    split at h
    · cases h
    · rename_i hb
      cases hc : cutSeg bs t with
      | mk a r =>
        rw [hc] at h
        simp only [Prod.mk.injEq] at h
        obtain ⟨h1, h2⟩ := h
        subst h2
        obtain ⟨i1, i2⟩ := ih a hc
        subst h1
        simp only [splitPath, hb, Bool.false_eq_true, ↓reduceIte, i1]
        exact ⟨trivial, by rw [i2]⟩

theorem cutSeg_some (bs : Bool) (l seg rest : Bytes) (h : cutSeg bs l = (seg, some rest)) :
    splitPath bs l = seg :: splitPath bs rest ∧ rest.length < l.length ∧ ∀ b ∈ rest, b ∈ l := by
  induction l generalizing seg with
  | nil => simp [cutSeg] at h
  | cons b t ih =>
    simp only [cutSeg] at h
    split at h
    · rename_i hb
      simp only [Prod.mk.injEq, Option.some.injEq] at h
      obtain ⟨h1, h2⟩ := h
      subst h1; subst h2
      refine ⟨by simp [splitPath, hb], by simp, fun b hb' => by simp [hb']⟩
    · rename_i hb
      cases hc : cutSeg bs t with
      | mk a r =>
        rw [hc] at h
        simp only [Prod.mk.injEq] at h
        obtain ⟨h1, h2⟩ := h
        subst h1; subst h2
        obtain ⟨i1, i2, i3⟩ := ih a hc
        simp only [splitPath, hb, Bool.false_eq_true, ↓reduceIte, i1]
        exact ⟨trivial, by simp; omega, fun x hx => by simp [i3 x hx]⟩

theorem splitPath_mem (sp : Bool) (l : Bytes) : ∀ seg ∈ splitPath sp l, ∀ b ∈ seg, b ∈ l := by
  induction l with
  | nil => intro seg hs b hb; simp [splitPath] at hs; subst hs; simp at hb
  | cons c rest ih =>
    intro seg hs b hb
    simp only [splitPath] at hs
    split at hs
    · rcases List.mem_cons.mp hs with rfl | hs
      · simp at hb
      · exact List.mem_cons_of_mem _ (ih seg hs b hb)
    · cases hsp : splitPath sp rest with
      | nil => exact absurd hsp (splitPath_ne_nil sp rest)
      | cons h tl =>
        rw [hsp] at hs ih
        simp only [List.mem_cons] at hs
        rcases hs with rfl | hs
        · rcases List.mem_cons.mp hb with rfl | hb
          · simp
          · exact List.mem_cons_of_mem _ (ih h (by simp) b hb)
        · exact List.mem_cons_of_mem _ (ih seg (by simp [hs]) b hb)

/-- when no byte of the text is a backslash the backslash flag does not matter -/
theorem splitPath_nobs (l : Bytes) (h : (0x5C : UInt8) ∉ l) : splitPath true l = splitPath false l := by
  induction l with
  | nil => rfl
  | cons b t ih =>
    have hb : (b == 0x5C) = false := by
      have : b ≠ 0x5C := fun e => h (by simp [e])
      simpa using this
    simp only [splitPath, hb, Bool.and_false, Bool.or_false, Bool.false_and]
    rw [ih (fun hm => h (by simp [hm]))]

/-! ### one iteration -/
theorem pathText_eq_nil (segs : List Bytes) : (pathText segs).isEmpty = segs.isEmpty := by
  cases segs <;> simp [pathText]

theorem noSlash_snoc (segs : List Bytes) (x : Bytes) (hn : NoSlash segs) (hx : (0x2F : UInt8) ∉ x) : NoSlash (segs ++ [x]) := by
  intro s hs
  rcases List.mem_append.mp hs with hs | hs
  · exact hn s hs
  · simp at hs; subst hs; exact hx

theorem noSlash_shorten (scheme : Bytes) (segs : List Bytes) (hn : NoSlash segs) : NoSlash (Spec.shortenPath scheme segs) := by
  unfold Spec.shortenPath
  split
  · split
    · exact hn
    · intro s hs; simp at hs
  · exact fun s hs => hn s (List.dropLast_subset _ hs)

/-- the starts-with drive-letter test of the code is the Standard's exact test on a segment without delimiters -/
theorem driveLetter_eq (enc : Bytes) (h : ∀ b ∈ enc, b ≠ 0x2F ∧ b ≠ 0x5C ∧ b ≠ 0x3F ∧ b ≠ 0x23) :
    Model.PathPrepared.isWindowsDriveLetter enc = Spec.isWindowsDriveLetter enc := by
  unfold Model.PathPrepared.isWindowsDriveLetter Spec.isWindowsDriveLetter
  match enc, h with
  | [], _ => rfl
  | [_], _ => rfl
  | [a, b], _ => simp [isAlpha_model_eq]
  | a :: b :: c :: rest, h =>
    have hc := h c (by simp)
    have e1 : (c == 0x2F) = false := by simpa using hc.1
    have e2 : (c == 0x5C) = false := by simpa using hc.2.1
    have e3 : (c == 0x3F) = false := by simpa using hc.2.2.1
    have e4 : (c == 0x23) = false := by simpa using hc.2.2.2
    simp [e1, e2, e3, e4]

/-- the body of the general loop after the segment has been cut off and encoded -/
theorem step_eq (scheme : Bytes) (ty : Nat) (hty : (ty == 6) = (scheme == bFile)) (enc : Bytes) (isLast : Bool) (segs : List Bytes) :
    NoSlash segs → (0x2F : UInt8) ∉ enc →
    (scheme = bFile → Model.PathPrepared.isWindowsDriveLetter enc = Spec.isWindowsDriveLetter enc) →
    let P := (if Spec.isDoubleDot enc then
        (if isLast then Spec.shortenPath scheme segs ++ [[]] else Spec.shortenPath scheme segs)
      else if Spec.isSingleDot enc then (if isLast then segs ++ [[]] else segs)
      else segs ++ [if (scheme == bFile && segs.isEmpty && Spec.isWindowsDriveLetter enc) = true then
          (match enc with | [a, _] => [a, 0x3A] | _ => enc) else enc])
    (if Model.PathPrepared.isDoubleDot enc then
        (if isLast then Model.PathPrepared.shortenPath (pathText segs) ty ++ [0x2F] else Model.PathPrepared.shortenPath (pathText segs) ty)
      else if Model.PathPrepared.isSingleDot enc && isLast then pathText segs ++ [0x2F]
      else if !Model.PathPrepared.isSingleDot enc then
        (if ty == 6 && (pathText segs).isEmpty && Model.PathPrepared.isWindowsDriveLetter enc then
          pathText segs ++ [0x2F] ++ [enc.getD 0 0, 0x3A] ++ enc.drop 2
        else pathText segs ++ [0x2F] ++ enc)
      else pathText segs) = pathText P ∧ NoSlash P := by
  intro hn henc hdrv0
  have hdrv : (scheme == bFile && segs.isEmpty && Model.PathPrepared.isWindowsDriveLetter enc) =
      (scheme == bFile && segs.isEmpty && Spec.isWindowsDriveLetter enc) := by
    by_cases hf : scheme = bFile
    · rw [hdrv0 hf]
    · have : (scheme == bFile) = false := by simpa using hf
      simp [this]
  simp only [doubleDot_eq, singleDot_eq, shortenPath_eq scheme ty hty segs hn, hty, pathText_eq_nil, hdrv]
  have hsn := noSlash_shorten scheme segs hn
  by_cases hdd : Spec.isDoubleDot enc = true
  · simp only [hdd, ↓reduceIte]
    cases isLast with
    | true => simp only [↓reduceIte]; exact ⟨by rw [pathText_snoc], noSlash_snoc _ _ hsn (by simp)⟩
    | false => exact ⟨by simp, hsn⟩
  · have hdd' : Spec.isDoubleDot enc = false := by simpa using hdd
    simp only [hdd', Bool.false_eq_true, ↓reduceIte]
    by_cases hsd : Spec.isSingleDot enc = true
    · simp only [hsd, Bool.true_and, ↓reduceIte, Bool.not_true, Bool.false_eq_true]
      cases isLast with
      | true => simp only [↓reduceIte]; exact ⟨by rw [pathText_snoc], noSlash_snoc _ _ hn (by simp)⟩
      | false => exact ⟨by simp, hn⟩
    · have hsd' : Spec.isSingleDot enc = false := by simpa using hsd
      simp only [hsd', Bool.false_and, Bool.false_eq_true, ↓reduceIte, Bool.not_false]
      by_cases hc : (scheme == bFile && segs.isEmpty && Spec.isWindowsDriveLetter enc) = true
      · have hw : Spec.isWindowsDriveLetter enc = true := by
          simp only [Bool.and_eq_true] at hc; exact hc.2
        unfold Spec.isWindowsDriveLetter at hw
        split at hw
        · rename_i a b
          simp only [hc, ↓reduceIte]
          refine ⟨by rw [pathText_snoc]; simp, noSlash_snoc _ _ hn ?_⟩
          intro hm
          simp only [List.mem_cons, List.not_mem_nil, or_false] at hm
          rcases hm with e | e
          · exact henc (by rw [← e]; simp)
          · cases e
        · cases hw
      · have hc' : (scheme == bFile && segs.isEmpty && Spec.isWindowsDriveLetter enc) = false := by simpa using hc
        simp only [hc', Bool.false_eq_true, ↓reduceIte]
        exact ⟨by rw [pathText_snoc]; simp, noSlash_snoc _ _ hn henc⟩

/-! ### the segment handed to the dot tests -/
theorem buf_eq (needsEnc : Bool) (view : Bytes) (h : needsEnc = false → ∀ b ∈ view, inPath b = false) :
    (if needsEnc then (Model.percentEncodeInto false Gen.pathSet view []).getD view else view) =
      Spec.percentEncode inPath view := by
  cases needsEnc with
  | false => simp only [Bool.false_eq_true, ↓reduceIte]; exact (FP.percentEncode_id _ _ (h rfl)).symm
  | true =>
    simp only [↓reduceIte]
    cases hq : Model.percentEncodeInto false Gen.pathSet view [] with
    | none =>
      have := percentEncodeInto_none false Gen.pathSet view [] hq
      rw [pathSet_fun] at this
      simp only [Option.getD_none]; exact this.symm
    | some o =>
      have := percentEncodeInto_some false Gen.pathSet view [] o hq
      rw [pathSet_fun] at this
      simpa using this

theorem enc_bytes (view : Bytes) (hv : ∀ b ∈ view, b ≠ 0x2F) (hbs : ∀ b ∈ view, b ≠ 0x5C) :
    ∀ b ∈ Spec.percentEncode inPath view, b ≠ 0x2F ∧ b ≠ 0x5C ∧ b ≠ 0x3F ∧ b ≠ 0x23 := by
  intro b hb
  rcases HC.mem_percentEncode inPath view b hb with h | h
  · have : b ≠ 0x3F ∧ b ≠ 0x23 := by
      have t : ∀ x : UInt8, inPath x = false → x ≠ 0x3F ∧ x ≠ 0x23 := by apply forall_uint8_of_fin; decide +kernel
      exact t b h.2
    exact ⟨hv b h.1, hbs b h.1, this.1, this.2⟩
  · have := HC.pctb_facts b h
    exact ⟨this.2.2.2.2.2.2.2.1, this.2.2.2.2.2.2.2.2.1, this.2.2.2.2.2.2.2.2.2.1, this.2.2.2.2.2.2.2.2.2.2⟩

theorem cutSeg_fst (bs : Bool) (l : Bytes) : ∀ b ∈ (cutSeg bs l).1, b ∈ l ∧ b ≠ 0x2F ∧ (bs = true → b ≠ 0x5C) := by
  induction l with
  | nil => intro b hb; simp [cutSeg] at hb
  | cons c t ih =>
    intro b hb
    simp only [cutSeg] at hb
    split at hb
    · simp at hb
    · rename_i hc
      cases hq : cutSeg bs t with
      | mk a r =>
        rw [hq] at hb ih
        simp only [List.mem_cons] at hb
        rcases hb with rfl | hb
        · simp only [Bool.or_eq_true, beq_iff_eq, Bool.and_eq_true, not_or, not_and] at hc
          exact ⟨by simp, hc.1, fun e => hc.2 e⟩
        · have := ih b hb
          exact ⟨by simp [this.1], this.2.1, this.2.2⟩

/-- **the general loop** is the Standard's path state -/
theorem slowLoop_eq (scheme : Bytes) (ty : Nat) (hty : (ty == 6) = (scheme == bFile)) (bs needsEnc : Bool)
    (fuel : Nat) (input : Bytes) (segs : List Bytes) (hf : input.length < fuel) (hn : NoSlash segs)
    (henc : needsEnc = false → ∀ b ∈ input, inPath b = false)
    (hbsl : scheme = bFile → bs = false → ∀ b ∈ input, b ≠ 0x5C) :
    slowLoop fuel ty bs needsEnc input (pathText segs) = pathText (pathSegments scheme (splitPath bs input) segs) := by
  induction fuel generalizing input segs with
  | zero => omega
  | succ f ih =>
    unfold slowLoop
    have hfst := cutSeg_fst bs input
    cases hc : cutSeg bs input with
    | mk view more =>
      rw [hc] at hfst
      simp only at hfst
      have hbuf := buf_eq needsEnc view (fun hne b hb => henc hne b (hfst b hb).1)
      have hvb : scheme = bFile → ∀ b ∈ view, b ≠ 0x5C := by
        intro hfile b hb
        cases hbs : bs with
        | true => exact (hfst b hb).2.2 hbs
        | false => exact hbsl hfile hbs b (hfst b hb).1
      have henc_ns : (0x2F : UInt8) ∉ Spec.percentEncode inPath view := by
        intro hm
        rcases HC.mem_percentEncode inPath view _ hm with h | h
        · exact (hfst _ h.1).2.1 rfl
        · exact (HC.pctb_facts _ h).2.2.2.2.2.2.2.1 rfl
      have hstep := step_eq scheme ty hty (Spec.percentEncode inPath view) more.isNone segs hn henc_ns
        (fun hfile => driveLetter_eq _ (enc_bytes view (fun b hb => (hfst b hb).2.1) (hvb hfile)))
      simp only at hstep
      simp only [hbuf]
      cases more with
      | none =>
        obtain ⟨h1, h2⟩ := cutSeg_none bs input view hc
        rw [h1]
        simp only [Option.isNone_none] at hstep ⊢
        rw [hstep.1]
        unfold pathSegments
        simp only [List.isEmpty_nil, pathSegments]
        rfl
      | some rest =>
        obtain ⟨h1, h2, h3⟩ := cutSeg_some bs input view rest hc
        rw [h1]
        simp only [Option.isNone_some] at hstep ⊢
        rw [hstep.1]
        have hne : (splitPath bs rest).isEmpty = false := by
          cases hx : splitPath bs rest with
          | nil => exact absurd hx (splitPath_ne_nil bs rest)
          | cons => rfl
        rw [ih rest _ (by omega) hstep.2 (fun hne' b hb => henc hne' b (h3 b hb)) (fun hfile hb0 b hb => hbsl hfile hb0 b (h3 b hb))]
        conv => rhs; unfold pathSegments
        simp only [hne]
        rfl

end AdaVerif.Lemmas.PP

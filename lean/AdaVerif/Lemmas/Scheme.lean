import AdaVerif.Model.Scheme
import AdaVerif.Spec.Url
namespace AdaVerif.Lemmas
open AdaVerif AdaVerif.Model

/-- reference classification: position of the scheme in ada's enum
    (http=0, not special=1, https=2, ws=3, ftp=4, wss=5, file=6) -/
def schemeTypeSpec (s : Bytes) : Nat :=
  if s = Spec.bHttp then 0 else if s = Spec.bHttps then 2 else if s = Spec.bWs then 3
  else if s = Spec.bFtp then 4 else if s = Spec.bWss then 5 else if s = Spec.bFile then 6 else 1

def toBytes (l : List Nat) : Bytes := l.map UInt8.ofNat

private theorem u8ext {a b : UInt8} (h : a.toNat = b.toNat) : a = b := UInt8.toNat_inj.mp h

theorem load5_1 (a : UInt8) : load5 [a] = a.toNat := rfl
theorem load5_2 (a b : UInt8) : load5 [a, b] = a.toNat + b.toNat * 256 := rfl
theorem load5_3 (a b c : UInt8) : load5 [a, b, c] = a.toNat + b.toNat * 256 + c.toNat * 65536 := rfl
theorem load5_4 (a b c d : UInt8) :
    load5 [a, b, c, d] = a.toNat + b.toNat * 256 + c.toNat * 65536 + d.toNat * 16777216 := rfl
theorem load5_5 (a b c d e : UInt8) :
    load5 [a, b, c, d, e] = a.toNat + b.toNat * 256 + c.toNat * 65536 + d.toNat * 16777216 +
      e.toNat * 4294967296 := rfl

theorem inj2 (a b a' b' : Nat) (h1 : a < 256) (h2 : a' < 256) (h : a + b * 256 = a' + b' * 256) :
    a = a' ∧ b = b' := by omega
theorem inj3 (a b c a' b' c' : Nat) (h1 : a < 256) (h2 : a' < 256) (h3 : b < 256) (h4 : b' < 256)
    (h : a + b * 256 + c * 65536 = a' + b' * 256 + c' * 65536) : a = a' ∧ b = b' ∧ c = c' := by omega
theorem inj4 (a b c d a' b' c' d' : Nat) (h1 : a < 256) (h2 : a' < 256) (h3 : b < 256) (h4 : b' < 256)
    (h5 : c < 256) (h6 : c' < 256)
    (h : a + b * 256 + c * 65536 + d * 16777216 = a' + b' * 256 + c' * 65536 + d' * 16777216) :
    a = a' ∧ b = b' ∧ c = c' ∧ d = d' := by omega
theorem inj5 (a b c d e a' b' c' d' e' : Nat) (h1 : a < 256) (h2 : a' < 256) (h3 : b < 256) (h4 : b' < 256)
    (h5 : c < 256) (h6 : c' < 256) (h7 : d < 256) (h8 : d' < 256)
    (h : a + b * 256 + c * 65536 + d * 16777216 + e * 4294967296 =
         a' + b' * 256 + c' * 65536 + d' * 16777216 + e' * 4294967296) :
    a = a' ∧ b = b' ∧ c = c' ∧ d = d' ∧ e = e' := by omega

/-- packing up to five bytes is injective on strings of equal length -/
theorem load5_inj (s t : Bytes) (hl : s.length = t.length) (h5 : s.length ≤ 5)
    (h : load5 s = load5 t) : s = t := by
  match s, t, hl, h5 with
  | [], [], _, _ => rfl
  | [a], [a'], _, _ => rw [load5_1, load5_1] at h; rw [u8ext h]
  | [a, b], [a', b'], _, _ =>
    rw [load5_2, load5_2] at h
    obtain ⟨h1, h2⟩ := inj2 _ _ _ _ a.toNat_lt a'.toNat_lt h
    rw [u8ext h1, u8ext h2]
  | [a, b, c], [a', b', c'], _, _ =>
    rw [load5_3, load5_3] at h
    obtain ⟨h1, h2, h3⟩ := inj3 _ _ _ _ _ _ a.toNat_lt a'.toNat_lt b.toNat_lt b'.toNat_lt h
    rw [u8ext h1, u8ext h2, u8ext h3]
  | [a, b, c, d], [a', b', c', d'], _, _ =>
    rw [load5_4, load5_4] at h
    obtain ⟨h1, h2, h3, h4⟩ := inj4 _ _ _ _ _ _ _ _ a.toNat_lt a'.toNat_lt b.toNat_lt b'.toNat_lt
      c.toNat_lt c'.toNat_lt h
    rw [u8ext h1, u8ext h2, u8ext h3, u8ext h4]
  | [a, b, c, d, e], [a', b', c', d', e'], _, _ =>
    rw [load5_5, load5_5] at h
    obtain ⟨h1, h2, h3, h4, h5⟩ := inj5 _ _ _ _ _ _ _ _ _ _ a.toNat_lt a'.toNat_lt b.toNat_lt b'.toNat_lt
      c.toNat_lt c'.toNat_lt d.toNat_lt d'.toNat_lt h
    rw [u8ext h1, u8ext h2, u8ext h3, u8ext h4, u8ext h5]
  | _ :: _ :: _ :: _ :: _ :: _ :: _, _, _, h5 => simp at h5


/-- generated tables: the six names sit at their own hash slots, slots 1 and 7 are sentinels -/
theorem gen_names : Gen.isSpecialList.map toBytes =
    [Spec.bHttp, [0x20], Spec.bHttps, Spec.bWs, Spec.bFtp, Spec.bWss, Spec.bFile, [0x20]] := by decide
theorem gen_lengths : Gen.isSpecialList.map List.length = [4, 1, 5, 2, 3, 3, 4, 1] := by decide
/-- every key is the packed name of its slot (0 for the sentinels) -/
theorem gen_keys : Gen.schemeKeys = [load5 Spec.bHttp, 0, load5 Spec.bHttps, load5 Spec.bWs, load5 Spec.bFtp,
    load5 Spec.bWss, load5 Spec.bFile, 0] := by
  simp [load5, Gen.schemeKeys, Spec.bHttp, Spec.bHttps, Spec.bWs, Spec.bFtp, Spec.bWss, Spec.bFile]

theorem hash_of_names : schemeHash Spec.bHttp = 0 ∧ schemeHash Spec.bHttps = 2 ∧ schemeHash Spec.bWs = 3 ∧
    schemeHash Spec.bFtp = 4 ∧ schemeHash Spec.bWss = 5 ∧ schemeHash Spec.bFile = 6 := by decide

theorem targetLen (h : Nat) : (listGet Gen.isSpecialList h).length = (Gen.isSpecialList.map List.length).getD h 0 := by
  simp [listGet, List.getD_eq_getElem?_getD, List.getElem?_map]
  cases Gen.isSpecialList[h]? <;> simp

/-- `get_scheme_type` on a string that is none of the six names answers NOT_SPECIAL -/
theorem getSchemeType_other (s : Bytes) (h0 : s ≠ Spec.bHttp) (h2 : s ≠ Spec.bHttps) (h3 : s ≠ Spec.bWs)
    (h4 : s ≠ Spec.bFtp) (h5 : s ≠ Spec.bWss) (h6 : s ≠ Spec.bFile) : getSchemeType s = 1 := by
  unfold getSchemeType
  split
  · rfl
  · rename_i hne
    simp only
    split
    · rename_i hc
      exfalso
      simp only [Bool.and_eq_true, beq_iff_eq] at hc
      obtain ⟨hlen, hkey⟩ := hc
      rw [targetLen, gen_lengths] at hlen
      rw [gen_keys] at hkey
      have hh : schemeHash s < 8 := Nat.mod_lt _ (by decide)
      generalize hg : schemeHash s = h at *
      have : h = 0 ∨ h = 1 ∨ h = 2 ∨ h = 3 ∨ h = 4 ∨ h = 5 ∨ h = 6 ∨ h = 7 := by omega
      rcases this with rfl | rfl | rfl | rfl | rfl | rfl | rfl | rfl
      · exact h0 (load5_inj s Spec.bHttp (by simp at hlen; simpa [Spec.bHttp] using hlen) (by simp at hlen; omega) (by simpa [tget] using hkey))
      · -- sentinel: length 1, key 0 → s = [0] → hash 2
        simp [tget] at hlen hkey
        match s, hlen with
        | [a], _ =>
          rw [load5_1] at hkey
          simp [schemeHash, hkey] at hg
      · exact h2 (load5_inj s Spec.bHttps (by simp at hlen; simpa [Spec.bHttps] using hlen) (by simp at hlen; omega) (by simpa [tget] using hkey))
      · exact h3 (load5_inj s Spec.bWs (by simp at hlen; simpa [Spec.bWs] using hlen) (by simp at hlen; omega) (by simpa [tget] using hkey))
      · exact h4 (load5_inj s Spec.bFtp (by simp at hlen; simpa [Spec.bFtp] using hlen) (by simp at hlen; omega) (by simpa [tget] using hkey))
      · exact h5 (load5_inj s Spec.bWss (by simp at hlen; simpa [Spec.bWss] using hlen) (by simp at hlen; omega) (by simpa [tget] using hkey))
      · exact h6 (load5_inj s Spec.bFile (by simp at hlen; simpa [Spec.bFile] using hlen) (by simp at hlen; omega) (by simpa [tget] using hkey))
      · simp [tget] at hlen hkey
        match s, hlen with
        | [a], _ =>
          rw [load5_1] at hkey
          simp [schemeHash, hkey] at hg
    · rfl

theorem getSchemeType_names : getSchemeType Spec.bHttp = 0 ∧ getSchemeType Spec.bHttps = 2 ∧
    getSchemeType Spec.bWs = 3 ∧ getSchemeType Spec.bFtp = 4 ∧ getSchemeType Spec.bWss = 5 ∧
    getSchemeType Spec.bFile = 6 := by
  simp [getSchemeType, gen_keys, listGet, tget, Gen.isSpecialList, Spec.bHttp, Spec.bHttps,
    Spec.bWs, Spec.bFtp, Spec.bWss, Spec.bFile, schemeHash, load5]

/-- the perfect-hash lookup classifies every byte string exactly like the list of special schemes -/
theorem getSchemeType_eq (s : Bytes) : getSchemeType s = schemeTypeSpec s := by
  unfold schemeTypeSpec
  split; · rename_i h; subst h; exact getSchemeType_names.1
  split; · rename_i h; subst h; exact getSchemeType_names.2.1
  split; · rename_i h; subst h; exact getSchemeType_names.2.2.1
  split; · rename_i h; subst h; exact getSchemeType_names.2.2.2.1
  split; · rename_i h; subst h; exact getSchemeType_names.2.2.2.2.1
  split; · rename_i h; subst h; exact getSchemeType_names.2.2.2.2.2
  rename_i h0 h2 h3 h4 h5 h6
  exact getSchemeType_other s h0 h2 h3 h4 h5 h6

end AdaVerif.Lemmas

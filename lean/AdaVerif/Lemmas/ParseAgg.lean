import AdaVerif.Model.ParseAgg
import AdaVerif.Lemmas.ParseSpecial
import AdaVerif.Lemmas.AggEditors
import AdaVerif.Lemmas.AggSetters
import AdaVerif.Lemmas.AggHostSetter
import AdaVerif.Props.C07
import AdaVerif.Lemmas.HostFixed
/-
`parse_url_impl<ada::url_aggregator>(input, nullptr)` (Model/ParseAgg.lean) lays out, in the single buffer, exactly the
fields that `parse_url_impl<ada::url>` (Model/ParseSpecial.lean) computes: every editor call of the aggregator's branches
commutes with the layout (C07), so the two instantiations of the template stay in step from SCHEME to the fragment.
-/
namespace AdaVerif.Lemmas.PA
open AdaVerif AdaVerif.Spec AdaVerif.Lemmas AdaVerif.Lemmas.AggL AdaVerif.Model AdaVerif.Model.Agg AdaVerif.Model.ParseSpecial
  AdaVerif.Model.ParseAgg AdaVerif.Model.UrlRec AdaVerif.Model.HostParse

/-- the answer of the aggregator instantiation that corresponds to an answer of the `ada::url` instantiation -/
def aggOf : Out → Option Agg
  | .invalid => none
  | .ok r => some (layout (toL r))

/-- the content while SCHEME … AUTHORITY run: scheme (with ':'), "//" or not, credentials so far -/
def LA (s : Bytes) (auth : Bool) (user pass : Bytes) : L :=
  { scheme := s, auth := auth, user := user, pass := pass, host := [], port := none, dashdot := false, path := [], query := none,
    frag := none, opq := false }

theorem LA_tail (s : Bytes) (auth : Bool) (u p : Bytes) : TailNoAt (LA s auth u p) := by
  simp [TailNoAt, LA, portS, ddS, queryS, fragS]

/-! ### SCHEME -/
theorem setSchemeWithColon_empty (s : Bytes) : setSchemeWithColon emptyAgg s = layout (LA s false [] []) := by
  simp [setSchemeWithColon, emptyAgg, layout, LA, shift, shiftO, authS, passS, atS, portS, ddS, queryS, fragS]

theorem setScheme_empty (s : Bytes) : setScheme emptyAgg s = layout (LA (s ++ [0x3A]) false [] []) := by
  simp [setScheme, emptyAgg, layout, LA, shift, shiftO, authS, passS, atS, portS, ddS, queryS, fragS]

theorem parseSchemeA_eq (name : Bytes) :
    parseSchemeA emptyAgg name = ((parseSchemeNoOverride name).1, layout (LA ((parseSchemeNoOverride name).2 ++ [0x3A]) false [] [])) := by
  rw [PS.parseSchemeNoOverride_spec]
  unfold parseSchemeA
  have hf := Proto.type_facts name
  by_cases hpt : (getSchemeType name != 1) = true
  · have hne : getSchemeType name ≠ 1 := by simpa using hpt
    obtain ⟨_, hlow⟩ := hf.2.2.2 hne
    simp only [hpt, ↓reduceIte, hlow, setSchemeWithColon_empty]
  · simp only [hpt, Bool.false_eq_true, ↓reduceIte, setScheme_empty]

/-! ### AUTHORITY -/
theorem appendUser_LA (s : Bytes) (au : Bool) (u p x : Bytes) (hna : au = false → u = [] ∧ p = []) :
    appendBaseUsername (layout (LA s au u p)) x = layout (LA s true (u ++ x) p) := by
  by_cases hx : x = []
  · subst hx
    unfold appendBaseUsername
    rw [addAuthoritySlashes_layout _ (show NoAuthNoCred (LA s au u p) from hna)]
    simp [LA]
  · have h1 : appendBaseUsername (layout (LA s au u p)) x = appendBaseUsername (layout (LA s true u p)) x := by
      unfold appendBaseUsername
      rw [addAuthoritySlashes_layout _ (show NoAuthNoCred (LA s au u p) from hna), addAuthoritySlashes_auth (LA s true u p) rfl]
      rfl
    rw [h1, appendBaseUsername_auth' (LA s true u p) x hx rfl (LA_tail _ _ _ _)
      (by intro _; simp only [LA, List.length_nil]; intro h; exact hx (List.eq_nil_of_length_eq_zero h))]
    rfl

theorem appendPass_LA (s : Bytes) (au : Bool) (u p x : Bytes) (hna : au = false → u = [] ∧ p = []) :
    appendBasePassword (layout (LA s au u p)) x = layout (LA s true u (p ++ x)) := by
  by_cases hx : x = []
  · subst hx
    unfold appendBasePassword
    rw [addAuthoritySlashes_layout _ (show NoAuthNoCred (LA s au u p) from hna)]
    simp [LA]
  · have h1 : appendBasePassword (layout (LA s au u p)) x = appendBasePassword (layout (LA s true u p)) x := by
      unfold appendBasePassword
      rw [addAuthoritySlashes_layout _ (show NoAuthNoCred (LA s au u p) from hna), addAuthoritySlashes_auth (LA s true u p) rfl]
      rfl
    rw [h1, appendBasePassword_auth (LA s true u p) x hx rfl (LA_tail _ _ _ _)]
    rfl

theorem appendUser_t (s u p x : Bytes) : appendBaseUsername (layout (LA s true u p)) x = layout (LA s true (u ++ x) p) :=
  appendUser_LA s true u p x (by intro h; cases h)
theorem appendPass_t (s u p x : Bytes) : appendBasePassword (layout (LA s true u p)) x = layout (LA s true u (p ++ x)) :=
  appendPass_LA s true u p x (by intro h; cases h)
theorem appendUser_f (s x : Bytes) : appendBaseUsername (layout (LA s false [] [])) x = layout (LA s true x []) := by
  have := appendUser_LA s false [] [] x (fun _ => ⟨rfl, rfl⟩)
  simpa using this
theorem appendPass_f (s x : Bytes) : appendBasePassword (layout (LA s false [] [])) x = layout (LA s true [] x) := by
  have := appendPass_LA s false [] [] x (fun _ => ⟨rfl, rfl⟩)
  simpa using this

/-- one '@': the buffer receives exactly what the `ada::url` fields receive -/
theorem absorbA_eq (s : Bytes) (st : Cred) (p : Bytes) (hna : st.atSeen = false → st.user = [] ∧ st.pass = []) :
    absorbA (layout (LA s st.atSeen st.user st.pass)) ⟨st.atSeen, st.tokenSeen⟩ p =
      (layout (LA s true (absorb st p).user (absorb st p).pass), ⟨(absorb st p).atSeen, (absorb st p).tokenSeen⟩) := by
  unfold absorbA absorb
  cases hat : st.atSeen
  · -- the first '@'
    obtain ⟨hu, hp⟩ := hna hat
    simp only [Bool.false_eq_true, ↓reduceIte, hu, hp]
    cases htk : st.tokenSeen
    · simp only [Bool.not_false, ↓reduceIte]
      cases findColon p with
      | none => simp only [appendUser_f, List.nil_append]
      | some k => simp only [appendUser_f, appendPass_t, List.nil_append]
    · simp only [Bool.not_true, Bool.false_eq_true, ↓reduceIte, appendPass_f, List.nil_append]
  · simp only [↓reduceIte]
    cases htk : st.tokenSeen
    · simp only [Bool.false_eq_true, ↓reduceIte, Bool.not_false, appendUser_t]
      cases findColon p with
      | none => simp only [appendUser_t]
      | some k => simp only [appendUser_t, appendPass_t]
    · simp only [↓reduceIte, Bool.not_true, Bool.false_eq_true, appendPass_t]

theorem absorb_atSeen (st : Cred) (p : Bytes) : (absorb st p).atSeen = true := by
  cases st with
  | mk u pw a t =>
    cases a <;> cases t <;> simp only [absorb, Bool.false_eq_true, ↓reduceIte, Bool.not_false, Bool.not_true] <;>
      (try cases findColon p) <;> rfl

theorem authLoop_other (sp : Bool) (f : Nat) (v : Bytes) (st : Cred)
    (h : ∀ rest, v.drop (authDelim sp v) ≠ 0x40 :: rest) :
    authLoop sp (f + 1) v st = if st.atSeen && (v.take (authDelim sp v)).isEmpty then none else some (v, st) := by
  conv => lhs; unfold authLoop
  by_cases hc : (st.atSeen && (v.take (authDelim sp v)).isEmpty) = true
  · simp only [hc, ↓reduceIte]
    first
      | done
      | (split
         · rename_i rest heq; exact absurd heq (h rest)
         · rfl)
  · simp only [hc, Bool.false_eq_true, ↓reduceIte]
    first
      | done
      | (split
         · rename_i rest heq; exact absurd heq (h rest)
         · rfl)

theorem authLoop_at (sp : Bool) (f : Nat) (v : Bytes) (st : Cred) (rest : Bytes) (h : v.drop (authDelim sp v) = 0x40 :: rest) :
    authLoop sp (f + 1) v st = authLoop sp f rest (absorb st (v.take (authDelim sp v))) := by
  conv => lhs; unfold authLoop
  simp only [h]

theorem authLoopA_other (sp : Bool) (f : Nat) (v : Bytes) (a : Agg) (fl : Flags)
    (h : ∀ rest, v.drop (authDelim sp v) ≠ 0x40 :: rest) :
    authLoopA sp (f + 1) v a fl = if fl.atSeen && (v.take (authDelim sp v)).isEmpty then none else some (v, a) := by
  conv => lhs; unfold authLoopA
  by_cases hc : (fl.atSeen && (v.take (authDelim sp v)).isEmpty) = true
  · simp only [hc, ↓reduceIte]
    first
      | done
      | (split
         · rename_i rest heq; exact absurd heq (h rest)
         · rfl)
  · simp only [hc, Bool.false_eq_true, ↓reduceIte]
    first
      | done
      | (split
         · rename_i rest heq; exact absurd heq (h rest)
         · rfl)

theorem authLoopA_at (sp : Bool) (f : Nat) (v : Bytes) (a : Agg) (fl : Flags) (rest : Bytes) (h : v.drop (authDelim sp v) = 0x40 :: rest) :
    authLoopA sp (f + 1) v a fl =
      authLoopA sp f rest (absorbA a fl (v.take (authDelim sp v))).1 (absorbA a fl (v.take (authDelim sp v))).2 := by
  conv => lhs; unfold authLoopA
  simp only [h]

theorem authLoopA_eq (sp : Bool) (s : Bytes) : ∀ (f : Nat) (v : Bytes) (st : Cred),
    (st.atSeen = false → st.user = [] ∧ st.pass = []) →
    authLoopA sp f v (layout (LA s st.atSeen st.user st.pass)) ⟨st.atSeen, st.tokenSeen⟩ =
      (authLoop sp f v st).map (fun r => (r.1, layout (LA s r.2.atSeen r.2.user r.2.pass))) := by
  intro f
  induction f with
  | zero => intro v st _; rfl
  | succ f ih =>
    intro v st hna
    by_cases hat : ∃ rest, v.drop (authDelim sp v) = 0x40 :: rest
    · obtain ⟨rest, hdr⟩ := hat
      rw [authLoopA_at sp f v _ _ rest hdr, authLoop_at sp f v st rest hdr, absorbA_eq s st _ hna]
      have := ih rest (absorb st (v.take (authDelim sp v))) (by intro h; rw [absorb_atSeen] at h; cases h)
      rw [absorb_atSeen] at this ⊢
      exact this
    · have hno : ∀ rest, v.drop (authDelim sp v) ≠ 0x40 :: rest := fun rest h => hat ⟨rest, h⟩
      rw [authLoopA_other sp f v _ _ hno, authLoop_other sp f v st hno]
      split <;> rfl

theorem authorityA_eq (sp : Bool) (s : Bytes) (v : Bytes) :
    authorityA sp v (layout (LA s false [] [])) =
      (authority sp v).map (fun r => (r.1, layout (LA s r.2.atSeen r.2.user r.2.pass))) := by
  unfold authorityA authority
  split
  · rfl
  · exact authLoopA_eq sp s (v.length + 1) v {} (fun _ => ⟨rfl, rfl⟩)

/-! ### HOST and PORT -/
/-- the content once the host is there -/
def LH (s u p h : Bytes) (port : Option Nat) : L :=
  { scheme := s, auth := true, user := u, pass := p, host := h, port := port.map (fun x => (x, dec16 x)), dashdot := false, path := [],
    query := none, frag := none, opq := false }

theorem hostname_LA (s : Bytes) (au : Bool) (u p h : Bytes) (hna : au = false → u = [] ∧ p = []) :
    updateBaseHostname (layout (LA s au u p)) h = layout (LH s u p h none) := by
  rw [updateBaseHostname_layout _ h (show NoAuthNoCred (LA s au u p) from hna)]
  rfl

theorem parseHostAgg_LA (idna : Idna) (sp : Bool) (s : Bytes) (au : Bool) (u p hv : Bytes) (hna : au = false → u = [] ∧ p = []) :
    parseHostAgg idna sp (layout (LA s au u p)) hv = (parseHost idna sp hv).map (fun r => layout (LH s u p r.1 none)) := by
  unfold parseHostAgg
  rw [HP.parseHostA_eq]
  cases parseHost idna sp hv with
  | none => rfl
  | some r => simp only [Option.map_some, hostname_LA s au u p r.1 hna]

theorem parsePortA_LH (sp : Bool) (dflt : Nat) (s u p h view : Bytes) :
    parsePortA sp dflt (layout (LH s u p h none)) view =
      (parsePortTrailing sp dflt view).map (fun pr => (layout (LH s u p h pr.1), pr.2)) := by
  unfold parsePortA
  cases parsePortTrailing sp dflt view with
  | none => rfl
  | some pr =>
    obtain ⟨port, rest⟩ := pr
    simp only [Option.map_some]
    cases port with
    | none =>
      simp only
      rw [clearPort_none (LH s u p h none) rfl]
    | some x =>
      simp only
      rw [updateBasePort_layout (LH s u p h none) x (dec16 x) rfl]
      rfl

/-! ### PATH_START, PATH, QUERY, fragment -/
theorem isAtPath_of (l : L) (hp : l.path = []) (hq : l.query = none) (hf : l.frag = none) : isAtPath (layout l) = true := by
  unfold isAtPath
  rw [buf_path, ps_eq]
  simp [hp, hq, hf, queryS, fragS]

theorem view_head (t : Bytes) (h : t.head? ≠ some 0x2F) : (t.takeWhile (· != 0x3F)).head? ≠ some 0x2F := by
  cases t with
  | nil => simp
  | cons c r =>
    by_cases hc : (c != 0x3F) = true
    · simp only [List.takeWhile_cons, hc, ↓reduceIte, List.head?_cons]
      simpa using h
    · simp [List.takeWhile_cons, hc]

theorem ss_cons (view : Bytes) (h : view.head? ≠ some 0x2F) : startsWithSlashSlash (0x2F :: view) = false := by
  cases view with
  | nil => rfl
  | cons c r =>
    have : c ≠ 0x2F := by simpa using h
    unfold startsWithSlashSlash
    split
    · rename_i heq; injection heq with _ heq; injection heq with e _; exact absurd e this
    · rfl

/-- PATH and QUERY on a buffer that ends where the path starts -/
theorem pathQA_layout (sp : Bool) (ty : Nat) (l : L) (t : Bytes) (hna : NoAuthNoCred l) (hdd : l.dashdot = false) (hp : l.path = [])
    (hq : l.query = none) (hf : l.frag = none) (hopq : l.opq = false) (hh : l.auth = true ∨ t.head? ≠ some 0x2F) :
    pathQA sp ty (layout l) t =
      layout { l with dashdot := !l.auth && startsWithSlashSlash (pathQ sp ty t).1, path := (pathQ sp ty t).1, query := (pathQ sp ty t).2 } := by
  unfold pathQA pathQ
  simp only
  generalize hview : t.takeWhile (· != 0x3F) = view
  have hvh : l.auth = true ∨ view.head? ≠ some 0x2F := by
    rcases hh with h | h
    · exact Or.inl h
    · exact Or.inr (by rw [← hview]; exact view_head t h)
  have hcp : consumePreparedPath (layout l) ty view =
      layout { l with dashdot := !l.auth && startsWithSlashSlash (PathPrepared.parsePreparedPath view ty []),
                      path := PathPrepared.parsePreparedPath view ty [] } := by
    rw [Props.C07.consume_prepared_path_layout l ty view hna (by intro h; rw [hdd] at h; cases h), isAtPath_of l hp hq hf]
    unfold PathPrepared.parsePreparedPath
    by_cases htr : PathPrepared.isTrivial view ty = true
    · simp only [htr, Bool.and_self, ↓reduceIte, List.nil_append, List.singleton_append]
      have hss : (!l.auth && startsWithSlashSlash (0x2F :: view)) = false := by
        rcases hvh with h | h
        · simp [h]
        · simp [ss_cons view h]
      rw [hss, ← hdd]
    · simp only [htr, Bool.false_and, Bool.false_eq_true, ↓reduceIte, hp]
      have : newDashDot l (PathPrepared.pathLoops view ty []) = (!l.auth && startsWithSlashSlash (PathPrepared.pathLoops view ty [])) := by
        unfold newDashDot
        rw [hdd, hopq]
        cases startsWithSlashSlash (PathPrepared.pathLoops view ty []) <;> simp
      rw [this]
  rw [hcp]
  by_cases hlt : view.length < t.length
  · simp only [hlt, ↓reduceIte, Option.map_some, updateBaseSearch_layout]
    rfl
  · simp only [hlt, ↓reduceIte, Option.map_none]
    rw [← hq]

theorem withFragment_layout (l : L) (frag : Option Bytes) (hf : l.frag = none) :
    withFragment (layout l) frag = layout { l with frag := frag.map (percentEncode inFragment) } := by
  cases frag with
  | none => simp only [withFragment, Option.map_none]; rw [← hf]
  | some f => simp only [withFragment, Option.map_some, updateBaseHash_layout]

theorem LH_na (s u p h : Bytes) (port : Option Nat) : NoAuthNoCred (LH s u p h port) := by
  intro h; cases h

/-- PATH_START … fragment on a buffer that holds scheme, credentials, host and port -/
theorem finishA_eq (sp : Bool) (ty : Nat) (sch : Bytes) (cred : Cred) (frag : Option Bytes) (h : Bytes) (port : Option Nat) (t : Bytes) :
    some (finishA sp ty (layout (LH (sch ++ [0x3A]) cred.user cred.pass h port)) frag t) =
      aggOf (finish sp ty sch cred frag h port t) := by
  unfold finish finishA
  simp only [aggOf]
  congr 1
  have hpq : ∀ t', pathQA sp ty (layout (LH (sch ++ [0x3A]) cred.user cred.pass h port)) t' =
      layout { LH (sch ++ [0x3A]) cred.user cred.pass h port with path := (pathQ sp ty t').1, query := (pathQ sp ty t').2 } := by
    intro t'
    rw [pathQA_layout sp ty _ t' (LH_na _ _ _ _ _) rfl rfl rfl rfl rfl (Or.inl rfl)]
    simp [LH]
  unfold pathAndQueryA pathAndQuery
  cases sp with
  | true =>
    simp only [↓reduceIte]
    cases t with
    | nil =>
      simp only
      rw [updateBasePathname_layout _ _ (LH_na _ _ _ _ _) (by intro h; cases h), withFragment_layout _ _ rfl]
      simp [toL, LH, newDashDot, startsWithSlashSlash, pathStartsSlashSlash]
    | cons c r =>
      simp only
      rw [hpq, withFragment_layout _ _ rfl]
      simp [toL, LH, pathStartsSlashSlash]
  | false =>
    simp only [Bool.false_eq_true, ↓reduceIte]
    cases t with
    | nil =>
      simp only
      rw [withFragment_layout _ _ rfl]
      simp [toL, LH, pathStartsSlashSlash]
    | cons c r =>
      simp only
      by_cases hc : (c == 0x3F) = true
      · simp only [hc, ↓reduceIte]
        rw [updateBaseSearch_layout, withFragment_layout _ _ rfl]
        simp [toL, LH, pathStartsSlashSlash]
      · simp only [hc, Bool.false_eq_true, ↓reduceIte]
        rw [hpq, withFragment_layout _ _ rfl]
        simp [toL, LH, pathStartsSlashSlash]

/-- HOST and PORT -/
theorem afterAuthorityA_eq (idna : Idna) (sp : Bool) (ty : Nat) (sch : Bytes) (frag : Option Bytes) (v : Bytes) (cred : Cred)
    (hna : cred.atSeen = false → cred.user = [] ∧ cred.pass = []) :
    afterAuthorityA idna sp ty frag v (layout (LA (sch ++ [0x3A]) cred.atSeen cred.user cred.pass)) =
      aggOf (afterAuthority idna sp ty sch frag v cred) := by
  unfold afterAuthorityA afterAuthority
  simp only
  split
  · -- a ':' outside brackets
    rw [parseHostAgg_LA idna sp _ _ _ _ _ hna]
    cases parseHost idna sp (v.take (getHostDelimiterLocation sp v).1) with
    | none => rfl
    | some r =>
      simp only [Option.map_some, parsePortA_LH]
      cases parsePortTrailing sp (specialPortOf ty) (v.drop ((getHostDelimiterLocation sp v).1 + 1)) with
      | none => rfl
      | some pr => simp only [Option.map_some]; exact finishA_eq sp ty sch cred frag r.1 pr.1 pr.2
  · split
    · cases sp with
      | true => rfl
      | false =>
        simp only [Bool.false_eq_true, ↓reduceIte]
        rw [hostname_LA _ _ _ _ _ hna]
        exact finishA_eq false ty sch cred frag [] none _
    · rw [parseHostAgg_LA idna sp _ _ _ _ _ hna]
      cases parseHost idna sp (v.take (getHostDelimiterLocation sp v).1) with
      | none => rfl
      | some r => simp only [Option.map_some]; exact finishA_eq sp ty sch cred frag r.1 none _

theorem afterSlashesA_eq (idna : Idna) (sp : Bool) (ty : Nat) (sch : Bytes) (frag : Option Bytes) (text : Bytes) :
    afterSlashesA idna sp ty frag text (layout (LA (sch ++ [0x3A]) false [] [])) = aggOf (afterSlashes idna sp ty sch frag text) := by
  unfold afterSlashesA afterSlashes
  rw [authorityA_eq]
  cases hau : authority sp text with
  | none => rfl
  | some r =>
    obtain ⟨v, cred⟩ := r
    simp only [Option.map_some]
    apply afterAuthorityA_eq
    -- the credentials the loop hands out: nothing at all, or behind an '@'
    unfold authority at hau
    split at hau
    · injection hau with hau; injection hau with _ h2; subst h2; intro _; exact ⟨rfl, rfl⟩
    · have : ∀ (f : Nat) (v0 : Bytes) (st : Cred), authLoop sp f v0 st = some (v, cred) → cred = st ∨ cred.atSeen = true := by
        intro f
        induction f with
        | zero => intro v0 st h; simp [authLoop] at h
        | succ f ih =>
          intro v0 st h
          by_cases hat : ∃ rest, v0.drop (authDelim sp v0) = 0x40 :: rest
          · obtain ⟨rest, hdr⟩ := hat
            rw [authLoop_at sp f v0 st rest hdr] at h
            rcases ih _ _ h with e | e
            · right; rw [e]; exact absorb_atSeen _ _
            · exact Or.inr e
          · rw [authLoop_other sp f v0 st (fun rest hh => hat ⟨rest, hh⟩)] at h
            split at h
            · cases h
            · injection h with h; injection h with _ h2; exact Or.inl h2.symm
      rcases this _ _ _ hau with e | e
      · rw [e]; intro _; exact ⟨rfl, rfl⟩
      · intro hfalse; rw [e] at hfalse; cases hfalse

/-! ### OPAQUE_PATH, and the other states of a scheme that is not special -/
theorem opaquePathA_eq (sch : Bytes) (frag : Option Bytes) (rest : Bytes) :
    some (opaquePathA (layout (LA (sch ++ [0x3A]) false [] [])) frag rest) = aggOf (opaquePath sch frag rest) := by
  unfold opaquePathA opaquePath
  simp only [aggOf]
  congr 1
  generalize hpath : (if (rest.takeWhile (· != 0x3F)).getLast? == some 0x20
      then percentEncode inC0 ((rest.takeWhile (· != 0x3F)).dropLast ++ [0x25, 0x32, 0x30])
      else percentEncode inC0 (rest.takeWhile (· != 0x3F))) = path
  have h1 : ({ layout (LA (sch ++ [0x3A]) false [] []) with opq := true } : Agg) = layout { LA (sch ++ [0x3A]) false [] [] with opq := true } := rfl
  rw [h1, updateBasePathname_layout _ path (by intro _; exact ⟨rfl, rfl⟩) (by intro h; cases h)]
  have h2 : ∀ l : L, ({ layout l with opq := true } : Agg) = layout { l with opq := true } := fun _ => rfl
  rw [h2]
  have hnd : newDashDot { LA (sch ++ [0x3A]) false [] [] with opq := true } path = false := by
    unfold newDashDot; cases startsWithSlashSlash path <;> simp [LA]
  rw [hnd]
  by_cases hlt : (rest.takeWhile (· != 0x3F)).length < rest.length
  · simp only [hlt, ↓reduceIte, Option.map_some, updateBaseSearch_layout]
    rw [withFragment_layout _ _ rfl]
    simp [toL, LA]
  · simp only [hlt, ↓reduceIte, Option.map_none]
    rw [withFragment_layout _ _ rfl]
    simp [toL, LA]

theorem afterSchemeNSA_auth (idna : Idna) (a : Agg) (frag : Option Bytes) (r : Bytes) :
    afterSchemeNSA idna a frag (0x2F :: 0x2F :: r) = afterSlashesA idna false 1 frag r a := rfl

theorem afterSchemeNSA_path (idna : Idna) (a : Agg) (frag : Option Bytes) (r : Bytes) (h : r.head? ≠ some 0x2F) :
    afterSchemeNSA idna a frag (0x2F :: r) = some (withFragment (pathQA false 1 a r) frag) := by
  unfold afterSchemeNSA
  split
  · rename_i heq
    injection heq with _ heq
    rw [heq] at h
    exact absurd rfl h
  · rename_i heq
    injection heq with _ heq
    subst heq
    rfl
  · rename_i h1 h2
    exact absurd rfl (h2 r)

theorem afterSchemeNSA_opaque (idna : Idna) (a : Agg) (frag : Option Bytes) (rest : Bytes) (h : rest.head? ≠ some 0x2F) :
    afterSchemeNSA idna a frag rest = some (opaquePathA a frag rest) := by
  unfold afterSchemeNSA
  split
  · exact absurd rfl h
  · exact absurd rfl h
  · rfl

theorem afterSchemeNSA_eq (idna : Idna) (sch : Bytes) (frag : Option Bytes) (rest : Bytes) :
    afterSchemeNSA idna (layout (LA (sch ++ [0x3A]) false [] [])) frag rest = aggOf (afterSchemeNS idna sch frag rest) := by
  have hopq : ∀ rest', rest'.head? ≠ some 0x2F →
      afterSchemeNSA idna (layout (LA (sch ++ [0x3A]) false [] [])) frag rest' = aggOf (afterSchemeNS idna sch frag rest') := by
    intro rest' h
    rw [afterSchemeNSA_opaque _ _ _ _ h, PS.afterSchemeNS_opaque _ _ _ _ h]
    exact opaquePathA_eq sch frag rest'
  have hpath : ∀ r, r.head? ≠ some 0x2F →
      afterSchemeNSA idna (layout (LA (sch ++ [0x3A]) false [] [])) frag (0x2F :: r) = aggOf (afterSchemeNS idna sch frag (0x2F :: r)) := by
    intro r h
    rw [afterSchemeNSA_path _ _ _ _ h, PS.afterSchemeNS_path _ _ _ _ h]
    simp only [aggOf]
    congr 1
    rw [pathQA_layout false 1 _ r (by intro _; exact ⟨rfl, rfl⟩) rfl rfl rfl rfl rfl (Or.inr h), withFragment_layout _ _ rfl]
    simp [toL, LA, pathStartsSlashSlash]
  cases rest with
  | nil => exact hopq [] (by simp)
  | cons c r1 =>
    by_cases hc : c = 0x2F
    · subst hc
      cases r1 with
      | nil => exact hpath [] (by simp)
      | cons c2 r2 =>
        by_cases hc2 : c2 = 0x2F
        · subst hc2
          rw [afterSchemeNSA_auth, PS.afterSchemeNS_auth]
          exact afterSlashesA_eq idna false 1 sch frag r2
        · exact hpath (c2 :: r2) (by simp; exact fun e => hc2 e)
    · exact hopq (c :: r1) (by simp; exact fun e => hc e)

/-! ### file URLs -/
/-- a host that the host parser hands out for a special scheme does not start with '@' -/
theorem host_no_at (idna : Idna) (buf : Bytes) (h : Host) (hp : hostParse idna buf false = some h) : h.serialize.headD 0 ≠ 0x40 := by
  unfold hostParse at hp
  split at hp
  · rename_i rest
    split at hp
    · cases hp
    · cases hq : ipv6Parse rest.dropLast with
      | none => simp [hq] at hp
      | some p => simp [hq] at hp; subst hp; simp [Host.serialize]
  · simp only [Bool.false_eq_true, ↓reduceIte] at hp
    split at hp
    · cases hp
    · rename_i ascii _
      split at hp
      · cases hp
      · rename_i hforb
        split at hp
        · cases hq : ipv4Parse ascii with
          | none => simp [hq] at hp
          | some a =>
            simp [hq] at hp; subst hp
            simp only [Host.serialize]
            have hdd := allDD_serialize a
            cases hs : ipv4Serialize a with
            | nil => simp
            | cons c t =>
              have := hdd c (by rw [hs]; simp)
              simp only [List.headD_cons]
              rcases this with h1 | h1
              · intro e; subst e; revert h1; decide
              · intro e; rw [e] at h1; revert h1; decide
        · injection hp with hp; subst hp
          simp only [Host.serialize]
          cases ascii with
          | nil => simp
          | cons c t =>
            simp only [List.headD_cons]
            intro e; subst e
            apply hforb
            simp [isForbiddenDomain, isForbiddenHost]

theorem getHostname_LH (s h : Bytes) (hh : h.headD 0 ≠ 0x40) : getHostname (layout (LH s [] [] h none)) = h := by
  have hslice := hostSlice_layout (LH s [] [] h none)
  unfold getHostname
  have hat : at_ (layout (LH s [] [] h none)).buf (layout (LH s [] [] h none)).hs = h.headD 0 := by
    have hb : (layout (LH s [] [] h none)).buf = (s ++ [0x2F, 0x2F]) ++ h := by
      simp [layout, LH, authS, passS, atS, portS, ddS, queryS, fragS]
    have hhs : (layout (LH s [] [] h none)).hs = (s ++ [0x2F, 0x2F]).length := by
      simp [layout, LH, authS, passS]
    rw [hb, hhs]
    exact at_eq rfl rfl
  have hne : (at_ (layout (LH s [] [] h none)).buf (layout (LH s [] [] h none)).hs == 0x40) = false := by
    rw [hat]; simpa using hh
  simp only [hne, Bool.and_false, Bool.false_eq_true, ↓reduceIte]
  rw [hslice]
  simp [LH, atS]

theorem hostname_LH (s u p h0 h : Bytes) : updateBaseHostname (layout (LH s u p h0 none)) h = layout (LH s u p h none) := by
  rw [updateBaseHostname_layout _ h (LH_na _ _ _ _ _)]
  rfl

theorem filePathA_eq (frag : Option Bytes) (t : Bytes) :
    some (filePathA (layout (LH (bFile ++ [0x3A]) [] [] [] none)) frag t) = aggOf (filePath frag t) := by
  unfold filePathA filePath
  simp only [aggOf]
  congr 1
  rw [pathQA_layout true 6 _ t (LH_na _ _ _ _ _) rfl rfl rfl rfl rfl (Or.inl rfl), withFragment_layout _ _ rfl]
  simp [toL, LH, pathStartsSlashSlash]

theorem fileHostA_eq (idna : Idna) (frag : Option Bytes) (t : Bytes) (hid : ∀ d, HP.IdnaAt idna d) :
    fileHostA idna (layout (LH (bFile ++ [0x3A]) [] [] [] none)) frag t = aggOf (ParseSpecial.fileHost idna frag t) := by
  unfold fileHostA ParseSpecial.fileHost
  simp only
  generalize hbuf : t.takeWhile (fun c => !(c == 0x2F || c == 0x5C || c == 0x3F)) = buffer
  by_cases hdl : PathPrepared.isWindowsDriveLetter buffer = true
  · simp only [hdl, ↓reduceIte]
    exact filePathA_eq frag t
  · simp only [hdl, Bool.false_eq_true, ↓reduceIte]
    by_cases hemp : buffer.isEmpty = true
    · simp only [hemp, ↓reduceIte]
      rw [hostname_LH]
      exact finishA_eq true 6 bFile {} frag [] none t
    · simp only [hemp, Bool.false_eq_true, ↓reduceIte]
      have hne : buffer ≠ [] := by simpa using hemp
      unfold parseHostAgg
      rw [HP.parseHostA_eq]
      have hph := HP.parseHost_eq idna true buffer hne (hid _)
      cases hr : parseHost idna true buffer with
      | none => rfl
      | some r =>
        simp only [Option.map_some, hostname_LH]
        -- the host the parser hands out does not start with '@', so the getter returns it
        rw [hr] at hph
        have hhead : r.1.headD 0 ≠ 0x40 := by
          cases hsp : hostParse idna buffer (!true) with
          | none => rw [hsp] at hph; cases hph
          | some host =>
            rw [hsp] at hph
            simp only [Option.map_some, Option.some.injEq] at hph
            rw [hph]
            exact host_no_at idna buffer host hsp
        rw [getHostname_LH _ _ hhead]
        by_cases hl : (r.1 == bLocalhost) = true
        · simp only [hl, ↓reduceIte, hostname_LH]
          exact finishA_eq true 6 bFile {} frag [] none _
        · simp only [hl, Bool.false_eq_true, ↓reduceIte]
          exact finishA_eq true 6 bFile {} frag r.1 none _

theorem afterSchemeFileA_eq (idna : Idna) (frag : Option Bytes) (rest : Bytes) (hid : ∀ d, HP.IdnaAt idna d) :
    afterSchemeFileA idna (layout (LA (bFile ++ [0x3A]) false [] [])) frag rest = aggOf (afterSchemeFile idna frag rest) := by
  unfold afterSchemeFileA afterSchemeFile
  have h0 : updateBaseHostname (setSchemeWithColon (layout (LA (bFile ++ [0x3A]) false [] [])) (bFile ++ [0x3A])) [] =
      layout (LH (bFile ++ [0x3A]) [] [] [] none) := by
    rw [setSchemeWithColon_layout _ _ (by simp [LA, bFile])]
    exact hostname_LA (bFile ++ [0x3A]) false [] [] [] (fun _ => ⟨rfl, rfl⟩)
  simp only [h0]
  cases rest with
  | nil => exact filePathA_eq frag []
  | cons c r1 =>
    simp only
    by_cases hc : (c == 0x2F || c == 0x5C) = true
    · simp only [hc, ↓reduceIte]
      cases r1 with
      | nil => exact filePathA_eq frag []
      | cons c2 r2 =>
        simp only
        by_cases hc2 : (c2 == 0x2F || c2 == 0x5C) = true
        · simp only [hc2, ↓reduceIte]
          exact fileHostA_eq idna frag r2 hid
        · simp only [hc2, Bool.false_eq_true, ↓reduceIte]
          exact filePathA_eq frag _
    · simp only [hc, Bool.false_eq_true, ↓reduceIte]
      exact filePathA_eq frag _

/-! ### the whole machine -/
/-- **both instantiations of `parse_url_impl` stay in step**: the buffer and offsets the `url_aggregator` instantiation
    builds are the layout of the fields the `ada::url` instantiation computes, for every input -/
theorem machineA_eq (idna : Idna) (input : Bytes) (hid : ∀ d, HP.IdnaAt idna d) :
    machineA idna input = aggOf (machine idna input) := by
  unfold machineA machine
  cases prep input with
  | mk d frag =>
    simp only
    cases schemeScan d with
    | none => rfl
    | some nr =>
      obtain ⟨name, rest⟩ := nr
      simp only [parseSchemeA_eq]
      have hps := PS.parseSchemeNoOverride_spec name
      rw [hps]
      simp only
      by_cases h6 : (getSchemeType (name.map toLowerByte) == 6) = true
      · simp only [h6, ↓reduceIte]
        have hf := (Proto.type_facts (name.map toLowerByte)).2.1
        have : name.map toLowerByte = bFile := by
          have : (name.map toLowerByte == bFile) = true := by rw [← hf]; exact h6
          simpa using this
        rw [this]
        exact afterSchemeFileA_eq idna frag rest hid
      · simp only [h6, Bool.false_eq_true, ↓reduceIte]
        by_cases h1 : (getSchemeType (name.map toLowerByte) == 1) = true
        · simp only [h1, ↓reduceIte]
          exact afterSchemeNSA_eq idna _ frag rest
        · simp only [h1, Bool.false_eq_true, ↓reduceIte]
          unfold afterScheme
          exact afterSlashesA_eq idna true _ _ frag _

theorem parseNoBaseA_eq (idna : Idna) (input : Bytes) (hid : ∀ d, HP.IdnaAt idna d) :
    parseNoBaseA idna input = aggOf (parseNoBase idna input) := by
  unfold parseNoBaseA parseNoBase
  split
  · exact machineA_eq idna input hid
  · cases SimpleAbs.trySimple input with
    | none => exact machineA_eq idna input hid
    | some r => rfl

end AdaVerif.Lemmas.PA

import AdaVerif.Lemmas.FastScheme
/-
C08: the port validation of the fast scanner (strip leading zeros, at most five significant digits, value at most
65535) decides exactly whether the Standard's port state succeeds.
-/
namespace AdaVerif.Lemmas.FS
open AdaVerif AdaVerif.Spec AdaVerif.Lemmas AdaVerif.Model AdaVerif.Model.FastScan

local notation "stepD" => (fun (acc : Nat) (b : UInt8) => acc * 10 + digitVal b)

theorem foldl_pow (r : Bytes) (a : Nat) : r.foldl stepD a = a * 10 ^ r.length + r.foldl stepD 0 := by
  induction r generalizing a with
  | nil => simp
  | cons x r ih =>
    simp only [List.foldl_cons, List.length_cons]
    rw [ih (a * 10 + digitVal x), ih (0 * 10 + digitVal x)]
    have : (a * 10 + digitVal x) * 10 ^ r.length = a * 10 ^ (r.length + 1) + digitVal x * 10 ^ r.length := by
      rw [Nat.add_mul, Nat.pow_succ, Nat.mul_assoc, Nat.mul_comm 10 (10 ^ r.length)]
    rw [this]; simp; omega

theorem parseRadix_cons (c : UInt8) (r : Bytes) : parseRadix 10 (c :: r) = digitVal c * 10 ^ r.length + parseRadix 10 r := by
  unfold parseRadix
  simp only [List.foldl_cons]
  rw [foldl_pow]; simp

theorem parseRadix_zeros (l : Bytes) : parseRadix 10 (l.dropWhile (· == 0x30)) = parseRadix 10 l := by
  induction l with
  | nil => rfl
  | cons c t ih =>
    simp only [List.dropWhile_cons]
    split
    · rename_i hc
      have : c = 0x30 := by simpa using hc
      subst this
      rw [ih, parseRadix_cons]
      have : digitVal 0x30 = 0 := by decide
      simp [this]
    · rfl

theorem all_digit_zeros (l : Bytes) : (l.dropWhile (· == 0x30)).all isDigit = l.all isAsciiDigit := by
  induction l with
  | nil => rfl
  | cons c t ih =>
    simp only [List.dropWhile_cons]
    split
    · rename_i hc
      have : c = 0x30 := by simpa using hc
      subst this
      rw [ih]
      have : isAsciiDigit 0x30 = true := by decide
      simp [this]
    · rfl

theorem modelVal_eq (sig : Bytes) (a : Nat) (h : ∀ b ∈ sig, isAsciiDigit b = true) :
    sig.foldl (fun acc b => acc * 10 + (b.toNat - 0x30)) a = sig.foldl stepD a := by
  induction sig generalizing a with
  | nil => rfl
  | cons c t ih =>
    simp only [List.foldl_cons]
    rw [(digit_facts2 c (h c (by simp))).1]
    exact ih _ (fun b hb => h b (by simp [hb]))

theorem digit_pos : ∀ b : UInt8, isAsciiDigit b = true → b ≠ 0x30 → 1 ≤ digitVal b := by
  apply forall_uint8_of_fin; decide +kernel

theorem six_digits_big (sig : Bytes) (hd : ∀ b ∈ sig, isAsciiDigit b = true) (hh : sig.head? ≠ some 0x30) (hl : sig.length > 5) :
    parseRadix 10 sig > 65535 := by
  cases sig with
  | nil => simp at hl
  | cons c r =>
    rw [parseRadix_cons]
    have h1 := digit_pos c (hd c (by simp)) (by simpa using hh)
    have hr : 5 ≤ r.length := by simp at hl; omega
    have h2 : 10 ^ 5 ≤ 10 ^ r.length := Nat.pow_le_pow_right (by decide) hr
    have h3 : 1 * 10 ^ r.length ≤ digitVal c * 10 ^ r.length := Nat.mul_le_mul_right _ h1
    have h4 : (10 : Nat) ^ 5 = 100000 := by decide
    omega

theorem portOk_eq (scheme port : Bytes) : FastScan.portOk port = (parsePort scheme port).isSome := by
  rw [parsePort_isSome]
  unfold FastScan.portOk
  by_cases he : port.isEmpty = true
  · have : port = [] := by simpa using he
    subst this; rfl
  · have he' : port.isEmpty = false := by simpa using he
    simp only [he', Bool.false_eq_true, ↓reduceIte, Bool.false_or]
    have hall := all_digit_zeros port
    have hval := parseRadix_zeros port
    generalize hsig : port.dropWhile (· == 0x30) = sig at hall hval
    have hhead : sig.head? ≠ some 0x30 := by
      intro e
      have := List.head?_dropWhile_not (· == (0x30 : UInt8)) port
      rw [hsig, e] at this
      simp at this
    by_cases hd : port.all isAsciiDigit = true
    · have hds : ∀ b ∈ sig, isAsciiDigit b = true := by
        rw [← hall] at hd
        simp only [List.all_eq_true] at hd
        exact hd
      have hsd : sig.all isDigit = true := by rw [hall]; exact hd
      by_cases hl : sig.length > 5
      · have := six_digits_big sig hds hhead hl
        rw [hval] at this
        have : ¬ parseRadix 10 port ≤ 65535 := by omega
        simp [hl, hd, this]
      · have hm := modelVal_eq sig 0 hds
        simp only [hl, ↓reduceIte, hsd, Bool.not_true, Bool.false_eq_true, hd, Bool.true_and]
        rw [hm]
        have : sig.foldl stepD 0 = parseRadix 10 sig := rfl
        rw [this, hval]
    · have hd' : port.all isAsciiDigit = false := by simpa using hd
      have hsd : sig.all isDigit = false := by rw [hall]; exact hd'
      simp only [hd', Bool.false_and]
      split
      · rfl
      · simp [hsd]

end AdaVerif.Lemmas.FS

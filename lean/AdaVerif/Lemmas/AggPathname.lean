import AdaVerif.Model.AggPath
import AdaVerif.Lemmas.AggEditors
/-
`url_aggregator::clear_pathname` commutes with the layout.
-/
namespace AdaVerif.Lemmas.AggL
open AdaVerif AdaVerif.Model.Agg

theorem erasePath_layout (l : L) : erasePath (layout l) = layout { l with path := [] } := by
  unfold erasePath
  rw [pathnameLength_layout]
  simp only
  rw [serase_eq (A := headS l) (M := l.path) (B := queryS l.query ++ fragS l.frag) (buf_path l) (ps_eq l) rfl]
  cases hq : l.query <;> cases hf : l.frag <;> close_agg [headS, hq, hf]

/-- the byte test of `clear_pathname` sees a "/." exactly when the content has one -/
theorem ddBytes_layout (l : L) (h : DashDotOk l) :
    ((layout l).ps == (layout l).he + 2 && at_ (layout l).buf (layout l).he == 0x2F &&
      at_ (layout l).buf ((layout l).he + 1) == 0x2E) = l.dashdot := by
  cases hd : l.dashdot
  · cases hp : l.port with
    | none => simp [layout, hd, hp, ddS, portS]
    | some pd =>
      obtain ⟨p, d⟩ := pd
      have hat : at_ (layout l).buf (layout l).he = 0x3A := by
        rw [at_eq (A := l.scheme ++ authS l.auth ++ l.user ++ passS l.pass ++ atS l.user l.pass ++ l.host)
          (B := portS l.port ++ (ddS l.dashdot ++ (l.path ++ (queryS l.query ++ fragS l.frag))))
          (by simp [layout, List.append_assoc]) (by simp [layout]; omega)]
        simp [hp, portS]
      simp [hat]
  · obtain ⟨_, ho, hp⟩ := h hd
    have hat0 : at_ (layout l).buf (layout l).he = 0x2F := by
      rw [at_eq (A := l.scheme ++ authS l.auth ++ l.user ++ passS l.pass ++ atS l.user l.pass ++ l.host)
        (B := portS l.port ++ (ddS l.dashdot ++ (l.path ++ (queryS l.query ++ fragS l.frag))))
        (by simp [layout, List.append_assoc]) (by simp [layout]; omega)]
      simp [hp, hd, portS, ddS]
    have hat1 : at_ (layout l).buf ((layout l).he + 1) = 0x2E := by
      rw [at_eq (A := l.scheme ++ authS l.auth ++ l.user ++ passS l.pass ++ atS l.user l.pass ++ l.host ++ [0x2F])
        (B := 0x2E :: (l.path ++ (queryS l.query ++ fragS l.frag)))
        (by simp [layout, hp, hd, portS, ddS, List.append_assoc]) (by simp [layout]; omega)]
      rfl
    simp [hat0, hat1]
    simp [layout, hp, hd, portS, ddS]

/-- **clear_pathname commutes with the layout**: the path and a "/." guard go, everything else stays -/
theorem clearPathname_layout (l : L) (h : DashDotOk l) :
    clearPathname (layout l) = layout { l with dashdot := false, path := [] } := by
  unfold clearPathname
  simp only [erasePath_layout]
  have h' : DashDotOk { l with path := [] } := h
  rw [ddBytes_layout _ h']
  cases hd : l.dashdot
  · simp only [Bool.false_eq_true, ↓reduceIte]
  · obtain ⟨_, _, hp⟩ := h hd
    simp only [↓reduceIte]
    exact deleteDashDot_layout { l with dashdot := true, path := [] } rfl hp

end AdaVerif.Lemmas.AggL

import AdaVerif.Model.Punycode
namespace AdaVerif.Lemmas.Puny
open AdaVerif AdaVerif.Model.Puny

theorem digit_roundtrip : ∀ d : Fin 36, charToDigit (digitToChar d.val) = some d.val := by decide +kernel

theorem digit_rt (d : Nat) (h : d < 36) : charToDigit (digitToChar d) = some d := digit_roundtrip ⟨d, h⟩

/-- Punycode digits are lower-case letters and decimal digits -/
theorem digit_is_lower_alnum : ∀ d : Fin 36,
    (97 ≤ (digitToChar d.val).toNat ∧ (digitToChar d.val).toNat ≤ 122) ∨
    (48 ≤ (digitToChar d.val).toNat ∧ (digitToChar d.val).toNat ≤ 57) := by decide +kernel

theorem threshold_range (k bias : Nat) : tmin ≤ threshold k bias ∧ threshold k bias ≤ tmax := by
  unfold threshold tmin tmax
  split
  · omega
  · split <;> omega

/-- the decoder's inner loop without the int32 guards (pure arithmetic) -/
def decodeIntU (bias : Nat) : Nat → Bytes → Nat → Nat → Nat → Option (Nat × Bytes)
  | 0, _, _, _, _ => none
  | f + 1, input, i, w, k =>
    match input with
    | [] => none
    | c :: rest =>
      match charToDigit c with
      | none => none
      | some digit =>
        let i := i + digit * w
        let t := threshold k bias
        if digit < t then some (i, rest) else decodeIntU bias f rest i (w * (base - t)) (k + base)

/-- **generalized variable-length integers round-trip**: reading what the encoder wrote for `q`
    adds exactly `q * w` and consumes exactly those digits (every `q`, every bias, every position) -/
theorem varint_roundtrip (bias : Nat) (f : Nat) (q k i w : Nat) (rest : Bytes) (hq : q < 10 ^ f) (g : Nat)
    (hg : f < g) :
    decodeIntU bias g (encodeInt bias (f + 1) q k ++ rest) i w k = some (i + q * w, rest) := by
  induction f generalizing q k i w g with
  | zero =>
    have hq0 : q = 0 := by simpa using hq
    subst hq0
    obtain ⟨ht1, _⟩ := threshold_range k bias
    have : 0 < threshold k bias := by unfold tmin at ht1; omega
    cases g with
    | zero => omega
    | succ g' =>
      simp only [encodeInt, this, ↓reduceIte, List.cons_append, List.nil_append, decodeIntU]
      rw [digit_rt 0 (by decide)]
      simp [this]
  | succ f ih =>
    obtain ⟨ht1, ht2⟩ := threshold_range k bias
    unfold tmin at ht1; unfold tmax at ht2
    cases g with
    | zero => omega
    | succ g' =>
      unfold encodeInt
      simp only
      by_cases hlt : q < threshold k bias
      · simp only [hlt, ↓reduceIte, List.cons_append, List.nil_append, decodeIntU]
        rw [digit_rt q (by omega)]
        simp [hlt]
      · simp only [hlt, ↓reduceIte, List.cons_append, decodeIntU]
        have hb : base - threshold k bias > 0 := by unfold base; omega
        have hd : threshold k bias + (q - threshold k bias) % (base - threshold k bias) < 36 := by
          have := Nat.mod_lt (q - threshold k bias) hb
          unfold base at this ⊢; omega
        rw [digit_rt _ hd]
        have hnlt : ¬ (threshold k bias + (q - threshold k bias) % (base - threshold k bias) < threshold k bias) := by omega
        simp only [hnlt, ↓reduceIte]
        have hq' : (q - threshold k bias) / (base - threshold k bias) < 10 ^ f := by
          have h10 : 10 ≤ base - threshold k bias := by unfold base; omega
          have h1 : (q - threshold k bias) / (base - threshold k bias) ≤ (q - threshold k bias) / 10 :=
            Nat.div_le_div_left h10 (by decide)
          have h2 : (q - threshold k bias) / 10 < 10 ^ f := by
            rw [Nat.div_lt_iff_lt_mul (by decide)]
            have : 10 ^ (f + 1) = 10 ^ f * 10 := Nat.pow_succ ..
            omega
          omega
        rw [ih _ _ _ _ hq' g' (by omega)]
        congr 1
        have hmd := Nat.mod_add_div (q - threshold k bias) (base - threshold k bias)
        have hexp : (threshold k bias + (q - threshold k bias) % (base - threshold k bias)) * w +
            (q - threshold k bias) / (base - threshold k bias) * (w * (base - threshold k bias)) = q * w := by
          have : q = threshold k bias + ((q - threshold k bias) % (base - threshold k bias) +
              (base - threshold k bias) * ((q - threshold k bias) / (base - threshold k bias))) := by omega
          conv => rhs; rw [this]
          rw [Nat.add_mul, Nat.add_mul, Nat.add_mul]
          have : (q - threshold k bias) / (base - threshold k bias) * (w * (base - threshold k bias)) =
              (base - threshold k bias) * ((q - threshold k bias) / (base - threshold k bias)) * w := by
            rw [Nat.mul_comm w, ← Nat.mul_assoc, Nat.mul_comm ((q - threshold k bias) / (base - threshold k bias))]
          rw [this]; omega
        rw [Prod.mk.injEq]
        exact ⟨by omega, rfl⟩

/-- the int32 guards only reject: whenever the guarded decoder answers, it answers what the
    unguarded arithmetic gives, and the value fits a signed 32-bit integer -/
theorem guards_only_reject (bias : Nat) (f : Nat) (input : Bytes) (i w k : Nat) (r : Nat × Bytes) (hw : 0 < w)
    (hi : i ≤ intMax) (h : decodeInt bias f input i w k = some r) :
    decodeIntU bias f input i w k = some r ∧ r.1 ≤ intMax := by
  induction f generalizing input i w k with
  | zero => simp [decodeInt] at h
  | succ f ih =>
    unfold decodeInt at h
    unfold decodeIntU
    cases input with
    | nil => simp at h
    | cons c rest =>
      simp only at h ⊢
      cases hc : charToDigit c with
      | none => simp [hc] at h
      | some digit =>
        simp only [hc] at h ⊢
        split at h
        · cases h
        · rename_i hg
          have hfit : i + digit * w ≤ intMax := by
            have h1 : digit ≤ (intMax - i) / w := by omega
            have h2 : digit * w ≤ (intMax - i) / w * w := Nat.mul_le_mul_right w h1
            have h3 : (intMax - i) / w * w ≤ intMax - i := Nat.div_mul_le_self _ _
            omega
          split at h
          · rename_i hlt
            injection h with h; subst h
            simp [hlt, hfit]
          · rename_i hlt
            simp only [hlt, ↓reduceIte]
            split at h
            · cases h
            · obtain ⟨_, ht2⟩ := threshold_range k bias
              unfold tmax at ht2
              exact ih rest _ _ _ (Nat.mul_pos hw (by unfold base; omega)) hfit h

/-- … and every weight the guarded decoder multiplies with fits a signed 32-bit integer -/
theorem weight_fits (w t : Nat) (h : ¬ (w > intMax / (base - t))) : w * (base - t) ≤ intMax := by
  have h1 : w ≤ intMax / (base - t) := by omega
  calc w * (base - t) ≤ intMax / (base - t) * (base - t) := Nat.mul_le_mul_right _ h1
    _ ≤ intMax := Nat.div_mul_le_self _ _

/-- the encoder's `d += (m - n) * (h + 1)` cannot overflow under its guard -/
theorem encoder_delta_fits (m n d h : Nat) (hd : d ≤ intMax) (hg : ¬ ((m - n) > (intMax - d) / (h + 1))) :
    d + (m - n) * (h + 1) ≤ intMax := by
  have h1 : m - n ≤ (intMax - d) / (h + 1) := by omega
  have h2 : (m - n) * (h + 1) ≤ (intMax - d) / (h + 1) * (h + 1) := Nat.mul_le_mul_right _ h1
  have h3 : (intMax - d) / (h + 1) * (h + 1) ≤ intMax - d := Nat.div_mul_le_self _ _
  omega

end AdaVerif.Lemmas.Puny

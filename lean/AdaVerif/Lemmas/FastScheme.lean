import AdaVerif.Lemmas.FastAuth
import AdaVerif.Lemmas.Scheme
/-
C08: the scheme detection of the fast scanner (HTTP/HTTPS shortcut and the general 7-byte window).
-/
namespace AdaVerif.Lemmas.FS
open AdaVerif AdaVerif.Spec AdaVerif.Lemmas AdaVerif.Model AdaVerif.Model.FastScan

theorem alnumPlus_eq : ∀ b : UInt8, isAlnumPlus b = isSchemeChar b := by
  unfold isAlnumPlus; apply forall_uint8_of_fin; decide +kernel
theorem isAlpha_eq : ∀ b : UInt8, isAlpha b = isAsciiAlpha b := by
  apply forall_uint8_of_fin; decide +kernel
theorem lo_lower : ∀ b : UInt8, isSchemeChar b = true → lo b = toLowerByte b := by
  apply forall_uint8_of_fin; decide +kernel
theorem lo_letter : ∀ b : UInt8, (lo b == 0x68 || lo b == 0x74 || lo b == 0x70 || lo b == 0x73) = true →
    isAsciiAlpha b = true ∧ isSchemeChar b = true ∧ toLowerByte b = lo b := by
  apply forall_uint8_of_fin; decide +kernel

/-- what both ways of finding the scheme establish -/
structure SchemeCut (t : Bytes) (pos : Nat) : Prop where
  ex : ∃ raw t2 c tl, t = raw ++ 0x3A :: 0x2F :: 0x2F :: t2 ∧ pos = raw.length + 3 ∧ raw = c :: tl ∧
    isAsciiAlpha c = true ∧ (∀ x ∈ raw, isSchemeChar x = true) ∧
    isSpecialScheme (raw.map toLowerByte) = true ∧ raw.map toLowerByte ≠ bFile

theorem httpShortcut_cut (t : Bytes) (p : Nat) (h : httpShortcut t = some p) : SchemeCut t p := by
  unfold httpShortcut at h
  split at h
  · rename_i b0 b1 b2 b3 b4 b5 b6 rest
    split at h
    · rename_i hhttp
      simp only [Bool.and_eq_true, beq_iff_eq] at hhttp
      obtain ⟨⟨⟨h0, h1⟩, h2⟩, h3⟩ := hhttp
      have f0 := lo_letter b0 (by simp [h0])
      have f1 := lo_letter b1 (by simp [h1])
      have f2 := lo_letter b2 (by simp [h2])
      have f3 := lo_letter b3 (by simp [h3])
      split at h
      · rename_i hc
        simp only [Bool.and_eq_true, beq_iff_eq] at hc
        obtain ⟨⟨rfl, rfl⟩, rfl⟩ := hc
        injection h with h; subst h
        refine ⟨[b0, b1, b2, b3], rest, b0, [b1, b2, b3], rfl, rfl, rfl, f0.1, ?_, ?_, ?_⟩
        · intro x hx; simp at hx
          rcases hx with rfl | rfl | rfl | rfl <;> first | exact f0.2.1 | exact f1.2.1 | exact f2.2.1 | exact f3.2.1
        · simp only [List.map_cons, List.map_nil, f0.2.2, f1.2.2, f2.2.2, f3.2.2, h0, h1, h2, h3]; decide
        · simp only [List.map_cons, List.map_nil, f0.2.2, f1.2.2, f2.2.2, f3.2.2, h0, h1, h2, h3]; decide
      · split at h
        · rename_i b7 rest'
          split at h
          · rename_i hc
            simp only [Bool.and_eq_true, beq_iff_eq] at hc
            obtain ⟨⟨⟨h4, rfl⟩, rfl⟩, rfl⟩ := hc
            have f4 := lo_letter b4 (by simp [h4])
            injection h with h; subst h
            refine ⟨[b0, b1, b2, b3, b4], rest', b0, [b1, b2, b3, b4], rfl, rfl, rfl, f0.1, ?_, ?_, ?_⟩
            · intro x hx; simp at hx
              rcases hx with rfl | rfl | rfl | rfl | rfl <;>
                first | exact f0.2.1 | exact f1.2.1 | exact f2.2.1 | exact f3.2.1 | exact f4.2.1
            · simp only [List.map_cons, List.map_nil, f0.2.2, f1.2.2, f2.2.2, f3.2.2, f4.2.2, h0, h1, h2, h3, h4]; decide
            · simp only [List.map_cons, List.map_nil, f0.2.2, f1.2.2, f2.2.2, f3.2.2, f4.2.2, h0, h1, h2, h3, h4]; decide
          · cases h
        · cases h
    · cases h
  · cases h

/-- the colon scan -/
theorem findColon_colon (l : Bytes) (i k : Nat) (h : findColon l i = .colon k) :
    ∃ pre rest, l = pre ++ 0x3A :: rest ∧ k = i + pre.length ∧ ∀ b ∈ pre, isSchemeChar b = true := by
  induction l generalizing i with
  | nil => simp [findColon] at h
  | cons c rest ih =>
    unfold findColon at h
    split at h; · cases h
    split at h
    · rename_i hc
      have : c = 0x3A := by simpa using hc
      subst this
      injection h with h; subst h
      exact ⟨[], rest, rfl, by simp, by simp⟩
    split at h; · cases h
    split at h; · cases h
    rename_i hal
    obtain ⟨pre, rest', e1, e2, e3⟩ := ih _ h
    refine ⟨c :: pre, rest', by rw [e1]; rfl, by simp [e2]; omega, ?_⟩
    intro b hb
    rcases List.mem_cons.mp hb with rfl | hb
    · rw [← alnumPlus_eq]; simpa using hal
    · exact e3 b hb

theorem findColon_reject (l : Bytes) (i : Nat) (h : findColon l i = .reject) :
    ∃ pre c rest, l = pre ++ c :: rest ∧ (∀ b ∈ pre, isSchemeChar b = true) ∧ c ≠ 0x3A ∧ isSchemeChar c = false ∧
      isTabNl c = false := by
  induction l generalizing i with
  | nil => simp [findColon] at h
  | cons c rest ih =>
    unfold findColon at h
    split at h; · cases h
    split at h; · cases h
    rename_i hc
    split at h; · cases h
    rename_i htn
    split at h
    · rename_i hal
      refine ⟨[], c, rest, rfl, by simp, by simpa using hc, ?_, by simpa using htn⟩
      rw [← alnumPlus_eq]; simpa using hal
    · rename_i hal
      obtain ⟨pre, c', rest', e1, e2, e3, e4, e5⟩ := ih _ h
      refine ⟨c :: pre, c', rest', by rw [e1]; rfl, ?_, e3, e4, e5⟩
      intro b hb
      rcases List.mem_cons.mp hb with rfl | hb
      · rw [← alnumPlus_eq]; simpa using hal
      · exact e2 b hb

theorem generalScheme_cut (t : Bytes) (p : Nat) (h : generalScheme t = .inr p) : SchemeCut t p := by
  unfold generalScheme at h
  split at h; · cases h
  rename_i b0 rest
  split at h; · cases h
  rename_i halpha
  have ha : isAsciiAlpha b0 = true := by rw [← isAlpha_eq]; simpa using halpha
  split at h
  · cases h
  · cases h
  · rename_i k hk
    obtain ⟨pre, rest', e1, e2, e3⟩ := findColon_colon rest 1 k hk
    simp only at h
    split at h; · cases h
    rename_i hty1
    split at h; · cases h
    rename_i hty6
    split at h
    · rename_i t2 hdrop
      injection h with h; subst h
      have hk' : k = (b0 :: pre).length := by simp [e2]; omega
      have htake : (b0 :: rest).take k = b0 :: pre := by
        rw [e1, hk', show b0 :: (pre ++ 0x3A :: rest') = (b0 :: pre) ++ 0x3A :: rest' from rfl]
        exact List.take_left' rfl
      have hdrop' : (b0 :: rest).drop (k + 1) = rest' := by
        have hlen : ((b0 :: pre) ++ [0x3A]).length = k + 1 := by rw [hk']; simp
        rw [e1, show b0 :: (pre ++ 0x3A :: rest') = ((b0 :: pre) ++ [0x3A]) ++ rest' by simp]
        exact List.drop_left' hlen
      rw [hdrop'] at hdrop
      have hall : ∀ x ∈ b0 :: pre, isSchemeChar x = true := by
        intro x hx
        rcases List.mem_cons.mp hx with rfl | hx
        · exact (lower_alpha x ha).2
        · exact e3 x hx
      have hbuf : ((b0 :: rest).take k).map lo = (b0 :: pre).map toLowerByte := by
        rw [htake]
        apply List.map_congr_left
        intro x hx; exact lo_lower x (hall x hx)
      rw [hbuf, getSchemeType_eq] at hty1 hty6
      have hsp : isSpecialScheme ((b0 :: pre).map toLowerByte) = true ∧ (b0 :: pre).map toLowerByte ≠ bFile := by
        generalize (b0 :: pre).map toLowerByte = name at hty1 hty6
        unfold schemeTypeSpec at hty1 hty6
        unfold isSpecialScheme
        split at hty1; · rename_i e; subst e; exact ⟨by decide, by decide⟩
        split at hty1; · rename_i e; subst e; exact ⟨by decide, by decide⟩
        split at hty1; · rename_i e; subst e; exact ⟨by decide, by decide⟩
        split at hty1; · rename_i e; subst e; exact ⟨by decide, by decide⟩
        split at hty1; · rename_i e; subst e; exact ⟨by decide, by decide⟩
        split at hty1
        · rename_i e1' e2' e3' e4' e5' e; subst e
          exfalso; apply hty6; decide
        · simp at hty1
      refine ⟨b0 :: pre, t2, b0, pre, ?_, by rw [hk'], rfl, ha, hall, hsp.1, hsp.2⟩
      rw [e1, hdrop]; simp
    · cases h

end AdaVerif.Lemmas.FS

import AdaVerif.Lemmas.SearchParams
/-
The hand-written UTF-8 → UTF-16 decoder inside the `sort()` comparator produces, on the UTF-8
encoding of any sequence of Unicode scalar values, exactly the UTF-16 encoding of that sequence.
Hence the comparator orders keys by UTF-16 code units, as the URL Standard requires.
-/
namespace AdaVerif.Lemmas
open AdaVerif AdaVerif.Model AdaVerif.Model.USP

/-- Unicode scalar value -/
def isScalar (cp : Nat) : Prop := cp < 0x110000 ∧ ¬(0xD800 ≤ cp ∧ cp ≤ 0xDFFF)

/-- UTF-8 encoding (RFC 3629), written arithmetically -/
def utf8Enc (cp : Nat) : Bytes :=
  if cp < 0x80 then [UInt8.ofNat cp]
  else if cp < 0x800 then [UInt8.ofNat (0xC0 + cp / 64), UInt8.ofNat (0x80 + cp % 64)]
  else if cp < 0x10000 then [UInt8.ofNat (0xE0 + cp / 4096), UInt8.ofNat (0x80 + cp / 64 % 64), UInt8.ofNat (0x80 + cp % 64)]
  else [UInt8.ofNat (0xF0 + cp / 262144), UInt8.ofNat (0x80 + cp / 4096 % 64), UInt8.ofNat (0x80 + cp / 64 % 64),
        UInt8.ofNat (0x80 + cp % 64)]

/-- UTF-16 encoding -/
def utf16Enc (cp : Nat) : List Nat :=
  if cp < 0x10000 then [cp] else [0xD800 + (cp - 0x10000) / 1024, 0xDC00 + (cp - 0x10000) % 1024]

theorem and_mask (x k : Nat) : x &&& (2 ^ k - 1) = x % 2 ^ k := Nat.and_two_pow_sub_one_eq_mod x k

theorem or_shift (a b i : Nat) (h : b < 2 ^ i) : (a <<< i) ||| b = a * 2 ^ i + b := by
  rw [← Nat.shiftLeft_add_eq_or_of_lt h, Nat.shiftLeft_eq]

theorem toNat_ofNat (n : Nat) (h : n < 256) : (UInt8.ofNat n).toNat = n := by
  simp [UInt8.toNat_ofNat, Nat.mod_eq_of_lt h]


theorem and_1F (x : Nat) : x &&& 0x1F = x % 32 := by simpa using Nat.and_two_pow_sub_one_eq_mod x 5
theorem and_0F (x : Nat) : x &&& 0x0F = x % 16 := by simpa using Nat.and_two_pow_sub_one_eq_mod x 4
theorem and_07 (x : Nat) : x &&& 0x07 = x % 8 := by simpa using Nat.and_two_pow_sub_one_eq_mod x 3
theorem and_3F (x : Nat) : x &&& 0x3F = x % 64 := by simpa using Nat.and_two_pow_sub_one_eq_mod x 6
theorem and_3FF (x : Nat) : x &&& 0x3FF = x % 1024 := by simpa using Nat.and_two_pow_sub_one_eq_mod x 10

/-- OR-ing a value below 2^i onto a multiple of 2^i is addition -/
theorem or_low (a c m i : Nat) (hm : m = 2 ^ i) (hc : c < m) : (a * m) ||| c = a * m + c := by
  subst hm
  rw [← Nat.shiftLeft_eq, Nat.shiftLeft_add_eq_or_of_lt hc]

theorem shl6 (x : Nat) : x <<< 6 = x * 64 := by rw [Nat.shiftLeft_eq]
theorem shl12 (x : Nat) : x <<< 12 = x * 4096 := by rw [Nat.shiftLeft_eq]
theorem shl18 (x : Nat) : x <<< 18 = x * 262144 := by rw [Nat.shiftLeft_eq]

theorem dec2 (q r : Nat) (hq : q < 32) (hr : r < 64) :
    (((0xC0 + q) &&& 0x1F) <<< 6) ||| ((0x80 + r) &&& 0x3F) = q * 64 + r := by
  rw [and_1F, and_3F, shl6]
  have e1 : (0xC0 + q) % 32 = q := by omega
  have e2 : (0x80 + r) % 64 = r := by omega
  rw [e1, e2]
  exact or_low q r 64 6 rfl hr

theorem dec3 (p q r : Nat) (hp : p < 16) (hq : q < 64) (hr : r < 64) :
    (((0xE0 + p) &&& 0x0F) <<< 12) ||| (((0x80 + q) &&& 0x3F) <<< 6) ||| ((0x80 + r) &&& 0x3F) = p * 4096 + q * 64 + r := by
  rw [and_0F, and_3F, and_3F, shl12, shl6]
  have e0 : (0xE0 + p) % 16 = p := by omega
  have e1 : (0x80 + q) % 64 = q := by omega
  have e2 : (0x80 + r) % 64 = r := by omega
  rw [e0, e1, e2]
  rw [or_low p (q * 64) 4096 12 rfl (by omega)]
  have h2 : p * 4096 + q * 64 = (p * 64 + q) * 64 := by omega
  rw [h2, or_low (p * 64 + q) r 64 6 rfl hr]

theorem arith1 (o p : Nat) : o * 262144 + p * 4096 = (o * 64 + p) * 4096 := by omega
theorem arith2 (t q : Nat) : t * 4096 + q * 64 = (t * 64 + q) * 64 := by omega
theorem arith3 (o p q r : Nat) : ((o * 64 + p) * 64 + q) * 64 + r = o * 262144 + p * 4096 + q * 64 + r := by omega

theorem dec4 (o p q r : Nat) (ho : o < 8) (hp : p < 64) (hq : q < 64) (hr : r < 64) :
    (((0xF0 + o) &&& 0x07) <<< 18) ||| (((0x80 + p) &&& 0x3F) <<< 12) ||| (((0x80 + q) &&& 0x3F) <<< 6) ||| ((0x80 + r) &&& 0x3F) =
      o * 262144 + p * 4096 + q * 64 + r := by
  rw [and_07, and_3F, and_3F, and_3F, shl18, shl12, shl6]
  have e0 : (0xF0 + o) % 8 = o := by omega
  have e1 : (0x80 + p) % 64 = p := by omega
  have e2 : (0x80 + q) % 64 = q := by omega
  have e3 : (0x80 + r) % 64 = r := by omega
  rw [e0, e1, e2, e3]
  have hlt : p * 4096 < 262144 := by omega
  have hpow : (262144 : Nat) = 2 ^ 18 := by decide
  have h1 : o * 262144 ||| p * 4096 = o * 262144 + p * 4096 := or_low o (p * 4096) 262144 18 hpow hlt
  rw [h1]
  rw [arith1, or_low (o * 64 + p) (q * 64) 4096 12 rfl (Nat.mul_lt_mul_of_lt_of_le hq (Nat.le_refl 64) (by decide)), arith2,
    or_low _ r 64 6 rfl hr, arith3]


/-! ### one decoder step per encoded scalar value -/

theorem nextUnit_1 (cp : Nat) (h : cp < 0x80) (rest : Bytes) :
    nextUnit (UInt8.ofNat cp :: rest, 0) = some (cp, (rest, 0)) := by
  have hc : (UInt8.ofNat cp).toNat = cp := toNat_ofNat cp (by omega)
  simp only [nextUnit, hc]
  have a1 : ¬ (cp > 0x7F) := by omega
  have a2 : ¬ (223 < cp) := by omega
  have a3 : ¬ (239 < cp) := by omega
  simp [a1, a2, a3]

theorem nextUnit_2 (cp : Nat) (h1 : 0x80 ≤ cp) (h2 : cp < 0x800) (rest : Bytes) :
    nextUnit (UInt8.ofNat (0xC0 + cp / 64) :: UInt8.ofNat (0x80 + cp % 64) :: rest, 0) = some (cp, (rest, 0)) := by
  have hc : (UInt8.ofNat (0xC0 + cp / 64)).toNat = 0xC0 + cp / 64 := toNat_ofNat _ (by omega)
  have hb : (UInt8.ofNat (0x80 + cp % 64)).toNat = 0x80 + cp % 64 := toNat_ofNat _ (by omega)
  simp only [nextUnit, hc, hb]
  have c1 : 0xC0 + cp / 64 > 0x7F := by omega
  have c2 : 0xC0 + cp / 64 ≤ 0xDF := by omega
  simp only [bne_self_eq_false, Bool.false_eq_true, ↓reduceIte, c1, c2, decide_true, List.length_cons, ge_iff_le,
    Nat.le_add_left, Bool.and_self]
  rw [dec2 (cp / 64) (cp % 64) (by omega) (by omega)]
  congr 2; omega

theorem nextUnit_3 (cp : Nat) (h1 : 0x800 ≤ cp) (h2 : cp < 0x10000) (rest : Bytes) :
    nextUnit (UInt8.ofNat (0xE0 + cp / 4096) :: UInt8.ofNat (0x80 + cp / 64 % 64) :: UInt8.ofNat (0x80 + cp % 64) :: rest, 0) =
      some (cp, (rest, 0)) := by
  have hc : (UInt8.ofNat (0xE0 + cp / 4096)).toNat = 0xE0 + cp / 4096 := toNat_ofNat _ (by omega)
  have hb1 : (UInt8.ofNat (0x80 + cp / 64 % 64)).toNat = 0x80 + cp / 64 % 64 := toNat_ofNat _ (by omega)
  have hb2 : (UInt8.ofNat (0x80 + cp % 64)).toNat = 0x80 + cp % 64 := toNat_ofNat _ (by omega)
  simp only [nextUnit, hc, hb1, hb2]
  have c1 : 0xE0 + cp / 4096 > 0x7F := by omega
  have c2 : ¬ (0xE0 + cp / 4096 ≤ 0xDF) := by omega
  have c3 : 0xE0 + cp / 4096 > 0xDF := by omega
  have c4 : 0xE0 + cp / 4096 ≤ 0xEF := by omega
  simp only [bne_self_eq_false, Bool.false_eq_true, ↓reduceIte, c1, c2, c3, c4, decide_true, decide_false, List.length_cons,
    ge_iff_le, Bool.and_false, Bool.false_and, Bool.and_self, Bool.true_and, Nat.le_add_left, Nat.reduceLeDiff]
  rw [dec3 (cp / 4096) (cp / 64 % 64) (cp % 64) (by omega) (by omega) (by omega)]
  congr 2; omega


theorem shr10 (x : Nat) : x >>> 10 = x / 1024 := by rw [Nat.shiftRight_eq_div_pow]

theorem nextUnit_4 (cp : Nat) (h1 : 0x10000 ≤ cp) (h2 : cp < 0x110000) (rest : Bytes) :
    nextUnit (UInt8.ofNat (0xF0 + cp / 262144) :: UInt8.ofNat (0x80 + cp / 4096 % 64) :: UInt8.ofNat (0x80 + cp / 64 % 64) ::
        UInt8.ofNat (0x80 + cp % 64) :: rest, 0) =
      some (0xD800 + (cp - 0x10000) / 1024, (rest, 0xDC00 + (cp - 0x10000) % 1024)) := by
  have hc : (UInt8.ofNat (0xF0 + cp / 262144)).toNat = 0xF0 + cp / 262144 := toNat_ofNat _ (by omega)
  have hb1 : (UInt8.ofNat (0x80 + cp / 4096 % 64)).toNat = 0x80 + cp / 4096 % 64 := toNat_ofNat _ (by omega)
  have hb2 : (UInt8.ofNat (0x80 + cp / 64 % 64)).toNat = 0x80 + cp / 64 % 64 := toNat_ofNat _ (by omega)
  have hb3 : (UInt8.ofNat (0x80 + cp % 64)).toNat = 0x80 + cp % 64 := toNat_ofNat _ (by omega)
  simp only [nextUnit, hc, hb1, hb2, hb3]
  have c1 : 0xF0 + cp / 262144 > 0x7F := by omega
  have c2 : ¬ (0xF0 + cp / 262144 ≤ 0xDF) := by omega
  have c3 : 0xF0 + cp / 262144 > 0xDF := by omega
  have c4 : ¬ (0xF0 + cp / 262144 ≤ 0xEF) := by omega
  have c5 : 0xF0 + cp / 262144 > 0xEF := by omega
  have c6 : 0xF0 + cp / 262144 ≤ 0xF7 := by omega
  simp only [bne_self_eq_false, Bool.false_eq_true, ↓reduceIte, c1, c2, c3, c4, c5, c6, decide_true, decide_false,
    List.length_cons, ge_iff_le, Bool.and_false, Bool.false_and, Bool.and_self, Bool.true_and, Nat.le_add_left, Nat.reduceLeDiff]
  rw [dec4 (cp / 262144) (cp / 4096 % 64) (cp / 64 % 64) (cp % 64) (by omega) (by omega) (by omega) (by omega)]
  have hv : cp / 262144 * 262144 + cp / 4096 % 64 * 4096 + cp / 64 % 64 * 64 + cp % 64 = cp := by omega
  rw [hv, shr10, and_3FF]
  have hw : (cp + 4294967296 - 65536) % 4294967296 = cp - 65536 := by omega
  rw [hw]
  have e1 : (55296 + (cp - 65536) / 1024) % 65536 = 55296 + (cp - 65536) / 1024 := by omega
  have e2 : (56320 + (cp - 65536) % 1024) % 65536 = 56320 + (cp - 65536) % 1024 := by omega
  rw [e1, e2]


/-! ### the whole stream -/

/-- on the UTF-8 encoding of a scalar value followed by anything, the decoder emits that value's
    UTF-16 code units and continues with the rest -/
theorem units_enc (cp : Nat) (h : isScalar cp) (rest : Bytes) :
    units (utf8Enc cp ++ rest, 0) = utf16Enc cp ++ units (rest, 0) := by
  obtain ⟨hlt, hsur⟩ := h
  unfold utf8Enc utf16Enc
  by_cases h1 : cp < 0x80
  · have : cp < 0x10000 := by omega
    simp only [h1, this, ↓reduceIte, List.cons_append, List.nil_append]
    rw [units_some _ _ _ (nextUnit_1 cp h1 rest)]
  · by_cases h2 : cp < 0x800
    · have : cp < 0x10000 := by omega
      simp only [h1, h2, this, ↓reduceIte, List.cons_append, List.nil_append]
      rw [units_some _ _ _ (nextUnit_2 cp (by omega) h2 rest)]
    · by_cases h3 : cp < 0x10000
      · simp only [h1, h2, h3, ↓reduceIte, List.cons_append, List.nil_append]
        rw [units_some _ _ _ (nextUnit_3 cp (by omega) h3 rest)]
      · simp only [h1, h2, h3, ↓reduceIte, List.cons_append, List.nil_append]
        rw [units_some _ _ _ (nextUnit_4 cp (by omega) hlt rest)]
        -- the pending low surrogate is emitted next
        have hlow : nextUnit (rest, 0xDC00 + (cp - 0x10000) % 1024) = some (0xDC00 + (cp - 0x10000) % 1024, (rest, 0)) := by
          have : (0xDC00 + (cp - 0x10000) % 1024 != 0) = true := by
            simp only [bne_iff_ne, ne_eq]; omega
          simp only [nextUnit, this, ↓reduceIte]
        rw [units_some _ _ _ hlow]

/-- UTF-8 of a sequence of scalar values -/
def utf8 (cps : List Nat) : Bytes := cps.flatMap utf8Enc
/-- UTF-16 of a sequence of scalar values -/
def utf16 (cps : List Nat) : List Nat := cps.flatMap utf16Enc

/-- **the decoder is UTF-8 → UTF-16** on every well-formed input -/
theorem units_utf8 (cps : List Nat) (h : ∀ cp ∈ cps, isScalar cp) : units (utf8 cps, 0) = utf16 cps := by
  induction cps with
  | nil =>
    have : nextUnit (([] : Bytes), 0) = none := by simp [nextUnit]
    simp [utf8, utf16, units_none _ this]
  | cons cp rest ih =>
    simp only [utf8, utf16, List.flatMap_cons]
    rw [units_enc cp (h cp (by simp)) _]
    congr 1
    exact ih (fun c hc => h c (by simp [hc]))

/-- hence `sort()` compares keys that are well-formed UTF-8 by their UTF-16 code units, which is the
    order the URL Standard prescribes -/
theorem keyLess_utf16 (a b : List Nat) (va vb : Bytes) (ha : ∀ cp ∈ a, isScalar cp) (hb : ∀ cp ∈ b, isScalar cp) :
    USP.keyLess (utf8 a, va) (utf8 b, vb) = lexLt (utf16 a) (utf16 b) := by
  rw [keyLess_eq, units_utf8 a ha, units_utf8 b hb]

end AdaVerif.Lemmas

import AdaVerif.Model.PathPrepared
import AdaVerif.Lemmas.FixedPoint
/-
`checkers::path_signature`: the 8-way unrolled loop is a plain OR-fold, and each bit of the accumulator says that
some byte of the input has the corresponding property.
-/
namespace AdaVerif.Lemmas.PP
open AdaVerif AdaVerif.Spec AdaVerif.Model.PathPrepared

theorem sig_fold (l : Bytes) (acc : Nat) : pathSignature l acc = l.foldl (fun acc x => acc ||| T x) acc := by
  fun_induction pathSignature l acc with
  | case1 a b c d e f g h rest acc ih =>
    rw [ih]
    simp only [List.foldl_cons, Nat.or_assoc]
  | case2 l acc hne => rfl

/-- the table has one of five values per byte -/
theorem T_values : ∀ b : UInt8,
    (T b = 1 ∧ inPath b = true ∧ b ≠ 0x25 ∧ b ≠ 0x2E ∧ b ≠ 0x5C) ∨
    (T b = 2 ∧ b = 0x5C) ∨ (T b = 4 ∧ b = 0x2E) ∨ (T b = 8 ∧ b = 0x25) ∨
    (T b = 0 ∧ inPath b = false ∧ b ≠ 0x25 ∧ b ≠ 0x2E ∧ b ≠ 0x5C) := by
  unfold T; apply forall_uint8_of_fin; decide +kernel

theorem or_bits : ∀ acc : Fin 16, ∀ t : Fin 9, (t.val = 0 ∨ t.val = 1 ∨ t.val = 2 ∨ t.val = 4 ∨ t.val = 8) →
    (acc.val ||| t.val) < 16 ∧
    (((acc.val ||| t.val) &&& 1 ≠ 0) ↔ (acc.val &&& 1 ≠ 0 ∨ t.val = 1)) ∧
    (((acc.val ||| t.val) &&& 2 ≠ 0) ↔ (acc.val &&& 2 ≠ 0 ∨ t.val = 2)) ∧
    (((acc.val ||| t.val) &&& 4 ≠ 0) ↔ (acc.val &&& 4 ≠ 0 ∨ t.val = 4)) ∧
    (((acc.val ||| t.val) &&& 8 ≠ 0) ↔ (acc.val &&& 8 ≠ 0 ∨ t.val = 8)) := by
  decide

/-- what the accumulator knows -/
structure SigFacts (l : Bytes) (acc : Nat) : Prop where
  lt : acc < 16
  b1 : acc &&& 1 ≠ 0 ↔ ∃ b ∈ l, T b = 1
  b2 : acc &&& 2 ≠ 0 ↔ ∃ b ∈ l, T b = 2
  b4 : acc &&& 4 ≠ 0 ↔ ∃ b ∈ l, T b = 4
  b8 : acc &&& 8 ≠ 0 ↔ ∃ b ∈ l, T b = 8

theorem T_small (b : UInt8) : T b = 0 ∨ T b = 1 ∨ T b = 2 ∨ T b = 4 ∨ T b = 8 := by
  rcases T_values b with h | h | h | h | h
  · exact Or.inr (Or.inl h.1)
  · exact Or.inr (Or.inr (Or.inl h.1))
  · exact Or.inr (Or.inr (Or.inr (Or.inl h.1)))
  · exact Or.inr (Or.inr (Or.inr (Or.inr h.1)))
  · exact Or.inl h.1

theorem sig_facts_fold (l pre : Bytes) (acc : Nat) (h : SigFacts pre acc) :
    SigFacts (pre ++ l) (l.foldl (fun acc x => acc ||| T x) acc) := by
  induction l generalizing pre acc with
  | nil => simpa using h
  | cons x t ih =>
    simp only [List.foldl_cons]
    have hx := T_small x
    have hx9 : T x < 9 := by rcases hx with e | e | e | e | e <;> omega
    have key := or_bits ⟨acc, h.lt⟩ ⟨T x, hx9⟩ hx
    simp only at key
    have hs : SigFacts (pre ++ [x]) (acc ||| T x) := by
      refine ⟨key.1, ?_, ?_, ?_, ?_⟩
      · rw [key.2.1, h.b1]; constructor
        · rintro (⟨b, hb, e⟩ | e)
          · exact ⟨b, by simp [hb], e⟩
          · exact ⟨x, by simp, e⟩
        · rintro ⟨b, hb, e⟩
          simp only [List.mem_append, List.mem_singleton] at hb
          rcases hb with hb | rfl
          · exact Or.inl ⟨b, hb, e⟩
          · exact Or.inr e
      · rw [key.2.2.1, h.b2]; constructor
        · rintro (⟨b, hb, e⟩ | e)
          · exact ⟨b, by simp [hb], e⟩
          · exact ⟨x, by simp, e⟩
        · rintro ⟨b, hb, e⟩
          simp only [List.mem_append, List.mem_singleton] at hb
          rcases hb with hb | rfl
          · exact Or.inl ⟨b, hb, e⟩
          · exact Or.inr e
      · rw [key.2.2.2.1, h.b4]; constructor
        · rintro (⟨b, hb, e⟩ | e)
          · exact ⟨b, by simp [hb], e⟩
          · exact ⟨x, by simp, e⟩
        · rintro ⟨b, hb, e⟩
          simp only [List.mem_append, List.mem_singleton] at hb
          rcases hb with hb | rfl
          · exact Or.inl ⟨b, hb, e⟩
          · exact Or.inr e
      · rw [key.2.2.2.2, h.b8]; constructor
        · rintro (⟨b, hb, e⟩ | e)
          · exact ⟨b, by simp [hb], e⟩
          · exact ⟨x, by simp, e⟩
        · rintro ⟨b, hb, e⟩
          simp only [List.mem_append, List.mem_singleton] at hb
          rcases hb with hb | rfl
          · exact Or.inl ⟨b, hb, e⟩
          · exact Or.inr e
    have := ih (pre ++ [x]) (acc ||| T x) hs
    simpa using this

/-- **the signature**: bit k of `path_signature(input)` is set iff some byte has table value k -/
theorem sig_facts (input : Bytes) : SigFacts input (pathSignature input 0) := by
  rw [sig_fold]
  have := sig_facts_fold input [] 0 ⟨by decide, by simp, by simp, by simp, by simp⟩
  simpa using this

end AdaVerif.Lemmas.PP

import AdaVerif.Model.Protocol
import AdaVerif.Lemmas.Scheme
import AdaVerif.Lemmas.FastScheme
import AdaVerif.Lemmas.AggSetters
import AdaVerif.Lemmas.UrlSetters
/-
The protocol setter of both URL types is the Standard's protocol setter (scheme start / scheme state with a state override).
-/
namespace AdaVerif.Lemmas.Proto
open AdaVerif AdaVerif.Model AdaVerif.Spec AdaVerif.Lemmas

/-- one SWAR lane of `to_lower_ascii` lower-cases every ASCII byte -/
theorem laneLower_eq : ∀ b : Fin 128, laneLower b.val = (toLowerByte (UInt8.ofNat b.val)).toNat := by decide +kernel

/-! ### the scheme tables -/
theorem type_facts (s : Bytes) :
    (getSchemeType s != 1) = isSpecialScheme s ∧ (getSchemeType s == 6) = (s == bFile) ∧
    specialPortOf (getSchemeType s) = (defaultPort s).getD 0 ∧
    (getSchemeType s ≠ 1 → (listGet Gen.isSpecialList (getSchemeType s)).map UInt8.ofNat = s ∧ s.map toLowerByte = s) := by
  rw [getSchemeType_eq]
  unfold schemeTypeSpec
  split; · rename_i h; subst h; decide
  split; · rename_i h; subst h; decide
  split; · rename_i h; subst h; decide
  split; · rename_i h; subst h; decide
  split; · rename_i h; subst h; decide
  split; · rename_i h; subst h; decide
  rename_i h0 h2 h3 h4 h5 h6
  have e0 : (s == bHttp) = false := by simpa using h0
  have e2 : (s == bHttps) = false := by simpa using h2
  have e3 : (s == bWs) = false := by simpa using h3
  have e4 : (s == bFtp) = false := by simpa using h4
  have e5 : (s == bWss) = false := by simpa using h5
  have e6 : (s == bFile) = false := by simpa using h6
  refine ⟨?_, ?_, ?_, fun h => absurd rfl h⟩
  · simp [isSpecialScheme, e0, e2, e3, e4, e5, e6]
  · simp [e6]
  · simp [defaultPort, e0, e2, e3, e4, e5, specialPortOf, tget, Gen.specialPorts]

theorem bytes_of_nat (s : Bytes) (t : List Nat) (h : s.map (·.toNat) = t) : s = t.map UInt8.ofNat := by
  subst h
  simp [List.map_map, Function.comp_def]

theorem targets_ne_nil : ∀ k : Fin 8, listGet Gen.isSpecialList k.val ≠ [] := by decide
theorem targets_special : ∀ k : Fin 8,
    schemeHash ((listGet Gen.isSpecialList k.val).map UInt8.ofNat) = k.val →
    isSpecialScheme ((listGet Gen.isSpecialList k.val).map UInt8.ofNat) = true := by decide

theorem isSpecial_names : Model.isSpecial bHttp = true ∧ Model.isSpecial bHttps = true ∧ Model.isSpecial bWs = true ∧
    Model.isSpecial bWss = true ∧ Model.isSpecial bFtp = true ∧ Model.isSpecial bFile = true := by decide

/-- `ada::scheme::is_special(string_view)` is membership in the list of special schemes -/
theorem isSpecial_eq (s : Bytes) : Model.isSpecial s = isSpecialScheme s := by
  cases hs : isSpecialScheme s
  · -- not one of the six names
    cases hi : Model.isSpecial s
    · rfl
    · exfalso
      unfold Model.isSpecial at hi
      cases s with
      | nil => simp at hi
      | cons s0 rest =>
        simp only [List.isEmpty_cons, Bool.false_eq_true, ↓reduceIte, Bool.and_eq_true, beq_iff_eq] at hi
        have hlt : schemeHash (s0 :: rest) < 8 := Nat.mod_lt _ (by decide)
        have hne := targets_ne_nil ⟨schemeHash (s0 :: rest), hlt⟩
        have hsp := targets_special ⟨schemeHash (s0 :: rest), hlt⟩
        simp only at hne hsp
        generalize listGet Gen.isSpecialList (schemeHash (s0 :: rest)) = target at hi hne hsp
        cases target with
        | nil => exact hne rfl
        | cons t0 tr =>
          simp only [List.getD_cons_zero, List.drop_succ_cons, List.drop_zero, List.getD_eq_getElem?_getD, List.getElem?_cons_zero,
            Option.getD_some, List.map_cons] at hi
          have hm : (s0 :: rest).map (·.toNat) = t0 :: tr := by simp [hi.1.symm, hi.2]
          have hb := bytes_of_nat _ _ hm
          rw [← hb] at hsp
          rw [hsp rfl] at hs
          cases hs
  · simp only [isSpecialScheme, Bool.or_eq_true, beq_iff_eq] at hs
    obtain ⟨h1, h2, h3, h4, h5, h6⟩ := isSpecial_names
    rcases hs with ((((h | h) | h) | h) | h) | h <;> subst h <;> assumption

/-! ### the scan in front -/
theorem stripTN_colon (v : Bytes) : stripTN (v ++ [0x3A]) = stripTN v ++ [0x3A] := by
  simp [stripTN, List.filter_append, isTabOrNewline]

theorem alnumPlus_fun : FastScan.isAlnumPlus = isSchemeChar := funext FS.alnumPlus_eq

/-- the Standard's protocol setter in terms of the scan both C++ types perform -/
theorem scan_spec (u : Url) (v : Bytes) :
    setProtocol u v = match scanProtocol v with
      | .name n => protocolCore u (n.map toLowerByte)
      | _ => u := by
  unfold setProtocol scanProtocol
  simp only [stripTN_colon]
  cases hv : stripTN v with
  | nil =>
    have : isAsciiAlpha 0x3A = false := by decide
    simp [this]
  | cons c t =>
    simp only [List.cons_append]
    rw [FS.isAlpha_eq]
    by_cases ha : isAsciiAlpha c = true
    · simp only [ha, Bool.not_true, Bool.false_eq_true, ↓reduceIte, alnumPlus_fun]
      generalize hname : List.takeWhile isSchemeChar (c :: (t ++ [0x3A])) = name
      cases hd : List.drop name.length (c :: (t ++ [0x3A])) with
      | nil => simp
      | cons p rest =>
        by_cases hp : p = 0x3A
        · subst hp; simp
        · have hp' : (p == 0x3A) = false := by simpa using hp
          simp only [hp', Bool.false_eq_true, ↓reduceIte]
          split
          · rename_i heq; injection heq with e _; exact absurd e hp
          · rfl
    · simp [ha]

/-! ### scheme state with a state override -/
/-- none of the three refusals of the scheme state applies -/
def coreOk (u : Url) (buf : Bytes) : Bool :=
  !((isSpecialScheme u.scheme != isSpecialScheme buf) || ((u.includesCredentials || u.port.isSome) && buf == bFile) ||
    (u.scheme == bFile && u.host == some .empty))

theorem protocolCore_refused (u : Url) (buf : Bytes) (h : coreOk u buf = false) : protocolCore u buf = u := by
  unfold coreOk at h
  unfold protocolCore
  by_cases h1 : (isSpecialScheme u.scheme != isSpecialScheme buf) = true
  · simp [h1]
  · by_cases h2 : ((u.includesCredentials || u.port.isSome) && buf == bFile) = true
    · simp [h1, h2]
    · by_cases h3 : (u.scheme == bFile && u.host == some .empty) = true
      · simp [h1, h2, h3]
      · simp [h1, h2, h3] at h

theorem port_step (s : Bytes) (p : Option Nat) :
    (specialPortOf (getSchemeType s) != 0 && p == some (specialPortOf (getSchemeType s))) = (p.isSome && p == defaultPort s) := by
  rw [(type_facts s).2.2.1]
  cases hd : defaultPort s with
  | none => cases p <;> simp
  | some d =>
    have := UR.defaultPort_pos s d hd
    have h0 : (d != 0) = true := by simpa using this
    cases p with
    | none => simp
    | some q => simp [h0]

open AdaVerif.Model.UrlRec AdaVerif.Lemmas.UR AdaVerif.Lemmas.AggL in
theorem hostEmpty_iff (u : Url) (ok : CredOk u) : ((recOf u).host == some []) = (u.host == some .empty) := by
  cases hh : u.host with
  | none => simp [recOf, hh]
  | some h =>
    by_cases he : h = .empty
    · subst he; simp [recOf, hh, Host.serialize]
    · have hne := ok.nonEmpty h hh he
      have h1 : (some h.serialize == some ([] : Bytes)) = false := by simpa using hne
      have h2 : (some h == some Host.empty) = false := by simpa using he
      simp [recOf, hh, h1, h2]

open AdaVerif.Model.UrlRec AdaVerif.Lemmas.UR AdaVerif.Lemmas.AggL in
/-- **`url::parse_scheme<true>`** (fast and slow path) is the scheme state with a state override -/
theorem parseSchemeR_eq (ty : Nat) (u : Url) (n : Bytes) (ok : CredOk u) (hty : (ty == 6) = (u.scheme == bFile)) :
    parseSchemeR ty (recOf u) n =
      if coreOk u (n.map toLowerByte) then (recOf (protocolCore u (n.map toLowerByte)), true) else (recOf u, false) := by
  have hsp : (recOf u).special = isSpecialScheme u.scheme := rfl
  have hcr : (recOf u).hasCredentials = u.includesCredentials := rfl
  have hpo : (recOf u).port = u.port := rfl
  have hfin : ∀ buf : Bytes, coreOk u buf = true →
      (if (specialPortOf (getSchemeType buf) != 0 &&
            ({ recOf u with scheme := buf, special := isSpecialScheme buf } : Rec).port == some (specialPortOf (getSchemeType buf))) = true
        then { ({ recOf u with scheme := buf, special := isSpecialScheme buf } : Rec) with port := none }
        else ({ recOf u with scheme := buf, special := isSpecialScheme buf } : Rec)) = recOf (protocolCore u buf) := by
    intro buf hok
    unfold coreOk at hok
    simp only [Bool.not_eq_true', Bool.or_eq_false_iff] at hok
    obtain ⟨⟨h1, h2⟩, h3⟩ := hok
    have hp : ({ recOf u with scheme := buf, special := isSpecialScheme buf } : Rec).port = u.port := rfl
    rw [hp, port_step]
    unfold protocolCore
    simp only [h1, h2, h3, Bool.false_eq_true, ↓reduceIte]
    by_cases h4 : (u.port.isSome && u.port == defaultPort buf) = true
    · simp [h4, recOf, Url.isSpecial, Url.pathSerialized]
    · simp [h4, recOf, Url.isSpecial, Url.pathSerialized]
  unfold parseSchemeR
  rw [hsp, hcr, hpo, hostEmpty_iff u ok, hty]
  have hf := type_facts n
  by_cases hpt : (getSchemeType n != 1) = true
  · have hne : getSchemeType n ≠ 1 := by simpa using hpt
    obtain ⟨hname, hlow⟩ := hf.2.2.2 hne
    have hspn : isSpecialScheme n = true := by rw [← hf.1]; exact hpt
    simp only [hpt, ↓reduceIte, hlow, hf.2.1, hname]
    by_cases hok : coreOk u n = true
    · have hok' := hok
      unfold coreOk at hok'
      simp only [Bool.not_eq_true', Bool.or_eq_false_iff, hspn] at hok'
      obtain ⟨⟨h1, h2⟩, h3⟩ := hok'
      simp only [h1, h2, h3, Bool.false_eq_true, ↓reduceIte, hok]
      have := hfin n hok
      rw [hspn] at this
      simpa [hpo] using congrArg (fun r => (r, true)) this
    · have hok' : coreOk u n = false := by simpa using hok
      simp only [hok', Bool.false_eq_true, ↓reduceIte]
      unfold coreOk at hok'
      simp only [hspn] at hok'
      by_cases h1 : (isSpecialScheme u.scheme != true) = true
      · simp [h1]
      · by_cases h2 : ((u.includesCredentials || u.port.isSome) && n == bFile) = true
        · simp [h1, h2]
        · by_cases h3 : (u.scheme == bFile && u.host == some .empty) = true
          · simp [h1, h2, h3]
          · simp [h1, h2, h3] at hok'
  · have hpt' : (getSchemeType n != 1) = false := by simpa using hpt
    simp only [hpt', Bool.false_eq_true, ↓reduceIte, isSpecial_eq]
    generalize n.map toLowerByte = buf
    have hb := type_facts buf
    have hsch : (if (getSchemeType buf != 1) = true then (listGet Gen.isSpecialList (getSchemeType buf)).map UInt8.ofNat else buf) = buf := by
      by_cases hx : (getSchemeType buf != 1) = true
      · simp only [hx, ↓reduceIte]
        exact (hb.2.2.2 (by simpa using hx)).1
      · simp [hx]
    rw [hsch, hb.1]
    by_cases hok : coreOk u buf = true
    · have hok' := hok
      unfold coreOk at hok'
      simp only [Bool.not_eq_true', Bool.or_eq_false_iff] at hok'
      obtain ⟨⟨h1, h2⟩, h3⟩ := hok'
      simp only [h1, h2, h3, Bool.false_eq_true, ↓reduceIte, hok]
      simpa [hpo] using congrArg (fun r => (r, true)) (hfin buf hok)
    · have hok' : coreOk u buf = false := by simpa using hok
      simp only [hok', Bool.false_eq_true, ↓reduceIte]
      unfold coreOk at hok'
      by_cases h1 : (isSpecialScheme u.scheme != isSpecialScheme buf) = true
      · simp [h1]
      · by_cases h2 : ((u.includesCredentials || u.port.isSome) && buf == bFile) = true
        · simp [h1, h2]
        · by_cases h3 : (u.scheme == bFile && u.host == some .empty) = true
          · simp [h1, h2, h3]
          · simp [h1, h2, h3] at hok'

open AdaVerif.Model.UrlRec AdaVerif.Lemmas.UR AdaVerif.Lemmas.AggL in
/-- **`url::set_protocol`, end to end** -/
theorem setProtocolR_eq (L ty : Nat) (u : Url) (v : Bytes) (ok : CredOk u) (hty : (ty == 6) = (u.scheme == bFile)) :
    setProtocolR L ty (recOf u) v = match scanProtocol v with
      | .empty => (recOf u, true)
      | .reject => (recOf u, false)
      | .name n =>
        if coreOk u (n.map toLowerByte) then
          (if getHrefSize (recOf (setProtocol u v)) ≤ L then (recOf (setProtocol u v), true) else (recOf u, false))
        else (recOf u, false) := by
  unfold setProtocolR
  rw [scan_spec u v]
  cases hs : scanProtocol v with
  | empty => rfl
  | reject => rfl
  | name n =>
    simp only
    rw [parseSchemeR_eq ty u n ok hty]
    by_cases hok : coreOk u (n.map toLowerByte) = true
    · simp only [hok, ↓reduceIte, Bool.true_and, decide_eq_true_eq]
      exact UR.ite_gt _ _ _ _
    · simp [hok]

/-! ### the single buffer -/
open AdaVerif.Model.Agg AdaVerif.Lemmas.AggL in
theorem fileEmptyHost_eq (u : Url) (ok : CredOk u) (hfile : u.scheme = bFile → u.host.isSome = true) :
    ((u.scheme == bFile) && ((layout (ofUrl u)).hs == (layout (ofUrl u)).he)) = (u.scheme == bFile && u.host == some .empty) := by
  by_cases hf : (u.scheme == bFile) = true
  · simp only [hf, Bool.true_and]
    have hsome := hfile (by simpa using hf)
    cases hh : u.host with
    | none => simp [hh] at hsome
    | some h =>
      by_cases he : h = .empty
      · subst he
        obtain ⟨hu, hp⟩ := ok.emptyHost hh
        simp [layout, ofUrl, hh, hu, hp, atS, passS, Host.serialize]
      · have hne := ok.nonEmpty h hh he
        have hl : 0 < h.serialize.length := List.length_pos_iff.mpr hne
        have h2' : (some h == some Host.empty) = false := by simpa using he
        have hx : ((layout (ofUrl u)).hs == (layout (ofUrl u)).he) = false := by
          simp [layout, ofUrl, hh]; omega
        rw [hx, h2']
  · simp [hf]

open AdaVerif.Model.Agg AdaVerif.Lemmas.AggL in
/-- what both paths of `parse_scheme_with_colon<true>` do once the refusals are passed -/
theorem scheme_replaced (u : Url) (buf : Bytes) (ok : CredOk u) (hsch : u.scheme ≠ []) (hok : coreOk u buf = true) :
    (if (specialPortOf (getSchemeType buf) != 0 &&
          (layout (ofUrl { u with scheme := buf })).port == some (specialPortOf (getSchemeType buf))) = true
      then clearPort (layout (ofUrl { u with scheme := buf })) else layout (ofUrl { u with scheme := buf })) =
      layout (ofUrl (protocolCore u buf)) := by
  unfold coreOk at hok
  simp only [Bool.not_eq_true', Bool.or_eq_false_iff] at hok
  obtain ⟨⟨h1, h2⟩, h3⟩ := hok
  have hport2 : (layout (ofUrl { u with scheme := buf })).port = u.port := by cases hp : u.port <;> simp [layout, ofUrl, hp]
  rw [hport2, port_step]
  unfold protocolCore
  simp only [h1, h2, h3, Bool.false_eq_true, ↓reduceIte]
  by_cases h4 : (u.port.isSome && u.port == defaultPort buf) = true
  · simp only [h4, ↓reduceIte]
    have hdd : (ofUrl { u with scheme := buf }).dashdot = false := by
      have hps : u.port.isSome = true := by
        simp only [Bool.and_eq_true] at h4; exact h4.1
      cases hh : u.host with
      | none => obtain ⟨_, _, hpn⟩ := ok.hostless hh; simp [hpn] at hps
      | some h => simp [ofUrl, hh]
    rw [clearPort_layout _ hdd]
    simp [ofUrl, Url.pathSerialized]
  · simp only [h4, Bool.false_eq_true, ↓reduceIte]

open AdaVerif.Model.Agg AdaVerif.Lemmas.AggL in
/-- **`url_aggregator::parse_scheme_with_colon<true>`** (fast and slow path) is the scheme state with a state override -/
theorem parseSchemeWithColonM_eq (u : Url) (n : Bytes) (ok : CredOk u) (hsch : u.scheme ≠ [])
    (hfile : u.scheme = bFile → u.host.isSome = true) :
    parseSchemeWithColonM u.isSpecial (u.scheme == bFile) (layout (ofUrl u)) (n ++ [0x3A]) =
      if coreOk u (n.map toLowerByte) then (layout (ofUrl (protocolCore u (n.map toLowerByte))), true)
      else (layout (ofUrl u), false) := by
  have hport : (layout (ofUrl u)).port = u.port := by cases hp : u.port <;> simp [layout, ofUrl, hp]
  have hsetW : ∀ b : Bytes, setSchemeWithColon (layout (ofUrl u)) (b ++ [0x3A]) = layout (ofUrl { u with scheme := b }) := by
    intro b
    rw [setSchemeWithColon_layout (ofUrl u) _ (by simp [ofUrl])]
    simp [ofUrl, Url.pathSerialized]
  have hset : ∀ b : Bytes, setScheme (layout (ofUrl u)) b = layout (ofUrl { u with scheme := b }) := by
    intro b
    rw [setScheme_layout (ofUrl u) b (by simp [ofUrl])]
    simp [ofUrl, Url.pathSerialized]
  unfold parseSchemeWithColonM
  simp only [List.dropLast_concat, hasCredentials_layout u ok, hport, fileEmptyHost_eq u ok hfile, Url.isSpecial]
  have hf := type_facts n
  have refuse : ∀ buf : Bytes, coreOk u buf = false →
      (if (isSpecialScheme u.scheme != isSpecialScheme buf) = true then (layout (ofUrl u), false)
       else if ((u.includesCredentials || u.port.isSome) && buf == bFile) = true then (layout (ofUrl u), false)
       else if (u.scheme == bFile && u.host == some .empty) = true then (layout (ofUrl u), false)
       else ((if (specialPortOf (getSchemeType buf) != 0 &&
          (layout (ofUrl { u with scheme := buf })).port == some (specialPortOf (getSchemeType buf))) = true
          then clearPort (layout (ofUrl { u with scheme := buf })) else layout (ofUrl { u with scheme := buf })), true)) =
        (layout (ofUrl u), false) := by
    intro buf hok'
    unfold coreOk at hok'
    by_cases h1 : (isSpecialScheme u.scheme != isSpecialScheme buf) = true
    · simp [h1]
    · by_cases h2 : ((u.includesCredentials || u.port.isSome) && buf == bFile) = true
      · simp [h1, h2]
      · by_cases h3 : (u.scheme == bFile && u.host == some .empty) = true
        · simp [h1, h2, h3]
        · simp [h1, h2, h3] at hok'
  have accept : ∀ buf : Bytes, coreOk u buf = true →
      (if (isSpecialScheme u.scheme != isSpecialScheme buf) = true then (layout (ofUrl u), false)
       else if ((u.includesCredentials || u.port.isSome) && buf == bFile) = true then (layout (ofUrl u), false)
       else if (u.scheme == bFile && u.host == some .empty) = true then (layout (ofUrl u), false)
       else ((if (specialPortOf (getSchemeType buf) != 0 &&
          (layout (ofUrl { u with scheme := buf })).port == some (specialPortOf (getSchemeType buf))) = true
          then clearPort (layout (ofUrl { u with scheme := buf })) else layout (ofUrl { u with scheme := buf })), true)) =
        (layout (ofUrl (protocolCore u buf)), true) := by
    intro buf hok
    have hok' := hok
    unfold coreOk at hok'
    simp only [Bool.not_eq_true', Bool.or_eq_false_iff] at hok'
    obtain ⟨⟨h1, h2⟩, h3⟩ := hok'
    simp only [h1, h2, h3, Bool.false_eq_true, ↓reduceIte]
    rw [scheme_replaced u buf ok hsch hok]
  by_cases hpt : (getSchemeType n != 1) = true
  · have hne : getSchemeType n ≠ 1 := by simpa using hpt
    obtain ⟨hname, hlow⟩ := hf.2.2.2 hne
    have hspn : isSpecialScheme n = true := by rw [← hf.1]; exact hpt
    simp only [hpt, ↓reduceIte, hlow, hf.2.1, hsetW]
    have e1 : (isSpecialScheme u.scheme != true) = (isSpecialScheme u.scheme != isSpecialScheme n) := by rw [hspn]
    rw [e1]
    by_cases hok : coreOk u n = true
    · rw [accept n hok]; simp [hok]
    · have hok' : coreOk u n = false := by simpa using hok
      rw [refuse n hok']; simp [hok']
  · have hpt' : (getSchemeType n != 1) = false := by simpa using hpt
    simp only [hpt', Bool.false_eq_true, ↓reduceIte, isSpecial_eq, hset]
    by_cases hok : coreOk u (n.map toLowerByte) = true
    · rw [accept _ hok]; simp [hok]
    · have hok' : coreOk u (n.map toLowerByte) = false := by simpa using hok
      rw [refuse _ hok']; simp [hok']

open AdaVerif.Model.Agg AdaVerif.Lemmas.AggL in
/-- **`url_aggregator::set_protocol`, end to end** -/
theorem setProtocolM_eq (L : Nat) (u : Url) (v : Bytes) (ok : CredOk u) (hsch : u.scheme ≠ [])
    (hfile : u.scheme = bFile → u.host.isSome = true) :
    setProtocolM L u.isSpecial (u.scheme == bFile) (layout (ofUrl u)) v = match scanProtocol v with
      | .empty => (layout (ofUrl u), true)
      | .reject => (layout (ofUrl u), false)
      | .name n =>
        if coreOk u (n.map toLowerByte) then
          (if (layout (ofUrl (setProtocol u v))).buf.length ≤ L then (layout (ofUrl (setProtocol u v)), true)
           else (layout (ofUrl u), false))
        else (layout (ofUrl u), false) := by
  unfold setProtocolM
  rw [scan_spec u v]
  cases hs : scanProtocol v with
  | empty => rfl
  | reject => rfl
  | name n =>
    simp only
    rw [parseSchemeWithColonM_eq u n ok hsch hfile]
    by_cases hok : coreOk u (n.map toLowerByte) = true
    · simp only [hok, ↓reduceIte, Bool.true_and, decide_eq_true_eq]
      exact UR.ite_gt _ _ _ _
    · simp [hok]

end AdaVerif.Lemmas.Proto

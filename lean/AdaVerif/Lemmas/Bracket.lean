import AdaVerif.Lemmas.HostSetter
/-
Where `get_host_delimiter_location` and the Standard's host state part ways (a '/', '?' or '\\' between a '[' and the next
']'), both parsers reject the host - for a scheme that is not special, and for a host text that starts with '['.
-/
namespace AdaVerif.Lemmas.BR
open AdaVerif AdaVerif.Spec AdaVerif.Lemmas AdaVerif.Model.UrlRec

/-! ### the IPv6 parser accepts hex digits, ':' and '.' only -/
def V6Byte (b : UInt8) : Prop := isAsciiHexDigit b = true ∨ b = 0x3A ∨ b = 0x2E

theorem readHex_split : ∀ (m : Nat) (s : Bytes) (v len : Nat), ∃ pre, s = pre ++ (readHex m s v len).2.2 ∧ ∀ b ∈ pre, isAsciiHexDigit b = true := by
  intro m
  induction m with
  | zero => intro s v len; exact ⟨[], by simp [readHex], by intro b hb; cases hb⟩
  | succ m ih =>
    intro s v len
    cases s with
    | nil => exact ⟨[], by simp [readHex], by intro b hb; cases hb⟩
    | cons c rest =>
      by_cases hc : isAsciiHexDigit c = true
      · obtain ⟨pre, h1, h2⟩ := ih rest (v * 16 + hexVal c) (len + 1)
        refine ⟨c :: pre, ?_, ?_⟩
        · simp only [readHex, hc, ↓reduceIte, List.cons_append]; rw [← h1]
        · intro b hb
          simp only [List.mem_cons] at hb
          rcases hb with rfl | hb
          · exact hc
          · exact h2 b hb
      · exact ⟨[], by simp [readHex, hc], by intro b hb; cases hb⟩

theorem digit_hex : ∀ b : UInt8, isAsciiDigit b = true → isAsciiHexDigit b = true := by
  apply forall_uint8_of_fin; decide +kernel

theorem piece_go_split : ∀ (fuel v : Nat) (t : Bytes) (r : Nat × Bytes), readIpv4Piece.go fuel v t = some r →
    ∃ pre, t = pre ++ r.2 ∧ ∀ b ∈ pre, isAsciiDigit b = true := by
  intro fuel
  induction fuel with
  | zero => intro v t r h; simp only [readIpv4Piece.go] at h; injection h with h; subst h; exact ⟨[], rfl, by intro b hb; cases hb⟩
  | succ f ih =>
    intro v t r h
    cases t with
    | nil => simp only [readIpv4Piece.go] at h; injection h with h; subst h; exact ⟨[], rfl, by intro b hb; cases hb⟩
    | cons c t' =>
      simp only [readIpv4Piece.go] at h
      split at h
      · rename_i hc
        split at h
        · cases h
        · split at h
          · cases h
          · obtain ⟨pre, h1, h2⟩ := ih _ _ _ h
            refine ⟨c :: pre, by rw [h1]; rfl, ?_⟩
            intro b hb
            simp only [List.mem_cons] at hb
            rcases hb with rfl | hb
            · exact hc
            · exact h2 b hb
      · injection h with h; subst h; exact ⟨[], rfl, by intro b hb; cases hb⟩

theorem piece_split (s : Bytes) (r : Nat × Bytes) (h : readIpv4Piece s = some r) :
    ∃ pre, s = pre ++ r.2 ∧ ∀ b ∈ pre, isAsciiDigit b = true := by
  unfold readIpv4Piece at h
  cases s with
  | nil => cases h
  | cons b rest =>
    simp only at h
    split at h
    · cases h
    · rename_i hb
      obtain ⟨pre, h1, h2⟩ := piece_go_split _ _ _ _ h
      refine ⟨b :: pre, by rw [h1]; rfl, ?_⟩
      intro x hx
      simp only [List.mem_cons] at hx
      rcases hx with rfl | hx
      · simpa using hb
      · exact h2 x hx

theorem embedded_bytes (s : Bytes) (r : Nat × Nat) (h : readEmbeddedIpv4 s = some r) : ∀ b ∈ s, V6Byte b := by
  unfold readEmbeddedIpv4 at h
  have dd : ∀ pre : Bytes, (∀ b ∈ pre, isAsciiDigit b = true) → ∀ b ∈ pre, V6Byte b :=
    fun pre hp b hb => Or.inl (digit_hex b (hp b hb))
  split at h
  · cases h
  · rename_i a s1 h1
    obtain ⟨p1, e1, d1⟩ := piece_split s (a, s1) h1
    split at h
    · rename_i s1'
      split at h
      · cases h
      · rename_i b2 s2 h2
        obtain ⟨p2, e2, d2⟩ := piece_split s1' (b2, s2) h2
        split at h
        · rename_i s2'
          split at h
          · cases h
          · rename_i c3 s3 h3
            obtain ⟨p3, e3, d3⟩ := piece_split s2' (c3, s3) h3
            split at h
            · rename_i s3'
              split at h
              · cases h
              · rename_i d4 s4 h4
                obtain ⟨p4, e4, d4'⟩ := piece_split s3' (d4, s4) h4
                split at h
                · rename_i hs4
                  have hs4' : s4 = [] := by simpa using hs4
                  simp only at e1 e2 e3 e4
                  intro b hb
                  rw [e1, e2, e3, e4, hs4'] at hb
                  simp only [List.mem_append, List.mem_cons, List.not_mem_nil, or_false] at hb
                  rcases hb with hb | rfl | hb | rfl | hb | rfl | hb
                  · exact dd p1 d1 b hb
                  · exact Or.inr (Or.inr rfl)
                  · exact dd p2 d2 b hb
                  · exact Or.inr (Or.inr rfl)
                  · exact dd p3 d3 b hb
                  · exact Or.inr (Or.inr rfl)
                  · exact dd p4 d4' b hb
                · cases h
            · cases h
        · cases h
    · cases h

theorem ipv6Loop_bytes : ∀ (fuel : Nat) (s : Bytes) (pieces : List Nat) (comp : Option Nat) (r : List Nat × Option Nat),
    ipv6Loop fuel s pieces comp = some r → ∀ b ∈ s, V6Byte b := by
  intro fuel
  induction fuel with
  | zero => intro s pieces comp r h; simp [ipv6Loop] at h
  | succ f ih =>
    intro s pieces comp r h
    unfold ipv6Loop at h
    cases s with
    | nil => intro b hb; cases hb
    | cons c rest =>
      simp only at h
      split at h
      · cases h
      · split at h
        · rename_i hc
          have hc' : c = 0x3A := by simpa using hc
          split at h
          · cases h
          · intro b hb
            simp only [List.mem_cons] at hb
            rcases hb with rfl | hb
            · exact Or.inr (Or.inl hc')
            · exact ih _ _ _ _ h b hb
        · -- a hex piece
          obtain ⟨pre, hpre, hhex⟩ := readHex_split 4 (c :: rest) 0 0
          generalize hrh : readHex 4 (c :: rest) = rh at h hpre
          obtain ⟨value, len, after⟩ := rh
          simp only at h hpre
          have hpreb : ∀ b ∈ pre, V6Byte b := fun b hb => Or.inl (hhex b hb)
          split at h
          · -- '.' behind the digits: the embedded IPv4 tail reads the whole rest
            split at h
            · cases h
            · split at h
              · cases h
              · split at h
                · cases h
                · rename_i p1 p2 hemb
                  exact embedded_bytes (c :: rest) (p1, p2) hemb
          · rename_i after'
            split at h
            · cases h
            · split at h
              · cases h
              · intro b hb
                rw [hpre] at hb
                simp only [List.mem_append, List.mem_cons] at hb
                rcases hb with hb | rfl | hb
                · exact hpreb b hb
                · exact Or.inr (Or.inl rfl)
                · exact ih _ _ _ _ h b hb
          · split at h
            · cases h
            · intro b hb
              rw [hpre, List.append_nil] at hb
              exact hpreb b hb
          · cases h

theorem ipv6Parse_bytes (s : Bytes) (p : List Nat) (h : ipv6Parse s = some p) : ∀ b ∈ s, V6Byte b := by
  unfold ipv6Parse at h
  simp only at h
  split at h
  · cases h
  · rename_i t ps comp hstart
    split at h
    · cases h
    · rename_i pieces compress hloop
      have hb := ipv6Loop_bytes _ _ _ _ _ hloop
      split at hstart
      · rename_i rest
        injection hstart with hstart
        injection hstart with e1 _
        subst e1
        intro b hbm
        simp only [List.mem_cons] at hbm
        rcases hbm with rfl | rfl | hbm
        · exact Or.inr (Or.inl rfl)
        · exact Or.inr (Or.inl rfl)
        · exact hb b hbm
      · cases hstart
      · injection hstart with hstart
        injection hstart with e1 _
        subst e1
        exact hb

/-! ### what the two scans do when the bracket condition fails -/
theorem gScan_ge (sp : Bool) : ∀ (N : Bytes) (inside : Bool) (i : Nat), i ≤ (gScan sp inside N i).1 := by
  intro N
  induction N with
  | nil => intro inside i; cases inside <;> simp [gScan]
  | cons c r ih =>
    intro inside i
    cases inside with
    | false =>
      simp only [gScan]
      split
      · exact Nat.le_refl _
      · split
        · exact Nat.le_refl _
        · split
          · exact Nat.le_trans (Nat.le_succ i) (ih true (i + 1))
          · exact Nat.le_trans (Nat.le_succ i) (ih false (i + 1))
    | true =>
      simp only [gScan]
      split
      · exact Nat.le_trans (Nat.le_succ i) (ih false (i + 1))
      · exact Nat.le_trans (Nat.le_succ i) (ih true (i + 1))

theorem take_step (c : UInt8) (r : Bytes) (g i : Nat) (h : i + 1 ≤ g) : (c :: r).take (g - i) = c :: r.take (g - (i + 1)) := by
  have : g - i = (g - (i + 1)) + 1 := by omega
  rw [this]; rfl

/-- the host text `get_host_delimiter_location` cuts out runs over a delimiter (and, started outside, over the '[' in front) -/
theorem gScan_dirty (sp : Bool) : ∀ (N : Bytes) (inside : Bool) (i : Nat), HS.bracketClean sp inside N = false →
    ∃ pre c post, N.take ((gScan sp inside N i).1 - i) = pre ++ c :: post ∧ isHardDelim sp c = true ∧
      (inside = false → (0x5B : UInt8) ∈ pre) := by
  intro N
  induction N with
  | nil => intro inside i h; cases inside <;> simp [HS.bracketClean] at h
  | cons c r ih =>
    intro inside i h
    cases inside with
    | false =>
      simp only [HS.bracketClean] at h
      split at h
      · cases h
      · rename_i hnd
        have hnd' : isHardDelim sp c = false ∧ (c == 0x3A) = false := by
          simpa using hnd
        by_cases hb : (c == 0x5B) = true
        · simp only [hb, ↓reduceIte] at h
          obtain ⟨pre, d, post, e1, e2, _⟩ := ih true (i + 1) h
          have hg : gScan sp false (c :: r) i = gScan sp true r (i + 1) := by
            simp [gScan, hnd'.1, hnd'.2, hb]
          rw [hg, take_step c r _ i (gScan_ge sp r true (i + 1)), e1]
          have hc : c = 0x5B := by simpa using hb
          exact ⟨c :: pre, d, post, rfl, e2, fun _ => by simp [hc]⟩
        · simp only [hb, Bool.false_eq_true, ↓reduceIte] at h
          obtain ⟨pre, d, post, e1, e2, e3⟩ := ih false (i + 1) h
          have hg : gScan sp false (c :: r) i = gScan sp false r (i + 1) := by
            simp [gScan, hnd'.1, hnd'.2, hb]
          rw [hg, take_step c r _ i (gScan_ge sp r false (i + 1)), e1]
          exact ⟨c :: pre, d, post, rfl, e2, fun _ => List.mem_cons_of_mem _ (e3 rfl)⟩
    | true =>
      simp only [HS.bracketClean] at h
      by_cases hb : (c == 0x5D) = true
      · simp only [hb, ↓reduceIte] at h
        obtain ⟨pre, d, post, e1, e2, _⟩ := ih false (i + 1) h
        have hg : gScan sp true (c :: r) i = gScan sp false r (i + 1) := by simp [gScan, hb]
        rw [hg, take_step c r _ i (gScan_ge sp r false (i + 1)), e1]
        exact ⟨c :: pre, d, post, rfl, e2, fun h => by cases h⟩
      · simp only [hb, Bool.false_eq_true, ↓reduceIte] at h
        have hg : gScan sp true (c :: r) i = gScan sp true r (i + 1) := by simp [gScan, hb]
        rw [hg, take_step c r _ i (gScan_ge sp r true (i + 1))]
        by_cases hd : isHardDelim sp c = true
        · exact ⟨[], c, r.take ((gScan sp true r (i + 1)).1 - (i + 1)), rfl, hd, fun h => by cases h⟩
        · simp only [hd, Bool.false_eq_true, ↓reduceIte] at h
          obtain ⟨pre, d, post, e1, e2, _⟩ := ih true (i + 1) h
          rw [e1]
          exact ⟨c :: pre, d, post, rfl, e2, fun h => by cases h⟩

theorem getLast_cons_ne (c : UInt8) (r : Bytes) (x : UInt8) (hc : c ≠ x) (hr : r.getLast? ≠ some x) : (c :: r).getLast? ≠ some x := by
  cases r with
  | nil => simpa using hc
  | cons d t => rw [List.getLast?_cons_cons]; exact hr

/-- the Standard's host state on the same text: the buffer runs to the authority's end, holds a '[' and does not end in ']' -/
theorem hostEnd_dirty (sp : Bool) : ∀ (hp T : Bytes) (inside : Bool) (i : Nat), (∀ b ∈ hp, isHardDelim sp b = false) →
    (T = [] ∨ ∃ c t, T = c :: t ∧ isHardDelim sp c = true) →
    HS.bracketClean sp inside (hp ++ T) = false →
    hostEnd.go hp i inside = i + hp.length ∧ (inside = false → (0x5B : UInt8) ∈ hp) ∧
      ((inside = true ∨ hp ≠ []) → hp.getLast? ≠ some 0x5D) := by
  intro hp
  induction hp with
  | nil =>
    intro T inside i _ hT h
    cases inside with
    | false =>
      exfalso
      rcases hT with e | ⟨c, t, e, hc⟩
      · subst e; simp [HS.bracketClean] at h
      · subst e; simp [HS.bracketClean, hc] at h
    | true =>
      exact ⟨by simp [hostEnd.go], fun h => (by cases h), fun _ => by simp⟩
  | cons c r ih =>
    intro T inside i hA hT h
    have hc : isHardDelim sp c = false := hA c (by simp)
    have hA' : ∀ b ∈ r, isHardDelim sp b = false := fun b hb => hA b (by simp [hb])
    rw [List.cons_append] at h
    cases inside with
    | false =>
      simp only [HS.bracketClean, hc, Bool.false_or] at h
      by_cases h3 : (c == 0x3A) = true
      · simp [h3] at h
      simp only [h3, Bool.false_eq_true, ↓reduceIte] at h
      by_cases hb : (c == 0x5B) = true
      · simp only [hb, ↓reduceIte] at h
        obtain ⟨e1, _, e3⟩ := ih T true (i + 1) hA' hT h
        have hcb : c = 0x5B := by simpa using hb
        refine ⟨?_, fun _ => by simp [hcb], fun _ => ?_⟩
        · simp only [hostEnd.go, h3, Bool.false_and, Bool.false_eq_true, ↓reduceIte, hb]
          rw [e1]; simp only [List.length_cons]; omega
        · exact getLast_cons_ne c r _ (by rw [hcb]; decide) (e3 (Or.inl rfl))
      · simp only [hb, Bool.false_eq_true, ↓reduceIte] at h
        obtain ⟨e1, e2, e3⟩ := ih T false (i + 1) hA' hT h
        have hr : r ≠ [] := by intro e; have := e2 rfl; rw [e] at this; cases this
        refine ⟨?_, fun _ => List.mem_cons_of_mem _ (e2 rfl), fun _ => ?_⟩
        · simp only [hostEnd.go, h3, Bool.false_and, Bool.false_eq_true, ↓reduceIte, hb]
          have : (if (c == 0x5D) = true then false else false) = false := by split <;> rfl
          rw [this, e1]; simp only [List.length_cons]; omega
        · cases r with
          | nil => exact absurd rfl hr
          | cons d t => rw [List.getLast?_cons_cons]; exact e3 (Or.inr (by simp))
    | true =>
      simp only [HS.bracketClean] at h
      by_cases hb : (c == 0x5D) = true
      · simp only [hb, ↓reduceIte] at h
        obtain ⟨e1, e2, e3⟩ := ih T false (i + 1) hA' hT h
        have hr : r ≠ [] := by intro e; have := e2 rfl; rw [e] at this; cases this
        have hcb : c = 0x5D := by simpa using hb
        refine ⟨?_, fun h => (by cases h), fun _ => ?_⟩
        · simp only [hostEnd.go, Bool.not_true, Bool.and_false, Bool.false_eq_true, ↓reduceIte, hb]
          have : (c == 0x5B) = false := by rw [hcb]; decide
          simp only [this, Bool.false_eq_true, ↓reduceIte]
          rw [e1]; simp only [List.length_cons]; omega
        · cases r with
          | nil => exact absurd rfl hr
          | cons d t => rw [List.getLast?_cons_cons]; exact e3 (Or.inr (by simp))
      · simp only [hb, Bool.false_eq_true, ↓reduceIte, hc] at h
        obtain ⟨e1, _, e3⟩ := ih T true (i + 1) hA' hT h
        refine ⟨?_, fun h => (by cases h), fun _ => ?_⟩
        · simp only [hostEnd.go, Bool.not_true, Bool.and_false, Bool.false_eq_true, ↓reduceIte, hb]
          have : (if (c == 0x5B) = true then true else true) = true := by split <;> rfl
          rw [this, e1]; simp only [List.length_cons]; omega
        · exact getLast_cons_ne c r _ (by intro e; rw [e] at hb; exact hb (by decide)) (e3 (Or.inl rfl))

theorem forbidden_bracket : isForbiddenHost 0x5B = true := by decide

theorem hard_not_v6 (sp : Bool) : ∀ d : UInt8, isHardDelim sp d = true → ¬ V6Byte d ∧ d ≠ 0x5D := by
  cases sp <;> (unfold V6Byte isHardDelim isAsciiHexDigit; apply forall_uint8_of_fin; decide +kernel)

/-- the Standard's host parser fails on a host that holds a '[' and does not end in ']' (opaque host, or '[' in front) -/
theorem hostParse_unclosed (idna : Idna) (hp : Bytes) (op : Bool) (hm : (0x5B : UInt8) ∈ hp) (hl : hp.getLast? ≠ some 0x5D)
    (hc : op = true ∨ hp.head? = some 0x5B) : hostParse idna hp op = none := by
  unfold hostParse
  split
  · rename_i rest
    have : rest.getLast? ≠ some 0x5D := by
      cases rest with
      | nil => simp
      | cons d t => rw [List.getLast?_cons_cons] at hl; exact hl
    simp [this]
  · rename_i hne
    rcases hc with e | e
    · subst e
      simp only [↓reduceIte, opaqueHostParse]
      have : hp.any isForbiddenHost = true := List.any_eq_true.mpr ⟨0x5B, hm, forbidden_bracket⟩
      simp [this]
    · exfalso
      cases hp with
      | nil => cases e
      | cons c r =>
        have : c = 0x5B := by simpa using e
        subst this
        exact hne r rfl

/-- … and on a host that runs over a delimiter behind a '[' (what `get_host_delimiter_location` hands over then) -/
theorem hostParse_over (idna : Idna) (sp : Bool) (pre post : Bytes) (d : UInt8) (op : Bool) (hm : (0x5B : UInt8) ∈ pre)
    (hd : isHardDelim sp d = true) (hc : op = true ∨ pre.head? = some 0x5B) : hostParse idna (pre ++ d :: post) op = none := by
  unfold hostParse
  split
  · rename_i rest heq
    cases pre with
    | nil => cases hm
    | cons c pre' =>
      have e2 : rest = pre' ++ d :: post := by
        have := List.cons.inj heq
        exact this.2.symm
      by_cases hl : rest.getLast? = some 0x5D
      · simp only [hl, bne_self_eq_false, Bool.false_eq_true, ↓reduceIte, Option.map_eq_none_iff]
        cases hv : ipv6Parse rest.dropLast with
        | none => rfl
        | some p =>
          exfalso
          have hb := ipv6Parse_bytes _ _ hv
          have hne : post ≠ [] := by
            intro e
            rw [e2, e] at hl
            simp at hl
            exact (hard_not_v6 sp d hd).2 hl
          have : d ∈ rest.dropLast := by
            rw [e2]
            have : pre' ++ d :: post = (pre' ++ [d]) ++ post := by simp
            rw [this, List.dropLast_append_of_ne_nil hne]
            simp
          exact (hard_not_v6 sp d hd).1 (hb d this)
      · simp [hl]
  · rename_i hne
    rcases hc with e | e
    · subst e
      simp only [↓reduceIte, opaqueHostParse]
      have : (pre ++ d :: post).any isForbiddenHost = true :=
        List.any_eq_true.mpr ⟨0x5B, List.mem_append_left _ hm, forbidden_bracket⟩
      simp [this]
    · exfalso
      cases pre with
      | nil => cases e
      | cons c r =>
        have : c = 0x5B := by simpa using e
        subst this
        exact hne (r ++ d :: post) rfl

/-- **the side condition of the parser theorems**: no '/', '?' (special: '\\') between a '[' and the next ']' of the host
    text - or the scheme is not special - or the host text starts with '[' (in the last two cases both parsers are shown to
    fail when the first fails) -/
def bracketOk (sp : Bool) (v : Bytes) : Bool := HS.bracketClean sp false v || !sp || v.head? == some 0x5B

theorem bracketOk_of_clean (sp : Bool) (v : Bytes) (h : HS.bracketClean sp false v = true) : bracketOk sp v = true := by
  simp [bracketOk, h]

theorem bracketOk_false (v : Bytes) : bracketOk false v = true := by simp [bracketOk]

end AdaVerif.Lemmas.BR

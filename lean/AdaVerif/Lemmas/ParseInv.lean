import AdaVerif.Lemmas.RecInv
/-
`Spec.parse` establishes the record invariants (C19-T2): for every input and every base that
satisfies them, a successful parse satisfies them.
-/
namespace AdaVerif.Lemmas
open AdaVerif AdaVerif.Spec

theorem pathStartState_special_ne_nil (scheme : Bytes) (t : Bytes) (h : isSpecialScheme scheme = true) :
    pathStartState scheme t ≠ [] := by
  unfold pathStartState
  simp only [h, ↓reduceIte]
  split
  · split <;> exact pathState_ne_nil _ _ _
  · exact pathState_ne_nil _ _ _

def portOk (scheme : Bytes) : Option Nat → Prop
  | none => True
  | some q => q ≤ 65535 ∧ defaultPort scheme ≠ some q

theorem parsePort_ok (scheme s : Bytes) (p : Option Nat) (h : parsePort scheme s = some p) : portOk scheme p := by
  unfold parsePort at h
  split at h; · cases h
  split at h
  · injection h with h; subst h; trivial
  · simp only at h
    split at h; · cases h
    split at h
    · injection h with h; subst h; trivial
    · injection h with h; subst h
      rename_i h1 h2
      exact ⟨by omega, by simpa using h2⟩

/-- what the host/port states guarantee -/
theorem parseHostPort_ok (idna : Idna) (scheme hp : Bytes) (h : Host) (p : Option Nat)
    (hh : parseHostPort idna scheme hp = some (h, p)) :
    hostWf (some h) = true ∧
    (isSpecialScheme scheme = true → h ≠ .empty) ∧
    (h = .empty → hp = [] ∧ p = none) ∧
    portOk scheme p := by
  unfold parseHostPort at hh
  simp only at hh
  split at hh
  · split at hh; · cases hh
    rename_i hne
    split at hh; · cases hh
    rename_i h' hp'
    split at hh; · cases hh
    rename_i port hport
    injection hh with hh; injection hh with h1 h2; subst h1; subst h2
    have ⟨hwf, hnE⟩ := hostParse_wf idna _ _ h' (ne_nil_of_not_isEmpty hne) hp'
    exact ⟨hwf, fun _ => hnE, fun he => absurd he hnE, parsePort_ok _ _ _ hport⟩
  · split at hh
    · split at hh; · cases hh
      rename_i hemp hsp
      injection hh with hh; injection hh with h1 h2; subst h1; subst h2
      refine ⟨rfl, fun hs => absurd hs hsp, fun _ => ⟨by simpa using hemp, rfl⟩, trivial⟩
    · rename_i hne
      split at hh; · cases hh
      rename_i h' hp'
      injection hh with hh; injection hh with h1 h2; subst h1; subst h2
      have ⟨hwf, hnE⟩ := hostParse_wf idna _ _ h' (ne_nil_of_not_isEmpty hne) hp'
      exact ⟨hwf, fun _ => hnE, fun he => absurd he hnE, trivial⟩

/-- what a parsed authority guarantees -/
theorem parseAuthority_ok (idna : Idna) (scheme auth : Bytes) (a : Authority)
    (h : parseAuthority idna scheme auth = some a) :
    hostWf (some a.host) = true ∧
    (isSpecialScheme scheme = true → a.host ≠ .empty) ∧
    (a.host = .empty → a.username = [] ∧ a.password = [] ∧ a.port = none) ∧
    portOk scheme a.port := by
  unfold parseAuthority at h
  simp only at h
  split at h; · cases h
  rename_i hc
  split at h; · cases h
  rename_i hp hhp
  injection h with h; subst h
  obtain ⟨h1, h2, h3, h4⟩ := parseHostPort_ok idna scheme _ hp.1 hp.2 (by simpa using hhp)
  refine ⟨h1, h2, ?_, h4⟩
  intro he
  obtain ⟨he1, he2⟩ := h3 he
  simp only
  rw [he1] at hc
  cases hcr : (splitCredentials auth).1 with
  | none => simp [credUser, credPass, he2]
  | some c => simp [hcr] at hc


theorem portOk_bool (scheme : Bytes) (p : Option Nat) (h : portOk scheme p) : portOkB scheme p = true := by
  cases p with
  | none => rfl
  | some q => simp only [portOk] at h; simp [portOkB, h.1, h.2]

theorem portOk_of_recinv (u : Url) (h : RecInv u = true) : portOk u.scheme u.port := by
  obtain ⟨scheme, user, pass, host, port, iso, opath, path, q, f⟩ := u
  simp only [RecInv] at h
  cases port with
  | none => trivial
  | some q => simp only [portOk]; simp_all [portOkB]

/-- assembling a URL record with an authority -/
theorem recinv_mk_auth (scheme user pass : Bytes) (h : Host) (port : Option Nat) (path : List Bytes)
    (q f : Option Bytes)
    (hs : schemeOk scheme = true) (hwf : hostWf (some h) = true)
    (hsp : isSpecialScheme scheme = true → (scheme = bFile ∨ h ≠ .empty) ∧ path ≠ [])
    (hemp : (h = .empty ∨ scheme = bFile) → user = [] ∧ pass = [] ∧ port = none)
    (hport : portOk scheme port) :
    RecInv { scheme, username := user, password := pass, host := some h, port, path, query := q, fragment := f } = true := by
  have hp := portOk_bool scheme port hport
  simp only [RecInv, Url.isSpecial, Url.cannotHaveUsernamePasswordPort]
  by_cases hsc : isSpecialScheme scheme = true <;> by_cases hf : scheme = bFile <;>
    cases h <;> simp_all [hostNonEmpty, hostWf]

theorem fromAuthority_inv (idna : Idna) (scheme text : Bytes) (u : Url) (hs : schemeOk scheme = true)
    (hnf : scheme ≠ bFile) (h : fromAuthority idna scheme text = some u) : RecInv u = true := by
  unfold fromAuthority at h
  simp only at h
  split at h; · cases h
  rename_i a ha
  injection h with h; subst h
  obtain ⟨h1, h2, h3, h4⟩ := parseAuthority_ok idna scheme _ a ha
  apply recinv_mk_auth _ _ _ _ _ _ none none hs h1
  · intro hsp; exact ⟨Or.inr (h2 hsp), pathStartState_special_ne_nil _ _ hsp⟩
  · rintro (he | hf)
    · exact h3 he
    · exact absurd hf hnf
  · exact h4


theorem schemeOk_file : schemeOk bFile = true := by decide

/-- a record that takes scheme, credentials, host and port from a non-opaque base -/
theorem recinv_rebase (b : Url) (hb : RecInv b = true) (ho : b.isOpaque = false) (P : List Bytes)
    (hP : b.isSpecial = true → P ≠ []) (q f : Option Bytes) :
    RecInv { scheme := b.scheme, username := b.username, password := b.password, host := b.host, port := b.port,
             path := P, query := q, fragment := f } = true := by
  obtain ⟨scheme, user, pass, host, port, iso, opath, path, q', f'⟩ := b
  simp only [RecInv, portOkB, Url.isSpecial, Url.cannotHaveUsernamePasswordPort] at hb ho hP ⊢
  subst ho
  by_cases hs : isSpecialScheme scheme = true
  · have := hP hs
    cases host <;> simp_all
  · cases host <;> simp_all

/-- a file record that takes only the host from a file base -/
theorem recinv_file_from_base (b : Url) (hb : RecInv b = true) (hf : b.scheme = bFile) (P : List Bytes)
    (hP : P ≠ []) (q f : Option Bytes) :
    RecInv { scheme := bFile, host := b.host, path := P, query := q, fragment := f } = true := by
  obtain ⟨scheme, user, pass, host, port, iso, opath, path, q', f'⟩ := b
  simp only [RecInv, portOkB, Url.isSpecial, Url.cannotHaveUsernamePasswordPort] at hb hf ⊢
  subst hf
  cases host <;> simp_all [special_file, schemeOk_file]

theorem recinv_file_host (h : Host) (hwf : hostWf (some h) = true) (P : List Bytes) (hP : P ≠ []) :
    RecInv { scheme := bFile, host := some h, path := P } = true := by
  apply recinv_mk_auth bFile [] [] h none P none none schemeOk_file hwf
  · intro _; exact ⟨Or.inl rfl, hP⟩
  · intro _; exact ⟨rfl, rfl, rfl⟩
  · trivial

theorem path_ne_nil_of_recinv_special (b : Url) (hb : RecInv b = true) (hs : b.isSpecial = true) : b.path ≠ [] := by
  obtain ⟨scheme, user, pass, host, port, iso, opath, path, q', f'⟩ := b
  simp only [RecInv, Url.isSpecial] at hb hs ⊢
  cases host <;> simp_all

theorem fileHost_inv (idna : Idna) (text : Bytes) (u : Url) (h : fileHost idna text = some u) :
    RecInv u = true := by
  unfold fileHost at h
  simp only at h
  split at h
  · injection h with h; subst h
    exact recinv_file_host .empty rfl _ (pathState_ne_nil _ _ _)
  · split at h
    · injection h with h; subst h
      exact recinv_file_host .empty rfl _ (pathStartState_special_ne_nil _ _ special_file)
    · rename_i hne
      split at h; · cases h
      rename_i h' hp
      injection h with h; subst h
      have ⟨hwf, _⟩ := hostParse_wf idna _ _ h' (ne_nil_of_not_isEmpty hne) hp
      split
      · exact recinv_file_host .empty rfl _ (pathStartState_special_ne_nil _ _ special_file)
      · exact recinv_file_host h' hwf _ (pathStartState_special_ne_nil _ _ special_file)

theorem baseIsFile_spec (base : Option Url) (b : Url) (h : baseIsFile base = some b) :
    base = some b ∧ b.scheme = bFile := by
  unfold baseIsFile at h
  split at h
  · split at h
    · rename_i hb; injection h with h; subst h; exact ⟨rfl, by simpa using hb⟩
    · cases h
  · cases h

theorem fileSlashElse_inv (base : Option Url) (text : Bytes) (u : Url)
    (hb : ∀ b, base = some b → RecInv b = true)
    (h : fileSlash.fileSlashElse base text = some u) : RecInv u = true := by
  unfold fileSlash.fileSlashElse at h
  split at h
  · rename_i b hbf
    obtain ⟨h1, h2⟩ := baseIsFile_spec base b hbf
    injection h with h; subst h
    exact recinv_file_from_base b (hb b h1) h2 _ (pathState_ne_nil _ _ _) none none
  · injection h with h; subst h
    exact recinv_file_host .empty rfl _ (pathState_ne_nil _ _ _)

theorem fileSlash_inv (idna : Idna) (base : Option Url) (text : Bytes) (u : Url)
    (hb : ∀ b, base = some b → RecInv b = true)
    (h : fileSlash idna base text = some u) : RecInv u = true := by
  unfold fileSlash at h
  split at h
  · split at h
    · exact fileHost_inv idna _ u h
    · exact fileSlashElse_inv base _ u hb h
  · exact fileSlashElse_inv base _ u hb h

theorem fileElse_inv (base : Option Url) (pre tail : Bytes) (hasQ hasF : Bool) (u : Url)
    (hb : ∀ b, base = some b → RecInv b = true)
    (h : fileState.fileElse base pre tail hasQ hasF = some u) : RecInv u = true := by
  unfold fileState.fileElse at h
  split at h
  · rename_i b hbf
    obtain ⟨h1, h2⟩ := baseIsFile_spec base b hbf
    have hrb := hb b h1
    split at h
    · injection h with h; subst h
      have hsp : b.isSpecial = true := by simp [Url.isSpecial, h2, special_file]
      exact recinv_file_from_base b hrb h2 _ (path_ne_nil_of_recinv_special b hrb hsp) _ none
    · injection h with h; subst h
      exact recinv_file_from_base b hrb h2 _ (pathState_ne_nil _ _ _) none none
  · injection h with h; subst h
    exact recinv_file_host .empty rfl _ (pathState_ne_nil _ _ _)

theorem fileState_inv (idna : Idna) (base : Option Url) (pre tail : Bytes) (hasQ hasF : Bool) (u : Url)
    (hb : ∀ b, base = some b → RecInv b = true)
    (h : fileState idna base pre tail hasQ hasF = some u) : RecInv u = true := by
  unfold fileState at h
  split at h
  · split at h
    · exact fileSlash_inv idna base _ u hb h
    · exact fileElse_inv base _ _ _ _ u hb h
  · exact fileElse_inv base _ _ _ _ u hb h

theorem schemeOk_of_recinv (b : Url) (h : RecInv b = true) : schemeOk b.scheme = true := by
  simp only [RecInv, Bool.and_eq_true] at h
  exact h.1.1.1.1.1

theorem relativeState_inv (idna : Idna) (b : Url) (pre : Bytes) (u : Url) (hb : RecInv b = true)
    (ho : b.isOpaque = false) (hnf : b.scheme ≠ bFile) (h : relativeState idna b pre = some u) :
    RecInv u = true := by
  have hso := schemeOk_of_recinv b hb
  unfold relativeState at h
  simp only at h
  split at h
  · split at h
    · split at h
      · split at h
        · exact fromAuthority_inv idna _ _ u hso hnf h
        · split at h
          · exact fromAuthority_inv idna _ _ u hso hnf h
          · injection h with h; subst h
            exact recinv_rebase b hb ho _ (fun _ => pathState_ne_nil _ _ _) none none
      · injection h with h; subst h
        exact recinv_rebase b hb ho _ (fun _ => pathState_ne_nil _ _ _) none none
    · injection h with h; subst h
      exact recinv_rebase b hb ho _ (fun _ => pathState_ne_nil _ _ _) none none
  · injection h with h; subst h
    exact recinv_rebase b hb ho _ (fun hs => path_ne_nil_of_recinv_special b hb hs) _ none


theorem recinv_nohost (scheme : Bytes) (hs : schemeOk scheme = true) (hns : isSpecialScheme scheme = false)
    (iso : Bool) (op : Bytes) (P : List Bytes) (q f : Option Bytes) :
    RecInv { scheme, isOpaque := iso, opath := op, path := P, query := q, fragment := f } = true := by
  simp [RecInv, portOkB, Url.isSpecial, Url.cannotHaveUsernamePasswordPort, hs, hns, hostWf]

theorem not_special_of_opaque (b : Url) (hb : RecInv b = true) (ho : b.isOpaque = true) : b.isSpecial = false := by
  obtain ⟨scheme, user, pass, host, port, iso, opath, path, q', f'⟩ := b
  simp only [RecInv, Url.isSpecial] at hb ho ⊢
  subst ho
  cases hs : isSpecialScheme scheme <;> simp_all

theorem parseCore_inv (idna : Idna) (base : Option Url) (pre tail : Bytes) (hasQ hasF : Bool) (u : Url)
    (hb : ∀ b, base = some b → RecInv b = true)
    (h : parseCore idna base pre tail hasQ hasF = some u) : RecInv u = true := by
  unfold parseCore at h
  split at h
  · rename_i scheme rest hts
    have hso := takeScheme_ok _ _ _ hts
    simp only at h
    split at h
    · exact fileState_inv idna base _ _ _ _ u hb h
    · rename_i hnf
      have hnf' : scheme ≠ bFile := by simpa using hnf
      split at h
      · rename_i hsp
        split at h
        · rename_i b
          have hrb := hb b rfl
          split at h
          · rename_i hsame
            have hsame' : b.scheme = scheme := by simpa using hsame
            split at h
            · exact fromAuthority_inv idna _ _ u hso hnf' h
            · split at h
              · cases h
              · rename_i hno
                exact relativeState_inv idna b _ u hrb (by simpa using hno) (by rw [hsame']; exact hnf') h
          · exact fromAuthority_inv idna _ _ u hso hnf' h
        · exact fromAuthority_inv idna _ _ u hso hnf' h
      · rename_i hns
        have hns' : isSpecialScheme scheme = false := by simpa using hns
        split at h
        · exact fromAuthority_inv idna _ _ u hso hnf' h
        · injection h with h; subst h
          exact recinv_nohost scheme hso hns' false [] _ none none
        · injection h with h; subst h
          exact recinv_nohost scheme hso hns' true _ [] none none
  · split at h
    · cases h
    · rename_i b
      have hrb := hb b rfl
      split at h
      · rename_i hop
        split at h
        · injection h with h; subst h
          have := not_special_of_opaque b hrb hop
          exact recinv_nohost b.scheme (schemeOk_of_recinv b hrb) (by simpa [Url.isSpecial] using this) true _ [] _ none
        · cases h
      · rename_i hno
        split at h
        · rename_i hnf
          exact relativeState_inv idna b _ u hrb (by simpa using hno) (by simpa using hnf) h
        · exact fileState_inv idna (some b) _ _ _ _ u hb h

/-- RecInv does not look at query and fragment -/
theorem recinv_with_qf (u : Url) (q f : Option Bytes) (h : RecInv u = true) :
    RecInv { u with query := q, fragment := f } = true := by
  simpa [RecInv, portOkB, Url.isSpecial, Url.cannotHaveUsernamePasswordPort] using h

/-- **C19-T2**: every URL produced by the basic URL parser satisfies the record invariants,
    for every input and every base that satisfies them. -/
theorem parse_inv (idna : Idna) (input : Bytes) (base : Option Url) (u : Url)
    (hb : ∀ b, base = some b → RecInv b = true)
    (h : parse idna input base = some u) : RecInv u = true := by
  unfold parse at h
  simp only at h
  split at h; · cases h
  rename_i u0 hc
  have h0 := parseCore_inv idna base _ _ _ _ u0 hb hc
  injection h with h; subst h
  split <;> split <;> first
    | exact h0
    | (simpa [RecInv, portOkB, Url.isSpecial, Url.cannotHaveUsernamePasswordPort] using h0)

end AdaVerif.Lemmas

import AdaVerif.Model.ParseValid
import AdaVerif.Lemmas.ParseAgg
import AdaVerif.Lemmas.AggSetPathname
/-
The validation-only instantiation of the parser (Model/ParseValid.lean) gives the verdict of the storing instantiation
(Model/ParseSpecial.lean), without and with a base - and, for a later run, the `type` and `has_opaque_path` of its result.
-/
namespace AdaVerif.Lemmas.PV
open AdaVerif AdaVerif.Spec AdaVerif.Lemmas AdaVerif.Model AdaVerif.Model.ParseSpecial AdaVerif.Model.ParseValid AdaVerif.Model.UrlRec
  AdaVerif.Model.HostParse

def okOf : Out → Bool
  | .invalid => false
  | .ok _ => true

theorem authLoopV_eq (sp : Bool) : ∀ (f : Nat) (v : Bytes) (st : Cred),
    authLoopV sp f v st.atSeen = (authLoop sp f v st).map (·.1) := by
  intro f
  induction f with
  | zero => intro v st; rfl
  | succ f ih =>
    intro v st
    by_cases hat : ∃ rest, v.drop (authDelim sp v) = 0x40 :: rest
    · obtain ⟨rest, hdr⟩ := hat
      rw [PA.authLoop_at sp f v st rest hdr]
      have := ih rest (absorb st (v.take (authDelim sp v)))
      rw [PA.absorb_atSeen] at this
      rw [← this]
      conv => lhs; unfold authLoopV
      simp only [hdr]
    · have hno : ∀ rest, v.drop (authDelim sp v) ≠ 0x40 :: rest := fun rest h => hat ⟨rest, h⟩
      rw [PA.authLoop_other sp f v st hno]
      conv => lhs; unfold authLoopV
      by_cases hc : (st.atSeen && (v.take (authDelim sp v)).isEmpty) = true
      · simp only [hc, ↓reduceIte, Option.map_none]
        first
          | done
          | (split
             · rename_i rest heq; exact absurd heq (hno rest)
             · rfl)
      · simp only [hc, Bool.false_eq_true, ↓reduceIte, Option.map_some]
        first
          | done
          | (split
             · rename_i rest heq; exact absurd heq (hno rest)
             · rfl)

theorem authorityV_eq (sp : Bool) (v : Bytes) : authorityV sp v = (authority sp v).map (·.1) := by
  unfold authorityV authority
  split
  · rfl
  · exact authLoopV_eq sp (v.length + 1) v {}

theorem ok_finish (sp : Bool) (ty : Nat) (scheme : Bytes) (cred : Cred) (frag : Option Bytes) (h : Bytes) (port : Option Nat) (t : Bytes) :
    okOf (finish sp ty scheme cred frag h port t) = true := by
  unfold finish
  rfl

theorem afterAuthorityV_eq (idna : Idna) (sp : Bool) (ty : Nat) (scheme : Bytes) (frag : Option Bytes) (v : Bytes) (cred : Cred) :
    afterAuthorityV idna sp ty v = okOf (afterAuthority idna sp ty scheme frag v cred) := by
  unfold afterAuthorityV afterAuthority
  simp only [HP.parseHostA_eq]
  split
  · cases parseHost idna sp (v.take (getHostDelimiterLocation sp v).1) with
    | none => rfl
    | some r =>
      simp only
      cases parsePortTrailing sp (specialPortOf ty) (v.drop ((getHostDelimiterLocation sp v).1 + 1)) with
      | none => rfl
      | some pr => simp only [Option.isSome_some, ok_finish]
  · split
    · cases sp
      · simp only [Bool.not_false, Bool.false_eq_true, ↓reduceIte, ok_finish]
      · rfl
    · cases parseHost idna sp (v.take (getHostDelimiterLocation sp v).1) with
      | none => rfl
      | some r => simp only [Option.isSome_some, ok_finish]

theorem afterSlashesV_eq (idna : Idna) (sp : Bool) (ty : Nat) (scheme : Bytes) (frag : Option Bytes) (text : Bytes) :
    afterSlashesV idna sp ty text = okOf (afterSlashes idna sp ty scheme frag text) := by
  unfold afterSlashesV afterSlashes
  rw [authorityV_eq]
  cases authority sp text with
  | none => rfl
  | some r => exact afterAuthorityV_eq idna sp ty scheme frag r.1 r.2

theorem ok_filePath (frag : Option Bytes) (t : Bytes) : okOf (filePath frag t) = true := by
  unfold filePath; rfl

theorem fileHostV_eq (idna : Idna) (frag : Option Bytes) (t : Bytes) : fileHostV idna t = okOf (ParseSpecial.fileHost idna frag t) := by
  unfold fileHostV ParseSpecial.fileHost
  simp only [HP.parseHostA_eq]
  split
  · simp [ok_filePath]
  · split
    · simp [ok_finish]
    · cases parseHost idna true (t.takeWhile (fun c => !(c == 0x2F || c == 0x5C || c == 0x3F))) with
      | none => rfl
      | some r => simp only [Option.isSome_some, ok_finish]

theorem fileV_noBase (idna : Idna) (frag : Option Bytes) (t : Bytes) : fileV idna t = okOf (afterSchemeFile idna frag t) := by
  unfold fileV afterSchemeFile
  cases t with
  | nil => simp [ok_filePath]
  | cons c r1 =>
    simp only
    split
    · cases r1 with
      | nil => simp [ok_filePath]
      | cons c2 r2 =>
        simp only
        split
        · exact fileHostV_eq idna frag r2
        · simp [ok_filePath]
    · simp [ok_filePath]

theorem afterSchemeNSV_eq (idna : Idna) (scheme : Bytes) (frag : Option Bytes) (rest : Bytes) :
    (afterSchemeNSV idna rest).1 = okOf (afterSchemeNS idna scheme frag rest) := by
  cases rest with
  | nil => rw [PS.afterSchemeNS_opaque _ _ _ _ (by simp)]; rfl
  | cons c r1 =>
    by_cases hc : c = 0x2F
    · subst hc
      cases r1 with
      | nil => rw [PS.afterSchemeNS_path _ _ _ _ (by simp)]; rfl
      | cons c2 r2 =>
        by_cases hc2 : c2 = 0x2F
        · subst hc2
          rw [PS.afterSchemeNS_auth]
          exact afterSlashesV_eq idna false 1 scheme frag r2
        · rw [PS.afterSchemeNS_path _ _ _ _ (by simp; exact fun e => hc2 e)]
          unfold afterSchemeNSV
          split
          · rename_i heq; injection heq with _ heq; injection heq with e _; exact absurd e hc2
          · rfl
          · rfl
    · rw [PS.afterSchemeNS_opaque _ _ _ _ (by simp; exact fun e => hc e)]
      unfold afterSchemeNSV
      split
      · rename_i heq; injection heq with e _; exact absurd e hc
      · rename_i heq; injection heq with e _; exact absurd e hc
      · unfold opaquePath; rfl

/-- **without a base, the validation-only run gives the verdict of the storing run** -/
theorem machineV_valid (idna : Idna) (input : Bytes) : (machineV idna none input).valid = okOf (machine idna input) := by
  unfold machineV machine
  cases prep input with
  | mk d frag =>
    simp only
    cases schemeScan d with
    | none => rfl
    | some nr =>
      obtain ⟨name, rest⟩ := nr
      simp only
      rw [PS.parseSchemeNoOverride_spec]
      simp only [Option.map_none]
      by_cases h6 : (getSchemeType (name.map toLowerByte) == 6) = true
      · simp only [h6, ↓reduceIte]
        exact fileV_noBase idna frag rest
      · simp only [h6, Bool.false_eq_true, ↓reduceIte]
        have hnb : ((none : Option Nat) == some (getSchemeType (name.map toLowerByte))) = false := rfl
        simp only [hnb, Bool.and_false, Bool.false_eq_true, ↓reduceIte]
        by_cases h1 : (getSchemeType (name.map toLowerByte) == 1) = true
        · simp only [h1, ↓reduceIte]
          exact afterSchemeNSV_eq idna _ frag rest
        · simp only [h1, Bool.false_eq_true, ↓reduceIte]
          unfold afterScheme
          exact afterSlashesV_eq idna true _ _ frag _

/-! ### with a base -/
theorem ok_inherit (b : Rec) (frag : Option Bytes) (p : Bytes) (q : Option Bytes) : okOf (inherit b frag p q) = true := rfl
theorem ok_fileInherit (b : Rec) (frag : Option Bytes) (p : Bytes) (q : Option Bytes) (o : Bool) : okOf (fileInherit b frag p q o) = true := rfl

theorem relativeSlashV_eq (idna : Idna) (b : Rec) (frag : Option Bytes) (r : Bytes) :
    relativeSlashV idna b.special (getSchemeType b.scheme) r = okOf (relativeSlash idna b frag r) := by
  unfold relativeSlashV relativeSlash
  cases r with
  | nil => rfl
  | cons c r' =>
    simp only
    split
    · exact afterSlashesV_eq idna true _ b.scheme frag _
    · split
      · exact afterSlashesV_eq idna false _ b.scheme frag _
      · rfl

theorem relativeSchemeV_eq (idna : Idna) (b : Rec) (frag : Option Bytes) (t : Bytes) :
    relativeSchemeV idna b.special (getSchemeType b.scheme) t = okOf (relativeScheme idna b frag t) := by
  unfold relativeSchemeV relativeScheme
  cases t with
  | nil => rfl
  | cons c r =>
    simp only
    split
    · exact relativeSlashV_eq idna b frag r
    · split
      · rfl
      · rfl

theorem ok_fileSlashOther (fb : Option Rec) (frag : Option Bytes) (r : Bytes) : okOf (fileSlashOther fb frag r) = true := by
  unfold fileSlashOther
  cases fb with
  | none => exact ok_filePath frag r
  | some b => rfl

theorem ok_fileOther (fb : Option Rec) (frag : Option Bytes) (t : Bytes) : okOf (fileOther fb frag t) = true := by
  unfold fileOther
  cases fb with
  | none => exact ok_filePath frag t
  | some b =>
    cases t with
    | nil => rfl
    | cons c r =>
      simp only
      split <;> rfl

theorem fileV_base (idna : Idna) (fb : Option Rec) (frag : Option Bytes) (t : Bytes) : fileV idna t = okOf (fileB idna fb frag t) := by
  unfold fileV fileB
  cases t with
  | nil => simp [ok_fileOther]
  | cons c r1 =>
    simp only
    split
    · unfold fileSlashB
      cases r1 with
      | nil => simp [ok_fileSlashOther]
      | cons c2 r2 =>
        simp only
        split
        · exact fileHostV_eq idna frag r2
        · simp [ok_fileSlashOther]
    · simp [ok_fileOther]

/-- **with a base, too**: of the base only `type` and `has_opaque_path` matter for the verdict -/
theorem machineV_valid_base (idna : Idna) (b : Rec) (hsp : b.special = (getSchemeType b.scheme != 1)) (input : Bytes) :
    (machineV idna (some (getSchemeType b.scheme, b.opq)) input).valid = okOf (machineB idna b input) := by
  unfold machineV machineB
  cases prep input with
  | mk d frag =>
    simp only
    cases schemeScan d with
    | none =>
      simp only
      by_cases h1 : (b.opq && !(frag.isSome && d.isEmpty)) = true
      · simp only [h1, ↓reduceIte]; rfl
      · simp only [h1, Bool.false_eq_true, ↓reduceIte]
        by_cases h2 : b.opq = true
        · simp only [h2, ↓reduceIte]; rfl
        · simp only [h2, Bool.false_eq_true, ↓reduceIte]
          by_cases h3 : (getSchemeType b.scheme != 6) = true
          · simp only [h3, ↓reduceIte]
            rw [← hsp]
            exact relativeSchemeV_eq idna b frag d
          · simp only [h3, Bool.false_eq_true, ↓reduceIte]
            exact fileV_base idna _ frag d
    | some nr =>
      obtain ⟨name, rest⟩ := nr
      simp only
      rw [PS.parseSchemeNoOverride_spec]
      simp only [Option.map_some]
      by_cases h6 : (getSchemeType (name.map toLowerByte) == 6) = true
      · simp only [h6, ↓reduceIte]
        exact fileV_base idna _ frag rest
      · simp only [h6, Bool.false_eq_true, ↓reduceIte]
        have hbeq : ((some (getSchemeType b.scheme) : Option Nat) == some (getSchemeType (name.map toLowerByte))) =
            (getSchemeType b.scheme == getSchemeType (name.map toLowerByte)) := rfl
        rw [hbeq]
        by_cases hrel : (getSchemeType (name.map toLowerByte) != 1 && getSchemeType b.scheme == getSchemeType (name.map toLowerByte)) = true
        · simp only [hrel, ↓reduceIte]
          have hty : getSchemeType b.scheme = getSchemeType (name.map toLowerByte) := by
            simp only [Bool.and_eq_true, beq_iff_eq] at hrel; exact hrel.2
          have hspt : b.special = true := by
            rw [hsp, hty]; simp only [Bool.and_eq_true] at hrel; exact hrel.1
          split
          · exact afterSlashesV_eq idna true _ _ frag _
          · have := relativeSchemeV_eq idna b frag rest
            rw [hspt, hty] at this
            exact this
        · simp only [hrel, Bool.false_eq_true, ↓reduceIte]
          by_cases h1 : (getSchemeType (name.map toLowerByte) == 1) = true
          · simp only [h1, ↓reduceIte]
            exact afterSchemeNSV_eq idna _ frag rest
          · simp only [h1, Bool.false_eq_true, ↓reduceIte]
            unfold afterScheme
            exact afterSlashesV_eq idna true _ _ frag _

/-! ### what a valid run leaves for a later run -/
theorem finish_fields (sp : Bool) (ty : Nat) (scheme : Bytes) (cred : Cred) (frag : Option Bytes) (h : Bytes) (port : Option Nat) (t : Bytes)
    (r : Rec) (hr : finish sp ty scheme cred frag h port t = .ok r) : r.scheme = scheme ∧ r.opq = false := by
  unfold finish at hr
  injection hr with hr
  subst hr
  exact ⟨rfl, rfl⟩

theorem afterAuthority_fields (idna : Idna) (sp : Bool) (ty : Nat) (scheme : Bytes) (frag : Option Bytes) (v : Bytes) (cred : Cred)
    (r : Rec) (hr : afterAuthority idna sp ty scheme frag v cred = .ok r) : r.scheme = scheme ∧ r.opq = false := by
  unfold afterAuthority at hr
  simp only at hr
  split at hr
  · split at hr
    · cases hr
    · split at hr
      · cases hr
      · exact finish_fields _ _ _ _ _ _ _ _ r hr
  · split at hr
    · split at hr
      · cases hr
      · exact finish_fields _ _ _ _ _ _ _ _ r hr
    · split at hr
      · cases hr
      · exact finish_fields _ _ _ _ _ _ _ _ r hr

theorem afterSlashes_fields (idna : Idna) (sp : Bool) (ty : Nat) (scheme : Bytes) (frag : Option Bytes) (text : Bytes)
    (r : Rec) (hr : afterSlashes idna sp ty scheme frag text = .ok r) : r.scheme = scheme ∧ r.opq = false := by
  unfold afterSlashes at hr
  split at hr
  · cases hr
  · exact afterAuthority_fields _ _ _ _ _ _ _ r hr

theorem filePath_fields (frag : Option Bytes) (t : Bytes) (r : Rec) (hr : filePath frag t = .ok r) : r.scheme = bFile ∧ r.opq = false := by
  unfold filePath at hr
  injection hr with hr
  subst hr
  exact ⟨rfl, rfl⟩

theorem fileHost_fields (idna : Idna) (frag : Option Bytes) (t : Bytes) (r : Rec) (hr : ParseSpecial.fileHost idna frag t = .ok r) :
    r.scheme = bFile ∧ r.opq = false := by
  unfold ParseSpecial.fileHost at hr
  simp only at hr
  split at hr
  · exact filePath_fields _ _ r hr
  · split at hr
    · exact finish_fields _ _ _ _ _ _ _ _ r hr
    · split at hr
      · cases hr
      · exact finish_fields _ _ _ _ _ _ _ _ r hr

theorem afterSchemeFile_fields (idna : Idna) (frag : Option Bytes) (t : Bytes) (r : Rec) (hr : afterSchemeFile idna frag t = .ok r) :
    r.scheme = bFile ∧ r.opq = false := by
  unfold afterSchemeFile at hr
  split at hr
  · split at hr
    · split at hr
      · split at hr
        · exact fileHost_fields _ _ _ r hr
        · exact filePath_fields _ _ r hr
      · exact filePath_fields _ _ r hr
    · exact filePath_fields _ _ r hr
  · exact filePath_fields _ _ r hr

theorem afterSchemeNSV_path (idna : Idna) (r : Bytes) (h : r.head? ≠ some 0x2F) : afterSchemeNSV idna (0x2F :: r) = (true, false) := by
  unfold afterSchemeNSV
  split
  · rename_i heq
    injection heq with _ heq
    rw [heq] at h
    exact absurd rfl h
  · rfl
  · rename_i h1 h2
    exact absurd rfl (h2 r)

theorem afterSchemeNSV_opaque (idna : Idna) (rest : Bytes) (h : rest.head? ≠ some 0x2F) : afterSchemeNSV idna rest = (true, true) := by
  unfold afterSchemeNSV
  split
  · exact absurd rfl h
  · exact absurd rfl h
  · rfl

theorem afterSchemeNS_fields (idna : Idna) (scheme : Bytes) (frag : Option Bytes) (rest : Bytes) (r : Rec)
    (hr : afterSchemeNS idna scheme frag rest = .ok r) : r.scheme = scheme ∧ r.opq = (afterSchemeNSV idna rest).2 := by
  have hopq : ∀ rest', rest'.head? ≠ some 0x2F → afterSchemeNS idna scheme frag rest' = .ok r →
      r.scheme = scheme ∧ r.opq = (afterSchemeNSV idna rest').2 := by
    intro rest' h hr'
    rw [PS.afterSchemeNS_opaque _ _ _ _ h] at hr'
    rw [afterSchemeNSV_opaque idna rest' h]
    unfold opaquePath at hr'
    injection hr' with hr'
    subst hr'
    exact ⟨rfl, rfl⟩
  have hpath : ∀ r', r'.head? ≠ some 0x2F → afterSchemeNS idna scheme frag (0x2F :: r') = .ok r →
      r.scheme = scheme ∧ r.opq = (afterSchemeNSV idna (0x2F :: r')).2 := by
    intro r' h hr'
    rw [PS.afterSchemeNS_path _ _ _ _ h] at hr'
    rw [afterSchemeNSV_path idna r' h]
    injection hr' with hr'
    subst hr'
    exact ⟨rfl, rfl⟩
  cases rest with
  | nil => exact hopq [] (by simp) hr
  | cons c r1 =>
    by_cases hc : c = 0x2F
    · subst hc
      cases r1 with
      | nil => exact hpath [] (by simp) hr
      | cons c2 r2 =>
        by_cases hc2 : c2 = 0x2F
        · subst hc2
          rw [PS.afterSchemeNS_auth] at hr
          exact afterSlashes_fields _ _ _ _ _ _ r hr
        · exact hpath (c2 :: r2) (by simp; exact fun e => hc2 e) hr
    · exact hopq (c :: r1) (by simp; exact fun e => hc e) hr

/-- what a valid run without a base leaves for a later run that uses its result as the base -/
theorem machineV_leaves (idna : Idna) (input : Bytes) (r : Rec) (h : machine idna input = .ok r) :
    (machineV idna none input).ty = getSchemeType r.scheme ∧ (machineV idna none input).opq = r.opq := by
  unfold machine at h
  unfold machineV
  generalize prep input = pd at h ⊢
  obtain ⟨d, frag⟩ := pd
  simp only at h ⊢
  generalize schemeScan d = ss at h ⊢
  cases ss with
    | none => cases h
    | some nr =>
      obtain ⟨name, rest⟩ := nr
      simp only at h ⊢
      rw [PS.parseSchemeNoOverride_spec] at h ⊢
      simp only [Option.map_none] at h ⊢
      by_cases h6 : (getSchemeType (name.map toLowerByte) == 6) = true
      · simp only [h6, ↓reduceIte] at h ⊢
        obtain ⟨e1, e2⟩ := afterSchemeFile_fields idna frag rest r h
        rw [e1, e2]
        exact ⟨by decide +kernel, rfl⟩
      · simp only [h6, Bool.false_eq_true, ↓reduceIte] at h ⊢
        have hnb : ((none : Option Nat) == some (getSchemeType (name.map toLowerByte))) = false := rfl
        simp only [hnb, Bool.and_false, Bool.false_eq_true, ↓reduceIte]
        by_cases h1 : (getSchemeType (name.map toLowerByte) == 1) = true
        · simp only [h1, ↓reduceIte] at h ⊢
          obtain ⟨e1, e2⟩ := afterSchemeNS_fields idna _ frag rest r h
          rw [e1, e2]
          exact ⟨by have : getSchemeType (name.map toLowerByte) = 1 := by simpa using h1
                    exact this.symm, rfl⟩
        · simp only [h1, Bool.false_eq_true, ↓reduceIte] at h ⊢
          unfold afterScheme at h
          obtain ⟨e1, e2⟩ := afterSlashes_fields idna true _ _ frag _ r h
          rw [e1, e2]
          exact ⟨rfl, rfl⟩

/-! ### the segments of a parsed path contain no '/' (without a base) -/
theorem pathStartState_noSlash (scheme text : Bytes) : PP.NoSlash (pathStartState scheme text) := by
  unfold pathStartState
  split
  · split
    · split <;> exact AggL.pathState_noSlash _ _
    · exact AggL.pathState_noSlash _ _
  · split
    · intro s hs; cases hs
    · split <;> exact AggL.pathState_noSlash _ _

theorem fromAuthority_noSlash (idna : Idna) (scheme text : Bytes) (u : Url) (h : fromAuthority idna scheme text = some u) :
    PP.NoSlash u.path := by
  unfold fromAuthority at h
  simp only at h
  split at h
  · cases h
  · injection h with h; subst h; exact pathStartState_noSlash _ _

theorem fileHost_noSlash (idna : Idna) (text : Bytes) (u : Url) (h : Spec.fileHost idna text = some u) : PP.NoSlash u.path := by
  unfold Spec.fileHost at h
  simp only at h
  split at h
  · injection h with h; subst h; exact AggL.pathState_noSlash _ _
  · split at h
    · injection h with h; subst h; exact pathStartState_noSlash bFile _
    · split at h
      · cases h
      · injection h with h; subst h; exact pathStartState_noSlash bFile _

theorem fileState_noSlash (idna : Idna) (pre tail : Bytes) (hQ hF : Bool) (u : Url) (h : fileState idna none pre tail hQ hF = some u) :
    PP.NoSlash u.path := by
  unfold fileState fileState.fileElse at h
  simp only [baseIsFile] at h
  split at h
  · split at h
    · unfold fileSlash fileSlash.fileSlashElse at h
      simp only [baseIsFile] at h
      split at h
      · split at h
        · exact fileHost_noSlash idna _ u h
        · injection h with h; subst h; exact AggL.pathState_noSlash _ _
      · injection h with h; subst h; exact AggL.pathState_noSlash _ _
    · injection h with h; subst h; exact AggL.pathState_noSlash _ _
  · injection h with h; subst h; exact AggL.pathState_noSlash _ _

theorem parse_noSlash (idna : Idna) (input : Bytes) (u : Url) (h : parse idna input none = some u) : PP.NoSlash u.path := by
  unfold parse at h
  simp only at h
  split at h
  · cases h
  · rename_i u0 hc
    have h0 : PP.NoSlash u0.path := by
      unfold parseCore at hc
      split at hc
      · simp only at hc
        split at hc
        · exact fileState_noSlash idna _ _ _ _ u0 hc
        · split at hc
          · exact fromAuthority_noSlash idna _ _ u0 hc
          · split at hc
            · exact fromAuthority_noSlash idna _ _ u0 hc
            · injection hc with hc; subst hc; exact AggL.pathState_noSlash _ _
            · injection hc with hc; subst hc; intro s hs; cases hs
      · cases hc
    injection h with h
    subst h
    split <;> split <;> exact h0

end AdaVerif.Lemmas.PV

import AdaVerif.Lemmas.FastSpec
import AdaVerif.Model.FastScan
/-
C08: the decimal IPv4 kernel of the fast scanner (`parse_ipv4_decimal_scalar`) only accepts texts the Standard's
IPv4 parser accepts, and those texts end in a number.
-/
namespace AdaVerif.Lemmas.FS
open AdaVerif AdaVerif.Spec AdaVerif.Lemmas AdaVerif.Model.FastScan

theorem isDigit_eq (b : UInt8) : isDigit b = isAsciiDigit b := rfl

theorem digit_facts2 : ∀ b : UInt8, isAsciiDigit b = true →
    digitVal b = b.toNat - 0x30 ∧ b ≠ 0x2E ∧ b.toNat - 0x30 ≤ 9 ∧ (b.toNat - 0x30 = 0 → b = 0x30) ∧ isRadixDigit 10 b = true := by
  apply forall_uint8_of_fin; decide +kernel

/-- a decimal number without a leading zero is read as decimal by the IPv4 number parser -/
theorem ipv4Number_dec (ds : Bytes) (hne : ds ≠ []) (hd : ∀ b ∈ ds, isAsciiDigit b = true)
    (hlead : ∀ c x rest, ds = c :: x :: rest → c ≠ 0x30) : ipv4Number ds = some (parseRadix 10 ds) := by
  have hall : ds.all (isRadixDigit 10) = true := by
    simp only [List.all_eq_true]; intro b hb; exact (digit_facts2 b (hd b hb)).2.2.2.2
  have hemp : ds.isEmpty = false := isEmpty_false_of_ne hne
  unfold ipv4Number
  simp only [hemp, Bool.false_eq_true, ↓reduceIte]
  split
  · rename_i x rest
    exact absurd rfl (hlead 0x30 x rest rfl)
  · simp only [hemp, Bool.false_eq_true, ↓reduceIte, hall]

theorem decPart_spec (p : Bytes) (v : Nat) (p' : Bytes) (h : decPart p = some (v, p')) :
    ∃ ds, p = ds ++ p' ∧ ds ≠ [] ∧ (∀ b ∈ ds, isAsciiDigit b = true) ∧ ipv4Number ds = some v ∧ v ≤ 255 := by
  unfold decPart at h
  split at h; · cases h
  rename_i c p1
  split at h; · cases h
  rename_i hc
  have hc' : isAsciiDigit c = true := by simpa [isDigit_eq] using hc
  have fc := digit_facts2 c hc'
  simp only at h
  split at h
  · rename_i c1 p2
    split at h
    · rename_i hc1
      have hc1' : isAsciiDigit c1 = true := by simpa [isDigit_eq] using hc1
      have fc1 := digit_facts2 c1 hc1'
      split at h; · cases h
      rename_i hv0
      have hcne : c ≠ 0x30 := by
        intro e; subst e; simp at hv0
      split at h
      · rename_i c2 p3
        split at h
        · rename_i hc2
          have hc2' : isAsciiDigit c2 = true := by simpa [isDigit_eq] using hc2
          have fc2 := digit_facts2 c2 hc2'
          split at h; · cases h
          rename_i hle
          injection h with h; injection h with h1 h2; subst h1; subst h2
          refine ⟨[c, c1, c2], rfl, by simp, ?_, ?_, by omega⟩
          · intro b hb; simp at hb; rcases hb with rfl | rfl | rfl <;> assumption
          · rw [ipv4Number_dec [c, c1, c2] (by simp) (by intro b hb; simp at hb; rcases hb with rfl | rfl | rfl <;> assumption)
              (by intro a x r e; injection e with e1 _; subst e1; exact hcne)]
            simp [parseRadix, fc.1, fc1.1, fc2.1]
        · injection h with h; injection h with h1 h2; subst h1; subst h2
          refine ⟨[c, c1], rfl, by simp, ?_, ?_, by omega⟩
          · intro b hb; simp at hb; rcases hb with rfl | rfl <;> assumption
          · rw [ipv4Number_dec [c, c1] (by simp) (by intro b hb; simp at hb; rcases hb with rfl | rfl <;> assumption)
              (by intro a x r e; injection e with e1 _; subst e1; exact hcne)]
            simp [parseRadix, fc.1, fc1.1]
      · injection h with h; injection h with h1 h2; subst h1; subst h2
        refine ⟨[c, c1], rfl, by simp, ?_, ?_, by omega⟩
        · intro b hb; simp at hb; rcases hb with rfl | rfl <;> assumption
        · rw [ipv4Number_dec [c, c1] (by simp) (by intro b hb; simp at hb; rcases hb with rfl | rfl <;> assumption)
            (by intro a x r e; injection e with e1 _; subst e1; exact hcne)]
          simp [parseRadix, fc.1, fc1.1]
    · injection h with h; injection h with h1 h2; subst h1; subst h2
      refine ⟨[c], rfl, by simp, ?_, ?_, by omega⟩
      · intro b hb; simp at hb; subst hb; exact hc'
      · rw [ipv4Number_dec [c] (by simp) (by intro b hb; simp at hb; subst hb; exact hc') (by intro a x r e; cases e)]
        simp [parseRadix, fc.1]
  · injection h with h; injection h with h1 h2; subst h1; subst h2
    refine ⟨[c], rfl, by simp, ?_, ?_, by omega⟩
    · intro b hb; simp at hb; subst hb; exact hc'
    · rw [ipv4Number_dec [c] (by simp) (by intro b hb; simp at hb; subst hb; exact hc') (by intro a x r e; cases e)]
      simp [parseRadix, fc.1]

theorem nodot_of_digits (ds : Bytes) (h : ∀ b ∈ ds, isAsciiDigit b = true) : (0x2E : UInt8) ∉ ds :=
  fun hm => (digit_facts2 _ (h _ hm)).2.1 rfl

/-- four decimal parts, optionally followed by one dot -/
theorem ipv4Decimal_shape (s : Bytes) (ip : Nat) (h : ipv4Decimal s = some ip) :
    ∃ da db dc dd : Bytes, ∃ va vb vc vd : Nat, ∃ tail : Bytes,
      s = da ++ 0x2E :: (db ++ 0x2E :: (dc ++ 0x2E :: (dd ++ tail))) ∧ (tail = [] ∨ tail = [0x2E]) ∧
      (∀ b ∈ da, isAsciiDigit b = true) ∧ (∀ b ∈ db, isAsciiDigit b = true) ∧ (∀ b ∈ dc, isAsciiDigit b = true) ∧
      (∀ b ∈ dd, isAsciiDigit b = true) ∧ dd ≠ [] ∧
      ipv4Number da = some va ∧ ipv4Number db = some vb ∧ ipv4Number dc = some vc ∧ ipv4Number dd = some vd ∧
      va ≤ 255 ∧ vb ≤ 255 ∧ vc ≤ 255 ∧ vd ≤ 255 := by
  unfold ipv4Decimal at h
  split at h; · cases h
  rename_i va p1 h1
  split at h <;> try cases h
  rename_i p1'
  split at h; · cases h
  rename_i vb p2 h2
  split at h <;> try cases h
  rename_i p2'
  split at h; · cases h
  rename_i vc p3 h3
  split at h <;> try cases h
  rename_i p3'
  split at h; · cases h
  rename_i vd p4 h4
  obtain ⟨da, e1, _, d1, n1, l1⟩ := decPart_spec _ _ _ h1
  obtain ⟨db, e2, _, d2, n2, l2⟩ := decPart_spec _ _ _ h2
  obtain ⟨dc, e3, _, d3, n3, l3⟩ := decPart_spec _ _ _ h3
  obtain ⟨dd, e4, ne4, d4, n4, l4⟩ := decPart_spec _ _ _ h4
  have htail : p4 = [] ∨ p4 = [0x2E] := by
    simp only at h
    split at h
    · left; rfl
    · right; rfl
    · cases h
  exact ⟨da, db, dc, dd, va, vb, vc, vd, p4, by rw [e1, e2, e3, e4], htail, d1, d2, d3, d4, ne4, n1, n2, n3, n4, l1, l2, l3, l4⟩

/-- what the decimal kernel accepts, the Standard's IPv4 parser accepts, and the ends-in-a-number checker says yes -/
theorem ipv4Decimal_sound (s : Bytes) (ip : Nat) (h : ipv4Decimal s = some ip) :
    endsInANumber s = true ∧ (ipv4Parse s).isSome = true ∧ (∀ b ∈ s, isAsciiDigit b = true ∨ b = 0x2E) := by
  obtain ⟨da, db, dc, dd, va, vb, vc, vd, tail, hs, htail, d1, d2, d3, d4, ne4, n1, n2, n3, n4, l1, l2, l3, l4⟩ :=
    ipv4Decimal_shape s ip h
  have x1 := nodot_of_digits da d1
  have x2 := nodot_of_digits db d2
  have x3 := nodot_of_digits dc d3
  have x4 := nodot_of_digits dd d4
  have hdd : dd.all isAsciiDigit = true := by simpa [List.all_eq_true] using d4
  have hne : dd.isEmpty = false := isEmpty_false_of_ne ne4
  have hbytes : ∀ b ∈ s, isAsciiDigit b = true ∨ b = 0x2E := by
    intro b hb
    rw [hs] at hb
    simp only [List.mem_append, List.mem_cons] at hb
    rcases htail with rfl | rfl
    · rcases hb with hb | rfl | hb | rfl | hb | rfl | hb | hb
      · exact Or.inl (d1 b hb)
      · exact Or.inr rfl
      · exact Or.inl (d2 b hb)
      · exact Or.inr rfl
      · exact Or.inl (d3 b hb)
      · exact Or.inr rfl
      · exact Or.inl (d4 b hb)
      · simp at hb
    · rcases hb with hb | rfl | hb | rfl | hb | rfl | hb | hb
      · exact Or.inl (d1 b hb)
      · exact Or.inr rfl
      · exact Or.inl (d2 b hb)
      · exact Or.inr rfl
      · exact Or.inl (d3 b hb)
      · exact Or.inr rfl
      · exact Or.inl (d4 b hb)
      · simp at hb; exact Or.inr hb
  have hddne : (some dd == some ([] : Bytes)) = false := by
    simp only [beq_eq_false_iff_ne, ne_eq, Option.some.injEq]; exact ne4
  refine ⟨?_, ?_, hbytes⟩
  · rcases htail with rfl | rfl
    · have hsp : splitOn 0x2E s = [da, db, dc, dd] := by
        rw [hs, List.append_nil, splitOn_append _ _ _ x1, splitOn_append _ _ _ x2, splitOn_append _ _ _ x3, splitOn_no_sep _ _ x4]
      unfold endsInANumber
      simp [hsp, hddne, hne, hdd, ne4]
    · have hsp : splitOn 0x2E s = [da, db, dc, dd, []] := by
        rw [hs, splitOn_append _ _ _ x1, splitOn_append _ _ _ x2, splitOn_append _ _ _ x3, splitOn_append _ _ _ x4]
        rfl
      unfold endsInANumber
      simp [hsp, hne, hdd]
  · have hlast : ¬ vd ≥ 256 ^ (5 - 4) := by simp; omega
    have hfront : ([va, vb, vc].any fun x => decide (x > 255)) = false := by
      simp only [List.any_cons, List.any_nil, Bool.or_false, Bool.or_eq_false_iff, decide_eq_false_iff_not]
      omega
    rcases htail with rfl | rfl
    · have hsp : splitOn 0x2E s = [da, db, dc, dd] := by
        rw [hs, List.append_nil, splitOn_append _ _ _ x1, splitOn_append _ _ _ x2, splitOn_append _ _ _ x3, splitOn_no_sep _ _ x4]
      unfold ipv4Parse
      simp only [hsp, List.getLast?_cons_cons, List.getLast?_singleton, hddne, Bool.false_and, Bool.false_eq_true, ↓reduceIte,
        List.length_cons, List.length_nil, List.mapM_cons, List.mapM_nil, n1, n2, n3, n4]
      simp [hfront, hlast]
    · have hsp : splitOn 0x2E s = [da, db, dc, dd, []] := by
        rw [hs, splitOn_append _ _ _ x1, splitOn_append _ _ _ x2, splitOn_append _ _ _ x3, splitOn_append _ _ _ x4]
        rfl
      unfold ipv4Parse
      simp only [hsp, List.getLast?_cons_cons, List.getLast?_singleton, List.length_cons, List.length_nil]
      simp [n1, n2, n3, n4, hfront, hlast]

end AdaVerif.Lemmas.FS

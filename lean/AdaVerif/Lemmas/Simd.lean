import AdaVerif.Model.Simd
namespace AdaVerif.Lemmas
open AdaVerif AdaVerif.Model

theorem findIdx?_none_of_all {l : Bytes} {cls : UInt8 → Bool} (h : ∀ x ∈ l, cls x = false) : l.findIdx? cls = none :=
  List.findIdx?_eq_none_iff.mpr h

theorem findIdx?_skip {s w : Bytes} {cls : UInt8 → Bool} (h : ∀ x ∈ s, cls x = false) :
    (s ++ w).findIdx? cls = (w.findIdx? cls).map (· + s.length) := by
  rw [List.findIdx?_append, findIdx?_none_of_all h]; simp

/-- the loop, stated on the decomposition `v.drop loc = scanned ++ w` -/
theorem blockLoop_correct (cls : UInt8 → Bool) (v : Bytes) (loc : Nat) (f : Nat) (scanned w : Bytes)
    (hv : v.drop loc = scanned ++ w) (hloc : loc ≤ v.length)
    (hno : ∀ x ∈ scanned, cls x = false) (hfuel : w.length ≤ 16 * f)
    (h16 : scanned.length + w.length ≥ 16) :
    blockLoop cls v f (loc + scanned.length) =
      (match w.findIdx? cls with | some k => loc + scanned.length + k | none => v.length) := by
  have hn : v.length = loc + scanned.length + w.length := by
    have := congrArg List.length hv
    simp at this; omega
  have hdrop : v.drop (loc + scanned.length) = w := by
    rw [← List.drop_drop, hv, List.drop_left']; rfl
  induction f generalizing scanned w with
  | zero =>
    have : w = [] := by cases w with | nil => rfl | cons => simp at hfuel
    subst this; simp [blockLoop]
  | succ f ih =>
    unfold blockLoop
    by_cases hbig : loc + scanned.length + 15 < v.length
    · simp only [hbig, ↓reduceIte]
      have hw16 : 16 ≤ w.length := by omega
      have hsplit : w = w.take 16 ++ w.drop 16 := (List.take_append_drop 16 w).symm
      have hbh : blockHit cls v (loc + scanned.length) = (w.take 16).findIdx? cls := by
        unfold blockHit; rw [hdrop]
      rw [hbh]
      cases hh : (w.take 16).findIdx? cls with
      | some k =>
        have : w.findIdx? cls = some k := by
          rw [hsplit, List.findIdx?_append, hh]; rfl
        simp [this]
      | none =>
        have hnone : ∀ x ∈ w.take 16, cls x = false := List.findIdx?_eq_none_iff.mp hh
        have hlt : (w.take 16).length = 16 := by simp; omega
        have e := ih (scanned ++ w.take 16) (w.drop 16)
          (by rw [hv, List.append_assoc, List.take_append_drop])
          (by intro x hx; rcases List.mem_append.mp hx with h | h; exact hno x h; exact hnone x h)
          (by simp; omega) (by simp; omega) (by simp; omega)
          (by rw [List.length_append, hlt, ← Nat.add_assoc, ← List.drop_drop, hdrop])
        simp only [List.length_append, hlt] at e
        have e' : loc + scanned.length + 16 = loc + (scanned.length + 16) := by omega
        rw [e', e]
        have : w.findIdx? cls = ((w.drop 16).findIdx? cls).map (· + 16) := by
          conv => lhs; rw [hsplit]
          rw [findIdx?_skip hnone, hlt]
        rw [this]
        cases hq : (w.drop 16).findIdx? cls with
        | none => rfl
        | some k =>
          simp only [Option.map_some]
          show loc + (scanned.length + 16) + k = loc + scanned.length + (k + 16)
          omega
    · simp only [hbig, ↓reduceIte]
      by_cases hlt : loc + scanned.length < v.length
      · simp only [hlt, ↓reduceIte]
        -- tail: the last 16 bytes = end of `scanned` ++ w
        have hwl : w.length < 16 := by omega
        have hw0 : 0 < w.length := by omega
        let m := scanned.length - (16 - w.length)
        have hm : m + (16 - w.length) = scanned.length := by omega
        have htail : v.drop (v.length - 16) = scanned.drop m ++ w := by
          have : v.length - 16 = loc + m := by omega
          rw [this, ← List.drop_drop, hv, List.drop_append_of_le_length (by omega)]
        have hbh : blockHit cls v (v.length - 16) = (scanned.drop m ++ w).findIdx? cls := by
          unfold blockHit
          rw [htail, List.take_of_length_le (by simp; omega)]
        rw [hbh, findIdx?_skip (fun x hx => hno x (List.mem_of_mem_drop hx))]
        have hdl : (scanned.drop m).length = 16 - w.length := by simp; omega
        rw [hdl]
        cases w.findIdx? cls with
        | none => rfl
        | some k => simp; omega
      · simp only [hlt, ↓reduceIte]
        have : w = [] := by
          cases w with
          | nil => rfl
          | cons => simp at hn; omega
        subst this; simp

/-- **T1b**: the SIMD block loop (with its overlapping tail re-load) returns exactly what the
    scalar search returns, for every byte string, every start position and every byte class. -/
theorem blockFind_eq_scalar (cls : UInt8 → Bool) (v : Bytes) (loc : Nat) (hloc : loc ≤ v.length) :
    blockFind cls v loc = scalarFind cls v loc := by
  unfold blockFind
  split
  · rfl
  · rename_i h
    have := blockLoop_correct cls v loc v.length [] (v.drop loc) (by simp) hloc (by simp)
      (by simp; omega) (by simp; omega)
    simp only [List.length_nil, Nat.add_zero] at this
    rw [this]
    unfold scalarFind
    cases (v.drop loc).findIdx? cls <;> rfl

/-- **T1c**: every 16-byte load of the vector path lies inside the buffer -/
theorem loads_in_bounds (v : Bytes) (f i : Nat) (h16 : 16 ≤ v.length) :
    ∀ s ∈ loadOffsets v f i, s + 16 ≤ v.length := by
  induction f generalizing i with
  | zero => simp [loadOffsets]
  | succ f ih =>
    unfold loadOffsets
    split
    · intro s hs
      rcases List.mem_cons.mp hs with rfl | h
      · omega
      · exact ih (i + 16) s h
    · split
      · intro s hs; simp at hs; omega
      · simp

end AdaVerif.Lemmas

namespace AdaVerif.Lemmas
open AdaVerif AdaVerif.Model

theorem blockHit_lt (cls : UInt8 → Bool) (v : Bytes) (s k : Nat) (h : blockHit cls v s = some k) :
    s + k < v.length := by
  unfold blockHit at h
  have := (List.findIdx?_eq_some_iff_getElem.mp h).1
  simp at this
  omega

theorem anyLoop_eq (cls : UInt8 → Bool) (v : Bytes) (f i : Nat) :
    anyLoop cls v f i = decide (blockLoop cls v f i < v.length) := by
  induction f generalizing i with
  | zero => simp [anyLoop, blockLoop]
  | succ f ih =>
    unfold anyLoop blockLoop
    split
    · cases hb : blockHit cls v i with
      | none => simp [ih]
      | some k =>
        have := blockHit_lt cls v i k hb
        simp [this]
    · split
      · cases hb : blockHit cls v (v.length - 16) with
        | none => simp
        | some k =>
          have := blockHit_lt cls v _ k hb
          simp [this]
      · simp

theorem scalarFind_lt_iff_any (cls : UInt8 → Bool) (v : Bytes) :
    decide (scalarFind cls v 0 < v.length) = v.any cls := by
  unfold scalarFind
  simp only [List.drop_zero, Nat.zero_add]
  cases h : v.findIdx? cls with
  | none =>
    have := List.findIdx?_eq_none_iff.mp h
    have hany : v.any cls = false := by
      apply Bool.eq_false_iff.mpr
      intro ha
      obtain ⟨x, hx, hc⟩ := List.any_eq_true.mp ha
      rw [this x hx] at hc; cases hc
    simp [hany]
  | some k =>
    have hk := (List.findIdx?_eq_some_iff_getElem.mp h)
    obtain ⟨hlt, hc, _⟩ := hk
    have hany : v.any cls = true := List.any_eq_true.mpr ⟨v[k], List.getElem_mem hlt, hc⟩
    simp [hany, hlt]

/-- `has_tabs_or_newline`: the OR-accumulating block loop answers "some byte is in the class" -/
theorem hasAny_eq (cls : UInt8 → Bool) (v : Bytes) : hasAny cls v = v.any cls := by
  unfold hasAny
  split
  · rfl
  · rename_i h
    rw [anyLoop_eq]
    have hb := blockFind_eq_scalar cls v 0 (Nat.zero_le _)
    unfold blockFind at hb
    have : ¬ (v.length - 0 < 16) := by omega
    simp only [this, ↓reduceIte] at hb
    rw [hb]
    exact scalarFind_lt_iff_any cls v

end AdaVerif.Lemmas

import AdaVerif.Spec.Host
/-
IPv4: parsing a serialized address is the identity, for all 2^32 addresses (by arithmetic, not
enumeration; the only enumerations are over the 256 values of one dotted-decimal part).
-/
namespace AdaVerif.Lemmas
open AdaVerif AdaVerif.Spec

theorem splitOn_no_sep (sep : UInt8) (a : Bytes) (h : sep ∉ a) : splitOn sep a = [a] := by
  induction a with
  | nil => rfl
  | cons b t ih =>
    have hb : b ≠ sep := fun e => h (by simp [e])
    have ht : sep ∉ t := fun e => h (by simp [e])
    simp [splitOn, hb, ih ht]

theorem splitOn_append (sep : UInt8) (a r : Bytes) (h : sep ∉ a) :
    splitOn sep (a ++ sep :: r) = a :: splitOn sep r := by
  induction a with
  | nil => simp [splitOn]
  | cons b t ih =>
    have hb : b ≠ sep := fun e => h (by simp [e])
    have ht : sep ∉ t := fun e => h (by simp [e])
    simp [splitOn, hb, ih ht]

/-- facts about one dotted-decimal part, for all 256 values -/
theorem part_facts : ∀ n : Fin 256,
    ipv4Number (natToDec n.val) = some n.val ∧ (0x2E : UInt8) ∉ natToDec n.val ∧ natToDec n.val ≠ [] ∧
    (natToDec n.val).all isAsciiDigit = true := by decide +kernel

theorem part_number (n : Nat) (h : n < 256) : ipv4Number (natToDec n) = some n := (part_facts ⟨n, h⟩).1
theorem part_nodot (n : Nat) (h : n < 256) : (0x2E : UInt8) ∉ natToDec n := (part_facts ⟨n, h⟩).2.1
theorem part_ne_nil (n : Nat) (h : n < 256) : natToDec n ≠ [] := (part_facts ⟨n, h⟩).2.2.1
theorem part_digits (n : Nat) (h : n < 256) : (natToDec n).all isAsciiDigit = true := (part_facts ⟨n, h⟩).2.2.2

theorem split_serialized (a : Nat) :
    splitOn 0x2E (ipv4Serialize a) =
      [natToDec (a / 16777216 % 256), natToDec (a / 65536 % 256), natToDec (a / 256 % 256), natToDec (a % 256)] := by
  unfold ipv4Serialize
  have h1 := part_nodot (a / 16777216 % 256) (Nat.mod_lt _ (by decide))
  have h2 := part_nodot (a / 65536 % 256) (Nat.mod_lt _ (by decide))
  have h3 := part_nodot (a / 256 % 256) (Nat.mod_lt _ (by decide))
  have h4 := part_nodot (a % 256) (Nat.mod_lt _ (by decide))
  simp only [List.append_assoc, List.singleton_append, List.cons_append, List.nil_append]
  rw [splitOn_append _ _ _ h1, splitOn_append _ _ _ h2, splitOn_append _ _ _ h3, splitOn_no_sep _ _ h4]

/-- **IPv4 round trip**: parsing the serialization of any 32-bit address returns that address. -/
theorem ipv4_roundtrip (a : Nat) (ha : a < 4294967296) : ipv4Parse (ipv4Serialize a) = some a := by
  unfold ipv4Parse
  rw [split_serialized]
  have l1 : a / 16777216 % 256 < 256 := Nat.mod_lt _ (by decide)
  have l2 : a / 65536 % 256 < 256 := Nat.mod_lt _ (by decide)
  have l3 : a / 256 % 256 < 256 := Nat.mod_lt _ (by decide)
  have l4 : a % 256 < 256 := Nat.mod_lt _ (by decide)
  have hne := part_ne_nil _ l4
  simp only [List.getLast?_cons_cons, List.getLast?_singleton, List.length_cons, List.length_nil]
  have : (some (natToDec (a % 256)) == some ([] : Bytes)) = false := by
    simp only [beq_eq_false_iff_ne, ne_eq, Option.some.injEq]; exact hne
  simp only [this, Bool.false_and, Bool.false_eq_true, ↓reduceIte]
  simp only [List.mapM_cons, List.mapM_nil, part_number _ l1, part_number _ l2, part_number _ l3, part_number _ l4,
    Option.pure_def, Option.bind_eq_bind, Option.bind_some]
  simp only [List.getLast?_cons_cons, List.getLast?_singleton, List.dropLast, List.any_cons, List.any_nil,
    List.length_cons, List.length_nil]
  have g1 : ¬ (a / 16777216 % 256 > 255) := by omega
  have g2 : ¬ (a / 65536 % 256 > 255) := by omega
  have g3 : ¬ (a / 256 % 256 > 255) := by omega
  simp only [decide_eq_true_eq, g1, g2, g3, Bool.or_self, Bool.false_eq_true, ↓reduceIte]
  have g4 : ¬ (a % 256 ≥ 256 ^ (5 - (0 + 1 + 1 + 1 + 1))) := by
    have : 256 ^ (5 - (0 + 1 + 1 + 1 + 1)) = 256 := by decide
    rw [this]; omega
  simp only [g4, ↓reduceIte, ipv4Parse.go]
  have e3 : 256 ^ (3 - 0) = 16777216 := by decide
  have e2 : 256 ^ (3 - (0 + 1)) = 65536 := by decide
  have e1 : 256 ^ (3 - (0 + 1 + 1)) = 256 := by decide
  rw [e3, e2, e1]
  have key : a % 256 + a / 16777216 % 256 * 16777216 + a / 65536 % 256 * 65536 + a / 256 % 256 * 256 = a := by
    omega
  simp [key]

/-- a serialized IPv4 address "ends in a number", so the host parser routes it to the IPv4 parser -/
theorem ipv4_endsInANumber (a : Nat) : endsInANumber (ipv4Serialize a) = true := by
  unfold endsInANumber
  rw [split_serialized]
  have l4 : a % 256 < 256 := Nat.mod_lt _ (by decide)
  have hne := part_ne_nil _ l4
  have hd := part_digits _ l4
  simp only [List.getLast?_cons_cons, List.getLast?_singleton]
  have : (some (natToDec (a % 256)) == some ([] : Bytes)) = false := by
    simp only [beq_eq_false_iff_ne, ne_eq, Option.some.injEq]; exact hne
  simp only [this, Bool.false_eq_true, ↓reduceIte, List.getLast?_cons_cons, List.getLast?_singleton]
  have : (natToDec (a % 256)).isEmpty = false := by
    cases h : natToDec (a % 256) with
    | nil => exact absurd h hne
    | cons => rfl
  simp [this, hd]

end AdaVerif.Lemmas

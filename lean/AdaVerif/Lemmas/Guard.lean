import AdaVerif.Model.Guard
namespace AdaVerif.Lemmas
open AdaVerif.Model

variable {σ : Type} (size : σ → Nat) (L : Nat)

/-- atomic failure: a guarded operation that reports failure leaves the state untouched -/
theorem guarded_atomic (run : σ → Option σ) (s : σ) (h : (guarded size L run s).2 = false) :
    (guarded size L run s).1 = s := by
  unfold guarded at *
  split
  · rfl
  · split
    · rename_i h1 h2; simp [h1, h2] at h
    · rfl

/-- the bound is kept -/
theorem guarded_bounded (run : σ → Option σ) (s : σ) (h : size s ≤ L) :
    size (guarded size L run s).1 ≤ L := by
  unfold guarded
  split
  · exact h
  · split
    · assumption
    · exact h

/-- transparency: when the result fits, the limit changes nothing -/
theorem guarded_transparent (run : σ → Option σ) (s s' : σ) (L' : Nat) (hr : run s = some s')
    (h : size s' ≤ L) (h' : size s' ≤ L') : guarded size L run s = guarded size L' run s := by
  unfold guarded
  simp [hr, h, h']

/-- success returns exactly what the unguarded operation computes -/
theorem guarded_success (run : σ → Option σ) (s : σ) (h : (guarded size L run s).2 = true) :
    run s = some (guarded size L run s).1 := by
  unfold guarded at *
  split
  · rename_i h1; simp [h1] at h
  · rename_i s' h1
    split
    · exact h1
    · rename_i h2; simp [h1, h2] at h

theorem history_bounded (ops : List (σ → Option σ)) (s : σ) (h : size s ≤ L) :
    size (history size L ops s) ≤ L := by
  unfold history
  induction ops generalizing s with
  | nil => exact h
  | cons op rest ih => exact ih _ (guarded_bounded size L op s h)

end AdaVerif.Lemmas

import AdaVerif.Lemmas.PathFast
import AdaVerif.Lemmas.ParseCanon
/-
The "trivial path" shortcut of `parse_prepared_path`: when the signature says that nothing has to be encoded or
removed, appending "/" + input is what the path state does.
-/
namespace AdaVerif.Lemmas.PP
open AdaVerif AdaVerif.Spec AdaVerif.Lemmas AdaVerif.Lemmas.FP AdaVerif.Model.PathPrepared

/-- joining the pieces with '/' gives the text back -/
theorem pathText_split (l : Bytes) : pathText (splitPath false l) = 0x2F :: l := by
  induction l with
  | nil => rfl
  | cons b t ih =>
    simp only [splitPath, Bool.false_and, Bool.or_false]
    split
    · rename_i hb
      have : b = 0x2F := by simpa using hb
      subst this
      simp only [pathText, List.flatMap_cons, List.append_nil] at ih ⊢
      simp [ih]
    · cases hsp : splitPath false t with
      | nil => exact absurd hsp (splitPath_ne_nil false t)
      | cons h tl =>
        rw [hsp] at ih
        simp only [pathText, List.flatMap_cons] at ih ⊢
        simp only [List.cons_append, List.cons.injEq, true_and] at ih ⊢
        exact ih

theorem pathText_append (a b : List Bytes) : pathText (a ++ b) = pathText a ++ pathText b := by
  simp [pathText, List.flatMap_append]

def NotDot (p : Bytes) : Prop := p ≠ [0x2E] ∧ p ≠ [0x2E, 0x2E]

/-- the `"/."` scan: every piece after the first is neither "." nor ".." -/
theorem dotIsFile_tail (l : Bytes) (h : dotIsFile l = true) : ∀ p ∈ (splitPath false l).tail, NotDot p := by
  fun_induction dotIsFile l with
  | case1 rest ih =>
    -- l = '/' :: '.' :: rest
    simp only [Bool.and_eq_true] at h
    obtain ⟨hhead, hrest⟩ := h
    have e : splitPath false (0x2F :: 0x2E :: rest) = [] :: splitPath false (0x2E :: rest) := by simp [splitPath]
    rw [e]
    simp only [List.tail_cons]
    cases hsp : splitPath false rest with
    | nil => exact absurd hsp (splitPath_ne_nil false rest)
    | cons q0 tl =>
      have e2 : splitPath false (0x2E :: rest) = (0x2E :: q0) :: tl := by simp [splitPath, hsp]
      rw [e2]
      intro p hp
      rcases List.mem_cons.mp hp with rfl | hp
      · -- the piece that starts with '.': its second byte is neither '.' nor the end
        cases rest with
        | nil => simp at hhead
        | cons c r =>
          simp only [Bool.not_eq_eq_eq_not, Bool.not_true, Bool.or_eq_false_iff, beq_eq_false_iff_ne] at hhead
          have hc : (c == 0x2F) = false := by simpa using hhead.2
          simp only [splitPath, hc, Bool.false_and, Bool.or_false, Bool.false_eq_true, ↓reduceIte] at hsp
          cases hsp2 : splitPath false r with
          | nil => exact absurd hsp2 (splitPath_ne_nil false r)
          | cons q tl2 =>
            rw [hsp2] at hsp
            injection hsp with h1 _
            subst h1
            constructor
            · simp
            · simp [hhead.1]
      · have := ih hrest
        rw [hsp] at this
        exact this p (by simpa using hp)
  | case2 x rest hnot ih =>
    -- not "/." at the front
    have hd : dotIsFile rest = true := h
    have ih' := ih hd
    by_cases hx : x = 0x2F
    · subst hx
      have e : splitPath false (0x2F :: rest) = [] :: splitPath false rest := by simp [splitPath]
      rw [e]
      simp only [List.tail_cons]
      cases hsp : splitPath false rest with
      | nil => exact absurd hsp (splitPath_ne_nil false rest)
      | cons q0 tl =>
        rw [hsp] at ih'
        intro p hp
        rcases List.mem_cons.mp hp with rfl | hp
        · -- first piece of `rest`: `rest` does not start with '.'
          cases rest with
          | nil => simp [splitPath] at hsp; obtain ⟨h1, _⟩ := hsp; subst h1; constructor <;> simp
          | cons c r =>
            have hc : c ≠ 0x2E := by
              intro e; subst e
              exact hnot r rfl rfl
            simp only [splitPath, Bool.false_and, Bool.or_false] at hsp
            split at hsp
            · injection hsp with h1 _; subst h1; constructor <;> simp
            · cases hsp2 : splitPath false r with
              | nil => exact absurd hsp2 (splitPath_ne_nil false r)
              | cons q tl2 =>
                rw [hsp2] at hsp
                injection hsp with h1 _
                subst h1
                constructor <;> simp [hc]
        · exact ih' p (by simpa using hp)
    · have hx' : (x == 0x2F) = false := by simpa using hx
      cases hsp : splitPath false rest with
      | nil => exact absurd hsp (splitPath_ne_nil false rest)
      | cons q0 tl =>
        have e : splitPath false (x :: rest) = (x :: q0) :: tl := by simp [splitPath, hx', hsp]
        rw [e]
        rw [hsp] at ih'
        simpa using ih'
  | case3 => intro p hp; simp [splitPath] at hp

/-- the first piece is the text up to the first separator -/
theorem splitPath_first (sp : Bool) (l p0 : Bytes) (tl : List Bytes) (h : splitPath sp l = p0 :: tl) :
    l = p0 ∨ ∃ c r, l = p0 ++ c :: r ∧ isSep sp c = true := by
  induction l generalizing p0 tl with
  | nil => simp [splitPath] at h; left; exact h.1.symm
  | cons b t ih =>
    simp only [splitPath] at h
    split at h
    · rename_i hb
      injection h with h1 _
      subst h1
      right; exact ⟨b, t, rfl, by simpa [isSep] using hb⟩
    · cases hsp : splitPath sp t with
      | nil => exact absurd hsp (splitPath_ne_nil sp t)
      | cons q tl' =>
        rw [hsp] at h
        injection h with h1 _
        subst h1
        rcases ih q tl' hsp with e | ⟨c, r, e, hc⟩
        · left; rw [e]
        · right; exact ⟨c, r, by rw [e]; rfl, hc⟩

theorem first_drive (sp : Bool) (l p0 : Bytes) (tl : List Bytes) (h : splitPath sp l = p0 :: tl)
    (hd : Spec.isWindowsDriveLetter p0 = true) : Model.PathPrepared.isWindowsDriveLetter l = true := by
  unfold Spec.isWindowsDriveLetter at hd
  split at hd
  · rename_i a b
    rcases splitPath_first sp l [a, b] tl h with e | ⟨c, r, e, hc⟩
    · subst e
      simpa [Model.PathPrepared.isWindowsDriveLetter, isAlpha_model_eq] using hd
    · subst e
      simp only [isSep, Bool.or_eq_true, beq_iff_eq, Bool.and_eq_true] at hc
      have hc' : (c == 0x2F || c == 0x5C || c == 0x3F || c == 0x23) = true := by
        rcases hc with e | e
        · simp [e]
        · simp [e.2]
      simp only [Bool.and_eq_true] at hd
      simp [Model.PathPrepared.isWindowsDriveLetter, isAlpha_model_eq, hd.1, hd.2, hc']
  · cases hd

/-- when no piece needs any work, the path state appends the pieces -/
theorem trivial_eq (scheme : Bytes) (input : Bytes) (segs : List Bytes)
    (hplain : ∀ b ∈ input, inPath b = false ∧ b ≠ 0x25)
    (hbs : isSpecialScheme scheme = true → ∀ b ∈ input, b ≠ 0x5C)
    (hnd : ∀ p ∈ splitPath false input, NotDot p)
    (hdrv : scheme = bFile → Model.PathPrepared.isWindowsDriveLetter input = false) :
    pathText (pathSegments scheme (splitPath (isSpecialScheme scheme) input) segs) = pathText segs ++ 0x2F :: input := by
  have hsplit : splitPath (isSpecialScheme scheme) input = splitPath false input := by
    cases hsp : isSpecialScheme scheme with
    | false => rfl
    | true => exact splitPath_nobs input (fun hm => hbs hsp _ hm rfl)
  have hpieces : ∀ p ∈ splitPath (isSpecialScheme scheme) input, SegOk (isSpecialScheme scheme) p := by
    intro p hp
    have hmem := splitPath_mem _ input p hp
    obtain ⟨hdd, hsd⟩ := dots_literal p (fun b hb => (hplain b (hmem b hb)).2)
    have hnot := hnd p (by rw [← hsplit]; exact hp)
    refine ⟨fun b hb => (hplain b (hmem b hb)).1, PC.splitPath_sepfree _ input p hp, ?_, ?_⟩
    · rw [hsd]; simpa using hnot.1
    · rw [hdd]; simpa using hnot.2
  rw [pathSegments_canon scheme _ segs hpieces (fun hf _ s hs hw => by
    cases hsp : splitPath (isSpecialScheme scheme) input with
    | nil => rw [hsp] at hs; cases hs
    | cons p0 tl =>
      rw [hsp] at hs
      simp only [List.head?_cons, Option.some.injEq] at hs
      subst hs
      have := first_drive _ input p0 tl hsp hw
      rw [hdrv hf] at this; cases this)]
  rw [pathText_append, hsplit, pathText_split]

end AdaVerif.Lemmas.PP
